(* C06  Entitlement authorization algebra: executable model, transcribed from
     /repo/sema/access.go                (PermitsAccess, Equal, IntersectAccess, Image, entitlementImage)
     /repo/sema/type_tags.go             (leastCommonAccess)
     /repo/sema/check_member_expression.go (GetDescendantReferenceType,
                                          intersectReferenceAuthorizationsInType, isReadableMember /
                                          mapAccessToAuthorization for members reached through references)
     /repo/common/orderedmap/orderedmap.go (Set, SetAll, ForAllKeys, ForAnyKey, KeySetIntersection, KeySetUnion)
   Definitions only; the specification is in Spec.v and the proofs in Proofs.v. *)
From CV Require Export Base.Prelude.

(* Entitlements are drawn from an unbounded universe. *)
Definition ent := Z.

(* ---------------------------------------------------------------- ordered sets (orderedmap) *)
(* An ordered set is the list of its keys in insertion order. *)
Definition mem (x : ent) (s : list ent) : bool := existsb (Z.eqb x) s.                 (* Contains *)
Definition oset_set (s : list ent) (x : ent) : list ent := if mem x s then s else s ++ [x].  (* Set *)
Definition oset_set_all (s other : list ent) : list ent := fold_left oset_set other s.  (* SetAll *)
Definition key_inter (a b : list ent) : list ent :=                                     (* KeySetIntersection *)
  fold_left (fun acc k => if mem k b then oset_set acc k else acc) a [].
Definition key_union (a b : list ent) : list ent := oset_set_all (oset_set_all [] a) b. (* KeySetUnion *)
(* ForAllKeys = forallb, ForAnyKey = existsb (on an initialised map, which is what every
   constructor of EntitlementSetAccess produces). *)

(* ---------------------------------------------------------------- accesses *)
(* ast.PrimitiveAccess, in declaration order (the order is used by PrimitiveAccess.PermitsAccess) *)
Inductive prim := PNotSpecified | PNone | PSelf | PContract | PAccount | PAll | PPubSettableLegacy.
Definition prim_val (p : prim) : Z :=
  match p with
  | PNotSpecified => 0 | PNone => 1 | PSelf => 2 | PContract => 3 | PAccount => 4 | PAll => 5
  | PPubSettableLegacy => 6
  end.
Definition prim_eqb (p q : prim) : bool := prim_val p =? prim_val q.

Inductive kind := Conj | Disj.
Definition kind_eqb (a b : kind) : bool :=
  match a, b with Conj, Conj | Disj, Disj => true | _, _ => false end.

(* sema.Access: PrimitiveAccess | EntitlementSetAccess | *EntitlementMapAccess (identified by its map type) *)
Inductive access :=
| APrim (p : prim)
| ASet (k : kind) (s : list ent)
| AMap (m : Z).

Definition Unauthorized := APrim PAll.     (* sema.UnauthorizedAccess = PrimitiveAccess(ast.AccessAll) *)
Definition Inaccessible := APrim PNone.    (* sema.InaccessibleAccess = PrimitiveAccess(ast.AccessNone) *)

(* e.PermitsAccess(other): the receiver is the requirement / supertype authorization,
   the argument is what is possessed / the subtype authorization. *)
Definition permits (e other : access) : bool :=
  match e with
  | ASet ek es =>
      match other with
      | APrim p => prim_eqb p PSelf
      | ASet ok os =>
          match ok with
          | Disj =>
              match ek with
              | Disj => forallb (fun o => mem o es) os
              | Conj => forallb (fun o => forallb (fun ekey => o =? ekey) es) os
              end
          | Conj =>
              match ek with
              | Conj => forallb (fun ekey => mem ekey os) es
              | Disj => existsb (fun ekey => mem ekey os) es
              end
          end
      | AMap _ => false
      end
  | AMap _ =>
      match other with
      | APrim p => prim_eqb p PSelf
      | _ => false
      end
  | APrim a =>
      if prim_eqb a PNone
      then match other with APrim o => prim_eqb o PNone | _ => false end
      else match other with
           | APrim o => prim_val a >=? prim_val o
           | _ => negb (prim_eqb a PSelf)
           end
  end.

Definition equal (e other : access) : bool :=
  match e with
  | ASet ek es =>
      match other with
      | ASet ok os => kind_eqb ek ok && permits e other && permits other e
      | _ => false
      end
  | AMap m => match other with AMap m' => m =? m' | _ => false end
  | APrim p => match other with APrim q => prim_eqb p q | _ => false end
  end.

(* NewAccessFromEntitlementOrderedSet *)
Definition access_of_oset (s : list ent) (k : kind) : access :=
  match s with [] => Unauthorized | _ => ASet k s end.

Definition intersect (a b : access) : access :=
  match a with
  | ASet ak aS =>
      match b with
      | ASet bk bS =>
          match ak, bk with
          | Conj, Conj => access_of_oset (key_inter aS bS) Conj
          | Conj, Disj => if forallb (fun k => mem k aS) bS then b else Unauthorized
          | Disj, Conj => if forallb (fun k => mem k bS) aS then a else Unauthorized
          | Disj, Disj => Unauthorized
          end
      | _ => Unauthorized
      end
  | _ => Unauthorized
  end.

(* leastCommonAccess (sema/type_tags.go) *)
Definition lca_conj_disj (cS dS : list ent) : access :=
  if permits (ASet Disj dS) (ASet Conj cS) then ASet Disj dS
  else access_of_oset (key_union cS dS) Disj.
Definition lca (a b : access) : access :=
  match a, b with
  | ASet Conj aS, ASet Conj bS =>
      match key_inter aS bS with
      | [] => access_of_oset (key_union aS bS) Disj
      | i => access_of_oset i Conj
      end
  | ASet Conj aS, ASet Disj bS => lca_conj_disj aS bS
  | ASet Disj aS, ASet Conj bS => lca_conj_disj bS aS
  | ASet Disj aS, ASet Disj bS => access_of_oset (key_union aS bS) Disj
  | _, _ => Unauthorized
  end.

(* ---------------------------------------------------------------- entitlement mappings *)
(* EntitlementMapType after inclusion resolution: Relations and IncludesIdentity *)
Record emap := { rels : list (ent * ent); incl_id : bool }.

(* entitlementImage: the ordered set of outputs of one entitlement *)
Definition ent_image (m : emap) (e : ent) : list ent :=
  let im := fold_left (fun acc r => if fst r =? e then oset_set acc (snd r) else acc) (rels m) [] in
  if incl_id m then oset_set im e else im.

(* Image.  The Go loop accumulates `output` (SetAll of every entitlementImage) and raises the
   UnrepresentableEntitlementMapOutputError (a checker error, Err UserOther here) when the input is a
   disjunction and some entitlementImage has more than one element. *)
Definition image_output (m : emap) (s : list ent) : list ent :=
  fold_left (fun out e => oset_set_all out (ent_image m e)) s [].
Definition image_unrepresentable (m : emap) (k : kind) (s : list ent) : bool :=
  match k with
  | Disj => existsb (fun e => 1 <? Z.of_nat (length (ent_image m e))) s
  | Conj => false
  end.
Definition image (m : emap) (inputs : access) : res access :=
  match inputs with
  | APrim _ => Ok inputs
  | ASet k s =>
      if image_unrepresentable m k s then Err UserOther
      else match image_output m s with
           | [] => Ok Unauthorized
           | out => Ok (ASet k out)
           end
  | AMap _ => Ok Unauthorized
  end.

(* Resolution of `include` chains (EntitlementMapType.resolveEntitlementMappingInclusions):
   a declaration lists its own relations, whether it includes Identity, and the declarations it includes
   (indices into the declaration list; the checker rejects cycles, the model stops at fuel 0). *)
Record mapdecl := { d_rels : list (ent * ent); d_identity : bool; d_includes : list nat }.
Definition rel_eqb (a b : ent * ent) : bool := (fst a =? fst b) && (snd a =? snd b).
Definition add_rel (acc : list (ent * ent)) (r : ent * ent) : list (ent * ent) :=
  if existsb (rel_eqb r) acc then acc else acc ++ [r].
Fixpoint resolve (fuel : nat) (ds : list mapdecl) (i : nat) : emap :=
  match fuel with
  | O => {| rels := []; incl_id := false |}
  | S f =>
      match nth_error ds i with
      | None => {| rels := []; incl_id := false |}
      | Some d =>
          fold_left (fun (acc : emap) j =>
                       let inc := resolve f ds j in
                       {| rels := fold_left add_rel (rels inc) (rels acc);
                          incl_id := incl_id acc || incl_id inc |})
                    (d_includes d)
                    {| rels := d_rels d; incl_id := d_identity d |}
      end
  end.

(* ---------------------------------------------------------------- nested references *)
(* the part of sema.Type that intersectReferenceAuthorizationsInType traverses *)
Inductive ty :=
| TBase (n : Z)
| TRef (a : access) (t : ty)
| TOpt (t : ty)
| TVar (t : ty)
| TConst (t : ty) (size : Z)
| TDict (k v : ty).

(* intersectReferenceAuthorizationsInType *)
Fixpoint narrow (outer : access) (t : ty) : ty :=
  match t with
  | TRef a t' => let i := intersect outer a in TRef i (narrow i t')
  | TOpt t' => TOpt (narrow outer t')
  | TVar t' => TVar (narrow outer t')
  | TConst t' n => TConst (narrow outer t') n
  | TDict k v => TDict (narrow outer k) (narrow outer v)
  | TBase n => TBase n
  end.

(* GetDescendantReferenceType *)
Fixpoint descendant (t : ty) (authorization outer : access) : ty :=
  match t with
  | TOpt t' => TOpt (descendant t' authorization outer)
  | TRef a t' => let i := intersect outer a in TRef i (narrow i t')
  | _ => TRef authorization (narrow outer t)
  end.

(* ---------------------------------------------------------------- members reached through a reference *)
(* a member of the referenced composite: entitlement-set (or access(all)) access, or a mapped field *)
Inductive member :=
| MEnt (req : access)
| MMapped (m : emap).

(* what the checker decides for `ref.member`, ref : auth(a) &T, and the authorization of the
   reference that the access yields (isReadableMember; mapAccessToAuthorization) *)
Inductive reach := Rejected | Reached (a : access).
Definition member_via (a : access) (mb : member) : reach :=
  match mb with
  | MEnt req => if permits req a then Reached Unauthorized else Rejected
  | MMapped m => match image m a with Ok r => Reached r | Err _ => Rejected end
  end.

(* reference subtyping with the same referenced type: IsSubType = type equality (ReferenceType.Equal
   compares the authorizations with Equal) or the ReferenceType case of the subtype check *)
Definition ref_subtype (sub sup : access) : bool := equal sub sup || permits sup sub.

(* ---------------------------------------------------------------- comparison up to set equality *)
Definition subset (a b : list ent) : bool := forallb (fun x => mem x b) a.
Definition access_eqs (a b : access) : bool :=
  match a, b with
  | APrim p, APrim q => prim_eqb p q
  | ASet k s, ASet k' s' => kind_eqb k k' && subset s s' && subset s' s
  | AMap m, AMap m' => m =? m'
  | _, _ => false
  end.
Fixpoint ty_eqs (a b : ty) : bool :=
  match a, b with
  | TBase n, TBase n' => n =? n'
  | TRef x t, TRef x' t' => access_eqs x x' && ty_eqs t t'
  | TOpt t, TOpt t' => ty_eqs t t'
  | TVar t, TVar t' => ty_eqs t t'
  | TConst t n, TConst t' n' => (n =? n') && ty_eqs t t'
  | TDict k v, TDict k' v' => ty_eqs k k' && ty_eqs v v'
  | _, _ => false
  end.
