(* C06  Proofs about the model (Model.v) against the specification (Spec.v). *)
From CV Require Import C06.Model C06.Spec.

(* ---------------------------------------------------------------- ordered-set facts *)
Lemma mem_In x s : mem x s = true <-> In x s.
Proof.
  unfold mem. rewrite existsb_exists. split.
  - intros [y [Hy E]]. apply Z.eqb_eq in E. subst. exact Hy.
  - intros Hx. exists x. split; [exact Hx | apply Z.eqb_refl].
Qed.

Lemma mem_false x s : mem x s = false <-> ~ In x s.
Proof.
  split; intros H.
  - intro Hin. apply mem_In in Hin. congruence.
  - destruct (mem x s) eqn:E; [|reflexivity]. apply mem_In in E. contradiction.
Qed.

Lemma oset_set_In s x y : In y (oset_set s x) <-> In y s \/ y = x.
Proof.
  unfold oset_set. destruct (mem x s) eqn:E.
  - apply mem_In in E. split; [tauto|]. intros [H|H]; [exact H | subst; exact E].
  - rewrite in_app_iff. simpl. split.
    + intros [H|[H|[]]]; [left; exact H | right; symmetry; exact H].
    + intros [H|H]; [left; exact H | right; left; symmetry; exact H].
Qed.

Lemma oset_set_all_In o : forall s y, In y (oset_set_all s o) <-> In y s \/ In y o.
Proof.
  unfold oset_set_all. induction o as [|a o IH]; intros s y; simpl.
  - tauto.
  - rewrite IH, oset_set_In. split; intros H; intuition.
Qed.

Lemma key_inter_gen b : forall a acc y,
  In y (fold_left (fun acc k => if mem k b then oset_set acc k else acc) a acc)
  <-> In y acc \/ (In y a /\ In y b).
Proof.
  induction a as [|k a IH]; intros acc y; simpl.
  - tauto.
  - rewrite IH. destruct (mem k b) eqn:E.
    + apply mem_In in E. rewrite oset_set_In. split; intros H; intuition; subst; auto.
    + apply mem_false in E. split; intros H; intuition; subst; tauto.
Qed.

Lemma key_inter_In a b y : In y (key_inter a b) <-> In y a /\ In y b.
Proof. unfold key_inter. rewrite key_inter_gen. simpl. tauto. Qed.

Lemma key_union_In a b y : In y (key_union a b) <-> In y a \/ In y b.
Proof. unfold key_union. rewrite !oset_set_all_In. simpl. tauto. Qed.

Lemma subset_spec a b : subset a b = true <-> (forall x, In x a -> In x b).
Proof.
  unfold subset. rewrite forallb_forall. split; intros H x Hx.
  - apply mem_In. apply H. exact Hx.
  - apply mem_In. apply H. exact Hx.
Qed.

Lemma forallb_mem a b : forallb (fun x => mem x b) a = true <-> (forall x, In x a -> In x b).
Proof. exact (subset_spec a b). Qed.

Lemma existsb_mem a b : existsb (fun x => mem x b) a = true <-> (exists x, In x a /\ In x b).
Proof.
  rewrite existsb_exists. split; intros [x [H1 H2]]; exists x; split; auto; apply mem_In; auto.
Qed.

Lemma forallb_alleq es os :
  forallb (fun o => forallb (fun ekey => o =? ekey) es) os = true
  <-> (forall o e, In o os -> In e es -> o = e).
Proof.
  rewrite forallb_forall. split.
  - intros H o e Ho He. specialize (H o Ho). rewrite forallb_forall in H.
    apply Z.eqb_eq. apply H. exact He.
  - intros H o Ho. rewrite forallb_forall. intros e He. apply Z.eqb_eq. apply H; assumption.
Qed.

(* ---------------------------------------------------------------- permits: characterisation on sets *)
Lemma permits_set_set ek es ok os :
  permits (ASet ek es) (ASet ok os) = true <->
  match ok, ek with
  | Disj, Disj => forall x, In x os -> In x es
  | Disj, Conj => forall o e, In o os -> In e es -> o = e
  | Conj, Conj => forall x, In x es -> In x os
  | Conj, Disj => exists x, In x es /\ In x os
  end.
Proof.
  simpl. destruct ok, ek.
  - apply forallb_mem.
  - apply existsb_mem.
  - apply forallb_alleq.
  - apply forallb_mem.
Qed.

(* permits req have <-> every holder satisfying have satisfies req, for set/set pairs (including empty sets) *)
Lemma permits_sem_sets ek es ok os :
  permits (ASet ek es) (ASet ok os) = true <-> stronger (ASet ok os) (ASet ek es).
Proof.
  rewrite permits_set_set. unfold stronger. destruct ok, ek; simpl.
  - (* have Conj os, req Conj es *)
    split.
    + intros S H Hh x Hx. apply Hh. apply S. exact Hx.
    + intros S x Hx. apply (S (fun y => In y os)); auto.
  - (* have Conj os, req Disj es *)
    split.
    + intros [x [H1 H2]] H Hh. exists x. split; auto.
    + intros S. destruct (S (fun y => In y os) (fun y Hy => Hy)) as [x [H1 H2]]. exists x. split; assumption.
  - (* have Disj os, req Conj es *)
    split.
    + intros S H [o [Ho Hh]] e He. rewrite <- (S o e Ho He). exact Hh.
    + intros S o e Ho He. apply (S (fun y => o = y)); [exists o; split; [exact Ho | reflexivity] | exact He].
  - (* have Disj os, req Disj es *)
    split.
    + intros S H [o [Ho Hh]]. exists o. split; auto.
    + intros S x Hx. destruct (S (fun y => x = y)) as [y [H1 H2]].
      * exists x. auto.
      * subst. exact H1.
Qed.

Theorem permits_sem req have :
  is_authz req = true -> is_authz have = true ->
  ~ (req = ASet Conj [] /\ have = Unauthorized) ->
  (permits req have = true <-> stronger have req).
Proof.
  intros Hr Hh G.
  destruct req as [p|ek es|m]; try discriminate; destruct have as [q|ok os|m']; try discriminate.
  - destruct p; try discriminate. destruct q; try discriminate.
    simpl. split; [intros _ H _; exact I | reflexivity].
  - destruct p; try discriminate. simpl. split; [intros _ H _; exact I | reflexivity].
  - destruct q; try discriminate. simpl. split; [discriminate|].
    intros S. exfalso. unfold stronger in S. simpl in S. destruct ek.
    + destruct es as [|e es].
      * apply G. split; reflexivity.
      * apply (S (fun _ => False) I e). left. reflexivity.
    + destruct (S (fun _ => False) I) as [x [_ F]]. exact F.
  - apply permits_sem_sets.
Qed.

(* the empty-conjunction corner that the guard excludes *)
Lemma permits_sem_empty_conj_refuted :
  exists req have, is_authz req = true /\ is_authz have = true /\
    stronger have req /\ permits req have = false.
Proof.
  exists (ASet Conj []), Unauthorized. repeat split.
  intros H _ x [].
Qed.

(* ---------------------------------------------------------------- reflexivity, transitivity *)
Theorem permits_refl a : (forall m, a <> AMap m) -> permits a a = true.
Proof.
  intros Hm. destruct a as [p|k s|m].
  - destruct p; reflexivity.
  - destruct k; simpl; apply forallb_mem; auto.
  - exfalso. apply (Hm m). reflexivity.
Qed.

Lemma permits_refl_map_refuted : exists a, permits a a = false.
Proof. exists (AMap 1). reflexivity. Qed.

Lemma stronger_trans a b c : stronger a b -> stronger b c -> stronger a c.
Proof. unfold stronger. intros H1 H2 H Ha. auto. Qed.

Theorem permits_trans c b a :
  lang_access a = true -> lang_access b = true -> lang_access c = true ->
  permits c b = true -> permits b a = true -> permits c a = true.
Proof.
  intros La Lb Lc H1 H2.
  destruct c as [pc|kc sc|mc].
  - (* c primitive *)
    destruct b as [pb|kb sb|mb].
    + destruct a as [pa|ka sa|ma].
      * destruct pc, pb, pa; try discriminate; reflexivity.
      * destruct pc, pb; try discriminate; reflexivity.
      * destruct pc, pb; try discriminate; reflexivity.
    + destruct a as [pa|ka sa|ma].
      * destruct pc, pa; try discriminate; reflexivity.
      * destruct pc; try discriminate; reflexivity.
      * simpl in H2. discriminate.
    + destruct a as [pa|ka sa|ma]; try (simpl in H2; discriminate).
      destruct pc, pa; try discriminate; reflexivity.
  - (* c entitlement set *)
    destruct b as [pb|kb sb|mb].
    + destruct pb; try discriminate.
      destruct a as [pa|ka sa|ma].
      * destruct pa; try discriminate. reflexivity.
      * simpl in H2. discriminate.
      * simpl in H2. discriminate.
    + destruct a as [pa|ka sa|ma].
      * simpl in H2. simpl. exact H2.
      * apply permits_sem_sets. apply permits_sem_sets in H1. apply permits_sem_sets in H2.
        eapply stronger_trans; eauto.
      * simpl in H2. discriminate.
    + simpl in H1. discriminate.
  - (* c mapping *)
    destruct b as [pb|kb sb|mb]; try (simpl in H1; discriminate).
    destruct pb; try discriminate.
    destruct a as [pa|ka sa|ma]; try (simpl in H2; discriminate).
    destruct pa; try discriminate. reflexivity.
Qed.

(* outside the expressible accesses transitivity fails: the internal "none" access *)
Lemma permits_trans_refuted :
  exists c b a, permits c b = true /\ permits b a = true /\ permits c a = false.
Proof. exists (ASet Conj [1]), (APrim PSelf), (APrim PNone). repeat split. Qed.

(* ---------------------------------------------------------------- Equal *)
Theorem equal_sets k s k' s' :
  equal (ASet k s) (ASet k' s') = true <->
  k = k' /\ (forall x, In x s <-> In x s').
Proof.
  unfold equal. rewrite !andb_true_iff, !permits_set_set.
  destruct k, k'; simpl; split.
  - intros [[_ H1] H2]. split; [reflexivity|]. intro x; split; auto.
  - intros [_ H]. repeat split; intros x Hx; apply H; exact Hx.
  - intros [[F _] _]. discriminate.
  - intros [F _]. discriminate.
  - intros [[F _] _]. discriminate.
  - intros [F _]. discriminate.
  - intros [[_ H1] H2]. split; [reflexivity|]. intro x; split; auto.
  - intros [_ H]. repeat split; intros x Hx; apply H; exact Hx.
Qed.

Theorem equal_sound a b :
  (forall m, a <> AMap m) -> equal a b = true -> permits a b = true /\ permits b a = true.
Proof.
  intros Hm E. destruct a as [p|k s|m]; destruct b as [q|k' s'|m']; simpl in E; try discriminate.
  - unfold prim_eqb in E. apply Z.eqb_eq in E.
    destruct p, q; try discriminate E; split; reflexivity.
  - rewrite !andb_true_iff in E. tauto.
  - exfalso. apply (Hm m). reflexivity.
Qed.

Theorem equal_refl a : equal a a = true.
Proof.
  destruct a as [p|k s|m]; simpl.
  - unfold prim_eqb. apply Z.eqb_refl.
  - apply (equal_sets k s k s). split; [reflexivity | tauto].
  - apply Z.eqb_refl.
Qed.

Theorem equal_sym a b : equal a b = equal b a.
Proof.
  destruct a as [p|k s|m]; destruct b as [q|k' s'|m']; try reflexivity.
  - simpl. unfold prim_eqb. apply Z.eqb_sym.
  - unfold equal. destruct k, k'; simpl kind_eqb; try reflexivity;
      rewrite !andb_true_l; apply andb_comm.
  - simpl. apply Z.eqb_sym.
Qed.

Theorem equal_trans a b c : equal a b = true -> equal b c = true -> equal a c = true.
Proof.
  destruct a as [p|k s|m]; destruct b as [q|k' s'|m']; try (simpl; discriminate);
    destruct c as [r|k'' s''|m'']; try (simpl; discriminate).
  - simpl. unfold prim_eqb. rewrite !Z.eqb_eq. congruence.
  - rewrite !equal_sets. intros [E1 H1] [E2 H2]. split; [congruence|].
    intro x. rewrite H1. apply H2.
  - simpl. rewrite !Z.eqb_eq. congruence.
Qed.

(* Equal is finer than semantic equivalence: auth(E) and a one-element disjunction mean the same *)
Lemma equal_not_semantic :
  exists a b, stronger a b /\ stronger b a /\ equal a b = false.
Proof.
  exists (ASet Conj [1]), (ASet Disj [1]). repeat split.
  - intros H Hh. exists 1. split; [left; reflexivity | apply Hh; left; reflexivity].
  - intros H [x [[E|[]] Hx]] y [E'|[]]. subst. exact Hx.
Qed.

(* ---------------------------------------------------------------- IntersectAccess *)
Lemma permits_unauth a : ok_access a = true -> permits Unauthorized a = true.
Proof. destruct a as [p|k s|m]; [destruct p|..]; simpl; intro H; try reflexivity; discriminate. Qed.

Lemma access_of_oset_cases s k :
  (s = [] /\ access_of_oset s k = Unauthorized) \/ (s <> [] /\ access_of_oset s k = ASet k s).
Proof. destruct s; [left | right]; split; try reflexivity. discriminate. Qed.

Theorem intersect_no_escalation a b :
  ok_access a = true -> ok_access b = true ->
  permits (intersect a b) a = true /\ permits (intersect a b) b = true.
Proof.
  intros Ha Hb.
  destruct a as [p|ak aS|m]; try (split; apply permits_unauth; assumption).
  destruct b as [q|bk bS|m']; try (split; apply permits_unauth; assumption).
  destruct ak, bk; simpl intersect.
  - destruct (access_of_oset_cases (key_inter aS bS) Conj) as [[_ E]|[_ E]]; rewrite E.
    + split; reflexivity.
    + split; apply permits_set_set; intros x Hx; apply key_inter_In in Hx; tauto.
  - destruct (forallb (fun k => mem k aS) bS) eqn:E; [|split; reflexivity].
    rewrite forallb_mem in E. split.
    + apply permits_set_set. destruct bS as [|x bS]; [discriminate|].
      exists x. split; [left; reflexivity | apply E; left; reflexivity].
    + apply permits_set_set. auto.
  - destruct (forallb (fun k => mem k bS) aS) eqn:E; [|split; reflexivity].
    rewrite forallb_mem in E. split.
    + apply permits_set_set. auto.
    + apply permits_set_set. destruct aS as [|x aS]; [discriminate|].
      exists x. split; [left; reflexivity | apply E; left; reflexivity].
  - split; reflexivity.
Qed.

Lemma intersect_authz a b : is_authz (intersect a b) = true.
Proof.
  destruct a as [p|ak aS|m]; try reflexivity. destruct b as [q|bk bS|m']; try reflexivity.
  destruct ak, bk; simpl; try reflexivity.
  - destruct (key_inter aS bS); reflexivity.
  - destruct (forallb _ bS); reflexivity.
  - destruct (forallb _ aS); reflexivity.
Qed.

Lemma intersect_ok a b : ok_access a = true -> ok_access b = true -> ok_access (intersect a b) = true.
Proof.
  intros Ha Hb.
  destruct a as [p|ak aS|m]; try reflexivity. destruct b as [q|bk bS|m']; try reflexivity.
  destruct ak, bk; simpl; try reflexivity.
  - destruct (key_inter aS bS); reflexivity.
  - destruct (forallb _ bS); [exact Hb | reflexivity].
  - destruct (forallb _ aS); [exact Ha | reflexivity].
Qed.

Lemma intersect_nonempty a b :
  nonempty_sets a = true -> nonempty_sets b = true -> nonempty_sets (intersect a b) = true.
Proof.
  intros Ha Hb.
  destruct a as [p|ak aS|m]; try reflexivity. destruct b as [q|bk bS|m']; try reflexivity.
  destruct ak, bk; simpl; try reflexivity.
  - destruct (key_inter aS bS); reflexivity.
  - destruct (forallb _ bS); [exact Hb | reflexivity].
  - destruct (forallb _ aS); [exact Ha | reflexivity].
Qed.

Lemma intersect_nonempty' a b :
  nonempty_sets a = true -> ok_access b = true -> nonempty_sets (intersect a b) = true.
Proof.
  intros Ha Hb.
  destruct a as [p|ak aS|m]; try reflexivity. destruct b as [q|bk bS|m']; try reflexivity.
  destruct ak, bk; simpl; try reflexivity.
  - destruct (key_inter aS bS); reflexivity.
  - destruct (forallb _ bS); [|reflexivity]. destruct bS; [discriminate | reflexivity].
  - destruct (forallb _ aS); [exact Ha | reflexivity].
Qed.

(* semantic reading: whatever holder justified either side also justifies the result *)
Theorem intersect_sem a b H :
  wf_authz a = true -> wf_authz b = true ->
  sat a H \/ sat b H -> sat (intersect a b) H.
Proof.
  intros Wa Wb S.
  unfold wf_authz in *. apply andb_true_iff in Wa, Wb. destruct Wa as [Aa Na], Wb as [Ab Nb].
  assert (Oa : ok_access a = true) by (destruct a as [p|k s|m]; [destruct p|destruct k, s|]; try reflexivity; discriminate).
  assert (Ob : ok_access b = true) by (destruct b as [p|k s|m]; [destruct p|destruct k, s|]; try reflexivity; discriminate).
  destruct (intersect_no_escalation a b Oa Ob) as [P1 P2].
  assert (G : forall x, nonempty_sets x = true -> ~ (intersect a b = ASet Conj [] /\ x = Unauthorized)).
  { intros x _ [E _]. pose proof (intersect_nonempty a b Na Nb) as N. rewrite E in N. discriminate. }
  destruct S as [S|S].
  - apply (proj1 (permits_sem (intersect a b) a (intersect_authz a b) Aa (G a Na)) P1). exact S.
  - apply (proj1 (permits_sem (intersect a b) b (intersect_authz a b) Ab (G b Nb)) P2). exact S.
Qed.

(* ---------------------------------------------------------------- leastCommonAccess *)
Theorem lca_upper_bound a b :
  wf_authz a = true -> wf_authz b = true ->
  permits (lca a b) a = true /\ permits (lca a b) b = true.
Proof.
  intros Wa Wb.
  unfold wf_authz in *. apply andb_true_iff in Wa, Wb. destruct Wa as [Aa Na], Wb as [Ab Nb].
  assert (Oa : ok_access a = true) by (destruct a as [p|k s|m]; [destruct p|destruct k, s|]; try reflexivity; discriminate).
  assert (Ob : ok_access b = true) by (destruct b as [p|k s|m]; [destruct p|destruct k, s|]; try reflexivity; discriminate).
  destruct a as [p|ak aS|m]; try (split; apply permits_unauth; assumption).
  destruct b as [q|bk bS|m']; try (destruct ak; split; apply permits_unauth; assumption).
  assert (CD : forall cS dS, cS <> [] -> dS <> [] ->
            permits (lca_conj_disj cS dS) (ASet Conj cS) = true /\
            permits (lca_conj_disj cS dS) (ASet Disj dS) = true).
  { intros cS dS Hc Hd. unfold lca_conj_disj.
    destruct (permits (ASet Disj dS) (ASet Conj cS)) eqn:E.
    - split; [exact E|]. apply permits_set_set. auto.
    - destruct (access_of_oset_cases (key_union cS dS) Disj) as [[E0 _]|[_ E1]].
      + exfalso. destruct cS as [|x cS]; [apply Hc; reflexivity|].
        assert (In x (key_union (x :: cS) dS)) by (apply key_union_In; left; left; reflexivity).
        rewrite E0 in H. exact H.
      + rewrite E1. split; apply permits_set_set.
        * destruct cS as [|x cS]; [exfalso; apply Hc; reflexivity|].
          exists x. split; [apply key_union_In; left; left; reflexivity | left; reflexivity].
        * intros x Hx. apply key_union_In. right. exact Hx. }
  assert (NaS : aS <> []) by (destruct aS; [destruct ak; discriminate | discriminate]).
  assert (NbS : bS <> []) by (destruct bS; [destruct bk; discriminate | discriminate]).
  destruct ak, bk; simpl lca.
  - destruct (key_inter aS bS) as [|i l] eqn:E.
    + destruct (access_of_oset_cases (key_union aS bS) Disj) as [[E0 _]|[_ E1]].
      * exfalso. destruct aS as [|x aS]; [apply NaS; reflexivity|].
        assert (In x (key_union (x :: aS) bS)) by (apply key_union_In; left; left; reflexivity).
        rewrite E0 in H. exact H.
      * rewrite E1. split; apply permits_set_set.
        -- destruct aS as [|x aS]; [exfalso; apply NaS; reflexivity|].
           exists x. split; [apply key_union_In; left; left; reflexivity | left; reflexivity].
        -- destruct bS as [|x bS]; [exfalso; apply NbS; reflexivity|].
           exists x. split; [apply key_union_In; right; left; reflexivity | left; reflexivity].
    + simpl access_of_oset. rewrite <- E.
      split; apply permits_set_set; intros x Hx; apply key_inter_In in Hx; tauto.
  - apply CD; assumption.
  - destruct (CD bS aS NbS NaS) as [H1 H2]. split; assumption.
  - destruct (access_of_oset_cases (key_union aS bS) Disj) as [[E0 _]|[_ E1]].
    + exfalso. destruct aS as [|x aS]; [apply NaS; reflexivity|].
      assert (In x (key_union (x :: aS) bS)) by (apply key_union_In; left; left; reflexivity).
      rewrite E0 in H. exact H.
    + rewrite E1. split; apply permits_set_set; intros x Hx; apply key_union_In; auto.
Qed.

(* ---------------------------------------------------------------- mapping images *)
Lemma ent_image_fold e : forall rs acc y,
  In y (fold_left (fun acc (r : ent * ent) => if fst r =? e then oset_set acc (snd r) else acc) rs acc)
  <-> In y acc \/ In (e, y) rs.
Proof.
  induction rs as [|[a b] rs IH]; intros acc y; simpl.
  - tauto.
  - rewrite IH. destruct (a =? e) eqn:E.
    + apply Z.eqb_eq in E. subst a. rewrite oset_set_In. split; intros H.
      * destruct H as [[H|H]|H]; auto. subst. auto.
      * destruct H as [H|[H|H]]; auto. inversion H. auto.
    + apply Z.eqb_neq in E. split; intros H.
      * destruct H as [H|H]; auto.
      * destruct H as [H|[H|H]]; auto. inversion H. contradiction.
Qed.

Lemma ent_image_In m e y : In y (ent_image m e) <-> rel_holds m e y.
Proof.
  unfold ent_image, rel_holds. destruct (incl_id m).
  - rewrite oset_set_In, ent_image_fold. simpl. split; intros H.
    + destruct H as [[[]|H]|H]; auto.
    + destruct H as [H|[_ H]]; auto.
  - rewrite ent_image_fold. simpl. split; intros H.
    + destruct H as [[]|H]; auto.
    + destruct H as [H|[H _]]; [auto | discriminate].
Qed.

Lemma image_output_gen m : forall s acc y,
  In y (fold_left (fun out e => oset_set_all out (ent_image m e)) s acc)
  <-> In y acc \/ exists e, In e s /\ In y (ent_image m e).
Proof.
  induction s as [|a s IH]; intros acc y; simpl.
  - split; [auto | intros [H|[e [[] _]]]; exact H].
  - rewrite IH, oset_set_all_In. split; intros H.
    + destruct H as [[H|H]|[e [H1 H2]]]; auto.
      * right. exists a. auto.
      * right. exists e. auto.
    + destruct H as [H|[e [[H1|H1] H2]]]; auto.
      * subst. auto.
      * right. exists e. auto.
Qed.

Lemma image_output_In m s y :
  In y (image_output m s) <-> exists e, In e s /\ In y (ent_image m e).
Proof. unfold image_output. rewrite image_output_gen. simpl. tauto. Qed.

Lemma image_set_cases m k s r :
  image m (ASet k s) = Ok r ->
  image_unrepresentable m k s = false /\
  ((image_output m s = [] /\ r = Unauthorized) \/ (image_output m s <> [] /\ r = ASet k (image_output m s))).
Proof.
  simpl. destruct (image_unrepresentable m k s); [discriminate|].
  destruct (image_output m s) eqn:E; intros H; inversion H; split; auto.
  right. split; [discriminate | reflexivity].
Qed.

Lemma image_defined m a :
  (exists r, image m a = Ok r) \/
  (exists s, a = ASet Disj s /\ exists e, In e s /\ 1 < Z.of_nat (length (ent_image m e))).
Proof.
  destruct a as [p|k s|i]; simpl; try (left; eexists; reflexivity).
  destruct (image_unrepresentable m k s) eqn:E.
  - right. destruct k; [discriminate|]. simpl in E. apply existsb_exists in E.
    destruct E as [e [He Hl]]. exists s. split; [reflexivity|]. exists e. split; [exact He|].
    apply Z.ltb_lt. exact Hl.
  - left. destruct (image_output m s); eexists; reflexivity.
Qed.

Lemma image_conj_defined m s : exists r, image m (ASet Conj s) = Ok r.
Proof. simpl. destruct (image_output m s); eexists; reflexivity. Qed.

(* the result of Image is a well-formed authorization *)
Lemma image_wf m a r : is_authz a = true -> image m a = Ok r -> wf_authz r = true.
Proof.
  intros A E. destruct a as [p|k s|i]; try discriminate.
  - destruct p; try discriminate. inversion E. reflexivity.
  - apply image_set_cases in E. destruct E as [_ [[_ E]|[N E]]]; subst; [reflexivity|].
    unfold wf_authz. simpl. destruct (image_output m s); [exfalso; apply N; reflexivity | reflexivity].
Qed.

Lemma disj_total_spec m s :
  disj_total m (ASet Disj s) = true -> forall e, In e s -> exists y, In y (ent_image m e).
Proof.
  simpl. rewrite forallb_forall. intros H e He. specialize (H e He).
  destruct (ent_image m e) as [|y l]; [discriminate|]. exists y. left. reflexivity.
Qed.

(* Soundness of the mapping image against the relational meaning of the mapping:
   a holder H satisfying the source authorization obtains, through the mapping, a set of entitlements
   that satisfies the derived authorization. Holds when every member of a disjunctive source has an image. *)
Theorem image_sound_partial m a r H :
  is_authz a = true -> disj_total m a = true ->
  image m a = Ok r -> sat a H -> sat r (map_holder m H).
Proof.
  intros A T E S. destruct a as [p|k s|i]; try discriminate.
  - destruct p; try discriminate. inversion E. exact I.
  - apply image_set_cases in E. destruct E as [_ [[_ E]|[N E]]]; subst; [exact I|].
    destruct k; simpl.
    + intros y Hy. apply image_output_In in Hy. destruct Hy as [e [He Hy]].
      exists e. split; [apply S; exact He | apply ent_image_In; exact Hy].
    + destruct S as [e [He Hh]]. destruct (disj_total_spec m s T e He) as [y Hy].
      exists y. split.
      * apply image_output_In. exists e. auto.
      * exists e. split; [exact Hh | apply ent_image_In; exact Hy].
Qed.

Definition image_sound_statement : Prop :=
  forall m a r H, is_authz a = true -> image m a = Ok r -> sat a H -> sat r (map_holder m H).

(* A holder of entitlement 1 alone satisfies auth(1 | 2); the mapping {2 -> 10} gives it nothing;
   Image nevertheless derives auth(10). *)
Theorem image_sound_refuted : ~ image_sound_statement.
Proof.
  intro S.
  specialize (S {| rels := [(2, 10)]; incl_id := false |} (ASet Disj [1; 2]) (ASet Disj [10]) (fun x => x = 1)
                eq_refl eq_refl).
  destruct S as [y [Hy [x [Hx R]]]].
  - exists 1. split; [left; reflexivity | reflexivity].
  - subst x. destruct R as [R|[R _]]; [|discriminate].
    simpl in R. destruct R as [R|[]]. inversion R.
Qed.

(* Monotonicity: a stronger (subtype) authorization has a stronger image. *)
Theorem image_monotone_partial m sub sup rsub rsup :
  wf_authz sub = true -> wf_authz sup = true ->
  permits sup sub = true ->
  image m sup = Ok rsup -> image m sub = Ok rsub ->
  disj_total m sup = true \/ rsup = Unauthorized ->
  permits rsup rsub = true.
Proof.
  intros Wsub Wsup P Esup Esub G.
  assert (Rsub : wf_authz rsub = true).
  { apply (image_wf m sub); [|exact Esub]. unfold wf_authz in Wsub. apply andb_true_iff in Wsub. tauto. }
  assert (Osub : ok_access rsub = true).
  { destruct rsub as [p|k s|i]; [destruct p|destruct k, s|]; try reflexivity; discriminate. }
  destruct G as [G|G]; [|subst; apply permits_unauth; exact Osub].
  destruct sup as [p|ek es|i]; try discriminate.
  - destruct p; try discriminate. inversion Esup. apply permits_unauth. exact Osub.
  - destruct sub as [q|ok os|j]; try discriminate.
    + destruct q; try discriminate.
    + apply image_set_cases in Esup. destruct Esup as [_ [[_ E]|[Nsup E]]]; subst rsup;
        [apply permits_unauth; exact Osub|].
      apply image_set_cases in Esub. destruct Esub as [Usub Esub].
      apply permits_set_set in P.
      assert (Nes : es <> []) by (destruct es; [destruct ek; discriminate | discriminate]).
      assert (Nos : os <> []) by (destruct os; [destruct ok; discriminate | discriminate]).
      destruct ok, ek.
      * (* sub Conj os, sup Conj es, es ⊆ os *)
        assert (Sub : forall y, In y (image_output m es) -> In y (image_output m os)).
        { intros y Hy. apply image_output_In in Hy. destruct Hy as [e [He Hy]].
          apply image_output_In. exists e. auto. }
        destruct Esub as [[E0 _]|[_ E1]].
        -- exfalso. destruct (image_output m es) as [|y l]; [apply Nsup; reflexivity|].
           specialize (Sub y (or_introl eq_refl)). rewrite E0 in Sub. exact Sub.
        -- subst rsub. apply permits_set_set. exact Sub.
      * (* sub Conj os, sup Disj es, they intersect *)
        destruct P as [x [Hxe Hxo]].
        destruct (disj_total_spec m es G x Hxe) as [y Hy].
        assert (Yo : In y (image_output m os)) by (apply image_output_In; exists x; auto).
        assert (Ye : In y (image_output m es)) by (apply image_output_In; exists x; auto).
        destruct Esub as [[E0 _]|[_ E1]].
        -- rewrite E0 in Yo. destruct Yo.
        -- subst rsub. apply permits_set_set. exists y. auto.
      * (* sub Disj os, sup Conj es: all elements coincide *)
        destruct os as [|o os']; [exfalso; apply Nos; reflexivity|].
        assert (Same : forall y y', In y (image_output m (o :: os')) -> In y' (image_output m es) -> y = y').
        { intros y y' Hy Hy'. apply image_output_In in Hy. apply image_output_In in Hy'.
          destruct Hy as [a [Ha Hy]]. destruct Hy' as [b [Hb Hy']].
          assert (a = b) by (apply P; assumption). subst b.
          simpl in Usub. apply orb_false_iff in Usub. 
          assert (L : (1 <? Z.of_nat (length (ent_image m a))) = false).
          { destruct Ha as [Ha|Ha].
            - subst. tauto.
            - destruct Usub as [_ U]. 
              destruct (1 <? Z.of_nat (length (ent_image m a))) eqn:F; [|reflexivity].
              exfalso. assert (existsb (fun e => 1 <? Z.of_nat (length (ent_image m e))) os' = true).
              { apply existsb_exists. exists a. auto. }
              congruence. }
          apply Z.ltb_ge in L.
          destruct (ent_image m a) as [|u [|v l]].
          - destruct Hy.
          - destruct Hy as [Hy|[]]. destruct Hy' as [Hy'|[]]. congruence.
          - simpl length in L. lia. }
        destruct Esub as [[E0 E1]|[_ E1]]; subst rsub.
        -- (* sub image empty, sup image not: impossible, the sets have the same single source *)
           exfalso. destruct (image_output m es) as [|y l] eqn:Ees; [apply Nsup; reflexivity|].
           assert (Hy : In y (image_output m es)) by (rewrite Ees; left; reflexivity).
           apply image_output_In in Hy. destruct Hy as [b [Hb Hy]].
           assert (o = b) by (apply P; [left; reflexivity | exact Hb]). subst b.
           assert (In y (image_output m (o :: os'))).
           { apply image_output_In. exists o. split; [left; reflexivity | exact Hy]. }
           rewrite E0 in H. exact H.
        -- apply permits_set_set. intros y y' Hy Hy'. apply Same; assumption.
      * (* sub Disj os ⊆ sup Disj es *)
        destruct Esub as [[E0 _]|[_ E1]].
        -- exfalso. destruct os as [|o os']; [apply Nos; reflexivity|].
           destruct (disj_total_spec m es G o (P o (or_introl eq_refl))) as [y Hy].
           assert (In y (image_output m (o :: os'))).
           { apply image_output_In. exists o. split; [left; reflexivity | exact Hy]. }
           rewrite E0 in H. exact H.
        -- subst rsub. apply permits_set_set. intros y Hy.
           apply image_output_In in Hy. destruct Hy as [e [He Hy]].
           apply image_output_In. exists e. split; [apply P; exact He | exact Hy].
Qed.

Definition image_monotone_statement : Prop :=
  forall m sub sup rsub rsup,
    wf_authz sub = true -> wf_authz sup = true -> permits sup sub = true ->
    image m sup = Ok rsup -> image m sub = Ok rsub -> permits rsup rsub = true.

(* upcasting auth(1) to auth(1 | 2) and mapping through {2 -> 10} yields auth(10); the original yields nothing *)
Theorem image_monotone_refuted : ~ image_monotone_statement.
Proof.
  intro S.
  specialize (S {| rels := [(2, 10)]; incl_id := false |}
                (ASet Conj [1]) (ASet Disj [1; 2]) Unauthorized (ASet Disj [10])
                eq_refl eq_refl eq_refl eq_refl eq_refl).
  discriminate S.
Qed.

(* ---------------------------------------------------------------- members reached through upcast references *)
Lemma ref_subtype_permits sub sup :
  wf_authz sub = true -> ref_subtype sub sup = true -> permits sup sub = true.
Proof.
  intros W H. unfold ref_subtype in H. apply orb_true_iff in H. destruct H as [H|H]; [|exact H].
  apply equal_sound in H; [tauto|]. intros m E. subst. discriminate.
Qed.

(* If a reference with authorization sub can be upcast to sup, then whatever is reached through sup is
   reached through sub with at least the same authorization -- or, for a mapped field only, the access
   through sub is rejected by the checker because sub is a disjunction and the mapping is one-to-many
   on one of its members (the documented "unrepresentable" rejection). *)
Theorem upcast_no_escalation_partial sub sup mb rsup :
  wf_authz sub = true -> wf_authz sup = true ->
  ref_subtype sub sup = true ->
  match mb with MEnt req => lang_access req = true | MMapped m => disj_total m sup = true \/ rsup = Unauthorized end ->
  member_via sup mb = Reached rsup ->
  match member_via sub mb with
  | Reached rsub => permits rsup rsub = true
  | Rejected =>
      exists m s, mb = MMapped m /\ sub = ASet Disj s /\
                  exists e, In e s /\ 1 < Z.of_nat (length (ent_image m e))
  end.
Proof.
  intros Wsub Wsup P G R. apply ref_subtype_permits in P; [|exact Wsub].
  assert (Lsub : lang_access sub = true /\ lang_access sup = true).
  { unfold wf_authz in *. apply andb_true_iff in Wsub, Wsup.
    destruct sub as [p|k s|i], sup as [q|k' s'|i']; try (destruct p); try (destruct q); simpl in *; tauto. }
  destruct mb as [req|m]; simpl in *.
  - destruct (permits req sup) eqn:E; [|discriminate]. inversion R. subst rsup.
    assert (T : permits req sub = true) by (apply (permits_trans req sup sub); tauto).
    rewrite T. reflexivity.
  - destruct (image m sup) as [r|e] eqn:Esup; [|discriminate]. inversion R. subst r.
    destruct (image_defined m sub) as [[r Esub]|[s [Es [e [He Hl]]]]].
    + rewrite Esub. apply (image_monotone_partial m sub sup r rsup); assumption.
    + subst sub. simpl.
      assert (U : image_unrepresentable m Disj s = true).
      { simpl. apply existsb_exists. exists e. split; [exact He | apply Z.ltb_lt; exact Hl]. }
      simpl in U. rewrite U. exists m, s. repeat split. exists e. auto.
Qed.

Definition upcast_statement : Prop :=
  forall sub sup mb rsup,
    wf_authz sub = true -> wf_authz sup = true -> ref_subtype sub sup = true ->
    member_via sup mb = Reached rsup ->
    match member_via sub mb with
    | Reached rsub => permits rsup rsub = true
    | Rejected => True
    end.

Theorem upcast_refuted : ~ upcast_statement.
Proof.
  intro S.
  specialize (S (ASet Conj [1]) (ASet Disj [1; 2]) (MMapped {| rels := [(2, 10)]; incl_id := false |})
                (ASet Disj [10]) eq_refl eq_refl eq_refl eq_refl).
  discriminate S.
Qed.

(* ---------------------------------------------------------------- nested references *)
Lemma ok_of_authz a : is_authz a = true -> nonempty_sets a = true -> ok_access a = true.
Proof. destruct a as [p|k s|m]; [destruct p|destruct k, s|]; simpl; intros; try reflexivity; discriminate. Qed.

Lemma lang_of_authz a : is_authz a = true -> lang_access a = true.
Proof. destruct a as [p|k s|m]; [destruct p|..]; simpl; intros; try reflexivity; discriminate. Qed.

Definition all_ok (t : ty) : Prop := Forall (fun a => ok_access a = true) (ref_auths t).

Lemma narrow_authz t : forall outer,
  Forall (fun a => is_authz a = true) (ref_auths (narrow outer t)).
Proof.
  induction t as [n|a t IH|t IH|t IH|t IH n|k IHk v IHv]; intros outer; simpl; auto.
  - constructor; [apply intersect_authz | apply IH].
  - apply Forall_app. split; auto.
Qed.

(* every reference authorization inside the narrowed type is permitted by the outer authorization
   (the outer reference could be used where the inner one is required): nothing is gained *)
Theorem narrow_below_outer t : forall outer,
  wf_authz outer = true -> all_ok t ->
  Forall (fun a => permits a outer = true) (ref_auths (narrow outer t)).
Proof.
  induction t as [n|a t IH|t IH|t IH|t IH n|k IHk v IHv]; intros outer W Ok; simpl.
  - constructor.
  - unfold all_ok in Ok. simpl in Ok. inversion Ok as [|? ? Oa Ot]. subst.
    unfold wf_authz in W. apply andb_true_iff in W. destruct W as [Wa Wn].
    pose proof (ok_of_authz outer Wa Wn) as Oo.
    destruct (intersect_no_escalation outer a Oo Oa) as [P1 _].
    constructor; [exact P1|].
    assert (Wi : wf_authz (intersect outer a) = true).
    { unfold wf_authz. rewrite intersect_authz. simpl.
      apply intersect_nonempty'; assumption. }
    specialize (IH (intersect outer a) Wi Ot).
    apply Forall_forall. intros x Hin.
    pose proof (proj1 (Forall_forall _ _) IH x Hin) as Hx. simpl in Hx.
    pose proof (proj1 (Forall_forall _ _) (narrow_authz t (intersect outer a)) x Hin) as Ax. simpl in Ax.
    apply (permits_trans x (intersect outer a) outer); auto.
    + apply lang_of_authz. exact Wa.
    + apply lang_of_authz. apply intersect_authz.
    + apply lang_of_authz. exact Ax.
  - apply IH; assumption.
  - apply IH; assumption.
  - apply IH; assumption.
  - unfold all_ok in Ok. simpl in Ok. apply Forall_app in Ok. destruct Ok as [O1 O2].
    apply Forall_app. split; [apply IHk | apply IHv]; assumption.
Qed.

(* position by position, the narrowed type carries authorizations that the original ones satisfy *)
Theorem narrow_weaker t : forall outer,
  ok_access outer = true -> all_ok t -> ty_weaker (narrow outer t) t.
Proof.
  induction t as [n|a t IH|t IH|t IH|t IH n|k IHk v IHv]; intros outer Oo Ok; simpl; auto.
  - unfold all_ok in Ok. simpl in Ok. inversion Ok as [|? ? Oa Ot]. subst.
    split.
    + apply intersect_no_escalation; assumption.
    + apply IH; [apply intersect_ok; assumption | exact Ot].
  - unfold all_ok in Ok. simpl in Ok. apply Forall_app in Ok. destruct Ok as [O1 O2].
    split; [apply IHk | apply IHv]; assumption.
Qed.

(* GetDescendantReferenceType: under the optionals, the result is a reference; apart from the wrapping
   authorization chosen by the caller (used only when the descendant is not itself a reference), every
   reference authorization of the type obtained through an outer reference is permitted by the outer one *)
Fixpoint under_opt (P : ty -> Prop) (t : ty) : Prop :=
  match t with TOpt u => under_opt P u | _ => P t end.

Definition descendant_ok (au outer : access) (is_ref : bool) (r : ty) : Prop :=
  match r with
  | TRef a u => (if is_ref then permits a outer = true else a = au)
                /\ Forall (fun x => permits x outer = true) (ref_auths u)
  | _ => False
  end.

Fixpoint is_ref_under_opt (t : ty) : bool :=
  match t with TOpt u => is_ref_under_opt u | TRef _ _ => true | _ => false end.

Theorem descendant_below_outer t : forall au outer,
  wf_authz outer = true -> all_ok t ->
  under_opt (descendant_ok au outer (is_ref_under_opt t)) (descendant t au outer).
Proof.
  induction t as [n|a t IH|t IH|t IH|t IH n|k IHk v IHv]; intros au outer W Ok.
  - simpl. split; [reflexivity | constructor].
  - pose proof (narrow_below_outer (TRef a t) outer W Ok) as N. simpl in N |- *.
    inversion N; subst. split; assumption.
  - simpl. apply IH; assumption.
  - simpl. split; [reflexivity|]. apply (narrow_below_outer (TVar t) outer W Ok).
  - simpl. split; [reflexivity|]. apply (narrow_below_outer (TConst t n) outer W Ok).
  - simpl. split; [reflexivity|]. apply (narrow_below_outer (TDict k v) outer W Ok).
Qed.

Lemma results_well_formed m a b r :
  (nonempty_sets a = true -> ok_access b = true -> nonempty_sets (intersect a b) = true) /\
  (is_authz a = true -> image m a = Ok r -> wf_authz r = true).
Proof. split; [apply intersect_nonempty' | apply image_wf]. Qed.
