(* C06  Check functions used by the per-run case files (inputs + outputs observed on /repo). *)
From CV Require Export C06.Model.

Definition bool_eqb (a b : bool) : bool := if a then b else negb b.

(* (receiver, argument, observed receiver.PermitsAccess(argument)) *)
Definition check_permits (c : access * access * bool) : bool :=
  let '(e, o, obs) := c in bool_eqb (permits e o) obs.

(* (receiver, argument, observed receiver.Equal(argument)) *)
Definition check_equal (c : access * access * bool) : bool :=
  let '(e, o, obs) := c in bool_eqb (equal e o) obs.

(* (sub, sup, observed IsSubType(auth(sub) &T, auth(sup) &T)) *)
Definition check_subtype (c : access * access * bool) : bool :=
  let '(sub, sup, obs) := c in bool_eqb (ref_subtype sub sup) obs.

(* (a, b, observed IntersectAccess(a, b)) *)
Definition check_intersect (c : access * access * access) : bool :=
  let '(a, b, obs) := c in access_eqs (intersect a b) obs.

(* all four observations for one ordered pair (receiver e, argument o) *)
Definition check_pair (c : access * access * (bool * bool * bool * access)) : bool :=
  let '(e, o, (p, q, s, i)) := c in
  bool_eqb (permits e o) p && bool_eqb (equal e o) q && bool_eqb (ref_subtype o e) s
  && access_eqs (intersect e o) i.

(* the same through the interpreter's static authorizations *)
Definition check_rt_pair (c : access * access * (bool * bool * bool)) : bool :=
  let '(e, o, (p, q, s)) := c in
  bool_eqb (permits e o) p && bool_eqb (equal e o) q && bool_eqb (ref_subtype o e) s.

(* (a, b, observed authorization of the least common supertype of auth(a) &T and auth(b) &T) *)
Definition check_lca (c : access * access * access) : bool :=
  let '(a, b, obs) := c in access_eqs (lca a b) obs.

Definition res_access_eqs (x y : res access) : bool :=
  match x, y with
  | Ok a, Ok b => access_eqs a b
  | Err e, Err f => err_eqb e f
  | _, _ => false
  end.

(* (relations, includes identity, [(input, observed Image(input))]) *)
Definition check_image (c : list (Z * Z) * bool * list (access * res access)) : bool :=
  let '(rs, idn, l) := c in
  let m := {| rels := rs; incl_id := idn |} in
  forallb (fun p => res_access_eqs (image m (fst p)) (snd p)) l.

(* include chains: (declarations (relations, include Identity, included declaration indices), index,
   observed relations and identity flag of the resolved EntitlementMapType) *)
Definition rels_subset (a b : list (Z * Z)) : bool := forallb (fun r => existsb (rel_eqb r) b) a.
Definition check_resolve (c : list (list (Z * Z) * bool * list nat) * nat * (list (Z * Z) * bool)) : bool :=
  let '(ds, i, (obs_rels, obs_id)) := c in
  let decls := map (fun d => {| d_rels := fst (fst d); d_identity := snd (fst d); d_includes := snd d |}) ds in
  let m := resolve (S (length ds)) decls i in
  rels_subset (rels m) obs_rels && rels_subset obs_rels (rels m) && bool_eqb (incl_id m) obs_id.

(* (descendant type, wrapping authorization, outer authorization, observed GetDescendantReferenceType) *)
Definition check_descendant (c : ty * access * access * ty) : bool :=
  let '(t, au, outer, obs) := c in ty_eqs (descendant t au outer) obs.

(* Programs: a reference with authorization sub is created, upcast to sup, a member is reached through the
   upcast reference, and the reference obtained (the upcast reference itself for an entitled function,
   the field reference for a mapped field) is cast at run time to each of the target authorizations. *)
Inductive prog_obs :=
| ObsRejectedUpcast                     (* checker: type mismatch at the upcast *)
| ObsRejectedMember                     (* checker: invalid access / unrepresentable mapping output *)
| ObsRan (casts : list (access * bool)) (* accepted; run-time result of each cast, same in both engines *)
| ObsOther.                             (* anything else: never expected *)

Definition check_prog (c : access * access * member * prog_obs) : bool :=
  let '(sub, sup, mb, obs) := c in
  if negb (ref_subtype sub sup) then
    match obs with ObsRejectedUpcast => true | _ => false end
  else
    match member_via sup mb with
    | Rejected => match obs with ObsRejectedMember => true | _ => false end
    | Reached r =>
        let rt := match mb with MEnt _ => sup | MMapped _ => r end in
        match obs with
        | ObsRan l => forallb (fun p => bool_eqb (permits (fst p) rt) (snd p)) l
        | _ => false
        end
    end.
