(* C06  Specification: set semantics of authorizations and of entitlement mappings.
   Independent of the algorithms in Model.v: no case analysis on pairs of kinds, only the meaning of
   one authorization as the set of entitlement sets ("holders") that satisfy it. *)
From CV Require Export C06.Model.

(* A holder is the set of entitlements actually possessed; any subset of the unbounded universe. *)
Definition holder := ent -> Prop.

(* The accesses that can be the authorization of a reference:
   unauthorized, a conjunction, or a disjunction. *)
Definition is_authz (a : access) : bool :=
  match a with
  | APrim PAll => true
  | ASet _ _ => true
  | _ => false
  end.

(* [sat a H]: a holder possessing exactly H satisfies authorization / requirement a.
     unauthorized : every holder
     conjunction S: every entitlement of S is held
     disjunction S: at least one entitlement of S is held
   (other accesses are not authorizations; no holder satisfies them) *)
Definition sat (a : access) (H : holder) : Prop :=
  match a with
  | APrim PAll => True
  | ASet Conj s => forall x, In x s -> H x
  | ASet Disj s => exists x, In x s /\ H x
  | _ => False
  end.

(* [stronger a b]: every holder satisfying a satisfies b  (a can be used wherever b is required) *)
Definition stronger (a b : access) : Prop := forall H, sat a H -> sat b H.

(* Entitlement sets written in programs and produced by the checker's constructors are never empty
   (NewAccessFromEntitlementOrderedSet, Image and newEntitlementAccess turn the empty set into
   unauthorized); the raw Go constructor NewEntitlementSetAccess accepts the empty list. *)
Definition nonempty_sets (a : access) : bool :=
  match a with
  | ASet _ [] => false
  | _ => true
  end.
Definition wf_authz (a : access) : bool := is_authz a && nonempty_sets a.

(* The accesses expressible in the language: access(self|contract|account|all), entitlement sets,
   mappings.  (AccessNotSpecified, AccessNone and the deprecated pub(set) are internal.) *)
Definition lang_access (a : access) : bool :=
  match a with
  | APrim PSelf | APrim PContract | APrim PAccount | APrim PAll => true
  | APrim _ => false
  | ASet _ _ => true
  | AMap _ => true
  end.

(* the relation denoted by a mapping, and the entitlements a holder obtains through it *)
Definition rel_holds (m : emap) (x y : ent) : Prop :=
  In (x, y) (rels m) \/ (incl_id m = true /\ x = y).
Definition map_holder (m : emap) (H : holder) : holder :=
  fun y => exists x, H x /\ rel_holds m x y.

(* every member of a disjunctive input has a non-empty image *)
Definition disj_total (m : emap) (a : access) : bool :=
  match a with
  | ASet Disj s => forallb (fun e => match ent_image m e with [] => false | _ => true end) s
  | _ => true
  end.

(* structural "no stronger anywhere": same shape, and every reference authorization of the first type is
   permitted by (is a supertype authorization of) the corresponding one of the second *)
Fixpoint ty_weaker (t' t : ty) : Prop :=
  match t', t with
  | TBase n, TBase n' => n = n'
  | TRef a' u', TRef a u => permits a' a = true /\ ty_weaker u' u
  | TOpt u', TOpt u => ty_weaker u' u
  | TVar u', TVar u => ty_weaker u' u
  | TConst u' n', TConst u n => n' = n /\ ty_weaker u' u
  | TDict k' v', TDict k v => ty_weaker k' k /\ ty_weaker v' v
  | _, _ => False
  end.

(* all reference authorizations occurring in a type *)
Fixpoint ref_auths (t : ty) : list access :=
  match t with
  | TBase _ => []
  | TRef a u => a :: ref_auths u
  | TOpt u | TVar u | TConst u _ => ref_auths u
  | TDict k v => ref_auths k ++ ref_auths v
  end.

(* an access on which IntersectAccess is conservative: not the deprecated pub(set) and not an empty disjunction *)
Definition ok_access (a : access) : bool :=
  match a with
  | APrim PPubSettableLegacy => false
  | ASet Disj [] => false
  | _ => true
  end.
