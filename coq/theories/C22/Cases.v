(* Check function used by the per-run case files of C22: one case = one history of
   transactions/scripts with, for every one of them, the results the implementation logged
   and the class of the error it ended with (if any). *)
From CV Require Export Base.Prelude C22.Model.

Definition sty_eqb (a b : sty) : bool :=
  match a, b with
  | TInt, TInt | TInteger, TInteger | TOptInt, TOptInt | TOptStr, TOptStr | TStr, TStr | TS, TS
  | TS2, TS2 | TSI, TSI | TArr, TArr | TAnyStruct, TAnyStruct | TR, TR | TR2, TR2 | TRI, TRI
  | TAnyResource, TAnyResource => true
  | _, _ => false
  end.
Definition serr_eqb (a b : serr) : bool :=
  match a, b with
  | EOverwrite, EOverwrite | EMismatch, EMismatch | EPanic, EPanic | ECond, ECond
  | ECrashed, ECrashed => true
  | _, _ => false
  end.

Fixpoint count (x : Z) (l : list Z) : nat :=
  match l with [] => O | y :: r => ((if Z.eqb x y then 1 else 0) + count x r)%nat end.
(* same multiset *)
Definition perm_eqb (l1 l2 : list Z) : bool :=
  (length l1 =? length l2)%nat && forallb (fun x => (count x l1 =? count x l2)%nat) l1.
Fixpoint nodupb (l : list Z) : bool :=
  match l with [] => true | x :: r => negb (memZ x r) && nodupb r end.
Definition pd_eqb (x y : path * dty) : bool := (fst x =? fst y) && dty_eqb (snd x) (snd y).

Definition result_eqb (x y : result) : bool :=
  match x, y with
  | RUnit, RUnit | RNil, RNil => true
  | RVal v d, RVal v' d' => (v =? v') && dty_eqb d d'
  | RBool b, RBool b' => Bool.eqb b b'
  | RTy d, RTy d' => dty_eqb d d'
  | _, _ => false
  end.

(* Does the observed result [y] of operation [o], run in model state [w] where the model
   computed [x], satisfy the model?  Enumerations are compared up to order (the iteration
   order of the real storage map is not modelled): storagePaths must be the same set of
   paths; forEachStored stopped by its callback after max 1 k calls must have visited that
   many distinct stored (path, type) pairs, or all of them. *)
Definition result_ok (w : wstate) (o : op) (x y : result) : bool :=
  match o, x, y with
  | OPaths _, RPaths l, RPaths l' => perm_eqb l l'
  | OForEach a k, RVisited _, RVisited l' =>
      let full := match dview w a with
                  | Some d => map (fun e => (fst e, snd (snd e))) d
                  | None => []
                  end in
      (length l' =? Nat.min (Nat.max 1 k) (length full))%nat
      && nodupb (map fst l')
      && forallb (fun e => existsb (pd_eqb e) full) l'
  | OBorrow _ _ _, RVal _ ((DOptInt | DOptStr) as d), RVal _ d' =>
      (* the payload of an optional value is not observable through the reference
         (Cadence cannot dereference &AnyStruct): only the type is compared *)
      dty_eqb d d'
  | _, _, _ => result_eqb x y
  end.

Fixpoint check_ops (w : wstate) (ops : list op) (obs : list result) (oe : option serr)
  : bool * wstate :=
  match ops with
  | [] => (match obs, oe with [], None => true | _, _ => false end, w)
  | o :: r =>
      match step w o with
      | (w1, Fail e) =>
          (match obs, oe with [], Some e' => serr_eqb e e' | _, _ => false end, w1)
      | (w1, Done x) =>
          match obs with
          | y :: ys => if result_ok w o x y then check_ops w1 r ys oe else (false, w1)
          | [] => (false, w1)
          end
      end
  end.

Definition obs_tx := (tx * (list result * option serr))%type.

Fixpoint check_history (L : ledger) (h : list obs_tx) : bool :=
  match h with
  | [] => true
  | (t, (obs, oe)) :: r =>
      let '(ok, w) := check_ops (begin L) (t_body t) obs oe in
      ok && check_history (match oe with
                           | Some _ => L
                           | None => if t_script t then L else commit w
                           end) r
  end.

(* the chain state the harness starts from: account 0x1 holds the contract, so its account
   storage map exists but has no "storage" domain yet; accounts 0x2, 0x3 have no registers *)
Definition init_ledger : ledger := {| regs := [1]; slabs := [(1, None)] |}.

Definition check_case (h : list obs_tx) : bool := check_history init_ledger h.

Definition T (script : bool) (body : list op) : tx := {| t_script := script; t_body := body |}.

(* the observation script the harness runs after each item, on a fresh Storage: first
   storagePaths of the three accounts (nothing has been loaded yet), then a full forEachStored
   of each, then every slot *)
Definition reload_body : list op :=
  map OPaths [1; 2; 3] ++ map (fun a => OForEach a 200) [1; 2; 3]
  ++ flat_map (fun a => map (fun p => ODescribe a p) [0; 1; 2; 3]) [1; 2; 3].
Definition RL : tx := T true reload_body.
