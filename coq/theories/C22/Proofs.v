(* C22 proofs: the code-shaped storage machine refines the plain-map specification. *)
From Coq Require Import Permutation.
From CV Require Import Base.Prelude C22.Model.

(* ---------------------------------------------------------------- association lists *)
Lemma aget_aset {V} (l : list (Z * V)) k v k' :
  aget (aset l k v) k' = if k =? k' then Some v else aget l k'.
Proof.
  induction l as [|[k0 v0] r IH]; simpl.
  - reflexivity.
  - destruct (k0 =? k) eqn:E; simpl.
    + apply Z.eqb_eq in E; subst k0. destruct (k =? k'); reflexivity.
    + destruct (k0 =? k') eqn:E'.
      * apply Z.eqb_eq in E'; subst k0. rewrite Z.eqb_sym, E. reflexivity.
      * exact IH.
Qed.

Lemma aget_adel {V} (l : list (Z * V)) k k' :
  aget (adel l k) k' = if k =? k' then None else aget l k'.
Proof.
  induction l as [|[k0 v0] r IH]; simpl.
  - destruct (k =? k'); reflexivity.
  - destruct (k0 =? k) eqn:E; simpl.
    + apply Z.eqb_eq in E; subst k0. rewrite IH. destruct (k =? k'); reflexivity.
    + rewrite IH. destruct (k0 =? k') eqn:E'; [|reflexivity].
      apply Z.eqb_eq in E'; subst k0. rewrite Z.eqb_sym, E. reflexivity.
Qed.

Lemma aget_in_keys {V} (l : list (Z * V)) k : aget l k <> None <-> In k (map fst l).
Proof.
  induction l as [|[k0 v0] r IH]; simpl.
  - split; [congruence | tauto].
  - destruct (k0 =? k) eqn:E.
    + apply Z.eqb_eq in E. split; [auto | congruence].
    + apply Z.eqb_neq in E. rewrite IH. split; [auto | intros [H|H]; [congruence | exact H]].
Qed.

Lemma keys_aset_in {V} (l : list (Z * V)) k v x :
  In x (map fst (aset l k v)) <-> x = k \/ In x (map fst l).
Proof.
  rewrite <- !aget_in_keys, aget_aset. destruct (k =? x) eqn:E.
  - apply Z.eqb_eq in E. split; [auto | congruence].
  - apply Z.eqb_neq in E. split; [auto | intros [H|H]; [congruence | exact H]].
Qed.

Lemma nodup_aset {V} (l : list (Z * V)) k v :
  NoDup (map fst l) -> NoDup (map fst (aset l k v)).
Proof.
  induction l as [|[k0 v0] r IH]; simpl; intro H.
  - constructor; [simpl; tauto | constructor].
  - inversion H as [|? ? Hn Hr]; subst. destruct (k0 =? k) eqn:E; simpl.
    + apply Z.eqb_eq in E; subst. constructor; assumption.
    + apply Z.eqb_neq in E. constructor; [|auto].
      rewrite keys_aset_in. intros [Hk|Hk]; [congruence | contradiction].
Qed.

Lemma nodup_adel {V} (l : list (Z * V)) k :
  NoDup (map fst l) -> NoDup (map fst (adel l k)).
Proof.
  induction l as [|[k0 v0] r IH]; simpl; intro H; [constructor|].
  inversion H as [|? ? Hn Hr]; subst. destruct (k0 =? k); simpl; [auto|].
  constructor; [|auto]. rewrite <- aget_in_keys, aget_adel.
  destruct (k =? k0); [congruence|]. rewrite aget_in_keys. exact Hn.
Qed.

Lemma memZ_in k l : memZ k l = true <-> In k l.
Proof.
  unfold memZ. rewrite existsb_exists. split.
  - intros [x [Hx E]]. apply Z.eqb_eq in E. subst. exact Hx.
  - intro H. exists k. split; [exact H | apply Z.eqb_refl].
Qed.

Lemma aget_nodup_in {V} (l : list (Z * V)) k v :
  NoDup (map fst l) -> (In (k, v) l <-> aget l k = Some v).
Proof.
  induction l as [|[k0 v0] r IH]; simpl; intro H.
  - split; [tauto | congruence].
  - inversion H as [|? ? Hn Hr]; subst. destruct (k0 =? k) eqn:E.
    + apply Z.eqb_eq in E; subst k0. split.
      * intros [Heq|Hin]; [congruence|]. exfalso. apply Hn.
        change k with (fst (k, v)). apply in_map. exact Hin.
      * intro Heq. left. congruence.
    + apply Z.eqb_neq in E. rewrite <- (IH Hr). split.
      * intros [Heq|Hin]; [congruence | exact Hin].
      * auto.
Qed.

(* ---------------------------------------------------------------- subtype fast path *)
Lemma static_sub_correct d t : static_sub d t = sub d t.
Proof. destruct d, t; reflexivity. Qed.

(* ---------------------------------------------------------------- views *)
Lemma acct_view_cache_put w a m a' :
  acct_view (cache_put w a m) a' = if a =? a' then Some m else acct_view w a'.
Proof.
  unfold acct_view, cache_put; simpl. rewrite aget_aset. destruct (a =? a'); reflexivity.
Qed.

Lemma dview_cache_put w a m a' :
  dview (cache_put w a m) a' = if a =? a' then m else dview w a'.
Proof.
  unfold dview. rewrite acct_view_cache_put. destruct (a =? a'); [destruct m|]; reflexivity.
Qed.

Lemma wfw_cache_put w a m :
  wfw w -> (In a (regs (base w)) \/ In a (fresh w)) ->
  (forall d, m = Some d -> NoDup (map fst d)) ->
  wfw (cache_put w a m).
Proof.
  intros (HL & Hc & Hf & Hn) Ha Hm. unfold wfw, cache_put; simpl. repeat split.
  - apply HL.
  - apply HL.
  - intros a0. rewrite aget_aset. destruct (a =? a0) eqn:E.
    + apply Z.eqb_eq in E; subst. auto.
    + apply Hc.
  - intros a0 Hin. rewrite aget_aset. destruct (a =? a0); [congruence | auto].
  - intros a0 d. rewrite aget_aset. destruct (a =? a0).
    + intro H. inversion H as [H']. apply Hm. exact H'.
    + apply Hn.
Qed.

Lemma acct_view_known w a :
  wfw w -> acct_view w a <> None -> In a (regs (base w)) \/ In a (fresh w).
Proof.
  intros (HL & Hc & Hf & Hn). unfold acct_view.
  destruct (aget (cache w) a) eqn:E.
  - intros _. apply Hc. congruence.
  - destruct (memZ a (regs (base w))) eqn:M; [|congruence].
    intros _. left. apply memZ_in. exact M.
Qed.

Lemma dview_nodup w a d : wfw w -> dview w a = Some d -> NoDup (map fst d).
Proof.
  intros (HL & Hc & Hf & Hn). unfold dview, acct_view.
  destruct (aget (cache w) a) as [m|] eqn:E.
  - destruct m; [|congruence]. intro H. inversion H; subst. eapply Hn; eauto.
  - destruct (memZ a (regs (base w))); [|congruence].
    destruct (aget (slabs (base w)) a) as [[d0|]|] eqn:E'; try congruence.
    intro H. inversion H; subst. eapply HL; eauto.
Qed.

(* getAccountStorageMap never crashes on a well-formed state and returns the view *)
Lemma get_account_spec w a :
  wfw w ->
  exists w1, get_account w a = Some (w1, acct_view w a) /\ wfw w1 /\
    (forall a', acct_view w1 a' = acct_view w a') /\
    base w1 = base w /\ fresh w1 = fresh w.
Proof.
  intros Hw. pose proof Hw as (HL & Hc & Hf & Hn).
  unfold get_account, acct_view.
  destruct (aget (cache w) a) as [m|] eqn:E.
  - exists w. auto.
  - destruct (memZ a (regs (base w))) eqn:M.
    + destruct (aget (slabs (base w)) a) as [m|] eqn:E'.
      * exists (cache_put w a m). split; [reflexivity|]. split.
        { apply wfw_cache_put; auto.
          - left. apply memZ_in. exact M.
          - intros d ->. eapply HL; eauto. }
        split; [|auto].
        intros a'. fold (acct_view (cache_put w a m) a'). rewrite acct_view_cache_put.
        destruct (a =? a') eqn:Ea; [|reflexivity].
        apply Z.eqb_eq in Ea; subst a'. unfold acct_view. rewrite E, M, E'. reflexivity.
      * exfalso. apply memZ_in in M. destruct HL as [HL1 _]. apply (HL1 a M). exact E'.
    + exists w. auto.
Qed.

Definition dom_result (w : wstate) (a : addr) (create : bool) : option dmap :=
  match dview w a with
  | Some d => Some d
  | None => if create then Some [] else None
  end.

Lemma get_domain_spec w a c :
  wfw w ->
  exists w1, get_domain w a c = Some (w1, dom_result w a c) /\ wfw w1 /\
    dview w1 a = dom_result w a c /\
    (forall a', a' <> a -> dview w1 a' = dview w a') /\
    (dom_result w a c <> None -> In a (regs (base w1)) \/ In a (fresh w1)) /\
    base w1 = base w.
Proof.
  intros Hw. destruct (get_account_spec w a Hw) as (w1 & Hg & Hw1 & Hv & Hb & Hfr).
  unfold get_domain, dom_result, dview. rewrite Hg.
  destruct (acct_view w a) as [[d|]|] eqn:Ev.
  - (* domain exists *)
    exists w1. split; [reflexivity|]. split; [exact Hw1|].
    split; [rewrite Hv, Ev; reflexivity|]. split; [intros; rewrite Hv; reflexivity|].
    split; [|exact Hb]. intros _. apply acct_view_known; [exact Hw1|]. rewrite Hv, Ev. congruence.
  - (* account map exists, domain missing *)
    destruct c.
    + exists (cache_put w1 a (Some [])). split; [reflexivity|].
      assert (Hk : In a (regs (base w1)) \/ In a (fresh w1)).
      { apply acct_view_known; [exact Hw1|]. rewrite Hv, Ev. congruence. }
      split; [apply wfw_cache_put; auto; intros d Hd; inversion Hd; constructor|].
      split; [rewrite acct_view_cache_put, Z.eqb_refl; reflexivity|].
      split; [|split; [intros _; exact Hk | exact Hb]].
      intros a' Ha. rewrite acct_view_cache_put.
      destruct (a =? a') eqn:E; [apply Z.eqb_eq in E; congruence|]. rewrite Hv. reflexivity.
    + exists w1. split; [reflexivity|]. split; [exact Hw1|].
      split; [rewrite Hv, Ev; reflexivity|]. split; [intros; rewrite Hv; reflexivity|].
      split; [congruence | exact Hb].
  - (* no account storage map *)
    destruct c.
    + set (w2 := {| base := base w1; cache := aset (cache w1) a None; fresh := a :: fresh w1 |}).
      assert (Hw2 : wfw w2).
      { destruct Hw1 as (HL & Hc & Hf & Hn). unfold wfw, w2; simpl. repeat split.
        - apply HL.
        - apply HL.
        - intros a0. rewrite aget_aset. destruct (a =? a0) eqn:E.
          + apply Z.eqb_eq in E. subst. auto.
          + intro H. destruct (Hc a0 H); auto.
        - intros a0 [H|H].
          + subst. rewrite aget_aset, Z.eqb_refl. congruence.
          + rewrite aget_aset. destruct (a =? a0); [congruence | auto].
        - intros a0 d. rewrite aget_aset. destruct (a =? a0); [congruence | apply Hn]. }
      exists (cache_put w2 a (Some [])). split; [reflexivity|].
      assert (Hk : In a (regs (base w2)) \/ In a (fresh w2)) by (right; simpl; auto).
      split; [apply wfw_cache_put; auto; intros d Hd; inversion Hd; constructor|].
      split; [rewrite acct_view_cache_put, Z.eqb_refl; reflexivity|].
      split; [|split; [intros _; exact Hk | exact Hb]].
      intros a' Ha. rewrite acct_view_cache_put.
      destruct (a =? a') eqn:E; [apply Z.eqb_eq in E; congruence|].
      unfold acct_view, w2; simpl. rewrite aget_aset, E.
      fold (acct_view w1 a'). rewrite Hv. reflexivity.
    + exists w1. split; [reflexivity|]. split; [exact Hw1|].
      split; [rewrite Hv, Ev; reflexivity|]. split; [intros; rewrite Hv; reflexivity|].
      split; [congruence | exact Hb].
Qed.

(* reading through get_domain never changes the denoted map *)
Lemma absw_of_dview w w1 :
  (forall a, match dview w1 a with Some d => d | None => [] end
           = match dview w a with Some d => d | None => [] end) ->
  seq (absw w1) (absw w).
Proof.
  intros H a p. unfold absw. specialize (H a).
  destruct (dview w1 a), (dview w a); subst; reflexivity.
Qed.

Lemma absw_get w a p : absw w a p = match dom_result w a false with Some d => aget d p | None => None end.
Proof. unfold absw, dom_result. destruct (dview w a); reflexivity. Qed.

Lemma get_domain_false_seq w a w1 :
  dview w1 a = dom_result w a false -> (forall a', a' <> a -> dview w1 a' = dview w a') ->
  seq (absw w1) (absw w).
Proof.
  intros H1 H2. apply absw_of_dview. intros a0.
  destruct (Z.eq_dec a0 a) as [->|Hne].
  - rewrite H1. unfold dom_result. destruct (dview w a); reflexivity.
  - rewrite H2 by exact Hne. reflexivity.
Qed.

Lemma read_stored_spec w a p :
  wfw w ->
  exists w1, read_stored w a p = Some (w1, absw w a p) /\ wfw w1 /\ seq (absw w1) (absw w) /\
             base w1 = base w.
Proof.
  intros Hw. destruct (get_domain_spec w a false Hw) as (w1 & Hg & Hw1 & Hd & Ho & _ & Hb).
  unfold read_stored. rewrite Hg. exists w1. rewrite absw_get.
  split; [destruct (dom_result w a false); reflexivity|].
  split; [exact Hw1|]. split; [|exact Hb]. apply (get_domain_false_seq w a w1); assumption.
Qed.

Lemma stored_value_exists_spec w a p :
  wfw w ->
  exists w1, stored_value_exists w a p
             = Some (w1, match absw w a p with Some _ => true | None => false end) /\
             wfw w1 /\ seq (absw w1) (absw w) /\ base w1 = base w.
Proof.
  intros Hw. destruct (get_domain_spec w a false Hw) as (w1 & Hg & Hw1 & Hd & Ho & _ & Hb).
  unfold stored_value_exists. rewrite Hg. exists w1. rewrite absw_get.
  split; [destruct (dom_result w a false); reflexivity|].
  split; [exact Hw1|]. split; [|exact Hb]. apply (get_domain_false_seq w a w1); assumption.
Qed.

Lemma absw_put w a d a' p' :
  absw (cache_put w a (Some d)) a' p' = if a =? a' then aget d p' else absw w a' p'.
Proof. unfold absw. rewrite dview_cache_put. destruct (a =? a'); reflexivity. Qed.

Lemma write_stored_spec w a p e :
  wfw w ->
  exists w1, write_stored w a p e = Some w1 /\ wfw w1 /\
             seq (absw w1) (upd (absw w) a p (Some e)) /\ base w1 = base w.
Proof.
  intros Hw. destruct (get_domain_spec w a true Hw) as (w1 & Hg & Hw1 & Hd & Ho & Hk & Hb).
  unfold write_stored. rewrite Hg.
  assert (exists d, dom_result w a true = Some d /\
                    forall p', aget d p' = absw w a p') as (d & Hdr & Hget).
  { unfold dom_result, absw. destruct (dview w a) as [d|]; eauto. }
  rewrite Hdr in *. exists (cache_put w1 a (Some (aset d p e))). split; [reflexivity|].
  split.
  { apply wfw_cache_put; auto.
    - apply Hk. congruence.
    - intros d0 Hd0. inversion Hd0; subst. apply nodup_aset. eapply dview_nodup; eauto. }
  split; [|exact Hb].
  intros a' p'. rewrite absw_put. unfold upd.
  destruct (a =? a') eqn:E.
  - apply Z.eqb_eq in E; subst a'. rewrite Z.eqb_refl, aget_aset; simpl.
    rewrite (Z.eqb_sym p' p). destruct (p =? p'); [reflexivity | apply Hget].
  - rewrite (Z.eqb_sym a' a), E; simpl. unfold absw. rewrite Ho; [reflexivity|].
    apply Z.eqb_neq in E. congruence.
Qed.

Lemma remove_stored_spec w a p :
  wfw w ->
  exists w1, remove_stored w a p = Some (w1, absw w a p) /\ wfw w1 /\
             seq (absw w1) (upd (absw w) a p None) /\ base w1 = base w.
Proof.
  intros Hw. destruct (get_domain_spec w a false Hw) as (w1 & Hg & Hw1 & Hd & Ho & Hk & Hb).
  unfold remove_stored. rewrite Hg.
  assert (Hs : seq (absw w1) (absw w)) by (apply (get_domain_false_seq w a w1); assumption).
  rewrite (absw_get w a p). destruct (dom_result w a false) as [d|] eqn:Hdr.
  - destruct (aget d p) as [e|] eqn:Ee.
    + exists (cache_put w1 a (Some (adel d p))). split; [reflexivity|]. split.
      { apply wfw_cache_put; auto.
        - apply Hk. congruence.
        - intros d0 Hd0. inversion Hd0; subst. apply nodup_adel. eapply dview_nodup; eauto. }
      split; [|exact Hb].
      intros a' p'. rewrite absw_put. unfold upd.
      destruct (a =? a') eqn:E.
      * apply Z.eqb_eq in E; subst a'. rewrite Z.eqb_refl, aget_adel; simpl.
        rewrite (Z.eqb_sym p' p). destruct (p =? p'); [reflexivity|].
        rewrite absw_get, Hdr. reflexivity.
      * rewrite (Z.eqb_sym a' a), E; simpl. apply Hs.
    + exists w1. split; [reflexivity|]. split; [exact Hw1|]. split; [|exact Hb].
      intros a' p'. rewrite Hs. unfold upd.
      destruct ((a' =? a) && (p' =? p)) eqn:E; [|reflexivity].
      apply andb_true_iff in E. destruct E as [E1 E2].
      apply Z.eqb_eq in E1, E2. subst. rewrite absw_get, Hdr. exact Ee.
  - exists w1. split; [reflexivity|]. split; [exact Hw1|]. split; [|exact Hb].
    intros a' p'. rewrite Hs. unfold upd.
    destruct ((a' =? a) && (p' =? p)) eqn:E; [|reflexivity].
    apply andb_true_iff in E. destruct E as [E1 E2].
    apply Z.eqb_eq in E1, E2. subst. rewrite absw_get, Hdr. reflexivity.
Qed.

(* ---------------------------------------------------------------- enumeration *)
Definition proj (d : dmap) : list (path * dty) := map (fun x => (fst x, snd (snd x))) d.

Lemma iterate_firstn d k c : iterate d k c = firstn (Nat.max 1 (k - c)) (proj d).
Proof.
  revert c. induction d as [|[p [v t]] r IH]; intro c.
  - rewrite firstn_nil. reflexivity.
  - remember (Nat.max 1 (k - c)) as n eqn:En. simpl.
    destruct (S c <? k)%nat eqn:E.
    + apply Nat.ltb_lt in E. rewrite IH.
      assert (n = S (Nat.max 1 (k - S c))) as -> by lia. reflexivity.
    + apply Nat.ltb_ge in E. assert (n = 1%nat) as -> by lia. reflexivity.
Qed.

Lemma in_firstn {A} n (l : list A) x : In x (firstn n l) -> In x l.
Proof.
  revert l. induction n; intros [|y r]; simpl; try tauto. intros [H|H]; auto.
Qed.

Lemma nodup_firstn {A} n (l : list A) : NoDup l -> NoDup (firstn n l).
Proof.
  revert l. induction n; intros [|y r] H; simpl; try constructor.
  - inversion H; subst. intro Hin. apply in_firstn in Hin. contradiction.
  - inversion H; subst. auto.
Qed.

Lemma map_fst_proj d : map fst (proj d) = map fst d.
Proof. unfold proj. rewrite map_map. reflexivity. Qed.

Lemma firstn_map {A B} (f : A -> B) n l : firstn n (map f l) = map f (firstn n l).
Proof. revert l. induction n; intros [|y r]; simpl; try reflexivity. rewrite IHn. reflexivity. Qed.

Lemma in_proj d p t : In (p, t) (proj d) -> exists v, In (p, (v, t)) d.
Proof.
  unfold proj. rewrite in_map_iff. intros [[p0 [v0 t0]] [E H]]. simpl in E.
  inversion E; subst. eauto.
Qed.

Lemma foreach_ok (s : smap) a d k :
  NoDup (map fst d) -> (forall p, s a p = aget d p) ->
  let l := iterate d k 0 in
  NoDup (map fst l) /\
  (forall p t, In (p, t) l -> exists v, s a p = Some (v, t)) /\
  (length l <= Nat.max 1 k)%nat /\
  (length l = Nat.max 1 k \/ forall p, s a p <> None -> In p (map fst l)).
Proof.
  intros Hn Hs l. unfold l. rewrite iterate_firstn, Nat.sub_0_r.
  set (n := Nat.max 1 k). repeat split.
  - rewrite <- firstn_map, map_fst_proj. apply nodup_firstn. exact Hn.
  - intros p t Hin. apply in_firstn in Hin. apply in_proj in Hin. destruct Hin as [v Hin].
    exists v. rewrite Hs. apply aget_nodup_in; assumption.
  - apply firstn_le_length.
  - destruct (Nat.le_gt_cases n (length (proj d))) as [Hle|Hgt].
    + left. rewrite firstn_length. lia.
    + right. intros p Hp. rewrite firstn_all2 by lia. rewrite map_fst_proj.
      apply aget_in_keys. rewrite <- Hs. exact Hp.
Qed.

(* ---------------------------------------------------------------- one operation *)
Lemma seq_refl s : seq s s. Proof. intros a p; reflexivity. Qed.
Lemma seq_sym s s' : seq s s' -> seq s' s. Proof. intros H a p; symmetry; apply H. Qed.
Lemma seq_trans s s' s'' : seq s s' -> seq s' s'' -> seq s s''.
Proof. intros H1 H2 a p; rewrite H1; apply H2. Qed.

Lemma upd_seq s s' a p e : seq s s' -> seq (upd s a p e) (upd s' a p e).
Proof. intros H a' p'. unfold upd. destruct ((a' =? a) && (p' =? p)); [reflexivity | apply H]. Qed.

Definition sim_out (w : wstate) (o : op) (w' : wstate) (out : outcome) : Prop :=
  spec_step (absw w) o out (absw w') /\ out <> Fail ECrashed.

Lemma step_save_sim w a p v d w' out :
  wfw w -> step_save w a p v d = (w', out) ->
  wfw w' /\ base w' = base w /\ sim_out w (OSave a p v d) w' out.
Proof.
  intros Hw. unfold step_save.
  destruct (stored_value_exists_spec w a p Hw) as (w1 & He & Hw1 & Hs1 & Hb1). rewrite He.
  destruct (absw w a p) as [e|] eqn:Ea.
  - intros H; inversion H; subst. split; [exact Hw1|]. split; [exact Hb1|]. split; [|congruence].
    apply SpSaveOccupied. congruence.
  - destruct (write_stored_spec w1 a p (v, d) Hw1) as (w2 & Hwr & Hw2 & Hs2 & Hb2). rewrite Hwr.
    intros H; inversion H; subst. split; [exact Hw2|]. split; [congruence|]. split; [|congruence].
    apply SpSaveOk; [exact Ea|]. eapply seq_trans; [exact Hs2|]. apply upd_seq. exact Hs1.
Qed.

Lemma step_load_sim w a p t w' out :
  wfw w -> step_load w a p t = (w', out) ->
  wfw w' /\ base w' = base w /\ sim_out w (OLoad a p t) w' out /\
  seq (absw w') (upd (absw w) a p None).
Proof.
  intros Hw. unfold step_load.
  destruct (remove_stored_spec w a p Hw) as (w1 & Hr & Hw1 & Hs1 & Hb1). rewrite Hr.
  destruct (absw w a p) as [[v d]|] eqn:Ea.
  - rewrite static_sub_correct. destruct (sub d t) eqn:Es; intros H; inversion H; subst;
      (split; [exact Hw1|]; split; [exact Hb1|]; split; [|exact Hs1]; split; [|congruence]).
    + apply SpLoadOk; assumption.
    + eapply SpLoadMismatch; eassumption.
  - intros H; inversion H; subst.
    split; [exact Hw1|]. split; [exact Hb1|]. split; [|exact Hs1]. split; [|congruence].
    apply SpLoadNil; [exact Ea|]. eapply seq_trans; [exact Hs1|].
    intros a' p'. unfold upd. destruct ((a' =? a) && (p' =? p)) eqn:E; [|reflexivity].
    apply andb_true_iff in E. destruct E as [E1 E2]. apply Z.eqb_eq in E1, E2. subst. auto.
Qed.

Ltac fin Hw1 Hb1 := split; [exact Hw1|]; split; [exact Hb1|]; split; [|congruence].

Theorem step_sim w o w' out :
  wfw w -> step w o = (w', out) ->
  wfw w' /\ base w' = base w /\ sim_out w o w' out.
Proof.
  intros Hw. destruct o as [a p v d|a p t|a p t|a p t|a p t|a p|a|a k|a p t a' p'|a p|b|]; simpl.
  - apply step_save_sim; assumption.
  - intro H. destruct (step_load_sim w a p t w' out Hw H) as (H1 & H2 & H3 & _). auto.
  - (* copy *)
    destruct (read_stored_spec w a p Hw) as (w1 & Hr & Hw1 & Hs1 & Hb1). rewrite Hr.
    destruct (absw w a p) as [[v d]|] eqn:Ea.
    + rewrite static_sub_correct. destruct (sub d t) eqn:Es; intros H; inversion H; subst; fin Hw1 Hb1.
      * apply SpCopyOk; assumption.
      * eapply SpCopyMismatch; eassumption.
    + intros H; inversion H; subst; fin Hw1 Hb1. apply SpCopyNil; assumption.
  - (* borrow *)
    destruct (read_stored_spec w a p Hw) as (w1 & Hr & Hw1 & Hs1 & Hb1). rewrite Hr.
    destruct (absw w a p) as [[v d]|] eqn:Ea.
    + destruct (sub d t) eqn:Es; intros H; inversion H; subst; fin Hw1 Hb1.
      * apply SpBorrowOk; assumption.
      * eapply SpBorrowMismatch; eassumption.
    + intros H; inversion H; subst; fin Hw1 Hb1. apply SpBorrowNil; assumption.
  - (* check *)
    destruct (read_stored_spec w a p Hw) as (w1 & Hr & Hw1 & Hs1 & Hb1). rewrite Hr.
    pose proof (SpCheck (absw w) a p t (absw w1) Hs1) as Hsp.
    destruct (absw w a p) as [[v d]|] eqn:Ea; intros H; inversion H; subst; fin Hw1 Hb1.
    + rewrite static_sub_correct. exact Hsp.
    + exact Hsp.
  - (* type *)
    destruct (read_stored_spec w a p Hw) as (w1 & Hr & Hw1 & Hs1 & Hb1). rewrite Hr.
    pose proof (SpType (absw w) a p (absw w1) Hs1) as Hsp.
    destruct (absw w a p) as [[v d]|] eqn:Ea; intros H; inversion H; subst; fin Hw1 Hb1; exact Hsp.
  - (* storagePaths *)
    destruct (get_domain_spec w a false Hw) as (w1 & Hg & Hw1 & Hd & Ho & _ & Hb1). rewrite Hg.
    assert (Hs1 : seq (absw w1) (absw w)) by (apply (get_domain_false_seq w a w1); assumption).
    destruct (dom_result w a false) as [d|] eqn:Hdr; intros H; inversion H; subst; fin Hw1 Hb1.
    + apply SpPaths; [| |exact Hs1].
      * eapply dview_nodup; [exact Hw1 | exact Hd].
      * intros p. rewrite absw_get, Hdr. symmetry. apply aget_in_keys.
    + apply SpPaths; [constructor| |exact Hs1].
      intros p. rewrite absw_get, Hdr. simpl. split; [tauto | congruence].
  - (* forEachStored *)
    destruct (get_domain_spec w a false Hw) as (w1 & Hg & Hw1 & Hd & Ho & _ & Hb1). rewrite Hg.
    assert (Hs1 : seq (absw w1) (absw w)) by (apply (get_domain_false_seq w a w1); assumption).
    destruct (dom_result w a false) as [d|] eqn:Hdr; intros H; inversion H; subst; fin Hw1 Hb1.
    + assert (Hn : NoDup (map fst d)) by (eapply dview_nodup; [exact Hw1 | exact Hd]).
      destruct (foreach_ok (absw w) a d k Hn) as (F1 & F2 & F3 & F4).
      { intros p. rewrite absw_get, Hdr. reflexivity. }
      apply SpForEach; assumption.
    + apply SpForEach; simpl; [constructor| tauto | lia | | exact Hs1].
      right. intros p. rewrite absw_get, Hdr. congruence.
  - (* move *)
    destruct (step_load w a p t) as [w1 o1] eqn:El.
    destruct (step_load_sim w a p t w1 o1 Hw El) as (Hw1 & Hb1 & [Hsp1 Hnc1] & Hs1).
    destruct o1 as [r1|e1].
    + destruct r1 as [| |v d'| | | |];
        try (intros H; inversion H; subst; fin Hw1 Hb1;
             inversion Hsp1; subst; apply SpMoveNil; assumption).
      destruct (step_save w1 a' p' v d') as [w2 o2] eqn:Esv.
      destruct (step_save_sim w1 a' p' v d' w2 o2 Hw1 Esv) as (Hw2 & Hb2 & [Hsp2 Hnc2]).
      inversion Hsp1; subst.
      destruct o2 as [r2|e2]; intros H; inversion H; subst;
        (split; [exact Hw2|]; split; [congruence|]; split; [|congruence]).
      * inversion Hsp2; subst. eapply SpMoveOk; try eassumption.
        -- rewrite <- Hs1. assumption.
        -- eapply seq_trans; [eassumption|]. apply upd_seq. exact Hs1.
      * inversion Hsp2; subst. eapply SpMoveOccupied; try eassumption.
        rewrite <- Hs1. assumption.
    + intros H; inversion H; subst. fin Hw1 Hb1.
      inversion Hsp1; subst. eapply SpMoveMismatch; eassumption.
  - (* describe *)
    destruct (read_stored_spec w a p Hw) as (w1 & Hr & Hw1 & Hs1 & Hb1). rewrite Hr.
    pose proof (SpDescribe (absw w) a p (absw w1) Hs1) as Hsp. unfold lookup_result in Hsp.
    destruct (absw w a p) as [[v d]|] eqn:Ea; intros H; inversion H; subst; fin Hw1 Hb1; exact Hsp.
  - destruct b; intros H; inversion H; subst; (split; [exact Hw|]; split; [reflexivity|]; split; [|congruence]).
    + apply SpAssertOk. apply seq_refl.
    + apply SpAssertFail.
  - intros H; inversion H; subst. split; [exact Hw|]. split; [reflexivity|]. split; [|congruence].
    apply SpPanic.
Qed.

(* ---------------------------------------------------------------- statements, commit *)
Lemma run_ops_sim ops : forall w w' xs e,
  wfw w -> run_ops w ops = (w', (xs, e)) ->
  wfw w' /\ base w' = base w /\ e <> Some ECrashed /\ spec_ops (absw w) ops xs e (absw w').
Proof.
  induction ops as [|o r IH]; intros w w' xs e Hw; simpl.
  - intros H; inversion H; subst.
    split; [exact Hw|]. split; [reflexivity|]. split; [congruence|]. apply SoNil, seq_refl.
  - destruct (step w o) as [w1 out] eqn:Es.
    destruct (step_sim w o w1 out Hw Es) as (Hw1 & Hb1 & Hsp & Hnc).
    destruct out as [x|e1].
    + destruct (run_ops w1 r) as [w2 [xs2 e2]] eqn:Er.
      intros H; inversion H; subst.
      destruct (IH w1 w' xs2 e Hw1 Er) as (Hw2 & Hb2 & Hne & Hso).
      split; [exact Hw2|]. split; [congruence|]. split; [exact Hne|]. eapply SoCons; eassumption.
    + intros H; inversion H; subst.
      split; [exact Hw1|]. split; [exact Hb1|]. split; [congruence|]. eapply SoFail; eassumption.
Qed.

Lemma wfw_begin L : wf_ledger L -> wfw (begin L).
Proof.
  intros HL. unfold wfw, begin; simpl. repeat split; try apply HL; try tauto; try congruence.
Qed.

Lemma aget_commit_slabs (c : list (addr * acct)) s a :
  aget (fold_right (fun am s => aset s (fst am) (snd am)) s c) a
  = match aget c a with Some m => Some m | None => aget s a end.
Proof.
  induction c as [|[a0 m0] r IH]; simpl; [reflexivity|].
  rewrite aget_aset. destruct (a0 =? a); [reflexivity | exact IH].
Qed.

Lemma wf_commit w : wfw w -> wf_ledger (commit w).
Proof.
  intros (HL & Hc & Hf & Hn). unfold wf_ledger, commit; simpl. split.
  - intros a Hin. rewrite aget_commit_slabs. destruct (aget (cache w) a) eqn:E; [congruence|].
    apply in_app_or in Hin. destruct Hin as [Hin|Hin].
    + exfalso. apply (Hf a Hin). exact E.
    + apply HL. exact Hin.
  - intros a d. rewrite aget_commit_slabs. destruct (aget (cache w) a) eqn:E.
    + intros H; inversion H; subst. eapply Hn; eauto.
    + apply HL.
Qed.

(* reloading what was committed yields exactly the view the transaction had at its end *)
Lemma commit_reload w : wfw w -> seq (abs (commit w)) (absw w).
Proof.
  intros (HL & Hc & Hf & Hn) a p. unfold abs, absw, dview.
  replace (acct_view (begin (commit w)) a) with (acct_view w a); [reflexivity|].
  unfold acct_view, begin, commit; simpl. rewrite aget_commit_slabs.
  destruct (aget (cache w) a) as [m|] eqn:E.
  - assert (Hk : In a (fresh w ++ regs (base w))).
    { apply in_or_app. destruct (Hc a); [congruence | auto | auto]. }
    apply memZ_in in Hk. rewrite Hk. reflexivity.
  - assert (Hm : memZ a (fresh w ++ regs (base w)) = memZ a (regs (base w))).
    { destruct (memZ a (regs (base w))) eqn:M.
      - apply memZ_in. apply in_or_app. right. apply memZ_in. exact M.
      - destruct (memZ a (fresh w ++ regs (base w))) eqn:M'; [|reflexivity].
        apply memZ_in in M'. apply in_app_or in M'. destruct M' as [M'|M'].
        + exfalso. apply (Hf a M'). exact E.
        + apply memZ_in in M'. congruence. }
    rewrite Hm. reflexivity.
Qed.

Lemma run_tx_sim L t L' o :
  wf_ledger L -> run_tx L t = (L', o) -> wf_ledger L' /\ spec_tx (abs L) t o (abs L').
Proof.
  intros HL. unfold run_tx.
  destruct (run_ops (begin L) (t_body t)) as [w [xs e]] eqn:Er.
  destruct (run_ops_sim _ _ _ _ _ (wfw_begin L HL) Er) as (Hw & Hb & Hne & Hso).
  fold (abs L) in Hso.
  destruct e as [e|].
  - intros H; inversion H; subst. split; [exact HL|]. eapply StAbort; [exact Hso | apply seq_refl].
  - destruct (t_script t) eqn:Ek; intros H; inversion H; subst.
    + split; [exact HL|]. eapply StScript; [exact Ek | exact Hso | apply seq_refl].
    + split; [apply wf_commit; exact Hw|].
      eapply StCommit; [exact Ek | exact Hso | apply commit_reload; exact Hw].
Qed.

Theorem run_history_refines h : forall L L' os,
  wf_ledger L -> run_history L h = (L', os) ->
  wf_ledger L' /\ spec_history (abs L) h os (abs L').
Proof.
  induction h as [|t r IH]; intros L L' os HL; simpl.
  - intros H; inversion H; subst. split; [exact HL | apply ShNil, seq_refl].
  - destruct (run_tx L t) as [L1 o] eqn:Et. destruct (run_history L1 r) as [L2 os2] eqn:Er.
    intros H; inversion H; subst.
    destruct (run_tx_sim L t L1 o HL Et) as (HL1 & Hst).
    destruct (IH L1 L' os2 HL1 Er) as (HL2 & Hsh).
    split; [exact HL2 | eapply ShCons; eassumption].
Qed.

Lemma wf_empty : wf_ledger empty_ledger.
Proof. split; simpl; [tauto | congruence]. Qed.

(* the property, from the initial (empty) chain state *)
Theorem refines_map_from_empty h :
  spec_history (abs empty_ledger) h (snd (run_history empty_ledger h))
               (abs (fst (run_history empty_ledger h))).
Proof.
  destruct (run_history empty_ledger h) as [L' os] eqn:E.
  apply (run_history_refines h empty_ledger L' os wf_empty E).
Qed.

(* no Go-level failure (missing slab, nil storage map) is reachable *)
Theorem never_crashes h L : wf_ledger L ->
  forall xs, In (xs, Some ECrashed) (snd (run_history L h)) -> False.
Proof.
  revert L. induction h as [|t r IH]; intros L HL xs; simpl; [tauto|].
  destruct (run_tx L t) as [L1 o] eqn:Et. destruct (run_history L1 r) as [L2 os2] eqn:Er. simpl.
  destruct (run_tx_sim L t L1 o HL Et) as (HL1 & _).
  intros [H|H].
  - subst o. unfold run_tx in Et.
    destruct (run_ops (begin L) (t_body t)) as [w [ys e]] eqn:Eo.
    destruct (run_ops_sim _ _ _ _ _ (wfw_begin L HL) Eo) as (_ & _ & Hne & _).
    destruct e; inversion Et; subst; congruence.
  - apply (IH L1 HL1 xs). rewrite Er. exact H.
Qed.

(* an aborted transaction and every script leave the committed registers untouched *)
Theorem abort_preserves_committed_state L t L' xs :
  (forall e, run_tx L t = (L', (xs, Some e)) -> L' = L) /\
  (t_script t = true -> forall o, run_tx L t = (L', o) -> L' = L).
Proof.
  unfold run_tx. destruct (run_ops (begin L) (t_body t)) as [w [ys e0]]. split.
  - intros e. destruct e0; intros H; inversion H; reflexivity.
  - intros Hs o. rewrite Hs. destruct e0; intros H; inversion H; reflexivity.
Qed.

(* a committed transaction is reloaded exactly: what the next transaction's fresh Storage
   decodes from the registers is the map the transaction saw at its end *)
Theorem commit_reload_identity L t L' xs :
  wf_ledger L -> t_script t = false -> run_tx L t = (L', (xs, None)) ->
  seq (abs L') (absw (fst (run_ops (begin L) (t_body t)))).
Proof.
  intros HL Hs. unfold run_tx.
  destruct (run_ops (begin L) (t_body t)) as [w [ys e0]] eqn:Er. simpl.
  destruct (run_ops_sim _ _ _ _ _ (wfw_begin L HL) Er) as (Hw & _).
  rewrite Hs. destruct e0; intros H; inversion H; subst. apply commit_reload. exact Hw.
Qed.

(* storagePaths lists exactly the occupied paths; a forEachStored that is never stopped by its
   callback visits exactly the occupied paths, each once, with the stored value's type *)
Theorem enumeration_exact w a :
  wfw w ->
  (forall w' l, step w (OPaths a) = (w', Done (RPaths l)) ->
     NoDup l /\ forall p, In p l <-> absw w a p <> None) /\
  (forall w' k l, step w (OForEach a k) = (w', Done (RVisited l)) -> (length l < k)%nat ->
     NoDup (map fst l) /\ forall p d, In (p, d) l <-> exists v, absw w a p = Some (v, d)).
Proof.
  intros Hw. split.
  - intros w' l Hs. destruct (step_sim _ _ _ _ Hw Hs) as (_ & _ & Hsp & _).
    inversion Hsp; subst. auto.
  - intros w' k l Hs Hk. destruct (step_sim _ _ _ _ Hw Hs) as (_ & _ & Hsp & _).
    inversion Hsp as [| | | | | | | | | | | | | |a0 k0 l0 s0 Hnd Hin Hle Hfull Hseq| | | | | | | |]; subst.
    split; [exact Hnd|]. intros p d. split; [apply Hin|].
    intros [v Hv]. destruct Hfull as [Hlen|Hall]; [lia|].
    assert (Hp : In p (map fst l)) by (apply Hall; congruence).
    apply in_map_iff in Hp. destruct Hp as [[p0 d0] [Ep Hp]]. simpl in Ep. subst p0.
    destruct (Hin p d0 Hp) as [v0 Hv0]. rewrite Hv in Hv0. inversion Hv0; subst. exact Hp.
Qed.

(* ---------------------------------------------------------------- the specification is tight *)
(* On operations other than the two enumerations the specification determines the outcome and
   the resulting map (so the refinement theorem pins every observable result); for
   storagePaths it determines the result up to order. *)
Definition enum_op (o : op) : bool :=
  match o with OPaths _ | OForEach _ _ => true | _ => false end.

Ltac eqs Hs :=
  repeat match goal with
         | H1 : ?s1 ?a ?p = _, H2 : ?s2 ?a ?p = _ |- _ =>
             lazymatch type of Hs with seq s1 s2 => rewrite (Hs a p) in H1; rewrite H1 in H2 end
         | H1 : ?s1 ?a ?p = _, H2 : ?s2 ?a ?p <> _ |- _ =>
             lazymatch type of Hs with seq s1 s2 => rewrite (Hs a p) in H1; rewrite H1 in H2 end
         | H1 : ?s1 ?a ?p <> _, H2 : ?s2 ?a ?p = _ |- _ =>
             lazymatch type of Hs with seq s1 s2 => rewrite (Hs a p) in H1; rewrite H2 in H1 end
         end.

Lemma spec_step_functional s1 s2 o out1 out2 s1' s2' :
  seq s1 s2 -> enum_op o = false ->
  spec_step s1 o out1 s1' -> spec_step s2 o out2 s2' ->
  out1 = out2 /\ (forall r, out1 = Done r -> seq s1' s2').
Proof.
  intros Hs He H1 H2.
  assert (Hu : forall a p a' p' e, upd s1 a p e a' p' = upd s2 a p e a' p').
  { intros. apply upd_seq. exact Hs. }
  destruct o; try discriminate He; inversion H1; subst; inversion H2; subst; eqs Hs;
    try congruence;
    try (match goal with H : upd _ _ _ _ _ _ = _ |- _ => rewrite Hu in H end);
    try (match goal with H : upd _ _ _ _ _ _ <> _ |- _ => rewrite Hu in H end);
    try congruence;
    repeat match goal with H : Some _ = Some _ |- _ => inversion H; subst; clear H end;
    try congruence;
    (split; [try reflexivity; try (rewrite (Hs _ _); reflexivity) | intros r0 Hr0; try discriminate Hr0]);
    try (unfold lookup_result; rewrite (Hs _ _); reflexivity);
    repeat match goal with
           | H : seq ?x _ |- seq ?x _ => eapply seq_trans; [exact H|]; clear H
           | H : seq ?y _ |- seq _ ?y => apply seq_sym; eapply seq_trans; [exact H|]; clear H; apply seq_sym
           end;
    try exact Hs; try apply seq_refl; try (apply upd_seq; exact Hs); try (apply upd_seq, upd_seq; exact Hs).
Qed.

Lemma spec_paths_unique s1 s2 a l1 l2 s1' s2' :
  seq s1 s2 ->
  spec_step s1 (OPaths a) (Done (RPaths l1)) s1' -> spec_step s2 (OPaths a) (Done (RPaths l2)) s2' ->
  Permutation l1 l2 /\ seq s1' s2'.
Proof.
  intros Hs H1 H2. inversion H1; subst. inversion H2; subst. split.
  - apply NoDup_Permutation; try assumption. intros p.
    match goal with Ha : forall p, In p l1 <-> _, Hb : forall p, In p l2 <-> _ |- _ =>
      rewrite Ha, Hb, (Hs a p) end. tauto.
  - eapply seq_trans; [eassumption|]. eapply seq_trans; [exact Hs|]. apply seq_sym. assumption.
Qed.

Definition no_enum (ops : list op) : Prop := forall o, In o ops -> enum_op o = false.

Lemma spec_ops_functional ops : forall s1 s2 xs1 e1 s1' xs2 e2 s2',
  seq s1 s2 -> no_enum ops ->
  spec_ops s1 ops xs1 e1 s1' -> spec_ops s2 ops xs2 e2 s2' ->
  xs1 = xs2 /\ e1 = e2 /\ (e1 = None -> seq s1' s2').
Proof.
  induction ops as [|o r IH]; intros s1 s2 xs1 e1 s1' xs2 e2 s2' Hs Hn H1 H2.
  - inversion H1; subst. inversion H2; subst. repeat split; auto. intros _.
    eapply seq_trans; [eassumption|]. eapply seq_trans; [exact Hs|]. apply seq_sym. assumption.
  - assert (Ho : enum_op o = false) by (apply Hn; left; reflexivity).
    assert (Hr : no_enum r) by (intros o' Hin; apply Hn; right; exact Hin).
    inversion H1; subst; inversion H2; subst.
    + match goal with Ha : spec_step s1 o _ _, Hb : spec_step s2 o _ _ |- _ =>
        destruct (spec_step_functional _ _ _ _ _ _ _ Hs Ho Ha Hb) as [E _] end.
      inversion E; subst. repeat split; auto. congruence.
    + match goal with Ha : spec_step s1 o _ _, Hb : spec_step s2 o _ _ |- _ =>
        destruct (spec_step_functional _ _ _ _ _ _ _ Hs Ho Ha Hb) as [E _] end. discriminate E.
    + match goal with Ha : spec_step s1 o _ _, Hb : spec_step s2 o _ _ |- _ =>
        destruct (spec_step_functional _ _ _ _ _ _ _ Hs Ho Ha Hb) as [E _] end. discriminate E.
    + match goal with Ha : spec_step s1 o _ _, Hb : spec_step s2 o _ _ |- _ =>
        destruct (spec_step_functional _ _ _ _ _ _ _ Hs Ho Ha Hb) as [E Hq] end.
      inversion E; subst.
      match goal with Ha : spec_ops _ r xs _ _, Hb : spec_ops _ r xs0 _ _ |- _ =>
        destruct (IH _ _ _ _ _ _ _ _ (Hq _ eq_refl) Hr Ha Hb) as (E1 & E2 & E3) end.
      subst. repeat split; auto.
Qed.

(* For histories without enumeration operations the specification admits exactly one trace of
   results: together with [run_history_refines] this says the code-shaped machine computes
   THE results the plain map prescribes. *)
Theorem spec_history_functional h : forall s1 s2 os1 os2 s1' s2',
  seq s1 s2 -> (forall t, In t h -> no_enum (t_body t)) ->
  spec_history s1 h os1 s1' -> spec_history s2 h os2 s2' ->
  os1 = os2 /\ seq s1' s2'.
Proof.
  induction h as [|t r IH]; intros s1 s2 os1 os2 s1' s2' Hs Hn H1 H2.
  - inversion H1; subst. inversion H2; subst. split; [reflexivity|].
    eapply seq_trans; [eassumption|]. eapply seq_trans; [exact Hs|]. apply seq_sym. assumption.
  - assert (Ht : no_enum (t_body t)) by (apply Hn; left; reflexivity).
    assert (Hr : forall t', In t' r -> no_enum (t_body t')) by (intros t' Hin; apply Hn; right; exact Hin).
    inversion H1 as [|? ? ? o1 os1' sa1 ? Htx1 Hh1]; subst.
    inversion H2 as [|? ? ? o2 os2' sa2 ? Htx2 Hh2]; subst.
    assert (Ho : o1 = o2 /\ seq sa1 sa2).
    { inversion Htx1; subst; inversion Htx2; subst;
        match goal with Ha : spec_ops s1 _ _ _ _, Hb : spec_ops s2 _ _ _ _ |- _ =>
          destruct (spec_ops_functional _ _ _ _ _ _ _ _ _ Hs Ht Ha Hb) as (E1 & E2 & E3) end;
        try congruence; subst; (split; [congruence|]).
      - eapply seq_trans; [eassumption|]. eapply seq_trans; [apply E3; reflexivity|].
        apply seq_sym. assumption.
      - eapply seq_trans; [eassumption|]. eapply seq_trans; [exact Hs|]. apply seq_sym. assumption.
      - eapply seq_trans; [eassumption|]. eapply seq_trans; [exact Hs|]. apply seq_sym. assumption. }
    destruct Ho as [-> Hsa].
    destruct (IH _ _ _ _ _ _ Hsa Hr Hh1 Hh2) as [-> Hf]. split; [reflexivity | exact Hf].
Qed.
