(* C22  Account storage as a typed path-indexed map: executable models (no proofs here).

   Two machines over the same operations:
   * the CODE-SHAPED machine ([step], [run_tx], [run_history]) transcribes the layering of the
     implementation: ledger registers (account register "stored" + slabs), a per-transaction
     runtime.Storage with its cache of account/domain storage maps that are created lazily
     (only by writes), mutated in memory, and written back by [commit] only when the
     transaction succeeded; [AccountStorageLoad] removes first and type-checks afterwards;
     load/copy/check use the static-type fast path IsSubTypeOfSemaType whereas borrow uses
     sema.IsSubType.
   * the SPECIFICATION ([spec_step], [spec_tx], [spec_history]) is a plain mathematical map
     address -> path -> option (value, type) with one clause per sentence of the property.
   Proofs relating the two are in C22/Proofs.v. *)
From CV Require Import Base.Prelude.

Definition addr := Z.
Definition path := Z.

(* ---------------------------------------------------------------------------------------- *)
(* The fixed type universe (declared by contract C of the harness).                          *)

(* dynamic (static-type-of-value) types of stored values *)
Inductive dty := DInt | DOptInt | DStr | DOptStr | DS | DS2 | DArr | DR | DR2.
(* type arguments:  Int, Integer, Int?, String?, String, C.S, C.S2, {C.SI}, [Int], AnyStruct,
                    @C.R, @C.R2, @{C.RI}, @AnyResource *)
Inductive sty := TInt | TInteger | TOptInt | TOptStr | TStr | TS | TS2 | TSI | TArr | TAnyStruct
               | TR | TR2 | TRI | TAnyResource.

Definition dty_eqb (a b : dty) : bool :=
  match a, b with
  | DInt, DInt | DOptInt, DOptInt | DStr, DStr | DOptStr, DOptStr | DS, DS | DS2, DS2
  | DArr, DArr | DR, DR | DR2, DR2 => true
  | _, _ => false
  end.

(* The explicit subtype table: stored type  <:  type argument  (this is sema.IsSubType
   restricted to the universe). *)
Definition sub (d : dty) (t : sty) : bool :=
  match d, t with
  | DInt, (TInt | TInteger | TOptInt | TAnyStruct) => true
  | DOptInt, (TOptInt | TAnyStruct) => true
  | DStr, (TStr | TOptStr | TAnyStruct) => true
  | DOptStr, (TOptStr | TAnyStruct) => true
  | DS, (TS | TAnyStruct) => true
  | DS2, (TS2 | TSI | TAnyStruct) => true
  | DArr, (TArr | TAnyStruct) => true
  | DR, (TR | TAnyResource) => true
  | DR2, (TR2 | TRI | TAnyResource) => true
  | _, _ => false
  end.

(* interpreter.IsSubTypeOfSemaType: optional static types are handled without converting to a
   sema type: optional super type -> recurse on the inner types; AnyStruct/AnyResource ->
   recurse on the inner type; otherwise [superType == AnyStruct]. Non-optional static types
   are converted and go through sema.IsSubType. *)
Definition opt_inner_d (d : dty) : option dty :=
  match d with DOptInt => Some DInt | DOptStr => Some DStr | _ => None end.
Definition opt_inner_t (t : sty) : option sty :=
  match t with TOptInt => Some TInt | TOptStr => Some TStr | _ => None end.
Definition static_sub (d : dty) (t : sty) : bool :=
  match opt_inner_d d with
  | Some di =>
      match opt_inner_t t with
      | Some ti => sub di ti
      | None =>
          match t with
          | TAnyStruct | TAnyResource => sub di t
          | _ => false
          end
      end
  | None => sub d t
  end.

(* A value returned at type T? is boxed to that static type: an Int loaded as Int? is Some(Int). *)
Definition box (t : sty) (d : dty) : dty :=
  match t with TOptInt => DOptInt | TOptStr => DOptStr | _ => d end.

(* ---------------------------------------------------------------------------------------- *)
(* Association lists keyed by Z (first match wins).                                          *)

Fixpoint aget {V} (l : list (Z * V)) (k : Z) : option V :=
  match l with
  | [] => None
  | (k', v) :: r => if k' =? k then Some v else aget r k
  end.
Fixpoint aset {V} (l : list (Z * V)) (k : Z) (v : V) : list (Z * V) :=
  match l with
  | [] => [(k, v)]
  | (k', v') :: r => if k' =? k then (k, v) :: r else (k', v') :: aset r k v
  end.
Definition adel {V} (l : list (Z * V)) (k : Z) : list (Z * V) :=
  filter (fun kv => negb (fst kv =? k)) l.
Definition memZ (k : Z) (l : list Z) : bool := existsb (Z.eqb k) l.

(* ---------------------------------------------------------------------------------------- *)
(* Operations, results, errors.                                                              *)

Definition entry := (Z * dty)%type.          (* payload, type of the stored value *)

Inductive op :=
| OSave (a : addr) (p : path) (v : Z) (d : dty)
| OLoad (a : addr) (p : path) (t : sty)
| OCopy (a : addr) (p : path) (t : sty)
| OBorrow (a : addr) (p : path) (t : sty)          (* borrow<&t> *)
| OCheck (a : addr) (p : path) (t : sty)
| OType (a : addr) (p : path)
| OPaths (a : addr)                                (* storagePaths *)
| OForEach (a : addr) (k : nat)                    (* forEachStored; the callback returns (calls so far) < k *)
| OMove (a : addr) (p : path) (t : sty) (a' : addr) (p' : path)
                                                   (* if let v <- load<t>(p) { a'.save(<-v, to: p') } *)
| ODescribe (a : addr) (p : path)                  (* observation: type(at:) + borrow at the top type *)
| OAssert (b : bool)                               (* pre-/post-condition, assert *)
| OPanic.

Inductive result :=
| RUnit | RNil
| RVal (v : Z) (d : dty)
| RBool (b : bool)
| RTy (d : dty)
| RPaths (l : list path)
| RVisited (l : list (path * dty)).

Inductive serr := EOverwrite | EMismatch | EPanic | ECond
                | ECrashed.   (* Go-level failure: register without slab, nil storage map *)
Inductive outcome := Done (r : result) | Fail (e : serr).

(* ---------------------------------------------------------------------------------------- *)
(* Code-shaped machine.                                                                      *)

Definition dmap := list (path * entry).       (* DomainStorageMap (domain "storage") *)
Definition acct := option dmap.               (* AccountStorageMap: None = domain not created yet *)
Record ledger := { regs : list addr;          (* accounts whose "stored" register exists *)
                   slabs : list (addr * acct) (* slab registers holding account storage maps *) }.
(* runtime.Storage of one transaction/script *)
Record wstate := { base : ledger;
                   cache : list (addr * acct);   (* cachedAccountStorageMaps / cachedDomainStorageMaps + slab deltas *)
                   fresh : list addr }.          (* newAccountStorageMapSlabIndices *)

Definition cache_put (w : wstate) (a : addr) (m : acct) : wstate :=
  {| base := base w; cache := aset (cache w) a m; fresh := fresh w |}.

(* AccountStorage.getAccountStorageMap: cached, else loaded from the register (and cached) *)
Definition get_account (w : wstate) (a : addr) : option (wstate * option acct) :=
  match aget (cache w) a with
  | Some m => Some (w, Some m)
  | None =>
      if memZ a (regs (base w)) then
        match aget (slabs (base w)) a with
        | Some m => Some (cache_put w a m, Some m)
        | None => None                          (* slab not found *)
        end
      else Some (w, None)
  end.

(* Storage.GetDomainStorageMap(address, domain, createIfNotExists) *)
Definition get_domain (w : wstate) (a : addr) (create : bool) : option (wstate * option dmap) :=
  match get_account w a with
  | None => None
  | Some (w1, None) =>
      if create then
        (* storeNewAccountStorageMap, then AccountStorageMap.GetDomain -> NewDomain *)
        let w2 := {| base := base w1; cache := aset (cache w1) a None; fresh := a :: fresh w1 |} in
        Some (cache_put w2 a (Some []), Some [])
      else Some (w1, None)
  | Some (w1, Some None) =>
      if create then Some (cache_put w1 a (Some []), Some []) else Some (w1, None)
  | Some (w1, Some (Some d)) => Some (w1, Some d)
  end.

Definition stored_value_exists (w : wstate) (a : addr) (p : path) : option (wstate * bool) :=
  match get_domain w a false with
  | None => None
  | Some (w1, None) => Some (w1, false)
  | Some (w1, Some d) => Some (w1, match aget d p with Some _ => true | None => false end)
  end.
Definition read_stored (w : wstate) (a : addr) (p : path) : option (wstate * option entry) :=
  match get_domain w a false with
  | None => None
  | Some (w1, None) => Some (w1, None)
  | Some (w1, Some d) => Some (w1, aget d p)
  end.
Definition write_stored (w : wstate) (a : addr) (p : path) (e : entry) : option wstate :=
  match get_domain w a true with
  | Some (w1, Some d) => Some (cache_put w1 a (Some (aset d p e)))
  | _ => None                                   (* nil storage map dereference *)
  end.
Definition remove_stored (w : wstate) (a : addr) (p : path) : option (wstate * option entry) :=
  match get_domain w a false with
  | None => None
  | Some (w1, None) => Some (w1, None)
  | Some (w1, Some d) =>
      match aget d p with
      | None => Some (w1, None)
      | Some e => Some (cache_put w1 a (Some (adel d p)), Some e)
      end
  end.

(* AccountStorageIterate: the callback is invoked on each element; iteration stops when it
   returns false, i.e. when (number of calls so far) < k is false. *)
Fixpoint iterate (d : dmap) (k count : nat) : list (path * dty) :=
  match d with
  | [] => []
  | (p, (_, ty)) :: r =>
      (p, ty) :: (if (S count <? k)%nat then iterate r k (S count) else [])
  end.

Definition step_save (w : wstate) (a : addr) (p : path) (v : Z) (d : dty) : wstate * outcome :=
  match stored_value_exists w a p with
  | None => (w, Fail ECrashed)
  | Some (w1, true) => (w1, Fail EOverwrite)
  | Some (w1, false) =>
      match write_stored w1 a p (v, d) with
      | None => (w1, Fail ECrashed)
      | Some w2 => (w2, Done RUnit)
      end
  end.

(* NOTE the order in AccountStorageLoad: RemoveStored first, dynamic type check afterwards *)
Definition step_load (w : wstate) (a : addr) (p : path) (t : sty) : wstate * outcome :=
  match remove_stored w a p with
  | None => (w, Fail ECrashed)
  | Some (w1, None) => (w1, Done RNil)
  | Some (w1, Some (v, d)) =>
      if static_sub d t then (w1, Done (RVal v (box t d))) else (w1, Fail EMismatch)
  end.

Definition step (w : wstate) (o : op) : wstate * outcome :=
  match o with
  | OSave a p v d => step_save w a p v d
  | OLoad a p t => step_load w a p t
  | OCopy a p t =>
      match read_stored w a p with
      | None => (w, Fail ECrashed)
      | Some (w1, None) => (w1, Done RNil)
      | Some (w1, Some (v, d)) =>
          if static_sub d t then (w1, Done (RVal v (box t d))) else (w1, Fail EMismatch)
      end
  | OBorrow a p t =>
      match read_stored w a p with
      | None => (w, Fail ECrashed)
      | Some (w1, None) => (w1, Done RNil)
      | Some (w1, Some (v, d)) =>
          if sub d t then (w1, Done (RVal v d)) else (w1, Fail EMismatch)
      end
  | OCheck a p t =>
      match read_stored w a p with
      | None => (w, Fail ECrashed)
      | Some (w1, None) => (w1, Done (RBool false))
      | Some (w1, Some (v, d)) => (w1, Done (RBool (static_sub d t)))
      end
  | OType a p =>
      match read_stored w a p with
      | None => (w, Fail ECrashed)
      | Some (w1, None) => (w1, Done RNil)
      | Some (w1, Some (v, d)) => (w1, Done (RTy d))
      end
  | OPaths a =>
      match get_domain w a false with
      | None => (w, Fail ECrashed)
      | Some (w1, None) => (w1, Done (RPaths []))
      | Some (w1, Some d) => (w1, Done (RPaths (map fst d)))
      end
  | OForEach a k =>
      match get_domain w a false with
      | None => (w, Fail ECrashed)
      | Some (w1, None) => (w1, Done (RVisited []))
      | Some (w1, Some d) => (w1, Done (RVisited (iterate d k 0)))
      end
  | OMove a p t a' p' =>
      match step_load w a p t with
      | (w1, Done (RVal v d')) =>
          match step_save w1 a' p' v d' with
          | (w2, Done _) => (w2, Done (RVal v d'))
          | (w2, Fail e) => (w2, Fail e)
          end
      | other => other
      end
  | ODescribe a p =>
      match read_stored w a p with
      | None => (w, Fail ECrashed)
      | Some (w1, None) => (w1, Done RNil)
      | Some (w1, Some (v, d)) => (w1, Done (RVal v d))
      end
  | OAssert b => if b then (w, Done RUnit) else (w, Fail ECond)
  | OPanic => (w, Fail EPanic)
  end.

(* statements run until the first failure (a Go panic unwinding to the executor) *)
Fixpoint run_ops (w : wstate) (ops : list op) : wstate * (list result * option serr) :=
  match ops with
  | [] => (w, ([], None))
  | o :: r =>
      match step w o with
      | (w1, Fail e) => (w1, ([], Some e))
      | (w1, Done x) =>
          let '(w2, (xs, e)) := run_ops w1 r in (w2, (x :: xs, e))
      end
  end.

(* a fresh runtime.Storage over the ledger *)
Definition begin (L : ledger) : wstate := {| base := L; cache := []; fresh := [] |}.

(* Storage.Commit: AccountStorage.commit writes the registers of new account storage maps,
   then the slab deltas are written *)
Definition commit (w : wstate) : ledger :=
  {| regs := fresh w ++ regs (base w);
     slabs := fold_right (fun am s => aset s (fst am) (snd am)) (slabs (base w)) (cache w) |}.

Record tx := { t_script : bool; t_body : list op }.

(* transaction executor: commit only after the whole body succeeded; script executor: never *)
Definition run_tx (L : ledger) (t : tx) : ledger * (list result * option serr) :=
  let '(w, (xs, e)) := run_ops (begin L) (t_body t) in
  match e with
  | Some _ => (L, (xs, e))
  | None => (if t_script t then L else commit w, (xs, None))
  end.

Fixpoint run_history (L : ledger) (h : list tx) : ledger * list (list result * option serr) :=
  match h with
  | [] => (L, [])
  | t :: r =>
      let '(L1, o) := run_tx L t in
      let '(L2, os) := run_history L1 r in (L2, o :: os)
  end.

(* ---------------------------------------------------------------------------------------- *)
(* Abstraction: what a working state / a ledger denotes as a map.                            *)

Definition smap := addr -> path -> option entry.

Definition acct_view (w : wstate) (a : addr) : option acct :=
  match aget (cache w) a with
  | Some m => Some m
  | None => if memZ a (regs (base w)) then aget (slabs (base w)) a else None
  end.
Definition dview (w : wstate) (a : addr) : option dmap :=
  match acct_view w a with Some (Some d) => Some d | _ => None end.
Definition absw (w : wstate) : smap :=
  fun a p => match dview w a with Some d => aget d p | None => None end.
Definition abs (L : ledger) : smap := absw (begin L).

(* ---------------------------------------------------------------------------------------- *)
(* Specification: a plain map.                                                               *)

Definition seq (s s' : smap) : Prop := forall a p, s a p = s' a p.
Definition upd (s : smap) (a : addr) (p : path) (e : option entry) : smap :=
  fun a' p' => if (a' =? a) && (p' =? p) then e else s a' p'.

Definition lookup_result (s : smap) (a : addr) (p : path) : result :=
  match s a p with Some (v, d) => RVal v d | None => RNil end.

(* [spec_step s o out s']: on map [s], operation [o] may produce [out] and leave map [s']
   (after a failure the transaction is aborted, so no post-state is specified). *)
Inductive spec_step (s : smap) : op -> outcome -> smap -> Prop :=
(* save fails on an occupied path, otherwise binds the path *)
| SpSaveOk a p v d s' :
    s a p = None -> seq s' (upd s a p (Some (v, d))) ->
    spec_step s (OSave a p v d) (Done RUnit) s'
| SpSaveOccupied a p v d s' :
    s a p <> None -> spec_step s (OSave a p v d) (Fail EOverwrite) s'
(* load: nil on empty; fails when the stored type is not a subtype; else value, and removes *)
| SpLoadNil a p t s' :
    s a p = None -> seq s' s -> spec_step s (OLoad a p t) (Done RNil) s'
| SpLoadMismatch a p t v d s' :
    s a p = Some (v, d) -> sub d t = false -> spec_step s (OLoad a p t) (Fail EMismatch) s'
| SpLoadOk a p t v d s' :
    s a p = Some (v, d) -> sub d t = true -> seq s' (upd s a p None) ->
    spec_step s (OLoad a p t) (Done (RVal v (box t d))) s'
(* copy: same, without removing *)
| SpCopyNil a p t s' :
    s a p = None -> seq s' s -> spec_step s (OCopy a p t) (Done RNil) s'
| SpCopyMismatch a p t v d s' :
    s a p = Some (v, d) -> sub d t = false -> spec_step s (OCopy a p t) (Fail EMismatch) s'
| SpCopyOk a p t v d s' :
    s a p = Some (v, d) -> sub d t = true -> seq s' s ->
    spec_step s (OCopy a p t) (Done (RVal v (box t d))) s'
(* borrow: same; the reference denotes the stored value *)
| SpBorrowNil a p t s' :
    s a p = None -> seq s' s -> spec_step s (OBorrow a p t) (Done RNil) s'
| SpBorrowMismatch a p t v d s' :
    s a p = Some (v, d) -> sub d t = false -> spec_step s (OBorrow a p t) (Fail EMismatch) s'
| SpBorrowOk a p t v d s' :
    s a p = Some (v, d) -> sub d t = true -> seq s' s ->
    spec_step s (OBorrow a p t) (Done (RVal v d)) s'
(* check<T> is true exactly when a value of a subtype of T is stored *)
| SpCheck a p t s' :
    seq s' s ->
    spec_step s (OCheck a p t)
      (Done (RBool (match s a p with Some (_, d) => sub d t | None => false end))) s'
(* type(at:) is the stored value's type *)
| SpType a p s' :
    seq s' s ->
    spec_step s (OType a p) (Done (match s a p with Some (_, d) => RTy d | None => RNil end)) s'
(* storagePaths enumerates exactly the occupied paths *)
| SpPaths a l s' :
    NoDup l -> (forall p, In p l <-> s a p <> None) -> seq s' s ->
    spec_step s (OPaths a) (Done (RPaths l)) s'
(* forEachStored visits distinct occupied paths with their types, and stops early only because
   the callback said so (after max 1 k calls); otherwise it has visited every occupied path *)
| SpForEach a k l s' :
    NoDup (map fst l) ->
    (forall p d, In (p, d) l -> exists v, s a p = Some (v, d)) ->
    (length l <= Nat.max 1 k)%nat ->
    (length l = Nat.max 1 k \/ forall p, s a p <> None -> In p (map fst l)) ->
    seq s' s ->
    spec_step s (OForEach a k) (Done (RVisited l)) s'
(* move = load then save of the loaded value *)
| SpMoveNil a p t a' p' s' :
    s a p = None -> seq s' s -> spec_step s (OMove a p t a' p') (Done RNil) s'
| SpMoveMismatch a p t a' p' v d s' :
    s a p = Some (v, d) -> sub d t = false -> spec_step s (OMove a p t a' p') (Fail EMismatch) s'
| SpMoveOccupied a p t a' p' v d s' :
    s a p = Some (v, d) -> sub d t = true -> upd s a p None a' p' <> None ->
    spec_step s (OMove a p t a' p') (Fail EOverwrite) s'
| SpMoveOk a p t a' p' v d s' :
    s a p = Some (v, d) -> sub d t = true -> upd s a p None a' p' = None ->
    seq s' (upd (upd s a p None) a' p' (Some (v, box t d))) ->
    spec_step s (OMove a p t a' p') (Done (RVal v (box t d))) s'
| SpDescribe a p s' :
    seq s' s -> spec_step s (ODescribe a p) (Done (lookup_result s a p)) s'
| SpAssertOk s' : seq s' s -> spec_step s (OAssert true) (Done RUnit) s'
| SpAssertFail s' : spec_step s (OAssert false) (Fail ECond) s'
| SpPanic s' : spec_step s OPanic (Fail EPanic) s'.

Inductive spec_ops : smap -> list op -> list result -> option serr -> smap -> Prop :=
| SoNil s s' : seq s' s -> spec_ops s [] [] None s'
| SoFail s o r e s' s'' : spec_step s o (Fail e) s' -> spec_ops s (o :: r) [] (Some e) s''
| SoCons s o r x xs e s1 s2 :
    spec_step s o (Done x) s1 -> spec_ops s1 r xs e s2 -> spec_ops s (o :: r) (x :: xs) e s2.

(* A transaction's effects become the map iff it is a transaction (not a script) and it
   completed; otherwise the map is unchanged. *)
Inductive spec_tx (s : smap) (t : tx) : list result * option serr -> smap -> Prop :=
| StCommit xs s1 s' :
    t_script t = false -> spec_ops s (t_body t) xs None s1 -> seq s' s1 ->
    spec_tx s t (xs, None) s'
| StScript xs s1 s' :
    t_script t = true -> spec_ops s (t_body t) xs None s1 -> seq s' s ->
    spec_tx s t (xs, None) s'
| StAbort xs e s1 s' :
    spec_ops s (t_body t) xs (Some e) s1 -> seq s' s ->
    spec_tx s t (xs, Some e) s'.

Inductive spec_history : smap -> list tx -> list (list result * option serr) -> smap -> Prop :=
| ShNil s s' : seq s' s -> spec_history s [] [] s'
| ShCons s t r o os s1 s2 :
    spec_tx s t o s1 -> spec_history s1 r os s2 -> spec_history s (t :: r) (o :: os) s2.

(* ---------------------------------------------------------------------------------------- *)
(* Well-formedness (holds of the empty ledger, preserved by every run).                      *)

Definition wf_ledger (L : ledger) : Prop :=
  (forall a, In a (regs L) -> aget (slabs L) a <> None) /\
  (forall a d, aget (slabs L) a = Some (Some d) -> NoDup (map fst d)).
Definition wfw (w : wstate) : Prop :=
  wf_ledger (base w) /\
  (forall a, aget (cache w) a <> None -> In a (regs (base w)) \/ In a (fresh w)) /\
  (forall a, In a (fresh w) -> aget (cache w) a <> None) /\
  (forall a d, aget (cache w) a = Some (Some d) -> NoDup (map fst d)).

Definition empty_ledger : ledger := {| regs := []; slabs := [] |}.
