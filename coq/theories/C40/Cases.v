(* Check functions used by the per-run case files of C40. *)
From CV Require Export C40.Model C17.Cases.

Definition verdict_eqb (a b : verdict) : bool :=
  match a, b with
  | VAccept x, VAccept y => x =? y
  | VRange, VRange | VScale, VScale | VType, VType | VParse, VParse => true
  | _, _ => false
  end.

Inductive c40case : Type :=
| CIntLit (k : ikind) (neg : bool) (b : lbase) (text : list Z) (obs : verdict)
| CFixLit (f : fkind) (neg : bool) (ip fp : list Z) (obs : verdict)
| CStrLit (content : list Z) (obs : option (list Z))   (* code points between the quotes; None = parse error *)
| CQuote (cps : list Z) (obs : list Z).                (* ast.QuoteString without the surrounding quotes *)

Definition check_c40 (c : c40case) : bool :=
  match c with
  | CIntLit k neg b text obs => verdict_eqb (check_int_literal k neg b text) obs
  | CFixLit f neg ip fp obs => verdict_eqb (check_fix_literal f neg ip fp) obs
  | CStrLit s obs => opt_eqb list_eqb (decode_string s) obs
  | CQuote cps obs => list_eqb (quote_string cps) obs
  end.
