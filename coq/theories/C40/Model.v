(* C40  Literals denote their written values.
   Executable, code-shaped model of
     parser/expression.go   parseIntegerLiteral, parseFixedPointPart/parseFixedPointLiteral, the prefix-minus
                            folding of the TokenMinus null denotation, parseStringLiteralContent, parseHex
     sema/checker.go        CheckIntegerLiteral (checkIntegerRange), CheckFixedPointLiteral
     fixedpoint/check.go, convert.go   CheckRange, ConvertToFixedPointBigInt   (shared with C17/Model.v)
     interpreter            VisitIntegerExpression / VisitFixedPointExpression (value of an accepted literal)
     ast/string.go          QuoteString
   Literal texts are lists of byte values; string contents are lists of code points.
   big.Int.SetString and strings.Builder.WriteRune are modelled by their documented behaviour.
   No proofs in this file. *)
From CV Require Export C17.Model.

Inductive lbase : Type := B2 | B8 | B10 | B16.
Definition base_val (b : lbase) : Z :=
  match b with B2 => 2 | B8 => 8 | B10 => 10 | B16 => 16 end.

(* math/big: digit value of a character in SetString *)
Definition digit_of (c : Z) : option Z :=
  if (48 <=? c) && (c <=? 57) then Some (c - 48)
  else if (97 <=? c) && (c <=? 122) then Some (c - 87)
  else if (65 <=? c) && (c <=? 90) then Some (c - 55)
  else None.

(* new(big.Int).SetString(s, base) on an unsigned, non-empty digit string (the lexer never includes a sign) *)
Fixpoint parse_base (b : Z) (s : list Z) (acc : Z) : option Z :=
  match s with
  | [] => Some acc
  | c :: r => match digit_of c with
              | Some d => if d <? b then parse_base b r (acc * b + d) else None
              | None => None
              end
  end.

Definition ch_us := 95.
Definition remove_underscores (s : list Z) : list Z := filter (fun c => negb (c =? ch_us)) s.
Definition starts_with_us (s : list Z) : bool := match s with c :: _ => c =? ch_us | [] => false end.
Definition ends_with_us (s : list Z) : bool := starts_with_us (rev s).

(* parser/expression.go: parseIntegerLiteral on the token text without its base prefix.
   None = the parser reports an error (leading underscore, trailing underscore, missing digits, invalid digit);
   any reported error rejects the program. *)
Definition int_lit_value (b : lbase) (text : list Z) : option Z :=
  if starts_with_us text then None
  else if ends_with_us text then None
  else match remove_underscores text with
       | [] => None
       | w => parse_base (base_val b) w 0
       end.

Inductive verdict : Type :=
| VAccept (v : Z)     (* accepted; run-time value (raw scaled integer for fixed-point) *)
| VRange              (* InvalidIntegerLiteralRangeError / InvalidFixedPointLiteralRangeError *)
| VScale              (* InvalidFixedPointLiteralScaleError *)
| VType               (* any other checker error (type mismatch) *)
| VParse.             (* parser error *)

(* sema: checkIntegerRange(value, min, max) with nil = unbounded *)
Definition check_integer_range (v : Z) (mn mx : option Z) : bool :=
  (match mn with Some m => m <=? v | None => true end) &&
  (match mx with Some m => v <=? m | None => true end).

(* `let x: T = [-]<integer literal>`:
   the parser folds the minus sign into the literal only when the value is positive; otherwise the program is
   a unary minus applied to the literal 0, whose type is inferred as Int. *)
Definition check_int_literal (k : ikind) (neg : bool) (b : lbase) (text : list Z) : verdict :=
  match int_lit_value b text with
  | None => VParse
  | Some v =>
    if neg && negb (v >? 0) then
      match k with KInt => VAccept 0 | _ => VType end
    else
      let v' := if neg then - v else v in
      if check_integer_range v' (kmin k) (kmax k) then VAccept v' else VRange
  end.

(* parser/expression.go: parseFixedPointPart *)
Definition fix_part (s : list Z) : Z * Z :=
  let w := remove_underscores s in
  let v := match w with
           | [] => 0
           | _ => match parse_base 10 w 0 with Some v => v | None => 0 end
           end in
  let scale := Z.of_nat (length w) in
  (v, if scale =? 0 then 1 else scale).

(* parseFixedPointLiteral + the prefix minus (always folded for fixed-point literals) *)
Definition fix_lit_parse (neg : bool) (ip fp : list Z) : fparsed :=
  {| fp_neg := neg; fp_int := fst (fix_part ip); fp_frac := fst (fix_part fp); fp_scale := snd (fix_part fp) |}.

(* sema.CheckFixedPointLiteral, then interpreter.VisitFixedPointExpression for the value *)
Definition check_fix_parsed (f : fkind) (p : fparsed) : verdict :=
  if fp_scale p >? fscale f then VScale
  else if check_range (fp_neg p) (fp_int p) (fp_frac p) (fminInt f) (fminFrac f) (fmaxInt f) (fmaxFrac f)
       then VAccept (fix_store f (convert_fixed (fp_neg p) (fp_int p) (fp_frac p) (fp_scale p) (fscale f)))
       else VRange.
Definition check_fix_literal (f : fkind) (neg : bool) (ip fp : list Z) : verdict :=
  check_fix_parsed f (fix_lit_parse neg ip fp).

(* ------------------------------------------------------------------ what the property demands *)
(* the written value: sum of digit * base^position *)
Fixpoint digits_sum (b : Z) (ds : list Z) : Z :=
  match ds with
  | [] => 0
  | d :: r => d * b ^ Z.of_nat (length r) + digits_sum b r
  end.

(* the digits of a literal text (None if some character is not a digit of the base) *)
Fixpoint text_digits (b : Z) (s : list Z) : option (list Z) :=
  match s with
  | [] => Some []
  | c :: r =>
    if c =? ch_us then text_digits b r
    else match digit_of c, text_digits b r with
         | Some d, Some ds => if d <? b then Some (d :: ds) else None
         | _, _ => None
         end
  end.

Definition spec_int_literal (k : ikind) (neg : bool) (b : lbase) (text : list Z) : verdict :=
  if starts_with_us text || ends_with_us text then VParse
  else match text_digits (base_val b) text with
       | None | Some [] => VParse
       | Some ds =>
         let v := if neg then - digits_sum (base_val b) ds else digits_sum (base_val b) ds in
         if in_rangeb k v then VAccept v else VRange
       end.

Definition spec_fix_parsed (f : fkind) (p : fparsed) : verdict :=
  if fp_scale p >? fscale f then VScale
  else if fin_rangeb f (fix_exact f p) then VAccept (fix_exact f p) else VRange.

(* ------------------------------------------------------------------ string literals *)
(* a Unicode scalar value *)
Definition valid_scalar (r : Z) : bool :=
  (0 <=? r) && (r <=? 1114111) && negb ((55296 <=? r) && (r <=? 57343)).
(* strings.Builder.WriteRune: an invalid rune is written as U+FFFD *)
Definition write_rune (r : Z) : Z := if valid_scalar r then r else 65533.

Inductive dstate : Type :=
| SNorm                 (* outside an escape *)
| SEsc                  (* after '\' *)
| SU                    (* after '\u' *)
| SHex (r2 k : Z)       (* after '\u{' and k < 8 hex digits *)
| SClose (r2 : Z).      (* after 8 hex digits: only '}' may follow *)

(* parser/expression.go: parseStringLiteralContent on the code points between the quotes.
   None = an error is reported; Some = the decoded code points. r2 is a Go rune (int32). *)
Fixpoint dec (st : dstate) (s : list Z) (acc : list Z) : option (list Z) :=
  match s with
  | [] => match st with SNorm => Some (rev acc) | _ => None end
  | c :: r =>
    match st with
    | SNorm => if c =? 92 then dec SEsc r acc else dec SNorm r (c :: acc)
    | SEsc =>
        if c =? 48 then dec SNorm r (0 :: acc)            (* \0 *)
        else if c =? 110 then dec SNorm r (10 :: acc)     (* \n *)
        else if c =? 114 then dec SNorm r (13 :: acc)     (* \r *)
        else if c =? 116 then dec SNorm r (9 :: acc)      (* \t *)
        else if c =? 34 then dec SNorm r (34 :: acc)      (* backslash, double quote *)
        else if c =? 39 then dec SNorm r (39 :: acc)      (* backslash, single quote *)
        else if c =? 92 then dec SNorm r (92 :: acc)      (* \\ *)
        else if c =? 117 then dec SU r acc                (* \u *)
        else None                                         (* invalid escape character *)
    | SU => if c =? 123 then dec (SHex 0 0) r acc else None
    | SHex r2 k =>
        if c =? 125 then dec SNorm r (if k >? 0 then write_rune r2 :: acc else acc)
        else match hex_val c with
             | Some d =>
                 let r2' := wrap_s 32 (r2 * 16 + d) in
                 if k + 1 <? 8 then dec (SHex r2' (k + 1)) r acc else dec (SClose r2') r acc
             | None => None
             end
    | SClose r2 => if c =? 125 then dec SNorm r (write_rune r2 :: acc) else None
    end
  end.

Definition decode_string (s : list Z) : option (list Z) := dec SNorm s [].

(* ast.QuoteStringInner *)
Definition quote_rune (r : Z) : list Z :=
  if r =? 0 then [92; 48]
  else if r =? 10 then [92; 110]
  else if r =? 13 then [92; 114]
  else if r =? 9 then [92; 116]
  else if r =? 92 then [92; 92]
  else if r =? 34 then [92; 34]
  else if (32 <=? r) && (r <=? 126) then [r]
  else [92; 117; 123] ++
       map hex_digit (strip0 (fixed_digits 16 6 (if r >? 1114111 then 65533 else r))) ++ [125].
Definition quote_string (cps : list Z) : list Z := flat_map quote_rune cps.
