(* C40 proofs about the model in C40/Model.v. *)
From CV Require Export C40.Model C17.BytesProofs.
From Coq Require Import Lia ZArith List Bool.
Import ListNotations.
Open Scope Z_scope.

(* ================================================================== integer literals *)
Lemma digits_sum_val b ds : val b ds = digits_sum b ds.
Proof. induction ds as [|d r IH]; [reflexivity|]. rewrite val_cons, IH. reflexivity. Qed.

Lemma digit_of_nonneg c d : digit_of c = Some d -> 0 <= d.
Proof.
  unfold digit_of. intro H.
  destruct ((48 <=? c) && (c <=? 57)) eqn:E1.
  { apply andb_true_iff in E1. destruct E1 as [A B]. apply Z.leb_le in A. inversion H. lia. }
  destruct ((97 <=? c) && (c <=? 122)) eqn:E2.
  { apply andb_true_iff in E2. destruct E2 as [A B]. apply Z.leb_le in A. inversion H. lia. }
  destruct ((65 <=? c) && (c <=? 90)) eqn:E3; [|discriminate].
  apply andb_true_iff in E3. destruct E3 as [A B]. apply Z.leb_le in A. inversion H. lia.
Qed.

Lemma text_digits_ok b s ds : text_digits b s = Some ds -> digits_ok b ds.
Proof.
  revert ds. induction s as [|c r IH]; intros ds H; simpl in H.
  - inversion H. constructor.
  - destruct (c =? ch_us); [apply IH; assumption|].
    destruct (digit_of c) as [d|] eqn:Ed; [|discriminate].
    destruct (text_digits b r) as [ds'|]; [|discriminate].
    destruct (d <? b) eqn:El; [|discriminate]. inversion H; subst.
    constructor; [split; [eapply digit_of_nonneg; eassumption|apply Z.ltb_lt; assumption]|apply IH; reflexivity].
Qed.

(* SetString on the text without underscores = Horner evaluation of the text's digits *)
Lemma parse_base_text_digits b s : forall acc,
  parse_base b (remove_underscores s) acc =
  match text_digits b s with Some ds => Some (val_from b acc ds) | None => None end.
Proof.
  induction s as [|c r IH]; intro acc; [reflexivity|].
  unfold remove_underscores in *. cbn [filter text_digits].
  destruct (c =? ch_us) eqn:Eu; cbn [negb]; [apply IH|].
  cbn [parse_base]. destruct (digit_of c) as [d|]; [|reflexivity].
  destruct (d <? b) eqn:El.
  - rewrite IH. destruct (text_digits b r); reflexivity.
  - destruct (text_digits b r); reflexivity.
Qed.

Lemma remove_underscores_nil_iff b s ds :
  text_digits b s = Some ds -> (remove_underscores s = [] <-> ds = []).
Proof.
  revert ds. induction s as [|c r IH]; intros ds H; simpl in H.
  - inversion H. split; reflexivity.
  - unfold remove_underscores in *. cbn [filter]. destruct (c =? ch_us); cbn [negb]; [apply IH; assumption|].
    destruct (digit_of c); [|discriminate]. destruct (text_digits b r); [|discriminate].
    destruct (z <? b); [|discriminate]. inversion H. split; discriminate.
Qed.

(* the literal denotes sum of digit * base^position, and is a parse error exactly for a leading or trailing
   underscore, no digits, or a character that is not a digit of the base *)
Theorem int_lit_value_spec b text :
  int_lit_value b text =
  if starts_with_us text || ends_with_us text then None
  else match text_digits (base_val b) text with
       | None | Some [] => None
       | Some ds => Some (digits_sum (base_val b) ds)
       end.
Proof.
  unfold int_lit_value.
  destruct (starts_with_us text); [reflexivity|]. destruct (ends_with_us text); [reflexivity|]. cbn [orb].
  pose proof (parse_base_text_digits (base_val b) text 0) as Hp.
  destruct (text_digits (base_val b) text) as [ds|] eqn:Ed.
  - pose proof (remove_underscores_nil_iff _ _ _ Ed) as Hn.
    destruct (remove_underscores text) as [|c w] eqn:Ew.
    + rewrite (proj1 Hn eq_refl). reflexivity.
    + destruct ds as [|d ds']; [discriminate (proj2 Hn eq_refl)|].
      rewrite Hp. fold (val (base_val b) (d :: ds')). rewrite digits_sum_val. reflexivity.
  - destruct (remove_underscores text); [reflexivity|]. exact Hp.
Qed.

Lemma digits_sum_nonneg b ds : 0 < b -> digits_ok b ds -> 0 <= digits_sum b ds.
Proof.
  intros Hb H. rewrite <- digits_sum_val. apply (val_bound b ds Hb H).
Qed.

Lemma base_val_pos b : 0 < base_val b.
Proof. destruct b; reflexivity. Qed.

Lemma check_integer_range_in_rangeb k v : check_integer_range v (kmin k) (kmax k) = in_rangeb k v.
Proof. reflexivity. Qed.

(* the checker accepts the literal with its written value exactly when that value is in range --
   except for a negated literal of value zero *)
Theorem check_int_literal_partial k neg b text :
  (neg = true -> int_lit_value b text = Some 0 -> k = KInt) ->
  check_int_literal k neg b text = spec_int_literal k neg b text.
Proof.
  intro Hg. unfold check_int_literal, spec_int_literal.
  rewrite int_lit_value_spec in *.
  destruct (starts_with_us text || ends_with_us text); [reflexivity|].
  destruct (text_digits (base_val b) text) as [ds|] eqn:Ed; [|reflexivity].
  destruct ds as [|d ds']; [reflexivity|].
  pose proof (digits_sum_nonneg _ _ (base_val_pos b) (text_digits_ok _ _ _ Ed)) as Hnn.
  set (v := digits_sum (base_val b) (d :: ds')) in *.
  rewrite check_integer_range_in_rangeb.
  destruct neg; cbn [andb].
  - destruct (v >? 0) eqn:Ev; cbn [negb]; [reflexivity|].
    rewrite Z.gtb_ltb in Ev. apply Z.ltb_ge in Ev. assert (v = 0) by lia.
    rewrite (Hg eq_refl ltac:(f_equal; assumption)). rewrite H. reflexivity.
  - reflexivity.
Qed.

(* REFUTED without the guard: `let x: Int8 = -0` is a type error although 0 is in range *)
Theorem check_int_literal_minus_zero :
  check_int_literal (KSigned 8) true B10 [48] = VType /\
  spec_int_literal (KSigned 8) true B10 [48] = VAccept 0 /\
  check_int_literal (KUnsigned 8) true B16 [48; 48] = VType /\
  check_int_literal KInt true B10 [48] = VAccept 0.
Proof. vm_compute. repeat split. Qed.

(* rejected exactly when out of range (for literals that parse) *)
Theorem check_int_literal_range k neg b text v :
  int_lit_value b text = Some v -> (neg = true -> v <> 0) ->
  let w := if neg then - v else v in
  (in_range k w -> check_int_literal k neg b text = VAccept w) /\
  (~ in_range k w -> check_int_literal k neg b text = VRange).
Proof.
  intros Hv Hg w. unfold check_int_literal. rewrite Hv.
  assert (Hnn : 0 <= v).
  { rewrite int_lit_value_spec in Hv.
    destruct (starts_with_us text || ends_with_us text); [discriminate|].
    destruct (text_digits (base_val b) text) as [ds|] eqn:Ed; [|discriminate].
    destruct ds; [discriminate|].
    pose proof (digits_sum_nonneg _ _ (base_val_pos b) (text_digits_ok _ _ _ Ed)) as Hn.
    assert (Hv' : v = digits_sum (base_val b) (z :: ds)) by congruence. rewrite Hv'. exact Hn. }
  assert (Hf : neg && negb (v >? 0) = false).
  { destruct neg; [|reflexivity]. specialize (Hg eq_refl).
    replace (v >? 0) with true by (symmetry; apply Z.gtb_lt; lia). reflexivity. }
  rewrite Hf. rewrite check_integer_range_in_rangeb. fold w.
  split; intro H.
  - apply in_rangeb_spec in H. rewrite H. reflexivity.
  - destruct (in_rangeb k w) eqn:E; [apply in_rangeb_spec in E; contradiction|reflexivity].
Qed.

(* ================================================================== fixed-point literals *)
Lemma parse_base_bound b s : 1 < b -> forall acc v, 0 <= acc -> parse_base b s acc = Some v ->
  0 <= v < (acc + 1) * b ^ Z.of_nat (length s).
Proof.
  intro Hb. induction s as [|c r IH]; intros acc v Ha H.
  - simpl in *. inversion H. lia.
  - cbn [parse_base] in H. destruct (digit_of c) as [d|] eqn:Ed; [|discriminate].
    destruct (d <? b) eqn:El; [|discriminate]. apply Z.ltb_lt in El.
    pose proof (digit_of_nonneg _ _ Ed).
    apply IH in H; [|nia].
    replace (Z.of_nat (length (c :: r))) with (Z.succ (Z.of_nat (length r))) by (simpl length; lia).
    rewrite Z.pow_succ_r by lia.
    assert (0 < b ^ Z.of_nat (length r)) by (apply Z.pow_pos_nonneg; lia). nia.
Qed.

Lemma fix_part_facts s : 0 <= fst (fix_part s) < 10 ^ snd (fix_part s) /\ 1 <= snd (fix_part s).
Proof.
  unfold fix_part. cbv zeta. cbn [fst snd].
  set (w := remove_underscores s).
  destruct w as [|c r] eqn:Ew.
  - simpl. lia.
  - replace (Z.of_nat (length (c :: r)) =? 0) with false by (symmetry; apply Z.eqb_neq; simpl length; lia).
    split; [|simpl length; lia].
    destruct (parse_base 10 (c :: r) 0) as [v|] eqn:Ep.
    + apply parse_base_bound in Ep; lia.
    + split; [lia|]. apply Z.pow_pos_nonneg; lia.
Qed.

Lemma fix_lit_parse_facts neg ip fp :
  let p := fix_lit_parse neg ip fp in
  0 <= fp_int p /\ 0 <= fp_frac p < 10 ^ fp_scale p /\ 0 <= fp_scale p.
Proof.
  cbv zeta. unfold fix_lit_parse. cbn [fp_int fp_frac fp_scale].
  pose proof (fix_part_facts ip). pose proof (fix_part_facts fp). lia.
Qed.

(* the parts are the written digits *)
Lemma fix_part_spec s ds :
  text_digits 10 s = Some ds ->
  fix_part s = (digits_sum 10 ds, if Z.of_nat (length ds) =? 0 then 1 else Z.of_nat (length ds)).
Proof.
  intro Hd. unfold fix_part. cbv zeta.
  pose proof (parse_base_text_digits 10 s 0) as Hp. rewrite Hd in Hp.
  pose proof (remove_underscores_nil_iff _ _ _ Hd) as Hn.
  assert (Hlen : length (remove_underscores s) = length ds).
  { clear Hp Hn. revert ds Hd. induction s as [|c r IH]; intros ds Hd; simpl in Hd.
    - inversion Hd. reflexivity.
    - unfold remove_underscores in *. cbn [filter]. destruct (c =? ch_us); cbn [negb]; [apply IH; assumption|].
      destruct (digit_of c); [|discriminate]. destruct (text_digits 10 r) as [ds'|]; [|discriminate].
      destruct (z <? 10); [|discriminate]. inversion Hd. simpl. f_equal. apply IH. reflexivity. }
  rewrite Hlen. f_equal.
  destruct (remove_underscores s) as [|c w] eqn:Ew.
  - rewrite (proj1 Hn eq_refl). reflexivity.
  - rewrite Hp. fold (val 10 ds). apply digits_sum_val.
Qed.

Lemma check_fix_parsed_bridge f p :
  check_fix_parsed f p =
  if fp_scale p >? fscale f then VScale
  else match check_and_convert f p with Some v => VAccept (fix_store f v) | None => VRange end.
Proof.
  unfold check_fix_parsed, check_and_convert.
  destruct (fp_scale p >? fscale f); [reflexivity|].
  destruct (check_range _ _ _ _ _ _ _); reflexivity.
Qed.

(* the checker's verdict and the run-time value of a fixed-point literal: exact decimal value, rejected exactly for
   too many fractional digits or out of range -- under the guard that excludes the two defects *)
Theorem check_fix_parsed_partial f p :
  0 <= fp_int p -> 0 <= fp_frac p < 10 ^ fp_scale p -> 0 <= fp_scale p ->
  fix_guard f p ->
  ~ (fp_neg p = true /\ fsigned f = false /\ fix_exact f p = 0) ->
  check_fix_parsed f p = spec_fix_parsed f p.
Proof.
  intros Hi Hfr Hsc Hg Hz. rewrite check_fix_parsed_bridge. unfold spec_fix_parsed.
  destruct (fp_scale p >? fscale f) eqn:Esc; [reflexivity|].
  destruct (fsigned f) eqn:Es.
  - pose proof (check_and_convert_partial f p Hi Hfr Hsc ltac:(intro; congruence) Hg) as H.
    rewrite Esc in H.
    destruct (check_and_convert f p); destruct (fin_rangeb f (fix_exact f p)); inversion H; reflexivity.
  - destruct (fp_neg p) eqn:En.
    + (* negative literal for an unsigned type *)
      destruct (fkind_facts f) as (HF & _ & _ & _ & _ & HFe & _ & Hu & _).
      destruct (Hu Es) as [Hmin _].
      assert (Hcr : check_and_convert f p = None).
      { unfold check_and_convert. rewrite Esc. unfold check_range. rewrite En.
        unfold fminInt. rewrite Hmin. rewrite Z.quot_0_l by lia. reflexivity. }
      rewrite Hcr.
      assert (Hex : fix_exact f p < 0).
      { assert (fix_exact f p <= 0).
        { unfold fix_exact. rewrite En.
          rewrite Z.gtb_ltb in Esc. apply Z.ltb_ge in Esc.
          assert (0 <= 10 ^ (fscale f - fp_scale p)) by (apply Z.pow_nonneg; lia). nia. }
        destruct (Z.eq_dec (fix_exact f p) 0); [exfalso; apply Hz; auto|lia]. }
      unfold fin_rangeb. rewrite Hmin.
      replace (0 <=? fix_exact f p) with false by (symmetry; apply Z.leb_gt; lia). reflexivity.
    + pose proof (check_and_convert_partial f p Hi Hfr Hsc ltac:(intro; assumption) Hg) as H.
      rewrite Esc in H.
      destruct (check_and_convert f p); destruct (fin_rangeb f (fix_exact f p)); inversion H; reflexivity.
Qed.

(* REFUTED without the guard *)
(* 92233720368.6 : Fix64   and   -0.0 : UFix64 *)
Theorem check_fix_literal_defects :
  check_fix_literal FFix64 false [57;50;50;51;51;55;50;48;51;54;56] [54] = VAccept (-9223372036849551616) /\
  spec_fix_parsed FFix64 (fix_lit_parse false [57;50;50;51;51;55;50;48;51;54;56] [54]) = VRange /\
  check_fix_literal FUFix64 true [48] [48] = VRange /\
  spec_fix_parsed FUFix64 (fix_lit_parse true [48] [48]) = VAccept 0.
Proof. vm_compute. repeat split. Qed.

(* ================================================================== string literals *)
Theorem simple_escapes rest acc :
  dec SNorm (92 :: 48 :: rest) acc = dec SNorm rest (0 :: acc) /\
  dec SNorm (92 :: 110 :: rest) acc = dec SNorm rest (10 :: acc) /\
  dec SNorm (92 :: 114 :: rest) acc = dec SNorm rest (13 :: acc) /\
  dec SNorm (92 :: 116 :: rest) acc = dec SNorm rest (9 :: acc) /\
  dec SNorm (92 :: 34 :: rest) acc = dec SNorm rest (34 :: acc) /\
  dec SNorm (92 :: 39 :: rest) acc = dec SNorm rest (39 :: acc) /\
  dec SNorm (92 :: 92 :: rest) acc = dec SNorm rest (92 :: acc).
Proof. repeat split. Qed.

Theorem plain_char c rest acc : c <> 92 -> dec SNorm (c :: rest) acc = dec SNorm rest (c :: acc).
Proof. intro H. cbn [dec]. destruct (c =? 92) eqn:E; [apply Z.eqb_eq in E; contradiction|reflexivity]. Qed.

(* the Go rune accumulated from hex digits *)
Definition rune32 (r2 : Z) (ds : list Z) : Z := fold_left (fun a d => wrap_s 32 (a * 16 + d)) ds r2.

Definition hex_chars (ds cs : list Z) : Prop := Forall2 (fun d c => hex_val c = Some d) ds cs.

Lemma dec_hex_run : forall ds cs, hex_chars ds cs -> forall r2 k rest acc,
  0 <= k -> k + len cs <= 8 -> 0 < k + len cs ->
  dec (SHex r2 k) (cs ++ 125 :: rest) acc = dec SNorm rest (write_rune (rune32 r2 ds) :: acc).
Proof.
  induction 1 as [|d c ds cs Hdc Hrest IH]; intros r2 k rest acc Hk Hle Hpos.
  - unfold len in *. simpl in *. replace (k >? 0) with true by (symmetry; apply Z.gtb_lt; lia). reflexivity.
  - cbn [app dec]. destruct (c =? 125) eqn:E.
    { apply Z.eqb_eq in E. subst c. vm_compute in Hdc. discriminate. }
    rewrite Hdc. cbv zeta.
    assert (Hl : len (c :: cs) = 1 + len cs) by (unfold len; simpl length; lia).
    rewrite Hl in *.
    destruct (k + 1 <? 8) eqn:E8.
    + apply Z.ltb_lt in E8. rewrite IH by (pose proof (len_nonneg cs); lia). reflexivity.
    + apply Z.ltb_ge in E8. pose proof (len_nonneg cs).
      assert (len cs = 0) by lia. destruct cs; [|unfold len in *; simpl in *; lia].
      inversion Hrest; subst. cbn [app dec]. reflexivity.
Qed.

(* \u{h...h} with 1..8 hex digits decodes to the rune they spell (written by WriteRune) *)
Theorem unicode_escape ds cs rest acc :
  hex_chars ds cs -> 1 <= len cs <= 8 ->
  dec SNorm (92 :: 117 :: 123 :: cs ++ 125 :: rest) acc = dec SNorm rest (write_rune (rune32 0 ds) :: acc).
Proof.
  intros H Hl. cbn [dec]. cbn. apply dec_hex_run; try assumption; lia.
Qed.

Lemma rune32_small ds : forall r2, digits_ok 16 ds -> 0 <= r2 ->
  val_from 16 r2 ds < 2 ^ 31 -> rune32 r2 ds = val_from 16 r2 ds.
Proof.
  induction ds as [|d r IH]; intros r2 Hok Hr Hv; [reflexivity|].
  inversion Hok; subst. unfold rune32. cbn [fold_left]. rewrite val_from_cons in *.
  assert (Hmono : r2 * 16 + d <= val_from 16 (r2 * 16 + d) r).
  { rewrite val_from_lin. pose proof (val_bound 16 r ltac:(lia) H2).
    assert (0 < 16 ^ Z.of_nat (length r)) by (apply Z.pow_pos_nonneg; lia). nia. }
  rewrite wrap_s_id by (change (2 ^ (32 - 1)) with (2 ^ 31); lia).
  apply IH; try assumption; lia.
Qed.

(* the intended code point of \u{h...h} is val 16 ds: decoded correctly exactly for Unicode scalar values *)
Theorem unicode_escape_partial ds cs rest acc :
  hex_chars ds cs -> 1 <= len cs <= 8 -> digits_ok 16 ds ->
  valid_scalar (val 16 ds) = true ->
  dec SNorm (92 :: 117 :: 123 :: cs ++ 125 :: rest) acc = dec SNorm rest (val 16 ds :: acc).
Proof.
  intros H Hl Hok Hv. rewrite (unicode_escape ds cs) by assumption.
  assert (Hb : val 16 ds < 2 ^ 31).
  { unfold valid_scalar in Hv. apply andb_true_iff in Hv. destruct Hv as [Hv _].
    apply andb_true_iff in Hv. destruct Hv as [_ Hv]. apply Z.leb_le in Hv.
    assert (1114111 < 2 ^ 31) by reflexivity. lia. }
  rewrite rune32_small by (try assumption; try lia; exact Hb).
  fold (val 16 ds). unfold write_rune. rewrite Hv. reflexivity.
Qed.

(* REFUTED for the other code points: "\u{D800}" and "\u{110000}" decode to U+FFFD, "\u{}" to nothing *)
Theorem unicode_escape_defects :
  decode_string [92;117;123; 68;56;48;48; 125] = Some [65533] /\
  decode_string [92;117;123; 49;49;48;48;48;48; 125] = Some [65533] /\
  decode_string [92;117;123; 125] = Some [].
Proof. vm_compute. repeat split. Qed.

(* ast.QuoteString then the parser: the identity on strings of Unicode scalar values *)
Lemma dec_quote_rune r s acc : valid_scalar r = true ->
  dec SNorm (quote_rune r ++ s) acc = dec SNorm s (r :: acc).
Proof.
  intro Hv. unfold quote_rune.
  destruct (r =? 0) eqn:E0; [apply Z.eqb_eq in E0; subst; reflexivity|].
  destruct (r =? 10) eqn:E1; [apply Z.eqb_eq in E1; subst; reflexivity|].
  destruct (r =? 13) eqn:E2; [apply Z.eqb_eq in E2; subst; reflexivity|].
  destruct (r =? 9) eqn:E3; [apply Z.eqb_eq in E3; subst; reflexivity|].
  destruct (r =? 92) eqn:E4; [apply Z.eqb_eq in E4; subst; reflexivity|].
  destruct (r =? 34) eqn:E5; [apply Z.eqb_eq in E5; subst; reflexivity|].
  destruct ((32 <=? r) && (r <=? 126)) eqn:E6.
  { cbn [app]. apply plain_char. apply Z.eqb_neq. assumption. }
  apply Z.eqb_neq in E0.
  assert (Hr : 0 < r <= 1114111).
  { unfold valid_scalar in Hv. apply andb_true_iff in Hv. destruct Hv as [Hv _].
    apply andb_true_iff in Hv. destruct Hv as [A B]. apply Z.leb_le in A. apply Z.leb_le in B. lia. }
  replace (r >? 1114111) with false by (symmetry; rewrite Z.gtb_ltb; apply Z.ltb_ge; lia).
  set (ds := strip0 (fixed_digits 16 6 r)).
  assert (Hok : digits_ok 16 ds) by (apply strip0_ok, fixed_digits_ok; lia).
  assert (Hval : val 16 ds = r).
  { unfold ds. rewrite strip0_val. apply fixed_digits_val_small; [lia|].
    change (16 ^ Z.of_nat 6) with 16777216. lia. }
  assert (Hlen : 1 <= len ds <= 8).
  { unfold len. split.
    - destruct ds; [rewrite val_nil in Hval; lia|simpl length; lia].
    - pose proof (strip0_length (fixed_digits 16 6 r)). rewrite fixed_digits_length in H. unfold ds. lia. }
  assert (Hhc : hex_chars ds (map hex_digit ds)).
  { clear -Hok. induction Hok as [|d l Hd Hl IH]; [constructor|].
    constructor; [apply hex_val_digit; assumption|exact IH]. }
  rewrite <- app_assoc. cbn [app].
  rewrite <- app_assoc. cbn [app].
  rewrite (unicode_escape_partial ds (map hex_digit ds)); try assumption.
  - rewrite Hval. reflexivity.
  - unfold len in *. rewrite map_length. exact Hlen.
  - rewrite Hval. exact Hv.
Qed.

Theorem quote_roundtrip cps :
  Forall (fun r => valid_scalar r = true) cps -> decode_string (quote_string cps) = Some cps.
Proof.
  intro H. unfold decode_string.
  assert (G : forall acc, dec SNorm (quote_string cps) acc = Some (rev acc ++ cps)).
  { induction H as [|r l Hr Hl IH]; intro acc.
    - simpl. rewrite app_nil_r. reflexivity.
    - unfold quote_string in *. cbn [flat_map]. rewrite dec_quote_rune by assumption.
      rewrite IH. cbn [rev]. rewrite <- app_assoc. reflexivity. }
  apply (G []).
Qed.
