(* C19  Check functions for the per-run case files.
   Every string of a case travels as its list of code points (encoded here with the proved
   UTF-8 encoder [utf8_enc]); observed results of the implementation travel as raw bytes.
   The external oracles are finite tables built by the harness from x/text/unicode/norm,
   rivo/uniseg and strings.ToLower:
     (raw code points, NFC code points, byte offsets of the cluster boundaries of the NFC form) *)
From CV Require Export C19.Spec.

(* transport encoding of a list of small naturals as one number (fewer tokens to parse):
   digits of k bits, least significant first, each digit = element + 1 *)
Fixpoint unp_f (fuel : nat) (k z : Z) : list Z :=
  match fuel with
  | O => []
  | S f => if z =? 0 then [] else (Z.land z (Z.ones k) - 1) :: unp_f f k (Z.shiftr z k)
  end.
Definition unp (k z : Z) : list Z := unp_f (S (Z.to_nat (Z.log2 z))) k z.
Definition U := unp 21.    (* code points *)
Definition UB := unp 9.    (* bytes *)
Definition UN := unp 16.   (* byte offsets *)

Definition cps := list Z.
Definition ctab := list (cps * cps * list Z).
Definition ltab := list (cps * cps).

Definition tab := list (bytes * (bytes * list nat)).

Definition mk_tab (t : ctab) : tab :=
  map (fun e => let '(r, n, b) := e in (utf8_enc r, (utf8_enc n, map Z.to_nat b))) t.

(* norm.NFC.String: identity on strings that are not in the table *)
Fixpoint tab_nfc (t : tab) (raw : bytes) : bytes :=
  match t with
  | [] => raw
  | (k, (v, _)) :: r => if bytes_eqb k raw then v else tab_nfc r raw
  end.

(* cluster boundaries: [] (an invalid boundary list) for strings that are not in the table *)
Fixpoint tab_B (t : tab) (s : bytes) : list nat :=
  match t with
  | [] => []
  | (_, (v, b)) :: r => if bytes_eqb v s then b else tab_B r s
  end.

Fixpoint tab_lower (t : list (bytes * bytes)) (s : bytes) : bytes :=
  match t with
  | [] => map ascii_lower s
  | (k, v) :: r => if bytes_eqb k s then v else tab_lower r s
  end.

(* every table entry satisfies the hypothesis of the theorems: valid boundary list *)
Definition tab_ok (t : tab) : bool :=
  forallb (fun e => let '(_, (v, b)) := e in valid_bounds (length v) b) t.

Inductive cmpk := CEq | CNe | CLt | CLe | CGt | CGe.
Inductive sbk := KAppend | KAppendChar | KClear.

Inductive sop :=
| OpNew (raw : cps)
| OpLength (s : cps)
| OpGetKey (s : cps) (i : Z)
| OpSlice (s : cps) (from to : Z)
| OpChars (s : cps)
| OpConcat (a b : cps)
| OpIndexOf (s o : cps)
| OpContains (s o : cps)
| OpCount (s o : cps)
| OpSplit (s sep : cps)
| OpReplaceAll (s o r : cps)
| OpJoin (l : list cps) (sep : cps)
| OpToLower (s : cps)
| OpUtf8 (s : cps)
| OpDecodeHex (s : cps)
| OpEncodeHex (bs : bytes)
| OpFromUtf8 (bs : bytes)
| OpFromChars (l : list cps)
| OpCharNew (raw : cps)
| OpCharToString (c : cps)
| OpCharUtf8 (c : cps)
| OpCmp (k : cmpk) (a b : cps)
| OpCharCmp (k : cmpk) (a b : cps)
| OpSbToString (ops : list (sbk * cps))
| OpSbLength (ops : list (sbk * cps)).

Inductive obs :=
| ObInt (z : Z)
| ObBool (b : bool)
| ObStr (s : bytes)
| ObStrs (l : list bytes)
| ObNil
| ObErr (e : err)
| ObHexByte (b : Z)
| ObHexLen.

Fixpoint strs_eqb (a b : list bytes) : bool :=
  match a, b with
  | [], [] => true
  | x :: a', y :: b' => bytes_eqb x y && strs_eqb a' b'
  | _, _ => false
  end.

Definition obs_eqb (x y : obs) : bool :=
  match x, y with
  | ObInt a, ObInt b => a =? b
  | ObBool a, ObBool b => Bool.eqb a b
  | ObStr a, ObStr b => bytes_eqb a b
  | ObStrs a, ObStrs b => strs_eqb a b
  | ObNil, ObNil => true
  | ObErr a, ObErr b => err_eqb a b
  | ObHexByte a, ObHexByte b => a =? b
  | ObHexLen, ObHexLen => true
  | _, _ => false
  end.

Definition lift {A} (f : A -> obs) (r : res A) : obs :=
  match r with Ok a => f a | Err e => ObErr e end.

Definition cmp_model (k : cmpk) (a b : bytes) : bool :=
  match k with
  | CEq => s_equal a b
  | CNe => negb (s_equal a b)
  | CLt => s_less a b
  | CLe => s_less_equal a b
  | CGt => s_greater a b
  | CGe => s_greater_equal a b
  end.

Section Run.
  Variable t : tab.
  Variable lt : list (bytes * bytes).
  Let nfc := tab_nfc t.
  Let B := tab_B t.
  Let lower := tab_lower lt.

  (* a String / Character value made from source text *)
  Definition sv (raw : cps) : bytes := mk nfc (utf8_enc raw).

  Definition sb_ops (ops : list (sbk * cps)) : list sb_op :=
    map (fun o => match o with
                  | (KAppend, s) => SbAppend (sv s)
                  | (KAppendChar, c) => SbAppendChar (sv c)
                  | (KClear, _) => SbClear
                  end) ops.

  Definition run_op (o : sop) : obs :=
    match o with
    | OpNew raw => ObStr (sv raw)
    | OpLength s => lift (fun n => ObInt (Z.of_nat n)) (s_length B (sv s))
    | OpGetKey s i => lift ObStr (s_get_key nfc B (sv s) i)
    | OpSlice s f u => lift ObStr (s_Slice nfc B (sv s) f u)
    | OpChars s => lift ObStrs (s_chars nfc B (sv s))
    | OpConcat a b => ObStr (s_concat nfc (sv a) (sv b))
    | OpIndexOf s x => lift ObInt (s_index_of B (sv s) (sv x))
    | OpContains s x => lift ObBool (s_contains B (sv s) (sv x))
    | OpCount s x => lift (fun n => ObInt (Z.of_nat n)) (s_count nfc B (sv s) (sv x))
    | OpSplit s x => lift ObStrs (s_split nfc B (sv s) (sv x))
    | OpReplaceAll s x r => lift ObStr (s_replace_all nfc B (sv s) (sv x) (sv r))
    | OpJoin l sep => ObStr (s_join nfc (map sv l) (sv sep))
    | OpToLower s => ObStr (s_to_lower nfc lower (sv s))
    | OpUtf8 s => ObStr (s_utf8 (sv s))
    | OpDecodeHex s => match s_decode_hex (sv s) with
                       | HexOk bs => ObStr bs
                       | HexBadByte b => ObHexByte b
                       | HexBadLen => ObHexLen
                       end
    | OpEncodeHex bs => ObStr (s_encode_hex nfc bs)
    | OpFromUtf8 bs => match s_from_utf8 nfc bs with Some s => ObStr s | None => ObNil end
    | OpFromChars l => ObStr (s_from_characters nfc (map sv l))
    | OpCharNew raw => ObStr (c_mk nfc (utf8_enc raw))
    | OpCharToString c => ObStr (c_to_string nfc (sv c))
    | OpCharUtf8 c => ObStr (sv c)
    | OpCmp k a b => ObBool (cmp_model k (sv a) (sv b))
    | OpCharCmp k a b => ObBool (cmp_model k (sv a) (sv b))
    | OpSbToString ops => ObStr (sb_to_string nfc (sb_ops ops))
    | OpSbLength ops => ObInt (Z.of_nat (sb_length (sb_ops ops)))
    end.
End Run.

Definition case := (ctab * ltab * sop * obs)%type.

Definition check_str (c : case) : bool :=
  let '(ct, lt, o, ob) := c in
  let t := mk_tab ct in
  let l := map (fun e => (utf8_enc (fst e), utf8_enc (snd e))) lt in
  tab_ok t && obs_eqb (run_op t l o) ob.
