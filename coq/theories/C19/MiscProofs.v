(* C19  Hex encoding/decoding, toLower on ASCII, byte ordering, StringBuilder. *)
From CV Require Import C19.Spec C19.Proofs C19.Utf8Proofs.
From Coq Require Import Lia.

Local Open Scope Z_scope.

(* ---------- hex ---------- *)

Definition hex_ok (v : Z) : bool :=
  let a := from_hex_char (hex_digit (Z.shiftr v 4)) in
  let b := from_hex_char (hex_digit (Z.land v 15)) in
  negb (a >? 15) && negb (b >? 15) && (Z.lor (Z.shiftl a 4) b =? v)
  && is_ascii (hex_digit (Z.shiftr v 4)) && is_ascii (hex_digit (Z.land v 15)).

Lemma hex_ok_all : forallb hex_ok (map Z.of_nat (seq 0 256)) = true.
Proof. vm_compute. reflexivity. Qed.

Lemma hex_ok_byte v : byte v -> hex_ok v = true.
Proof.
  intros Hv. pose proof hex_ok_all as H. rewrite forallb_forall in H. apply H.
  replace v with (Z.of_nat (Z.to_nat v)) by (unfold byte in Hv; lia).
  apply in_map. apply in_seq. unfold byte in Hv. lia.
Qed.

Theorem hex_decode_encode bs : Forall byte bs -> hex_decode (hex_encode bs) = HexOk bs.
Proof.
  induction 1 as [|v r Hv Hr IH]. reflexivity.
  cbn [hex_encode hex_decode]. pose proof (hex_ok_byte v Hv) as Hk. unfold hex_ok in Hk.
  repeat (apply andb_true_iff in Hk; destruct Hk as [Hk ?]).
  destruct (from_hex_char (hex_digit (Z.shiftr v 4)) >? 15); [discriminate|].
  destruct (from_hex_char (hex_digit (Z.land v 15)) >? 15); [discriminate|].
  rewrite IH. f_equal. f_equal. apply Z.eqb_eq. assumption.
Qed.

Lemma hex_encode_ascii bs : Forall byte bs -> forallb is_ascii (hex_encode bs) = true.
Proof.
  induction 1 as [|v r Hv Hr IH]. reflexivity.
  cbn [hex_encode forallb]. pose proof (hex_ok_byte v Hv) as Hk. unfold hex_ok in Hk.
  repeat (apply andb_true_iff in Hk; destruct Hk as [Hk ?]).
  rewrite IH. repeat match goal with H : ?x = true |- context [?x] => rewrite H end. reflexivity.
Qed.

Lemma hex_encode_length bs : length (hex_encode bs) = (2 * length bs)%nat.
Proof. induction bs; simpl; lia. Qed.

(* String.encodeHex followed by decodeHex is the identity, for every oracle nfc that leaves
   ASCII strings unchanged *)
Theorem decode_hex_encode_hex (nfc : list Z -> list Z) bs :
  (forall s, forallb is_ascii s = true -> nfc s = s) ->
  Forall byte bs -> s_decode_hex (s_encode_hex nfc bs) = HexOk bs.
Proof.
  intros Hn Hb. unfold s_decode_hex, s_encode_hex, mk.
  rewrite Hn by (apply hex_encode_ascii; auto). apply hex_decode_encode; auto.
Qed.

(* decodeHex succeeds only on even-length strings of hex digits *)
Theorem hex_decode_ok_length : forall s bs, hex_decode s = HexOk bs -> length s = (2 * length bs)%nat.
Proof.
  intros s. remember (length s) as n eqn:En. revert s En.
  induction n as [n IH] using lt_wf_ind. intros s En bs H. subst n. destruct s as [|p [|q r]].
  - simpl in H. injection H as <-. reflexivity.
  - simpl in H. destruct (from_hex_char p >? 15); discriminate.
  - cbn [hex_decode] in H.
    destruct (from_hex_char p >? 15); [discriminate|].
    destruct (from_hex_char q >? 15); [discriminate|].
    destruct (hex_decode r) as [l| |] eqn:E; try discriminate.
    injection H as <-. apply (IH (length r)) in E; simpl in *; try lia; auto.
Qed.

(* ---------- toLower ---------- *)

Theorem to_lower_ascii (nfc lower : list Z -> list Z) s :
  (forall s, forallb is_ascii s = true -> nfc s = s) ->
  (forall s, forallb is_ascii s = true -> lower s = map ascii_lower s) ->
  forallb is_ascii s = true ->
  s_to_lower nfc lower s = map ascii_lower s.
Proof.
  intros Hn Hl Hs. unfold s_to_lower, mk. rewrite Hl by auto. apply Hn.
  clear -Hs. induction s as [|c r IH]; simpl in *. reflexivity.
  apply andb_true_iff in Hs as [Hc Hr]. rewrite IH by auto. rewrite andb_true_r.
  unfold is_ascii, ascii_lower in *.
  apply andb_true_iff in Hc as [H1 H2]. apply Z.leb_le in H1. apply Z.ltb_lt in H2.
  destruct ((65 <=? c) && (c <=? 90)) eqn:E.
  - apply andb_true_iff in E as [E1 E2]. apply Z.leb_le in E1, E2.
    apply andb_true_iff. split; [apply Z.leb_le|apply Z.ltb_lt]; lia.
  - apply andb_true_iff. split; [apply Z.leb_le|apply Z.ltb_lt]; lia.
Qed.

(* ---------- ordering: Go's bytewise string comparison is a strict total order ---------- *)

Lemma bytes_ltb_irrefl a : bytes_ltb a a = false.
Proof. induction a as [|x a IH]; simpl. reflexivity. rewrite Z.ltb_irrefl. exact IH. Qed.

Lemma bytes_ltb_trans : forall a b c, bytes_ltb a b = true -> bytes_ltb b c = true -> bytes_ltb a c = true.
Proof.
  induction a as [|x a IH]; intros [|y b] [|z c] H1 H2; simpl in *; try discriminate; auto.
  destruct (Z.ltb_spec x y), (Z.ltb_spec y x), (Z.ltb_spec y z), (Z.ltb_spec z y),
           (Z.ltb_spec x z), (Z.ltb_spec z x); try lia; try discriminate; auto.
  eapply IH; eauto.
Qed.

Lemma bytes_ltb_total : forall a b, bytes_ltb a b = false -> bytes_ltb b a = false -> a = b.
Proof.
  induction a as [|x a IH]; intros [|y b] H1 H2; simpl in *; try discriminate; auto.
  destruct (Z.ltb_spec x y), (Z.ltb_spec y x); try lia; try discriminate.
  assert (x = y) by lia. subst. f_equal. apply IH; auto.
Qed.

Lemma bytes_ltb_asym a b : bytes_ltb a b = true -> bytes_ltb b a = false.
Proof.
  intros H. destruct (bytes_ltb b a) eqn:E; auto.
  pose proof (bytes_ltb_trans _ _ _ H E) as F. rewrite bytes_ltb_irrefl in F. discriminate.
Qed.

(* < <= > >= of String/Character: exactly one of  a<b, a==b, a>b ; and <=, >= are the negations *)
Theorem string_order_total a b :
  (s_less a b = true /\ s_equal a b = false /\ s_greater a b = false) \/
  (s_less a b = false /\ s_equal a b = true /\ s_greater a b = false) \/
  (s_less a b = false /\ s_equal a b = false /\ s_greater a b = true).
Proof.
  unfold s_less, s_greater, s_equal.
  destruct (bytes_ltb a b) eqn:E1; destruct (bytes_ltb b a) eqn:E2.
  - rewrite (bytes_ltb_asym _ _ E1) in E2. discriminate.
  - left. repeat split. destruct (bytes_eqb a b) eqn:E; auto.
    apply bytes_eqb_eq in E. subst. rewrite bytes_ltb_irrefl in E1. discriminate.
  - right. right. repeat split. destruct (bytes_eqb a b) eqn:E; auto.
    apply bytes_eqb_eq in E. subst. rewrite bytes_ltb_irrefl in E2. discriminate.
  - right. left. repeat split. apply bytes_eqb_eq. apply bytes_ltb_total; auto.
Qed.

Theorem string_order_le_ge a b :
  s_less_equal a b = (s_less a b || s_equal a b) /\ s_greater_equal a b = (s_greater a b || s_equal a b).
Proof.
  unfold s_less_equal, s_greater_equal.
  destruct (string_order_total a b) as [[H1 [H2 H3]]|[[H1 [H2 H3]]|[H1 [H2 H3]]]];
    unfold s_less, s_greater in *; rewrite H1, H2, H3; auto.
Qed.

Theorem string_less_trans a b c : s_less a b = true -> s_less b c = true -> s_less a c = true.
Proof. apply bytes_ltb_trans. Qed.

(* ---------- StringBuilder ---------- *)

Lemma sb_run_appends l : forall b, sb_run (map SbAppend l) b = b ++ concat l.
Proof.
  induction l as [|x r IH]; intros b; simpl. rewrite app_nil_r. reflexivity.
  rewrite IH, app_assoc. reflexivity.
Qed.

Lemma sb_clear_forgets_gen ops1 ops2 : forall b, sb_run (ops1 ++ SbClear :: ops2) b = sb_run ops2 [].
Proof.
  induction ops1 as [|o r IH]; intros b; simpl. reflexivity.
  destruct o; apply IH.
Qed.

Theorem sb_clear_forgets ops1 ops2 : sb_run (ops1 ++ SbClear :: ops2) [] = sb_run ops2 [].
Proof. apply sb_clear_forgets_gen. Qed.

Theorem sb_to_string_appends (nfc : list Z -> list Z) l :
  sb_to_string nfc (map SbAppend l) = nfc (concat l)
  /\ sb_length (map SbAppend l) = length (concat l).
Proof. unfold sb_to_string, sb_length, mk. rewrite sb_run_appends. auto. Qed.

(* ---------- indexing and slicing fail exactly for out-of-range or reversed bounds ---------- *)

Theorem slice_ok_iff cl from to : - 2 ^ 63 <= from < 2 ^ 63 -> - 2 ^ 63 <= to < 2 ^ 63 ->
  ((exists r, Slice_spec cl from to = Ok r) <-> 0 <= from <= to /\ to <= Z.of_nat (length cl)).
Proof.
  intros Hf Ht. unfold Slice_spec, slice_spec.
  destruct (Z.ltb_spec from (- 2 ^ 63)); [lia|]. destruct (Z.leb_spec (2 ^ 63) from); [lia|].
  destruct (Z.ltb_spec to (- 2 ^ 63)); [lia|]. destruct (Z.leb_spec (2 ^ 63) to); [lia|]. cbn [orb].
  destruct (Z.ltb_spec from 0); cbn [orb]. { split; [intros [? ?]; discriminate|lia]. }
  destruct (Z.ltb_spec (Z.of_nat (length cl)) from); cbn [orb]. { split; [intros [? ?]; discriminate|lia]. }
  destruct (Z.ltb_spec to 0); cbn [orb]. { split; [intros [? ?]; discriminate|lia]. }
  destruct (Z.ltb_spec (Z.of_nat (length cl)) to); cbn [orb]. { split; [intros [? ?]; discriminate|lia]. }
  destruct (Z.ltb_spec to from). { split; [intros [? ?]; discriminate|lia]. }
  split; [lia|eauto].
Qed.

Theorem get_ok_iff cl i : - 2 ^ 63 <= i < 2 ^ 63 ->
  ((exists c, get_spec cl i = Ok c) <-> 0 <= i < Z.of_nat (length cl)).
Proof.
  intros Hi. unfold get_spec.
  destruct (Z.ltb_spec i (- 2 ^ 63)); [lia|]. destruct (Z.leb_spec (2 ^ 63) i); [lia|]. cbn [orb].
  destruct (Z.ltb_spec i 0); cbn [orb]. { split; [intros [? ?]; discriminate|lia]. }
  destruct (Z.leb_spec (Z.of_nat (length cl)) i). { split; [intros [? ?]; discriminate|lia]. }
  split; [lia|eauto].
Qed.

Theorem concat_is_nfc (nfc : list Z -> list Z) a b : s_concat nfc a b = nfc (a ++ b).
Proof. reflexivity. Qed.

Theorem from_characters_is_nfc (nfc : list Z -> list Z) cs : s_from_characters nfc cs = nfc (concat cs).
Proof. reflexivity. Qed.

Theorem from_utf8_correct (nfc : list Z -> list Z) buf : Forall byte buf ->
  (forall cps, Forall scalar cps -> utf8_enc cps = buf -> s_from_utf8 nfc buf = Some (nfc buf)) /\
  ((forall cps, Forall scalar cps -> utf8_enc cps <> buf) -> s_from_utf8 nfc buf = None).
Proof.
  intros Hb. unfold s_from_utf8, mk. pose proof (valid_iff_encoding buf Hb) as H. split.
  - intros cps Hs He. replace (utf8_valid buf) with true. reflexivity.
    symmetry. apply H. eauto.
  - intros Hn. destruct (utf8_valid buf) eqn:E; auto.
    destruct (proj1 H eq_refl) as [cps [Hs He]]. exfalso. eapply Hn; eauto.
Qed.
