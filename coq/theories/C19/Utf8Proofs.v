(* C19  UTF-8: the encoder of RFC 3629 (Spec.utf8_enc) and the decoder / validity check shaped
   like Go's unicode/utf8 tables (Model.utf8_valid, Spec.utf8_dec) are inverse to each other. *)
From CV Require Import C19.Spec.
From Coq Require Import Lia.

Local Open Scope Z_scope.
Ltac Zify.zify_post_hook ::= Z.div_mod_to_equations.

Ltac bsolve :=
  repeat match goal with
  | |- context [?a <? ?b] => destruct (Z.ltb_spec a b); try lia
  | |- context [?a <=? ?b] => destruct (Z.leb_spec a b); try lia
  | |- context [?a =? ?b] => destruct (Z.eqb_spec a b); try lia
  end.

Definition scalar (c : Z) : Prop := (0 <= c < 55296) \/ (57344 <= c <= 1114111).

Lemma is_scalar_iff c : is_scalar c = true <-> scalar c.
Proof. unfold is_scalar, scalar. split; intro H; revert H; bsolve; simpl; intros; try lia; try discriminate; auto. Qed.

Lemma dec_enc1 c rest : scalar c ->
  utf8_dec (enc1 c ++ rest) = option_map (cons c) (utf8_dec rest).
Proof.
  intros Hs. unfold enc1.
  destruct (Z.ltb_spec c 128).
  { simpl. destruct (Z.ltb_spec c 128); [reflexivity|lia]. }
  destruct (Z.ltb_spec c 2048).
  { assert (E : exists q r, c = 64 * q + r /\ 0 <= r < 64 /\ 2 <= q < 32 /\ c / 64 = q /\ c mod 64 = r).
    { exists (c / 64), (c mod 64). lia. }
    destruct E as [q [r [E [Hr [Hq [E1 E2]]]]]]. rewrite E1, E2. clear E1 E2.
    cbn [app utf8_dec]. unfold first_info, in_rng.
    bsolve. cbn [andb]. do 2 f_equal. lia. }
  destruct (Z.ltb_spec c 65536).
  { assert (E : exists q1 q2 r, c = 4096 * q1 + 64 * q2 + r /\ 0 <= r < 64 /\ 0 <= q2 < 64 /\ 0 <= q1 < 16 /\
                  c / 4096 = q1 /\ (c / 64) mod 64 = q2 /\ c mod 64 = r).
    { exists (c / 4096), ((c / 64) mod 64), (c mod 64). lia. }
    destruct E as [q1 [q2 [r [E [Hr [Hq2 [Hq1 [E1 [E2 E3]]]]]]]]]. rewrite E1, E2, E3. clear E1 E2 E3.
    cbn [app utf8_dec]. unfold first_info, is_cont, in_rng. unfold scalar in Hs.
    bsolve; cbn [andb]; do 2 f_equal; lia. }
  { assert (E : exists q0 q1 q2 r, c = 262144 * q0 + 4096 * q1 + 64 * q2 + r /\ 0 <= r < 64 /\ 0 <= q2 < 64 /\
                  0 <= q1 < 64 /\ 0 <= q0 < 5 /\
                  c / 262144 = q0 /\ (c / 4096) mod 64 = q1 /\ (c / 64) mod 64 = q2 /\ c mod 64 = r).
    { unfold scalar in Hs. exists (c / 262144), ((c / 4096) mod 64), ((c / 64) mod 64), (c mod 64). lia. }
    destruct E as [q0 [q1 [q2 [r [E [Hr [Hq2 [Hq1 [Hq0 [E0 [E1 [E2 E3]]]]]]]]]]]].
    rewrite E0, E1, E2, E3. clear E0 E1 E2 E3.
    cbn [app utf8_dec]. unfold first_info, is_cont, in_rng. unfold scalar in Hs.
    bsolve; cbn [andb]; do 2 f_equal; lia. }
Qed.

Theorem dec_enc cps : Forall scalar cps -> utf8_dec (utf8_enc cps) = Some cps.
Proof.
  induction 1 as [|c r Hc Hr IH]; simpl. reflexivity.
  rewrite dec_enc1 by auto. fold (utf8_enc r). rewrite IH. reflexivity.
Qed.

Definition byte (b : Z) : Prop := 0 <= b < 256.

Lemma in_rng_iff lo hi c : in_rng lo hi c = true <-> lo <= c <= hi.
Proof. unfold in_rng. rewrite andb_true_iff, Z.leb_le, Z.leb_le. tauto. Qed.

Ltac split_ands :=
  repeat match goal with
  | H : _ && _ = true |- _ => apply andb_true_iff in H; destruct H
  | H : in_rng _ _ _ = true |- _ => apply in_rng_iff in H
  | H : is_cont _ = true |- _ => unfold is_cont in H; apply in_rng_iff in H
  end.

(* one decoding step, read backwards: the bytes consumed are the encoding of the code point produced *)
Lemma dec_step p cps : utf8_dec p = Some cps -> Forall byte p -> p <> [] ->
  exists c rest cps', cps = c :: cps' /\ p = enc1 c ++ rest /\ scalar c /\
                      utf8_dec rest = Some cps' /\ (length rest < length p)%nat /\ Forall byte rest.
Proof.
  intros H Hb Hne. destruct p as [|b0 r]; [congruence|]. clear Hne.
  pose proof (Forall_inv Hb) as Hb0. pose proof (Forall_inv_tail Hb) as Hr. cbn [utf8_dec] in H.
  destruct (Z.ltb_spec b0 128).
  { destruct (utf8_dec r) as [l|] eqn:E; [|discriminate]. injection H as <-.
    exists b0, r, l. repeat split; auto.
    - unfold enc1. destruct (Z.ltb_spec b0 128); [reflexivity|lia].
    - unfold scalar, byte in *. lia. }
  unfold first_info in H. revert H.
  bsolve; intros Hd; try discriminate;
  (* size 2 *)
  try (destruct r as [|c1 r']; [discriminate|];
       destruct (in_rng _ _ c1) eqn:E1; [|discriminate];
       destruct (utf8_dec r') as [l|] eqn:E; [|discriminate]; injection Hd as <-;
       split_ands; pose proof (Forall_inv Hr) as Hc1; pose proof (Forall_inv_tail Hr) as Hr1;
       exists ((b0 - 192) * 64 + (c1 - 128)), r', l;
       repeat split; auto; [unfold enc1; bsolve; cbn [app]; repeat f_equal; lia | unfold scalar; lia | simpl; lia]);
  (* size 3 *)
  try (destruct r as [|c1 [|c2 r']]; try discriminate;
       destruct (in_rng _ _ c1 && is_cont c2) eqn:E1; [|discriminate];
       destruct (utf8_dec r') as [l|] eqn:E; [|discriminate]; injection Hd as <-;
       split_ands;
       pose proof (Forall_inv Hr) as Hc1; pose proof (Forall_inv_tail Hr) as Hr1;
       pose proof (Forall_inv Hr1) as Hc2; pose proof (Forall_inv_tail Hr1) as Hr2;
       exists ((b0 - 224) * 4096 + (c1 - 128) * 64 + (c2 - 128)), r', l;
       repeat split; auto; [unfold enc1; bsolve; cbn [app]; repeat f_equal; lia | unfold scalar; lia | simpl; lia]);
  (* size 4 *)
  try (destruct r as [|c1 [|c2 [|c3 r']]]; try discriminate;
       destruct (in_rng _ _ c1 && is_cont c2 && is_cont c3) eqn:E1; [|discriminate];
       destruct (utf8_dec r') as [l|] eqn:E; [|discriminate]; injection Hd as <-;
       split_ands;
       pose proof (Forall_inv Hr) as Hc1; pose proof (Forall_inv_tail Hr) as Hr1;
       pose proof (Forall_inv Hr1) as Hc2; pose proof (Forall_inv_tail Hr1) as Hr2;
       pose proof (Forall_inv Hr2) as Hc3; pose proof (Forall_inv_tail Hr2) as Hr3;
       exists ((b0 - 240) * 262144 + (c1 - 128) * 4096 + (c2 - 128) * 64 + (c3 - 128)), r', l;
       repeat split; auto; [unfold enc1; bsolve; cbn [app]; repeat f_equal; lia | unfold scalar; lia | simpl; lia]).
Qed.

Theorem enc_dec : forall p cps, Forall byte p -> utf8_dec p = Some cps ->
  utf8_enc cps = p /\ Forall scalar cps.
Proof.
  intros p. remember (length p) as n eqn:En. revert p En.
  induction n as [n IH] using lt_wf_ind. intros p En cps Hb H.
  destruct p as [|b0 r] eqn:Ep.
  - simpl in H. injection H as <-. split; [reflexivity|constructor].
  - rewrite <- Ep in *. assert (Hne : p <> []) by (rewrite Ep; discriminate).
    destruct (dec_step p cps H Hb Hne) as [c [rest [cps' [-> [Hp [Hsc [Hd [Hl Hbr]]]]]]]].
    destruct (IH (length rest) ltac:(lia) rest eq_refl cps' Hbr Hd) as [He Hs].
    split. simpl. fold (utf8_enc cps'). rewrite He. symmetry. exact Hp. constructor; auto.
Qed.

(* utf8.Valid accepts exactly what the decoder decodes *)
Lemma valid_iff_dec : forall p, utf8_valid p = true <-> exists cps, utf8_dec p = Some cps.
Proof.
  intros p. remember (length p) as n eqn:En. revert p En.
  induction n as [n IH] using lt_wf_ind. intros p En.
  destruct p as [|b0 r]. simpl. split; eauto.
  cbn [utf8_valid utf8_dec].
  assert (Hopt : forall (c : Z) q, (exists cps, option_map (cons c) (utf8_dec q) = Some cps) <-> (exists cps, utf8_dec q = Some cps)).
  { intros c q. destruct (utf8_dec q); simpl; split; intros [x Hx]; try discriminate; eauto. }
  destruct (Z.ltb_spec b0 128).
  { rewrite Hopt. apply (IH (length r)); simpl in *; lia. }
  destruct (first_info b0) as [[[size lo] hi]|]; [|split; [discriminate|intros [? ?]; discriminate]].
  destruct size as [|[|[|[|[|?]]]]]; try (split; [discriminate|intros [? ?]; discriminate]).
  - destruct r as [|c1 r']; [split; [discriminate|intros [? ?]; discriminate]|].
    destruct (in_rng lo hi c1); cbn [andb]; [|split; [discriminate|intros [? ?]; discriminate]].
    rewrite Hopt. apply (IH (length r')); simpl in *; lia.
  - destruct r as [|c1 [|c2 r']]; try (split; [discriminate|intros [? ?]; discriminate]).
    destruct (in_rng lo hi c1 && is_cont c2); cbn [andb]; [|split; [discriminate|intros [? ?]; discriminate]].
    rewrite Hopt. apply (IH (length r')); simpl in *; lia.
  - destruct r as [|c1 [|c2 [|c3 r']]]; try (split; [discriminate|intros [? ?]; discriminate]).
    destruct (in_rng lo hi c1 && is_cont c2 && is_cont c3); cbn [andb]; [|split; [discriminate|intros [? ?]; discriminate]].
    rewrite Hopt. apply (IH (length r')); simpl in *; lia.
Qed.

Lemma enc1_bytes c : scalar c -> Forall byte (enc1 c).
Proof.
  intros Hs. unfold enc1, scalar, byte in *.
  bsolve; repeat constructor; lia.
Qed.

Lemma enc_bytes cps : Forall scalar cps -> Forall byte (utf8_enc cps).
Proof.
  induction 1; simpl. constructor. apply Forall_app. split; auto. apply enc1_bytes; auto.
Qed.

(* String.fromUTF8 accepts exactly the UTF-8 encodings of sequences of Unicode scalar values *)
Theorem valid_iff_encoding p : Forall byte p ->
  (utf8_valid p = true <-> exists cps, Forall scalar cps /\ utf8_enc cps = p).
Proof.
  intros Hb. rewrite valid_iff_dec. split.
  - intros [cps H]. exists cps. destruct (enc_dec p cps Hb H). auto.
  - intros [cps [Hs <-]]. exists cps. apply dec_enc; auto.
Qed.

(* the encoding is injective *)
Theorem enc_inj a b : Forall scalar a -> Forall scalar b -> utf8_enc a = utf8_enc b -> a = b.
Proof.
  intros Ha Hb E. pose proof (dec_enc a Ha) as H1. rewrite E, (dec_enc b Hb) in H1. congruence.
Qed.
