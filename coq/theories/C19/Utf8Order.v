(* C19  UTF-8 preserves order: Go's bytewise string comparison of two valid UTF-8 strings is the
   lexicographic comparison of their code point sequences. *)
From CV Require Import C19.Spec C19.Proofs C19.Utf8Proofs C19.MiscProofs.
From Coq Require Import Lia.

Local Open Scope Z_scope.
Ltac Zify.zify_post_hook ::= Z.div_mod_to_equations.

Lemma bytes_ltb_app_same p a b : bytes_ltb (p ++ a) (p ++ b) = bytes_ltb a b.
Proof. induction p; simpl; auto. rewrite Z.ltb_irrefl. exact IHp. Qed.

Lemma enc1_nonempty c : enc1 c <> [].
Proof. unfold enc1. repeat match goal with |- context [?a <? ?b] => destruct (a <? b) end; discriminate. Qed.

(* digits of a scalar value *)
Lemma enc1_lt x y r1 r2 : scalar x -> scalar y -> x < y ->
  bytes_ltb (enc1 x ++ r1) (enc1 y ++ r2) = true.
Proof.
  intros Hx Hy Hlt. unfold scalar in *. unfold enc1.
  destruct (Z.ltb_spec x 128); destruct (Z.ltb_spec y 128); try lia.
  { cbn [app bytes_ltb]. destruct (Z.ltb_spec x y); [reflexivity|lia]. }
  { destruct (Z.ltb_spec y 2048); [|destruct (Z.ltb_spec y 65536)]; cbn [app bytes_ltb];
      match goal with |- context [?a <? ?b] => destruct (Z.ltb_spec a b); [reflexivity|lia] end. }
  destruct (Z.ltb_spec x 2048); destruct (Z.ltb_spec y 2048); try lia.
  { cbn [app bytes_ltb].
    destruct (Z.ltb_spec (192 + x / 64) (192 + y / 64)); [reflexivity|].
    destruct (Z.ltb_spec (192 + y / 64) (192 + x / 64)); [lia|].
    destruct (Z.ltb_spec (128 + x mod 64) (128 + y mod 64)); [reflexivity|lia]. }
  { destruct (Z.ltb_spec y 65536); cbn [app bytes_ltb];
      match goal with |- context [?a <? ?b] => destruct (Z.ltb_spec a b); [reflexivity|lia] end. }
  destruct (Z.ltb_spec x 65536); destruct (Z.ltb_spec y 65536); try lia.
  { cbn [app bytes_ltb].
    destruct (Z.ltb_spec (224 + x / 4096) (224 + y / 4096)); [reflexivity|].
    destruct (Z.ltb_spec (224 + y / 4096) (224 + x / 4096)); [lia|].
    destruct (Z.ltb_spec (128 + (x / 64) mod 64) (128 + (y / 64) mod 64)); [reflexivity|].
    destruct (Z.ltb_spec (128 + (y / 64) mod 64) (128 + (x / 64) mod 64)); [lia|].
    destruct (Z.ltb_spec (128 + x mod 64) (128 + y mod 64)); [reflexivity|lia]. }
  { cbn [app bytes_ltb].
    match goal with |- context [?a <? ?b] => destruct (Z.ltb_spec a b); [reflexivity|lia] end. }
  { cbn [app bytes_ltb].
    destruct (Z.ltb_spec (240 + x / 262144) (240 + y / 262144)); [reflexivity|].
    destruct (Z.ltb_spec (240 + y / 262144) (240 + x / 262144)); [lia|].
    destruct (Z.ltb_spec (128 + (x / 4096) mod 64) (128 + (y / 4096) mod 64)); [reflexivity|].
    destruct (Z.ltb_spec (128 + (y / 4096) mod 64) (128 + (x / 4096) mod 64)); [lia|].
    destruct (Z.ltb_spec (128 + (x / 64) mod 64) (128 + (y / 64) mod 64)); [reflexivity|].
    destruct (Z.ltb_spec (128 + (y / 64) mod 64) (128 + (x / 64) mod 64)); [lia|].
    destruct (Z.ltb_spec (128 + x mod 64) (128 + y mod 64)); [reflexivity|lia]. }
Qed.

Theorem utf8_order : forall a b, Forall scalar a -> Forall scalar b ->
  bytes_ltb (utf8_enc a) (utf8_enc b) = cps_ltb a b.
Proof.
  induction a as [|x a IH]; intros b Ha Hb.
  - destruct b as [|y b]; simpl. reflexivity.
    destruct (enc1 y) eqn:E. exfalso. apply (enc1_nonempty y E). reflexivity.
  - destruct b as [|y b].
    + simpl. destruct (enc1 x) eqn:E. exfalso. apply (enc1_nonempty x E). reflexivity.
    + inversion Ha; subst. inversion Hb; subst. cbn [utf8_enc flat_map cps_ltb].
      fold (utf8_enc a). fold (utf8_enc b).
      destruct (Z.ltb_spec x y).
      * apply enc1_lt; auto.
      * destruct (Z.ltb_spec y x).
        -- apply bytes_ltb_asym. apply enc1_lt; auto.
        -- assert (x = y) by lia. subst. rewrite bytes_ltb_app_same. apply IH; auto.
Qed.
