(* C19  Proofs: every operation of the code-shaped model (Model.v) equals its
   cluster-sequence specification (Spec.v), for all strings and all oracles
   satisfying the stated hypotheses. *)
From CV Require Import C19.Spec.
From Coq Require Import Lia.

Local Open Scope nat_scope.

(* ---------- generic list facts ---------- *)

Lemma is_prefix_app p r : is_prefix p (p ++ r) = true.
Proof. induction p; simpl; auto. rewrite Z.eqb_refl. simpl. auto. Qed.

Lemma is_prefix_spec p s : is_prefix p s = true <-> exists r, s = p ++ r.
Proof.
  revert s. induction p as [|x p IH]; intros s; simpl.
  - split; eauto.
  - destruct s as [|y s].
    + split; [discriminate|]. intros [r H]. discriminate.
    + rewrite andb_true_iff, Z.eqb_eq, IH. split.
      * intros [-> [r ->]]. eauto.
      * intros [r H]. injection H as -> ->. eauto.
Qed.

Lemma is_prefix_length p s : is_prefix p s = true -> length p <= length s.
Proof. rewrite is_prefix_spec. intros [r ->]. rewrite app_length. lia. Qed.

Lemma is_prefix_nil s : is_prefix [] s = true.
Proof. reflexivity. Qed.

Lemma bytes_eqb_eq a b : bytes_eqb a b = true <-> a = b.
Proof.
  revert b. induction a as [|x a IH]; destruct b as [|y b]; simpl; split; try congruence; try discriminate.
  - rewrite andb_true_iff, Z.eqb_eq, IH. intros [-> ->]. reflexivity.
  - intros H. injection H as -> ->. rewrite Z.eqb_refl. simpl. apply IH. reflexivity.
Qed.

Lemma bytes_eqb_refl a : bytes_eqb a a = true.
Proof. apply bytes_eqb_eq. reflexivity. Qed.

Lemma skipn_skipn {A} (a b : nat) (l : list A) : skipn a (skipn b l) = skipn (b + a) l.
Proof.
  revert l. induction b; intros l; simpl. reflexivity.
  destruct l. now rewrite skipn_nil. apply IHb.
Qed.

Lemma sub_0_all (s : bytes) : sub s 0 (length s) = s.
Proof. unfold sub. simpl. rewrite Nat.sub_0_r. apply firstn_all. Qed.

Lemma sub_app_mid (p x q : bytes) : sub (p ++ x ++ q) (length p) (length p + length x) = x.
Proof.
  unfold sub. rewrite skipn_app, skipn_all, Nat.sub_diag. simpl.
  replace (length p + length x - length p) with (length x) by lia.
  rewrite firstn_app, firstn_all, Nat.sub_diag. simpl. apply app_nil_r.
Qed.

(* ---------- boundary lists and cluster lists ---------- *)

Fixpoint bounds_of (a : nat) (cl : list bytes) : list nat :=
  match cl with
  | [] => [a]
  | c :: r => a :: bounds_of (a + length c) r
  end.

Definition nonempty (c : bytes) : Prop := c <> [].

Lemma bounds_of_length a cl : length (bounds_of a cl) = S (length cl).
Proof. revert a. induction cl; simpl; intros; auto. Qed.

Lemma nth_bounds_of a cl k d : k <= length cl ->
  nth k (bounds_of a cl) d = a + length (concat (firstn k cl)).
Proof.
  revert a k. induction cl as [|c r IH]; intros a k Hk; simpl in *.
  - assert (k = 0) by lia. subst. simpl. lia.
  - destruct k; simpl. lia. rewrite IH by lia. rewrite app_length. lia.
Qed.

Lemma clusters_cons s a e r :
  clusters s (a :: bounds_of e r) = sub s a e :: clusters s (bounds_of e r).
Proof. destruct r; reflexivity. Qed.

Lemma clusters_bounds_of (pre : bytes) (cl : list bytes) (q : bytes) :
  clusters (pre ++ concat cl ++ q) (bounds_of (length pre) cl) = cl.
Proof.
  revert pre. induction cl as [|c r IH]; intros pre. reflexivity.
  change (bounds_of (length pre) (c :: r)) with (length pre :: bounds_of (length pre + length c) r).
  rewrite clusters_cons. f_equal.
  - simpl. rewrite <- app_assoc. apply sub_app_mid.
  - specialize (IH (pre ++ c)). rewrite app_length in IH.
    simpl. rewrite <- app_assoc in IH. rewrite <- app_assoc. exact IH.
Qed.

Lemma clusters_bounds_of0 cl : clusters (concat cl) (bounds_of 0 cl) = cl.
Proof.
  pose proof (clusters_bounds_of [] cl []) as H. simpl in H. rewrite app_nil_r in H. exact H.
Qed.

(* a valid boundary list is the boundary list of its clusters *)
Lemma increasing_decomp : forall (l : list nat) (a : nat) (s : bytes),
  increasing_from a l = true -> last (a :: l) 0 = length s -> a <= length s ->
  exists cl, Forall nonempty cl /\ a :: l = bounds_of a cl /\ skipn a s = concat cl.
Proof.
  induction l as [|e r IH]; intros a s Hinc Hlast Ha.
  - exists []. simpl in *. repeat split; auto. subst. apply skipn_all.
  - simpl in Hinc. apply andb_true_iff in Hinc as [Hae Hinc]. apply Nat.ltb_lt in Hae.
    assert (Hlast' : last (e :: r) 0 = length s) by exact Hlast.
    assert (He : e <= length s).
    { clear IH Hlast. revert e Hinc Hlast' Hae. induction r as [|e' r' IHr]; intros e Hinc Hl Hae; simpl in *.
      - lia.
      - apply andb_true_iff in Hinc as [H1 H2]. apply Nat.ltb_lt in H1.
        specialize (IHr e' H2 Hl). lia. }
    destruct (IH e s Hinc Hlast' He) as [cl [Hne [Hb Hs]]].
    exists (sub s a e :: cl). repeat split.
    + constructor; auto. unfold nonempty, sub. intro H.
      apply (f_equal (@length Z)) in H. rewrite firstn_length, skipn_length in H. simpl in H. lia.
    + simpl. f_equal.
      assert (length (sub s a e) = e - a).
      { unfold sub. rewrite firstn_length, skipn_length. lia. }
      rewrite H. replace (a + (e - a)) with e by lia. exact Hb.
    + simpl. rewrite <- Hs. unfold sub.
      rewrite <- (firstn_skipn (e - a) (skipn a s)) at 1. f_equal.
      rewrite skipn_skipn. f_equal. lia.
Qed.

Lemma valid_bounds_decomp (s : bytes) (b : list nat) :
  valid_bounds (length s) b = true ->
  exists cl, Forall nonempty cl /\ b = bounds_of 0 cl /\ s = concat cl.
Proof.
  unfold valid_bounds. destruct b as [|[|a] r]; try discriminate.
  rewrite andb_true_iff, Nat.eqb_eq. intros [Hinc Hlast].
  destruct (increasing_decomp r 0 s Hinc Hlast) as [cl H]. lia.
  exists cl. simpl in H. exact H.
Qed.

Lemma valid_bounds_clusters (s : bytes) (b : list nat) :
  valid_bounds (length s) b = true ->
  Forall nonempty (clusters s b) /\ b = bounds_of 0 (clusters s b) /\ s = concat (clusters s b).
Proof.
  intros H. destruct (valid_bounds_decomp s b H) as [cl [Hne [-> ->]]].
  rewrite clusters_bounds_of0. auto.
Qed.

Lemma concat_firstn_skipn (cl : list bytes) k : concat cl = concat (firstn k cl) ++ concat (skipn k cl).
Proof. rewrite <- concat_app, firstn_skipn. reflexivity. Qed.

Lemma nonempty_concat_pos (cl : list bytes) : Forall nonempty cl -> cl <> [] -> 0 < length (concat cl).
Proof.
  intros H Hne. destruct cl as [|c r]; [congruence|]. inversion H; subst.
  simpl. rewrite app_length. destruct c; [unfold nonempty in *; congruence|]. simpl. lia.
Qed.

Lemma Forall_skipn {A} (P : A -> Prop) l k : Forall P l -> Forall P (skipn k l).
Proof. revert l. induction k; intros l H; simpl; auto. destruct l; auto. inversion H; auto. Qed.

Lemma Forall_firstn {A} (P : A -> Prop) l k : Forall P l -> Forall P (firstn k l).
Proof. revert l. induction k; intros l H; simpl; auto. destruct l; auto. inversion H; auto. Qed.

Lemma concat_firstn_lt (cl : list bytes) k : Forall nonempty cl -> k < length cl ->
  length (concat (firstn k cl)) < length (concat cl).
Proof.
  intros H Hk. rewrite (concat_firstn_skipn cl k). rewrite app_length.
  assert (0 < length (concat (skipn k cl))).
  { apply nonempty_concat_pos. apply Forall_skipn; auto.
    intro E. apply (f_equal (@length bytes)) in E. rewrite skipn_length in E. simpl in E. lia. }
  lia.
Qed.

Lemma concat_firstn_le (cl : list bytes) k : length (concat (firstn k cl)) <= length (concat cl).
Proof. rewrite (concat_firstn_skipn cl k). rewrite app_length. lia. Qed.

Lemma concat_firstn_mono (cl : list bytes) i j : i <= j ->
  length (concat (firstn i cl)) <= length (concat (firstn j cl)).
Proof.
  intros H. replace i with (Nat.min i j) by lia. rewrite <- firstn_firstn. apply concat_firstn_le.
Qed.

Lemma concat_firstn_strict (cl : list bytes) i j : Forall nonempty cl -> i < j -> j <= length cl ->
  length (concat (firstn i cl)) < length (concat (firstn j cl)).
Proof.
  intros H Hij Hj. replace i with (Nat.min i j) by lia. rewrite <- firstn_firstn.
  apply concat_firstn_lt. apply Forall_firstn; auto. rewrite firstn_length. lia.
Qed.

Lemma sub_concat (cl : list bytes) i j : i <= j ->
  sub (concat cl) (length (concat (firstn i cl))) (length (concat (firstn j cl)))
  = concat (firstn (j - i) (skipn i cl)).
Proof.
  intros Hij. unfold sub.
  rewrite (concat_firstn_skipn cl i) at 1. rewrite skipn_app, skipn_all, Nat.sub_diag. simpl.
  assert (E : concat (firstn j cl) = concat (firstn i cl) ++ concat (firstn (j - i) (skipn i cl))).
  { rewrite <- concat_app. f_equal.
    rewrite <- (firstn_skipn i (firstn j cl)). f_equal.
    - rewrite firstn_firstn. f_equal. lia.
    - rewrite skipn_firstn_comm. reflexivity. }
  rewrite E, app_length.
  replace (length (concat (firstn i cl)) + length (concat (firstn (j - i) (skipn i cl))) - length (concat (firstn i cl)))
    with (length (concat (firstn (j - i) (skipn i cl)))) by lia.
  rewrite (concat_firstn_skipn (skipn i cl) (j - i)) at 1.
  rewrite firstn_app, firstn_all, Nat.sub_diag. simpl. apply app_nil_r.
Qed.

Lemma nonempty_concat_nil (cl : list bytes) : Forall nonempty cl -> concat cl = [] -> cl = [].
Proof.
  intros H E. destruct cl as [|c r]; auto. inversion H; subst. simpl in E.
  apply app_eq_nil in E as [E _]. unfold nonempty in *. congruence.
Qed.

(* ---------- the iterator over a cluster list ---------- *)

Definition it_at (cl : list bytes) (k : nat) (st : gst) : giter :=
  GI (concat cl) (bounds_of 0 cl) k st.

Lemma g_next_lt cl k st : Forall nonempty cl -> k < length cl ->
  g_next (it_at cl k st) = (it_at cl (S k) GRun, true).
Proof.
  intros H Hk. unfold g_next, g_end, it_at. simpl.
  rewrite nth_bounds_of by lia. simpl.
  pose proof (concat_firstn_lt cl k H Hk).
  destruct (Nat.leb_spec (length (concat cl)) (length (concat (firstn k cl)))); [lia|reflexivity].
Qed.

Lemma g_next_end cl st :
  g_next (it_at cl (length cl) st) = (it_at cl (length cl) GDone, false).
Proof.
  unfold g_next, g_end, it_at. simpl. rewrite nth_bounds_of by lia. simpl.
  rewrite firstn_all. rewrite Nat.leb_refl. reflexivity.
Qed.

Lemma g_nexts_run cl : Forall nonempty cl -> forall j k st, 1 <= j -> k + j <= length cl ->
  g_nexts j (it_at cl k st) = it_at cl (k + j) GRun.
Proof.
  intros H. induction j as [|j IH]; intros k st Hj Hk. lia.
  simpl. rewrite g_next_lt by (auto; lia). simpl.
  destruct j.
  - simpl. f_equal. lia.
  - rewrite IH by lia. f_equal. lia.
Qed.

Lemma positions_run cl k : 1 <= k -> k <= length cl ->
  g_positions (it_at cl k GRun)
  = (length (concat (firstn (k - 1) cl)), length (concat (firstn k cl))).
Proof.
  intros H1 H2. unfold g_positions, it_at. simpl.
  rewrite !nth_bounds_of by lia. reflexivity.
Qed.

Lemma g_str_run cl k : 1 <= k -> k <= length cl ->
  g_str (it_at cl k GRun) = concat (firstn 1 (skipn (k - 1) cl)).
Proof.
  intros H1 H2. unfold g_str. change (g_st (it_at cl k GRun)) with GRun. cbv iota.
  rewrite positions_run by auto. simpl fst. simpl snd. change (g_s (it_at cl k GRun)) with (concat cl).
  rewrite sub_concat by lia. f_equal. f_equal. lia.
Qed.

Lemma len_loop_spec cl : Forall nonempty cl -> forall fuel k st n,
  k <= length cl -> length cl - k < fuel ->
  len_loop fuel (it_at cl k st) n = Ok (n + (length cl - k)).
Proof.
  intros H. induction fuel as [|f IH]; intros k st n Hk Hf. lia.
  simpl. destruct (Nat.eq_dec k (length cl)) as [->|Hne].
  - rewrite g_next_end. f_equal. lia.
  - rewrite g_next_lt by (auto; lia). rewrite IH by lia. f_equal. lia.
Qed.

Section P.
  Variable nfc : bytes -> bytes.
  Variable B : bytes -> list nat.

  (* the oracle answers for the string made of the clusters cl:
     it segments into exactly these clusters and is in NFC *)
  Definition seg_ok (cl : list bytes) : Prop :=
    B (concat cl) = bounds_of 0 cl /\ nfc (concat cl) = concat cl.

  (* ... and so does every run of consecutive clusters *)
  Definition good (cl : list bytes) : Prop :=
    Forall nonempty cl /\ forall i m, seg_ok (firstn m (skipn i cl)).

  Lemma good_self cl : good cl -> seg_ok cl.
  Proof. intros [_ H]. specialize (H 0 (length cl)). simpl in H. rewrite firstn_all in H. exact H. Qed.

  Lemma good_skipn cl k : good cl -> good (skipn k cl).
  Proof.
    intros [H1 H2]. split. apply Forall_skipn; auto.
    intros i m. rewrite skipn_skipn. apply H2.
  Qed.

  Lemma good_firstn cl k : good cl -> good (firstn k cl).
  Proof.
    intros [H1 H2]. split. apply Forall_firstn; auto.
    intros i m. rewrite skipn_firstn_comm, firstn_firstn. apply H2.
  Qed.

  Lemma g_new_good cl : seg_ok cl -> g_new B (concat cl) = it_at cl 0 GStart.
  Proof. intros [H _]. unfold g_new, it_at. rewrite H. reflexivity. Qed.

  Lemma prepare_good cl : seg_ok cl -> cl <> [] -> Forall nonempty cl ->
    prepare B (concat cl) = Ok (it_at cl 0 GStart).
  Proof.
    intros H Hne Hall. unfold prepare.
    pose proof (nonempty_concat_pos cl Hall Hne).
    destruct (Nat.eqb_spec (length (concat cl)) 0); [lia|]. rewrite g_new_good; auto.
  Qed.

  Theorem s_length_spec cl : Forall nonempty cl -> seg_ok cl ->
    s_length B (concat cl) = Ok (length cl).
  Proof.
    intros Hall Hok. unfold s_length.
    destruct (Nat.eqb_spec (length (concat cl)) 0) as [E|E].
    - apply length_zero_iff_nil in E. apply nonempty_concat_nil in E; auto. subst. reflexivity.
    - assert (cl <> []) by (intro; subst; simpl in E; lia).
      rewrite prepare_good by auto. unfold bind.
      rewrite len_loop_spec; auto; try lia. f_equal; lia.
      assert (length cl <= length (concat cl)).
      { clear -Hall. induction Hall; simpl. lia. rewrite app_length.
        destruct x; [unfold nonempty in *; congruence|]. simpl. lia. }
      lia.
  Qed.


  Lemma good_nfc_nil cl : good cl -> nfc [] = [].
  Proof. intros [_ H]. destruct (H 0 0) as [_ E]. exact E. Qed.

  Lemma good_nfc_run cl i m : good cl -> nfc (concat (firstn m (skipn i cl))) = concat (firstn m (skipn i cl)).
  Proof. intros [_ H]. apply H. Qed.

  Lemma firstn1_skipn (cl : list bytes) i : i < length cl ->
    concat (firstn 1 (skipn i cl)) = nth i cl [].
  Proof.
    revert i. induction cl as [|c r IH]; intros i Hi; simpl in Hi. lia.
    destruct i; simpl. apply app_nil_r. apply IH. lia.
  Qed.

  Lemma to_int_ok z : (- 2 ^ 63 <= z < 2 ^ 63)%Z -> to_int z = Ok z.
  Proof.
    intros H. unfold to_int.
    destruct (Z.leb_spec (- 2 ^ 63) z); destruct (Z.ltb_spec z (2 ^ 63)); simpl; auto; lia.
  Qed.

  Lemma to_int_err z : ~ (- 2 ^ 63 <= z < 2 ^ 63)%Z -> to_int z = Err Overflow.
  Proof.
    intros H. unfold to_int.
    destruct (Z.leb_spec (- 2 ^ 63) z); destruct (Z.ltb_spec z (2 ^ 63)); simpl; auto; lia.
  Qed.

  Theorem s_get_key_spec cl key : good cl ->
    s_get_key nfc B (concat cl) key = get_spec cl key.
  Proof.
    intros Hg. pose proof (good_self _ Hg) as Hok. destruct Hg as [Hall Hrun].
    unfold s_get_key, get_spec.
    destruct (Z.ltb_spec key (- 2 ^ 63)); [rewrite to_int_err by lia; reflexivity|].
    destruct (Z.leb_spec (2 ^ 63) key); [rewrite to_int_err by lia; reflexivity|].
    rewrite to_int_ok by lia. simpl orb. unfold bind at 1.
    rewrite s_length_spec by auto. unfold bind at 1.
    destruct (Z.ltb_spec key 0); simpl orb; [reflexivity|].
    destruct (Z.geb_spec key (Z.of_nat (length cl))); destruct (Z.leb_spec (Z.of_nat (length cl)) key); try lia; [reflexivity|].
    assert (Hne : cl <> []) by (intro; subst; simpl in *; lia).
    rewrite prepare_good by auto. unfold bind.
    replace (Z.to_nat (key + 1)) with (S (Z.to_nat key)) by lia.
    rewrite (g_nexts_run cl Hall (S (Z.to_nat key)) 0 GStart) by lia.
    simpl plus. rewrite g_str_run by lia.
    unfold mk. replace (S (Z.to_nat key) - 1) with (Z.to_nat key) by lia.
    destruct (Hrun (Z.to_nat key) 1) as [_ E]. rewrite E.
    rewrite firstn1_skipn by lia. reflexivity.
  Qed.


  Lemma go_sub_concat cl i j : i <= j -> j <= length cl ->
    go_sub (concat cl) (length (concat (firstn i cl))) (length (concat (firstn j cl)))
    = Ok (concat (firstn (j - i) (skipn i cl))).
  Proof.
    intros Hij Hj. unfold go_sub.
    pose proof (concat_firstn_mono cl i j Hij). pose proof (concat_firstn_le cl j).
    destruct (Nat.leb_spec (length (concat (firstn i cl))) (length (concat (firstn j cl)))); [|lia].
    destruct (Nat.leb_spec (length (concat (firstn j cl))) (length (concat cl))); [|lia].
    simpl. rewrite sub_concat by lia. reflexivity.
  Qed.

  Theorem s_slice_spec cl from to : good cl ->
    s_slice nfc B (concat cl) from to = slice_spec cl from to.
  Proof.
    intros Hg. pose proof (good_self _ Hg) as Hok. pose proof (good_nfc_nil _ Hg) as Hnil.
    destruct Hg as [Hall Hrun].
    unfold s_slice, slice_spec.
    rewrite s_length_spec by auto. unfold bind at 1.
    rewrite !Z.gtb_ltb.
    set (n := Z.of_nat (length cl)).
    destruct (Z.ltb_spec from 0); simpl orb; [reflexivity|].
    destruct (Z.ltb_spec n from); simpl orb; [reflexivity|].
    destruct (Z.ltb_spec to 0); simpl orb; [reflexivity|].
    destruct (Z.ltb_spec n to); simpl orb; [reflexivity|].
    destruct (Z.ltb_spec to from); [reflexivity|].
    destruct (Nat.eqb_spec (length (concat cl)) 0) as [E|E]; simpl orb.
    { apply length_zero_iff_nil in E. apply nonempty_concat_nil in E; auto. subst cl.
      unfold mk. rewrite Hnil. rewrite skipn_nil, firstn_nil. reflexivity. }
    destruct (Z.eqb_spec from to) as [E2|E2].
    { unfold mk. rewrite Hnil. subst. rewrite Z.sub_diag. reflexivity. }
    assert (Hne : cl <> []) by (intro; subst; simpl in *; lia).
    rewrite prepare_good by auto. unfold bind at 1.
    replace (Z.to_nat (from + 1)) with (S (Z.to_nat from)) by lia.
    rewrite (g_nexts_run cl Hall (S (Z.to_nat from)) 0 GStart) by lia. simpl plus.
    rewrite positions_run by lia. simpl fst.
    assert (Hit2 : g_nexts (Z.to_nat (to - from - 1)) (it_at cl (S (Z.to_nat from)) GRun) = it_at cl (Z.to_nat to) GRun).
    { destruct (Z.to_nat (to - from - 1)) eqn:Ek.
      - simpl. f_equal. lia.
      - rewrite g_nexts_run by (auto; lia). f_equal. lia. }
    rewrite Hit2. rewrite positions_run by lia. simpl snd.
    replace (S (Z.to_nat from) - 1) with (Z.to_nat from) by lia.
    rewrite go_sub_concat by lia. unfold bind. unfold mk. rewrite !Nat.sub_0_r.
    destruct (Hrun (Z.to_nat from) (Z.to_nat to - Z.to_nat from)) as [_ E3]. rewrite E3.
    do 3 f_equal. lia.
  Qed.

  Theorem s_Slice_spec cl from to : good cl ->
    s_Slice nfc B (concat cl) from to = Slice_spec cl from to.
  Proof.
    intros Hg. unfold s_Slice, Slice_spec.
    destruct (Z.ltb_spec from (- 2 ^ 63)); rewrite ?orb_true_l, ?orb_false_l;
      [rewrite to_int_err by lia; reflexivity|].
    destruct (Z.leb_spec (2 ^ 63) from); rewrite ?orb_true_l, ?orb_false_l;
      [rewrite to_int_err by lia; reflexivity|].
    rewrite (to_int_ok from) by lia. unfold bind at 1.
    destruct (Z.ltb_spec to (- 2 ^ 63)); rewrite ?orb_true_l, ?orb_false_l;
      [rewrite to_int_err by lia; reflexivity|].
    destruct (Z.leb_spec (2 ^ 63) to); rewrite ?orb_true_l, ?orb_false_l;
      [rewrite to_int_err by lia; reflexivity|].
    rewrite (to_int_ok to) by lia. unfold bind at 1.
    apply s_slice_spec; auto.
  Qed.

  (* iteration yields the clusters in order *)
  Lemma iter_loop_spec cl : good cl -> forall fuel k st,
    k <= length cl -> length cl - k < fuel ->
    iter_loop nfc fuel (it_at cl k st) = Ok (skipn k cl).
  Proof.
    intros [Hall Hrun]. induction fuel as [|f IH]; intros k st Hk Hf. lia.
    simpl. destruct (Nat.eq_dec k (length cl)) as [->|Hne].
    - rewrite g_next_end. rewrite skipn_all. reflexivity.
    - rewrite g_next_lt by (auto; lia). rewrite IH by lia. unfold bind.
      rewrite g_str_run by lia. replace (S k - 1) with k by lia.
      unfold mk. destruct (Hrun k 1) as [_ E]. rewrite E. rewrite firstn1_skipn by lia.
      f_equal. clear -Hne Hk. revert k Hne Hk. induction cl as [|c r IHc]; intros k Hne Hk; simpl in *. lia.
      destruct k; simpl. reflexivity. apply IHc; lia.
  Qed.

  Lemma length_le_concat (cl : list bytes) : Forall nonempty cl -> length cl <= length (concat cl).
  Proof.
    intros Hall. induction Hall; simpl. lia. rewrite app_length.
    destruct x; [unfold nonempty in *; congruence|]. simpl. lia.
  Qed.

  Theorem s_chars_spec cl : good cl -> s_chars nfc B (concat cl) = Ok cl.
  Proof.
    intros Hg. unfold s_chars. rewrite g_new_good by (apply good_self; auto).
    rewrite iter_loop_spec; auto; try lia.
    pose proof (length_le_concat cl (proj1 Hg)). lia.
  Qed.

  Theorem s_explode_spec cl : good cl -> s_explode nfc B (concat cl) = Ok cl.
  Proof.
    intros Hg. unfold s_explode. rewrite s_chars_spec by auto. unfold bind. f_equal.
    destruct Hg as [Hall Hrun].
    assert (H : forall i, i < length cl -> mk nfc (nth i cl []) = nth i cl []).
    { intros i Hi. unfold mk. destruct (Hrun i 1) as [_ E]. rewrite firstn1_skipn in E by lia. exact E. }
    clear Hrun Hall. induction cl as [|c r IH]; simpl. reflexivity.
    f_equal. apply (H 0). simpl. lia. apply IH. intros i Hi. apply (H (S i)). simpl. lia.
  Qed.


  (* ---------- aligned search ---------- *)

  Definition P (cl : list bytes) (j : nat) : nat := length (concat (firstn j cl)).

  Lemma P_S cl j : j < length cl -> P cl (S j) = P cl j + length (nth j cl []).
  Proof.
    unfold P. revert j. induction cl as [|c r IH]; intros j Hj; simpl in Hj. lia.
    destruct j; simpl. rewrite app_nil_r. lia.
    rewrite !app_length. specialize (IH j). simpl in IH. rewrite IH by lia. lia.
  Qed.

  Lemma skipn_cons_nth (cl : list bytes) k : k < length cl -> skipn k cl = nth k cl [] :: skipn (S k) cl.
  Proof.
    revert k. induction cl as [|c r IH]; intros k Hk; simpl in Hk. lia.
    destruct k. reflexivity. simpl. apply IH. lia.
  Qed.

  Lemma skipn_P cl j : skipn (P cl j) (concat cl) = concat (skipn j cl).
  Proof.
    unfold P. rewrite (concat_firstn_skipn cl j) at 1.
    rewrite skipn_app, skipn_all, Nat.sub_diag. reflexivity.
  Qed.

  Lemma P_lt cl i j : Forall nonempty cl -> i < j -> j <= length cl -> P cl i < P cl j.
  Proof. intros. apply concat_firstn_strict; auto. Qed.

  Lemma P_inj cl i j : Forall nonempty cl -> i <= length cl -> j <= length cl -> P cl i = P cl j -> i = j.
  Proof.
    intros H Hi Hj E. destruct (Nat.lt_trichotomy i j) as [L|[L|L]]; auto.
    - pose proof (P_lt cl i j H L Hj). lia.
    - pose proof (P_lt cl j i H L Hi). lia.
  Qed.

  Lemma P_last_lt cl j : Forall nonempty cl -> j < length cl -> P cl j < length (concat cl).
  Proof. intros. apply concat_firstn_lt; auto. Qed.

  (* what the loop of seekGraphemeBoundaryStartPrepared computes, cluster by cluster *)
  Fixpoint find_start (rest : list bytes) (p off : nat) : option nat :=
    match rest with
    | [] => None
    | c :: r => if off =? p then Some 0
                else if off <? p then None
                else option_map S (find_start r (p + length c) off)
    end.

  Fixpoint find_end (rest : list bytes) (p e : nat) : bool :=
    match rest with
    | [] => false
    | c :: r => if e =? p + length c then true
                else if e <? p + length c then false
                else find_end r (p + length c) e
    end.

  Lemma seek_spec cl : Forall nonempty cl -> forall fuel k st off ci,
    k <= length cl -> length cl - k < fuel ->
    match find_start (skipn k cl) (P cl k) off with
    | Some j => seek fuel (it_at cl k st) off ci = Ok (it_at cl (k + j + 1) GRun, ci + j, true)
    | None => exists it' ci', seek fuel (it_at cl k st) off ci = Ok (it', ci', false)
    end.
  Proof.
    intros Hall. induction fuel as [|f IH]; intros k st off ci Hk Hf. lia.
    destruct (Nat.eq_dec k (length cl)) as [->|Hne].
    - rewrite skipn_all. simpl. rewrite g_next_end. simpl. eauto.
    - assert (Hk' : k < length cl) by lia.
      rewrite (skipn_cons_nth cl k Hk'). cbn [find_start seek].
      rewrite g_next_lt by auto. cbn [negb].
      rewrite positions_run by lia. replace (S k - 1) with k by lia.
      fold (P cl k). fold (P cl (S k)).
      pose proof (P_lt cl k (S k) Hall (Nat.lt_succ_diag_r k) Hk') as Hlt.
      destruct (Nat.eqb_spec (P cl k) (P cl (S k))); [lia|].
      destruct (Nat.eqb_spec off (P cl k)).
      + replace (k + 0 + 1) with (S k) by lia. replace (ci + 0) with ci by lia. reflexivity.
      + destruct (Nat.ltb_spec off (P cl k)).
        * eauto.
        * specialize (IH (S k) GRun off (S ci)). rewrite <- (P_S cl k Hk').
          destruct (find_start (skipn (S k) cl) (P cl (S k)) off) as [j|]; cbn [option_map].
          -- rewrite IH by lia. replace (S k + j + 1) with (k + S j + 1) by lia.
             replace (S ci + j) with (ci + S j) by lia. reflexivity.
          -- apply IH; lia.
  Qed.

  Lemma is_end_spec cl : Forall nonempty cl -> forall fuel k e,
    1 <= k -> k <= length cl -> length cl - k < fuel ->
    is_end fuel (it_at cl k GRun) e = Ok (find_end (skipn (k - 1) cl) (P cl (k - 1)) e).
  Proof.
    intros Hall. induction fuel as [|f IH]; intros k e H1 Hk Hf. lia.
    cbn [is_end]. rewrite positions_run by lia.
    fold (P cl (k - 1)). fold (P cl k).
    assert (Hk' : k - 1 < length cl) by lia.
    rewrite (skipn_cons_nth cl (k - 1) Hk'). cbn [find_end].
    rewrite <- (P_S cl (k - 1) Hk'). replace (S (k - 1)) with k by lia.
    pose proof (P_lt cl (k - 1) k Hall) as Hlt.
    destruct (Nat.eqb_spec (P cl (k - 1)) (P cl k)); [lia|].
    destruct (Nat.eqb_spec e (P cl k)); [reflexivity|].
    destruct (Nat.ltb_spec e (P cl k)); [reflexivity|].
    destruct (Nat.eq_dec k (length cl)) as [->|Hne].
    - rewrite g_next_end. rewrite skipn_all. reflexivity.
    - rewrite g_next_lt by (auto; lia). rewrite IH by lia. do 3 f_equal; lia.
  Qed.

  Lemma find_start_some rest : forall p off j,
    find_start rest p off = Some j -> j < length rest /\ off = p + length (concat (firstn j rest)).
  Proof.
    induction rest as [|c r IH]; intros p off j H; simpl in H. discriminate.
    destruct (Nat.eqb_spec off p).
    - injection H as <-. simpl. lia.
    - destruct (Nat.ltb_spec off p). discriminate.
      destruct (find_start r (p + length c) off) as [j'|] eqn:E; [|discriminate].
      injection H as <-. apply IH in E as [E1 E2]. simpl. rewrite app_length. lia.
  Qed.

  Lemma find_start_none rest : Forall nonempty rest -> forall p off,
    find_start rest p off = None -> forall j, j < length rest -> off <> p + length (concat (firstn j rest)).
  Proof.
    intros Hall. induction Hall as [|c r Hc Hr IH]; intros p off H j Hj; simpl in *. lia.
    destruct (Nat.eqb_spec off p). discriminate.
    destruct (Nat.ltb_spec off p).
    - lia.
    - destruct (find_start r (p + length c) off) eqn:E; [discriminate|].
      destruct j; simpl. lia. rewrite app_length.
      specialize (IH (p + length c) off E j). lia.
  Qed.

  (* str_index: first occurrence *)
  Lemma str_index_some hay needle : forall r, str_index hay needle = Some r ->
    is_prefix needle (skipn r hay) = true /\ forall q, q < r -> is_prefix needle (skipn q hay) = false.
  Proof.
    induction hay as [|x hay IH]; intros r H; simpl in H.
    - destruct (is_prefix needle []) eqn:E; [|discriminate]. injection H as <-. split; auto. intros; lia.
    - destruct (is_prefix needle (x :: hay)) eqn:E.
      + injection H as <-. split; auto. intros; lia.
      + destruct (str_index hay needle) as [r'|] eqn:E2; [|discriminate]. injection H as <-.
        destruct (IH r' eq_refl) as [H1 H2]. split; auto.
        intros q Hq. destruct q; auto. simpl. apply H2. lia.
  Qed.

  Lemma str_index_none hay needle : str_index hay needle = None ->
    forall q, is_prefix needle (skipn q hay) = false.
  Proof.
    induction hay as [|x hay IH]; intros H q; simpl in H.
    - destruct (is_prefix needle []) eqn:E; [discriminate|]. rewrite skipn_nil. auto.
    - destruct (is_prefix needle (x :: hay)) eqn:E; [discriminate|].
      destruct (str_index hay needle) eqn:E2; [discriminate|].
      destruct q; auto. simpl. apply IH. reflexivity.
  Qed.

  (* is_prefix over an append *)
  Lemma is_prefix_skip (c needle s : bytes) : length c <= length needle ->
    is_prefix needle (c ++ s) = is_prefix c needle && is_prefix (skipn (length c) needle) s.
  Proof.
    revert needle. induction c as [|x c IH]; intros needle H; simpl in *. reflexivity.
    destruct needle as [|y needle]; simpl in *. lia.
    rewrite IH by lia. rewrite (Z.eqb_sym y x). apply andb_assoc.
  Qed.

  Lemma is_prefix_long (c needle : bytes) : length needle < length c -> is_prefix c needle = false.
  Proof.
    intros H. destruct (is_prefix c needle) eqn:E; auto. apply is_prefix_length in E. lia.
  Qed.

  Lemma aligned_span_cons c r needle : needle <> [] ->
    aligned_span (c :: r) needle =
    if is_prefix c needle then option_map S (aligned_span r (skipn (length c) needle)) else None.
  Proof. destruct needle; [congruence|reflexivity]. Qed.

  Lemma aligned_span_nil r : aligned_span r [] = Some 0.
  Proof. destruct r; reflexivity. Qed.

  Definition aligned_here (rest : list bytes) (needle : bytes) : bool :=
    match aligned_span rest needle with Some _ => true | None => false end.

  (* an aligned occurrence = a byte occurrence whose end is a cluster end *)
  Lemma aligned_here_iff rest : Forall nonempty rest -> forall needle p, needle <> [] ->
    aligned_here rest needle = is_prefix needle (concat rest) && find_end rest p (p + length needle).
  Proof.
    intros Hall. induction Hall as [|c r Hc Hr IH]; intros needle p Hn.
    - unfold aligned_here. destruct needle; [congruence|]. simpl. reflexivity.
    - unfold aligned_here in *. rewrite aligned_span_cons by auto.
      cbn [find_end concat].
      destruct (Nat.lt_trichotomy (length needle) (length c)) as [L|[L|L]].
      + rewrite is_prefix_long by lia.
        destruct (Nat.eqb_spec (p + length needle) (p + length c)); [lia|].
        destruct (Nat.ltb_spec (p + length needle) (p + length c)); [|lia].
        rewrite andb_false_r. reflexivity.
      + destruct (Nat.eqb_spec (p + length needle) (p + length c)); [|lia].
        rewrite andb_true_r. rewrite is_prefix_skip by lia.
        replace (skipn (length c) needle) with (@nil Z).
        2:{ symmetry. rewrite <- L. apply skipn_all. }
        rewrite aligned_span_nil. simpl. rewrite andb_true_r.
        destruct (is_prefix c needle); reflexivity.
      + destruct (Nat.eqb_spec (p + length needle) (p + length c)); [lia|].
        destruct (Nat.ltb_spec (p + length needle) (p + length c)); [lia|].
        rewrite is_prefix_skip by lia.
        assert (Hn' : skipn (length c) needle <> []).
        { intro E. apply (f_equal (@length Z)) in E. rewrite skipn_length in E. simpl in E. lia. }
        specialize (IH (skipn (length c) needle) (p + length c) Hn').
        rewrite skipn_length in IH.
        replace (p + length c + (length needle - length c)) with (p + length needle) in IH by lia.
        destruct (is_prefix c needle); simpl; [|reflexivity].
        rewrite <- IH.
        destruct (aligned_span r (skipn (length c) needle)); reflexivity.
  Qed.

  Lemma first_aligned_some cl needle : forall i, first_aligned cl needle = Some i ->
    i < length cl /\ aligned_here (skipn i cl) needle = true /\
    forall j, j < i -> aligned_here (skipn j cl) needle = false.
  Proof.
    induction cl as [|c r IH]; intros i H; cbn [first_aligned] in H. discriminate.
    destruct (aligned_span (c :: r) needle) eqn:E.
    - injection H as <-. simpl. unfold aligned_here. rewrite E. repeat split; auto. lia. intros; lia.
    - destruct (first_aligned r needle) as [i'|] eqn:E2; [|discriminate]. injection H as <-.
      destruct (IH i' eq_refl) as [H1 [H2 H3]]. simpl. repeat split; auto. lia.
      intros j Hj. destruct j. simpl. unfold aligned_here. rewrite E. reflexivity.
      simpl. apply H3. lia.
  Qed.

  Lemma first_aligned_none cl needle : first_aligned cl needle = None ->
    forall j, j < length cl -> aligned_here (skipn j cl) needle = false.
  Proof.
    induction cl as [|c r IH]; intros H j Hj; cbn [first_aligned length] in *. lia.
    destruct (aligned_span (c :: r) needle) eqn:E; [discriminate|].
    destruct (first_aligned r needle) eqn:E2; [discriminate|].
    destruct j; simpl. unfold aligned_here. rewrite E. reflexivity. apply IH; auto. lia.
  Qed.

  Lemma first_aligned_intro cl needle i : i < length cl ->
    aligned_here (skipn i cl) needle = true ->
    (forall j, j < i -> aligned_here (skipn j cl) needle = false) ->
    first_aligned cl needle = Some i.
  Proof.
    intros Hi H1 H2. destruct (first_aligned cl needle) as [i'|] eqn:E.
    - destruct (first_aligned_some _ _ _ E) as [A [B1 C]].
      destruct (Nat.lt_trichotomy i i') as [L|[L|L]]; subst; auto.
      + rewrite C in H1 by auto. discriminate.
      + rewrite H2 in B1 by auto. discriminate.
    - rewrite (first_aligned_none _ _ E i Hi) in H1. discriminate.
  Qed.

  Lemma first_aligned_intro_none cl needle :
    (forall j, j < length cl -> aligned_here (skipn j cl) needle = false) ->
    first_aligned cl needle = None.
  Proof.
    intros H. destruct (first_aligned cl needle) as [i|] eqn:E; auto.
    destruct (first_aligned_some _ _ _ E) as [A [B1 C]]. rewrite H in B1 by auto. discriminate.
  Qed.

  Definition index_res (cl : list bytes) (needle : bytes) : Z * Z :=
    match first_aligned cl needle with
    | Some i => (Z.of_nat i, Z.of_nat (P cl i))
    | None => (-1, -1)%Z
    end.

  Lemma no_occ_not_aligned cl needle j : Forall nonempty cl -> needle <> [] ->
    is_prefix needle (skipn (P cl j) (concat cl)) = false ->
    aligned_here (skipn j cl) needle = false.
  Proof.
    intros Hall Hn H. rewrite (aligned_here_iff (skipn j cl) (Forall_skipn _ _ _ Hall) needle 0 Hn).
    rewrite <- skipn_P, H. reflexivity.
  Qed.

  Lemma index_loop_spec cl needle : Forall nonempty cl -> needle <> [] ->
    forall fuel ss, length (concat cl) - ss < fuel ->
    (forall j, j < length cl -> P cl j < ss -> aligned_here (skipn j cl) needle = false) ->
    index_loop fuel (concat cl) needle (it_at cl 0 GStart) 0 ss = Ok (index_res cl needle).
  Proof.
    intros Hall Hn. pose proof (length_le_concat cl Hall) as Hlen.
    induction fuel as [|f IH]; intros ss Hf Inv. lia.
    cbn [index_loop].
    destruct (Nat.leb_spec (length (concat cl)) ss) as [Hge|Hlt].
    { unfold index_res. rewrite first_aligned_intro_none; auto.
      intros j Hj. apply Inv; auto. pose proof (P_last_lt cl j Hall Hj). lia. }
    destruct (str_index (skipn ss (concat cl)) needle) as [rel|] eqn:E.
    2:{ unfold index_res. rewrite first_aligned_intro_none; auto.
        intros j Hj. destruct (Nat.lt_ge_cases (P cl j) ss) as [L|L]. apply Inv; auto.
        apply no_occ_not_aligned; auto.
        pose proof (str_index_none _ _ E (P cl j - ss)) as H. rewrite skipn_skipn in H.
        replace (ss + (P cl j - ss)) with (P cl j) in H by lia. exact H. }
    destruct (str_index_some _ _ _ E) as [Hocc Hmin]. rewrite skipn_skipn in Hocc.
    assert (Hbefore : forall j, j < length cl -> P cl j < ss + rel -> aligned_here (skipn j cl) needle = false).
    { intros j Hj Hp. destruct (Nat.lt_ge_cases (P cl j) ss) as [L|L]. apply Inv; auto.
      apply no_occ_not_aligned; auto.
      specialize (Hmin (P cl j - ss)). rewrite skipn_skipn in Hmin.
      replace (ss + (P cl j - ss)) with (P cl j) in Hmin by lia. apply Hmin. lia. }
    pose proof (seek_spec cl Hall (S (S (length (concat cl)))) 0 GStart (ss + rel) 0) as Hseek.
    simpl skipn in Hseek. change (P cl 0) with 0 in Hseek.
    destruct (find_start cl 0 (ss + rel)) as [i|] eqn:Ef.
    - rewrite Hseek by lia. cbn [bind]. simpl plus.
      destruct (find_start_some _ _ _ _ Ef) as [Hi Habs]. simpl in Habs. fold (P cl i) in Habs.
      rewrite is_end_spec by (auto; lia). replace (i + 1 - 1) with i by lia. cbn [bind].
      pose proof Habs as Habs'. rewrite Habs in Hocc, Hbefore |- *.
      destruct (find_end (skipn i cl) (P cl i) (P cl i + length needle)) eqn:Ee; cbn [andb].
      + unfold index_res. rewrite (first_aligned_intro cl needle i); auto.
        * rewrite (aligned_here_iff (skipn i cl) (Forall_skipn _ _ _ Hall) needle (P cl i) Hn).
          rewrite <- skipn_P, Hocc, Ee. reflexivity.
        * intros j Hj. apply Hbefore. lia. apply P_lt; auto. lia.
      + apply IH. lia.
        intros j Hj Hp. destruct (Nat.eq_dec (P cl j) (P cl i)) as [Eq|Ne].
        * assert (j = i) by (apply (P_inj cl); auto; lia). subst j.
          rewrite (aligned_here_iff (skipn i cl) (Forall_skipn _ _ _ Hall) needle (P cl i) Hn).
          rewrite Ee. apply andb_false_r.
        * apply Hbefore; auto. lia.
    - destruct Hseek as [it' [ci' Hs]]; try lia. rewrite Hs. cbn [bind andb].
      apply IH. lia.
      intros j Hj Hp. destruct (Nat.eq_dec (P cl j) (ss + rel)) as [Eq|Ne].
      + exfalso. apply (find_start_none cl Hall 0 (ss + rel) Ef j Hj). simpl. fold (P cl j). lia.
      + apply Hbefore; auto. lia.
  Qed.

  Definition index_spec_pair (cl : list bytes) (needle : bytes) : Z * Z :=
    match needle with
    | [] => (0, 0)%Z
    | _ => index_res cl needle
    end.

  Lemma good_B cl : good cl -> B (concat cl) = bounds_of 0 cl.
  Proof. intros H. apply (good_self _ H). Qed.

  Theorem index_of_spec cl needle : Forall nonempty cl -> B (concat cl) = bounds_of 0 cl ->
    index_of B (concat cl) needle = Ok (index_spec_pair cl needle).
  Proof.
    intros Hall Hok. unfold index_of, index_spec_pair.
    destruct needle as [|y n']; [reflexivity|]. cbn [length Nat.eqb].
    destruct (Nat.eqb_spec (length (concat cl)) 0) as [E|E].
    - apply length_zero_iff_nil in E. apply nonempty_concat_nil in E; auto. subst. reflexivity.
    - assert (cl <> []) by (intro; subst; simpl in E; lia).
      unfold prepare, g_new. rewrite Hok. fold (it_at cl 0 GStart).
      destruct (Nat.eqb_spec (length (concat cl)) 0); [lia|]. cbn [bind].
      apply index_loop_spec; auto. congruence. lia. intros; lia.
  Qed.

  Theorem s_index_of_spec cl needle : Forall nonempty cl -> B (concat cl) = bounds_of 0 cl ->
    s_index_of B (concat cl) needle = Ok (index_spec cl needle).
  Proof.
    intros Hall Hok. unfold s_index_of. rewrite index_of_spec by auto. cbn [bind].
    unfold index_spec_pair, index_spec, index_res. destruct needle; [reflexivity|].
    destruct (first_aligned cl (z :: needle)); reflexivity.
  Qed.

  Theorem s_contains_spec cl needle : Forall nonempty cl -> B (concat cl) = bounds_of 0 cl ->
    s_contains B (concat cl) needle = Ok (0 <=? index_spec cl needle)%Z.
  Proof.
    intros Hall Hok. unfold s_contains. rewrite index_of_spec by auto. cbn [bind].
    unfold index_spec_pair, index_spec, index_res. destruct needle; [reflexivity|].
    destruct (first_aligned cl (z :: needle)); f_equal; rewrite Z.geb_leb; reflexivity.
  Qed.

  (* ---------- count ---------- *)

  Lemma s_length_B cl : Forall nonempty cl -> B (concat cl) = bounds_of 0 cl ->
    s_length B (concat cl) = Ok (length cl).
  Proof.
    intros Hall HB. unfold s_length, prepare, g_new. rewrite HB. fold (it_at cl 0 GStart).
    destruct (Nat.eqb_spec (length (concat cl)) 0) as [E|E].
    - apply length_zero_iff_nil in E. apply nonempty_concat_nil in E; auto. subst. reflexivity.
    - cbn [bind]. rewrite len_loop_spec; auto; try lia. f_equal; lia.
      pose proof (length_le_concat cl Hall). lia.
  Qed.

  Definition wfB (s : bytes) : Prop := valid_bounds (length s) (B s) = true.

  Lemma s_length_wf s : wfB s -> s_length B s = Ok (length (clusters s (B s))).
  Proof.
    intros H. destruct (valid_bounds_clusters s (B s) H) as [Hne [HB Hs]].
    rewrite Hs at 1. apply s_length_B; auto. rewrite <- Hs. exact HB.
  Qed.

  Lemma wf_length_pos s : wfB s -> s <> [] -> clusters s (B s) <> [].
  Proof.
    intros H Hs E. destruct (valid_bounds_clusters s (B s) H) as [_ [_ Hc]].
    rewrite E in Hc. simpl in Hc. congruence.
  Qed.

  Lemma aligned_span_concat rest : forall needle m,
    aligned_span rest needle = Some m -> m <= length rest /\ concat (firstn m rest) = needle.
  Proof.
    induction rest as [|c r IH]; intros needle m H.
    - destruct needle; simpl in H; [|discriminate]. injection H as <-. auto.
    - destruct needle as [|y n'] eqn:En.
      + simpl in H. injection H as <-. simpl. split; [lia|reflexivity].
      + rewrite <- En in *. rewrite aligned_span_cons in H by (rewrite En; discriminate).
        destruct (is_prefix c needle) eqn:Ep; [|discriminate].
        destruct (aligned_span r (skipn (length c) needle)) as [m'|] eqn:E2; [|discriminate].
        injection H as <-. destruct (IH _ _ E2) as [H1 H2]. simpl. split. lia.
        rewrite H2. apply is_prefix_spec in Ep as [q Hq]. rewrite Hq.
        rewrite skipn_app, skipn_all, Nat.sub_diag. reflexivity.
  Qed.

  Lemma aligned_span_pos rest needle m : needle <> [] -> aligned_span rest needle = Some m -> 1 <= m.
  Proof.
    intros Hn H. destruct m; [|lia]. apply aligned_span_concat in H as [_ H]. simpl in H. congruence.
  Qed.

  Lemma occs_skip cl needle : forall k, occs cl needle k = occs (skipn k cl) needle 0.
  Proof.
    induction cl as [|c r IH]; intros k. destruct k; reflexivity.
    destruct k. reflexivity. cbn [occs skipn]. apply IH.
  Qed.

  Lemma occs_first_none cl needle : first_aligned cl needle = None -> occs cl needle 0 = 0.
  Proof.
    induction cl as [|c r IH]; intros H. reflexivity.
    cbn [first_aligned] in H. cbn [occs].
    destruct (aligned_span (c :: r) needle); [discriminate|].
    destruct (first_aligned r needle); [discriminate|]. auto.
  Qed.

  Lemma occs_first_some cl needle : needle <> [] -> forall i m,
    first_aligned cl needle = Some i -> aligned_span (skipn i cl) needle = Some m ->
    occs cl needle 0 = S (occs (skipn (i + m) cl) needle 0).
  Proof.
    intros Hn. induction cl as [|c r IH]; intros i m H Hm. discriminate.
    cbn [first_aligned] in H. cbn [occs].
    destruct (aligned_span (c :: r) needle) as [m0|] eqn:E.
    - injection H as <-. cbn [skipn] in Hm. rewrite E in Hm. injection Hm as ->.
      pose proof (aligned_span_pos _ _ _ Hn E). destruct m; [lia|].
      rewrite occs_skip. reflexivity.
    - destruct (first_aligned r needle) as [i'|] eqn:E2; [|discriminate]. injection H as <-.
      cbn [skipn] in Hm. rewrite (IH i' m eq_refl Hm). reflexivity.
  Qed.

  Lemma first_aligned_span cl needle i : first_aligned cl needle = Some i ->
    exists m, aligned_span (skipn i cl) needle = Some m.
  Proof.
    intros H. destruct (first_aligned_some _ _ _ H) as [_ [H1 _]]. unfold aligned_here in H1.
    destruct (aligned_span (skipn i cl) needle) as [m|]; [eauto|discriminate].
  Qed.

  Lemma firstn_ge_all {A} (l : list A) n : length l <= n -> firstn n l = l.
  Proof. intros. apply firstn_all2. auto. Qed.

  (* one step shared by count, split and replaceAll: cut off everything up to the end of the
     first aligned occurrence *)
  Lemma cut_after cl other i m : good cl -> other <> [] ->
    first_aligned cl other = Some i -> aligned_span (skipn i cl) other = Some m ->
    s_length B other = Ok m /\
    1 <= m /\ i + m <= length cl /\
    s_slice nfc B (concat cl) (Z.of_nat i + Z.of_nat m) (Z.of_nat (length cl))
      = Ok (concat (skipn (i + m) cl)).
  Proof.
    intros Hg Hn Hf Hm. pose proof Hg as [Hall Hrun].
    destruct (aligned_span_concat _ _ _ Hm) as [Hle Hc]. rewrite skipn_length in Hle.
    destruct (first_aligned_some _ _ _ Hf) as [Hi _].
    pose proof (aligned_span_pos _ _ _ Hn Hm).
    repeat split; try lia.
    - rewrite <- Hc. destruct (Hrun i m) as [HB _].
      rewrite s_length_B; auto. rewrite firstn_length, skipn_length. f_equal. lia.
      apply Forall_firstn, Forall_skipn; auto.
    - rewrite s_slice_spec by auto. unfold slice_spec.
      destruct (Z.ltb_spec (Z.of_nat i + Z.of_nat m) 0); [lia|].
      destruct (Z.ltb_spec (Z.of_nat (length cl)) (Z.of_nat i + Z.of_nat m)); [lia|].
      destruct (Z.ltb_spec (Z.of_nat (length cl)) 0); [lia|].
      destruct (Z.ltb_spec (Z.of_nat (length cl)) (Z.of_nat (length cl))); [lia|].
      cbn [orb].
      destruct (Z.ltb_spec (Z.of_nat (length cl)) (Z.of_nat i + Z.of_nat m)); [lia|].
      replace (Z.to_nat (Z.of_nat i + Z.of_nat m)) with (i + m) by lia.
      rewrite firstn_ge_all. reflexivity. rewrite skipn_length. lia.
  Qed.

  Lemma count_loop_spec other : other <> [] -> forall fuel cl cnt,
    good cl -> length cl < fuel ->
    count_loop nfc B fuel (concat cl) other cnt = Ok (cnt + occs cl other 0).
  Proof.
    intros Hn. induction fuel as [|f IH]; intros cl cnt Hg Hf. lia.
    cbn [count_loop]. rewrite index_of_spec by (try apply good_B; auto; destruct Hg; auto).
    cbn [bind]. unfold index_spec_pair. destruct other as [|y o'] eqn:Eo; [congruence|].
    rewrite <- Eo in *. unfold index_res.
    destruct (first_aligned cl other) as [i|] eqn:Ef.
    - destruct (first_aligned_span _ _ _ Ef) as [m Hm].
      destruct (cut_after cl other i m Hg Hn Ef Hm) as [Hl [Hm1 [Him Hs]]].
      destruct (Z.eqb_spec (Z.of_nat i) (-1)); [lia|].
      rewrite Hl. cbn [bind]. rewrite s_length_spec by (try apply good_self; auto; destruct Hg; auto).
      cbn [bind]. rewrite Hs. cbn [bind].
      rewrite IH. 2: apply good_skipn; auto. 2: rewrite skipn_length; lia.
      rewrite (occs_first_some cl other Hn i m Ef Hm). f_equal. lia.
    - simpl. rewrite occs_first_none by auto. f_equal. lia.
  Qed.

  Theorem s_count_spec cl other : good cl -> wfB other ->
    s_count nfc B (concat cl) other = Ok (count_spec cl other).
  Proof.
    intros Hg Hw. unfold s_count, count_spec.
    destruct other as [|y o'] eqn:Eo.
    - simpl. rewrite s_length_spec by (try apply good_self; auto; destruct Hg; auto). reflexivity.
    - rewrite <- Eo in *. assert (Hn : other <> []) by (rewrite Eo; discriminate).
      pose proof (wf_length_pos other Hw Hn).
      rewrite (s_length_wf other Hw). cbn [bind].
      destruct (Nat.eqb_spec (length (clusters other (B other))) 0) as [E|E].
      { apply length_zero_iff_nil in E. congruence. }
      rewrite count_loop_spec; auto. pose proof (length_le_concat cl (proj1 Hg)). lia.
  Qed.

  (* ---------- split ---------- *)

  Lemma split_at_skip cl sep : forall k cur, split_at cl sep k cur = split_at (skipn k cl) sep 0 cur.
  Proof.
    induction cl as [|c r IH]; intros k cur. destruct k; reflexivity.
    destruct k. reflexivity. cbn [split_at skipn]. apply IH.
  Qed.

  Lemma split_at_first_none cl sep : forall cur, first_aligned cl sep = None ->
    split_at cl sep 0 cur = [cur ++ concat cl].
  Proof.
    induction cl as [|c r IH]; intros cur H. simpl. rewrite app_nil_r. reflexivity.
    cbn [first_aligned] in H. cbn [split_at].
    destruct (aligned_span (c :: r) sep); [discriminate|].
    destruct (first_aligned r sep); [discriminate|].
    rewrite IH by auto. simpl. rewrite app_assoc. reflexivity.
  Qed.

  Lemma split_at_first_some cl sep : sep <> [] -> forall i m cur,
    first_aligned cl sep = Some i -> aligned_span (skipn i cl) sep = Some m ->
    split_at cl sep 0 cur = (cur ++ concat (firstn i cl)) :: split_at (skipn (i + m) cl) sep 0 [].
  Proof.
    intros Hn. induction cl as [|c r IH]; intros i m cur H Hm. discriminate.
    cbn [first_aligned] in H. cbn [split_at].
    destruct (aligned_span (c :: r) sep) as [m0|] eqn:E.
    - injection H as <-. cbn [skipn] in Hm. rewrite E in Hm. injection Hm as ->.
      pose proof (aligned_span_pos _ _ _ Hn E). destruct m; [lia|].
      rewrite split_at_skip. simpl. rewrite app_nil_r. reflexivity.
    - destruct (first_aligned r sep) as [i'|] eqn:E2; [|discriminate]. injection H as <-.
      cbn [skipn] in Hm. rewrite (IH i' m _ eq_refl Hm). simpl. rewrite app_assoc. reflexivity.
  Qed.

  Lemma occs_zero_none cl needle : needle <> [] -> occs cl needle 0 = 0 -> first_aligned cl needle = None.
  Proof.
    intros Hn H. destruct (first_aligned cl needle) as [i|] eqn:E; auto.
    destruct (first_aligned_span _ _ _ E) as [m Hm].
    rewrite (occs_first_some cl needle Hn i m E Hm) in H. discriminate.
  Qed.

  Lemma s_slice_prefix cl i : good cl -> i <= length cl ->
    s_slice nfc B (concat cl) 0 (Z.of_nat i) = Ok (concat (firstn i cl)).
  Proof.
    intros Hg Hi. rewrite s_slice_spec by auto. unfold slice_spec.
    destruct (Z.ltb_spec 0 0); [lia|].
    destruct (Z.ltb_spec (Z.of_nat (length cl)) 0); [lia|].
    destruct (Z.ltb_spec (Z.of_nat i) 0); [lia|].
    destruct (Z.ltb_spec (Z.of_nat (length cl)) (Z.of_nat i)); [lia|]. cbn [orb].
    rewrite Z.sub_0_r, Nat2Z.id. reflexivity.
  Qed.

  Lemma split_loop_spec sep : sep <> [] -> forall fuel cl count pi,
    good cl -> count = pi + occs cl sep 0 + 1 -> occs cl sep 0 < fuel ->
    split_loop nfc B fuel count pi (concat cl) sep = Ok (split_at cl sep 0 []).
  Proof.
    intros Hn. induction fuel as [|f IH]; intros cl count pi Hg Hc Hf. lia.
    cbn [split_loop].
    destruct (Nat.leb_spec count pi); [lia|].
    destruct (Nat.eqb_spec pi (count - 1)) as [E|E].
    - assert (H0 : occs cl sep 0 = 0) by lia.
      rewrite split_at_first_none by (apply occs_zero_none; auto). reflexivity.
    - assert (H0 : occs cl sep 0 <> 0) by lia.
      rewrite index_of_spec by (try apply good_B; auto; destruct Hg; auto). cbn [bind].
      unfold index_spec_pair. destruct sep as [|y o'] eqn:Eo; [congruence|]. rewrite <- Eo in *.
      unfold index_res.
      destruct (first_aligned cl sep) as [i|] eqn:Ef.
      2:{ apply occs_first_none in Ef. congruence. }
      destruct (first_aligned_span _ _ _ Ef) as [m Hm].
      destruct (cut_after cl sep i m Hg Hn Ef Hm) as [Hl [Hm1 [Him Hs]]].
      destruct (Z.ltb_spec (Z.of_nat i) 0); [lia|].
      rewrite s_slice_prefix by (auto; lia). cbn [bind].
      rewrite Hl. cbn [bind].
      rewrite s_length_spec by (try apply good_self; auto; destruct Hg; auto). cbn [bind].
      rewrite Hs. cbn [bind].
      rewrite (occs_first_some cl sep Hn i m Ef Hm) in *.
      rewrite (IH (skipn (i + m) cl) count (S pi)); try lia. 2: apply good_skipn; auto.
      cbn [bind]. rewrite (split_at_first_some cl sep Hn i m [] Ef Hm). reflexivity.
  Qed.

  Lemma count_spec_ne cl needle : needle <> [] -> count_spec cl needle = occs cl needle 0.
  Proof. destruct needle; [congruence|reflexivity]. Qed.

  Theorem s_split_spec cl sep : good cl -> wfB sep ->
    s_split nfc B (concat cl) sep = Ok (split_spec cl sep).
  Proof.
    intros Hg Hw. unfold s_split, split_spec.
    destruct sep as [|y o'] eqn:Eo.
    - simpl. apply s_explode_spec; auto.
    - rewrite <- Eo in *. assert (Hn : sep <> []) by (rewrite Eo; discriminate).
      replace (length sep =? 0) with false by (rewrite Eo; reflexivity).
      rewrite s_count_spec by auto. cbn [bind]. rewrite count_spec_ne by auto.
      rewrite Eo at 2. rewrite <- Eo.
      apply split_loop_spec; auto; lia.
  Qed.

  (* ---------- join ---------- *)

  Lemma join_iter_false l sep : forall acc,
    join_iter l sep false acc = acc ++ concat (map (fun y => sep ++ y) l).
  Proof.
    induction l as [|x r IH]; intros acc; simpl. rewrite app_nil_r. reflexivity.
    rewrite IH. rewrite <- !app_assoc. reflexivity.
  Qed.

  Lemma intercalate_cons sep x r :
    intercalate sep (x :: r) = x ++ concat (map (fun y => sep ++ y) r).
  Proof.
    revert x. induction r as [|y r IH]; intros x. simpl. rewrite app_nil_r. reflexivity.
    change (intercalate sep (x :: y :: r)) with (x ++ sep ++ intercalate sep (y :: r)).
    rewrite IH. simpl. rewrite <- !app_assoc. reflexivity.
  Qed.

  Theorem s_join_spec l sep :
    s_join nfc l sep = match l with [x] => x | _ => nfc (intercalate sep l) end.
  Proof.
    destruct l as [|x [|y r]]; try reflexivity.
    unfold s_join, mk. f_equal. rewrite intercalate_cons.
    cbn [join_iter]. rewrite join_iter_false. simpl. rewrite <- !app_assoc. reflexivity.
  Qed.

  Lemma split_at_nonempty cl sep k cur : split_at cl sep k cur <> [].
  Proof.
    revert k cur. induction cl as [|c r IH]; intros k cur; cbn [split_at]. discriminate.
    destruct k; [|apply IH].
    destruct (aligned_span (c :: r) sep) as [[|m]|]; try apply IH. discriminate.
  Qed.

  Lemma intercalate_cons2 sep x r : r <> [] -> intercalate sep (x :: r) = x ++ sep ++ intercalate sep r.
  Proof. destruct r; [congruence|reflexivity]. Qed.

  Lemma firstn_firstn_same (cl : list bytes) i :
    concat (firstn i (firstn i cl ++ skipn i cl)) = concat (firstn i cl).
  Proof. rewrite firstn_skipn. reflexivity. Qed.

  Lemma intercalate_split_at sep : sep <> [] -> forall n cl cur, length cl <= n ->
    intercalate sep (split_at cl sep 0 cur) = cur ++ concat cl.
  Proof.
    intros Hn. induction n as [|n IH]; intros cl cur Hl.
    - destruct cl; [|simpl in Hl; lia]. simpl. rewrite app_nil_r. reflexivity.
    - destruct (first_aligned cl sep) as [i|] eqn:Ef.
      + destruct (first_aligned_span _ _ _ Ef) as [m Hm].
        rewrite (split_at_first_some cl sep Hn i m cur Ef Hm).
        rewrite intercalate_cons2 by apply split_at_nonempty.
        destruct (aligned_span_concat _ _ _ Hm) as [Hle Hc]. rewrite skipn_length in Hle.
        pose proof (aligned_span_pos _ _ _ Hn Hm).
        destruct (first_aligned_some _ _ _ Ef) as [Hi _].
        rewrite IH by (rewrite skipn_length; lia). simpl.
        rewrite <- Hc. rewrite <- app_assoc. f_equal.
        symmetry. rewrite (concat_firstn_skipn cl i). f_equal.
        rewrite (concat_firstn_skipn (skipn i cl) m). f_equal.
        rewrite skipn_skipn. reflexivity.
      + rewrite split_at_first_none by auto. reflexivity.
  Qed.

  Theorem join_split cl sep : good cl -> sep <> [] ->
    s_join nfc (split_spec cl sep) sep = concat cl.
  Proof.
    intros Hg Hn. rewrite s_join_spec. unfold split_spec.
    destruct sep as [|y o'] eqn:Eo; [congruence|]. rewrite <- Eo in *.
    pose proof (intercalate_split_at sep Hn (length cl) cl [] (le_n _)) as H. simpl in H.
    destruct (split_at cl sep 0 []) as [|x [|x' r]] eqn:E.
    - exfalso. apply (split_at_nonempty cl sep 0 [] E).
    - exact H.
    - rewrite H. apply (good_self _ Hg).
  Qed.

  (* ---------- replaceAll ---------- *)

  Lemma replace_at_skip cl o r : forall k, replace_at cl o r k = replace_at (skipn k cl) o r 0.
  Proof.
    induction cl as [|c cl IH]; intros k. destruct k; reflexivity.
    destruct k. reflexivity. cbn [replace_at skipn]. apply IH.
  Qed.

  Lemma replace_at_first_none cl o r : first_aligned cl o = None -> replace_at cl o r 0 = concat cl.
  Proof.
    induction cl as [|c cl IH]; intros H. reflexivity.
    cbn [first_aligned] in H. cbn [replace_at].
    destruct (aligned_span (c :: cl) o); [discriminate|].
    destruct (first_aligned cl o); [discriminate|].
    rewrite IH by auto. reflexivity.
  Qed.

  Lemma replace_at_first_some cl o r : o <> [] -> forall i m,
    first_aligned cl o = Some i -> aligned_span (skipn i cl) o = Some m ->
    replace_at cl o r 0 = concat (firstn i cl) ++ r ++ replace_at (skipn (i + m) cl) o r 0.
  Proof.
    intros Hn. induction cl as [|c cl IH]; intros i m H Hm. discriminate.
    cbn [first_aligned] in H. cbn [replace_at].
    destruct (aligned_span (c :: cl) o) as [m0|] eqn:E.
    - injection H as <-. cbn [skipn] in Hm. rewrite E in Hm. injection Hm as ->.
      pose proof (aligned_span_pos _ _ _ Hn E). destruct m; [lia|].
      rewrite replace_at_skip. reflexivity.
    - destruct (first_aligned cl o) as [i'|] eqn:E2; [|discriminate]. injection H as <-.
      cbn [skipn] in Hm. rewrite (IH i' m eq_refl Hm). simpl. rewrite <- app_assoc. reflexivity.
  Qed.

  Lemma s_slice_suffix cl k : good cl -> k <= length cl ->
    s_slice nfc B (concat cl) (Z.of_nat k) (Z.of_nat (length cl)) = Ok (concat (skipn k cl)).
  Proof.
    intros Hg Hk. rewrite s_slice_spec by auto. unfold slice_spec.
    destruct (Z.ltb_spec (Z.of_nat k) 0); [lia|].
    destruct (Z.ltb_spec (Z.of_nat (length cl)) (Z.of_nat k)); [lia|].
    destruct (Z.ltb_spec (Z.of_nat (length cl)) 0); [lia|].
    destruct (Z.ltb_spec (Z.of_nat (length cl)) (Z.of_nat (length cl))); [lia|]. cbn [orb].
    rewrite Nat2Z.id. rewrite firstn_ge_all. reflexivity. rewrite skipn_length. lia.
  Qed.

  Lemma go_sub_prefix cl i : i <= length cl ->
    go_sub (concat cl) 0 (Z.to_nat (Z.of_nat (P cl i))) = Ok (concat (firstn i cl)).
  Proof.
    intros Hi. rewrite Nat2Z.id. pose proof (go_sub_concat cl 0 i (Nat.le_0_l i) Hi) as H.
    simpl in H. rewrite Nat.sub_0_r in H. exact H.
  Qed.

  Lemma replace_loop_spec orig repl : orig <> [] -> forall n cl i acc,
    good cl -> occs cl orig 0 = n ->
    replace_loop nfc B n i (concat cl) orig repl acc = Ok (acc ++ replace_at cl orig repl 0).
  Proof.
    intros Hn. induction n as [|n IH]; intros cl i acc Hg Ho.
    - simpl. rewrite replace_at_first_none by (apply occs_zero_none; auto). reflexivity.
    - cbn [replace_loop].
      destruct (first_aligned cl orig) as [i0|] eqn:Ef.
      2:{ apply occs_first_none in Ef. congruence. }
      destruct (first_aligned_span _ _ _ Ef) as [m Hm].
      destruct (cut_after cl orig i0 m Hg Hn Ef Hm) as [Hl [Hm1 [Him Hs]]].
      rewrite Hl. cbn [bind]. destruct (Nat.eqb_spec m 0); [lia|].
      rewrite index_of_spec by (try apply good_B; auto; destruct Hg; auto). cbn [bind].
      unfold index_spec_pair. destruct orig as [|y o'] eqn:Eo; [congruence|]. rewrite <- Eo in *.
      unfold index_res. rewrite Ef. destruct (Z.ltb_spec (Z.of_nat i0) 0); [lia|]. cbn [bind].
      rewrite go_sub_prefix by lia. cbn [bind].
      rewrite s_length_spec by (try apply good_self; auto; destruct Hg; auto). cbn [bind].
      rewrite Hs. cbn [bind].
      rewrite (occs_first_some cl orig Hn i0 m Ef Hm) in Ho.
      rewrite IH; auto. 2: apply good_skipn; auto.
      rewrite (replace_at_first_some cl orig repl Hn i0 m Ef Hm).
      rewrite <- !app_assoc. reflexivity.
  Qed.

  Lemma s_length_nil : s_length B [] = Ok 0.
  Proof. reflexivity. Qed.

  Lemma replace_loop_empty repl : forall cl i acc, good cl -> 1 <= i ->
    replace_loop nfc B (length cl) i (concat cl) [] repl acc
    = Ok (acc ++ flat_map (fun c => c ++ repl) cl).
  Proof.
    induction cl as [|c r IH]; intros i acc Hg Hi. reflexivity.
    cbn [length replace_loop]. rewrite s_length_nil. cbn [bind Nat.eqb].
    destruct (Nat.ltb_spec 0 i); [|lia].
    pose proof Hg as [Hall Hrun].
    rewrite prepare_good by (try apply good_self; auto; discriminate). cbn [bind].
    rewrite g_next_lt by (auto; simpl; lia). cbn [fst].
    rewrite positions_run by (simpl; lia). cbn [snd]. fold (P (c :: r) 1).
    rewrite go_sub_prefix by (simpl; lia). cbn [bind].
    rewrite s_length_spec by (try apply good_self; auto). cbn [bind].
    change (1 + Z.of_nat 0)%Z with (Z.of_nat 1).
    rewrite (s_slice_suffix (c :: r) 1 Hg) by (simpl; lia). cbn [bind skipn].
    rewrite IH; auto. 2: apply (good_skipn (c :: r) 1 Hg).
    simpl. rewrite app_nil_r. rewrite <- !app_assoc. reflexivity.
  Qed.

  Lemma replace_spec_ne cl o r : o <> [] -> replace_spec cl o r = replace_at cl o r 0.
  Proof. destruct o; [congruence|reflexivity]. Qed.

  Theorem s_replace_all_spec cl orig repl : good cl -> wfB orig ->
    s_replace_all nfc B (concat cl) orig repl = Ok (nfc (replace_spec cl orig repl)).
  Proof.
    intros Hg Hw. unfold s_replace_all. rewrite s_count_spec by auto. cbn [bind].
    destruct orig as [|y o'] eqn:Eo.
    - unfold count_spec, replace_spec. cbn [Nat.eqb].
      cbn [replace_loop]. rewrite s_length_nil. cbn [bind Nat.eqb Nat.ltb Nat.leb].
      unfold go_sub. cbn [Nat.leb andb Z.to_nat sub Nat.sub firstn bind].
      rewrite s_length_spec by (try apply good_self; auto; destruct Hg; auto). cbn [bind].
      change (0 + Z.of_nat 0)%Z with (Z.of_nat 0).
      rewrite (s_slice_suffix cl 0 Hg) by lia. cbn [bind skipn].
      rewrite replace_loop_empty by (auto; lia). reflexivity.
    - rewrite <- Eo in *. assert (Hn : orig <> []) by (rewrite Eo; discriminate).
      rewrite count_spec_ne by auto. rewrite replace_spec_ne by auto.
      destruct (Nat.eqb_spec (occs cl orig 0) 0) as [E|E].
      + rewrite replace_at_first_none by (apply occs_zero_none; auto).
        destruct (good_self _ Hg) as [_ Hnfc]. rewrite Hnfc. reflexivity.
      + rewrite replace_loop_spec; auto.
  Qed.

  (* ---------- from the hypotheses on (s, B s) to cluster lists ---------- *)

  Lemma good_of s : wf B s -> stable nfc B s -> good (cl_of B s) /\ s = concat (cl_of B s).
  Proof.
    intros Hw Hs. unfold stable, wf, cl_of in *.
    destruct (valid_bounds_clusters s (B s) Hw) as [Hne [HB Hc]].
    split; [|exact Hc]. split. exact Hne.
    intros i m. destruct (Hs i m) as [Hwx [Hnx Hcx]]. split; [|exact Hnx].
    destruct (valid_bounds_clusters _ _ Hwx) as [_ [HBx _]].
    rewrite Hcx in HBx. exact HBx.
  Qed.

  Theorem length_correct s : wf B s -> s_length B s = Ok (length (cl_of B s)).
  Proof. apply s_length_wf. Qed.

  Theorem get_key_correct s key : wf B s -> stable nfc B s ->
    s_get_key nfc B s key = get_spec (cl_of B s) key.
  Proof. intros Hw Hs. destruct (good_of s Hw Hs) as [Hg E]. rewrite E at 1. apply s_get_key_spec; auto. Qed.

  Theorem slice_correct s from to : wf B s -> stable nfc B s ->
    s_Slice nfc B s from to = Slice_spec (cl_of B s) from to.
  Proof. intros Hw Hs. destruct (good_of s Hw Hs) as [Hg E]. rewrite E at 1. apply s_Slice_spec; auto. Qed.

  Theorem chars_correct s : wf B s -> stable nfc B s -> s_chars nfc B s = Ok (cl_of B s).
  Proof. intros Hw Hs. destruct (good_of s Hw Hs) as [Hg E]. rewrite E at 1. apply s_chars_spec; auto. Qed.

  Theorem index_of_correct s o : wf B s -> s_index_of B s o = Ok (index_spec (cl_of B s) o).
  Proof.
    intros Hw. unfold wf, cl_of in *. destruct (valid_bounds_clusters s (B s) Hw) as [Hne [HB Hc]].
    rewrite Hc at 1. apply s_index_of_spec; auto. rewrite <- Hc. exact HB.
  Qed.

  Theorem contains_correct s o : wf B s ->
    s_contains B s o = Ok (0 <=? index_spec (cl_of B s) o)%Z.
  Proof.
    intros Hw. unfold wf, cl_of in *. destruct (valid_bounds_clusters s (B s) Hw) as [Hne [HB Hc]].
    rewrite Hc at 1. apply s_contains_spec; auto. rewrite <- Hc. exact HB.
  Qed.

  Theorem count_correct s o : wf B s -> stable nfc B s -> wf B o ->
    s_count nfc B s o = Ok (count_spec (cl_of B s) o).
  Proof. intros Hw Hs Ho. destruct (good_of s Hw Hs) as [Hg E]. rewrite E at 1. apply s_count_spec; auto. Qed.

  Theorem split_correct s sep : wf B s -> stable nfc B s -> wf B sep ->
    s_split nfc B s sep = Ok (split_spec (cl_of B s) sep).
  Proof. intros Hw Hs Ho. destruct (good_of s Hw Hs) as [Hg E]. rewrite E at 1. apply s_split_spec; auto. Qed.

  Theorem join_split_correct s sep parts : wf B s -> stable nfc B s -> wf B sep -> sep <> [] ->
    s_split nfc B s sep = Ok parts -> s_join nfc parts sep = s.
  Proof.
    intros Hw Hs Ho Hn H. destruct (good_of s Hw Hs) as [Hg E].
    rewrite (split_correct s sep Hw Hs Ho) in H. injection H as <-.
    rewrite E at 2. apply join_split; auto.
  Qed.

  Theorem replace_all_correct s o r : wf B s -> stable nfc B s -> wf B o ->
    s_replace_all nfc B s o r = Ok (nfc (replace_spec (cl_of B s) o r)).
  Proof. intros Hw Hs Ho. destruct (good_of s Hw Hs) as [Hg E]. rewrite E at 1. apply s_replace_all_spec; auto. Qed.

  (* the cluster sequence determines the string and vice versa *)
  Theorem equal_correct a b : wf B a -> wf B b ->
    (s_equal a b = true <-> cl_of B a = cl_of B b).
  Proof.
    intros Ha Hb. unfold s_equal. rewrite bytes_eqb_eq. split. intros ->. reflexivity.
    intros E. unfold wf, cl_of in *.
    destruct (valid_bounds_clusters a _ Ha) as [_ [_ Ea]].
    destruct (valid_bounds_clusters b _ Hb) as [_ [_ Eb]].
    rewrite Ea, Eb, E. reflexivity.
  Qed.

End P.
