(* C19  A concrete oracle instance satisfying the hypotheses of the theorems (non-vacuity):
   the text  x U+0301 CR LF a x  with its real UTF-8 bytes and real grapheme clusters
   [x U+0301] [CR LF] [a] [x]; the oracle tables answer for every run of consecutive clusters. *)
From CV Require Import C19.Cases C19.Proofs.

Definition ex_cl : list (list Z) := [[120; 204; 129]; [13; 10]; [97]; [120]].

Definition runs (cl : list (list Z)) : list (list (list Z)) :=
  flat_map (fun i => map (fun m => firstn m (skipn i cl)) (seq 0 (S (length cl)))) (seq 0 (S (length cl))).

Definition ex_tab : tab := Eval vm_compute in map (fun run => (concat run, (concat run, bounds_of 0 run))) (runs ex_cl).
Definition ex_nfc : list Z -> list Z := tab_nfc ex_tab.
Definition ex_B : list Z -> list nat := tab_B ex_tab.
Definition ex_s : list Z := concat ex_cl.

Lemma ex_wf : wf ex_B ex_s.
Proof. vm_compute. reflexivity. Qed.

Lemma ex_clusters : cl_of ex_B ex_s = ex_cl.
Proof. vm_compute. reflexivity. Qed.

Lemma ex_stable : stable ex_nfc ex_B ex_s.
Proof.
  intros i m. rewrite ex_clusters.
  destruct i as [|[|[|[|[|i]]]]]; destruct m as [|[|[|[|[|m]]]]];
    vm_compute; repeat split; reflexivity.
Qed.

Lemma ex_wf_needle : wf ex_B [120] /\ wf ex_B [13; 10] /\ wf ex_B [].
Proof. vm_compute. auto. Qed.
