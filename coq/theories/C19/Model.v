(* C19  Code-shaped model of interpreter/value_string.go, value_character.go,
   value_stringbuilder.go (byte / grapheme-boundary level).

   A Go string is a list of bytes (Z in 0..255).  A Cadence String value is its field [Str]:
   the NFC normalisation of the source text.  Two external libraries are NOT modelled; they
   enter as Section variables:
     nfc   : golang.org/x/text/unicode/norm  NFC.String   (on UTF-8 bytes)
     B     : github.com/rivo/uniseg          the byte offsets 0 = b0 < b1 < ... < bn = len(s)
             of the grapheme cluster boundaries that a uniseg.Graphemes iterator over s visits
     lower : strings.ToLower
   No definition in this file has a proof; proofs are in Proofs.v / Utf8Proofs.v. *)
From CV Require Export Base.Prelude.
From Coq Require Export Arith.

Notation bytes := (list Z) (only parsing).

(* ---------- Go primitives on strings ---------- *)

(* s[a:e] without the bounds check *)
Definition sub (s : bytes) (a e : nat) : bytes := firstn (e - a) (skipn a s).

(* Go slice expression s[a:e]: run-time panic unless a <= e <= len(s) *)
Definition go_sub (s : bytes) (a e : nat) : res bytes :=
  if (a <=? e)%nat && (e <=? length s)%nat then Ok (sub s a e) else Err Crash.

Fixpoint is_prefix (p s : bytes) : bool :=
  match p, s with
  | [], _ => true
  | x :: p', y :: s' => (x =? y) && is_prefix p' s'
  | _ :: _, [] => false
  end.

(* strings.Index: byte offset of the first occurrence *)
Fixpoint str_index (hay needle : bytes) : option nat :=
  if is_prefix needle hay then Some O
  else match hay with
       | [] => None
       | _ :: r => option_map S (str_index r needle)
       end.

Fixpoint bytes_eqb (a b : bytes) : bool :=
  match a, b with
  | [], [] => true
  | x :: a', y :: b' => (x =? y) && bytes_eqb a' b'
  | _, _ => false
  end.

(* Go string comparison a < b: bytewise lexicographic *)
Fixpoint bytes_ltb (a b : bytes) : bool :=
  match a, b with
  | _, [] => false
  | [], _ :: _ => true
  | x :: a', y :: b' => if x <? y then true else if y <? x then false else bytes_ltb a' b'
  end.

(* IntValue.ToInt: OverflowError unless the big integer fits int64 *)
Definition to_int (z : Z) : res Z :=
  if (- 2 ^ 63 <=? z) && (z <? 2 ^ 63) then Ok z else Err Overflow.

(* ---------- encoding/hex ---------- *)

Definition hex_digit (v : Z) : Z := if v <? 10 then 48 + v else 87 + v.   (* "0123456789abcdef"[v] *)

Fixpoint hex_encode (bs : bytes) : bytes :=
  match bs with
  | [] => []
  | v :: r => hex_digit (Z.shiftr v 4) :: hex_digit (Z.land v 15) :: hex_encode r
  end.

(* reverseHexTable *)
Definition from_hex_char (c : Z) : Z :=
  if (48 <=? c) && (c <=? 57) then c - 48
  else if (97 <=? c) && (c <=? 102) then c - 87
  else if (65 <=? c) && (c <=? 70) then c - 55
  else 255.

Inductive hexres := HexOk (bs : bytes) | HexBadByte (b : Z) | HexBadLen.

(* hex.DecodeString / hex.Decode: pairs left to right; an odd trailing byte is checked for
   validity before the length error is reported *)
Fixpoint hex_decode (src : bytes) : hexres :=
  match src with
  | [] => HexOk []
  | [p] => if from_hex_char p >? 15 then HexBadByte p else HexBadLen
  | p :: q :: r =>
      let a := from_hex_char p in
      let b := from_hex_char q in
      if a >? 15 then HexBadByte p
      else if b >? 15 then HexBadByte q
      else match hex_decode r with
           | HexOk l => HexOk (Z.lor (Z.shiftl a 4) b :: l)
           | e => e
           end
  end.

(* ---------- unicode/utf8 ---------- *)

(* utf8.Valid: table [first] (size, accept range of the second byte), continuation bytes 80..BF *)
Definition first_info (b : Z) : option (nat * Z * Z) :=
  if b <? 194 then None                                   (* 80..C1: xx *)
  else if b <=? 223 then Some (2%nat, 128, 191)           (* C2..DF: s1 *)
  else if b =? 224 then Some (3%nat, 160, 191)            (* E0: s2 *)
  else if b <=? 236 then Some (3%nat, 128, 191)           (* E1..EC: s3 *)
  else if b =? 237 then Some (3%nat, 128, 159)            (* ED: s4 *)
  else if b <=? 239 then Some (3%nat, 128, 191)           (* EE..EF: s3 *)
  else if b =? 240 then Some (4%nat, 144, 191)            (* F0: s5 *)
  else if b <=? 243 then Some (4%nat, 128, 191)           (* F1..F3: s6 *)
  else if b =? 244 then Some (4%nat, 128, 143)            (* F4: s7 *)
  else None.                                              (* F5..FF: xx *)

Definition in_rng (lo hi c : Z) : bool := (lo <=? c) && (c <=? hi).
Definition is_cont (c : Z) : bool := in_rng 128 191 c.

Fixpoint utf8_valid (p : bytes) : bool :=
  match p with
  | [] => true
  | pi :: r =>
      if pi <? 128 then utf8_valid r
      else match first_info pi with
           | None => false
           | Some (size, lo, hi) =>
               match size, r with
               | 2%nat, c1 :: r' => in_rng lo hi c1 && utf8_valid r'
               | 3%nat, c1 :: c2 :: r' => in_rng lo hi c1 && is_cont c2 && utf8_valid r'
               | 4%nat, c1 :: c2 :: c3 :: r' => in_rng lo hi c1 && is_cont c2 && is_cont c3 && utf8_valid r'
               | _, _ => false
               end
           end
  end.

(* ---------- the string model ---------- *)

Section Str.
  Variable nfc : bytes -> bytes.
  Variable B : bytes -> list nat.
  Variable lower : bytes -> bytes.

  (* NewUnmeteredStringValue / NewStringValue / NewUnmeteredCharacterValue: Str = NFC(str) *)
  Definition mk (raw : bytes) : bytes := nfc raw.

  (* --- uniseg.Graphemes --- *)
  Inductive gst := GStart | GRun | GDone.                  (* state -1 | >=0 | -2 *)
  Record giter := GI { g_s : bytes; g_b : list nat; g_pos : nat; g_st : gst }.

  Definition g_new (s : bytes) : giter := GI s (B s) 0 GStart.     (* NewGraphemes / Reset *)

  (* offset + len(cluster): end of what has been consumed *)
  Definition g_end (it : giter) : nat := nth (g_pos it) (g_b it) (length (g_s it)).

  (* Next: false (state -2) when nothing remains *)
  Definition g_next (it : giter) : giter * bool :=
    if (length (g_s it) <=? g_end it)%nat
    then (GI (g_s it) (g_b it) (g_pos it) GDone, false)
    else (GI (g_s it) (g_b it) (S (g_pos it)) GRun, true).

  Definition g_positions (it : giter) : nat * nat :=
    match g_st it with
    | GStart => (0, 0)%nat
    | GDone => (1, 1)%nat
    | GRun => (nth (g_pos it - 1) (g_b it) 0%nat, nth (g_pos it) (g_b it) 0%nat)
    end.

  Definition g_str (it : giter) : bytes :=
    match g_st it with
    | GRun => sub (g_s it) (fst (g_positions it)) (snd (g_positions it))
    | _ => []
    end.

  Fixpoint g_nexts (n : nat) (it : giter) : giter :=
    match n with
    | O => it
    | S k => g_nexts k (fst (g_next it))
    end.

  (* prepareGraphemes: unreachable-panic on the empty string *)
  Definition prepare (s : bytes) : res giter :=
    if (length s =? 0)%nat then Err Internal else Ok (g_new s).

  (* --- Length --- *)
  Fixpoint len_loop (fuel : nat) (it : giter) (n : nat) : res nat :=
    match fuel with
    | O => Err OutOfFuel
    | S f => let '(it', ok) := g_next it in
             if ok then len_loop f it' (S n) else Ok n
    end.

  Definition s_length (s : bytes) : res nat :=
    if (length s =? 0)%nat then Ok O
    else let* it := prepare s in len_loop (S (S (length s))) it 0.

  (* --- slice(fromIndex, toIndex int) --- *)
  Definition s_slice (s : bytes) (from to : Z) : res bytes :=
    let* len := s_length s in
    let l := Z.of_nat len in
    if (from <? 0) || (from >? l) || (to <? 0) || (to >? l) then Err IndexOOB   (* StringSliceIndicesError *)
    else if from >? to then Err UserOther                                        (* InvalidSliceIndexError *)
    else if (length s =? 0)%nat || (from =? to) then Ok (mk [])                  (* EmptyString *)
    else
      let* it := prepare s in
      let it1 := g_nexts (Z.to_nat (from + 1)) it in          (* for ; j <= fromIndex; j++ *)
      let start := fst (g_positions it1) in
      let it2 := g_nexts (Z.to_nat (to - from - 1)) it1 in    (* for ; j < toIndex; j++ *)
      let e := snd (g_positions it2) in
      let* x := go_sub s start e in
      Ok (mk x).

  (* Slice(from, to IntValue) *)
  Definition s_Slice (s : bytes) (from to : Z) : res bytes :=
    let* f := to_int from in
    let* t := to_int to in
    s_slice s f t.

  (* --- GetKey: checkBounds, then index+1 calls of Next; the result is a Character --- *)
  Definition s_get_key (s : bytes) (key : Z) : res bytes :=
    let* index := to_int key in
    let* len := s_length s in
    if (index <? 0) || (index >=? Z.of_nat len) then Err IndexOOB               (* StringIndexOutOfBoundsError *)
    else
      let* it := prepare s in
      let it1 := g_nexts (Z.to_nat (index + 1)) it in
      Ok (mk (g_str it1)).

  (* --- StringValueIterator: Next until HasNext is false; elements are Characters --- *)
  Fixpoint iter_loop (fuel : nat) (it : giter) : res (list bytes) :=
    match fuel with
    | O => Err OutOfFuel
    | S f => let '(it', ok) := g_next it in
             if ok then let* r := iter_loop f it' in Ok (mk (g_str it') :: r) else Ok []
    end.

  Definition s_chars (s : bytes) : res (list bytes) := iter_loop (S (S (length s))) (g_new s).

  (* Explode: each character becomes a String (normalised again) *)
  Definition s_explode (s : bytes) : res (list bytes) :=
    let* cs := s_chars s in Ok (map mk cs).

  (* --- Concat --- *)
  Definition s_concat (a b : bytes) : bytes := mk (a ++ b).

  (* --- seekGraphemeBoundaryStartPrepared --- *)
  Fixpoint seek (fuel : nat) (it : giter) (startOffset : nat) (ci : nat) : res (giter * nat * bool) :=
    match fuel with
    | O => Err OutOfFuel
    | S f =>
        let '(it', ok) := g_next it in
        if negb ok then Ok (it', ci, false)
        else
          let '(bs, be) := g_positions it' in
          if (bs =? be)%nat then Err Internal
          else if (startOffset =? bs)%nat then Ok (it', ci, true)
          else if (startOffset <? bs)%nat then Ok (it', ci, false)
          else seek f it' startOffset (S ci)
    end.

  (* --- isGraphemeBoundaryEndPrepared --- *)
  Fixpoint is_end (fuel : nat) (it : giter) (e : nat) : res bool :=
    match fuel with
    | O => Err OutOfFuel
    | S f =>
        let '(bs, be) := g_positions it in
        if (bs =? be)%nat then Err Internal
        else if (e =? be)%nat then Ok true
        else if (e <? be)%nat then Ok false
        else let '(it', ok) := g_next it in
             if ok then is_end f it' e else Ok false
    end.

  (* --- indexOf: (characterIndex, byteOffset) or (-1, -1) --- *)
  Fixpoint index_loop (fuel : nat) (s other : bytes) (it : giter) (ci : nat) (searchStart : nat)
    : res (Z * Z) :=
    match fuel with
    | O => Err OutOfFuel
    | S f =>
        if (length s <=? searchStart)%nat then Ok (-1, -1)
        else match str_index (skipn searchStart s) other with
             | None => Ok (-1, -1)
             | Some rel =>
                 let abs := (searchStart + rel)%nat in
                 let backup := it in
                 let ciBackup := ci in
                 let* (it1, ci1, okS) := seek (S (S (length s))) it abs ci in
                 let* okE := if okS then is_end (S (S (length s))) it1 (abs + length other)%nat
                             else Ok false in
                 if okS && okE then Ok (Z.of_nat ci1, Z.of_nat abs)
                 else index_loop f s other backup ciBackup (S searchStart)
             end
    end.

  Definition index_of (s other : bytes) : res (Z * Z) :=
    if (length other =? 0)%nat then Ok (0, 0)
    else if (length s =? 0)%nat then Ok (-1, -1)
    else let* it := prepare s in index_loop (S (length s)) s other it 0 0.

  Definition s_index_of (s other : bytes) : res Z :=
    let* (i, _) := index_of s other in Ok i.

  Definition s_contains (s other : bytes) : res bool :=
    let* (i, _) := index_of s other in Ok (i >=? 0).

  (* --- count --- *)
  Fixpoint count_loop (fuel : nat) (remaining other : bytes) (count : nat) : res nat :=
    match fuel with
    | O => Err OutOfFuel
    | S f =>
        let* (index, _) := index_of remaining other in
        if index =? -1 then Ok count
        else
          let* ol := s_length other in
          let* rl := s_length remaining in
          let* r' := s_slice remaining (index + Z.of_nat ol) (Z.of_nat rl) in
          count_loop f r' other (S count)
    end.

  Definition s_count (s other : bytes) : res nat :=
    let* ol := s_length other in
    if (ol =? 0)%nat then let* l := s_length s in Ok (1 + l)%nat
    else count_loop (S (S (length s))) s other 0.

  (* --- Split --- *)
  Fixpoint split_loop (fuel : nat) (count partIndex : nat) (remaining sep : bytes) : res (list bytes) :=
    match fuel with
    | O => Err OutOfFuel
    | S f =>
        if (count <=? partIndex)%nat then Ok []
        else if (partIndex =? count - 1)%nat then Ok [remaining]
        else
          let* (idx, _) := index_of remaining sep in
          if idx <? 0 then Ok []
          else
            let* part := s_slice remaining 0 idx in
            let* sl := s_length sep in
            let* rl := s_length remaining in
            let* rem' := s_slice remaining (idx + Z.of_nat sl) (Z.of_nat rl) in
            let* rest := split_loop f count (S partIndex) rem' sep in
            Ok (part :: rest)
    end.

  Definition s_split (s sep : bytes) : res (list bytes) :=
    if (length sep =? 0)%nat then s_explode s
    else
      let* c := s_count s sep in
      let count := (c + 1)%nat in
      split_loop (S count) count 0 s sep.

  (* --- ReplaceAll --- *)
  Fixpoint replace_loop (n : nat) (i : nat) (remaining orig repl : bytes) (acc : bytes) : res bytes :=
    match n with
    | O => Ok (acc ++ remaining)
    | S n' =>
        let* ol := s_length orig in
        let* (ci, off) :=
          (if (ol =? 0)%nat then
             if (0 <? i)%nat then
               let* it := prepare remaining in
               let it' := fst (g_next it) in
               Ok (1, Z.of_nat (snd (g_positions it')))
             else Ok (0, 0)
           else
             let* (ci, off) := index_of remaining orig in
             if ci <? 0 then Err Internal else Ok (ci, off)) in
        let* pre := go_sub remaining 0 (Z.to_nat off) in
        let* rl := s_length remaining in
        let* rem' := s_slice remaining (ci + Z.of_nat ol) (Z.of_nat rl) in
        replace_loop n' (S i) rem' orig repl (acc ++ pre ++ repl)
    end.

  Definition s_replace_all (s orig repl : bytes) : res bytes :=
    let* c := s_count s orig in
    if (c =? 0)%nat then Ok s
    else let* raw := replace_loop c 0 s orig repl [] in Ok (mk raw).

  (* --- String.join --- *)
  Fixpoint join_iter (l : list bytes) (sep : bytes) (first : bool) (acc : bytes) : bytes :=
    match l with
    | [] => acc
    | x :: r => join_iter r sep false ((if first then acc else acc ++ sep) ++ x)
    end.

  Definition s_join (l : list bytes) (sep : bytes) : bytes :=
    match l with
    | [] => mk []
    | [x] => x
    | _ => mk (join_iter l sep true [])
    end.

  (* --- toLower, utf8, hex, fromUTF8, fromCharacters --- *)
  Definition s_to_lower (s : bytes) : bytes := mk (lower s).
  Definition s_utf8 (s : bytes) : bytes := s.

  Definition s_decode_hex (s : bytes) : hexres := hex_decode s.
  Definition s_encode_hex (bs : bytes) : bytes := mk (hex_encode bs).

  Definition s_from_utf8 (buf : bytes) : option bytes :=
    if utf8_valid buf then Some (mk buf) else None.

  Definition s_from_characters (cs : list bytes) : bytes := mk (concat cs).

  (* --- Character --- *)
  Definition c_mk (raw : bytes) : bytes := nfc raw.
  Definition c_to_string (c : bytes) : bytes := mk c.

  (* --- equality / ordering --- *)
  Definition s_equal (a b : bytes) : bool := bytes_eqb a b.
  Definition s_less (a b : bytes) : bool := bytes_ltb a b.
  Definition s_less_equal (a b : bytes) : bool := negb (bytes_ltb b a).
  Definition s_greater (a b : bytes) : bool := bytes_ltb b a.
  Definition s_greater_equal (a b : bytes) : bool := negb (bytes_ltb a b).

  (* --- StringBuilder: append / appendCharacter / clear / toString / length --- *)
  Inductive sb_op := SbAppend (s : bytes) | SbAppendChar (c : bytes) | SbClear.

  Fixpoint sb_run (ops : list sb_op) (builder : bytes) : bytes :=
    match ops with
    | [] => builder
    | SbAppend s :: r => sb_run r (builder ++ s)
    | SbAppendChar c :: r => sb_run r (builder ++ c)
    | SbClear :: r => sb_run r []
    end.

  Definition sb_to_string (ops : list sb_op) : bytes := mk (sb_run ops []).
  Definition sb_length (ops : list sb_op) : nat := length (sb_run ops []).

End Str.
