(* C19  Specifications: strings as sequences of grapheme clusters; UTF-8 (RFC 3629).
   Definitions only (no proofs).  These are independent of the code-shaped model in Model.v:
   they are structural recursions over the list of clusters. *)
From CV Require Export C19.Model.

(* the cluster sequence of s for a boundary list b = [b0; b1; ...; bn] *)
Fixpoint clusters (s : bytes) (b : list nat) : list bytes :=
  match b with
  | a :: ((e :: _) as r) => sub s a e :: clusters s r
  | _ => []
  end.

(* [aligned_span cl needle = Some m]: the needle is exactly the first m clusters of cl *)
Fixpoint aligned_span (cl : list bytes) (needle : bytes) {struct cl} : option nat :=
  match needle with
  | [] => Some O
  | _ :: _ =>
      match cl with
      | [] => None
      | c :: r => if is_prefix c needle
                  then option_map S (aligned_span r (skipn (length c) needle))
                  else None
      end
  end.

(* index of the first cluster at which the needle occurs aligned to cluster boundaries *)
Fixpoint first_aligned (cl : list bytes) (needle : bytes) : option nat :=
  match cl with
  | [] => None
  | c :: r => match aligned_span cl needle with
              | Some _ => Some O
              | None => option_map S (first_aligned r needle)
              end
  end.

(* indexOf *)
Definition index_spec (cl : list bytes) (needle : bytes) : Z :=
  match needle with
  | [] => 0
  | _ => match first_aligned cl needle with Some i => Z.of_nat i | None => -1 end
  end.

(* number of non-overlapping cluster-aligned occurrences, scanning left to right;
   [skip] clusters still belong to the previous occurrence *)
Fixpoint occs (cl : list bytes) (needle : bytes) (skip : nat) : nat :=
  match cl with
  | [] => O
  | c :: r =>
      match skip with
      | S k => occs r needle k
      | O => match aligned_span cl needle with
             | Some (S m) => S (occs r needle m)
             | _ => occs r needle O
             end
      end
  end.

Definition count_spec (cl : list bytes) (needle : bytes) : nat :=
  match needle with
  | [] => S (length cl)
  | _ => occs cl needle O
  end.

(* split at non-overlapping aligned occurrences of a non-empty separator *)
Fixpoint split_at (cl : list bytes) (sep : bytes) (skip : nat) (cur : bytes) : list bytes :=
  match cl with
  | [] => [cur]
  | c :: r =>
      match skip with
      | S k => split_at r sep k cur
      | O => match aligned_span cl sep with
             | Some (S m) => cur :: split_at r sep m []
             | _ => split_at r sep O (cur ++ c)
             end
      end
  end.

Definition split_spec (cl : list bytes) (sep : bytes) : list bytes :=
  match sep with
  | [] => cl
  | _ => split_at cl sep O []
  end.

Fixpoint replace_at (cl : list bytes) (orig repl : bytes) (skip : nat) : bytes :=
  match cl with
  | [] => []
  | c :: r =>
      match skip with
      | S k => replace_at r orig repl k
      | O => match aligned_span cl orig with
             | Some (S m) => repl ++ replace_at r orig repl m
             | _ => c ++ replace_at r orig repl O
             end
      end
  end.

(* the replaced text before normalisation *)
Definition replace_spec (cl : list bytes) (orig repl : bytes) : bytes :=
  match orig with
  | [] => repl ++ flat_map (fun c => c ++ repl) cl
  | _ => replace_at cl orig repl O
  end.

Fixpoint intercalate (sep : bytes) (l : list bytes) : bytes :=
  match l with
  | [] => []
  | [x] => x
  | x :: r => x ++ sep ++ intercalate sep r
  end.

Definition ascii_lower (c : Z) : Z := if (65 <=? c) && (c <=? 90) then c + 32 else c.
Definition is_ascii (c : Z) : bool := (0 <=? c) && (c <? 128).
Definition is_byte (c : Z) : bool := (0 <=? c) && (c <? 256).

(* boundary lists: 0 = b0 < b1 < ... < bn = n *)
Fixpoint increasing_from (a : nat) (l : list nat) : bool :=
  match l with
  | [] => true
  | e :: r => (a <? e)%nat && increasing_from e r
  end.

Definition valid_bounds (n : nat) (b : list nat) : bool :=
  match b with
  | O :: r => increasing_from O r && (last b O =? n)%nat
  | _ => false
  end.

(* ---------- UTF-8, RFC 3629 ---------- *)

Definition is_scalar (c : Z) : bool :=
  ((0 <=? c) && (c <? 55296)) || ((57344 <=? c) && (c <=? 1114111)).

Definition enc1 (c : Z) : bytes :=
  if c <? 128 then [c]
  else if c <? 2048 then [192 + c / 64; 128 + c mod 64]
  else if c <? 65536 then [224 + c / 4096; 128 + (c / 64) mod 64; 128 + c mod 64]
  else [240 + c / 262144; 128 + (c / 4096) mod 64; 128 + (c / 64) mod 64; 128 + c mod 64].

Definition utf8_enc (cps : list Z) : bytes := flat_map enc1 cps.

(* decoder with the same acceptance table as utf8.Valid *)
Fixpoint utf8_dec (p : bytes) : option (list Z) :=
  match p with
  | [] => Some []
  | pi :: r =>
      if pi <? 128 then option_map (cons pi) (utf8_dec r)
      else match first_info pi with
           | None => None
           | Some (size, lo, hi) =>
               match size, r with
               | 2%nat, c1 :: r' =>
                   if in_rng lo hi c1
                   then option_map (cons ((pi - 192) * 64 + (c1 - 128))) (utf8_dec r')
                   else None
               | 3%nat, c1 :: c2 :: r' =>
                   if in_rng lo hi c1 && is_cont c2
                   then option_map (cons ((pi - 224) * 4096 + (c1 - 128) * 64 + (c2 - 128))) (utf8_dec r')
                   else None
               | 4%nat, c1 :: c2 :: c3 :: r' =>
                   if in_rng lo hi c1 && is_cont c2 && is_cont c3
                   then option_map (cons ((pi - 240) * 262144 + (c1 - 128) * 4096 + (c2 - 128) * 64 + (c3 - 128)))
                                   (utf8_dec r')
                   else None
               | _, _ => None
               end
           end
  end.

(* code point order *)
Fixpoint cps_ltb (a b : list Z) : bool :=
  match a, b with
  | _, [] => false
  | [], _ :: _ => true
  | x :: a', y :: b' => if x <? y then true else if y <? x then false else cps_ltb a' b'
  end.

(* indexing and slicing of the cluster sequence: fail exactly for out-of-range or reversed bounds
   (and, before that, for indices outside the range of a Go int) *)
Definition get_spec (cl : list bytes) (i : Z) : res bytes :=
  if (i <? - 2 ^ 63) || (2 ^ 63 <=? i) then Err Overflow
  else if (i <? 0) || (Z.of_nat (length cl) <=? i) then Err IndexOOB
  else Ok (nth (Z.to_nat i) cl []).

Definition slice_spec (cl : list bytes) (from to : Z) : res bytes :=
  let n := Z.of_nat (length cl) in
  if (from <? 0) || (n <? from) || (to <? 0) || (n <? to) then Err IndexOOB
  else if to <? from then Err UserOther
  else Ok (concat (firstn (Z.to_nat (to - from)) (skipn (Z.to_nat from) cl))).

Definition Slice_spec (cl : list bytes) (from to : Z) : res bytes :=
  if (from <? - 2 ^ 63) || (2 ^ 63 <=? from) || (to <? - 2 ^ 63) || (2 ^ 63 <=? to) then Err Overflow
  else slice_spec cl from to.

(* ---------- hypotheses on the external oracles (uniseg, norm) ---------- *)
Section Hyp.
  Variable nfc : bytes -> bytes.
  Variable B : bytes -> list nat.

  (* the cluster sequence of a string *)
  Definition cl_of (s : bytes) : list bytes := clusters s (B s).

  (* uniseg visits boundaries 0 = b0 < b1 < ... < bn = len(s) *)
  Definition wf (s : bytes) : Prop := valid_bounds (length s) (B s) = true.

  (* a string is "stable" when every run of consecutive clusters of it, taken as a string of its
     own, is in NFC and is segmented into the same clusters (the harness checks this for every
     generated string with the real uniseg / norm) *)
  Definition stable (s : bytes) : Prop :=
    forall i m, let x := concat (firstn m (skipn i (cl_of s))) in
                wf x /\ nfc x = x /\ cl_of x = firstn m (skipn i (cl_of s)).
End Hyp.
