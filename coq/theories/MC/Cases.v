(* Check functions for the per-run correspondence case files of C52 / C34:
   a generated program (as a MiniCadence term) together with what the real engines produced. *)
From CV Require Export MC.Interp.

(* exported (heap-free) values, as the harness renders cadence.Value *)
Inductive xval :=
| XInt (z : Z) | XBool (b : bool) | XStr (s : list Z) | XNil | XSome (x : xval) | XVoid
| XArr (l : list xval) | XDict (l : list (xval * xval)) | XStruct (sid : nat) (l : list xval)
| XOpaque.

Fixpoint export (n : nat) (h : heap) (v : val) : xval :=
  match n with
  | O => XOpaque
  | S n' =>
    match v with
    | VInt z => XInt z
    | VBool b => XBool b
    | VStr s => XStr s
    | VNil => XNil
    | VSome w => XSome (export n' h w)
    | VVoid => XVoid
    | VRef a =>
      match nth_error h a with
      | Some (CArr l) => XArr (map (export n' h) l)
      | Some (CDict l) => XDict (map (fun kv => (export n' h (fst kv), export n' h (snd kv))) l)
      | Some (CStruct sid l) => XStruct sid (map (export n' h) l)
      | None => XOpaque
      end
    | _ => XOpaque
    end
  end.

Section xeq.
  Variable xeq : xval -> xval -> bool.
  Fixpoint xlist_eqb (a b : list xval) : bool :=
    match a, b with
    | [], [] => true
    | x :: a', y :: b' => xeq x y && xlist_eqb a' b'
    | _, _ => false
    end.
  Fixpoint xfind (k : xval) (l : list (xval * xval)) : option xval :=
    match l with
    | [] => None
    | (k', v) :: r => if xeq k' k then Some v else xfind k r
    end.
  Fixpoint xsub (a b : list (xval * xval)) : bool :=
    match a with
    | [] => true
    | (k, v) :: r => match xfind k b with Some w => xeq v w | None => false end && xsub r b
    end.
End xeq.

(* dictionaries are compared as finite maps (entry order is not an observable) *)
Fixpoint xval_eqb (n : nat) (a b : xval) : bool :=
  match n with
  | O => false
  | S n' =>
    match a, b with
    | XInt x, XInt y => x =? y
    | XBool x, XBool y => Bool.eqb x y
    | XStr x, XStr y => zlist_eqb x y
    | XNil, XNil => true
    | XVoid, XVoid => true
    | XSome x, XSome y => xval_eqb n' x y
    | XArr x, XArr y => xlist_eqb (xval_eqb n') x y
    | XStruct s x, XStruct t y => Nat.eqb s t && xlist_eqb (xval_eqb n') x y
    | XDict x, XDict y => Nat.eqb (length x) (length y) && xsub (xval_eqb n') x y && xsub (xval_eqb n') y x
    | _, _ => false
    end
  end.

Definition xeq := xval_eqb 64.

Definition init_st : st := mkSt [] [].

(* run `main` (function 0) *)
Definition run_interp (P : program) (fuel : nat) : M val :=
  eval P false fuel (ECall (FnUser 0) ENone) [] init_st.

Definition xres_eqb (a b : res xval) : bool :=
  match a, b with
  | Ok x, Ok y => xeq x y
  | Err e, Err f => err_eqb e f
  | _, _ => false
  end.

(* outcome of the model in exported form: result (value or error class) and the log trace *)
Definition model_outcome (P : program) (fuel : nat) : res xval * list xval :=
  let '(r, s) := run_interp P fuel in
  (match r with Ok v => Ok (export 64 (hp s) v) | Err e => Err e end,
   map (export 64 (hp s)) (tr s)).

Definition obs := (res xval * list xval)%type.

Definition obs_eqb (a b : obs) : bool :=
  xres_eqb (fst a) (fst b) && xlist_eqb xeq (snd a) (snd b).

Definition model_fuel : nat := 3000%nat.

(* C52 case: program, what the interpreter produced, what the VM produced *)
Definition check_c52 (c : program * obs * obs) : bool :=
  let '(P, oi, ov) := c in
  let m := model_outcome P model_fuel in
  obs_eqb m oi && obs_eqb m ov.
