(* C34: correctness of the MiniCadence compiler: the VM running the compiled program produces the
   outcome of the (language-definition) interpreter: same result value or error, same final heap, same
   log trace. *)
From CV Require Import MC.VM MC.SimBase MC.SimDefs MC.SimExpr MC.SimExprProof MC.SimStmtBase MC.SimStmtProof.
From Coq Require Import Lia.
Local Open Scope nat_scope.
Arguments bindM {A B} m f : simpl nomatch.

Section correct.
  Variable P : program.
  Notation C := (compile P).

  Lemma sim_zero : sim_all P true 0.
  Proof.
    unfold sim_all. split; [|split; [|split; [|split]]].
    - intros e r s res s' ce pc nx code nx' fn stk loc fs its H. simpl in H. inversion H; subst.
      intros _ _ _ _ [_ G]. congruence.
    - intros es lit r s res s' ce pc nx code nx' fn stk loc fs its H. simpl in H. inversion H; subst.
      intros _ _ _ _ [_ G]. congruence.
    - intros c r s res s' cx ce pc nx code ce' nx' fn stk loc fs its H. simpl in H. inversion H; subst.
      intros _ _ _ _ _ [_ G]. congruence.
    - intros b r s res s' cx ce pc nx code nx' fn stk loc fs its H. simpl in H. inversion H; subst.
      intros _ _ _ _ _ [_ G]. congruence.
    - intros b r s res s' cx ce pc nx code nx' fn stk loc fs its H. simpl in H. inversion H; subst.
      intros _ _ _ _ _ [_ G]. congruence.
  Qed.

  Lemma sim_below : forall n m, m <= n -> sim_all P true m.
  Proof.
    induction n as [|n IH]; intros m Hm.
    - replace m with 0 by lia. apply sim_zero.
    - destruct (Nat.eq_dec m (S n)) as [->|Hne]; [|apply IH; lia].
      repeat split.
      + apply esim_step. apply IH. lia.
      + apply essim_step. apply IH. lia.
      + apply ssim_step. exact IH.
      + apply bsim_step. exact IH.
      + apply blsim_step. exact IH.
  Qed.

  Theorem sim_holds : forall n, sim_all P true n.
  Proof. intros n. apply (sim_below n n). lia. Qed.

  (* from multi-step executions to the fuel-driven run function *)
  Lemma steps_run s s1 : steps P s s1 -> forall k r sx, run C k s1 = (r, sx) -> exists k', run C k' s = (r, sx).
  Proof.
    induction 1 as [s|s s2 s3 Hs _ IH]; intros k r sx Hr.
    - eauto.
    - destruct (IH _ _ _ Hr) as [k' Hk']. exists (S k'). simpl. now rewrite Hs.
  Qed.

  Lemma done_run s r sx : step C s = Done r sx -> run C 1 s = (r, sx).
  Proof. intros H. simpl. now rewrite H. Qed.

  (* the interpreter of the language definition, started on `main` *)
  Definition run_def (fuel : nat) : res val * st :=
    eval P true fuel (ECall (FnUser 0) ENone) [] (mkSt [] []).

  Definition acceptable (r : res val) : Prop :=
    match r with Ok _ => True | Err e => e <> Internal /\ e <> OutOfFuel end.

  Lemma eval_main_unfold n :
    eval P true (S n) (ECall (FnUser 0) ENone) [] (mkSt [] []) =
    (do vs <- evals P true n ENone false [] (mkSt [] []); s =>
     match nth_error P 0 with
     | Some fd =>
       if Nat.eqb (length (fn_params fd)) (length (boxes [] vs)) then
         match exec_stmts P true n (fn_body fd) (bind_params (fn_params fd) (boxes [] vs) []) s with
         | (Ok (OReturn v, _), s') => ret v s'
         | (Ok (ONormal, _), s') => ret VVoid s'
         | (Ok (_, _), s') => fail Internal s'
         | (Err e, s') => fail e s'
         end
       else fail Internal s
     | None => fail Internal s
     end).
  Proof. reflexivity. Qed.

  Theorem compile_correct_run : forall fuel res s',
    run_def fuel = (res, s') -> acceptable res ->
    exists k, run_vm C k = (res, s').
  Proof.
    intros fuel res s' Hr Hacc. unfold run_def in Hr.
    destruct fuel as [|n].
    { simpl in Hr. unfold fail in Hr. inversion Hr; subst. cbv [acceptable] in Hacc. exfalso. apply (proj2 Hacc). reflexivity. }
    rewrite eval_main_unfold in Hr.
    destruct n as [|m].
    { simpl in Hr. unfold fail in Hr. rewrite ?bind_err in Hr. inversion Hr; subst. cbv [acceptable] in Hacc.
      exfalso. apply (proj2 Hacc). reflexivity. }
    change (evals P true (S m) ENone false [] (mkSt [] [])) with (@Ok (list val) [], mkSt [] []) in Hr.
    rewrite bind_ok in Hr. cbn [boxes] in Hr.
    destruct (nth_error P 0) as [fd|] eqn:Hfd; [|rewrite ?bind_err in Hr; unfold fail in Hr; inversion Hr; subst; cbv [acceptable] in Hacc; exfalso; first [apply (proj2 Hacc); reflexivity | apply (proj1 Hacc); reflexivity]].
    destruct (Nat.eqb (length (fn_params fd)) (length (@nil val))) eqn:Hn;
      [|rewrite ?bind_err in Hr; unfold fail in Hr; inversion Hr; subst; cbv [acceptable] in Hacc; exfalso; first [apply (proj2 Hacc); reflexivity | apply (proj1 Hacc); reflexivity]].
    apply Nat.eqb_eq in Hn. simpl in Hn.
    destruct (fn_params fd) as [|p ps] eqn:Hps; [|discriminate].
    pose proof (code_of_fun P _ _ Hfd) as HC. unfold compile_fun in HC. rewrite Hps in HC. cbn [length param_env] in HC.
    destruct (compile_b (mkCtx 0 0 []) [] 0 0 (fn_body fd)) as [cbody nxf] eqn:Cb.
    assert (Hcode : code_at (code_of C 0) 0 cbody).
    { unfold code_of. rewrite HC. cbn [cf_code].
      destruct (ends_with_return (fn_body fd)); [apply code_at_self|apply code_at_prefix]. }
    destruct (sim_holds (S m)) as (_ & _ & _ & Hb & _).
    simpl bind_params in Hr.
    destruct (exec_stmts P true (S m) (fn_body fd) [] (mkSt [] [])) as [[[o rb]|er] s2] eqn:Eb.
    - pose proof (Hb _ _ _ _ _ (mkCtx 0 0 []) [] 0 0 cbody nxf 0 [] [] [] [] Eb Cb Hcode I I
                     ltac:(intros it [])) as SB.
      cbn beta iota in SB. unfold run_vm.
      destruct o; try (unfold fail in Hr; inversion Hr; subst; cbv [acceptable] in Hacc; exfalso; first [apply (proj2 Hacc); reflexivity | apply (proj1 Hacc); reflexivity]).
      + (* main falls off its end *)
        inversion Hr; subst; clear Hr.
        destruct SB as (loc' & its' & ce2 & St & _ & _).
        assert (Hret : nth_error (code_of C 0) (length cbody) = Some IReturn).
        { unfold code_of. rewrite HC. cbn [cf_code]. rewrite (ends_normal _ _ _ _ _ _ _ _ Eb).
          rewrite nth_error_app2 by lia. now rewrite Nat.sub_diag. }
        eapply steps_run; [exact St|]. apply done_run.
        exact (return_step P 0 (0 + length cbody) [] loc' [] s' its' Hret).
      + inversion Hr; subst; clear Hr.
        destruct SB as (sa & itsa & St & Hs & _).
        eapply steps_run; [exact St|]. apply done_run. exact Hs.
    - inversion Hr; subst; clear Hr.
      pose proof (Hb _ _ _ _ _ (mkCtx 0 0 []) [] 0 0 cbody nxf 0 [] [] [] [] Eb Cb Hcode I I
                     ltac:(intros it [])) as SB.
      cbn beta iota in SB. destruct (SB Hacc) as (s1 & St & Hd).
      unfold run_vm. eapply steps_run; [exact St|]. apply done_run. exact Hd.
  Qed.
End correct.

(* more fuel does not change a finished run of the VM *)
Lemma run_mono C : forall k s r sx, run C k s = (r, sx) -> r <> Err OutOfFuel -> forall j, run C (k + j) s = (r, sx).
Proof.
  induction k as [|k IH]; intros s r sx H Hn j.
  - simpl in H. inversion H; subst. congruence.
  - simpl in H |- *. destruct (step C s) as [s1|r1 sx1]; [now apply IH|exact H].
Qed.
