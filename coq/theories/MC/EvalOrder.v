(* C52: evaluation order and short-circuiting -- trace equations derived from the interpreter model.
   All statements quantify over every program, expression, environment, heap and fuel. *)
From CV Require Import MC.Interp MC.Frame.

Section order.
  Variable P : program.
  Variable strict : bool.

  Notation eval := (eval P strict).
  Notation evals := (evals P strict).
  Notation eval_target := (eval_target P strict).
  Notation exec := (exec P strict).

  (* ---------------------------------------------------------------- outputs *)

  (* the state with the same heap and an empty log *)
  Definition fresh (s : st) : st := mkSt (hp s) [].

  Lemma st_app_fresh s : st_app (tr s) (fresh s) = s.
  Proof. destruct s; unfold st_app, fresh; simpl. now rewrite app_nil_r. Qed.

  (* the log output of evaluating e in environment r on heap h *)
  Definition out_e (n : nat) (e : expr) (r : env) (h : heap) : list val :=
    tr (snd (eval n e r (mkSt h []))).
  Definition out_es (n : nat) (es : exprs) (bx : bool) (r : env) (h : heap) : list val :=
    tr (snd (evals n es bx r (mkSt h []))).
  Definition out_t (n : nat) (t : target) (r : env) (h : heap) : list val :=
    tr (snd (eval_target n t r (mkSt h []))).
  Definition out_s (n : nat) (c : stmt) (r : env) (h : heap) : list val :=
    tr (snd (exec n c r (mkSt h []))).

  (* a run from any state = the run from the empty log, with the old log in front *)
  Lemma eval_fresh n e r s : eval n e r s = fr (tr s) (eval n e r (fresh s)).
  Proof. rewrite <- (proj1 (frame P strict n)). now rewrite st_app_fresh. Qed.
  Lemma evals_fresh n es bx r s : evals n es bx r s = fr (tr s) (evals n es bx r (fresh s)).
  Proof. rewrite <- (proj1 (proj2 (frame P strict n))). now rewrite st_app_fresh. Qed.
  Lemma target_fresh n t r s : eval_target n t r s = fr (tr s) (eval_target n t r (fresh s)).
  Proof. rewrite <- (proj1 (proj2 (proj2 (frame P strict n)))). now rewrite st_app_fresh. Qed.
  Lemma exec_fresh n c r s : exec n c r s = fr (tr s) (exec n c r (fresh s)).
  Proof. rewrite <- (proj1 (proj2 (proj2 (proj2 (frame P strict n))))). now rewrite st_app_fresh. Qed.

  (* the log only grows, by exactly the output of the evaluated expression *)
  Theorem eval_trace n e r s :
    tr (snd (eval n e r s)) = tr s ++ out_e n e r (hp s).
  Proof. rewrite eval_fresh. reflexivity. Qed.

  Theorem evals_trace n es bx r s :
    tr (snd (evals n es bx r s)) = tr s ++ out_es n es bx r (hp s).
  Proof. rewrite evals_fresh. reflexivity. Qed.

  Theorem target_trace n t r s :
    tr (snd (eval_target n t r s)) = tr s ++ out_t n t r (hp s).
  Proof. rewrite target_fresh. reflexivity. Qed.

  Theorem exec_trace n c r s :
    tr (snd (exec n c r s)) = tr s ++ out_s n c r (hp s).
  Proof. rewrite exec_fresh. reflexivity. Qed.

  (* result and final heap do not depend on what was logged before *)
  Theorem eval_result_frame n e r s :
    fst (eval n e r s) = fst (eval n e r (fresh s)) /\
    hp (snd (eval n e r s)) = hp (snd (eval n e r (fresh s))).
  Proof. rewrite eval_fresh. split; reflexivity. Qed.

  (* helper: one step of sequencing at the level of outputs *)
  Lemma bind_out {A B} (m : M A) (f : A -> st -> M B) :
    tr (snd (bindM m f)) =
    match m with
    | (Ok a, s1) => tr (snd (f a s1))
    | (Err _, s1) => tr s1
    end.
  Proof. unfold bindM. destruct m as [[a|e] s1]; reflexivity. Qed.

  (* ---------------------------------------------------------------- strict binary operators *)

  (* e1 (+) e2: output of e1, then output of e2 on the heap e1 left; if e1 fails, nothing of e2 *)
  Theorem bin_trace n op a b r h :
    out_e (S n) (EBin op a b) r h =
    match eval n a r (mkSt h []) with
    | (Ok _, s1) => out_e n a r h ++ out_e n b r (hp s1)
    | (Err _, _) => out_e n a r h
    end.
  Proof.
    unfold out_e. simpl. rewrite bind_out.
    destruct (eval n a r (mkSt h [])) as [[va|e] s1] eqn:Ea; simpl; [|reflexivity].
    rewrite bind_out.
    pose proof (eval_trace n b r s1) as Hb. unfold out_e in Hb.
    destruct (eval n b r s1) as [[vb|e] s2] eqn:Eb; simpl in *; exact Hb.
  Qed.

  (* the operator itself is applied only after both operands, and an operand error wins *)
  Theorem bin_result n op a b r s :
    eval (S n) (EBin op a b) r s =
    match eval n a r s with
    | (Ok va, s1) =>
      match eval n b r s1 with
      | (Ok vb, s2) => (binop_apply op va vb, s2)
      | (Err e, s2) => (Err e, s2)
      end
    | (Err e, s1) => (Err e, s1)
    end.
  Proof.
    simpl. unfold bindM, lift.
    destruct (eval n a r s) as [[va|e] s1]; [|reflexivity].
    destruct (eval n b r s1) as [[vb|e] s2]; reflexivity.
  Qed.

  (* ---------------------------------------------------------------- && and || *)

  Theorem and_trace n a b r h :
    out_e (S n) (EAnd a b) r h =
    match eval n a r (mkSt h []) with
    | (Ok (VBool true), s1) => out_e n a r h ++ out_e n b r (hp s1)
    | _ => out_e n a r h
    end.
  Proof.
    unfold out_e. simpl. rewrite bind_out.
    destruct (eval n a r (mkSt h [])) as [[va|e] s1] eqn:Ea; simpl; [|reflexivity].
    destruct va; try reflexivity. destruct b0; [|reflexivity].
    rewrite bind_out.
    pose proof (eval_trace n b r s1) as Hb. unfold out_e in Hb.
    destruct (eval n b r s1) as [[vb|e] s2] eqn:Eb; simpl in *; [|exact Hb].
    destruct vb; exact Hb.
  Qed.

  Theorem or_trace n a b r h :
    out_e (S n) (EOr a b) r h =
    match eval n a r (mkSt h []) with
    | (Ok (VBool false), s1) => out_e n a r h ++ out_e n b r (hp s1)
    | _ => out_e n a r h
    end.
  Proof.
    unfold out_e. simpl. rewrite bind_out.
    destruct (eval n a r (mkSt h [])) as [[va|e] s1] eqn:Ea; simpl; [|reflexivity].
    destruct va; try reflexivity. destruct b0; [reflexivity|].
    rewrite bind_out.
    pose proof (eval_trace n b r s1) as Hb. unfold out_e in Hb.
    destruct (eval n b r s1) as [[vb|e] s2] eqn:Eb; simpl in *; [|exact Hb].
    destruct vb; exact Hb.
  Qed.

  (* the right operand of && runs exactly when the left one is true: otherwise the state is
     the one the left operand left (not only the log: nothing at all was evaluated) *)
  Theorem and_short_circuit n a b r s s1 :
    eval n a r s = (Ok (VBool false), s1) ->
    eval (S n) (EAnd a b) r s = (Ok (VBool false), s1).
  Proof. intros H. simpl. unfold bindM. now rewrite H. Qed.

  Theorem and_evaluates_right n a b r s s1 :
    eval n a r s = (Ok (VBool true), s1) ->
    eval (S n) (EAnd a b) r s =
    match eval n b r s1 with
    | (Ok (VBool vb), s2) => (Ok (VBool vb), s2)
    | (Ok _, s2) => (Err Internal, s2)
    | (Err e, s2) => (Err e, s2)
    end.
  Proof.
    intros H. simpl. unfold bindM. rewrite H.
    destruct (eval n b r s1) as [[vb|e] s2]; [|reflexivity]. destruct vb; reflexivity.
  Qed.

  Theorem or_short_circuit n a b r s s1 :
    eval n a r s = (Ok (VBool true), s1) ->
    eval (S n) (EOr a b) r s = (Ok (VBool true), s1).
  Proof. intros H. simpl. unfold bindM. now rewrite H. Qed.

  Theorem or_evaluates_right n a b r s s1 :
    eval n a r s = (Ok (VBool false), s1) ->
    eval (S n) (EOr a b) r s =
    match eval n b r s1 with
    | (Ok (VBool vb), s2) => (Ok (VBool vb), s2)
    | (Ok _, s2) => (Err Internal, s2)
    | (Err e, s2) => (Err e, s2)
    end.
  Proof.
    intros H. simpl. unfold bindM. rewrite H.
    destruct (eval n b r s1) as [[vb|e] s2]; [|reflexivity]. destruct vb; reflexivity.
  Qed.

  (* ---------------------------------------------------------------- conditional *)

  Theorem cond_trace n c a b r h :
    out_e (S n) (ECond c a b) r h =
    match eval n c r (mkSt h []) with
    | (Ok (VBool true), s1) => out_e n c r h ++ out_e n a r (hp s1)
    | (Ok (VBool false), s1) => out_e n c r h ++ out_e n b r (hp s1)
    | _ => out_e n c r h
    end.
  Proof.
    unfold out_e. simpl. rewrite bind_out.
    destruct (eval n c r (mkSt h [])) as [[vc|e] s1] eqn:Ec; simpl; [|reflexivity].
    destruct vc; try reflexivity. destruct b0.
    - apply (eval_trace n a r s1).
    - apply (eval_trace n b r s1).
  Qed.

  Theorem cond_selects n c a b r s s1 (t : bool) :
    eval n c r s = (Ok (VBool t), s1) ->
    eval (S n) (ECond c a b) r s = eval n (if t then a else b) r s1.
  Proof. intros H. simpl. unfold bindM. rewrite H. destruct t; reflexivity. Qed.

  (* ---------------------------------------------------------------- ?? *)

  Theorem coalesce_some n a b c r s s1 v :
    eval n a r s = (Ok (VSome v), s1) ->
    eval (S n) (ECoalesce a b c) r s = (Ok (box c v), s1).
  Proof. intros H. simpl. unfold bindM. now rewrite H. Qed.

  Theorem coalesce_nil n a b c r s s1 :
    eval n a r s = (Ok VNil, s1) ->
    eval (S n) (ECoalesce a b c) r s =
    match eval n b r s1 with
    | (Ok vb, s2) => (Ok (box c vb), s2)
    | (Err e, s2) => (Err e, s2)
    end.
  Proof.
    intros H. simpl. unfold bindM. rewrite H. simpl. rewrite andb_false_r.
    destruct (eval n b r s1) as [[vb|e] s2]; reflexivity.
  Qed.

  (* whether the right operand of `??` ran, judged by the final state *)
  Definition rhs_not_run n (a b : expr) c r s : Prop :=
    forall va s1, eval n a r s = (Ok va, s1) -> snd (eval (S n) (ECoalesce a b c) r s) = s1.

  (* partial: under the guard that the left value is an optional (Some or nil), the right
     operand is not evaluated when the left value is not nil *)
  Theorem coalesce_partial n a b c r s va s1 :
    eval n a r s = (Ok va, s1) ->
    is_optional va = true ->
    va <> VNil ->
    eval (S n) (ECoalesce a b c) r s = (Ok (box c (match va with VSome v => v | _ => va end)), s1).
  Proof.
    intros H Ho Hn. destruct va; try discriminate; [congruence|].
    now apply coalesce_some.
  Qed.

  (* ---------------------------------------------------------------- ?. *)

  Theorem optmember_nil n a f r s s1 :
    eval n a r s = (Ok VNil, s1) ->
    eval (S n) (EOptMember a f) r s = (Ok VNil, s1).
  Proof. intros H. simpl. unfold bindM. now rewrite H. Qed.

  Theorem optmember_some n a f r s s1 w :
    eval n a r s = (Ok (VSome w), s1) ->
    eval (S n) (EOptMember a f) r s =
    match get_field (hp s1) w f with
    | Ok v => (Ok (wrap true v), s1)
    | Err e => (Err e, s1)
    end.
  Proof.
    intros H. simpl. unfold bindM, lift. rewrite H.
    destruct (get_field (hp s1) w f); reflexivity.
  Qed.

  (* ---------------------------------------------------------------- lists: arguments, array and dictionary entries *)

  Theorem exprs_trace n e c rest bx r h :
    out_es (S n) (EMore e c rest) bx r h =
    match eval n e r (mkSt h []) with
    | (Ok v, s1) =>
      match tconv (if bx then c else O) v s1 with
      | (Ok _, s2) => out_e n e r h ++ out_es n rest bx r (hp s2)
      | (Err _, _) => out_e n e r h
      end
    | (Err _, _) => out_e n e r h
    end.
  Proof.
    unfold out_es, out_e. simpl. rewrite bind_out.
    destruct (eval n e r (mkSt h [])) as [[v|er] s1] eqn:Ee; simpl; [|reflexivity].
    rewrite bind_out.
    assert (Ht : forall d, tr (snd (tconv d v s1)) = tr s1).
    { intros d. unfold tconv. destruct (copy v (hp s1)) as [[v' h']|]; reflexivity. }
    specialize (Ht (if bx then c else O)).
    destruct (tconv (if bx then c else O) v s1) as [[v'|er] s2] eqn:Et; simpl in *; [|exact Ht].
    rewrite bind_out.
    pose proof (evals_trace n rest bx r s2) as Hr. unfold out_es in Hr. rewrite Ht in Hr.
    destruct (evals n rest bx r s2) as [[vs|er] s3]; simpl in *; exact Hr.
  Qed.

  (* an array literal logs what its entries log, in order, and nothing else *)
  Theorem arr_trace n es r h : out_e (S n) (EArr es) r h = out_es n es true r h.
  Proof.
    unfold out_e, out_es. simpl. rewrite bind_out.
    destruct (evals n es true r (mkSt h [])) as [[vs|e] s1]; reflexivity.
  Qed.

  Theorem dict_trace n es r h : out_e (S n) (EDict es) r h = out_es n es true r h.
  Proof.
    unfold out_e, out_es. simpl. rewrite bind_out.
    destruct (evals n es true r (mkSt h [])) as [[vs|e] s1]; [|reflexivity].
    simpl. destruct (dict_of vs []); reflexivity.
  Qed.

  (* a native call (log, probe, constructor) logs its arguments' output first *)
  Theorem call_args_first n f args r h :
    exists tail, out_e (S n) (ECall f args) r h = out_es n args false r h ++ tail.
  Proof.
    unfold out_e, out_es. simpl. rewrite bind_out.
    destruct (evals n args false r (mkSt h [])) as [[vs|e] s1] eqn:Ea; simpl.
    2:{ exists []. now rewrite app_nil_r. }
    set (vs' := boxes (convs_of args) vs).
    assert (Hx : forall (m : M val), (exists t, tr (snd m) = tr s1 ++ t) -> exists tail, tr (snd m) = tr s1 ++ tail) by auto.
    destruct f.
    - destruct (nth_error P n0) as [fd|]; [|exists []; simpl; now rewrite app_nil_r].
      destruct (Nat.eqb (length (fn_params fd)) (length vs')); [|exists []; simpl; now rewrite app_nil_r].
      pose proof (proj1 (proj2 (proj2 (proj2 (proj2 (frame P strict n))))) (fn_body fd)
                        (bind_params (fn_params fd) vs' []) (fresh s1) (tr s1)) as Hf.
      rewrite st_app_fresh in Hf. rewrite Hf. unfold fr.
      destruct (exec_stmts P strict n (fn_body fd) (bind_params (fn_params fd) vs' []) (fresh s1))
        as [[[o r1]|e] s2]; simpl.
      + destruct o; eexists; reflexivity.
      + eexists; reflexivity.
    - unfold native_apply. destruct vs' as [|v [|w t]]; simpl; try (exists []; now rewrite app_nil_r).
      eexists; reflexivity.
    - unfold native_apply. destruct vs' as [|v [|w [|x t]]]; simpl; try (exists []; now rewrite app_nil_r).
      eexists; reflexivity.
    - unfold native_apply. simpl. exists []. now rewrite app_nil_r.
  Qed.

  (* ---------------------------------------------------------------- assignment *)

  Lemma exec_assign_unfold n t cv e r s :
    exec (S n) (SAssign t cv e) r s =
    (do g <- eval_target n t r s; s =>
     do v <- eval n e r s; s =>
     do v' <- tconv cv v s; s =>
     do r' <- gs_set g v' r s; s =>
     ret (ONormal, r') s).
  Proof. reflexivity. Qed.

  Lemma target_index_unfold n a i r s :
    eval_target (S n) (TIndex a i) r s =
    (do va <- eval n a r s; s =>
     do vi <- eval n i r s; s =>
     do vi' <- tconv O vi s; s =>
     ret (GIndex va vi') s).
  Proof. reflexivity. Qed.

  Lemma target_member_unfold n a f r s :
    eval_target (S n) (TMember a f) r s =
    (do va <- eval n a r s; s => ret (GMember va f) s).
  Proof. reflexivity. Qed.

  Lemma exec_swap_unfold n t1 t2 cv r s :
    exec (S n) (SSwap t1 t2 cv) r s =
    (do g1 <- eval_target n t1 r s; s =>
     do g2 <- eval_target n t2 r s; s =>
     do lp <- gs_get_swap g1 r s; s =>
     do rp <- gs_get_swap g2 r s; s =>
     let '(l, lph) := lp in
     let '(rv, _) := rp in
     if lph && is_ph rv then
       do r' <- gs_set g1 l r s; s => ret (ONormal, r') s
     else
       do rv' <- tconv cv rv s; s =>
       do l' <- tconv cv l s; s =>
       do r1 <- gs_set g1 rv' r s; s =>
       do r2 <- gs_set g2 l' r1 s; s =>
       ret (ONormal, r2) s).
  Proof. reflexivity. Qed.

  (* a[i] = e : a, then i, then e; the set (and its bounds check) comes last *)
  Theorem assign_index_order n a i cv e r s :
    exec (S (S n)) (SAssign (TIndex a i) cv e) r s =
    match eval n a r s with
    | (Ok va, s1) =>
      match eval n i r s1 with
      | (Ok vi, s2) =>
        match tconv O vi s2 with
        | (Ok vi', s3) =>
          match eval (S n) e r s3 with
          | (Ok v, s4) =>
            match tconv cv v s4 with
            | (Ok v', s5) =>
              match set_index (hp s5) va vi' v' with
              | Ok h' => (Ok (ONormal, r), with_hp s5 h')
              | Err er => (Err er, s5)
              end
            | (Err er, s5) => (Err er, s5)
            end
          | (Err er, s4) => (Err er, s4)
          end
        | (Err er, s3) => (Err er, s3)
        end
      | (Err er, s2) => (Err er, s2)
      end
    | (Err er, s1) => (Err er, s1)
    end.
  Proof.
    rewrite exec_assign_unfold, target_index_unfold. unfold bindM, ret, fail.
    destruct (eval n a r s) as [[va|er] s1]; [|reflexivity].
    destruct (eval n i r s1) as [[vi|er] s2]; [|reflexivity].
    destruct (tconv O vi s2) as [[vi'|er] s3]; [|reflexivity].
    destruct (eval (S n) e r s3) as [[v|er] s4]; [|reflexivity].
    destruct (tconv cv v s4) as [[v'|er] s5]; [|reflexivity].
    unfold gs_set, ret, fail.
    destruct (set_index (hp s5) va vi' v'); reflexivity.
  Qed.

  (* in terms of logs: target, index, value -- also when the set itself fails afterwards *)
  Theorem assign_index_trace n a i cv e r h :
    out_s (S (S n)) (SAssign (TIndex a i) cv e) r h =
    match eval n a r (mkSt h []) with
    | (Ok va, s1) =>
      match eval n i r s1 with
      | (Ok vi, s2) =>
        match tconv O vi s2 with
        | (Ok _, s3) => out_e n a r h ++ out_e n i r (hp s1) ++ out_e (S n) e r (hp s3)
        | (Err _, _) => out_e n a r h ++ out_e n i r (hp s1)
        end
      | (Err _, _) => out_e n a r h ++ out_e n i r (hp s1)
      end
    | (Err _, _) => out_e n a r h
    end.
  Proof.
    unfold out_s. rewrite assign_index_order.
    assert (Ht : forall d v s, tr (snd (tconv d v s)) = tr s).
    { intros d v s. unfold tconv. destruct (copy v (hp s)) as [[v' h']|]; reflexivity. }
    assert (Ea : tr (snd (eval n a r (mkSt h []))) = out_e n a r h) by reflexivity.
    destruct (eval n a r (mkSt h [])) as [[va|er] s1]; cbn [snd fst] in *; [|exact Ea].
    pose proof (eval_trace n i r s1) as Hi.
    destruct (eval n i r s1) as [[vi|er] s2]; cbn [snd fst] in *; [|now rewrite Hi, Ea].
    pose proof (Ht O vi s2) as Ht1.
    destruct (tconv O vi s2) as [[vi'|er] s3]; cbn [snd fst] in *; [|now rewrite Ht1, Hi, Ea].
    pose proof (eval_trace (S n) e r s3) as He.
    destruct (Interp.eval P strict (S n) e r s3) as [[v|er] s4]; cbn [snd fst] in *.
    2:{ rewrite He, Ht1, Hi, Ea. now rewrite app_assoc. }
    pose proof (Ht cv v s4) as Ht2.
    destruct (tconv cv v s4) as [[v'|er] s5]; cbn [snd fst] in *.
    2:{ rewrite Ht2, He, Ht1, Hi, Ea. now rewrite app_assoc. }
    destruct (set_index (hp s5) va vi' v'); cbn [snd fst tr with_hp]; rewrite Ht2, He, Ht1, Hi, Ea; now rewrite app_assoc.
  Qed.

  (* x = e : nothing but e; a.f = e : a first, then e *)
  Theorem assign_member_order n a f cv e r s :
    exec (S (S n)) (SAssign (TMember a f) cv e) r s =
    match eval n a r s with
    | (Ok va, s1) =>
      match eval (S n) e r s1 with
      | (Ok v, s2) =>
        match tconv cv v s2 with
        | (Ok v', s3) =>
          match set_field (hp s3) va f v' with
          | Ok h' => (Ok (ONormal, r), with_hp s3 h')
          | Err er => (Err er, s3)
          end
        | (Err er, s3) => (Err er, s3)
        end
      | (Err er, s2) => (Err er, s2)
      end
    | (Err er, s1) => (Err er, s1)
    end.
  Proof.
    rewrite exec_assign_unfold, target_member_unfold. unfold bindM, ret, fail.
    destruct (eval n a r s) as [[va|er] s1]; [|reflexivity].
    destruct (eval (S n) e r s1) as [[v|er] s2]; [|reflexivity].
    destruct (tconv cv v s2) as [[v'|er] s3]; [|reflexivity].
    unfold gs_set, ret, fail.
    destruct (set_field (hp s3) va f v'); reflexivity.
  Qed.

  (* ---------------------------------------------------------------- swap *)

  (* t1 <-> t2 : sub-expressions of t1, then those of t2; only then the two reads, then the writes *)
  Theorem swap_order n t1 t2 cv r s :
    exec (S n) (SSwap t1 t2 cv) r s =
    match eval_target n t1 r s with
    | (Ok g1, s1) =>
      match eval_target n t2 r s1 with
      | (Ok g2, s2) =>
        match gs_get_swap g1 r s2 with
        | (Ok (l, lph), s3) =>
          match gs_get_swap g2 r s3 with
          | (Ok (rv, _), s4) =>
            if lph && is_ph rv then
              match gs_set g1 l r s4 with
              | (Ok r', s5) => (Ok (ONormal, r'), s5)
              | (Err er, s5) => (Err er, s5)
              end
            else
              match tconv cv rv s4 with
              | (Ok rv', s5) =>
                match tconv cv l s5 with
                | (Ok l', s6) =>
                  match gs_set g1 rv' r s6 with
                  | (Ok r1, s7) =>
                    match gs_set g2 l' r1 s7 with
                    | (Ok r2, s8) => (Ok (ONormal, r2), s8)
                    | (Err er, s8) => (Err er, s8)
                    end
                  | (Err er, s7) => (Err er, s7)
                  end
                | (Err er, s6) => (Err er, s6)
                end
              | (Err er, s5) => (Err er, s5)
              end
          | (Err er, s4) => (Err er, s4)
          end
        | (Err er, s3) => (Err er, s3)
        end
      | (Err er, s2) => (Err er, s2)
      end
    | (Err er, s1) => (Err er, s1)
    end.
  Proof.
    rewrite exec_swap_unfold. unfold bindM, ret, fail.
    destruct (eval_target n t1 r s) as [[g1|er] s1]; [|reflexivity].
    destruct (eval_target n t2 r s1) as [[g2|er] s2]; [|reflexivity].
    destruct (gs_get_swap g1 r s2) as [[[l lph]|er] s3]; [|reflexivity].
    destruct (gs_get_swap g2 r s3) as [[[rv rph]|er] s4]; [|reflexivity].
    destruct (lph && is_ph rv).
    - destruct (gs_set g1 l r s4) as [[r'|er] s5]; reflexivity.
    - destruct (tconv cv rv s4) as [[rv'|er] s5]; [|reflexivity].
      destruct (tconv cv l s5) as [[l'|er] s6]; [|reflexivity].
      destruct (gs_set g1 rv' r s6) as [[r1|er] s7]; [|reflexivity].
      destruct (gs_set g2 l' r1 s7) as [[r2|er] s8]; reflexivity.
  Qed.

  (* the reads and writes of a swap log nothing: the log of a swap is the log of the
     sub-expressions of its left side followed by those of its right side *)
  Lemma gs_get_swap_tr g r s : tr (snd (gs_get_swap g r s)) = tr s.
  Proof.
    unfold gs_get_swap. destruct g; simpl.
    - destruct (lookup r x); reflexivity.
    - destruct (remove_index (hp s) c i) as [[v h']|]; reflexivity.
    - destruct (get_field (hp s) c f); reflexivity.
  Qed.
  Lemma gs_set_tr g v r s : tr (snd (gs_set g v r s)) = tr s.
  Proof.
    unfold gs_set. destruct g; simpl.
    - destruct (update r x v); reflexivity.
    - destruct (set_index (hp s) c i v); reflexivity.
    - destruct (set_field (hp s) c f v); reflexivity.
  Qed.
  Lemma tconv_tr d v s : tr (snd (tconv d v s)) = tr s.
  Proof. unfold tconv. destruct (copy v (hp s)) as [[v' h']|]; reflexivity. Qed.

  Theorem swap_trace n t1 t2 cv r h :
    out_s (S n) (SSwap t1 t2 cv) r h =
    match eval_target n t1 r (mkSt h []) with
    | (Ok _, s1) => out_t n t1 r h ++ out_t n t2 r (hp s1)
    | (Err _, _) => out_t n t1 r h
    end.
  Proof.
    unfold out_s. rewrite swap_order.
    assert (E1 : tr (snd (eval_target n t1 r (mkSt h []))) = out_t n t1 r h) by reflexivity.
    destruct (eval_target n t1 r (mkSt h [])) as [[g1|er] s1]; cbn [snd fst] in *; [|exact E1].
    pose proof (target_trace n t2 r s1) as H2. rewrite E1 in H2.
    destruct (eval_target n t2 r s1) as [[g2|er] s2]; cbn [snd fst] in *; [|exact H2].
    rewrite <- H2.
    pose proof (gs_get_swap_tr g1 r s2) as G1.
    destruct (gs_get_swap g1 r s2) as [[[l lph]|er] s3]; cbn [snd fst] in *; [|exact G1].
    pose proof (gs_get_swap_tr g2 r s3) as G2.
    destruct (gs_get_swap g2 r s3) as [[[rv rph]|er] s4]; cbn [snd fst] in *; [|congruence].
    destruct (lph && is_ph rv).
    - pose proof (gs_set_tr g1 l r s4) as G3.
      destruct (gs_set g1 l r s4) as [[r'|er] s5]; cbn [snd fst] in *; congruence.
    - pose proof (tconv_tr cv rv s4) as T1.
      destruct (tconv cv rv s4) as [[rv'|er] s5]; cbn [snd fst] in *; [|congruence].
      pose proof (tconv_tr cv l s5) as T2.
      destruct (tconv cv l s5) as [[l'|er] s6]; cbn [snd fst] in *; [|congruence].
      pose proof (gs_set_tr g1 rv' r s6) as G3.
      destruct (gs_set g1 rv' r s6) as [[r1|er] s7]; cbn [snd fst] in *; [|congruence].
      pose proof (gs_set_tr g2 l' r1 s7) as G4.
      destruct (gs_set g2 l' r1 s7) as [[r2|er] s8]; cbn [snd fst] in *; congruence.
  Qed.

  (* target sub-expressions of an indexed side: container expression, then index expression *)
  Theorem target_index_trace n a i r h :
    out_t (S n) (TIndex a i) r h =
    match eval n a r (mkSt h []) with
    | (Ok _, s1) => out_e n a r h ++ out_e n i r (hp s1)
    | (Err _, _) => out_e n a r h
    end.
  Proof.
    unfold out_t, out_e. rewrite target_index_unfold. rewrite bind_out.
    destruct (eval n a r (mkSt h [])) as [[va|er] s1]; simpl; [|reflexivity].
    rewrite bind_out.
    pose proof (eval_trace n i r s1) as Hi. unfold out_e in Hi.
    destruct (eval n i r s1) as [[vi|er] s2]; simpl in *; [|exact Hi].
    rewrite bind_out. pose proof (tconv_tr O vi s2) as T.
    destruct (tconv O vi s2) as [[vi'|er] s3]; simpl in *; congruence.
  Qed.

End order.
