(* The interpreter as written (strict = false) and the language-definition reading (strict = true)
   differ only where the latter fails with Internal (a `??` whose left operand evaluated to a
   non-optional value): whenever the strict run does not end in Internal, both runs coincide. *)
From CV Require Import MC.Interp.

Arguments bindM : simpl never.

Definition agr {A} (mt mf : M A) : Prop := fst mt = Err Internal \/ mf = mt.

Lemma agr_refl {A} (m : M A) : agr m m.
Proof. now right. Qed.

Lemma agr_bind {A B} (mt mf : M A) (ft ff : A -> st -> M B) :
  agr mt mf -> (forall a s, agr (ft a s) (ff a s)) -> agr (bindM mt ft) (bindM mf ff).
Proof.
  intros [H| ->] Hf.
  - left. unfold bindM. destruct mt as [[a|e] s]; simpl in *; [discriminate|congruence].
  - unfold bindM. destruct mt as [[a|e] s]; [apply Hf|apply agr_refl].
Qed.

Lemma for_loop_agr bt bf x c l :
  (forall r s, agr (bt r s) (bf r s)) ->
  forall r s, agr (for_loop bt x c l r s) (for_loop bf x c l r s).
Proof.
  intros Hb. induction l as [|el rest IH]; intros r s; simpl.
  - apply agr_refl.
  - apply agr_bind; [apply agr_refl|]. intros el' s1.
    destruct (Hb ((x, el') :: r) s1) as [H| ->].
    + left. destruct (bt ((x, el') :: r) s1) as [[[o r1]|e] s2]; simpl in *; [discriminate|congruence].
    + destruct (bt ((x, el') :: r) s1) as [[[o r1]|e] s2]; [|apply agr_refl].
      destruct o; try apply IH; apply agr_refl.
Qed.

Section agree.
  Variable P : program.

  Definition agr_all (n : nat) : Prop :=
    (forall e r s, agr (eval P true n e r s) (eval P false n e r s)) /\
    (forall es bx r s, agr (evals P true n es bx r s) (evals P false n es bx r s)) /\
    (forall t r s, agr (eval_target P true n t r s) (eval_target P false n t r s)) /\
    (forall c r s, agr (exec P true n c r s) (exec P false n c r s)) /\
    (forall b r s, agr (exec_stmts P true n b r s) (exec_stmts P false n b r s)) /\
    (forall b r s, agr (exec_block P true n b r s) (exec_block P false n b r s)).

  (* a non-monadic continuation applied to the result of a sub-run *)
  Lemma agr_match {A B} (mt mf : M A) (k : M A -> M B) :
    agr mt mf -> (forall s, k (Err Internal, s) = (Err Internal, s)) -> agr (k mt) (k mf).
  Proof.
    intros [H| ->] Hk; [|apply agr_refl].
    left. destruct mt as [[a|e] s]; simpl in H; [discriminate|]. inversion H; subst. now rewrite Hk.
  Qed.

  Ltac ag_tac :=
    repeat first
      [ apply agr_refl
      | match goal with
        | H : forall e r s, agr (eval P true ?n e r s) _ |- agr (eval P true ?n _ _ _) _ => apply H
        | H : forall es bx r s, agr (evals P true ?n es bx r s) _ |- agr (evals P true ?n _ _ _ _) _ => apply H
        | H : forall t r s, agr (eval_target P true ?n t r s) _ |- agr (eval_target P true ?n _ _ _) _ => apply H
        | H : forall c r s, agr (exec P true ?n c r s) _ |- agr (exec P true ?n _ _ _) _ => apply H
        | H : forall b r s, agr (exec_stmts P true ?n b r s) _ |- agr (exec_stmts P true ?n _ _ _) _ => apply H
        | H : forall b r s, agr (exec_block P true ?n b r s) _ |- agr (exec_block P true ?n _ _ _) _ => apply H
        end
      | apply agr_bind; [ | intros ]
      | match goal with
        | |- agr (let '(_, _) := ?x in _) _ => destruct x
        | |- agr (if ?b then _ else _) (if ?b then _ else _) => destruct b
        | |- agr (match ?v with _ => _ end) (match ?v with _ => _ end) => destruct v
        end
      ].

  Lemma agree : forall n, agr_all n.
  Proof.
    induction n as [|n IH].
    - unfold agr_all; repeat split; intros; apply agr_refl.
    - destruct IH as (He & Hes & Ht & Hx & Hss & Hb).
      unfold agr_all; repeat split.
      + intros e r s. destruct e; simpl; ag_tac.
        all: left; reflexivity.
      + intros es bx r s. destruct es; simpl; ag_tac.
      + intros t r s. destruct t; simpl; ag_tac.
      + intros c r s. destruct c; simpl; ag_tac.
        apply for_loop_agr. intros; apply Hb.
      + intros b r s. destruct b; simpl; ag_tac.
      + intros b r s. simpl; ag_tac.
  Qed.

  (* the interpreter as written reproduces every run of the language-definition interpreter that does
     not end in Internal *)
  Theorem strict_agrees n e r s res s' :
    eval P true n e r s = (res, s') -> res <> Err Internal -> eval P false n e r s = (res, s').
  Proof.
    intros H Hn. destruct (proj1 (agree n) e r s) as [Hi|He].
    - rewrite H in Hi. simpl in Hi. congruence.
    - congruence.
  Qed.
End agree.
