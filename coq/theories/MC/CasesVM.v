(* Check functions for the C34 correspondence case files: the model compiler + model VM on generated
   programs, against what the real engines produced, and the model-compiled code against the real
   compiler's instruction listing. *)
From CV Require Export MC.Cases MC.VM.

Definition vm_fuel : nat := 200000%nat.

Definition vm_outcome (P : program) (fuel : nat) : res xval * list xval :=
  let '(r, s) := run_vm (compile P) fuel in
  (match r with Ok v => Ok (export 64 (hp s) v) | Err e => Err e end,
   map (export 64 (hp s)) (tr s)).

(* C34 case: program, what the interpreter produced, what the VM produced.
   The model VM must reproduce the real VM's outcome, and the model interpreter the real
   interpreter's (the two observed outcomes are compared with each other by the harness). *)
Definition check_c34 (c : program * obs * obs) : bool :=
  let '(P, oi, ov) := c in
  obs_eqb (vm_outcome P vm_fuel) ov && obs_eqb (model_outcome P model_fuel) oi.

From CV Require Import MC.Peephole.

(* ------------------------------------------------------------------ listing comparison *)

Definition fnref_eqb (a b : fnref) : bool :=
  match a, b with
  | FnUser x, FnUser y => Nat.eqb x y
  | FnLog, FnLog | FnProbe, FnProbe => true
  | FnCtor x, FnCtor y => Nat.eqb x y
  | _, _ => false
  end.

Definition binop_eqb (a b : binop) : bool :=
  match a, b with
  | BAdd, BAdd | BSub, BSub | BMul, BMul | BDiv, BDiv | BMod, BMod | BLt, BLt | BLe, BLe
  | BGt, BGt | BGe, BGe | BEq, BEq | BNe, BNe => true
  | _, _ => false
  end.

Definition const_eqb (a b : val) : bool :=
  match a, b with
  | VInt x, VInt y => x =? y
  | VStr x, VStr y => zlist_eqb x y
  | VBool x, VBool y => Bool.eqb x y
  | _, _ => false
  end.

Fixpoint natlist_eqb (a b : list nat) : bool :=
  match a, b with
  | [], [] => true
  | x :: a', y :: b' => Nat.eqb x y && natlist_eqb a' b'
  | _, _ => false
  end.

Definition instr_eqb (a b : instr) : bool :=
  match a, b with
  | IStatement, IStatement | ILoop, ILoop | ITrue, ITrue | IFalse, IFalse | INil, INil | IVoid, IVoid
  | IDup, IDup | IDrop, IDrop | IUnwrap, IUnwrap | ITransfer, ITransfer | IGetIndex, IGetIndex
  | ISetIndex, ISetIndex | ISame, ISame | IReturn, IReturn | IReturnValue, IReturnValue
  | IIterator, IIterator | IIterHasNext, IIterHasNext | IIterNext, IIterNext | IIterEnd, IIterEnd => true
  | IConst x, IConst y => const_eqb x y
  | IGetLocal x, IGetLocal y | ISetLocal x, ISetLocal y | IJump x, IJump y | IJumpIfFalse x, IJumpIfFalse y
  | IJumpIfTrue x, IJumpIfTrue y | IJumpIfNil x, IJumpIfNil y | ITransferConv x, ITransferConv y
  | IConvert x, IConvert y | INewArray x, INewArray y | INewDict x, INewDict y
  | IGetField x, IGetField y | ISetField x, ISetField y => Nat.eqb x y
  | IGetGlobal x, IGetGlobal y => fnref_eqb x y
  | IBin x, IBin y => binop_eqb x y
  | IWrap x, IWrap y | IRemoveIndex x, IRemoveIndex y => Bool.eqb x y
  | IGetFieldLocal f n, IGetFieldLocal g m => Nat.eqb f g && Nat.eqb n m
  | IInvoke x, IInvoke y => natlist_eqb x y
  | _, _ => false
  end.

Fixpoint code_eqb (a b : code) : bool :=
  match a, b with
  | [], [] => true
  | x :: a', y :: b' => instr_eqb x y && code_eqb a' b'
  | _, _ => false
  end.

(* the model compiler's code of function k equals the real compiler's listing *)
Definition listing_ok (P : program) (ls : list (nat * code)) : bool :=
  forallb (fun kc => match nth_error (compile P) (fst kc) with
                     | Some cf => code_eqb (cf_code cf) (snd kc)
                     | None => false
                     end) ls.

(* full C34 case: program, interpreter outcome, VM outcome, VM outcome with peephole optimisation,
   real instruction listings (empty when the program is outside the listing comparison) *)
Definition check_c34_full (c : program * obs * obs * obs * list (nat * code)) : bool :=
  let '(P, oi, ov, op, ls) := c in
  obs_eqb (model_outcome P model_fuel) oi &&
  obs_eqb (vm_outcome P vm_fuel) ov &&
  (let '(r, s) := run_vm (peephole (compile P)) vm_fuel in
   obs_eqb (match r with Ok v => Ok (export 64 (hp s) v) | Err e => Err e end,
            map (export 64 (hp s)) (tr s)) op) &&
  listing_ok P ls.
