(* C34: simulation of expressions (interpreter with strict = true, the language definition). *)
From CV Require Import MC.VM MC.SimBase MC.SimDefs MC.SimExpr.
From Coq Require Import Lia.
Local Open Scope nat_scope.
Arguments bindM {A B} m f : simpl nomatch.

Section sim.
  Variable P : program.
  Notation C := (compile P).
  Notation strict := true.

  (* bring the placement fact of the sub-code to the offset the compiler used *)
  Ltac fix_code Ca :=
    match type of Ca with
    | _ = (?code, _) =>
      match type of Ca with
      | compile_e _ ?pc _ _ = _ =>
        match goal with H : code_at _ ?p code |- _ => first [constr_eq p pc | replace p with pc in H by lia] end
      | compile_es _ ?pc _ _ _ = _ =>
        match goal with H : code_at _ ?p code |- _ => first [constr_eq p pc | replace p with pc in H by lia] end
      end
    end.

  Ltac use_e IHe Ea Ca fn stk loc fs its :=
    fix_code Ca;
    let S := fresh "S" in
    pose proof (esim_use P strict _ IHe _ _ _ _ _ _ _ _ _ _ fn stk loc fs its Ea Ca
                         ltac:(eassumption) ltac:(eassumption) ltac:(eassumption)) as S;
    cbn beta iota in S.

  Ltac use_es IHes Ea Ca fn stk loc fs its :=
    fix_code Ca;
    let S := fresh "S" in
    pose proof (essim_use P strict _ IHes _ _ _ _ _ _ _ _ _ _ _ fn stk loc fs its Ea Ca
                          ltac:(eassumption) ltac:(eassumption) ltac:(eassumption)) as S;
    cbn beta iota in S.

  Ltac fin_ok := apply steps_refl_eq, conf_pc_eq; len; lia.
  Ltac fin_err := eexists; split; [apply steps_refl|]; vm_one.
  Ltac bad := let G := fresh in intros [G ?]; congruence.

  Lemma esim_step n : sim_all P strict n -> esim P strict (S n).
  Proof.
    intros (IHe & IHes & IHs & IHb & IHbl).
    unfold esim. intros e r s res s' ce pc nx code nx' fn stk loc fs its Hev Hc Hat Hm Hw.
    destruct e; simpl in Hev, Hc.
    - (* EInt *) inversion Hev; inversion Hc; subst. split_code Hat.
      exists loc, its. split; [|apply keep_refl]. vstep. fin_ok.
    - (* EBool *) destruct b; inversion Hev; inversion Hc; subst; split_code Hat;
        (exists loc, its; split; [|apply keep_refl]; vstep; fin_ok).
    - (* EStr *) inversion Hev; inversion Hc; subst. split_code Hat.
      exists loc, its. split; [|apply keep_refl]. vstep. fin_ok.
    - (* ENil *) inversion Hev; inversion Hc; subst. split_code Hat.
      exists loc, its. split; [|apply keep_refl]. vstep. fin_ok.
    - (* EVar *) inversion Hc; subst. split_code Hat.
      destruct (lookup r x) as [v|] eqn:L; inversion Hev; subst.
      + exists loc, its. split; [|apply keep_refl].
        vstep. rewrite (match_env_lookup _ _ _ _ _ Hm L). fin_ok.
      + bad.
    - (* EBin *)
      destruct (compile_e ce pc nx e1) as [ca n1] eqn:Ca.
      destruct (compile_e ce (pc + length ca) n1 e2) as [cb n2] eqn:Cb.
      inversion Hc; subst; clear Hc. split_code Hat.
      destruct (eval P strict n e1 r s) as [[va|er] s1] eqn:Ea; [rewrite bind_ok in Hev|rewrite bind_err in Hev].
      2:{ inversion Hev; subst. use_e IHe Ea Ca fn stk loc fs its. apply S. }
      use_e IHe Ea Ca fn stk loc fs its. destruct S as (L1 & W1 & loc1 & its1 & St1 & A1 & M1).
      destruct (eval P strict n e2 r s1) as [[vb|er] s2] eqn:Eb; [rewrite bind_ok in Hev|rewrite bind_err in Hev].
      2:{ inversion Hev; subst. use_e IHe Eb Cb fn (va :: stk) loc1 fs its1.
          intros G. eapply halts_steps; [exact St1|]. now apply S. }
      use_e IHe Eb Cb fn (va :: stk) loc1 fs its1. destruct S as (L2 & W2 & loc2 & its2 & St2 & A2 & M2).
      unfold lift in Hev. inversion Hev; subst; clear Hev.
      destruct (binop_apply op va vb) as [v|er] eqn:B.
      + exists loc2, its2. split; [|eapply keep_trans; eauto].
        eapply steps_trans; [exact St1|]. eapply steps_trans; [exact St2|].
        vstep. rewrite B. reflexivity. fin_ok.
      + intros G. eapply halts_steps; [exact St1|]. eapply halts_steps; [exact St2|].
        fin_err. rewrite B. reflexivity.
    - (* EAnd *)
      destruct (compile_e ce pc nx e1) as [ca n1] eqn:Ca.
      destruct (compile_e ce (pc + length ca + 1) n1 e2) as [cb n2] eqn:Cb.
      inversion Hc; subst; clear Hc. simpl in Hat. split_code Hat.
      destruct (eval P strict n e1 r s) as [[va|er] s1] eqn:Ea; [rewrite bind_ok in Hev|rewrite bind_err in Hev].
      2:{ inversion Hev; subst. use_e IHe Ea Ca fn stk loc fs its. apply S. }
      use_e IHe Ea Ca fn stk loc fs its. destruct S as (L1 & W1 & loc1 & its1 & St1 & A1 & M1).
      destruct va; try (inversion Hev; subst; bad). destruct b.
      + destruct (eval P strict n e2 r s1) as [[vb|er] s2] eqn:Eb; [rewrite bind_ok in Hev|rewrite bind_err in Hev].
        2:{ inversion Hev; subst. use_e IHe Eb Cb fn stk loc1 fs its1.
            intros G. eapply halts_steps; [exact St1|]. eapply halts_steps; [|now apply S].
            vstep. apply steps_refl_eq, conf_pc_eq. lia. }
        use_e IHe Eb Cb fn stk loc1 fs its1. destruct S as (L2 & W2 & loc2 & its2 & St2 & A2 & M2).
        destruct vb; try (inversion Hev; subst; bad). inversion Hev; subst; clear Hev.
        exists loc2, its2. split; [|eapply keep_trans; eauto].
        eapply steps_trans; [exact St1|]. vstep.
        eapply steps_trans; [eapply steps_trans; [apply steps_refl_eq, conf_pc_eq|exact St2]; lia|].
        destruct b.
        * vstep. vstep. vstep. fin_ok.
        * vstep. vstep. fin_ok.
      + inversion Hev; subst; clear Hev.
        exists loc1, its1. split; [|exact A1].
        eapply steps_trans; [exact St1|]. vstep. vstep. fin_ok.
    - (* EOr *)
      destruct (compile_e ce pc nx e1) as [ca n1] eqn:Ca.
      destruct (compile_e ce (pc + length ca + 1) n1 e2) as [cb n2] eqn:Cb.
      inversion Hc; subst; clear Hc. simpl in Hat. split_code Hat.
      destruct (eval P strict n e1 r s) as [[va|er] s1] eqn:Ea; [rewrite bind_ok in Hev|rewrite bind_err in Hev].
      2:{ inversion Hev; subst. use_e IHe Ea Ca fn stk loc fs its. apply S. }
      use_e IHe Ea Ca fn stk loc fs its. destruct S as (L1 & W1 & loc1 & its1 & St1 & A1 & M1).
      destruct va; try (inversion Hev; subst; bad). destruct b.
      + inversion Hev; subst; clear Hev.
        exists loc1, its1. split; [|exact A1].
        eapply steps_trans; [exact St1|]. vstep. vstep. vstep. fin_ok.
      + destruct (eval P strict n e2 r s1) as [[vb|er] s2] eqn:Eb; [rewrite bind_ok in Hev|rewrite bind_err in Hev].
        2:{ inversion Hev; subst. use_e IHe Eb Cb fn stk loc1 fs its1.
            intros G. eapply halts_steps; [exact St1|]. eapply halts_steps; [|now apply S].
            vstep. apply steps_refl_eq, conf_pc_eq. lia. }
        use_e IHe Eb Cb fn stk loc1 fs its1. destruct S as (L2 & W2 & loc2 & its2 & St2 & A2 & M2).
        destruct vb; try (inversion Hev; subst; bad). inversion Hev; subst; clear Hev.
        exists loc2, its2. split; [|eapply keep_trans; eauto].
        eapply steps_trans; [exact St1|]. vstep.
        eapply steps_trans; [eapply steps_trans; [apply steps_refl_eq, conf_pc_eq|exact St2]; lia|].
        destruct b.
        * vstep. vstep. vstep. fin_ok.
        * vstep. vstep. fin_ok.
    - (* ECoalesce *)
      destruct (compile_e ce pc nx e1) as [ca n1] eqn:Ca.
      destruct (compile_e ce (pc + length ca + 5 + 1) n1 e2) as [cb n2] eqn:Cb.
      inversion Hc; subst; clear Hc. simpl in Hat. split_code Hat.
      destruct (eval P strict n e1 r s) as [[va|er] s1] eqn:Ea; [rewrite bind_ok in Hev|rewrite bind_err in Hev].
      2:{ inversion Hev; subst. use_e IHe Ea Ca fn stk loc fs its. apply S. }
      use_e IHe Ea Ca fn stk loc fs its. destruct S as (L1 & W1 & loc1 & its1 & St1 & A1 & M1).
      destruct va; cbn [is_optional negb andb] in Hev; try (inversion Hev; subst; bad).
      + (* nil: the right operand *)
        destruct (eval P strict n e2 r s1) as [[vb|er] s2] eqn:Eb; [rewrite bind_ok in Hev|rewrite bind_err in Hev].
        2:{ inversion Hev; subst. use_e IHe Eb Cb fn stk loc1 fs its1.
            intros G. eapply halts_steps; [exact St1|]. eapply halts_steps; [|now apply S].
            vstep. vstep. vstep. apply steps_refl_eq, conf_pc_eq. lia. }
        use_e IHe Eb Cb fn stk loc1 fs its1. destruct S as (L2 & W2 & loc2 & its2 & St2 & A2 & M2).
        inversion Hev; subst; clear Hev.
        exists loc2, its2. split; [|eapply keep_trans; eauto].
        eapply steps_trans; [exact St1|]. vstep. vstep. vstep.
        eapply steps_trans; [eapply steps_trans; [apply steps_refl_eq, conf_pc_eq|exact St2]; lia|].
        vstep. fin_ok.
      + (* some *)
        inversion Hev; subst; clear Hev.
        exists loc1, its1. split; [|exact A1].
        eapply steps_trans; [exact St1|]. vstep. vstep. vstep. vstep. vstep. fin_ok.
    - (* ECond *)
      destruct (compile_e ce pc nx e1) as [cc n1] eqn:Cc.
      destruct (compile_e ce (pc + length cc + 1) n1 e2) as [ca n2] eqn:Ca.
      destruct (compile_e ce (pc + length cc + 1 + length ca + 1) n2 e3) as [cb n3] eqn:Cb.
      inversion Hc; subst; clear Hc. simpl in Hat. split_code Hat.
      destruct (eval P strict n e1 r s) as [[vc|er] s1] eqn:Ec; [rewrite bind_ok in Hev|rewrite bind_err in Hev].
      2:{ inversion Hev; subst. use_e IHe Ec Cc fn stk loc fs its. apply S. }
      use_e IHe Ec Cc fn stk loc fs its. destruct S as (L1 & W1 & loc1 & its1 & St1 & A1 & M1).
      destruct vc; try (inversion Hev; subst; bad). destruct b.
      + use_e IHe Hev Ca fn stk loc1 fs its1. destruct S as (L2 & W2 & S).
        destruct res as [v|er].
        * destruct S as (loc2 & its2 & St2 & A2 & M2).
          exists loc2, its2. split; [|eapply keep_trans; eauto].
          eapply steps_trans; [exact St1|]. vstep.
          eapply steps_trans; [eapply steps_trans; [apply steps_refl_eq, conf_pc_eq|exact St2]; lia|].
          vstep. fin_ok.
        * intros G. eapply halts_steps; [exact St1|]. eapply halts_steps; [|now apply S].
          vstep. apply steps_refl_eq, conf_pc_eq. lia.
      + assert (W2 : wf_ce ce n2).
        { eapply wf_ce_mono; [|exact W1]. eapply compile_e_le; eauto. }
        assert (L12 : n1 <= n2) by (eapply compile_e_le; eauto).
        use_e IHe Hev Cb fn stk loc1 fs its1. destruct S as (L3 & W3 & S).
        destruct res as [v|er].
        * destruct S as (loc2 & its2 & St2 & A2 & M2).
          exists loc2, its2. split.
          2:{ eapply keep_trans; [|exact A1|exact A2]. lia. }
          eapply steps_trans; [exact St1|]. vstep.
          eapply steps_trans; [eapply steps_trans; [apply steps_refl_eq, conf_pc_eq|exact St2]; lia|].
          fin_ok.
        * intros G. eapply halts_steps; [exact St1|]. eapply halts_steps; [|now apply S].
          vstep. apply steps_refl_eq, conf_pc_eq. lia.
    - (* EForce *)
      destruct (compile_e ce pc nx e) as [ca n1] eqn:Ca.
      inversion Hc; subst; clear Hc. split_code Hat.
      destruct (eval P strict n e r s) as [[va|er] s1] eqn:Ea; [rewrite bind_ok in Hev|rewrite bind_err in Hev].
      2:{ inversion Hev; subst. use_e IHe Ea Ca fn stk loc fs its. apply S. }
      use_e IHe Ea Ca fn stk loc fs its. destruct S as (L1 & W1 & loc1 & its1 & St1 & A1 & M1).
      unfold lift in Hev. inversion Hev; subst; clear Hev.
      destruct (unwrap va) as [w|er] eqn:U.
      + exists loc1, its1. split; [|exact A1].
        eapply steps_trans; [exact St1|]. vstep. rewrite U. reflexivity. fin_ok.
      + intros G. eapply halts_steps; [exact St1|]. fin_err. rewrite U. reflexivity.
    - (* EArr *)
      destruct (compile_es ce pc nx es true) as [cs n1] eqn:Cs.
      inversion Hc; subst; clear Hc. split_code Hat.
      destruct (evals P strict n es true r s) as [[vs|er] s1] eqn:Ea; [rewrite bind_ok in Hev|rewrite bind_err in Hev].
      2:{ inversion Hev; subst. use_es IHes Ea Cs fn stk loc fs its. apply S. }
      use_es IHes Ea Cs fn stk loc fs its. destruct S as (L1 & W1 & loc1 & its1 & St1 & A1 & M1).
      unfold alloc in Hev. inversion Hev; subst; clear Hev.
      exists loc1, its1. split; [|exact A1].
      eapply steps_trans; [exact St1|].
      destruct (pop_vals (count_es es) vs stk (evals_length _ _ _ _ _ _ _ _ _ Ea)) as (Q1 & Q2 & Q3).
      vstep. rewrite Q1, Q2, Q3. unfold alloc. reflexivity. fin_ok.
    - (* EDict *)
      destruct (compile_es ce pc nx es true) as [cs n1] eqn:Cs.
      inversion Hc; subst; clear Hc. split_code Hat.
      destruct (evals P strict n es true r s) as [[vs|er] s1] eqn:Ea; [rewrite bind_ok in Hev|rewrite bind_err in Hev].
      2:{ inversion Hev; subst. use_es IHes Ea Cs fn stk loc fs its. apply S. }
      use_es IHes Ea Cs fn stk loc fs its. destruct S as (L1 & W1 & loc1 & its1 & St1 & A1 & M1).
      destruct (dict_of vs []) as [l|] eqn:D; [|inversion Hev; subst; bad].
      unfold alloc in Hev. inversion Hev; subst; clear Hev.
      exists loc1, its1. split; [|exact A1].
      eapply steps_trans; [exact St1|].
      pose proof (evals_length _ _ _ _ _ _ _ _ _ Ea) as Hlen.
      pose proof (dict_of_even (length vs) vs [] l ltac:(lia) D) as Hev2. rewrite Hlen in Hev2.
      destruct (pop_vals (Nat.div2 (count_es es) + Nat.div2 (count_es es)) vs stk ltac:(lia)) as (Q1 & Q2 & Q3).
      vstep. rewrite Q1, Q2, Q3, D. unfold alloc. reflexivity. fin_ok.
    - (* EIndex *)
      destruct (compile_e ce pc nx e1) as [ca n1] eqn:Ca.
      destruct (compile_e ce (pc + length ca) n1 e2) as [ci n2] eqn:Ci.
      inversion Hc; subst; clear Hc. split_code Hat.
      destruct (eval P strict n e1 r s) as [[va|er] s1] eqn:Ea; [rewrite bind_ok in Hev|rewrite bind_err in Hev].
      2:{ inversion Hev; subst. use_e IHe Ea Ca fn stk loc fs its. apply S. }
      use_e IHe Ea Ca fn stk loc fs its. destruct S as (L1 & W1 & loc1 & its1 & St1 & A1 & M1).
      destruct (eval P strict n e2 r s1) as [[vi|er] s2] eqn:Ei; [rewrite bind_ok in Hev|rewrite bind_err in Hev].
      2:{ inversion Hev; subst. use_e IHe Ei Ci fn (va :: stk) loc1 fs its1.
          intros G. eapply halts_steps; [exact St1|]. now apply S. }
      use_e IHe Ei Ci fn (va :: stk) loc1 fs its1. destruct S as (L2 & W2 & loc2 & its2 & St2 & A2 & M2).
      destruct (tconv 0 vi s2) as [[vi'|er] s3] eqn:T; [rewrite bind_ok in Hev|rewrite bind_err in Hev].
      2:{ inversion Hev; subst. intros G. eapply halts_steps; [exact St1|]. eapply halts_steps; [exact St2|].
          fin_err. rewrite T. reflexivity. }
      unfold lift in Hev. inversion Hev; subst; clear Hev.
      destruct (get_index (hp s') va vi') as [v|er] eqn:Gi.
      + exists loc2, its2. split; [|eapply keep_trans; eauto].
        eapply steps_trans; [exact St1|]. eapply steps_trans; [exact St2|].
        vstep. rewrite T. reflexivity. vstep. rewrite Gi. reflexivity. fin_ok.
      + intros G. eapply halts_steps; [exact St1|]. eapply halts_steps; [exact St2|].
        eapply halts_steps. { vstep. rewrite T. reflexivity. apply steps_refl. }
        fin_err. rewrite Gi. reflexivity.
    - (* EMember *)
      destruct (compile_e ce pc nx e) as [ca n1] eqn:Ca.
      inversion Hc; subst; clear Hc. split_code Hat.
      destruct (eval P strict n e r s) as [[va|er] s1] eqn:Ea; [rewrite bind_ok in Hev|rewrite bind_err in Hev].
      2:{ inversion Hev; subst. use_e IHe Ea Ca fn stk loc fs its. apply S. }
      use_e IHe Ea Ca fn stk loc fs its. destruct S as (L1 & W1 & loc1 & its1 & St1 & A1 & M1).
      unfold lift in Hev. inversion Hev; subst; clear Hev.
      destruct (get_field (hp s') va f) as [v|er] eqn:Gf.
      + exists loc1, its1. split; [|exact A1].
        eapply steps_trans; [exact St1|]. vstep. rewrite Gf. reflexivity. fin_ok.
      + intros G. eapply halts_steps; [exact St1|]. fin_err. rewrite Gf. reflexivity.
    - (* EOptMember *)
      destruct (compile_e ce pc nx e) as [ca n1] eqn:Ca.
      inversion Hc; subst; clear Hc. split_code Hat.
      destruct (eval P strict n e r s) as [[va|er] s1] eqn:Ea; [rewrite bind_ok in Hev|rewrite bind_err in Hev].
      2:{ inversion Hev; subst. use_e IHe Ea Ca fn stk loc fs its. apply S. }
      use_e IHe Ea Ca fn stk loc fs its. destruct S as (L1 & W1 & loc1 & its1 & St1 & A1 & M1).
      destruct va; try (inversion Hev; subst; bad).
      + (* nil *)
        inversion Hev; subst; clear Hev.
        exists (set_loc loc1 n1 VNil), its1. split.
        2:{ eapply (keep_trans nx n1); [lia|exact A1|apply keep_set; lia]. }
        eapply steps_trans; [exact St1|]. vstep. vstep. rewrite get_set_same. vstep. vstep. fin_ok.
      + (* some *)
        unfold lift in Hev.
        destruct (get_field (hp s1) va f) as [v|er] eqn:Gf;
          [rewrite bind_ok in Hev|rewrite bind_err in Hev]; inversion Hev; subst; clear Hev.
        * exists (set_loc loc1 n1 (VSome va)), its1. split.
          2:{ eapply (keep_trans nx n1); [lia|exact A1|apply keep_set; lia]. }
          eapply steps_trans; [exact St1|]. vstep. vstep. rewrite get_set_same. vstep. vstep.
          rewrite get_set_same. vstep. vstep. rewrite Gf. reflexivity. vstep. vstep. fin_ok.
        * intros G. eapply halts_steps; [exact St1|].
          eapply halts_steps.
          { vstep. vstep. rewrite get_set_same. vstep. vstep. rewrite get_set_same. vstep. apply steps_refl. }
          fin_err. rewrite Gf. reflexivity.
    - (* ECall *)
      destruct (compile_es ce (pc + 1) nx args false) as [cs n1] eqn:Cs.
      inversion Hc; subst; clear Hc. simpl in Hat. split_code Hat.
      destruct (evals P strict n args false r s) as [[vs|er] s1] eqn:Ea; [rewrite bind_ok in Hev|rewrite bind_err in Hev].
      2:{ inversion Hev; subst. use_es IHes Ea Cs fn (VFun f :: stk) loc fs its.
          intros G. eapply halts_steps; [|now apply S]. vstep. apply steps_refl_eq, conf_pc_eq; lia. }
      use_es IHes Ea Cs fn (VFun f :: stk) loc fs its. destruct S as (L1 & W1 & loc1 & its1 & St1 & A1 & M1).
      pose proof (evals_length _ _ _ _ _ _ _ _ _ Ea) as Hlen.
      assert (Hlen' : length vs = length (convs_of args)) by (now rewrite convs_of_length).
      destruct (pop_args (length (convs_of args)) vs (VFun f) stk Hlen') as (Q1 & Q2 & Q3).
      cbv zeta in Hev.
      assert (St0 : steps P (conf fn pc stk loc fs s its)
                          (conf fn (pc + 1 + length cs) (rev vs ++ VFun f :: stk) loc1 fs s1 its1)).
      { vstep. eapply steps_trans; [|exact St1]. apply steps_refl_eq, conf_pc_eq; lia. }
      clear St1.
      destruct f.
      + (* user function *)
        destruct (nth_error P n0) as [fd|] eqn:Hfd; [|inversion Hev; subst; bad].
        destruct (Nat.eqb (length (fn_params fd)) (length (boxes (convs_of args) vs))) eqn:Hn;
          [|inversion Hev; subst; bad].
        apply Nat.eqb_eq in Hn.
        set (vs' := boxes (convs_of args) vs) in *.
        pose proof (code_of_fun P _ _ Hfd) as HC.
        unfold compile_fun in HC.
        destruct (compile_b (mkCtx 0 0 []) (param_env (fn_params fd) 0 []) 0 (length (fn_params fd)) (fn_body fd))
          as [cbody nxf] eqn:Cb.
        set (caller := mkFrame fn (S (pc + 1 + length cs)) stk loc1).
        assert (Hinv : steps P (conf fn (pc + 1 + length cs) (rev vs ++ VFun (FnUser n0) :: stk) loc1 fs s1 its1)
                             (conf n0 0 [] vs' (caller :: fs) s1 its1)).
        { vstep. rewrite Q1, Q2, Q3. rewrite HC. cbn [cf_nparams].
          unfold vs' in Hn. rewrite boxes_length in Hn. rewrite Hn, Hlen', Nat.eqb_refl. reflexivity.
          apply steps_refl. }
        assert (Hcode : code_at (code_of C n0) 0 cbody).
        { unfold code_of. rewrite HC. cbn [cf_code].
          destruct (ends_with_return (fn_body fd)); [apply code_at_self|apply code_at_prefix]. }
        assert (Hmatch : match_env (param_env (fn_params fd) 0 []) (bind_params (fn_params fd) vs' []) vs').
        { apply param_env_match; auto. simpl. exact I. }
        assert (Hwf : wf_ce (param_env (fn_params fd) 0 []) (length (fn_params fd))).
        { apply (param_env_wf (fn_params fd) 0 []). exact I. }
        assert (Hit : iters_ok (cx_iters (mkCtx 0 0 [])) (param_env (fn_params fd) 0 []) (length (fn_params fd)) vs').
        { intros it []. }
        destruct (exec_stmts P strict n (fn_body fd) (bind_params (fn_params fd) vs' []) s1)
          as [[[o rb]|er] s2] eqn:Eb.
        2:{ inversion Hev; subst.
            pose proof (IHb _ _ _ _ _ _ _ _ _ _ _ n0 [] vs' (caller :: fs) its1 Eb Cb Hcode Hmatch Hwf Hit) as SB.
            cbn beta iota in SB. intros G.
            eapply halts_steps; [exact St0|]. eapply halts_steps; [exact Hinv|]. now apply SB. }
        pose proof (IHb _ _ _ _ _ _ _ _ _ _ _ n0 [] vs' (caller :: fs) its1 Eb Cb Hcode Hmatch Hwf Hit) as SB.
        cbn beta iota in SB.
        destruct o; try (inversion Hev; subst; bad).
        * (* falls off the end: synthetic return *)
          inversion Hev; subst; clear Hev.
          destruct SB as (loc' & its' & ce2 & Stb & _ & _ & Eb2).
          assert (Hret : nth_error (code_of C n0) (length cbody) = Some IReturn).
          { unfold code_of. rewrite HC. cbn [cf_code].
            rewrite (ends_normal _ _ _ _ _ _ _ _ Eb).
            rewrite nth_error_app2 by lia. now rewrite Nat.sub_diag. }
          exists loc1, its'. split; [|eapply keep_its; eauto].
          eapply steps_trans; [exact St0|]. eapply steps_trans; [exact Hinv|].
          eapply steps_trans; [exact Stb|].
          vstep. unfold caller. fin_ok.
        * (* return v *)
          inversion Hev; subst; clear Hev.
          destruct SB as (sA & itsA & StA & HA & EA).
          exists loc1, itsA. split; [|eapply keep_its; eauto].
          eapply steps_trans; [exact St0|]. eapply steps_trans; [exact Hinv|].
          eapply steps_trans; [exact StA|].
          eapply steps_step; [rewrite HA; unfold ret_result, caller; cbn [f_fn f_pc f_stk f_loc]; reflexivity|].
          refold_conf. fin_ok.
      + (* log *)
        destruct (native_apply FnLog (boxes (convs_of args) vs) s1) as [[v|er] s2] eqn:Nv;
          inversion Hev; subst; clear Hev.
        * exists loc1, its1. split; [|exact A1]. eapply steps_trans; [exact St0|].
          vstep. rewrite Q1, Q2, Q3, Nv. reflexivity. fin_ok.
        * intros G. eapply halts_steps; [exact St0|]. fin_err. rewrite Q1, Q2, Q3, Nv. reflexivity.
      + (* probe *)
        destruct (native_apply FnProbe (boxes (convs_of args) vs) s1) as [[v|er] s2] eqn:Nv;
          inversion Hev; subst; clear Hev.
        * exists loc1, its1. split; [|exact A1]. eapply steps_trans; [exact St0|].
          vstep. rewrite Q1, Q2, Q3, Nv. reflexivity. fin_ok.
        * intros G. eapply halts_steps; [exact St0|]. fin_err. rewrite Q1, Q2, Q3, Nv. reflexivity.
      + (* constructor *)
        destruct (native_apply (FnCtor sid) (boxes (convs_of args) vs) s1) as [[v|er] s2] eqn:Nv;
          inversion Hev; subst; clear Hev.
        * exists loc1, its1. split; [|exact A1]. eapply steps_trans; [exact St0|].
          vstep. rewrite Q1, Q2, Q3, Nv. reflexivity. fin_ok.
        * intros G. eapply halts_steps; [exact St0|]. fin_err. rewrite Q1, Q2, Q3, Nv. reflexivity.
  Qed.

  Lemma essim_step n : sim_all P strict n -> essim P strict (S n).
  Proof.
    intros (IHe & IHes & IHs & IHb & IHbl).
    unfold essim. intros es lit r s res s' ce pc nx code nx' fn stk loc fs its Hev Hc Hat Hm Hw.
    destruct es as [|e c rest]; simpl in Hev, Hc.
    - inversion Hev; inversion Hc; subst. exists loc, its. split; [|apply keep_refl].
      simpl. fin_ok.
    - destruct (compile_e ce pc nx e) as [c1 n1] eqn:C1.
      destruct (compile_es ce (pc + length c1 + 1) n1 rest lit) as [c2 n2] eqn:C2.
      inversion Hc; subst; clear Hc. simpl in Hat. split_code Hat.
      destruct (eval P strict n e r s) as [[v|er] s1] eqn:Ea; [rewrite bind_ok in Hev|rewrite bind_err in Hev].
      2:{ inversion Hev; subst. use_e IHe Ea C1 fn stk loc fs its. apply S. }
      use_e IHe Ea C1 fn stk loc fs its. destruct S as (L1 & W1 & loc1 & its1 & St1 & A1 & M1).
      destruct (tconv (if lit then c else 0) v s1) as [[v'|er] s2] eqn:T; [rewrite bind_ok in Hev|rewrite bind_err in Hev].
      2:{ inversion Hev; subst. intros G. eapply halts_steps; [exact St1|].
          destruct lit; fin_err; rewrite T; reflexivity. }
      assert (St2 : steps P (conf fn (pc + length c1) (v :: stk) loc1 fs s1 its1)
                          (conf fn (pc + length c1 + 1) (v' :: stk) loc1 fs s2 its1)).
      { destruct lit; (vstep; [rewrite T; reflexivity|]); apply steps_refl_eq, conf_pc_eq; lia. }
      destruct (evals P strict n rest lit r s2) as [[vs|er] s3] eqn:Er; [rewrite bind_ok in Hev|rewrite bind_err in Hev].
      2:{ inversion Hev; subst. use_es IHes Er C2 fn (v' :: stk) loc1 fs its1.
          intros G. eapply halts_steps; [exact St1|]. eapply halts_steps; [exact St2|]. now apply S. }
      use_es IHes Er C2 fn (v' :: stk) loc1 fs its1. destruct S as (L2 & W2 & loc2 & its2 & St3 & A2 & M2).
      inversion Hev; subst; clear Hev.
      exists loc2, its2. split; [|eapply keep_trans; eauto].
      eapply steps_trans; [exact St1|]. eapply steps_trans; [exact St2|].
      eapply steps_trans; [exact St3|].
      simpl rev. rewrite <- app_assoc. simpl. fin_ok.
  Qed.
End sim.
