(* MiniCadence: definitional interpreter, written in the shape of the tree-walking interpreter
   (/repo/interpreter/interpreter_expression.go, interpreter_statement.go, interpreter_invocation.go).
   Every function is recursive on fuel only; it returns the outcome together with the final
   state (heap and log trace), also when the outcome is an error (the state reached when the
   error was raised). *)
From CV Require Export MC.Prim.

Definition env := list (name * val).

Fixpoint lookup (r : env) (x : name) : option val :=
  match r with
  | [] => None
  | (y, v) :: r' => if Nat.eqb y x then Some v else lookup r' x
  end.

Fixpoint update (r : env) (x : name) (v : val) : option env :=
  match r with
  | [] => None
  | (y, w) :: r' => if Nat.eqb y x then Some ((y, v) :: r')
                    else match update r' x v with
                         | Some r'' => Some ((y, w) :: r'')
                         | None => None
                         end
  end.

Inductive outcome := ONormal | OBreak | OContinue | OReturn (v : val).

Definition M (A : Type) := (res A * st)%type.

Definition bindM {A B} (m : M A) (f : A -> st -> M B) : M B :=
  match m with
  | (Ok a, s) => f a s
  | (Err e, s) => (Err e, s)
  end.
Notation "'do' x '<-' m ';' s '=>' b" := (bindM m (fun x s => b))
  (at level 200, x pattern, s name, m at level 100, b at level 200).

Definition ret {A} (a : A) (s : st) : M A := (Ok a, s).
Definition fail {A} (e : err) (s : st) : M A := (Err e, s).
Definition lift {A} (r : res A) (s : st) : M A := (r, s).

(* getter/setter pair of an assignment target after its sub-expressions were evaluated
   (interpreter.assignmentGetterSetter) *)
Inductive gs := GVar (x : name) | GIndex (c i : val) | GMember (c : val) (f : nat).

(* plain get (identifier / GetKey / getMember) *)
Definition gs_set (g : gs) (v : val) (r : env) (s : st) : M env :=
  match g with
  | GVar x => match update r x v with Some r' => ret r' s | None => fail Internal s end
  | GIndex c i => match set_index (hp s) c i v with
                  | Ok h' => ret r (with_hp s h')
                  | Err e => fail e s
                  end
  | GMember c f => match set_field (hp s) c f v with
                   | Ok h' => ret r (with_hp s h')
                   | Err e => fail e s
                   end
  end.

(* get of a swap side: an indexed slot is removed and replaced by a placeholder
   (IsNestedResourceMoveExpression holds for both sides of every swap) *)
Definition gs_get_swap (g : gs) (r : env) (s : st) : M (val * bool) :=
  match g with
  | GVar x => match lookup r x with Some v => ret (v, false) s | None => fail Internal s end
  | GIndex c i => match remove_index (hp s) c i with
                  | Ok (v, h') => ret (v, true) (with_hp s h')
                  | Err e => fail e s
                  end
  | GMember c f => match get_field (hp s) c f with
                   | Ok v => ret (v, false) s
                   | Err e => fail e s
                   end
  end.

(* for-in over the elements of an array (ArrayValue.ForEach with transferElements) *)
Fixpoint for_loop (body : env -> st -> M (outcome * env)) (x : name) (c : conv)
         (l : list val) (r : env) (s : st) : M (outcome * env) :=
  match l with
  | [] => ret (ONormal, r) s
  | el :: rest =>
    do el' <- tconv c el s; s =>
    match body ((x, el') :: r) s with
    | (Ok (o, r1), s2) =>
      let r2 := tl r1 in
      match o with
      | OBreak => ret (ONormal, r2) s2
      | OReturn v => ret (OReturn v, r2) s2
      | _ => for_loop body x c rest r2 s2
      end
    | (Err e, s2) => (Err e, s2)
    end
  end.

Fixpoint bind_params (ps : list name) (vs : list val) (acc : env) : env :=
  match ps, vs with
  | p :: ps', v :: vs' => bind_params ps' vs' ((p, v) :: acc)
  | _, _ => acc
  end.

Fixpoint convs_of (es : exprs) : list conv :=
  match es with
  | ENone => []
  | EMore _ c r => c :: convs_of r
  end.

Section interp.
  Variable P : program.
  (* strict = true is the language definition: the left operand of `??` is always an optional value.
     strict = false is interpreter_expression.go as written: any left value that is not a SomeValue makes
     the right operand run (see the `cond ? nonOptional : nil` finding in Properties/C52.v). *)
  Variable strict : bool.

  Fixpoint eval (n : nat) (e : expr) (r : env) (s : st) {struct n} : M val :=
    match n with
    | O => fail OutOfFuel s
    | S n' =>
      match e with
      | EInt z => ret (VInt z) s
      | EBool b => ret (VBool b) s
      | EStr t => ret (VStr t) s
      | ENil => ret VNil s
      | EVar x => match lookup r x with Some v => ret v s | None => fail Internal s end
      | EBin op a b =>
        (* VisitBinaryExpression: left, then right, then the operation *)
        do va <- eval n' a r s; s =>
        do vb <- eval n' b r s; s =>
        lift (binop_apply op va vb) s
      | EAnd a b =>
        do va <- eval n' a r s; s =>
        match va with
        | VBool false => ret (VBool false) s
        | VBool true =>
          do vb <- eval n' b r s; s =>
          match vb with VBool _ => ret vb s | _ => fail Internal s end
        | _ => fail Internal s
        end
      | EOr a b =>
        do va <- eval n' a r s; s =>
        match va with
        | VBool true => ret (VBool true) s
        | VBool false =>
          do vb <- eval n' b r s; s =>
          match vb with VBool _ => ret vb s | _ => fail Internal s end
        | _ => fail Internal s
        end
      | ECoalesce a b c =>
        do va <- eval n' a r s; s =>
        match va with
        | VSome v => ret (box c v) s
        | _ =>
          if strict && negb (is_optional va) then fail Internal s
          else do vb <- eval n' b r s; s => ret (box c vb) s
        end
      | ECond c a b =>
        do vc <- eval n' c r s; s =>
        match vc with
        | VBool true => eval n' a r s
        | VBool false => eval n' b r s
        | _ => fail Internal s
        end
      | EForce a =>
        do va <- eval n' a r s; s => lift (unwrap va) s
      | EArr es =>
        do vs <- evals n' es true r s; s =>
        let '(h', a) := alloc (hp s) (CArr vs) in ret (VRef a) (with_hp s h')
      | EDict es =>
        do vs <- evals n' es true r s; s =>
        match dict_of vs [] with
        | Some l => let '(h', a) := alloc (hp s) (CDict l) in ret (VRef a) (with_hp s h')
        | None => fail Internal s
        end
      | EIndex a i =>
        (* valueIndexExpressionGetterSetter: target, index, transfer of the index, then get *)
        do va <- eval n' a r s; s =>
        do vi <- eval n' i r s; s =>
        do vi' <- tconv O vi s; s =>
        lift (get_index (hp s) va vi') s
      | EMember a f =>
        do va <- eval n' a r s; s => lift (get_field (hp s) va f) s
      | EOptMember a f =>
        do va <- eval n' a r s; s =>
        match va with
        | VNil => ret VNil s
        | VSome w => do v <- lift (get_field (hp s) w f) s; s => ret (wrap true v) s
        | _ => fail Internal s
        end
      | ECall f args =>
        (* arguments left to right, each transferred right after its evaluation *)
        do vs <- evals n' args false r s; s =>
        let vs := boxes (convs_of args) vs in
        match f with
        | FnUser k =>
          match nth_error P k with
          | Some fd =>
            if Nat.eqb (length (fn_params fd)) (length vs) then
              match exec_stmts n' (fn_body fd) (bind_params (fn_params fd) vs []) s with
              | (Ok (OReturn v, _), s') => ret v s'
              | (Ok (ONormal, _), s') => ret VVoid s'
              | (Ok (_, _), s') => fail Internal s'
              | (Err e, s') => fail e s'
              end
            else fail Internal s
          | None => fail Internal s
          end
        | _ => native_apply f vs s
        end
      end
    end

  (* expression lists: left to right; each value is transferred (and, for array and dictionary
     literals, converted) immediately after its evaluation *)
  with evals (n : nat) (es : exprs) (bx : bool) (r : env) (s : st) {struct n} : M (list val) :=
    match n with
    | O => fail OutOfFuel s
    | S n' =>
      match es with
      | ENone => ret [] s
      | EMore e c rest =>
        do v <- eval n' e r s; s =>
        do v' <- tconv (if bx then c else O) v s; s =>
        do vs <- evals n' rest bx r s; s =>
        ret (v' :: vs) s
      end
    end

  with eval_target (n : nat) (t : target) (r : env) (s : st) {struct n} : M gs :=
    match n with
    | O => fail OutOfFuel s
    | S n' =>
      match t with
      | TVar x => ret (GVar x) s
      | TIndex a i =>
        do va <- eval n' a r s; s =>
        do vi <- eval n' i r s; s =>
        do vi' <- tconv O vi s; s =>
        ret (GIndex va vi') s
      | TMember a f =>
        do va <- eval n' a r s; s => ret (GMember va f) s
      end
    end

  with exec (n : nat) (c : stmt) (r : env) (s : st) {struct n} : M (outcome * env) :=
    match n with
    | O => fail OutOfFuel s
    | S n' =>
      match c with
      | SLet x cv e =>
        do v <- eval n' e r s; s =>
        do v' <- tconv cv v s; s =>
        ret (ONormal, (x, v') :: r) s
      | SAssign t cv e =>
        (* VisitAssignmentStatement: target sub-expressions, then the value, then the set *)
        do g <- eval_target n' t r s; s =>
        do v <- eval n' e r s; s =>
        do v' <- tconv cv v s; s =>
        do r' <- gs_set g v' r s; s =>
        ret (ONormal, r') s
      | SSwap t1 t2 cv =>
        (* VisitSwapStatement: left target+key, right target+key, left get, right get, sets *)
        do g1 <- eval_target n' t1 r s; s =>
        do g2 <- eval_target n' t2 r s; s =>
        do lp <- gs_get_swap g1 r s; s =>
        do rp <- gs_get_swap g2 r s; s =>
        let '(l, lph) := lp in
        let '(rv, _) := rp in
        if lph && is_ph rv then
          do r' <- gs_set g1 l r s; s => ret (ONormal, r') s
        else
          do rv' <- tconv cv rv s; s =>
          do l' <- tconv cv l s; s =>
          do r1 <- gs_set g1 rv' r s; s =>
          do r2 <- gs_set g2 l' r1 s; s =>
          ret (ONormal, r2) s
      | SIf c s1 s2 =>
        do vc <- eval n' c r s; s =>
        match vc with
        | VBool true => exec_block n' s1 r s
        | VBool false => match s2 with
                         | Some b2 => exec_block n' b2 r s
                         | None => ret (ONormal, r) s
                         end
        | _ => fail Internal s
        end
      | SWhile c b =>
        do vc <- eval n' c r s; s =>
        match vc with
        | VBool false => ret (ONormal, r) s
        | VBool true =>
          match exec_block n' b r s with
          | (Ok (o, r1), s1) =>
            match o with
            | OBreak => ret (ONormal, r1) s1
            | OReturn v => ret (OReturn v, r1) s1
            | _ => exec n' (SWhile c b) r1 s1
            end
          | (Err e, s1) => (Err e, s1)
          end
        | _ => fail Internal s
        end
      | SFor x cv e b =>
        do v <- eval n' e r s; s =>
        match v with
        | VRef a =>
          match nth_error (hp s) a with
          | Some (CArr l) => for_loop (exec_block n' b) x cv l r s
          | _ => fail Internal s
          end
        | _ => fail Internal s
        end
      | SBreak => ret (OBreak, r) s
      | SContinue => ret (OContinue, r) s
      | SReturn None => ret (OReturn VVoid, r) s
      | SReturn (Some (cv, e)) =>
        do v <- eval n' e r s; s =>
        do v' <- tconv cv v s; s =>
        ret (OReturn v', r) s
      | SExpr e =>
        do v <- eval n' e r s; s => ret (ONormal, r) s
      end
    end

  with exec_stmts (n : nat) (b : block) (r : env) (s : st) {struct n} : M (outcome * env) :=
    match n with
    | O => fail OutOfFuel s
    | S n' =>
      match b with
      | BNil => ret (ONormal, r) s
      | BCons c rest =>
        match exec n' c r s with
        | (Ok (ONormal, r1), s1) => exec_stmts n' rest r1 s1
        | other => other
        end
      end
    end

  (* a block opens a scope: variables declared inside are dropped at its end *)
  with exec_block (n : nat) (b : block) (r : env) (s : st) {struct n} : M (outcome * env) :=
    match n with
    | O => fail OutOfFuel s
    | S n' =>
      match exec_stmts n' b r s with
      | (Ok (o, r1), s1) => (Ok (o, skipn (length r1 - length r) r1), s1)
      | (Err e, s1) => (Err e, s1)
      end
    end.

End interp.
