(* C34: simulation of statements, statement sequences and blocks. *)
From CV Require Import MC.VM MC.SimBase MC.SimDefs MC.SimExpr MC.SimStmtBase MC.EvalOrder MC.SimSwap.
From Coq Require Import Lia.
Local Open Scope nat_scope.
Arguments bindM {A B} m f : simpl nomatch.

Section sim.
  Variable P : program.
  Notation C := (compile P).
  Notation strict := true.

  Ltac fix_code Ca :=
    match type of Ca with
    | _ = (?code, _) =>
      match type of Ca with
      | compile_e _ ?pc _ _ = _ =>
        match goal with H : code_at _ ?p code |- _ => first [constr_eq p pc | replace p with pc in H by lia] end
      | compile_b _ _ ?pc _ _ = _ =>
        match goal with H : code_at _ ?p code |- _ => first [constr_eq p pc | replace p with pc in H by lia] end
      end
    end.

  Ltac use_e IHe Ea Ca fn stk loc fs its :=
    fix_code Ca;
    let S := fresh "SX" in
    pose proof (esim_use P strict _ IHe _ _ _ _ _ _ _ _ _ _ fn stk loc fs its Ea Ca
                         ltac:(eassumption) ltac:(eassumption) ltac:(eassumption)) as S;
    cbn beta iota in S.

  Ltac norm H := repeat (progress (unfold ret, fail in H; rewrite ?bind_ok, ?bind_err in H)).
  Ltac fin_ok := apply steps_refl_eq, conf_pc_eq; len; pc_lia.
  Ltac fin_err := eexists; split; [apply steps_refl|]; vm_one.
  Ltac bad := let G := fresh in intros [G ?]; congruence.
  Ltac jump_to St := eapply steps_trans; [eapply steps_trans; [apply steps_refl_eq, conf_pc_eq|exact St]; lia|].

  (* statement prologue: the Statement marker, then an expression *)
  Lemma head_expr n (IHe : esim P strict n) e r s res s' ce pc nx code nx' fn stk loc fs its :
    eval P strict n e r s = (res, s') ->
    compile_e ce (pc + 1) nx e = (code, nx') ->
    nth_error (code_of C fn) pc = Some IStatement ->
    code_at (code_of C fn) (pc + 1) code ->
    match_env ce r loc -> wf_ce ce nx ->
    nx <= nx' /\ wf_ce ce nx' /\
    match res with
    | Ok v => exists loc' its',
              steps P (conf fn pc stk loc fs s its) (conf fn (pc + 1 + length code) (v :: stk) loc' fs s' its') /\
              keep nx loc its loc' its' /\ match_env ce r loc'
    | Err er => good er -> halts P (conf fn pc stk loc fs s its) er s'
    end.
  Proof.
    intros Ee Ce Hi Hc Hm Hw.
    destruct (esim_use P strict n IHe _ _ _ _ _ _ _ _ _ _ fn stk loc fs its Ee Ce Hc Hm Hw) as (L & W & S).
    split; auto. split; auto. destruct res as [v|er].
    - destruct S as (loc' & its' & St & K & M). exists loc', its'. split; auto.
      vstep. eapply steps_trans; [|exact St]. apply steps_refl_eq, conf_pc_eq. lia.
    - intros G. eapply halts_steps; [|now apply S]. vstep. apply steps_refl_eq, conf_pc_eq. lia.
  Qed.

  (* the conclusion of the statement simulation, as a predicate *)
  Definition sconcl (res : res (outcome * env)) (s' : st) (start : vmst) fn stk fs (cx : cctx)
             (ce cen : cenv) (endpc nx : nat) loc its : Prop :=
    match res with
    | Ok (ONormal, r') => exists loc' its',
        steps P start (conf fn endpc stk loc' fs s' its') /\ match_env cen r' loc' /\ keeps ce nx loc its loc' its'
    | Ok (OBreak, r') => exists loc' its',
        steps P start (conf fn (cx_brk cx) stk loc' fs s' its') /\ match_env ce r' loc' /\ keeps ce nx loc its loc' its'
    | Ok (OContinue, r') => exists loc' its',
        steps P start (conf fn (cx_cont cx) stk loc' fs s' its') /\ match_env ce r' loc' /\ keeps ce nx loc its loc' its'
    | Ok (OReturn v, _) => returns P start fs v s'
    | Err er => good er -> halts P start er s'
    end.

  Lemma sconcl_prefix res s' start mid fn stk fs cx ce cen endpc nx n1 loc its loc1 its1 :
    steps P start mid -> v_its start = its -> v_its mid = its1 ->
    keeps ce nx loc its loc1 its1 -> nx <= n1 ->
    sconcl res s' mid fn stk fs cx ce cen endpc n1 loc1 its1 ->
    sconcl res s' start fn stk fs cx ce cen endpc nx loc its.
  Proof.
    intros St E1 E2 K L S. unfold sconcl in *.
    destruct res as [[o r']|er].
    - destruct o.
      + destruct S as (loc' & its' & St2 & M & K2). exists loc', its'. split; [eapply steps_trans; eauto|].
        split; auto. eapply keeps_trans_same; eauto.
      + destruct S as (loc' & its' & St2 & M & K2). exists loc', its'. split; [eapply steps_trans; eauto|].
        split; auto. eapply keeps_trans_same; eauto.
      + destruct S as (loc' & its' & St2 & M & K2). exists loc', its'. split; [eapply steps_trans; eauto|].
        split; auto. eapply keeps_trans_same; eauto.
      + eapply returns_steps; eauto. rewrite E1, E2. apply K.
    - intros G. eapply halts_steps; eauto.
  Qed.

  Lemma keeps_set_var ce nx loc its loc1 its1 j v :
    keep nx loc its loc1 its1 -> in_ce ce j -> keeps ce nx loc its (set_loc loc1 j v) its1.
  Proof.
    intros [A E] Hin. split; auto. intros i Hi Hn.
    rewrite get_set_other; [now apply A|]. intros ->. now apply Hn.
  Qed.

  Ltac use_head n IHe Ee Ce fn stk loc fs its :=
    fix_code Ce;
    let S := fresh "SX" in
    pose proof (head_expr n IHe _ _ _ _ _ _ _ _ _ _ fn stk loc fs its Ee Ce
                          ltac:(eassumption) ltac:(eassumption) ltac:(eassumption) ltac:(eassumption)) as S;
    cbn beta iota in S.

  Lemma ssim_step n : (forall m, m <= n -> sim_all P strict m) -> ssim P strict (S n).
  Proof.
    intros H. destruct (H n (le_n _)) as (IHe & IHes & IHs & IHb & IHbl).
    unfold ssim. intros c r s res s' cx ce pc nx code ce' nx' fn stk loc fs its Hev Hc Hat Hm Hw Hit.
    destruct c.
    - (* SLet *)
      simpl in Hev, Hc.
      destruct (compile_e ce (pc + 1) nx e) as [cv n1] eqn:Ce.
      inversion Hc; subst; clear Hc. simpl in Hat. split_code Hat.
      destruct (eval P strict n e r s) as [[v|er] s1] eqn:Ee; norm Hev.
      2:{ inversion Hev; subst. use_head n IHe Ee Ce fn stk loc fs its. apply SX. }
      use_head n IHe Ee Ce fn stk loc fs its. destruct SX as (L1 & W1 & loc1 & its1 & St1 & K1 & M1).
      destruct (tconv c v s1) as [[v'|er] s2] eqn:T; norm Hev.
      2:{ inversion Hev; subst. intros G. eapply halts_steps; [exact St1|]. fin_err. rewrite T. reflexivity. }
      inversion Hev; subst; clear Hev.
      exists (set_loc loc1 n1 v'), its1. split; [|split].
      + eapply steps_trans; [exact St1|]. vstep. rewrite T. reflexivity. vstep. fin_ok.
      + simpl. split; [reflexivity|]. split; [apply get_set_same|].
        eapply match_env_agree; [exact W1|apply agree_set; lia|exact M1].
      + apply keeps_of_keep. eapply (keep_trans nx n1); [lia|exact K1|apply keep_set; lia].

    - (* SAssign *)
      simpl in Hev. destruct t; simpl in Hc.
      + (* variable *)
        destruct (compile_e ce (pc + 1) nx e) as [cv n1] eqn:Ce.
        inversion Hc; subst; clear Hc. simpl in Hat. split_code Hat.
        destruct n as [|m]; [inversion Hev; subst; intros [_ G]; congruence|].
        change (eval_target P strict (S m) (TVar x) r s) with (@Ok gs (GVar x), s) in Hev. norm Hev.
        destruct (eval P strict (S m) e r s) as [[v|er] s1] eqn:Ee; norm Hev.
        2:{ inversion Hev; subst. use_head (S m) IHe Ee Ce fn stk loc fs its. apply SX. }
        use_head (S m) IHe Ee Ce fn stk loc fs its. destruct SX as (L1 & W1 & loc1 & its1 & St1 & K1 & M1).
        destruct (tconv c v s1) as [[v'|er] s2] eqn:T; norm Hev.
        2:{ inversion Hev; subst. intros G. eapply halts_steps; [exact St1|]. fin_err. rewrite T. reflexivity. }
        unfold gs_set, ret, fail in Hev. destruct (update r x v') as [r'|] eqn:U; norm Hev; [|inversion Hev; subst; bad].
        inversion Hev; subst; clear Hev.
        destruct (match_env_update _ _ _ _ _ _ _ W1 M1 U) as [M2 Hin].
        exists (set_loc loc1 (local_of ce' x) v'), its1. split; [|split; [exact M2|]].
        * eapply steps_trans; [exact St1|]. vstep. rewrite T. reflexivity. vstep. fin_ok.
        * apply keeps_set_var; auto.
      + (* index *)
        destruct (compile_e ce (pc + 1) nx a) as [ca n1] eqn:Ca.
        destruct (compile_e ce (pc + 1 + length ca) n1 i) as [ci n2] eqn:Ci.
        destruct (compile_e ce (pc + 1 + length ca + length ci + 1) n2 e) as [cv n3] eqn:Ce.
        inversion Hc; subst; clear Hc. simpl in Hat. split_code Hat.
        destruct n as [|m]; [inversion Hev; subst; intros [_ G]; congruence|].
        destruct (H m ltac:(lia)) as (IHe' & _).
        rewrite target_index_unfold in Hev.
        destruct (eval P strict m a r s) as [[va|er] s1] eqn:Ea; norm Hev.
        2:{ inversion Hev; subst. use_head m IHe' Ea Ca fn stk loc fs its. apply SX. }
        use_head m IHe' Ea Ca fn stk loc fs its. destruct SX as (L1 & W1 & loc1 & its1 & St1 & K1 & M1).
        destruct (eval P strict m i r s1) as [[vi|er] s2] eqn:Ei; norm Hev.
        2:{ inversion Hev; subst. use_e IHe' Ei Ci fn (va :: stk) loc1 fs its1.
            intros G. eapply halts_steps; [exact St1|]. now apply SX. }
        use_e IHe' Ei Ci fn (va :: stk) loc1 fs its1. destruct SX as (L2 & W2 & loc2 & its2 & St2 & K2 & M2).
        destruct (tconv 0 vi s2) as [[vi'|er] s3] eqn:T0; norm Hev.
        2:{ inversion Hev; subst. intros G. eapply halts_steps; [exact St1|]. eapply halts_steps; [exact St2|].
            fin_err. rewrite T0. reflexivity. }
        assert (St3 : steps P (conf fn (pc + 1 + length ca + length ci) (vi :: va :: stk) loc2 fs s2 its2)
                            (conf fn (pc + 1 + length ca + length ci + 1) (vi' :: va :: stk) loc2 fs s3 its2)).
        { vstep. rewrite T0. reflexivity. fin_ok. }
        destruct (eval P strict (S m) e r s3) as [[v|er] s4] eqn:Ee; norm Hev.
        2:{ inversion Hev; subst. use_e IHe Ee Ce fn (vi' :: va :: stk) loc2 fs its2.
            intros G. eapply halts_steps; [exact St1|]. eapply halts_steps; [exact St2|].
            eapply halts_steps; [exact St3|]. now apply SX. }
        use_e IHe Ee Ce fn (vi' :: va :: stk) loc2 fs its2. destruct SX as (L3 & W3 & loc3 & its3 & St4 & K3 & M3).
        destruct (tconv c v s4) as [[v'|er] s5] eqn:T; norm Hev.
        2:{ inversion Hev; subst. intros G. eapply halts_steps; [exact St1|]. eapply halts_steps; [exact St2|].
            eapply halts_steps; [exact St3|]. eapply halts_steps; [exact St4|].
            fin_err. rewrite T. reflexivity. }
        unfold gs_set, ret, fail in Hev.
        assert (K : keep nx loc its loc3 its3).
        { eapply keep_trans; [|exact K1|]. 2:{ eapply keep_trans; [|exact K2|exact K3]. lia. } lia. }
        destruct (set_index (hp s5) va vi' v') as [h'|er] eqn:SI; norm Hev;
          inversion Hev; subst; clear Hev.
        * exists loc3, its3. split; [|split; [exact M3|apply keeps_of_keep, K]].
          eapply steps_trans; [exact St1|]. eapply steps_trans; [exact St2|]. eapply steps_trans; [exact St3|].
          eapply steps_trans; [exact St4|]. vstep. rewrite T. reflexivity. vstep. rewrite SI. reflexivity. fin_ok.
        * intros G. eapply halts_steps; [exact St1|]. eapply halts_steps; [exact St2|].
          eapply halts_steps; [exact St3|]. eapply halts_steps; [exact St4|].
          eapply halts_steps. { vstep. rewrite T. reflexivity. apply steps_refl. }
          fin_err. rewrite SI. reflexivity.
      + (* member *)
        destruct (compile_e ce (pc + 1) nx a) as [ca n1] eqn:Ca.
        destruct (compile_e ce (pc + 1 + length ca) n1 e) as [cv n2] eqn:Ce.
        inversion Hc; subst; clear Hc. simpl in Hat. split_code Hat.
        destruct n as [|m]; [inversion Hev; subst; intros [_ G]; congruence|].
        destruct (H m ltac:(lia)) as (IHe' & _).
        rewrite target_member_unfold in Hev.
        destruct (eval P strict m a r s) as [[va|er] s1] eqn:Ea; norm Hev.
        2:{ inversion Hev; subst. use_head m IHe' Ea Ca fn stk loc fs its. apply SX. }
        use_head m IHe' Ea Ca fn stk loc fs its. destruct SX as (L1 & W1 & loc1 & its1 & St1 & K1 & M1).
        destruct (eval P strict (S m) e r s1) as [[v|er] s2] eqn:Ee; norm Hev.
        2:{ inversion Hev; subst. use_e IHe Ee Ce fn (va :: stk) loc1 fs its1.
            intros G. eapply halts_steps; [exact St1|]. now apply SX. }
        use_e IHe Ee Ce fn (va :: stk) loc1 fs its1. destruct SX as (L2 & W2 & loc2 & its2 & St2 & K2 & M2).
        destruct (tconv c v s2) as [[v'|er] s3] eqn:T; norm Hev.
        2:{ inversion Hev; subst. intros G. eapply halts_steps; [exact St1|]. eapply halts_steps; [exact St2|].
            fin_err. rewrite T. reflexivity. }
        unfold gs_set, ret, fail in Hev.
        assert (K : keep nx loc its loc2 its2) by (eapply keep_trans; [|exact K1|exact K2]; lia).
        destruct (set_field (hp s3) va f v') as [h'|er] eqn:SF; norm Hev;
          inversion Hev; subst; clear Hev.
        * exists loc2, its2. split; [|split; [exact M2|apply keeps_of_keep, K]].
          eapply steps_trans; [exact St1|]. eapply steps_trans; [exact St2|].
          vstep. rewrite T. reflexivity. vstep. rewrite SF. reflexivity. fin_ok.
        * intros G. eapply halts_steps; [exact St1|]. eapply halts_steps; [exact St2|].
          eapply halts_steps. { vstep. rewrite T. reflexivity. apply steps_refl. }
          fin_err. rewrite SF. reflexivity.
    - (* SSwap *)
      pose proof (swap_sim P n (fun m Hle => proj1 (H m Hle)) t1 t2 c r s res s' cx ce pc nx code ce' nx'
                           fn stk loc fs its Hev Hc Hat Hm Hw) as SW.
      destruct res as [[[| | |v] r']|er]; try contradiction; exact SW.
    - (* SIf *)
      simpl in Hev. destruct s2 as [b2|]; simpl in Hc.
      + (* with else *)
        destruct (compile_e ce (pc + 1) nx c) as [cc n1] eqn:Cc.
        destruct (compile_b cx ce (pc + 1 + length cc + 1) n1 s1) as [c1 n2] eqn:B1.
        destruct (compile_b cx ce (pc + 1 + length cc + 1 + length c1 + 1) n2 b2) as [c2 n3] eqn:B2.
        inversion Hc; subst; clear Hc. simpl in Hat. split_code Hat.
        destruct (eval P strict n c r s) as [[vc|er] s1'] eqn:Ec; norm Hev.
        2:{ inversion Hev; subst. use_head n IHe Ec Cc fn stk loc fs its. apply SX. }
        use_head n IHe Ec Cc fn stk loc fs its. destruct SX as (L1 & W1 & loc1 & its1 & St1 & K1 & M1).
        pose proof (iters_ok_keeps _ _ _ _ _ _ _ _ Hit (keeps_of_keep _ _ _ _ _ _ K1) L1) as Hit1.
        destruct (compile_b_ok _ _ _ _ _ _ _ B1) as [L2 _].
        destruct vc; try (inversion Hev; subst; bad). destruct b.
        * fix_code B1.
          pose proof (IHbl _ _ _ _ _ _ _ _ _ _ _ fn stk loc1 fs its1 Hev B1 ltac:(eassumption) M1 W1 Hit1) as SB.
          change (sconcl res s' (conf fn pc stk loc fs s its) fn stk fs cx ce' ce'
                         (pc + length (IStatement :: cc ++ IJumpIfFalse (pc + 1 + length cc + 1 + length c1 + 1)
                                                  :: c1 ++ IJump (pc + 1 + length cc + 1 + length c1 + 1 + length c2) :: c2))
                         nx loc its).
          eapply (sconcl_prefix _ _ _ (conf fn (pc + 1 + length cc + 1) stk loc1 fs s1' its1));
            [eapply steps_trans; [exact St1|]; vstep; fin_ok|reflexivity|reflexivity|apply keeps_of_keep, K1|exact L1|].
          unfold sconcl. destruct res as [[[| | |v] r']|er]; try exact SB.
          destruct SB as (loc' & its' & St2 & M2 & K2). exists loc', its'. split; [|split; auto].
          eapply steps_trans; [exact St2|]. vstep. fin_ok.
        * assert (W2 : wf_ce ce' n2) by (eapply wf_ce_mono; eauto).
          assert (Hit2 : iters_ok (cx_iters cx) ce' n2 loc1).
          { eapply iters_ok_keeps; [exact Hit1|apply (keeps_refl _ _ _ its1)|exact L2]. }
          fix_code B2.
          pose proof (IHbl _ _ _ _ _ _ _ _ _ _ _ fn stk loc1 fs its1 Hev B2 ltac:(eassumption) M1 W2 Hit2) as SB.
          change (sconcl res s' (conf fn pc stk loc fs s its) fn stk fs cx ce' ce'
                         (pc + length (IStatement :: cc ++ IJumpIfFalse (pc + 1 + length cc + 1 + length c1 + 1)
                                                  :: c1 ++ IJump (pc + 1 + length cc + 1 + length c1 + 1 + length c2) :: c2))
                         nx loc its).
          eapply (sconcl_prefix _ _ _ (conf fn (pc + 1 + length cc + 1 + length c1 + 1) stk loc1 fs s1' its1) _ _ _ _ _ _ _ _ n2);
            [eapply steps_trans; [exact St1|]; vstep; fin_ok|reflexivity|reflexivity|apply keeps_of_keep, K1|lia|].
          unfold sconcl. destruct res as [[[| | |v] r']|er]; try exact SB.
          destruct SB as (loc' & its' & St2 & M2 & K2). exists loc', its'. split; [|split; auto].
          eapply steps_trans; [exact St2|]. fin_ok.
      + (* without else *)
        destruct (compile_e ce (pc + 1) nx c) as [cc n1] eqn:Cc.
        destruct (compile_b cx ce (pc + 1 + length cc + 1) n1 s1) as [c1 n2] eqn:B1.
        inversion Hc; subst; clear Hc. simpl in Hat. split_code Hat.
        destruct (eval P strict n c r s) as [[vc|er] s1'] eqn:Ec; norm Hev.
        2:{ inversion Hev; subst. use_head n IHe Ec Cc fn stk loc fs its. apply SX. }
        use_head n IHe Ec Cc fn stk loc fs its. destruct SX as (L1 & W1 & loc1 & its1 & St1 & K1 & M1).
        pose proof (iters_ok_keeps _ _ _ _ _ _ _ _ Hit (keeps_of_keep _ _ _ _ _ _ K1) L1) as Hit1.
        destruct vc; try (inversion Hev; subst; bad). destruct b.
        * fix_code B1.
          pose proof (IHbl _ _ _ _ _ _ _ _ _ _ _ fn stk loc1 fs its1 Hev B1 ltac:(eassumption) M1 W1 Hit1) as SB.
          change (sconcl res s' (conf fn pc stk loc fs s its) fn stk fs cx ce' ce'
                         (pc + length (IStatement :: cc ++ IJumpIfFalse (pc + 1 + length cc + 1 + length c1) :: c1))
                         nx loc its).
          eapply (sconcl_prefix _ _ _ (conf fn (pc + 1 + length cc + 1) stk loc1 fs s1' its1));
            [eapply steps_trans; [exact St1|]; vstep; fin_ok|reflexivity|reflexivity|apply keeps_of_keep, K1|exact L1|].
          unfold sconcl. destruct res as [[[| | |v] r']|er]; try exact SB.
          destruct SB as (loc' & its' & St2 & M2 & K2). exists loc', its'. split; [|split; auto].
          eapply steps_trans; [exact St2|]. fin_ok.
        * inversion Hev; subst; clear Hev.
          exists loc1, its1. split; [|split; [exact M1|apply keeps_of_keep, K1]].
          eapply steps_trans; [exact St1|]. vstep. fin_ok.
    - (* SWhile *)
      simpl in Hc.
      destruct (compile_e ce (pc + 1) nx c) as [cc n1] eqn:Cc.
      match type of Hc with context [compile_b ?a ?b0 ?c0 ?d ?e0] =>
        destruct (compile_b a b0 c0 d e0) as [cb n2] eqn:B end.
      inversion Hc; subst; clear Hc. simpl in Hat. split_code Hat.
      destruct (compile_b_ok _ _ _ _ _ _ _ B) as [L2 Hlen]. simpl in Hlen.
      pose proof (compile_e_le _ _ _ _ _ _ Cc) as L1.
      set (lend := pc + 1 + length cc + 2 + size_b (length (cx_iters cx)) b + 1) in *.
      set (cxb := mkCtx lend (pc + 1) (cx_iters cx)) in *.
      assert (Loop : forall m, m <= S n -> forall r0 s0 res0 s0' loc0 its0,
                 exec P strict m (SWhile c b) r0 s0 = (res0, s0') ->
                 match_env ce' r0 loc0 -> iters_ok (cx_iters cx) ce' nx loc0 ->
                 sconcl res0 s0' (conf fn (pc + 1) stk loc0 fs s0 its0) fn stk fs cx ce' ce' lend nx loc0 its0).
      { induction m as [|k IHk]; intros Hle r0 s0 res0 s0' loc0 its0 Hev0 Hm0 Hit0.
        - inversion Hev0; subst. intros [_ G]; congruence.
        - destruct (H k ltac:(lia)) as (IHe_k & _ & _ & _ & IHbl_k).
          simpl in Hev0.
          destruct (eval P strict k c r0 s0) as [[vc|er] s1] eqn:Ec; norm Hev0.
          2:{ inversion Hev0; subst. use_e IHe_k Ec Cc fn stk loc0 fs its0. unfold sconcl. apply SX. }
          use_e IHe_k Ec Cc fn stk loc0 fs its0. destruct SX as (_ & W1 & loc1 & its1 & St1 & K1 & M1).
          assert (Hit1 : iters_ok (cx_iters cxb) ce' n1 loc1).
          { eapply iters_ok_keeps; [exact Hit0|apply keeps_of_keep, K1|exact L1]. }
          destruct vc; try (inversion Hev0; subst; bad). destruct b0.
          + (* condition true *)
            assert (St2 : steps P (conf fn (pc + 1) stk loc0 fs s0 its0)
                                (conf fn (pc + 1 + length cc + 2) stk loc1 fs s1 its1)).
            { eapply steps_trans; [exact St1|]. vstep. vstep. fin_ok. }
            fix_code B.
            destruct (exec_block P strict k b r0 s1) as [[[o r1]|er] s2] eqn:Eb.
            * pose proof (IHbl_k _ _ _ _ _ cxb ce' _ _ _ _ fn stk loc1 fs its1 Eb B ltac:(eassumption) M1 W1 Hit1) as SB.
              cbn beta iota in SB.
              destruct o.
              -- (* body completes: jump back to the test *)
                 destruct SB as (loc2 & its2 & St3 & M2 & K2).
                 assert (K02 : keeps ce' nx loc0 its0 loc2 its2).
                 { eapply keeps_trans_same; [exact L1|apply keeps_of_keep, K1|exact K2]. }
                 assert (Hit2 : iters_ok (cx_iters cx) ce' nx loc2).
                 { eapply iters_ok_keeps; [exact Hit0|exact K02|lia]. }
                 pose proof (IHk ltac:(lia) _ _ _ _ loc2 its2 Hev0 M2 Hit2) as SR.
                 eapply (sconcl_prefix _ _ _ (conf fn (pc + 1) stk loc2 fs s2 its2) _ _ _ _ _ _ _ _ nx);
                   [|reflexivity|reflexivity|exact K02|lia|exact SR].
                 eapply steps_trans; [exact St2|]. eapply steps_trans; [exact St3|]. vstep. apply steps_refl.
              -- (* break *)
                 inversion Hev0; subst; clear Hev0.
                 destruct SB as (loc2 & its2 & St3 & M2 & K2).
                 exists loc2, its2. split; [|split; [exact M2|]].
                 ++ eapply steps_trans; [exact St2|]. exact St3.
                 ++ eapply keeps_trans_same; [exact L1|apply keeps_of_keep, K1|exact K2].
              -- (* continue *)
                 destruct SB as (loc2 & its2 & St3 & M2 & K2).
                 assert (K02 : keeps ce' nx loc0 its0 loc2 its2).
                 { eapply keeps_trans_same; [exact L1|apply keeps_of_keep, K1|exact K2]. }
                 assert (Hit2 : iters_ok (cx_iters cx) ce' nx loc2).
                 { eapply iters_ok_keeps; [exact Hit0|exact K02|lia]. }
                 pose proof (IHk ltac:(lia) _ _ _ _ loc2 its2 Hev0 M2 Hit2) as SR.
                 eapply (sconcl_prefix _ _ _ (conf fn (pc + 1) stk loc2 fs s2 its2) _ _ _ _ _ _ _ _ nx);
                   [|reflexivity|reflexivity|exact K02|lia|exact SR].
                 eapply steps_trans; [exact St2|]. exact St3.
              -- (* return *)
                 inversion Hev0; subst; clear Hev0.
                 eapply returns_steps; [exact St2| |exact SB]. apply K1.
            * inversion Hev0; subst; clear Hev0.
              pose proof (IHbl_k _ _ _ _ _ cxb ce' _ _ _ _ fn stk loc1 fs its1 Eb B ltac:(eassumption) M1 W1 Hit1) as SB.
              cbn beta iota in SB. intros G. eapply halts_steps; [exact St2|]. now apply SB.
          + (* condition false *)
            inversion Hev0; subst; clear Hev0.
            exists loc1, its1. split; [|split; [exact M1|apply keeps_of_keep, K1]].
            eapply steps_trans; [exact St1|]. vstep. apply steps_refl. }
      pose proof (Loop (S n) (le_n _) r s res s' loc its Hev Hm Hit) as SR.
      assert (Hend : pc + length (IStatement :: cc ++ IJumpIfFalse lend :: ILoop :: cb ++ [IJump (pc + 1)]) = lend).
      { unfold lend. len. lia. }
      change (sconcl res s' (conf fn pc stk loc fs s its) fn stk fs cx ce' ce'
                     (pc + length (IStatement :: cc ++ IJumpIfFalse lend :: ILoop :: cb ++ [IJump (pc + 1)])) nx loc its).
      rewrite Hend.
      eapply (sconcl_prefix _ _ _ (conf fn (pc + 1) stk loc fs s its) _ _ _ _ _ _ _ _ nx);
        [|reflexivity|reflexivity|apply keeps_refl|lia|exact SR].
      vstep. fin_ok.
    - (* SFor *)
      simpl in Hev, Hc.
      destruct (compile_e ce (pc + 1) nx e) as [cv n1] eqn:Ce.
      match type of Hc with context [compile_b ?a ?b0 ?c0 ?d ?e0] =>
        destruct (compile_b a b0 c0 d e0) as [cb n2] eqn:B end.
      inversion Hc; subst; clear Hc. simpl in Hat. split_code Hat.
      destruct (compile_b_ok _ _ _ _ _ _ _ B) as [L2 Hlen]. simpl in Hlen.
      rewrite app_length in Hlen. simpl in Hlen.
      replace (length (cx_iters cx) + 1) with (Datatypes.S (length (cx_iters cx))) in Hlen by lia.
      set (ltest := pc + 1 + length cv + 2) in *.
      set (lend := ltest + 8 + size_b (Datatypes.S (length (cx_iters cx))) b + 1) in *.
      set (cxb := mkCtx lend ltest (cx_iters cx ++ [n1])) in *.
      set (endpc := lend + 2).
      destruct (eval P strict n e r s) as [[v|er] s1] eqn:Ee; norm Hev.
      2:{ inversion Hev; subst. use_head n IHe Ee Ce fn stk loc fs its. apply SX. }
      use_head n IHe Ee Ce fn stk loc fs its. destruct SX as (L1 & W1 & loc1 & its1 & St1 & K1 & M1).
      destruct v; try (inversion Hev; subst; bad).
      destruct (nth_error (hp s1) a) as [[l| |]|] eqn:Ha; try (inversion Hev; subst; bad).
      set (k := length its1).
      set (locA := set_loc loc1 n1 (VIter k)).
      assert (St2 : steps P (conf fn pc stk loc fs s its) (conf fn ltest stk locA fs s1 (its1 ++ [l]))).
      { eapply steps_trans; [exact St1|]. vstep. rewrite Ha. reflexivity. vstep. fin_ok. }
      assert (Hk : length its <= k) by (apply its_ext_length, K1).
      assert (Wc : wf_ce ce' (Datatypes.S n1)) by (eapply wf_ce_mono; [|exact W1]; lia).
      assert (Hn1 : ~ in_ce ce' n1).
      { intros Hin. pose proof (wf_ce_bound _ _ _ W1 Hin). lia. }
      fix_code B.
      assert (Loop : forall l0 r0 s0 loc0 its0 res0 s0',
                 for_loop (exec_block P strict n b) x c l0 r0 s0 = (res0, s0') ->
                 match_env ce' r0 loc0 -> iters_ok (cx_iters cx) ce' nx loc0 ->
                 get_loc loc0 n1 = VIter k -> nth_error its0 k = Some l0 -> its_ext its its0 ->
                 match res0 with
                 | Ok (ONormal, r') => exists loc' its',
                     steps P (conf fn ltest stk loc0 fs s0 its0) (conf fn endpc stk loc' fs s0' its') /\
                     match_env ce' r' loc' /\ pres ce' (Datatypes.S n1) loc0 loc' /\ its_ext its its'
                 | Ok (OReturn v, _) => exists sa itsa,
                     steps P (conf fn ltest stk loc0 fs s0 its0) sa /\
                     step C sa = ret_result fs v s0' itsa /\ its_ext its itsa
                 | Ok (_, _) => False
                 | Err er => good er -> halts P (conf fn ltest stk loc0 fs s0 its0) er s0'
                 end).
      { induction l0 as [|el rest IHl]; intros r0 s0 loc0 its0 res0 s0' Hf Hm0 Hit0 Hg Hnth Hext.
        - simpl in Hf. inversion Hf; subst; clear Hf.
          exists loc0, its0. split; [|split; [exact Hm0|split; [apply pres_refl|exact Hext]]].
          vstep. rewrite Hg. vstep. rewrite Hnth. reflexivity. vstep. vstep. rewrite Hg. vstep.
          apply steps_refl_eq, conf_pc_eq. pc_lia.
        - simpl in Hf.
          assert (Hklen : k < length its0) by (apply nth_error_Some; congruence).
          set (itsB := set_nth its0 k rest).
          assert (StN : steps P (conf fn ltest stk loc0 fs s0 its0)
                              (conf fn (ltest + 6) (el :: stk) loc0 fs s0 itsB)).
          { vstep. rewrite Hg. vstep. rewrite Hnth. reflexivity. vstep. vstep. vstep. rewrite Hg.
            vstep. rewrite Hnth. reflexivity. fin_ok. }
          destruct (tconv c el s0) as [[el'|er] s1'] eqn:T; norm Hf.
          2:{ inversion Hf; subst. intros G. eapply halts_steps; [exact StN|]. fin_err. rewrite T. reflexivity. }
          set (locB := set_loc loc0 (Datatypes.S n1) el').
          assert (StB : steps P (conf fn ltest stk loc0 fs s0 its0)
                              (conf fn (ltest + 8) stk locB fs s1' itsB)).
          { eapply steps_trans; [exact StN|]. vstep. rewrite T. reflexivity. vstep. fin_ok. }
          assert (MB : match_env ((x, Datatypes.S n1) :: ce') ((x, el') :: r0) locB).
          { simpl. split; [reflexivity|]. split; [apply get_set_same|].
            eapply match_env_agree; [exact Wc|apply agree_set; lia|exact Hm0]. }
          assert (WB : wf_ce ((x, Datatypes.S n1) :: ce') (Datatypes.S (Datatypes.S n1))).
          { simpl. split; [lia|exact Wc]. }
          assert (HitB : iters_ok (cx_iters cxb) ((x, Datatypes.S n1) :: ce') (Datatypes.S (Datatypes.S n1)) locB).
          { intros it Hin. simpl in Hin. apply in_app_or in Hin. destruct Hin as [Hin|[<-|[]]].
            - destruct (Hit0 it Hin) as (A1 & A2 & kk & A3).
              split; [lia|]. split.
              + intros [y [Hy|Hy]]; [inversion Hy; lia|]. apply A2. now exists y.
              + exists kk. unfold locB. rewrite get_set_other by lia. exact A3.
            - split; [lia|]. split.
              + intros [y [Hy|Hy]]; [inversion Hy; lia|]. apply Hn1. now exists y.
              + exists k. unfold locB. rewrite get_set_other by lia. exact Hg. }
          assert (HextB : its_ext its itsB) by (apply its_ext_set; auto; lia).
          assert (HnthB : nth_error itsB k = Some rest) by (apply nth_error_set_nth; exact Hklen).
          destruct (exec_block P strict n b ((x, el') :: r0) s1') as [[[o r1]|er] s2] eqn:Eb.
          2:{ inversion Hf; subst.
              pose proof (IHbl _ _ _ _ _ cxb _ _ _ _ _ fn stk locB fs itsB Eb B ltac:(eassumption) MB WB HitB) as SB.
              cbn beta iota in SB. intros G. eapply halts_steps; [exact StB|]. now apply SB. }
          pose proof (IHbl _ _ _ _ _ cxb _ _ _ _ _ fn stk locB fs itsB Eb B ltac:(eassumption) MB WB HitB) as SB.
          cbn beta iota in SB.
          (* facts about the state after the body, shared by the normal / break / continue outcomes *)
          assert (After : forall loc2 its2,
                     match_env ((x, Datatypes.S n1) :: ce') r1 loc2 ->
                     keeps ((x, Datatypes.S n1) :: ce') (Datatypes.S (Datatypes.S n1)) locB itsB loc2 its2 ->
                     match_env ce' (tl r1) loc2 /\ iters_ok (cx_iters cx) ce' nx loc2 /\
                     get_loc loc2 n1 = VIter k /\ nth_error its2 k = Some rest /\ its_ext its its2 /\
                     pres ce' (Datatypes.S n1) loc0 loc2).
          { intros loc2 its2 M2 [P2 E2].
            assert (Pr : pres ce' (Datatypes.S n1) loc0 loc2).
            { intros i Hlt Hni. rewrite P2; [|lia|].
              - unfold locB. apply get_set_other. lia.
              - intros [y [Hy|Hy]]; [inversion Hy; lia|]. apply Hni. now exists y. }
            destruct r1 as [|[y v1] r1']; simpl in M2; [contradiction|]. destruct M2 as (_ & _ & M2).
            split; [exact M2|]. split.
            { intros it Hin. destruct (Hit0 it Hin) as (A1 & A2 & kk & A3).
              split; auto. split; auto. exists kk. rewrite Pr; auto. lia. }
            split; [rewrite Pr; auto|].
            split; [rewrite (its_ext_nth _ _ _ E2); [exact HnthB|unfold itsB; rewrite set_nth_length; exact Hklen]|].
            split; [eapply its_ext_trans; eauto|exact Pr]. }
          destruct o.
          * (* body completes: jump back *)
            destruct SB as (loc2 & its2 & St3 & M2 & K2).
            destruct (After loc2 its2 M2 K2) as (M2' & Hit2 & Hg2 & Hnth2 & Hext2 & Pr2).
            pose proof (IHl _ _ loc2 its2 _ _ Hf M2' Hit2 Hg2 Hnth2 Hext2) as SR.
            assert (StJ : steps P (conf fn ltest stk loc0 fs s0 its0) (conf fn ltest stk loc2 fs s2 its2)).
            { eapply steps_trans; [exact StB|]. eapply steps_trans; [exact St3|]. vstep. apply steps_refl. }
            destruct res0 as [[[| | |v] r']|er]; try contradiction.
            -- destruct SR as (loc' & its' & St4 & M4 & P4 & E4). exists loc', its'.
               split; [eapply steps_trans; eauto|]. split; [exact M4|]. split; [|exact E4].
               intros i Hlt Hni. rewrite P4; auto.
            -- destruct SR as (sa & itsa & St4 & Hs & E4). exists sa, itsa. split; [eapply steps_trans; eauto|auto].
            -- intros G. eapply halts_steps; [exact StJ|]. now apply SR.
          * (* break *)
            inversion Hf; subst; clear Hf.
            destruct SB as (loc2 & its2 & St3 & M2 & K2).
            destruct (After loc2 its2 M2 K2) as (M2' & Hit2 & Hg2 & Hnth2 & Hext2 & Pr2).
            exists loc2, its2. split; [|split; [exact M2'|split; [exact Pr2|exact Hext2]]].
            eapply steps_trans; [exact StB|]. eapply steps_trans; [exact St3|].
            vstep. rewrite Hg2. vstep. apply steps_refl_eq, conf_pc_eq. pc_lia.
          * (* continue *)
            destruct SB as (loc2 & its2 & St3 & M2 & K2).
            destruct (After loc2 its2 M2 K2) as (M2' & Hit2 & Hg2 & Hnth2 & Hext2 & Pr2).
            pose proof (IHl _ _ loc2 its2 _ _ Hf M2' Hit2 Hg2 Hnth2 Hext2) as SR.
            assert (StJ : steps P (conf fn ltest stk loc0 fs s0 its0) (conf fn ltest stk loc2 fs s2 its2)).
            { eapply steps_trans; [exact StB|]. exact St3. }
            destruct res0 as [[[| | |v] r']|er]; try contradiction.
            -- destruct SR as (loc' & its' & St4 & M4 & P4 & E4). exists loc', its'.
               split; [eapply steps_trans; eauto|]. split; [exact M4|]. split; [|exact E4].
               intros i Hlt Hni. rewrite P4; auto.
            -- destruct SR as (sa & itsa & St4 & Hs & E4). exists sa, itsa. split; [eapply steps_trans; eauto|auto].
            -- intros G. eapply halts_steps; [exact StJ|]. now apply SR.
          * (* return *)
            inversion Hf; subst; clear Hf.
            destruct SB as (sa & itsa & St3 & Hs & E3).
            exists sa, itsa. split; [eapply steps_trans; eauto|]. split; [exact Hs|].
            eapply its_ext_trans; [exact HextB|exact E3]. }
      assert (MA : match_env ce' r locA).
      { eapply match_env_agree; [exact W1|apply agree_set; lia|exact M1]. }
      assert (HitA : iters_ok (cx_iters cx) ce' nx locA).
      { intros it Hin. destruct (Hit it Hin) as (A1 & A2 & kk & A3). split; auto. split; auto.
        exists kk. unfold locA. rewrite get_set_other by lia. destruct K1 as [Ag _]. rewrite Ag; auto. }
      pose proof (Loop l r s1 locA (its1 ++ [l]) res s' Hev MA HitA
                       ltac:(apply get_set_same) ltac:(apply nth_error_app_last)
                       ltac:(eapply its_ext_trans; [apply K1|apply its_ext_app])) as SR.
      assert (Hend : pc + length (IStatement :: cv ++ IIterator :: ISetLocal n1 :: IGetLocal n1 :: IIterHasNext
                                  :: IJumpIfFalse lend :: ILoop :: IGetLocal n1 :: IIterNext :: ITransferConv c
                                  :: ISetLocal (Datatypes.S n1) :: cb ++ [IJump ltest; IGetLocal n1; IIterEnd]) = endpc).
      { unfold endpc, lend, ltest. len. lia. }
      rewrite Hend.
      assert (PA : forall loc', pres ce' (Datatypes.S n1) locA loc' -> pres ce' nx loc loc').
      { intros loc' Pr i Hlt Hni. rewrite Pr; [|lia|auto]. unfold locA. rewrite get_set_other by lia.
        destruct K1 as [Ag _]. now apply Ag. }
      destruct res as [[[| | |v] r']|er]; try contradiction.
      + destruct SR as (loc' & its' & St4 & M4 & P4 & E4). exists loc', its'.
        split; [eapply steps_trans; eauto|]. split; [exact M4|]. split; [apply PA, P4|exact E4].
      + destruct SR as (sa & itsa & St4 & Hs & E4). exists sa, itsa. split; [eapply steps_trans; eauto|auto].
      + intros G. eapply halts_steps; [exact St2|]. now apply SR.
    - (* SBreak *)
      simpl in Hev, Hc. inversion Hev; inversion Hc; subst. split_code Hat.
      exists loc, its. split; [|split; [exact Hm|apply keeps_refl]]. vstep. vstep. apply steps_refl.
    - (* SContinue *)
      simpl in Hev, Hc. inversion Hev; inversion Hc; subst. split_code Hat.
      exists loc, its. split; [|split; [exact Hm|apply keeps_refl]]. vstep. vstep. apply steps_refl.
    - (* SReturn *)
      simpl in Hev. destruct r0 as [[cv e]|]; simpl in Hc.
      + destruct (compile_e ce (pc + 1) nx e) as [cd n1] eqn:Ce.
        inversion Hc; subst; clear Hc. simpl in Hat. split_code Hat.
        destruct (eval P strict n e r s) as [[v|er] s1] eqn:Ee; norm Hev.
        2:{ inversion Hev; subst. use_head n IHe Ee Ce fn stk loc fs its. apply SX. }
        use_head n IHe Ee Ce fn stk loc fs its. destruct SX as (L1 & W1 & loc1 & its1 & St1 & K1 & M1).
        pose proof (iters_ok_keeps _ _ _ _ _ _ _ _ Hit (keeps_of_keep _ _ _ _ _ _ K1) L1) as Hit1.
        assert (St2 : steps P (conf fn (pc + 1 + length cd) (v :: stk) loc1 fs s1 its1)
                            (conf fn (pc + 1 + length cd + length (iter_ends (cx_iters cx))) (v :: stk) loc1 fs s1 its1)).
        { apply iter_ends_steps.
          - match goal with Hx : code_at _ ?p (iter_ends _) |- _ => replace p with (pc + 1 + length cd) in Hx by lia; exact Hx end.
          - intros it Hin. destruct (Hit1 it Hin) as (_ & _ & Hk). exact Hk. }
        destruct (tconv cv v s1) as [[v'|er] s2] eqn:T; norm Hev.
        2:{ inversion Hev; subst. intros G. eapply halts_steps; [exact St1|]. eapply halts_steps; [exact St2|].
            fin_err. rewrite T. reflexivity. }
        inversion Hev; subst; clear Hev.
        eexists _, its1. split; [|split; [|apply K1]].
        * eapply steps_trans; [exact St1|]. eapply steps_trans; [exact St2|].
          vstep. rewrite T. reflexivity. apply steps_refl.
        * apply return_value_step.
          match goal with Hx : nth_error _ ?p = Some IReturnValue |- _ =>
            replace (S (pc + 1 + length cd + length (iter_ends (cx_iters cx)))) with p by lia; exact Hx end.
      + inversion Hev; inversion Hc; subst. simpl in Hat. split_code Hat.
        assert (St2 : steps P (conf fn (S pc) stk loc fs s' its)
                            (conf fn (S pc + length (iter_ends (cx_iters cx))) stk loc fs s' its)).
        { apply iter_ends_steps; auto.
          intros it Hin. destruct (Hit it Hin) as (_ & _ & Hk). exact Hk. }
        eexists _, its. split; [|split; [|apply its_ext_refl]].
        * vstep. exact St2.
        * apply return_step. assumption.
    - (* SExpr *)
      simpl in Hev, Hc.
      destruct (compile_e ce (pc + 1) nx e) as [cd n1] eqn:Ce.
      inversion Hc; subst; clear Hc. simpl in Hat. split_code Hat.
      destruct (eval P strict n e r s) as [[v|er] s1] eqn:Ee; norm Hev.
      2:{ inversion Hev; subst. use_head n IHe Ee Ce fn stk loc fs its. apply SX. }
      use_head n IHe Ee Ce fn stk loc fs its. destruct SX as (L1 & W1 & loc1 & its1 & St1 & K1 & M1).
      inversion Hev; subst; clear Hev.
      exists loc1, its1. split; [|split; [exact M1|apply keeps_of_keep, K1]].
      eapply steps_trans; [exact St1|]. vstep. fin_ok.
  Qed.

  Lemma ce_grows_app ce ce1 nx nx1 : ce_grows ce ce1 nx nx1 -> exists cex, ce1 = cex ++ ce.
  Proof. intros [->|(x & i & -> & _)]; [now exists []|now exists [(x, i)]]. Qed.

  Lemma bsim_step n : (forall m, m <= n -> sim_all P strict m) -> bsim P strict (S n).
  Proof.
    intros H. destruct (H n (le_n _)) as (IHe & IHes & IHs & IHb & IHbl).
    unfold bsim. intros b r s res s' cx ce pc nx code nx' fn stk loc fs its Hev Hc Hat Hm Hw Hit.
    destruct b as [|c rest]; simpl in Hev, Hc.
    - inversion Hev; inversion Hc; subst. exists loc, its, []. split; [|split; [exact Hm|apply keeps_refl]].
      fin_ok.
    - destruct (compile_s cx ce pc nx c) as [[c1 ce1] n1] eqn:S1.
      destruct (compile_b cx ce1 (pc + length c1) n1 rest) as [c2 n2] eqn:B2.
      inversion Hc; subst; clear Hc. apply code_at_app in Hat. destruct Hat as [Hc1 Hc2].
      destruct (compile_s_ok _ _ _ _ _ _ _ _ S1) as (L1 & G1 & _).
      destruct (exec P strict n c r s) as [[[o r1]|er] s1] eqn:Ec.
      2:{ pose proof (IHs _ _ _ _ _ cx ce pc nx c1 ce1 n1 fn stk loc fs its Ec S1 Hc1 Hm Hw Hit) as SS.
          inversion Hev; subst. exact SS. }
      destruct (ce_grows_app _ _ _ _ G1) as [cex Hcex].
      pose proof (IHs _ _ _ _ _ cx ce pc nx c1 ce1 n1 fn stk loc fs its Ec S1 Hc1 Hm Hw Hit) as SS.
      cbn beta iota in SS.
      destruct o.
      + destruct SS as (loc1 & its1 & St1 & M1 & K1).
        assert (W1 : wf_ce ce1 n1) by (eapply ce_grows_wf; eauto).
        assert (Hit1 : iters_ok (cx_iters cx) ce1 n1 loc1).
        { intros it Hin. destruct (Hit it Hin) as (A1 & A2 & kk & A3).
          split; [lia|]. split; [eapply ce_grows_in; eauto|]. exists kk. destruct K1 as [Pr _]. rewrite Pr; auto. }
        pose proof (IHb _ _ _ _ _ cx ce1 _ n1 c2 _ fn stk loc1 fs its1 Hev B2 Hc2 M1 W1 Hit1) as SB.
        cbn beta iota in SB.
        assert (KK : forall loc2 its2, keeps ce1 n1 loc1 its1 loc2 its2 -> keeps ce nx loc its loc2 its2).
        { intros loc2 its2 K2. eapply keeps_trans; [exact L1| |exact K1|exact K2].
          intros i Hlt Hni. eapply ce_grows_in; eauto. }
        destruct res as [[[| | |v] r']|er].
        * destruct SB as (loc2 & its2 & ce2 & St2 & M2 & K2). exists loc2, its2, (ce2 ++ cex).
          split; [eapply steps_trans; [exact St1|]; eapply steps_trans; [exact St2|]; fin_ok|].
          split; [rewrite <- app_assoc, <- Hcex; exact M2|apply KK, K2].
        * destruct SB as (loc2 & its2 & ce2 & St2 & M2 & K2). exists loc2, its2, (ce2 ++ cex).
          split; [eapply steps_trans; eauto|].
          split; [rewrite <- app_assoc, <- Hcex; exact M2|apply KK, K2].
        * destruct SB as (loc2 & its2 & ce2 & St2 & M2 & K2). exists loc2, its2, (ce2 ++ cex).
          split; [eapply steps_trans; eauto|].
          split; [rewrite <- app_assoc, <- Hcex; exact M2|apply KK, K2].
        * eapply returns_steps; [exact St1|apply K1|exact SB].
        * intros G. eapply halts_steps; [exact St1|]. now apply SB.
      + inversion Hev; subst. destruct SS as (loc1 & its1 & St1 & M1 & K1). exists loc1, its1, []. auto.
      + inversion Hev; subst. destruct SS as (loc1 & its1 & St1 & M1 & K1). exists loc1, its1, []. auto.
      + inversion Hev; subst. exact SS.
  Qed.

  Lemma blsim_step n : (forall m, m <= n -> sim_all P strict m) -> blsim P strict (S n).
  Proof.
    intros H. destruct (H n (le_n _)) as (IHe & IHes & IHs & IHb & IHbl).
    unfold blsim. intros b r s res s' cx ce pc nx code nx' fn stk loc fs its Hev Hc Hat Hm Hw Hit.
    simpl in Hev.
    destruct (exec_stmts P strict n b r s) as [[[o r1]|er] s1] eqn:Eb.
    2:{ inversion Hev; subst.
        exact (IHb _ _ _ _ _ cx ce pc nx code nx' fn stk loc fs its Eb Hc Hat Hm Hw Hit). }
    pose proof (IHb _ _ _ _ _ cx ce pc nx code nx' fn stk loc fs its Eb Hc Hat Hm Hw Hit) as SB.
    cbn beta iota in SB. inversion Hev; subst; clear Hev.
    assert (Trunc : forall ce2 loc', match_env (ce2 ++ ce) r1 loc' ->
                                     match_env ce (skipn (length r1 - length r) r1) loc').
    { intros ce2 loc' M. pose proof (match_env_length _ _ _ M) as E1.
      pose proof (match_env_length _ _ _ Hm) as E2. rewrite app_length in E1.
      replace (length r1 - length r) with (length ce2) by lia. now apply match_env_skip. }
    destruct o.
    - destruct SB as (loc' & its' & ce2 & St & M & K). exists loc', its'. split; auto. split; auto. eapply Trunc; eauto.
    - destruct SB as (loc' & its' & ce2 & St & M & K). exists loc', its'. split; auto. split; auto. eapply Trunc; eauto.
    - destruct SB as (loc' & its' & ce2 & St & M & K). exists loc', its'. split; auto. split; auto. eapply Trunc; eauto.
    - exact SB.
  Qed.
End sim.
