(* MiniCadence: the value library shared by both engine models.
   In /repo the tree-walking interpreter and the bbq VM both operate on interpreter.Value
   (interpreter/value_*.go): Int8Value.Plus/..., TestValueEqual, Transfer, ConvertAndBox/BoxOptional,
   ArrayValue/DictionaryValue Get/Set/RemoveKey, CompositeValue Get/SetMember.  This file models that
   common library once; Interp.v and VM.v both call it.
   [Err Internal] marks an operation applied to operands the checker never lets through
   (errors.NewUnreachableError / failed Go type assertion) or a value outside the modelled fragment. *)
From CV Require Export MC.Syntax.

(* ------------------------------------------------------------------ state *)

Record st := mkSt { hp : heap; tr : list val }.

Definition with_hp (s : st) (h : heap) : st := mkSt h (tr s).
Definition log_val (s : st) (v : val) : st := mkSt (hp s) (tr s ++ [v]).

(* ------------------------------------------------------------------ Int8 arithmetic (value_int8.go) *)

Definition int_min : Z := -128.
Definition int_max : Z := 127.

Definition in_int (z : Z) : bool := (int_min <=? z) && (z <=? int_max).

Definition range_check (r : Z) : res val :=
  if r >? int_max then Err Overflow
  else if r <? int_min then Err Underflow
  else Ok (VInt r).

Definition arith (op : binop) (v o : Z) : res val :=
  match op with
  | BAdd => range_check (v + o)
  | BSub => range_check (v - o)
  | BMul => range_check (v * o)
  | BDiv => if o =? 0 then Err DivZero
            else if (v =? int_min) && (o =? -1) then Err Overflow
            else Ok (VInt (Z.quot v o))
  | BMod => if o =? 0 then Err DivZero else Ok (VInt (Z.rem v o))
  | BLt => Ok (VBool (v <? o))
  | BLe => Ok (VBool (v <=? o))
  | BGt => Ok (VBool (v >? o))
  | BGe => Ok (VBool (v >=? o))
  | BEq | BNe => Err Internal
  end.

(* interpreter.Unbox *)
Fixpoint unbox (v : val) : val :=
  match v with VSome w => unbox w | _ => v end.

Fixpoint zlist_eqb (a b : list Z) : bool :=
  match a, b with
  | [], [] => true
  | x :: a', y :: b' => (x =? y) && zlist_eqb a' b'
  | _, _ => false
  end.

(* TestValueEqual on the equatable values of the fragment (after Unbox of both sides);
   containers are outside the fragment *)
Definition base_eq (a b : val) : res bool :=
  match a, b with
  | VInt x, VInt y => Ok (x =? y)
  | VBool x, VBool y => Ok (Bool.eqb x y)
  | VStr x, VStr y => Ok (zlist_eqb x y)
  | VNil, VNil => Ok true
  | VRef _, _ | _, VRef _ | VFun _, _ | _, VFun _ | VIter _, _ | _, VIter _
  | VPh, _ | _, VPh | VSome _, _ | _, VSome _ => Err Internal
  | _, _ => Ok false
  end.

Definition val_equal (a b : val) : res bool := base_eq (unbox a) (unbox b).

Definition binop_apply (op : binop) (a b : val) : res val :=
  match op with
  | BEq => match val_equal a b with Ok r => Ok (VBool r) | Err e => Err e end
  | BNe => match val_equal a b with Ok r => Ok (VBool (negb r)) | Err e => Err e end
  | _ => match a, b with
         | VInt x, VInt y => arith op x y
         | _, _ => Err Internal
         end
  end.

(* ------------------------------------------------------------------ optionals *)

(* interpreter.BoxOptional: wrap until the optional depth of the target type is reached;
   a nil anywhere inside stops the wrapping *)
Fixpoint box_go (d : nat) (inner value : val) : val :=
  match d with
  | O => value
  | S d' => match inner with
            | VSome i => box_go d' i value
            | VNil => value
            | _ => box_go d' inner (VSome value)
            end
  end.
Definition box (d : conv) (v : val) : val := box_go d v v.

Definition is_optional (v : val) : bool :=
  match v with VNil | VSome _ => true | _ => false end.

(* Wrap{skipIfOptional} *)
Definition wrap (skip : bool) (v : val) : val :=
  if skip && is_optional v then v else VSome v.

(* Unwrap / force: Some(v) -> v ; nil -> ForceNilError ; non-optional left as is *)
Definition unwrap (v : val) : res val :=
  match v with
  | VSome w => Ok w
  | VNil => Err TypeMismatch
  | _ => Ok v
  end.

(* ------------------------------------------------------------------ heap *)

Definition alloc (h : heap) (c : cell) : heap * nat := (h ++ [c], length h).

Fixpoint set_nth {A} (l : list A) (n : nat) (x : A) : list A :=
  match l, n with
  | [], _ => []
  | _ :: r, O => x :: r
  | y :: r, S n' => y :: set_nth r n' x
  end.

Definition hset (h : heap) (a : nat) (c : cell) : heap := set_nth h a c.

(* Transfer of a non-resource value = deep copy of containers (Value.Transfer with remove=false).
   Fuel is consumed only when a reference is followed; S (length h) suffices for an acyclic heap. *)
Section copy.
  Variable copy_ref : val -> heap -> option (val * heap).
  Fixpoint copy_val (v : val) (h : heap) : option (val * heap) :=
    match v with
    | VSome w => match copy_val w h with
                 | Some (w', h') => Some (VSome w', h')
                 | None => None
                 end
    | VRef _ => copy_ref v h
    | _ => Some (v, h)
    end.
  Fixpoint copy_vals (l : list val) (h : heap) : option (list val * heap) :=
    match l with
    | [] => Some ([], h)
    | v :: r => match copy_val v h with
                | Some (v', h1) => match copy_vals r h1 with
                                   | Some (r', h2) => Some (v' :: r', h2)
                                   | None => None
                                   end
                | None => None
                end
    end.
  Fixpoint copy_pairs (l : list (val * val)) (h : heap) : option (list (val * val) * heap) :=
    match l with
    | [] => Some ([], h)
    | (k, v) :: r => match copy_val k h with
                     | Some (k', h1) =>
                       match copy_val v h1 with
                       | Some (v', h2) => match copy_pairs r h2 with
                                          | Some (r', h3) => Some ((k', v') :: r', h3)
                                          | None => None
                                          end
                       | None => None
                       end
                     | None => None
                     end
    end.
End copy.

Fixpoint copy_ref (n : nat) (v : val) (h : heap) : option (val * heap) :=
  match n with
  | O => None
  | S n' =>
    match v with
    | VRef a =>
      match nth_error h a with
      | Some (CArr l) => match copy_vals (copy_ref n') l h with
                         | Some (l', h') => let '(h'', a') := alloc h' (CArr l') in Some (VRef a', h'')
                         | None => None
                         end
      | Some (CDict l) => match copy_pairs (copy_ref n') l h with
                          | Some (l', h') => let '(h'', a') := alloc h' (CDict l') in Some (VRef a', h'')
                          | None => None
                          end
      | Some (CStruct sid l) => match copy_vals (copy_ref n') l h with
                                | Some (l', h') => let '(h'', a') := alloc h' (CStruct sid l') in Some (VRef a', h'')
                                | None => None
                                end
      | None => None
      end
    | _ => None
    end
  end.

Definition copy (v : val) (h : heap) : option (val * heap) :=
  copy_val (copy_ref (S (length h))) v h.

(* Transfer *)
Definition transfer (v : val) (s : st) : res val * st :=
  match copy v (hp s) with
  | Some (v', h') => (Ok v', with_hp s h')
  | None => (Err Internal, s)
  end.

(* TransferAndConvert / TransferIfNotResourceAndConvert for non-resources *)
Definition tconv (d : conv) (v : val) (s : st) : res val * st :=
  match copy v (hp s) with
  | Some (v', h') => (Ok (box d v'), with_hp s h')
  | None => (Err Internal, s)
  end.

(* ------------------------------------------------------------------ containers *)

Definition is_key (v : val) : bool :=
  match v with VInt _ | VBool _ | VStr _ => true | _ => false end.

Definition key_eqb (a b : val) : bool :=
  match a, b with
  | VInt x, VInt y => x =? y
  | VBool x, VBool y => Bool.eqb x y
  | VStr x, VStr y => zlist_eqb x y
  | _, _ => false
  end.

Fixpoint dict_get (l : list (val * val)) (k : val) : option val :=
  match l with
  | [] => None
  | (k', v) :: r => if key_eqb k' k then Some v else dict_get r k
  end.

Fixpoint dict_put (l : list (val * val)) (k v : val) : list (val * val) :=
  match l with
  | [] => [(k, v)]
  | (k', v') :: r => if key_eqb k' k then (k', v) :: r else (k', v') :: dict_put r k v
  end.

Fixpoint dict_del (l : list (val * val)) (k : val) : list (val * val) :=
  match l with
  | [] => []
  | (k', v') :: r => if key_eqb k' k then r else (k', v') :: dict_del r k
  end.

(* NewDictionaryValue(k1,v1,k2,v2,...): later entries overwrite earlier ones *)
Fixpoint dict_of (l : list val) (acc : list (val * val)) : option (list (val * val)) :=
  match l with
  | [] => Some acc
  | k :: v :: r => if is_key k then dict_of r (dict_put acc k v) else None
  | _ => None
  end.

Definition arr_index (l : list val) (i : Z) : option nat :=
  if (0 <=? i) && (i <? Z.of_nat (length l)) then Some (Z.to_nat i) else None.

(* GetKey: ArrayValue.Get (bounds-checked) / DictionaryValue.GetKey (optional result) *)
Definition get_index (h : heap) (c i : val) : res val :=
  match c with
  | VRef a =>
    match nth_error h a with
    | Some (CArr l) =>
      match i with
      | VInt z => match arr_index l z with
                  | Some n => match nth_error l n with Some v => Ok v | None => Err Internal end
                  | None => Err IndexOOB
                  end
      | _ => Err Internal
      end
    | Some (CDict l) =>
      if is_key i then Ok (match dict_get l i with Some v => VSome v | None => VNil end)
      else Err Internal
    | _ => Err Internal
    end
  | _ => Err Internal
  end.

(* SetKey: ArrayValue.Set (bounds-checked) / DictionaryValue.SetKey (Some v inserts, nil removes) *)
Definition set_index (h : heap) (c i v : val) : res heap :=
  match c with
  | VRef a =>
    match nth_error h a with
    | Some (CArr l) =>
      match i with
      | VInt z => match arr_index l z with
                  | Some n => Ok (hset h a (CArr (set_nth l n v)))
                  | None => Err IndexOOB
                  end
      | _ => Err Internal
      end
    | Some (CDict l) =>
      if is_key i then
        match v with
        | VSome w => Ok (hset h a (CDict (dict_put l i w)))
        | VNil => Ok (hset h a (CDict (dict_del l i)))
        | _ => Err Internal
        end
      else Err Internal
    | _ => Err Internal
    end
  | _ => Err Internal
  end.

(* RemoveKey followed by InsertKey of a placeholder (swap of indexed slots); arrays only:
   dictionary slots in swap statements are outside the modelled fragment *)
Definition remove_index (h : heap) (c i : val) : res (val * heap) :=
  match c with
  | VRef a =>
    match nth_error h a with
    | Some (CArr l) =>
      match i with
      | VInt z => match arr_index l z with
                  | Some n => match nth_error l n with
                              | Some v => Ok (v, hset h a (CArr (set_nth l n VPh)))
                              | None => Err Internal
                              end
                  | None => Err IndexOOB
                  end
      | _ => Err Internal
      end
    | _ => Err Internal
    end
  | _ => Err Internal
  end.

Definition get_field (h : heap) (c : val) (f : nat) : res val :=
  match c with
  | VRef a =>
    match nth_error h a with
    | Some (CStruct _ fs) => match nth_error fs f with Some v => Ok v | None => Err Internal end
    | _ => Err Internal
    end
  | _ => Err Internal
  end.

Definition set_field (h : heap) (c : val) (f : nat) (v : val) : res heap :=
  match c with
  | VRef a =>
    match nth_error h a with
    | Some (CStruct sid fs) =>
      if Nat.ltb f (length fs) then Ok (hset h a (CStruct sid (set_nth fs f v))) else Err Internal
    | _ => Err Internal
    end
  | _ => Err Internal
  end.

Definition is_ph (v : val) : bool := match v with VPh => true | _ => false end.

(* ------------------------------------------------------------------ native functions *)

Fixpoint boxes (cs : list conv) (vs : list val) : list val :=
  match cs, vs with
  | c :: cs', v :: vs' => box c v :: boxes cs' vs'
  | _, _ => vs
  end.

(* log, probe and struct constructors; arguments are already transferred and converted *)
Definition native_apply (f : fnref) (vs : list val) (s : st) : res val * st :=
  match f, vs with
  | FnLog, [v] => (Ok VVoid, log_val s v)
  | FnProbe, [k; v] => (Ok v, log_val s k)
  | FnCtor sid, _ => let '(h', a) := alloc (hp s) (CStruct sid vs) in (Ok (VRef a), with_hp s h')
  | _, _ => (Err Internal, s)
  end.
