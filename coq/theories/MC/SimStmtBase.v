(* C34: facts about the statement compiler (monotone local counter, code sizes, environment growth)
   and bookkeeping lemmas for the statement simulation. *)
From CV Require Import MC.VM MC.SimBase MC.SimDefs MC.SimExpr.
From Coq Require Import Lia.
Local Open Scope nat_scope.

(* mutual induction over statements and blocks (the generated scheme gives no hypothesis for the
   optional else-block, which is nested under option) *)
Section stmt_ind.
  Variables (Ps : stmt -> Prop) (Pb : block -> Prop).
  Hypothesis HLet : forall x c e, Ps (SLet x c e).
  Hypothesis HAssign : forall t c e, Ps (SAssign t c e).
  Hypothesis HSwap : forall t1 t2 c, Ps (SSwap t1 t2 c).
  Hypothesis HIf1 : forall c b1, Pb b1 -> Ps (SIf c b1 None).
  Hypothesis HIf2 : forall c b1 b2, Pb b1 -> Pb b2 -> Ps (SIf c b1 (Some b2)).
  Hypothesis HWhile : forall c b, Pb b -> Ps (SWhile c b).
  Hypothesis HFor : forall x c e b, Pb b -> Ps (SFor x c e b).
  Hypothesis HBreak : Ps SBreak.
  Hypothesis HContinue : Ps SContinue.
  Hypothesis HReturn : forall r, Ps (SReturn r).
  Hypothesis HExpr : forall e, Ps (SExpr e).
  Hypothesis HNil : Pb BNil.
  Hypothesis HCons : forall s b, Ps s -> Pb b -> Pb (BCons s b).

  Fixpoint stmt_ind2 (s : stmt) : Ps s :=
    match s with
    | SLet x c e => HLet x c e
    | SAssign t c e => HAssign t c e
    | SSwap t1 t2 c => HSwap t1 t2 c
    | SIf c b1 None => HIf1 c b1 (block_ind2 b1)
    | SIf c b1 (Some b2) => HIf2 c b1 b2 (block_ind2 b1) (block_ind2 b2)
    | SWhile c b => HWhile c b (block_ind2 b)
    | SFor x c e b => HFor x c e b (block_ind2 b)
    | SBreak => HBreak
    | SContinue => HContinue
    | SReturn r => HReturn r
    | SExpr e => HExpr e
    end
  with block_ind2 (b : block) : Pb b :=
    match b with
    | BNil => HNil
    | BCons s r => HCons s r (stmt_ind2 s) (block_ind2 r)
    end.

  Lemma stmt_block_ind : (forall s, Ps s) /\ (forall b, Pb b).
  Proof. split; [exact stmt_ind2|exact block_ind2]. Qed.
End stmt_ind.

(* ------------------------------------------------------------------ swap pieces *)

Lemma swap_side_facts ce pc nx t code tl kl nx' :
  compile_swap_side ce pc nx t = (code, tl, kl, nx') ->
  nx <= nx' /\ length code = swap_side_size t /\ nx <= tl < nx' /\
  (is_index_target t = true -> nx <= kl < nx' /\ tl <> kl).
Proof.
  destruct t; simpl.
  - intros H. inversion H; subst. simpl. repeat split; try lia; discriminate.
  - destruct (compile_e ce pc nx a) as [ca n1] eqn:Ca.
    destruct (compile_e ce (pc + length ca + 1) (S n1) i) as [ci n2] eqn:Ci.
    intros H. inversion H; subst; clear H.
    pose proof (compile_e_le _ _ _ _ _ _ Ca). pose proof (compile_e_le _ _ _ _ _ _ Ci).
    pose proof (compile_e_len _ _ _ _ _ _ Ca). pose proof (compile_e_len _ _ _ _ _ _ Ci).
    repeat split; try lia. rewrite !app_length. simpl. rewrite app_length. simpl. lia.
  - destruct (compile_e ce pc nx a) as [ca n1] eqn:Ca.
    intros H. inversion H; subst; clear H.
    pose proof (compile_e_le _ _ _ _ _ _ Ca). pose proof (compile_e_len _ _ _ _ _ _ Ca).
    repeat split; try lia; try discriminate. rewrite app_length. simpl. lia.
Qed.

Lemma swap_get_facts t tl kl nx push code vl ph nx' :
  compile_swap_get t tl kl nx push = (code, vl, ph, nx') ->
  nx <= nx' /\ length code = swap_get_size t push /\ nx <= vl < nx' /\
  (is_index_target t = true -> push = true -> nx <= ph < nx' /\ ph <> vl).
Proof.
  destruct t; simpl.
  - intros H; inversion H; subst. simpl. repeat split; try lia; discriminate.
  - destruct push; intros H; inversion H; subst; simpl; repeat split; try lia; discriminate.
  - intros H; inversion H; subst. simpl. repeat split; try lia; discriminate.
Qed.

Lemma swap_set_len ce t tl kl vl : length (compile_swap_set ce t tl kl vl) = swap_set_size t.
Proof. destruct t; reflexivity. Qed.

Lemma compile_swap_facts ce pc nx t1 t2 c code nx' :
  compile_swap ce pc nx t1 t2 c = (code, nx') -> nx <= nx' /\ length code = size_swap t1 t2.
Proof.
  unfold compile_swap.
  destruct (compile_swap_side ce pc nx t1) as [[[c1 tl1] kl1] n1] eqn:S1.
  destruct (compile_swap_side ce (pc + length c1) n1 t2) as [[[c2 tl2] kl2] n2] eqn:S2.
  destruct (compile_swap_get t1 tl1 kl1 n2 true) as [[[g1 vl1] ph1] n3] eqn:G1.
  destruct (compile_swap_get t2 tl2 kl2 n3 false) as [[[g2 vl2] ph2] n4] eqn:G2.
  destruct (swap_side_facts _ _ _ _ _ _ _ _ S1) as (A1 & B1 & _).
  destruct (swap_side_facts _ _ _ _ _ _ _ _ S2) as (A2 & B2 & _).
  destruct (swap_get_facts _ _ _ _ _ _ _ _ _ G1) as (A3 & B3 & _).
  destruct (swap_get_facts _ _ _ _ _ _ _ _ _ G2) as (A4 & B4 & _).
  unfold size_swap.
  destruct (is_index_target t1); intros H; inversion H; subst; clear H; split; try lia;
    repeat (rewrite ?app_length, ?swap_set_len; simpl); lia.
Qed.

(* ------------------------------------------------------------------ statements *)

Definition ce_grows (ce ce' : cenv) (nx nx' : nat) : Prop :=
  ce' = ce \/ exists x i, ce' = (x, i) :: ce /\ nx <= i /\ i < nx'.

Lemma iter_ends_len its : length (iter_ends its) = 2 * length its.
Proof. induction its; simpl; auto. rewrite IHits. lia. Qed.

Ltac efacts :=
  repeat match goal with
         | E : compile_e _ _ _ _ = (_, _) |- _ =>
           let L := fresh "L" in let Z := fresh "Z" in
           pose proof (compile_e_le _ _ _ _ _ _ E) as L; pose proof (compile_e_len _ _ _ _ _ _ E) as Z;
           revert E
         end; intros.

Ltac split_compile_s :=
  repeat match goal with
         | H : context [let '(_, _) := compile_e ?ce ?pc ?nx ?e in _] |- _ =>
           let c := fresh "c" in let n := fresh "n" in let E := fresh "E" in
           destruct (compile_e ce pc nx e) as [c n] eqn:E
         | H : context [let '(_, _) := compile_b ?cx ?ce ?pc ?nx ?b in _] |- _ =>
           let c := fresh "c" in let n := fresh "n" in let E := fresh "B" in
           destruct (compile_b cx ce pc nx b) as [c n] eqn:E
         | H : context [let '(_, _) := compile_swap ?ce ?pc ?nx ?t1 ?t2 ?c in _] |- _ =>
           let c := fresh "c" in let n := fresh "n" in let E := fresh "W" in
           destruct (compile_swap ce pc nx t1 t2 c) as [c n] eqn:E
         end.

Lemma compile_s_facts :
  (forall s cx ce pc nx code ce' nx',
      compile_s cx ce pc nx s = (code, ce', nx') ->
      nx <= nx' /\ ce_grows ce ce' nx nx' /\ length code = size_s (length (cx_iters cx)) s) /\
  (forall b cx ce pc nx code nx',
      compile_b cx ce pc nx b = (code, nx') -> nx <= nx' /\ length code = size_b (length (cx_iters cx)) b).
Proof.
  apply stmt_block_ind.
  - (* SLet *) intros x c e cx ce pc nx code ce' nx' H. simpl in H. split_compile_s. efacts.
    inversion H; subst. split; [lia|]. split; [right; exists x, n; repeat split; lia|].
    simpl. rewrite app_length. simpl. lia.
  - (* SAssign *) intros t c e cx ce pc nx code ce' nx' H. destruct t; simpl in H; split_compile_s; efacts;
      inversion H; subst; (split; [lia|]); (split; [now left|]);
      simpl; repeat (rewrite ?app_length; simpl); lia.
  - (* SSwap *) intros t1 t2 c cx ce pc nx code ce' nx' H. simpl in H.
    destruct (compile_swap ce (pc + 1) nx t1 t2 c) as [cw nw] eqn:W.
    destruct (compile_swap_facts _ _ _ _ _ _ _ _ W). inversion H; subst.
    split; [lia|]. split; [now left|]. simpl. lia.
  - (* SIf without else *) intros c b1 IH1 cx ce pc nx code ce' nx' H. simpl in H.
    destruct (compile_e ce (pc + 1) nx c) as [cc n1] eqn:Ec.
    destruct (compile_b cx ce (pc + 1 + length cc + 1) n1 b1) as [c1 n2] eqn:B1.
    efacts. destruct (IH1 _ _ _ _ _ _ B1) as [? ?].
    inversion H; subst. split; [lia|]. split; [now left|].
    simpl. repeat (rewrite ?app_length; simpl). lia.
  - (* SIf with else *) intros c b1 b2 IH1 IH2 cx ce pc nx code ce' nx' H. simpl in H.
    destruct (compile_e ce (pc + 1) nx c) as [cc n1] eqn:Ec.
    destruct (compile_b cx ce (pc + 1 + length cc + 1) n1 b1) as [c1 n2] eqn:B1.
    destruct (compile_b cx ce (pc + 1 + length cc + 1 + length c1 + 1) n2 b2) as [c2 n3] eqn:B2.
    efacts. destruct (IH1 _ _ _ _ _ _ B1) as [? ?]. destruct (IH2 _ _ _ _ _ _ B2) as [? ?].
    inversion H; subst. split; [lia|]. split; [now left|].
    simpl. repeat (rewrite ?app_length; simpl). lia.
  - (* SWhile *) intros c b IH cx ce pc nx code ce' nx' H. simpl in H.
    destruct (compile_e ce (pc + 1) nx c) as [cc n1] eqn:Ec.
    match type of H with context [compile_b ?a ?b0 ?c0 ?d ?e0] => destruct (compile_b a b0 c0 d e0) as [cb n2] eqn:B end.
    efacts. destruct (IH _ _ _ _ _ _ B) as [? Hl]. simpl in Hl.
    inversion H; subst. split; [lia|]. split; [now left|].
    simpl. repeat (rewrite ?app_length; simpl). lia.
  - (* SFor *) intros x c e b IH cx ce pc nx code ce' nx' H. simpl in H.
    destruct (compile_e ce (pc + 1) nx e) as [cv n1] eqn:Ec.
    match type of H with context [compile_b ?a ?b0 ?c0 ?d ?e0] => destruct (compile_b a b0 c0 d e0) as [cb n2] eqn:B end.
    efacts. destruct (IH _ _ _ _ _ _ B) as [? Hl]. simpl in Hl. rewrite app_length in Hl. simpl in Hl.
    replace (length (cx_iters cx) + 1) with (S (length (cx_iters cx))) in Hl by lia.
    inversion H; subst. split; [lia|]. split; [now left|].
    simpl. repeat (rewrite ?app_length; simpl). lia.
  - (* SBreak *) intros cx ce pc nx code ce' nx' H. inversion H; subst. split; [lia|]. split; [now left|]. reflexivity.
  - (* SContinue *) intros cx ce pc nx code ce' nx' H. inversion H; subst. split; [lia|]. split; [now left|]. reflexivity.
  - (* SReturn *) intros r cx ce pc nx code ce' nx' H. destruct r as [[c e]|]; simpl in H.
    + split_compile_s. efacts. inversion H; subst. split; [lia|]. split; [now left|].
      simpl. repeat (rewrite ?app_length, ?iter_ends_len; simpl). lia.
    + inversion H; subst. split; [lia|]. split; [now left|].
      simpl. repeat (rewrite ?app_length, ?iter_ends_len; simpl). lia.
  - (* SExpr *) intros e cx ce pc nx code ce' nx' H. simpl in H. split_compile_s. efacts.
    inversion H; subst. split; [lia|]. split; [now left|].
    simpl. repeat (rewrite ?app_length; simpl). lia.
  - (* BNil *) intros cx ce pc nx code nx' H. inversion H; subst. split; [lia|reflexivity].
  - (* BCons *) intros s b IHs IHb cx ce pc nx code nx' H. simpl in H.
    destruct (compile_s cx ce pc nx s) as [[c1 ce1] n1] eqn:S1.
    destruct (compile_b cx ce1 (pc + length c1) n1 b) as [c2 n2] eqn:B2.
    destruct (IHs _ _ _ _ _ _ _ S1) as (? & ? & ?). destruct (IHb _ _ _ _ _ _ B2) as (? & ?).
    inversion H; subst. split; [lia|]. simpl. rewrite app_length. lia.
Qed.

Definition compile_s_ok := proj1 compile_s_facts.
Definition compile_b_ok := proj2 compile_s_facts.

Lemma ce_grows_wf ce ce' nx nx' : ce_grows ce ce' nx nx' -> nx <= nx' -> wf_ce ce nx -> wf_ce ce' nx'.
Proof.
  intros [->|(x & i & -> & A & B)] L W.
  - eapply wf_ce_mono; eauto.
  - simpl. split; auto. eapply wf_ce_mono; eauto.
Qed.

Lemma ce_grows_in ce ce' nx nx' i : ce_grows ce ce' nx nx' -> i < nx -> ~ in_ce ce i -> ~ in_ce ce' i.
Proof.
  intros [->|(x & j & -> & A & B)] L N; auto.
  intros [y [Hy|Hy]]; [inversion Hy; lia|]. apply N. now exists y.
Qed.

(* ------------------------------------------------------------------ bookkeeping *)

Lemma keeps_of_keep ce nx loc its loc' its' : keep nx loc its loc' its' -> keeps ce nx loc its loc' its'.
Proof. intros [A E]. split; auto. now apply agree_pres. Qed.

Lemma keeps_refl ce nx loc its : keeps ce nx loc its loc its.
Proof. split; [apply pres_refl|apply its_ext_refl]. Qed.

Lemma keeps_trans ce ce' nx nx' l1 i1 l2 i2 l3 i3 :
  nx <= nx' -> (forall i, i < nx -> ~ in_ce ce i -> ~ in_ce ce' i) ->
  keeps ce nx l1 i1 l2 i2 -> keeps ce' nx' l2 i2 l3 i3 -> keeps ce nx l1 i1 l3 i3.
Proof.
  intros L N [P1 E1] [P2 E2]. split; [|eapply its_ext_trans; eauto].
  intros i Hi Hn. rewrite P2; [|lia|auto]. now apply P1.
Qed.

Lemma keeps_trans_same ce nx nx' l1 i1 l2 i2 l3 i3 :
  nx <= nx' -> keeps ce nx l1 i1 l2 i2 -> keeps ce nx' l2 i2 l3 i3 -> keeps ce nx l1 i1 l3 i3.
Proof. intros L. apply keeps_trans; auto. Qed.

Lemma keeps_weaken ce nx nx' l1 i1 l2 i2 : nx <= nx' -> keeps ce nx' l1 i1 l2 i2 -> keeps ce nx l1 i1 l2 i2.
Proof. intros L [P E]. split; auto. intros i Hi Hn. apply P; auto. lia. Qed.

Lemma iters_ok_keeps its ce nx loc i0 loc' i1 nx' :
  iters_ok its ce nx loc -> keeps ce nx loc i0 loc' i1 -> nx <= nx' -> iters_ok its ce nx' loc'.
Proof.
  intros H [Pr _] L it Hin. destruct (H it Hin) as (A & B & k & Hk).
  split; [lia|]. split; auto. exists k. rewrite Pr; auto.
Qed.

Lemma iters_ok_grow its ce ce' nx nx' loc :
  iters_ok its ce nx loc -> ce_grows ce ce' nx nx' -> nx <= nx' ->
  (forall i, i < nx -> get_loc loc i = get_loc loc i) -> iters_ok its ce' nx' loc.
Proof.
  intros H G L _ it Hin. destruct (H it Hin) as (A & B & k & Hk).
  split; [lia|]. split; [eapply ce_grows_in; eauto|]. eauto.
Qed.

Lemma match_env_skip ce2 : forall ce r loc,
  match_env (ce2 ++ ce) r loc -> match_env ce (skipn (length ce2) r) loc.
Proof.
  induction ce2 as [|[x i] ce2 IH]; intros ce r loc M; simpl in *; auto.
  destruct r as [|[y v] r]; [contradiction|]. destruct M as (_ & _ & M). now apply IH.
Qed.

Section stmts.
  Variable P : program.
  Notation C := (compile P).

  (* ending the iterators of the enclosing for-loops before a return *)
  Lemma iter_ends_steps fn its0 : forall pc stk loc fs sx its,
    code_at (code_of C fn) pc (iter_ends its0) ->
    (forall it, In it its0 -> exists k, get_loc loc it = VIter k) ->
    steps P (conf fn pc stk loc fs sx its) (conf fn (pc + length (iter_ends its0)) stk loc fs sx its).
  Proof.
    induction its0 as [|it rest IH]; intros pc stk loc fs sx its Hat Hk; simpl in *.
    - apply steps_refl_eq. unfold conf. repeat f_equal. lia.
    - split_code Hat. destruct (Hk it (or_introl eq_refl)) as [k Hg].
      vstep. rewrite Hg. vstep.
      eapply steps_trans; [apply IH; [|intros; apply Hk; now right]|].
      + replace (S (S pc)) with (S (S pc)) by lia. exact Hat.
      + apply steps_refl_eq, conf_pc_eq. lia.
  Qed.

  Lemma return_value_step fn pc stk loc fs sx its v :
    nth_error (code_of C fn) pc = Some IReturnValue ->
    step C (conf fn pc (v :: stk) loc fs sx its) = ret_result fs v sx its.
  Proof.
    intros H. rewrite (step_at _ fn pc pc _ _ _ _ _ _ H eq_refl).
    cbv beta iota zeta delta [exec_instr f_pc f_stk f_loc f_fn v_st v_its conf ret_result].
    destruct fs; reflexivity.
  Qed.

  Lemma return_step fn pc stk loc fs sx its :
    nth_error (code_of C fn) pc = Some IReturn ->
    step C (conf fn pc stk loc fs sx its) = ret_result fs VVoid sx its.
  Proof.
    intros H. rewrite (step_at _ fn pc pc _ _ _ _ _ _ H eq_refl).
    cbv beta iota zeta delta [exec_instr f_pc f_stk f_loc f_fn v_st v_its conf ret_result].
    destruct fs; reflexivity.
  Qed.
End stmts.

Lemma set_nth_length {A} (l : list A) n x : length (set_nth l n x) = length l.
Proof. revert n. induction l; intros [|n]; simpl; auto. Qed.

Lemma nth_error_set_nth {A} (l : list A) n x : n < length l -> nth_error (set_nth l n x) n = Some x.
Proof. revert n. induction l; intros [|n] H; simpl in *; try lia; auto. apply IHl. lia. Qed.

Lemma nth_error_app_last {A} (l : list A) x : nth_error (l ++ [x]) (length l) = Some x.
Proof. rewrite nth_error_app2 by lia. now rewrite Nat.sub_diag. Qed.
