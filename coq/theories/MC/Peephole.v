(* MiniCadence: the peephole pass of the compiler (/repo/bbq/compiler/peephole_pass.go,
   peephole_patterns.go): two-instruction windows that contain no jump target are replaced, the
   targets of all jumps are shifted by the number of replaced windows in front of them.
   Patterns modelled: GetLocal;GetField -> GetFieldLocal, GetConstant;TransferAndConvert(same type)
   -> GetConstant, Nil;TransferAndConvert -> Nil. *)
From CV Require Export MC.VM.

Definition jump_target (i : instr) : option nat :=
  match i with
  | IJump t | IJumpIfFalse t | IJumpIfTrue t | IJumpIfNil t => Some t
  | _ => None
  end.

Definition targets (c : code) : list nat :=
  flat_map (fun i => match jump_target i with Some t => [t] | None => [] end) c.

Definition is_target (ts : list nat) (p : nat) : bool := existsb (Nat.eqb p) ts.

Definition is_simple_const (v : val) : bool :=
  match v with VInt _ | VStr _ | VBool _ => true | _ => false end.

Definition pattern (i1 i2 : instr) : option code :=
  match i1, i2 with
  | IGetLocal n, IGetField f => Some [IGetFieldLocal f n]
  | IConst v, ITransferConv O => if is_simple_const v then Some [IConst v] else None
  | INil, ITransferConv _ => Some [INil]
  | _, _ => None
  end.

(* optimised code and the offsets (in the original code) of the replaced windows *)
Fixpoint opt (ts : list nat) (pos : nat) (c : code) : code * list nat :=
  match c with
  | i1 :: ((i2 :: r) as tl) =>
    match (if is_target ts pos || is_target ts (S pos) then None else pattern i1 i2) with
    | Some rep => let '(c', ms) := opt ts (S (S pos)) r in (rep ++ c', pos :: ms)
    | None => let '(c', ms) := opt ts (S pos) tl in (i1 :: c', ms)
    end
  | _ => (c, [])
  end.

Definition shift (ms : list nat) (t : nat) : nat :=
  (t - length (filter (fun o => Nat.ltb o t) ms))%nat.

Definition retarget (ms : list nat) (i : instr) : instr :=
  match i with
  | IJump t => IJump (shift ms t)
  | IJumpIfFalse t => IJumpIfFalse (shift ms t)
  | IJumpIfTrue t => IJumpIfTrue (shift ms t)
  | IJumpIfNil t => IJumpIfNil (shift ms t)
  | _ => i
  end.

Definition peephole_code (c : code) : code :=
  let '(c', ms) := opt (targets c) O c in map (retarget ms) c'.

Definition peephole (C : cprogram) : cprogram :=
  map (fun cf => mkCFun (cf_nparams cf) (peephole_code (cf_code cf))) C.
