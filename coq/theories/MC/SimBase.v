(* C34: infrastructure for the simulation proof (code placement, multi-step execution of the VM,
   correspondence between interpreter environments and VM locals). *)
From CV Require Import MC.VM.
From Coq Require Import Lia.

Local Open Scope nat_scope.

(* ------------------------------------------------------------------ code placement *)

Definition code_at (c : code) (pc : nat) (sub : code) : Prop :=
  forall k i, nth_error sub k = Some i -> nth_error c (pc + k) = Some i.

Lemma code_at_app c pc a b :
  code_at c pc (a ++ b) <-> code_at c pc a /\ code_at c (pc + length a) b.
Proof.
  unfold code_at. split.
  - intros H. split; intros k i Hk.
    + apply H. rewrite nth_error_app1; auto. apply nth_error_Some. congruence.
    + replace (pc + length a + k) with (pc + (length a + k)) by lia. apply H.
      rewrite nth_error_app2 by lia. now replace (length a + k - length a) with k by lia.
  - intros [Ha Hb] k i Hk. destruct (Nat.lt_ge_cases k (length a)).
    + apply Ha. now rewrite nth_error_app1 in Hk.
    + rewrite nth_error_app2 in Hk by lia.
      replace (pc + k) with (pc + length a + (k - length a)) by lia. now apply Hb.
Qed.

Lemma code_at_cons c pc i b :
  code_at c pc (i :: b) <-> nth_error c pc = Some i /\ code_at c (S pc) b.
Proof.
  unfold code_at. split.
  - intros H. split.
    + replace pc with (pc + 0) by lia. now apply H.
    + intros k j Hk. replace (S pc + k) with (pc + S k) by lia. now apply H.
  - intros [H0 H1] k j Hk. destruct k; simpl in Hk.
    + replace (pc + 0) with pc by lia. congruence.
    + replace (pc + S k) with (S pc + k) by lia. now apply H1.
Qed.

Lemma code_at_nil c pc : code_at c pc [].
Proof. intros k i H. destruct k; discriminate. Qed.

Lemma code_at_prefix c a : code_at (c ++ a) 0 c.
Proof. intros k i H. simpl. rewrite nth_error_app1; auto. apply nth_error_Some. congruence. Qed.

Lemma code_at_self c : code_at c 0 c.
Proof. intros k i H. exact H. Qed.

(* ------------------------------------------------------------------ locals *)

Lemma get_set_same l n v : get_loc (set_loc l n v) n = v.
Proof.
  unfold get_loc. revert l. induction n; intros [|x l]; simpl; auto.
Qed.

Lemma get_set_other l n m v : n <> m -> get_loc (set_loc l n v) m = get_loc l m.
Proof.
  unfold get_loc. revert l m. induction n; intros [|x l] [|m] H; simpl; auto; try congruence.
  all: try (destruct m; reflexivity).
  all: try (rewrite IHn by congruence; destruct m; reflexivity).
  all: try (apply IHn; congruence).
Qed.

(* locals below n agree *)
Definition agree (n : nat) (l l' : list val) : Prop :=
  forall i, i < n -> get_loc l' i = get_loc l i.

Lemma agree_refl n l : agree n l l.
Proof. intros i _. reflexivity. Qed.

Lemma agree_trans n m l1 l2 l3 : n <= m -> agree n l1 l2 -> agree m l2 l3 -> agree n l1 l3.
Proof. intros Hle H1 H2 i Hi. rewrite H2 by lia. now apply H1. Qed.

Lemma agree_set n l i v : n <= i -> agree n l (set_loc l i v).
Proof. intros H j Hj. apply get_set_other. lia. Qed.

Lemma agree_weaken n m l l' : n <= m -> agree m l l' -> agree n l l'.
Proof. intros H A i Hi. apply A. lia. Qed.

(* ------------------------------------------------------------------ environments *)

(* compile-time environment: indices strictly decrease from the head and lie below nx *)
Fixpoint wf_ce (ce : cenv) (nx : nat) : Prop :=
  match ce with
  | [] => True
  | (_, i) :: r => i < nx /\ wf_ce r i
  end.

Lemma wf_ce_mono ce n m : n <= m -> wf_ce ce n -> wf_ce ce m.
Proof. destruct ce as [|[x i] r]; simpl; auto. intros H [A B]. split; auto; lia. Qed.

Definition in_ce (ce : cenv) (i : nat) : Prop := exists x, In (x, i) ce.

Lemma wf_ce_bound ce nx i : wf_ce ce nx -> in_ce ce i -> i < nx.
Proof.
  revert nx. induction ce as [|[x j] r IH]; intros nx W [y Hy]; simpl in *; [contradiction|].
  destruct W as [A B]. destruct Hy as [Hy|Hy].
  - inversion Hy; subst; auto.
  - assert (i < j) by (apply IH; auto; now exists y). lia.
Qed.

Fixpoint match_env (ce : cenv) (r : env) (loc : list val) : Prop :=
  match ce, r with
  | [], [] => True
  | (x, i) :: ce', (y, v) :: r' => x = y /\ get_loc loc i = v /\ match_env ce' r' loc
  | _, _ => False
  end.

Lemma match_env_length ce r loc : match_env ce r loc -> length ce = length r.
Proof.
  revert r. induction ce as [|[x i] ce IH]; intros [|[y v] r]; simpl; try tauto.
  intros (_ & _ & H). f_equal. now apply IH.
Qed.

Lemma match_env_agree ce r loc loc' nx :
  wf_ce ce nx -> agree nx loc loc' -> match_env ce r loc -> match_env ce r loc'.
Proof.
  revert r nx. induction ce as [|[x i] ce IH]; intros [|[y v] r] nx W A M; simpl in *; try tauto.
  destruct W as [Hi W]. destruct M as (E & G & M). repeat split; auto.
  - rewrite A; auto.
  - eapply IH; eauto. eapply agree_weaken; [|exact A]. lia.
Qed.

(* locals below nx that do not hold a variable of ce are preserved *)
Definition pres (ce : cenv) (nx : nat) (l l' : list val) : Prop :=
  forall i, i < nx -> ~ in_ce ce i -> get_loc l' i = get_loc l i.

Lemma pres_refl ce nx l : pres ce nx l l.
Proof. intros i _ _. reflexivity. Qed.

Lemma agree_pres ce nx l l' : agree nx l l' -> pres ce nx l l'.
Proof. intros A i Hi _. now apply A. Qed.

Lemma match_env_lookup ce r loc x v :
  match_env ce r loc -> lookup r x = Some v -> get_loc loc (local_of ce x) = v.
Proof.
  revert r. induction ce as [|[y i] ce IH]; intros [|[z w] r] M L; simpl in *;
    try contradiction; try discriminate.
  destruct M as (E & G & M). subst z. unfold local_of in *. simpl.
  destruct (Nat.eqb y x).
  - congruence.
  - exact (IH r M L).
Qed.

Lemma match_env_lookup_in ce r loc x v :
  match_env ce r loc -> lookup r x = Some v -> in_ce ce (local_of ce x).
Proof.
  revert r. induction ce as [|[y i] ce IH]; intros [|[z w] r] M L; simpl in *;
    try contradiction; try discriminate.
  destruct M as (E & G & M). subst z. unfold local_of in *. simpl.
  destruct (Nat.eqb y x).
  - exists y. now left.
  - destruct (IH r M L) as [u Hu]. exists u. now right.
Qed.

Lemma match_env_update ce r loc x v r' nx :
  wf_ce ce nx -> match_env ce r loc -> update r x v = Some r' ->
  match_env ce r' (set_loc loc (local_of ce x) v) /\ in_ce ce (local_of ce x).
Proof.
  revert r r' nx.
  induction ce as [|[y i] ce IH]; intros [|[z w] r] r' nx W M U; simpl in *;
    try contradiction; try discriminate.
  destruct W as [Hi W]. destruct M as (E & G & M). subst z.
  unfold local_of in *. simpl.
  destruct (Nat.eqb y x) eqn:Exy.
  - inversion U; subst r'. simpl. split.
    + split; [reflexivity|]. split; [apply get_set_same|].
      eapply match_env_agree; [exact W| |exact M]. apply agree_set. lia.
    + exists y. now left.
  - destruct (update r x v) as [r''|] eqn:U'; [|discriminate]. inversion U; subst r'.
    destruct (IH r r'' i W M U') as [M' [u Hu]].
    assert (Hlt : match clookup ce x with Some j => j | None => 0 end < i).
    { eapply wf_ce_bound; [exact W|]. now exists u. }
    simpl. split.
    + split; [reflexivity|]. split; [|exact M'].
      rewrite get_set_other by lia. exact G.
    + exists u. now right.
Qed.

(* ------------------------------------------------------------------ monotonicity and sizes of the compiler *)

Scheme expr_mut := Induction for expr Sort Prop
  with exprs_mut := Induction for exprs Sort Prop.
Combined Scheme expr_exprs_ind from expr_mut, exprs_mut.

Ltac split_compile :=
  repeat match goal with
         | H : context [let '(_, _) := compile_e ?ce ?pc ?nx ?e in _] |- _ =>
           let c := fresh "c" in let n := fresh "n" in let E := fresh "E" in
           destruct (compile_e ce pc nx e) as [c n] eqn:E
         | H : context [let '(_, _) := compile_es ?ce ?pc ?nx ?es ?l in _] |- _ =>
           let c := fresh "c" in let n := fresh "n" in let E := fresh "E" in
           destruct (compile_es ce pc nx es l) as [c n] eqn:E
         end.

Lemma compile_e_mono :
  (forall e ce pc nx c n', compile_e ce pc nx e = (c, n') -> nx <= n') /\
  (forall es ce pc nx lit c n', compile_es ce pc nx es lit = (c, n') -> nx <= n').
Proof.
  apply expr_exprs_ind; intros; simpl in *;
    try match goal with H : (if ?b then _ else _) = _ |- _ => destruct b end; split_compile;
    repeat match goal with
           | IH : forall ce pc nx c n', compile_e ce pc nx ?e = _ -> _, E : compile_e _ _ _ ?e = _ |- _ =>
             apply IH in E
           | IH : forall ce pc nx lit c n', compile_es ce pc nx ?e lit = _ -> _, E : compile_es _ _ _ ?e _ = _ |- _ =>
             apply IH in E
           end;
    match goal with H : (_, _) = (_, _) |- _ => inversion H; subst; lia end.
Qed.

Definition compile_e_le := proj1 compile_e_mono.
Definition compile_es_le := proj2 compile_e_mono.

(* code sizes do not depend on where the code is placed *)
Lemma compile_e_size :
  (forall e ce pc nx c n', compile_e ce pc nx e = (c, n') -> length c = size_e e) /\
  (forall es ce pc nx lit c n', compile_es ce pc nx es lit = (c, n') -> length c = size_es es).
Proof.
  apply expr_exprs_ind; intros; simpl in *;
    try match goal with H : (if ?b then _ else _) = _ |- _ => destruct b end; split_compile;
    repeat match goal with
           | IH : forall ce pc nx c n', compile_e ce pc nx ?e = _ -> _, E : compile_e _ _ _ ?e = _ |- _ =>
             apply IH in E
           | IH : forall ce pc nx lit c n', compile_es ce pc nx ?e lit = _ -> _, E : compile_es _ _ _ ?e _ = _ |- _ =>
             apply IH in E
           end;
    match goal with H : (_, _) = (_, _) |- _ => inversion H; subst end;
    simpl; repeat (rewrite ?app_length; simpl); lia.
Qed.

Definition compile_e_len := proj1 compile_e_size.
Definition compile_es_len := proj2 compile_e_size.
