(* C52: evaluation order and short-circuiting, derived from the definitional interpreter.
   Part 1: the log trace of a run only grows at its end and what is appended does not depend on
   what was logged before (frame property) -- for every program of the fragment. *)
From CV Require Import MC.Interp.

Definition st_app (t0 : list val) (s : st) : st := mkSt (hp s) (t0 ++ tr s).

Lemma st_app_hp t0 s : hp (st_app t0 s) = hp s. Proof. reflexivity. Qed.
Lemma st_app_with_hp t0 s h : with_hp (st_app t0 s) h = st_app t0 (with_hp s h).
Proof. reflexivity. Qed.
Lemma st_app_log t0 s v : log_val (st_app t0 s) v = st_app t0 (log_val s v).
Proof. unfold log_val, st_app; simpl. now rewrite app_assoc. Qed.

Definition fr {A} (t0 : list val) (m : M A) : M A := (fst m, st_app t0 (snd m)).

Lemma tconv_frame t0 d v s : tconv d v (st_app t0 s) = fr t0 (tconv d v s).
Proof. unfold tconv, fr; simpl. destruct (copy v (hp s)) as [[v' h']|]; reflexivity. Qed.

Lemma native_frame t0 f vs s : native_apply f vs (st_app t0 s) = fr t0 (native_apply f vs s).
Proof.
  unfold native_apply, fr.
  destruct f; try reflexivity.
  - destruct vs as [|v [|w r]]; try reflexivity. simpl. now rewrite st_app_log.
  - destruct vs as [|v [|w [|x r]]]; try reflexivity. simpl. now rewrite st_app_log.
Qed.

Arguments bindM : simpl never.

Lemma fr_ret {A} t0 (a : A) s : ret a (st_app t0 s) = fr t0 (ret a s).
Proof. reflexivity. Qed.
Lemma fr_fail {A} t0 e s : @fail A e (st_app t0 s) = fr t0 (fail e s).
Proof. reflexivity. Qed.
Lemma fr_lift {A} t0 (x : res A) s : lift x (st_app t0 s) = fr t0 (lift x s).
Proof. reflexivity. Qed.

Lemma bind_frame {A B} t0 (m' m : M A) (f g : A -> st -> M B) :
  m' = fr t0 m ->
  (forall a s, f a (st_app t0 s) = fr t0 (g a s)) ->
  bindM m' f = fr t0 (bindM m g).
Proof.
  intros -> H. unfold bindM, fr. destruct m as [[a|e] s]; simpl.
  - apply H.
  - reflexivity.
Qed.

Lemma gs_set_frame t0 g v r s : gs_set g v r (st_app t0 s) = fr t0 (gs_set g v r s).
Proof.
  unfold gs_set. destruct g; simpl.
  - destruct (update r x v); reflexivity.
  - destruct (set_index (hp s) c i v); reflexivity.
  - destruct (set_field (hp s) c f v); reflexivity.
Qed.

Lemma gs_get_swap_frame t0 g r s : gs_get_swap g r (st_app t0 s) = fr t0 (gs_get_swap g r s).
Proof.
  unfold gs_get_swap. destruct g; simpl.
  - destruct (lookup r x); reflexivity.
  - destruct (remove_index (hp s) c i) as [[v h]|]; reflexivity.
  - destruct (get_field (hp s) c f); reflexivity.
Qed.

Lemma for_loop_frame t0 body x c l :
  (forall r s, body r (st_app t0 s) = fr t0 (body r s)) ->
  forall r s, for_loop body x c l r (st_app t0 s) = fr t0 (for_loop body x c l r s).
Proof.
  intros Hb. induction l as [|el rest IH]; intros r s; simpl.
  - reflexivity.
  - apply bind_frame. { apply tconv_frame. }
    intros el' s1. rewrite Hb. unfold fr at 1.
    destruct (body ((x, el') :: r) s1) as [[[o r1]|e] s2]; simpl.
    + destruct o; try apply IH; reflexivity.
    + reflexivity.
Qed.

Section frame.
  Variable P : program.
  Variable strict : bool.

  Definition frame_all (n : nat) : Prop :=
    (forall e r s t0, eval P strict n e r (st_app t0 s) = fr t0 (eval P strict n e r s)) /\
    (forall es bx r s t0, evals P strict n es bx r (st_app t0 s) = fr t0 (evals P strict n es bx r s)) /\
    (forall t r s t0, eval_target P strict n t r (st_app t0 s) = fr t0 (eval_target P strict n t r s)) /\
    (forall c r s t0, exec P strict n c r (st_app t0 s) = fr t0 (exec P strict n c r s)) /\
    (forall b r s t0, exec_stmts P strict n b r (st_app t0 s) = fr t0 (exec_stmts P strict n b r s)) /\
    (forall b r s t0, exec_block P strict n b r (st_app t0 s) = fr t0 (exec_block P strict n b r s)).

  Ltac fr_tac :=
    repeat first
      [ reflexivity
      | apply fr_ret | apply fr_fail | apply fr_lift
      | apply tconv_frame | apply native_frame | apply gs_set_frame | apply gs_get_swap_frame
      | match goal with
        | H : forall e r s t0, eval P strict ?n e r (st_app t0 s) = _ |- eval P strict ?n _ _ (st_app _ _) = _ => apply H
        | H : forall es bx r s t0, evals P strict ?n es bx r (st_app t0 s) = _ |- evals P strict ?n _ _ _ (st_app _ _) = _ => apply H
        | H : forall t r s t0, eval_target P strict ?n t r (st_app t0 s) = _ |- eval_target P strict ?n _ _ (st_app _ _) = _ => apply H
        | H : forall c r s t0, exec P strict ?n c r (st_app t0 s) = _ |- exec P strict ?n _ _ (st_app _ _) = _ => apply H
        | H : forall b r s t0, exec_stmts P strict ?n b r (st_app t0 s) = _ |- exec_stmts P strict ?n _ _ (st_app _ _) = _ => apply H
        | H : forall b r s t0, exec_block P strict ?n b r (st_app t0 s) = _ |- exec_block P strict ?n _ _ (st_app _ _) = _ => apply H
        end
      | apply bind_frame; [ | intros ]
      | match goal with
        | |- context [hp (st_app _ _)] => rewrite st_app_hp
        | |- context [with_hp (st_app _ _) _] => rewrite st_app_with_hp
        | |- (let '(_, _) := alloc ?h ?c in _) = _ => unfold alloc
        | |- (if ?b then _ else _) = fr _ (if ?b then _ else _) => destruct b
        | |- match ?v with _ => _ end = fr _ (match ?v with _ => _ end) => destruct v
        end
      ].

  Lemma frame : forall n, frame_all n.
  Proof.
    induction n as [|n IH].
    - unfold frame_all; repeat split; intros; reflexivity.
    - destruct IH as (He & Hes & Ht & Hx & Hss & Hb).
      unfold frame_all; repeat split.
      + intros e r s t0. destruct e; simpl; fr_tac.
      + intros es bx r s t0. destruct es; simpl; fr_tac.
      + intros t r s t0. destruct t; simpl; fr_tac.
      + intros c r s t0. destruct c; simpl; fr_tac.
        apply for_loop_frame. intros; apply Hb.
      + intros b r s t0. destruct b; simpl; fr_tac.
      + intros b r s t0. simpl; fr_tac.
  Qed.
End frame.
