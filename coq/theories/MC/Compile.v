(* MiniCadence: compiler to the stack bytecode, transcribed from /repo/bbq/compiler/compiler.go
   (VisitBinaryExpression, VisitConditionalExpression, withOptionalChaining, compileAssignment,
   VisitSwapStatement, VisitIfStatement, VisitWhileStatement, VisitForStatement, VisitReturnStatement,
   compileArguments, emitInvocation).  Jump targets are absolute instruction offsets within the function,
   local indices are allocated by a never-decreasing counter (function.localCount / generateLocalIndex). *)
From CV Require Export MC.Interp.

Definition cenv := list (name * nat).

Fixpoint clookup (ce : cenv) (x : name) : option nat :=
  match ce with
  | [] => None
  | (y, i) :: r => if Nat.eqb y x then Some i else clookup r x
  end.

Definition local_of (ce : cenv) (x : name) : nat :=
  match clookup ce x with Some i => i | None => O end.

(* control-flow context: targets of break / continue and the iterator locals that a return must end *)
Record cctx := mkCtx { cx_brk : nat; cx_cont : nat; cx_iters : list nat }.

(* ------------------------------------------------------------------ code sizes *)

Fixpoint size_e (e : expr) : nat :=
  match e with
  | EInt _ | EBool _ | EStr _ | ENil | EVar _ => 1
  | EBin _ a b => size_e a + size_e b + 1
  | EAnd a b | EOr a b => size_e a + size_e b + 5
  | ECoalesce a b _ => size_e a + size_e b + 7
  | ECond c a b => size_e c + size_e a + size_e b + 2
  | EForce a => size_e a + 1
  | EArr es | EDict es => size_es es + 1
  | EIndex a i => size_e a + size_e i + 2
  | EMember a _ => size_e a + 1
  | EOptMember a _ => size_e a + 9
  | ECall _ args => size_es args + 2
  end%nat
with size_es (es : exprs) : nat :=
  match es with
  | ENone => 0
  | EMore e _ r => size_e e + 1 + size_es r
  end%nat.

Fixpoint count_es (es : exprs) : nat :=
  match es with ENone => O | EMore _ _ r => S (count_es r) end.

(* ------------------------------------------------------------------ expressions *)

(* compile_e ce pc nx e = (code placed at offset pc, next free local index) *)
Fixpoint compile_e (ce : cenv) (pc nx : nat) (e : expr) {struct e} : code * nat :=
  match e with
  | EInt z => ([IConst (VInt z)], nx)
  | EBool true => ([ITrue], nx)
  | EBool false => ([IFalse], nx)
  | EStr s => ([IConst (VStr s)], nx)
  | ENil => ([INil], nx)
  | EVar x => ([IGetLocal (local_of ce x)], nx)
  | EBin op a b =>
    let '(ca, n1) := compile_e ce pc nx a in
    let '(cb, n2) := compile_e ce (pc + length ca) n1 b in
    (ca ++ cb ++ [IBin op], n2)
  | EAnd a b =>
    let '(ca, n1) := compile_e ce pc nx a in
    let pb := (pc + length ca + 1)%nat in
    let '(cb, n2) := compile_e ce pb n1 b in
    let lf := (pb + length cb + 3)%nat in
    (ca ++ [IJumpIfFalse lf] ++ cb ++ [IJumpIfFalse lf; ITrue; IJump (lf + 1); IFalse], n2)
  | EOr a b =>
    let '(ca, n1) := compile_e ce pc nx a in
    let pb := (pc + length ca + 1)%nat in
    let '(cb, n2) := compile_e ce pb n1 b in
    let lt := (pb + length cb + 1)%nat in
    (ca ++ [IJumpIfTrue lt] ++ cb ++ [IJumpIfFalse (lt + 2); ITrue; IJump (lt + 3); IFalse], n2)
  | ECoalesce a b c =>
    let '(ca, n1) := compile_e ce pc nx a in
    let le := (pc + length ca + 5)%nat in
    let '(cb, n2) := compile_e ce (le + 1) n1 b in
    let lend := (le + 1 + length cb + 1)%nat in
    (ca ++ [IDup; IJumpIfNil le; IUnwrap; IConvert c; IJump lend; IDrop] ++ cb ++ [IConvert c], n2)
  | ECond c a b =>
    let '(cc, n1) := compile_e ce pc nx c in
    let pa := (pc + length cc + 1)%nat in
    let '(ca, n2) := compile_e ce pa n1 a in
    let le := (pa + length ca + 1)%nat in
    let '(cb, n3) := compile_e ce le n2 b in
    (cc ++ [IJumpIfFalse le] ++ ca ++ [IJump (le + length cb)] ++ cb, n3)
  | EForce a =>
    let '(ca, n1) := compile_e ce pc nx a in (ca ++ [IUnwrap], n1)
  | EArr es =>
    let '(cs, n1) := compile_es ce pc nx es true in (cs ++ [INewArray (count_es es)], n1)
  | EDict es =>
    let '(cs, n1) := compile_es ce pc nx es true in (cs ++ [INewDict (Nat.div2 (count_es es))], n1)
  | EIndex a i =>
    let '(ca, n1) := compile_e ce pc nx a in
    let '(ci, n2) := compile_e ce (pc + length ca) n1 i in
    (ca ++ ci ++ [ITransferConv O; IGetIndex], n2)
  | EMember a f =>
    let '(ca, n1) := compile_e ce pc nx a in (ca ++ [IGetField f], n1)
  | EOptMember a f =>
    let '(ca, n1) := compile_e ce pc nx a in
    let t := n1 in
    let ln := (pc + length ca + 8)%nat in
    (ca ++ [ISetLocal t; IGetLocal t; IJumpIfNil ln; IGetLocal t; IUnwrap; IGetField f; IWrap true;
            IJump (ln + 1); INil], S n1)
  | ECall f args =>
    let '(cs, n1) := compile_es ce (pc + 1) nx args false in
    ([IGetGlobal f] ++ cs ++ [IInvoke (convs_of args)], n1)
  end
(* each element is followed by TransferAndConvert (literal entries) or Transfer (arguments) *)
with compile_es (ce : cenv) (pc nx : nat) (es : exprs) (lit : bool) {struct es} : code * nat :=
  match es with
  | ENone => ([], nx)
  | EMore e c r =>
    let '(c1, n1) := compile_e ce pc nx e in
    let '(c2, n2) := compile_es ce (pc + length c1 + 1) n1 r lit in
    (c1 ++ [if lit then ITransferConv c else ITransfer] ++ c2, n2)
  end.

(* ------------------------------------------------------------------ swap (VisitSwapStatement) *)

Definition is_index_target (t : target) : bool :=
  match t with TIndex _ _ => true | _ => false end.

(* compileSwapTarget + compileSwapKey: (code, target local, key local, next) *)
Definition compile_swap_side (ce : cenv) (pc nx : nat) (t : target) : code * nat * nat * nat :=
  match t with
  | TVar x => ([IGetLocal (local_of ce x); ISetLocal nx], nx, O, S nx)
  | TMember a _ =>
    let '(ca, n1) := compile_e ce pc nx a in
    (ca ++ [ISetLocal n1], n1, O, S n1)
  | TIndex a i =>
    let '(ca, n1) := compile_e ce pc nx a in
    let tl := n1 in
    let '(ci, n2) := compile_e ce (pc + length ca + 1) (S n1) i in
    (ca ++ [ISetLocal tl] ++ ci ++ [ITransferConv O; ISetLocal n2], tl, n2, S n2)
  end.

(* compileSwapGet: (code, value local, placeholder local, next) *)
Definition compile_swap_get (t : target) (tl kl nx : nat) (push_ph : bool) : code * nat * nat * nat :=
  match t with
  | TVar _ => ([IGetLocal tl; ISetLocal nx], nx, O, S nx)
  | TMember _ f => ([IGetLocal tl; IGetField f; ISetLocal nx], nx, O, S nx)
  | TIndex _ _ =>
    if push_ph then
      ([IGetLocal tl; IGetLocal kl; IRemoveIndex true; ISetLocal nx; ISetLocal (S nx)], S nx, nx, S (S nx))
    else
      ([IGetLocal tl; IGetLocal kl; IRemoveIndex false; ISetLocal nx], nx, O, S nx)
  end.

(* compileSwapSet *)
Definition compile_swap_set (ce : cenv) (t : target) (tl kl vl : nat) : code :=
  match t with
  | TVar x => [IGetLocal vl; ISetLocal (local_of ce x)]
  | TMember _ f => [IGetLocal tl; IGetLocal vl; ISetField f]
  | TIndex _ _ => [IGetLocal tl; IGetLocal kl; IGetLocal vl; ISetIndex]
  end.

Definition compile_swap (ce : cenv) (pc nx : nat) (t1 t2 : target) (c : conv) : code * nat :=
  let '(c1, tl1, kl1, n1) := compile_swap_side ce pc nx t1 in
  let '(c2, tl2, kl2, n2) := compile_swap_side ce (pc + length c1) n1 t2 in
  let '(g1, vl1, ph1, n3) := compile_swap_get t1 tl1 kl1 n2 true in
  let '(g2, vl2, _, n4) := compile_swap_get t2 tl2 kl2 n3 false in
  let set1_same := compile_swap_set ce t1 tl1 kl1 vl1 in
  let xfer := [IGetLocal vl2; ITransferConv c; ISetLocal vl2; IGetLocal vl1; ITransferConv c; ISetLocal vl1] in
  let sets := compile_swap_set ce t1 tl1 kl1 vl2 ++ compile_swap_set ce t2 tl2 kl2 vl1 in
  let p0 := (pc + length c1 + length c2 + length g1 + length g2)%nat in
  if is_index_target t1 then
    let lelse := (p0 + 4 + length set1_same + 1)%nat in
    let lend := (lelse + length xfer + length sets)%nat in
    (c1 ++ c2 ++ g1 ++ g2 ++
     [IGetLocal vl2; IGetLocal ph1; ISame; IJumpIfFalse lelse] ++ set1_same ++ [IJump lend] ++ xfer ++ sets, n4)
  else
    (c1 ++ c2 ++ g1 ++ g2 ++ xfer ++ sets, n4).

(* ------------------------------------------------------------------ statements *)

Definition swap_side_size (t : target) : nat :=
  match t with
  | TVar _ => 2
  | TMember a _ => size_e a + 1
  | TIndex a i => size_e a + 1 + size_e i + 2
  end%nat.

Definition swap_get_size (t : target) (push_ph : bool) : nat :=
  match t with
  | TVar _ => 2
  | TMember _ _ => 3
  | TIndex _ _ => if push_ph then 5 else 4
  end%nat.

Definition swap_set_size (t : target) : nat :=
  match t with TVar _ => 2 | TMember _ _ => 3 | TIndex _ _ => 4 end%nat.

Definition size_swap (t1 t2 : target) : nat :=
  (swap_side_size t1 + swap_side_size t2 + swap_get_size t1 true + swap_get_size t2 false +
   (if is_index_target t1 then 4 + swap_set_size t1 + 1 else 0) + 6 + swap_set_size t1 + swap_set_size t2)%nat.

(* k = number of enclosing for-loops of the function (a return ends each of their iterators) *)
Fixpoint size_s (k : nat) (s : stmt) : nat :=
  match s with
  | SLet _ _ e => size_e e + 3
  | SAssign (TVar _) _ e => size_e e + 3
  | SAssign (TIndex a i) _ e => size_e a + size_e i + size_e e + 4
  | SAssign (TMember a _) _ e => size_e a + size_e e + 3
  | SSwap t1 t2 _ => 1 + size_swap t1 t2
  | SIf c b1 None => size_e c + size_b k b1 + 2
  | SIf c b1 (Some b2) => size_e c + size_b k b1 + size_b k b2 + 3
  | SWhile c b => size_e c + size_b k b + 4
  | SFor _ _ e b => size_e e + size_b (S k) b + 14
  | SBreak | SContinue => 2
  | SReturn None => 2 + 2 * k
  | SReturn (Some (_, e)) => size_e e + 3 + 2 * k
  | SExpr e => size_e e + 2
  end%nat
with size_b (k : nat) (b : block) : nat :=
  match b with
  | BNil => 0
  | BCons s r => size_s k s + size_b k r
  end%nat.

Definition iter_ends (its : list nat) : code :=
  flat_map (fun it => [IGetLocal it; IIterEnd]) its.

(* compile_s cx ce pc nx s = (code at offset pc, environment after the statement, next free local) *)
Fixpoint compile_s (cx : cctx) (ce : cenv) (pc nx : nat) (s : stmt) {struct s} : code * cenv * nat :=
  match s with
  | SLet x c e =>
    let '(code, n1) := compile_e ce (pc + 1) nx e in
    ([IStatement] ++ code ++ [ITransferConv c; ISetLocal n1], (x, n1) :: ce, S n1)
  | SAssign (TVar x) c e =>
    let '(code, n1) := compile_e ce (pc + 1) nx e in
    ([IStatement] ++ code ++ [ITransferConv c; ISetLocal (local_of ce x)], ce, n1)
  | SAssign (TIndex a i) c e =>
    let '(ca, n1) := compile_e ce (pc + 1) nx a in
    let '(ci, n2) := compile_e ce (pc + 1 + length ca) n1 i in
    let '(cv, n3) := compile_e ce (pc + 1 + length ca + length ci + 1) n2 e in
    ([IStatement] ++ ca ++ ci ++ [ITransferConv O] ++ cv ++ [ITransferConv c; ISetIndex], ce, n3)
  | SAssign (TMember a f) c e =>
    let '(ca, n1) := compile_e ce (pc + 1) nx a in
    let '(cv, n2) := compile_e ce (pc + 1 + length ca) n1 e in
    ([IStatement] ++ ca ++ cv ++ [ITransferConv c; ISetField f], ce, n2)
  | SSwap t1 t2 c =>
    let '(code, n1) := compile_swap ce (pc + 1) nx t1 t2 c in
    ([IStatement] ++ code, ce, n1)
  | SIf c b1 None =>
    let '(cc, n1) := compile_e ce (pc + 1) nx c in
    let p1 := (pc + 1 + length cc + 1)%nat in
    let '(c1, n2) := compile_b cx ce p1 n1 b1 in
    ([IStatement] ++ cc ++ [IJumpIfFalse (p1 + length c1)] ++ c1, ce, n2)
  | SIf c b1 (Some b2) =>
    let '(cc, n1) := compile_e ce (pc + 1) nx c in
    let p1 := (pc + 1 + length cc + 1)%nat in
    let '(c1, n2) := compile_b cx ce p1 n1 b1 in
    let p2 := (p1 + length c1 + 1)%nat in
    let '(c2, n3) := compile_b cx ce p2 n2 b2 in
    ([IStatement] ++ cc ++ [IJumpIfFalse p2] ++ c1 ++ [IJump (p2 + length c2)] ++ c2, ce, n3)
  | SWhile c b =>
    let ltest := (pc + 1)%nat in
    let '(cc, n1) := compile_e ce ltest nx c in
    let pb := (ltest + length cc + 2)%nat in
    let lend := (pb + size_b (length (cx_iters cx)) b + 1)%nat in
    let '(cb, n2) := compile_b (mkCtx lend ltest (cx_iters cx)) ce pb n1 b in
    ([IStatement] ++ cc ++ [IJumpIfFalse lend; ILoop] ++ cb ++ [IJump ltest], ce, n2)
  | SFor x c e b =>
    let '(cv, n1) := compile_e ce (pc + 1) nx e in
    let it := n1 in
    let xl := S n1 in
    let ltest := (pc + 1 + length cv + 2)%nat in
    let pb := (ltest + 8)%nat in
    let lend := (pb + size_b (S (length (cx_iters cx))) b + 1)%nat in
    let '(cb, n2) := compile_b (mkCtx lend ltest (cx_iters cx ++ [it])) ((x, xl) :: ce) pb (S (S n1)) b in
    ([IStatement] ++ cv ++ [IIterator; ISetLocal it;
                            IGetLocal it; IIterHasNext; IJumpIfFalse lend; ILoop;
                            IGetLocal it; IIterNext; ITransferConv c; ISetLocal xl] ++
     cb ++ [IJump ltest; IGetLocal it; IIterEnd], ce, n2)
  | SBreak => ([IStatement; IJump (cx_brk cx)], ce, nx)
  | SContinue => ([IStatement; IJump (cx_cont cx)], ce, nx)
  | SReturn None => ([IStatement] ++ iter_ends (cx_iters cx) ++ [IReturn], ce, nx)
  | SReturn (Some (c, e)) =>
    let '(code, n1) := compile_e ce (pc + 1) nx e in
    ([IStatement] ++ code ++ iter_ends (cx_iters cx) ++ [ITransferConv c; IReturnValue], ce, n1)
  | SExpr e =>
    let '(code, n1) := compile_e ce (pc + 1) nx e in
    ([IStatement] ++ code ++ [IDrop], ce, n1)
  end
(* a block: its declarations go out of scope at its end; local indices are never reused *)
with compile_b (cx : cctx) (ce : cenv) (pc nx : nat) (b : block) {struct b} : code * nat :=
  match b with
  | BNil => ([], nx)
  | BCons s r =>
    let '(c1, ce1, n1) := compile_s cx ce pc nx s in
    let '(c2, n2) := compile_b cx ce1 (pc + length c1) n1 r in
    (c1 ++ c2, n2)
  end.

(* ------------------------------------------------------------------ functions and programs *)

Fixpoint ends_with_return (b : block) : bool :=
  match b with
  | BNil => false
  | BCons (SReturn _) BNil => true
  | BCons _ r => ends_with_return r
  end.

Fixpoint param_env (ps : list name) (i : nat) (acc : cenv) : cenv :=
  match ps with
  | [] => acc
  | p :: r => param_env r (S i) ((p, i) :: acc)
  end.

Definition compile_fun (fd : fundef) : cfun :=
  let n := length (fn_params fd) in
  let '(c, _) := compile_b (mkCtx O O []) (param_env (fn_params fd) O []) O n (fn_body fd) in
  mkCFun n (if ends_with_return (fn_body fd) then c else c ++ [IReturn]).

Definition compile (P : program) : cprogram := map compile_fun P.
