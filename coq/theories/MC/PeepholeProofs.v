(* C34: each modelled peephole pattern preserves the behaviour of its window: from every machine
   state, executing the two original instructions leads to the same stack, locals, heap, log and
   outcome as executing the replacement (the program counter ends one past the window in both). *)
From CV Require Import MC.VM MC.Peephole.

Section patterns.
  Variable C : cprogram.

  (* run instruction i in the top frame, then continue with k on the resulting state *)
  Definition then_instr (r : vmres) (i : instr) : vmres :=
    match r with
    | Running s =>
      match v_frames s with
      | fr :: fs => exec_instr C i s fr fs
      | [] => Done (Err Internal) (v_st s)
      end
    | Done x sx => Done x sx
    end.

  (* states equal up to the program counter of the top frame *)
  Definition set_pc (pc : nat) (r : vmres) : vmres :=
    match r with
    | Running s =>
      match v_frames s with
      | fr :: fs => Running (mkVM (mkFrame (f_fn fr) pc (f_stk fr) (f_loc fr) :: fs) (v_st s) (v_its s))
      | [] => r
      end
    | Done _ _ => r
    end.

  Definition top (fn pc : nat) (stk loc : list val) (fs : list frame) (sx : st) (its : list (list val)) : vmst :=
    mkVM (mkFrame fn pc stk loc :: fs) sx its.

  (* executing the window [i1; i2] at pc vs. its replacement [j] at pc': same result up to the pc *)
  Definition window_ok (i1 i2 j : instr) : Prop :=
    forall fn pc pc' stk loc fs sx its,
      set_pc O (then_instr (exec_instr C i1 (top fn pc stk loc fs sx its) (mkFrame fn pc stk loc) fs) i2) =
      set_pc O (exec_instr C j (top fn pc' stk loc fs sx its) (mkFrame fn pc' stk loc) fs).

  Lemma getfieldlocal_ok n f : window_ok (IGetLocal n) (IGetField f) (IGetFieldLocal f n).
  Proof.
    intros fn pc pc' stk loc fs sx its.
    unfold then_instr, top, exec_instr, cont. cbn [v_frames f_pc f_stk f_loc f_fn v_st v_its].
    destruct (get_field (hp sx) (get_loc loc n) f); reflexivity.
  Qed.

  Lemma const_transfer_ok v : is_simple_const v = true -> window_ok (IConst v) (ITransferConv O) (IConst v).
  Proof.
    intros Hv fn pc pc' stk loc fs sx its.
    unfold then_instr, top, exec_instr, cont. cbn [v_frames f_pc f_stk f_loc f_fn v_st v_its].
    destruct v; try discriminate; cbn; destruct sx; reflexivity.
  Qed.

  Lemma nil_transfer_ok c : window_ok INil (ITransferConv c) INil.
  Proof.
    intros fn pc pc' stk loc fs sx its.
    unfold then_instr, top, exec_instr, cont. cbn [v_frames f_pc f_stk f_loc f_fn v_st v_its].
    unfold tconv, copy. cbn.
    replace (box c VNil) with VNil by (destruct c; reflexivity). destruct sx; reflexivity.
  Qed.

  (* every window the pass replaces is one of the above *)
  Theorem peephole_preserves : forall i1 i2 rep,
    pattern i1 i2 = Some rep -> exists j, rep = [j] /\ window_ok i1 i2 j.
  Proof.
    intros i1 i2 rep H. destruct i1; try discriminate; destruct i2; try discriminate; simpl in H.
    - destruct c; try discriminate. destruct (is_simple_const v) eqn:Hv; [|discriminate].
      inversion H; subst. eexists; split; [reflexivity|]. now apply const_transfer_ok.
    - inversion H; subst. eexists; split; [reflexivity|]. apply nil_transfer_ok.
    - inversion H; subst. eexists; split; [reflexivity|]. apply getfieldlocal_ok.
  Qed.
End patterns.
