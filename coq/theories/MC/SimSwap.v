(* C34: simulation of the swap statement (VisitSwapStatement in both engines). *)
From CV Require Import MC.VM MC.SimBase MC.SimDefs MC.SimExpr MC.SimStmtBase MC.EvalOrder.
From Coq Require Import Lia.
Local Open Scope nat_scope.
Arguments bindM {A B} m f : simpl nomatch.

Section swap.
  Variable P : program.
  Notation C := (compile P).
  Notation strict := true.

  Ltac fix_code Ca :=
    match type of Ca with
    | _ = (?code, _) =>
      match type of Ca with
      | compile_e _ ?pc _ _ = _ =>
        match goal with H : code_at _ ?p code |- _ => first [constr_eq p pc | replace p with pc in H by lia] end
      end
    end.

  Ltac use_e IHe Ea Ca fn stk loc fs its :=
    fix_code Ca;
    let S := fresh "SX" in
    pose proof (esim_use P strict _ IHe _ _ _ _ _ _ _ _ _ _ fn stk loc fs its Ea Ca
                         ltac:(eassumption) ltac:(eassumption) ltac:(eassumption)) as S;
    cbn beta iota in S.

  Ltac norm H := repeat (progress (unfold ret, fail in H; rewrite ?bind_ok, ?bind_err in H)).
  Ltac fin_ok := apply steps_refl_eq, conf_pc_eq; len; pc_lia.
  Ltac fin_err := eexists; split; [apply steps_refl|]; vm_one.
  Ltac bad := let G := fresh in intros [G ?]; congruence.

  (* what the temporaries of a swap side hold after its sub-expressions were evaluated *)
  Definition side_ok (g : gs) (t : target) (tl kl : nat) (ce : cenv) (loc : list val) : Prop :=
    match t, g with
    | TVar x, GVar y => x = y
    | TIndex _ _, GIndex c i => get_loc loc tl = c /\ get_loc loc kl = i
    | TMember _ f, GMember c f' => f = f' /\ get_loc loc tl = c
    | _, _ => False
    end.

  (* the temporary of a variable side holds the variable's current value *)
  Definition side_val (t : target) (tl : nat) (ce : cenv) (r : env) (loc : list val) : Prop :=
    match t with
    | TVar x => forall v, lookup r x = Some v -> get_loc loc tl = v
    | _ => True
    end.

  Lemma side_ok_agree g t tl kl ce loc loc' nx :
    agree nx loc loc' -> tl < nx -> (is_index_target t = true -> kl < nx) ->
    side_ok g t tl kl ce loc -> side_ok g t tl kl ce loc'.
  Proof.
    intros A Ht Hk S. destruct t, g; simpl in *; try contradiction; auto.
    - destruct S as [E1 E2]. rewrite (A tl), (A kl); auto.
    - destruct S as [-> E]. split; auto. rewrite (A tl); auto.
  Qed.

  Lemma side_val_agree t tl ce r loc loc' nx :
    agree nx loc loc' -> tl < nx -> side_val t tl ce r loc -> side_val t tl ce r loc'.
  Proof. intros A Ht S. destruct t; simpl in *; auto. intros v L. rewrite (A tl); auto. Qed.

  Lemma local_of_bound ce nx x : wf_ce ce nx -> clookup ce x <> None -> local_of ce x < nx.
  Proof.
    intros W H. unfold local_of. destruct (clookup ce x) as [i|] eqn:L; [|congruence].
    eapply wf_ce_bound; [exact W|].
    clear W H. induction ce as [|[y j] ce IH]; simpl in L; [discriminate|].
    destruct (Nat.eqb y x); [inversion L; subst; exists y; now left|].
    destruct (IH L) as [u Hu]. exists u. now right.
  Qed.

  (* sub-expressions of one side *)
  Lemma side_sim n (Hall : forall m, m <= n -> esim P strict m) t r s res s' ce pc nx code tl kl nx' fn stk loc fs its :
    eval_target P strict n t r s = (res, s') ->
    compile_swap_side ce pc nx t = (code, tl, kl, nx') ->
    code_at (code_of C fn) pc code ->
    match_env ce r loc -> wf_ce ce nx ->
    match res with
    | Ok g => exists loc' its',
        steps P (conf fn pc stk loc fs s its) (conf fn (pc + length code) stk loc' fs s' its') /\
        keep nx loc its loc' its' /\ match_env ce r loc' /\ side_ok g t tl kl ce loc' /\ side_val t tl ce r loc'
    | Err er => good er -> halts P (conf fn pc stk loc fs s its) er s'
    end.
  Proof.
    intros Hev Hc Hat Hm Hw.
    destruct n as [|m]; [inversion Hev; subst; intros [_ G]; congruence|].
    pose proof (Hall m ltac:(lia)) as IHe.
    destruct t; simpl in Hc.
    - (* variable *)
      inversion Hc; subst; clear Hc. inversion Hev; subst; clear Hev. split_code Hat.
      exists (set_loc loc tl (get_loc loc (local_of ce x))), its.
      split; [|split; [apply keep_set; lia|split; [|split]]].
      + vstep. vstep. fin_ok.
      + eapply match_env_agree; [exact Hw|apply agree_set; lia|exact Hm].
      + simpl. reflexivity.
      + simpl. intros v L. rewrite get_set_same. eapply match_env_lookup; eauto.
    - (* index *)
      destruct (compile_e ce pc nx a) as [ca n1] eqn:Ca.
      destruct (compile_e ce (pc + length ca + 1) (S n1) i) as [ci n2] eqn:Ci.
      inversion Hc; subst; clear Hc. simpl in Hat. split_code Hat.
      rewrite target_index_unfold in Hev.
      destruct (eval P strict m a r s) as [[va|er] s1] eqn:Ea; norm Hev.
      2:{ inversion Hev; subst. use_e IHe Ea Ca fn stk loc fs its. apply SX. }
      use_e IHe Ea Ca fn stk loc fs its. destruct SX as (L1 & W1 & loc1 & its1 & St1 & K1 & M1).
      set (locA := set_loc loc1 tl va).
      assert (MA : match_env ce r locA).
      { eapply match_env_agree; [exact W1|apply agree_set; lia|exact M1]. }
      assert (WA : wf_ce ce (S tl)) by (eapply wf_ce_mono; [|exact W1]; lia).
      destruct (eval P strict m i r s1) as [[vi|er] s2] eqn:Ei; norm Hev.
      2:{ inversion Hev; subst. use_e IHe Ei Ci fn stk locA fs its1.
          intros G. eapply halts_steps; [exact St1|]. eapply halts_steps; [|now apply SX].
          vstep. fin_ok. }
      use_e IHe Ei Ci fn stk locA fs its1. destruct SX as (L2 & W2 & loc2 & its2 & St2 & K2 & M2).
      destruct (tconv 0 vi s2) as [[vi'|er] s3] eqn:T; norm Hev.
      2:{ inversion Hev; subst. intros G. eapply halts_steps; [exact St1|].
          eapply halts_steps. { vstep. eapply steps_trans; [|exact St2]. fin_ok. }
          fin_err. rewrite T. reflexivity. }
      inversion Hev; subst; clear Hev.
      exists (set_loc loc2 kl vi'), its2. split; [|split; [|split; [|split; [|exact I]]]].
      + eapply steps_trans; [exact St1|]. vstep.
        eapply steps_trans; [eapply steps_trans; [|exact St2]; fin_ok|].
        vstep. rewrite T. reflexivity. vstep. fin_ok.
      + eapply (keep_trans nx tl); [lia|exact K1|].
        eapply (keep_trans tl (S tl) _ _ locA its1); [lia|apply keep_set; lia|].
        eapply (keep_trans (S tl) kl); [lia|exact K2|apply keep_set; lia].
      + eapply match_env_agree; [exact W2|apply agree_set; lia|exact M2].
      + simpl. split; [|apply get_set_same].
        rewrite get_set_other by lia. destruct K2 as [A2 _]. rewrite A2 by lia. apply get_set_same.
    - (* member *)
      destruct (compile_e ce pc nx a) as [ca n1] eqn:Ca.
      inversion Hc; subst; clear Hc. split_code Hat.
      rewrite target_member_unfold in Hev.
      destruct (eval P strict m a r s) as [[va|er] s1] eqn:Ea; norm Hev.
      2:{ inversion Hev; subst. use_e IHe Ea Ca fn stk loc fs its. apply SX. }
      use_e IHe Ea Ca fn stk loc fs its. destruct SX as (L1 & W1 & loc1 & its1 & St1 & K1 & M1).
      inversion Hev; subst; clear Hev.
      exists (set_loc loc1 tl va), its1. split; [|split; [|split; [|split; [|exact I]]]].
      + eapply steps_trans; [exact St1|]. vstep. fin_ok.
      + eapply (keep_trans nx tl); [lia|exact K1|apply keep_set; lia].
      + eapply match_env_agree; [exact W1|apply agree_set; lia|exact M1].
      + simpl. split; auto. apply get_set_same.
  Qed.

  (* reading a side *)
  Lemma get_sim g t tl kl r s res s' ce nx push code vl ph nx' fn pc stk loc fs its :
    gs_get_swap g r s = (res, s') ->
    compile_swap_get t tl kl nx push = (code, vl, ph, nx') ->
    code_at (code_of C fn) pc code ->
    side_ok g t tl kl ce loc -> side_val t tl ce r loc ->
    match res with
    | Ok (v, lph) => exists loc',
        steps P (conf fn pc stk loc fs s its) (conf fn (pc + length code) stk loc' fs s' its) /\
        agree nx loc loc' /\ get_loc loc' vl = v /\ lph = is_index_target t /\
        (is_index_target t = true -> push = true -> get_loc loc' ph = VPh)
    | Err er => good er -> halts P (conf fn pc stk loc fs s its) er s'
    end.
  Proof.
    intros Hg Hc Hat So Sv. destruct t, g; simpl in So; try contradiction; simpl in Hc, Hg.
    - (* variable *)
      subst x0. inversion Hc; subst; clear Hc. split_code Hat.
      destruct (lookup r x) as [v|] eqn:L; inversion Hg; subst; clear Hg; [|bad].
      exists (set_loc loc vl (get_loc loc tl)). split; [|split; [apply agree_set; lia|split; [|split]]].
      + vstep. vstep. fin_ok.
      + rewrite get_set_same. now apply Sv.
      + reflexivity.
      + discriminate.
    - (* index *)
      destruct So as [E1 E2].
      destruct (remove_index (hp s) c i0) as [[v h']|er] eqn:R; inversion Hg; subst; clear Hg.
      + destruct push; inversion Hc; subst; clear Hc; split_code Hat.
        * exists (set_loc (set_loc loc ph VPh) (S ph) v).
          split; [|split; [|split; [apply get_set_same|split; [reflexivity|]]]].
          -- vstep. vstep. vstep. rewrite R. reflexivity. vstep. vstep. fin_ok.
          -- eapply (agree_trans ph (S ph) loc (set_loc loc ph VPh)); [lia|apply agree_set; lia|apply agree_set; lia].
          -- intros _ _. rewrite get_set_other by lia. apply get_set_same.
        * exists (set_loc loc vl v).
          split; [|split; [apply agree_set; lia|split; [apply get_set_same|split; [reflexivity|discriminate]]]].
          vstep. vstep. vstep. rewrite R. reflexivity. vstep. fin_ok.
      + intros G. destruct push; inversion Hc; subst; clear Hc; split_code Hat.
        * eapply halts_steps. { vstep. vstep. apply steps_refl. } fin_err. rewrite R. reflexivity.
        * eapply halts_steps. { vstep. vstep. apply steps_refl. } fin_err. rewrite R. reflexivity.
    - (* member *)
      destruct So as [<- E].
      destruct (get_field (hp s) c f) as [v|er] eqn:Gf; inversion Hg; subst; clear Hg;
        inversion Hc; subst; clear Hc; split_code Hat.
      + exists (set_loc loc vl v).
        split; [|split; [apply agree_set; lia|split; [apply get_set_same|split; [reflexivity|discriminate]]]].
        vstep. vstep. rewrite Gf. reflexivity. vstep. fin_ok.
      + intros G. eapply halts_steps. { vstep. apply steps_refl. } fin_err. rewrite Gf. reflexivity.
  Qed.

  (* writing a side *)
  Lemma set_sim g t tl kl vl v r s res s' ce nxb fn pc stk loc fs its :
    gs_set g v r s = (res, s') ->
    code_at (code_of C fn) pc (compile_swap_set ce t tl kl vl) ->
    match_env ce r loc -> wf_ce ce nxb ->
    side_ok g t tl kl ce loc -> get_loc loc vl = v ->
    match res with
    | Ok r' => exists loc',
        steps P (conf fn pc stk loc fs s its)
              (conf fn (pc + length (compile_swap_set ce t tl kl vl)) stk loc' fs s' its) /\
        match_env ce r' loc' /\ (forall i, ~ in_ce ce i -> get_loc loc' i = get_loc loc i)
    | Err er => good er -> halts P (conf fn pc stk loc fs s its) er s'
    end.
  Proof.
    intros Hs Hat Hm Hw So Hv. destruct t, g; simpl in So; try contradiction; simpl in Hs, Hat |- *.
    - subst x0. split_code Hat.
      destruct (update r x v) as [r'|] eqn:U; inversion Hs; subst; clear Hs; [|bad].
      destruct (match_env_update _ _ _ _ _ _ _ Hw Hm U) as [M2 Hin].
      exists (set_loc loc (local_of ce x) (get_loc loc vl)). split; [|split; [exact M2|]].
      + vstep. vstep. fin_ok.
      + intros i Hni. apply get_set_other. intros <-. now apply Hni.
    - destruct So as [E1 E2]. split_code Hat.
      destruct (set_index (hp s) c i0 v) as [h'|er] eqn:SI; inversion Hs; subst; clear Hs.
      + exists loc. split; [|split; [exact Hm|auto]].
        vstep. vstep. vstep. vstep. rewrite SI. reflexivity. fin_ok.
      + intros G. eapply halts_steps. { vstep. vstep. vstep. apply steps_refl. }
        fin_err. rewrite SI. reflexivity.
    - destruct So as [<- E]. split_code Hat.
      destruct (set_field (hp s) c f v) as [h'|er] eqn:SF; inversion Hs; subst; clear Hs.
      + exists loc. split; [|split; [exact Hm|auto]].
        vstep. vstep. vstep. rewrite SF. reflexivity. fin_ok.
      + intros G. eapply halts_steps. { vstep. vstep. apply steps_refl. }
        fin_err. rewrite SF. reflexivity.
  Qed.

  Lemma not_in_ce_ge ce nx i : wf_ce ce nx -> nx <= i -> ~ in_ce ce i.
  Proof. intros W L Hin. pose proof (wf_ce_bound _ _ _ W Hin). lia. Qed.

  Lemma swap_sim n (Hall : forall m, m <= n -> esim P strict m)
        t1 t2 cv r s res s' cx ce pc nx code ce' nx' fn stk loc fs its :
    exec P strict (S n) (SSwap t1 t2 cv) r s = (res, s') ->
    compile_s cx ce pc nx (SSwap t1 t2 cv) = (code, ce', nx') ->
    code_at (code_of C fn) pc code ->
    match_env ce r loc -> wf_ce ce nx ->
    match res with
    | Ok (ONormal, r') => exists loc' its',
        steps P (conf fn pc stk loc fs s its) (conf fn (pc + length code) stk loc' fs s' its') /\
        match_env ce' r' loc' /\ keeps ce nx loc its loc' its'
    | Ok (_, _) => False
    | Err er => good er -> halts P (conf fn pc stk loc fs s its) er s'
    end.
  Proof.
    intros Hev Hc Hat Hm Hw. rewrite exec_swap_unfold in Hev. simpl in Hc.
    destruct (compile_swap ce (pc + 1) nx t1 t2 cv) as [cw nw] eqn:W. inversion Hc; subst; clear Hc.
    unfold compile_swap in W.
    destruct (compile_swap_side ce' (pc + 1) nx t1) as [[[c1 tl1] kl1] n1] eqn:S1.
    destruct (compile_swap_side ce' (pc + 1 + length c1) n1 t2) as [[[c2 tl2] kl2] n2] eqn:S2.
    destruct (compile_swap_get t1 tl1 kl1 n2 true) as [[[g1c vl1] ph1] n3] eqn:G1.
    destruct (compile_swap_get t2 tl2 kl2 n3 false) as [[[g2c vl2] ph2] n4] eqn:G2.
    destruct (swap_side_facts _ _ _ _ _ _ _ _ S1) as (A1 & B1 & T1 & X1).
    destruct (swap_side_facts _ _ _ _ _ _ _ _ S2) as (A2 & B2 & T2 & X2).
    destruct (swap_get_facts _ _ _ _ _ _ _ _ _ G1) as (A3 & B3 & V1 & Y1).
    destruct (swap_get_facts _ _ _ _ _ _ _ _ _ G2) as (A4 & B4 & V2 & _).
    set (xfer := [IGetLocal vl2; ITransferConv cv; ISetLocal vl2; IGetLocal vl1; ITransferConv cv; ISetLocal vl1]) in *.
    set (sets := compile_swap_set ce' t1 tl1 kl1 vl2 ++ compile_swap_set ce' t2 tl2 kl2 vl1) in *.
    assert (Hrest : exists rest, cw = c1 ++ c2 ++ g1c ++ g2c ++ rest /\ nx' = n4 /\
              rest = if is_index_target t1
                     then [IGetLocal vl2; IGetLocal ph1; ISame;
                           IJumpIfFalse (pc + 1 + length c1 + length c2 + length g1c + length g2c + 4 +
                                         length (compile_swap_set ce' t1 tl1 kl1 vl1) + 1)] ++
                          compile_swap_set ce' t1 tl1 kl1 vl1 ++
                          [IJump (pc + 1 + length c1 + length c2 + length g1c + length g2c + 4 +
                                  length (compile_swap_set ce' t1 tl1 kl1 vl1) + 1 + length xfer + length sets)] ++
                          xfer ++ sets
                     else xfer ++ sets).
    { destruct (is_index_target t1); inversion W; subst; eexists; (split; [|split; [reflexivity|reflexivity]]);
        repeat rewrite <- app_assoc; reflexivity. }
    destruct Hrest as (rest & -> & -> & Hrest). clear W.
    simpl in Hat. apply code_at_cons in Hat. destruct Hat as [Hi0 Hat].
    apply code_at_app in Hat. destruct Hat as [Hc1 Hat].
    apply code_at_app in Hat. destruct Hat as [Hc2 Hat].
    apply code_at_app in Hat. destruct Hat as [Hg1 Hat].
    apply code_at_app in Hat. destruct Hat as [Hg2 Hat].
    (* left side *)
    replace (S pc) with (pc + 1) in Hc1 by lia.
    destruct (eval_target P strict n t1 r s) as [[g1|er] s1] eqn:E1; norm Hev.
    2:{ inversion Hev; subst.
        pose proof (side_sim n Hall _ _ _ _ _ _ _ _ _ _ _ _ fn stk loc fs its E1 S1 Hc1 Hm Hw) as SS.
        intros G. eapply halts_steps; [|now apply SS]. vstep. fin_ok. }
    destruct (side_sim n Hall _ _ _ _ _ _ _ _ _ _ _ _ fn stk loc fs its E1 S1 Hc1 Hm Hw)
      as (loc1 & its1 & St1 & K1 & M1 & O1 & Sv1).
    assert (W1 : wf_ce ce' n1) by (eapply wf_ce_mono; eauto).
    (* right side *)
    replace (S pc + length c1) with (pc + 1 + length c1) in Hc2 by lia.
    destruct (eval_target P strict n t2 r s1) as [[g2|er] s2] eqn:E2; norm Hev.
    2:{ inversion Hev; subst.
        pose proof (side_sim n Hall _ _ _ _ _ _ _ _ _ _ _ _ fn stk loc1 fs its1 E2 S2 Hc2 M1 W1) as SS.
        intros G. eapply halts_steps; [vstep; eapply steps_trans; [|exact St1]; fin_ok|]. now apply SS. }
    destruct (side_sim n Hall _ _ _ _ _ _ _ _ _ _ _ _ fn stk loc1 fs its1 E2 S2 Hc2 M1 W1)
      as (loc2 & its2 & St2 & K2 & M2 & O2 & Sv2).
    assert (St12 : steps P (conf fn pc stk loc fs s its)
                         (conf fn (pc + 1 + length c1 + length c2) stk loc2 fs s2 its2)).
    { vstep. eapply steps_trans; [eapply steps_trans; [|exact St1]; fin_ok|]. exact St2. }
    clear St1 St2.
    assert (O1' : side_ok g1 t1 tl1 kl1 ce' loc2).
    { eapply side_ok_agree; [apply K2| | |exact O1]; [lia|intros Hx; destruct (X1 Hx); lia]. }
    assert (Sv1' : side_val t1 tl1 ce' r loc2).
    { eapply side_val_agree; [apply K2| |exact Sv1]. lia. }
    (* left read *)
    destruct (gs_get_swap g1 r s2) as [[[l lph]|er] s3] eqn:R1; norm Hev.
    2:{ inversion Hev; subst.
        pose proof (get_sim _ _ _ _ _ _ _ _ _ _ _ _ _ _ _ fn _ stk loc2 fs its2 R1 G1 Hg1 O1' Sv1') as SG.
        intros G. eapply halts_steps; [exact St12|]. eapply halts_steps; [|now apply SG]. fin_ok. }
    destruct (get_sim _ _ _ _ _ _ _ _ _ _ _ _ _ _ _ fn _ stk loc2 fs its2 R1 G1 Hg1 O1' Sv1')
      as (loc3 & St3 & Ag3 & Hl & Hlph & Hph).
    assert (O2' : side_ok g2 t2 tl2 kl2 ce' loc3).
    { eapply side_ok_agree; [exact Ag3| | |exact O2]; [lia|intros Hx; destruct (X2 Hx); lia]. }
    assert (Sv2' : side_val t2 tl2 ce' r loc3).
    { eapply side_val_agree; [exact Ag3| |exact Sv2]. lia. }
    (* right read *)
    destruct (gs_get_swap g2 r s3) as [[[rv rph]|er] s4] eqn:R2; norm Hev.
    2:{ inversion Hev; subst.
        pose proof (get_sim _ _ _ _ _ _ _ _ _ _ _ _ _ _ _ fn _ stk loc3 fs its2 R2 G2 Hg2 O2' Sv2') as SG.
        intros G. eapply halts_steps; [exact St12|]. eapply halts_steps; [eapply steps_trans; [|exact St3]; fin_ok|].
        eapply halts_steps; [|now apply SG]. fin_ok. }
    destruct (get_sim _ _ _ _ _ _ _ _ _ _ _ _ _ _ _ fn _ stk loc3 fs its2 R2 G2 Hg2 O2' Sv2')
      as (loc4 & St4 & Ag4 & Hr & _ & _).
    set (p0 := pc + 1 + length c1 + length c2 + length g1c + length g2c) in *.
    assert (St14 : steps P (conf fn pc stk loc fs s its) (conf fn p0 stk loc4 fs s4 its2)).
    { eapply steps_trans; [exact St12|]. eapply steps_trans; [eapply steps_trans; [|exact St3]; fin_ok|].
      eapply steps_trans; [eapply steps_trans; [|exact St4]; fin_ok|]. fin_ok. }
    clear St12 St3 St4.
    (* facts at loc4 *)
    assert (O1'' : side_ok g1 t1 tl1 kl1 ce' loc4).
    { eapply side_ok_agree; [eapply (agree_trans n2 n3); [lia|exact Ag3|exact Ag4]| | |exact O1'];
        [lia|intros Hx; destruct (X1 Hx); lia]. }
    assert (O2'' : side_ok g2 t2 tl2 kl2 ce' loc4).
    { eapply side_ok_agree; [exact Ag4| | |exact O2']; [lia|intros Hx; destruct (X2 Hx); lia]. }
    assert (Hl4 : get_loc loc4 vl1 = l) by (rewrite Ag4 by lia; exact Hl).
    assert (M4 : match_env ce' r loc4).
    { eapply match_env_agree; [|eapply (agree_trans n2 n3); [lia|exact Ag3|exact Ag4]|exact M2].
      eapply wf_ce_mono; [|exact W1]. lia. }
    assert (Ag04 : agree nx loc loc4).
    { eapply (agree_trans nx n1); [lia|apply K1|]. eapply (agree_trans n1 n2); [lia|apply K2|].
      eapply (agree_trans n2 n3); [lia|exact Ag3|exact Ag4]. }
    assert (E04 : its_ext its its2) by (eapply its_ext_trans; [apply K1|apply K2]).
    assert (W4 : wf_ce ce' n4) by (eapply wf_ce_mono; [|exact Hw]; lia).
    (* the transfer-and-write tail, shared by both shapes of the code *)
    assert (Tail : forall px,
               code_at (code_of C fn) px (xfer ++ sets) ->
               lph && is_ph rv = false ->
               match res with
               | Ok (ONormal, r') => exists loc' its',
                   steps P (conf fn px stk loc4 fs s4 its2)
                         (conf fn (px + length (xfer ++ sets)) stk loc' fs s' its') /\
                   match_env ce' r' loc' /\ keeps ce' nx loc its loc' its'
               | Ok (_, _) => False
               | Err er => good er -> halts P (conf fn px stk loc4 fs s4 its2) er s'
               end).
    { intros px Hx Hcond. rewrite Hcond in Hev.
      apply code_at_app in Hx. destruct Hx as [Hxf Hsets]. unfold xfer in Hxf. split_code Hxf.
      destruct (tconv cv rv s4) as [[rv'|er] s5] eqn:Tc1; norm Hev.
      2:{ inversion Hev; subst res s'. intros G. eapply halts_steps. { vstep. try rewrite Hr. apply steps_refl. }
          fin_err. rewrite Tc1. reflexivity. }
      destruct (tconv cv l s5) as [[l'|er] s6] eqn:Tc2; norm Hev.
      2:{ inversion Hev; subst res s'. intros G.
          eapply halts_steps. { vstep. try rewrite Hr. vstep. rewrite Tc1. reflexivity. vstep. vstep.
                                rewrite get_set_other by lia. try rewrite Hl4. apply steps_refl. }
          fin_err. rewrite Tc2. reflexivity. }
      set (loc5 := set_loc (set_loc loc4 vl2 rv') vl1 l').
      assert (St5 : steps P (conf fn px stk loc4 fs s4 its2) (conf fn (px + 6) stk loc5 fs s6 its2)).
      { vstep. try rewrite Hr. vstep. rewrite Tc1. reflexivity. vstep. vstep.
        rewrite get_set_other by lia. try rewrite Hl4. vstep. rewrite Tc2. reflexivity. vstep. fin_ok. }
      assert (Ag5 : agree n2 loc4 loc5).
      { eapply (agree_trans n2 n2 loc4 (set_loc loc4 vl2 rv')); [lia|apply agree_set; lia|apply agree_set; lia]. }
      assert (M5 : match_env ce' r loc5).
      { eapply match_env_agree; [|exact Ag5|exact M4]. eapply wf_ce_mono; [|exact Hw]. lia. }
      assert (O15 : side_ok g1 t1 tl1 kl1 ce' loc5).
      { eapply side_ok_agree; [exact Ag5| | |exact O1'']; [lia|intros Hx; destruct (X1 Hx); lia]. }
      assert (O25 : side_ok g2 t2 tl2 kl2 ce' loc5).
      { eapply side_ok_agree; [exact Ag5| | |exact O2'']; [lia|intros Hx; destruct (X2 Hx); lia]. }
      assert (Hv2 : get_loc loc5 vl2 = rv').
      { unfold loc5. rewrite get_set_other by lia. apply get_set_same. }
      assert (Hv1 : get_loc loc5 vl1 = l') by apply get_set_same.
      unfold sets in Hsets. apply code_at_app in Hsets. destruct Hsets as [Hs1 Hs2].
      replace (px + length xfer) with (px + 6) in Hs1, Hs2 by reflexivity.
      destruct (gs_set g1 rv' r s6) as [[r1|er] s7] eqn:W1s; norm Hev.
      2:{ inversion Hev; subst res s'.
          pose proof (set_sim _ _ _ _ _ _ _ _ _ _ _ _ fn _ stk loc5 fs its2 W1s Hs1 M5 W4 O15 Hv2) as SS.
          intros G. eapply halts_steps; [exact St5|]. now apply SS. }
      destruct (set_sim _ _ _ _ _ _ _ _ _ _ _ _ fn _ stk loc5 fs its2 W1s Hs1 M5 W4 O15 Hv2)
        as (loc6 & St6 & M6 & P6).
      assert (O26 : side_ok g2 t2 tl2 kl2 ce' loc6).
      { destruct t2, g2; simpl in O25 |- *; try contradiction; auto.
        - destruct O25 as [Ea Eb]. rewrite !P6; auto; apply (not_in_ce_ge _ _ _ Hw); [|lia].
          destruct (X2 eq_refl). lia.
        - destruct O25 as [Ea Eb]. split; auto. rewrite P6; auto. apply (not_in_ce_ge _ _ _ Hw). lia. }
      assert (Hv1' : get_loc loc6 vl1 = l').
      { rewrite P6; auto. apply (not_in_ce_ge _ _ _ Hw). lia. }
      destruct (gs_set g2 l' r1 s7) as [[r2|er] s8] eqn:W2s; norm Hev.
      2:{ inversion Hev; subst res s'.
          pose proof (set_sim _ _ _ _ _ _ _ _ _ _ _ _ fn _ stk loc6 fs its2 W2s Hs2 M6 W4 O26 Hv1') as SS.
          intros G. eapply halts_steps; [exact St5|]. eapply halts_steps; [exact St6|]. now apply SS. }
      destruct (set_sim _ _ _ _ _ _ _ _ _ _ _ _ fn _ stk loc6 fs its2 W2s Hs2 M6 W4 O26 Hv1')
        as (loc7 & St7 & M7 & P7).
      inversion Hev; subst res s'; clear Hev.
      exists loc7, its2. split; [|split; [exact M7|split; [|exact E04]]].
      - eapply steps_trans; [exact St5|]. eapply steps_trans; [exact St6|].
        eapply steps_trans; [exact St7|]. unfold sets. fin_ok.
      - intros i Hlt Hni. rewrite P7, P6 by auto.
        unfold loc5. rewrite !get_set_other by lia. now apply Ag04. }
    (* the two shapes *)
    destruct (is_index_target t1) eqn:I1; subst rest.
    - (* left side is an indexed slot: placeholder test *)
      destruct (Y1 eq_refl eq_refl) as [Yb Yc]. specialize (Hph eq_refl eq_refl).
      assert (Hph4 : get_loc loc4 ph1 = VPh) by (rewrite Ag4 by lia; exact Hph).
      simpl in Hat. apply code_at_cons in Hat. destruct Hat as [Ia Hat].
      apply code_at_cons in Hat. destruct Hat as [Ib Hat].
      apply code_at_cons in Hat. destruct Hat as [Ic Hat].
      apply code_at_cons in Hat. destruct Hat as [Id Hat].
      apply code_at_app in Hat. destruct Hat as [Hsame Hat].
      apply code_at_cons in Hat. destruct Hat as [Ij Hat].
      match type of Hsame with code_at _ ?p _ => replace p with (p0 + 4) in Hsame by pc_lia end.
      subst lph.
      assert (StC : steps P (conf fn p0 stk loc4 fs s4 its2)
                          (conf fn (if is_ph rv then p0 + 4
                                    else p0 + 4 + length (compile_swap_set ce' t1 tl1 kl1 vl1) + 1)
                                stk loc4 fs s4 its2)).
      { vstep. try rewrite Hr. vstep. rewrite Hph4. vstep. vstep. simpl is_ph at 2. rewrite andb_true_r.
        destruct (is_ph rv); fin_ok. }
      destruct (is_ph rv) eqn:Iph.
      + (* swapping a slot with itself: write the left value back *)
        simpl in Hev.
        destruct (gs_set g1 l r s4) as [[r1|er] s5] eqn:W1s; norm Hev.
        2:{ inversion Hev; subst.
            pose proof (set_sim _ _ _ _ _ _ _ _ _ _ _ _ fn (p0 + 4) stk loc4 fs its2 W1s
                                Hsame M4 W4 O1'' Hl4) as SS.
            intros G. eapply halts_steps; [exact St14|]. eapply halts_steps; [exact StC|]. now apply SS. }
        destruct (set_sim _ _ _ _ _ _ _ _ _ _ _ _ fn (p0 + 4) stk loc4 fs its2 W1s
                          Hsame M4 W4 O1'' Hl4)
          as (loc5 & St5 & M5 & P5).
        inversion Hev; subst; clear Hev.
        exists loc5, its2. split; [|split; [exact M5|split; [|exact E04]]].
        * eapply steps_trans; [exact St14|]. eapply steps_trans; [exact StC|].
          eapply steps_trans; [exact St5|]. vstep. fin_ok.
        * intros i Hlt Hni. rewrite P5 by auto. now apply Ag04.
      + (* different slots *)
        assert (Hx : code_at (code_of C fn) (p0 + 4 + length (compile_swap_set ce' t1 tl1 kl1 vl1) + 1) (xfer ++ sets)).
        { match type of Hat with code_at _ ?p _ =>
            replace p with (p0 + 4 + length (compile_swap_set ce' t1 tl1 kl1 vl1) + 1) in Hat by pc_lia end.
          exact Hat. }
        pose proof (Tail _ Hx ltac:(simpl; reflexivity)) as ST.
        destruct res as [[[| | |v] r']|er]; try contradiction.
        * destruct ST as (loc' & its' & StT & MT & KT). exists loc', its'. split; [|split; auto].
          eapply steps_trans; [exact St14|]. eapply steps_trans; [exact StC|].
          eapply steps_trans; [exact StT|]. fin_ok.
        * intros G. eapply halts_steps; [exact St14|]. eapply halts_steps; [exact StC|]. now apply ST.
    - (* left side is a variable or a field: no placeholder *)
      subst lph.
      match type of Hat with code_at _ ?p _ => replace p with p0 in Hat by pc_lia end.
      pose proof (Tail _ Hat ltac:(reflexivity)) as ST.
      destruct res as [[[| | |v] r']|er]; try contradiction.
      + destruct ST as (loc' & its' & StT & MT & KT). exists loc', its'. split; [|split; auto].
        eapply steps_trans; [exact St14|]. eapply steps_trans; [exact StT|]. fin_ok.
      + intros G. eapply halts_steps; [exact St14|]. now apply ST.
  Qed.

End swap.
