(* C34: statement of the simulation between the definitional interpreter and the VM running the
   compiled code, and the tactics used by the proof. *)
From CV Require Import MC.VM MC.SimBase.
From Coq Require Import Lia.

Local Open Scope nat_scope.

(* the iterator table only grows at its end (entries that existed before a well-bracketed piece of
   code ran are untouched by it) *)
Definition its_ext (a b : list (list val)) : Prop := exists c, b = a ++ c.

Lemma its_ext_refl a : its_ext a a.
Proof. exists []. now rewrite app_nil_r. Qed.
Lemma its_ext_trans a b c : its_ext a b -> its_ext b c -> its_ext a c.
Proof. intros [x ->] [y ->]. exists (x ++ y). now rewrite app_assoc. Qed.
Lemma its_ext_app a c : its_ext a (a ++ c).
Proof. now exists c. Qed.
Lemma its_ext_nth a b j : its_ext a b -> j < length a -> nth_error b j = nth_error a j.
Proof. intros [c ->] H. now apply nth_error_app1. Qed.
Lemma its_ext_length a b : its_ext a b -> length a <= length b.
Proof. intros [c ->]. rewrite app_length. lia. Qed.
Lemma set_nth_app2 {A} (a c : list A) k x : length a <= k -> set_nth (a ++ c) k x = a ++ set_nth c (k - length a) x.
Proof.
  revert k. induction a as [|y a IH]; intros k H; simpl in *.
  - now rewrite Nat.sub_0_r.
  - destruct k; [lia|]. simpl. f_equal. apply IH. lia.
Qed.
Lemma its_ext_set a b k x : its_ext a b -> length a <= k -> its_ext a (set_nth b k x).
Proof. intros [c ->] H. rewrite set_nth_app2 by auto. eexists; reflexivity. Qed.

(* locals below n and the old iterator table are kept *)
Definition keep (n : nat) (loc : list val) (its : list (list val)) (loc' : list val) (its' : list (list val)) : Prop :=
  agree n loc loc' /\ its_ext its its'.

Lemma keep_refl n loc its : keep n loc its loc its.
Proof. split; [apply agree_refl|apply its_ext_refl]. Qed.
Lemma keep_trans n m l1 i1 l2 i2 l3 i3 :
  n <= m -> keep n l1 i1 l2 i2 -> keep m l2 i2 l3 i3 -> keep n l1 i1 l3 i3.
Proof. intros H [A1 E1] [A2 E2]. split; [eapply agree_trans; eauto|eapply its_ext_trans; eauto]. Qed.
Lemma keep_set n loc its i v : n <= i -> keep n loc its (set_loc loc i v) its.
Proof. intros H. split; [now apply agree_set|apply its_ext_refl]. Qed.
Lemma keep_its n loc its loc' its' its'' : keep n loc its loc' its' -> its_ext its' its'' -> keep n loc its loc' its''.
Proof. intros [A E] E2. split; auto. eapply its_ext_trans; eauto. Qed.

(* statements: variables may change, other locals below nx and the old iterator table are kept *)
Definition keeps (ce : cenv) (nx : nat) (loc : list val) (its : list (list val)) (loc' : list val) (its' : list (list val)) : Prop :=
  pres ce nx loc loc' /\ its_ext its its'.

Section defs.
  Variable P : program.
  Let C := compile P.

  (* ---------------------------------------------------------------- multi-step execution *)

  Inductive steps : vmst -> vmst -> Prop :=
  | steps_refl : forall s, steps s s
  | steps_step : forall s s' s'', step C s = Running s' -> steps s' s'' -> steps s s''.

  Lemma steps_trans a b c : steps a b -> steps b c -> steps a c.
  Proof. induction 1; auto. intros. econstructor; eauto. Qed.

  Lemma steps_refl_eq a b : a = b -> steps a b.
  Proof. intros ->. constructor. Qed.

  (* the machine stops with error e in state sx *)
  Definition halts (s : vmst) (e : err) (sx : st) : Prop :=
    exists s1, steps s s1 /\ step C s1 = Done (Err e) sx.

  Lemma halts_steps a b e sx : steps a b -> halts b e sx -> halts a e sx.
  Proof. intros H (s1 & H1 & H2). exists s1. split; auto. eapply steps_trans; eauto. Qed.

  (* a frame configuration *)
  Definition conf (fn pc : nat) (stk loc : list val) (fs : list frame) (sx : st) (its : list (list val)) : vmst :=
    mkVM (mkFrame fn pc stk loc :: fs) sx its.

  (* what a return instruction of the current frame leads to *)
  Definition ret_result (fs : list frame) (v : val) (sx : st) (its : list (list val)) : vmres :=
    match fs with
    | [] => Done (Ok v) sx
    | caller :: fs' =>
      Running (mkVM (mkFrame (f_fn caller) (f_pc caller) (v :: f_stk caller) (f_loc caller) :: fs') sx its)
    end.

  (* the current function returns v, leaving state sx *)
  Definition returns (s : vmst) (fs : list frame) (v : val) (sx : st) : Prop :=
    exists s1 its1, steps s s1 /\ step C s1 = ret_result fs v sx its1 /\ its_ext (v_its s) its1.

  Lemma returns_steps a b fs v sx :
    steps a b -> its_ext (v_its a) (v_its b) -> returns b fs v sx -> returns a fs v sx.
  Proof.
    intros H E (s1 & i1 & H1 & H2 & H3). exists s1, i1. split; [eapply steps_trans; eauto|]. split; auto.
    eapply its_ext_trans; eauto.
  Qed.

  (* one instruction *)
  Lemma step_at fn pc pc' stk loc fs sx its i :
    nth_error (code_of C fn) pc' = Some i -> pc' = pc ->
    step C (conf fn pc stk loc fs sx its) =
    exec_instr C i (conf fn pc stk loc fs sx its) (mkFrame fn pc stk loc) fs.
  Proof. intros H ->. unfold step, conf. cbn [v_frames f_fn f_pc]. now rewrite H. Qed.

  (* ---------------------------------------------------------------- the simulation statements *)

  Variable strict : bool.

  Definition good (e : err) : Prop := e <> Internal /\ e <> OutOfFuel.

  (* iterator locals that an enclosing `for` keeps: they hold iterator values, lie below nx and are
     not variables *)
  Definition iters_ok (its : list nat) (ce : cenv) (nx : nat) (loc : list val) : Prop :=
    forall it, In it its -> it < nx /\ ~ in_ce ce it /\ exists k, get_loc loc it = VIter k.

  Definition esim (n : nat) : Prop :=
    forall e r s res s' ce pc nx code nx' fn stk loc fs its,
      eval P strict n e r s = (res, s') ->
      compile_e ce pc nx e = (code, nx') ->
      code_at (code_of C fn) pc code ->
      match_env ce r loc -> wf_ce ce nx ->
      match res with
      | Ok v => exists loc' its',
                steps (conf fn pc stk loc fs s its) (conf fn (pc + length code) (v :: stk) loc' fs s' its') /\
                keep nx loc its loc' its'
      | Err er => good er -> halts (conf fn pc stk loc fs s its) er s'
      end.

  (* expression lists: the values end up on the stack, last one on top *)
  Definition essim (n : nat) : Prop :=
    forall es lit r s res s' ce pc nx code nx' fn stk loc fs its,
      evals P strict n es lit r s = (res, s') ->
      compile_es ce pc nx es lit = (code, nx') ->
      code_at (code_of C fn) pc code ->
      match_env ce r loc -> wf_ce ce nx ->
      match res with
      | Ok vs => exists loc' its',
                 steps (conf fn pc stk loc fs s its) (conf fn (pc + length code) (rev vs ++ stk) loc' fs s' its') /\
                 keep nx loc its loc' its'
      | Err er => good er -> halts (conf fn pc stk loc fs s its) er s'
      end.

  Definition ssim (n : nat) : Prop :=
    forall c r s res s' cx ce pc nx code ce' nx' fn stk loc fs its,
      exec P strict n c r s = (res, s') ->
      compile_s cx ce pc nx c = (code, ce', nx') ->
      code_at (code_of C fn) pc code ->
      match_env ce r loc -> wf_ce ce nx -> iters_ok (cx_iters cx) ce nx loc ->
      match res with
      | Ok (ONormal, r') => exists loc' its',
          steps (conf fn pc stk loc fs s its) (conf fn (pc + length code) stk loc' fs s' its') /\
          match_env ce' r' loc' /\ keeps ce nx loc its loc' its'
      | Ok (OBreak, r') => exists loc' its',
          steps (conf fn pc stk loc fs s its) (conf fn (cx_brk cx) stk loc' fs s' its') /\
          match_env ce r' loc' /\ keeps ce nx loc its loc' its'
      | Ok (OContinue, r') => exists loc' its',
          steps (conf fn pc stk loc fs s its) (conf fn (cx_cont cx) stk loc' fs s' its') /\
          match_env ce r' loc' /\ keeps ce nx loc its loc' its'
      | Ok (OReturn v, _) => returns (conf fn pc stk loc fs s its) fs v s'
      | Err er => good er -> halts (conf fn pc stk loc fs s its) er s'
      end.

  (* statement sequences (no scope handling): the final environment extends the initial one *)
  Definition bsim (n : nat) : Prop :=
    forall b r s res s' cx ce pc nx code nx' fn stk loc fs its,
      exec_stmts P strict n b r s = (res, s') ->
      compile_b cx ce pc nx b = (code, nx') ->
      code_at (code_of C fn) pc code ->
      match_env ce r loc -> wf_ce ce nx -> iters_ok (cx_iters cx) ce nx loc ->
      match res with
      | Ok (ONormal, r') => exists loc' its' ce2,
          steps (conf fn pc stk loc fs s its) (conf fn (pc + length code) stk loc' fs s' its') /\
          match_env (ce2 ++ ce) r' loc' /\ keeps ce nx loc its loc' its'
      | Ok (OBreak, r') => exists loc' its' ce2,
          steps (conf fn pc stk loc fs s its) (conf fn (cx_brk cx) stk loc' fs s' its') /\
          match_env (ce2 ++ ce) r' loc' /\ keeps ce nx loc its loc' its'
      | Ok (OContinue, r') => exists loc' its' ce2,
          steps (conf fn pc stk loc fs s its) (conf fn (cx_cont cx) stk loc' fs s' its') /\
          match_env (ce2 ++ ce) r' loc' /\ keeps ce nx loc its loc' its'
      | Ok (OReturn v, _) => returns (conf fn pc stk loc fs s its) fs v s'
      | Err er => good er -> halts (conf fn pc stk loc fs s its) er s'
      end.

  (* blocks: declarations of the block are dropped at its end *)
  Definition blsim (n : nat) : Prop :=
    forall b r s res s' cx ce pc nx code nx' fn stk loc fs its,
      exec_block P strict n b r s = (res, s') ->
      compile_b cx ce pc nx b = (code, nx') ->
      code_at (code_of C fn) pc code ->
      match_env ce r loc -> wf_ce ce nx -> iters_ok (cx_iters cx) ce nx loc ->
      match res with
      | Ok (ONormal, r') => exists loc' its',
          steps (conf fn pc stk loc fs s its) (conf fn (pc + length code) stk loc' fs s' its') /\
          match_env ce r' loc' /\ keeps ce nx loc its loc' its'
      | Ok (OBreak, r') => exists loc' its',
          steps (conf fn pc stk loc fs s its) (conf fn (cx_brk cx) stk loc' fs s' its') /\
          match_env ce r' loc' /\ keeps ce nx loc its loc' its'
      | Ok (OContinue, r') => exists loc' its',
          steps (conf fn pc stk loc fs s its) (conf fn (cx_cont cx) stk loc' fs s' its') /\
          match_env ce r' loc' /\ keeps ce nx loc its loc' its'
      | Ok (OReturn v, _) => returns (conf fn pc stk loc fs s its) fs v s'
      | Err er => good er -> halts (conf fn pc stk loc fs s its) er s'
      end.

  Definition sim_all (n : nat) : Prop := esim n /\ essim n /\ ssim n /\ bsim n /\ blsim n.

End defs.

(* ------------------------------------------------------------------ tactics *)

(* execute the instruction at the current pc: finds the nth_error fact among the hypotheses *)
Ltac refold_conf :=
  repeat match goal with
         | |- context [mkVM (mkFrame ?a ?b ?c ?d :: ?e) ?f ?g] =>
           change (mkVM (mkFrame a b c d :: e) f g) with (conf a b c d e f g)
         end.

(* arithmetic on code offsets, seeing through local definitions of the context *)
Ltac pc_lia :=
  repeat match goal with x := _ |- _ => progress unfold x end;
  cbn [cx_brk cx_cont cx_iters length]; rewrite ?app_length; cbn [length]; lia.

Ltac vm_one :=
  refold_conf;
  match goal with
  | H : nth_error (code_of _ ?fn) ?pc' = Some ?i |- step _ (conf ?fn ?pc _ _ _ _ _) = _ =>
    rewrite (step_at _ fn pc pc' _ _ _ _ _ i H ltac:(pc_lia));
    cbv beta iota zeta delta [exec_instr cont f_pc f_stk f_loc f_fn v_st v_its conf]; refold_conf
  end.

Ltac vstep := eapply steps_step; [vm_one; try reflexivity | ].

(* split a code_at hypothesis into its pieces *)
Ltac split_code H :=
  repeat first
    [ rewrite code_at_app in H; let H1 := fresh "Hc" in destruct H as [H1 H]
    | rewrite code_at_cons in H; let H1 := fresh "Hi" in destruct H as [H1 H] ].

Ltac len := repeat (rewrite ?app_length; cbn [length]).
