(* MiniCadence: the stack VM, modelled on /repo/bbq/vm/vm.go (run loop and op* handlers).
   Values, heap and the value library are those of MC/Prim.v (both real engines share
   interpreter.Value).  Call frames carry their own operand stack and locals; iterators live in a
   table of the VM (they are Go objects invisible to the program). *)
From CV Require Export MC.Compile.

Record frame := mkFrame { f_fn : nat; f_pc : nat; f_stk : list val; f_loc : list val }.

Record vmst := mkVM { v_frames : list frame; v_st : st; v_its : list (list val) }.

Inductive vmres := Running (s : vmst) | Done (r : res val) (s : st).

Definition get_loc (l : list val) (n : nat) : val := nth n l VVoid.

(* locals are a pre-sized array in Go; the model grows the list on demand *)
Fixpoint set_loc (l : list val) (n : nat) (v : val) : list val :=
  match n, l with
  | O, [] => [v]
  | O, _ :: r => v :: r
  | S n', [] => VVoid :: set_loc [] n' v
  | S n', x :: r => x :: set_loc r n' v
  end.

Definition code_of (P : cprogram) (fn : nat) : code :=
  match nth_error P fn with Some cf => cf_code cf | None => [] end.

Section step.
  Variable P : cprogram.

  Definition crash (s : vmst) : vmres := Done (Err Internal) (v_st s).

  (* continue in the current frame with a new pc / stack / locals *)
  Definition cont (s : vmst) (fr : frame) (fs : list frame) (pc : nat) (stk loc : list val) (st' : st)
    : vmres :=
    Running (mkVM (mkFrame (f_fn fr) pc stk loc :: fs) st' (v_its s)).

  (* the effect of one instruction in frame fr (fs = the frames below) *)
  Definition exec_instr (i : instr) (s : vmst) (fr : frame) (fs : list frame) : vmres :=
    let pc := f_pc fr in
    let stk := f_stk fr in
    let loc := f_loc fr in
    let sx := v_st s in
    let next := cont s fr fs (S pc) in
    match i with
        | IStatement | ILoop => next stk loc sx
        | IConst v => next (v :: stk) loc sx
        | ITrue => next (VBool true :: stk) loc sx
        | IFalse => next (VBool false :: stk) loc sx
        | INil => next (VNil :: stk) loc sx
        | IVoid => next (VVoid :: stk) loc sx
        | IGetLocal n => next (get_loc loc n :: stk) loc sx
        | ISetLocal n =>
          match stk with v :: r => next r (set_loc loc n v) sx | _ => crash s end
        | IGetGlobal f => next (VFun f :: stk) loc sx
        | IDup => match stk with v :: r => next (v :: v :: r) loc sx | _ => crash s end
        | IDrop => match stk with _ :: r => next r loc sx | _ => crash s end
        | IJump t => cont s fr fs t stk loc sx
        | IJumpIfFalse t =>
          match stk with
          | VBool b :: r => cont s fr fs (if b then S pc else t) r loc sx
          | _ => crash s
          end
        | IJumpIfTrue t =>
          match stk with
          | VBool b :: r => cont s fr fs (if b then t else S pc) r loc sx
          | _ => crash s
          end
        | IJumpIfNil t =>
          match stk with
          | v :: r => cont s fr fs (match v with VNil => t | _ => S pc end) r loc sx
          | _ => crash s
          end
        | IBin op =>
          match stk with
          | b :: a :: r =>
            match binop_apply op a b with
            | Ok v => next (v :: r) loc sx
            | Err e => Done (Err e) sx
            end
          | _ => crash s
          end
        | IUnwrap =>
          match stk with
          | v :: r => match unwrap v with Ok w => next (w :: r) loc sx | Err e => Done (Err e) sx end
          | _ => crash s
          end
        | IWrap skip => match stk with v :: r => next (wrap skip v :: r) loc sx | _ => crash s end
        | ITransfer =>
          match stk with
          | v :: r => match tconv O v sx with
                      | (Ok v', sx') => next (v' :: r) loc sx'
                      | (Err e, sx') => Done (Err e) sx'
                      end
          | _ => crash s
          end
        | ITransferConv c =>
          match stk with
          | v :: r => match tconv c v sx with
                      | (Ok v', sx') => next (v' :: r) loc sx'
                      | (Err e, sx') => Done (Err e) sx'
                      end
          | _ => crash s
          end
        | IConvert c => match stk with v :: r => next (box c v :: r) loc sx | _ => crash s end
        | INewArray n =>
          if Nat.leb n (length stk) then
            let '(h', a) := alloc (hp sx) (CArr (rev (firstn n stk))) in
            next (VRef a :: skipn n stk) loc (with_hp sx h')
          else crash s
        | INewDict n =>
          if Nat.leb (n + n) (length stk) then
            match dict_of (rev (firstn (n + n) stk)) [] with
            | Some l => let '(h', a) := alloc (hp sx) (CDict l) in
                        next (VRef a :: skipn (n + n) stk) loc (with_hp sx h')
            | None => crash s
            end
          else crash s
        | IGetIndex =>
          match stk with
          | i :: c :: r => match get_index (hp sx) c i with
                           | Ok v => next (v :: r) loc sx
                           | Err e => Done (Err e) sx
                           end
          | _ => crash s
          end
        | ISetIndex =>
          match stk with
          | v :: i :: c :: r => match set_index (hp sx) c i v with
                                | Ok h' => next r loc (with_hp sx h')
                                | Err e => Done (Err e) sx
                                end
          | _ => crash s
          end
        | IRemoveIndex push =>
          match stk with
          | i :: c :: r => match remove_index (hp sx) c i with
                           | Ok (v, h') => next (if push then VPh :: v :: r else v :: r) loc (with_hp sx h')
                           | Err e => Done (Err e) sx
                           end
          | _ => crash s
          end
        | ISame =>
          match stk with
          | b :: a :: r => next (VBool (is_ph a && is_ph b) :: r) loc sx
          | _ => crash s
          end
        | IGetField f =>
          match stk with
          | c :: r => match get_field (hp sx) c f with
                      | Ok v => next (v :: r) loc sx
                      | Err e => Done (Err e) sx
                      end
          | _ => crash s
          end
        | IGetFieldLocal f n =>
          match get_field (hp sx) (get_loc loc n) f with
          | Ok v => next (v :: stk) loc sx
          | Err e => Done (Err e) sx
          end
        | ISetField f =>
          match stk with
          | v :: c :: r => match set_field (hp sx) c f v with
                           | Ok h' => next r loc (with_hp sx h')
                           | Err e => Done (Err e) sx
                           end
          | _ => crash s
          end
        | IInvoke cs =>
          let n := length cs in
          if Nat.leb (S n) (length stk) then
            let args := boxes cs (rev (firstn n stk)) in
            match skipn n stk with
            | VFun f :: r =>
              match f with
              | FnUser k =>
                match nth_error P k with
                | Some cf =>
                  if Nat.eqb (cf_nparams cf) n then
                    Running (mkVM (mkFrame k O [] args :: mkFrame (f_fn fr) (S pc) r loc :: fs) sx (v_its s))
                  else crash s
                | None => crash s
                end
              | _ =>
                match native_apply f args sx with
                | (Ok v, sx') => next (v :: r) loc sx'
                | (Err e, sx') => Done (Err e) sx'
                end
              end
            | _ => crash s
            end
          else crash s
        | IReturn =>
          match fs with
          | [] => Done (Ok VVoid) sx
          | caller :: fs' =>
            Running (mkVM (mkFrame (f_fn caller) (f_pc caller) (VVoid :: f_stk caller) (f_loc caller) :: fs') sx (v_its s))
          end
        | IReturnValue =>
          match stk with
          | v :: _ =>
            match fs with
            | [] => Done (Ok v) sx
            | caller :: fs' =>
              Running (mkVM (mkFrame (f_fn caller) (f_pc caller) (v :: f_stk caller) (f_loc caller) :: fs') sx (v_its s))
            end
          | _ => crash s
          end
        | IIterator =>
          match stk with
          | VRef a :: r =>
            match nth_error (hp sx) a with
            | Some (CArr l) =>
              Running (mkVM (mkFrame (f_fn fr) (S pc) (VIter (length (v_its s)) :: r) loc :: fs) sx (v_its s ++ [l]))
            | _ => crash s
            end
          | _ => crash s
          end
        | IIterHasNext =>
          match stk with
          | VIter n :: r =>
            match nth_error (v_its s) n with
            | Some l => next (VBool (match l with [] => false | _ => true end) :: r) loc sx
            | None => crash s
            end
          | _ => crash s
          end
        | IIterNext =>
          match stk with
          | VIter n :: r =>
            match nth_error (v_its s) n with
            | Some (x :: l) =>
              Running (mkVM (mkFrame (f_fn fr) (S pc) (x :: r) loc :: fs) sx (set_nth (v_its s) n l))
            | _ => crash s
            end
          | _ => crash s
          end
        | IIterEnd =>
          match stk with
          | VIter _ :: r => next r loc sx
          | _ => crash s
          end
    end.

  Definition step (s : vmst) : vmres :=
    match v_frames s with
    | [] => crash s
    | fr :: fs =>
      match nth_error (code_of P (f_fn fr)) (f_pc fr) with
      | None => crash s
      | Some i => exec_instr i s fr fs
      end
    end.

  Fixpoint run (fuel : nat) (s : vmst) : res val * st :=
    match fuel with
    | O => (Err OutOfFuel, v_st s)
    | S n => match step s with
             | Running s' => run n s'
             | Done r sx => (r, sx)
             end
    end.

End step.

(* run `main` (function 0, no parameters) *)
Definition run_vm (C : cprogram) (fuel : nat) : res val * st :=
  run C fuel (mkVM [mkFrame O O [] []] (mkSt [] []) []).
