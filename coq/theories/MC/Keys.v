(* C52: "exactly once each, left to right" as a statement about whole nested expressions.
   For an expression whose effectful leaves are probe(k, v) calls with literal keys (and which
   calls no user function), the sequence of keys logged by the interpreter is
     - always a subsequence of the left-to-right enumeration [keys e] of its probe sites
       (no site runs twice, none runs out of order);
     - for expressions without short-circuit / conditional forms: a prefix of [keys e], and
       exactly [keys e] when the evaluation succeeds (every operand, argument and literal entry
       is evaluated exactly once; an error stops the evaluation: later probes do not appear). *)
From CV Require Import MC.Interp MC.Frame.

Arguments bindM {A B} m f : simpl nomatch.

(* ------------------------------------------------------------------ syntactic enumeration *)

Definition probe_args (args : exprs) : option (Z * expr) :=
  match args with
  | EMore (EInt k) O (EMore v _ ENone) => Some (k, v)
  | _ => None
  end.

(* probe sites in the order the language defines: operands left to right, the argument of a
   probe before the probe itself *)
Fixpoint keys (e : expr) : list Z :=
  match e with
  | EInt _ | EBool _ | EStr _ | ENil | EVar _ => []
  | EBin _ a b | EAnd a b | EOr a b | ECoalesce a b _ | EIndex a b => keys a ++ keys b
  | ECond c a b => keys c ++ keys a ++ keys b
  | EForce a | EMember a _ | EOptMember a _ => keys a
  | EArr es | EDict es => keys_l es
  | ECall f args =>
    match f, args with
    | FnProbe, EMore (EInt k) O (EMore v _ ENone) => keys v ++ [k]
    | _, _ => keys_l args
    end
  end
with keys_l (es : exprs) : list Z :=
  match es with
  | ENone => []
  | EMore e _ r => keys e ++ keys_l r
  end.

(* every call is a probe with a literal key or a struct constructor *)
Fixpoint probe_only (e : expr) : bool :=
  match e with
  | EInt _ | EBool _ | EStr _ | ENil | EVar _ => true
  | EBin _ a b | EAnd a b | EOr a b | ECoalesce a b _ | EIndex a b => probe_only a && probe_only b
  | ECond c a b => probe_only c && probe_only a && probe_only b
  | EForce a | EMember a _ | EOptMember a _ => probe_only a
  | EArr es | EDict es => probe_only_l es
  | ECall f args =>
    match f, args with
    | FnProbe, EMore (EInt k) O (EMore v _ ENone) => probe_only v
    | FnCtor _, _ => probe_only_l args
    | _, _ => false
    end
  end
with probe_only_l (es : exprs) : bool :=
  match es with
  | ENone => true
  | EMore e _ r => probe_only e && probe_only_l r
  end.

(* no short-circuit, conditional or optional-chaining form *)
Fixpoint strict_e (e : expr) : bool :=
  match e with
  | EInt _ | EBool _ | EStr _ | ENil | EVar _ => true
  | EBin _ a b | EIndex a b => strict_e a && strict_e b
  | EAnd _ _ | EOr _ _ | ECoalesce _ _ _ | ECond _ _ _ | EOptMember _ _ => false
  | EForce a | EMember a _ => strict_e a
  | EArr es | EDict es => strict_l es
  | ECall f args =>
    match f, args with
    | FnProbe, EMore (EInt k) O (EMore v _ ENone) => strict_e v
    | _, _ => strict_l args
    end
  end
with strict_l (es : exprs) : bool :=
  match es with
  | ENone => true
  | EMore e _ r => strict_e e && strict_l r
  end.

(* ------------------------------------------------------------------ subsequences and prefixes *)

Inductive sub : list Z -> list Z -> Prop :=
| sub_nil : forall m, sub [] m
| sub_skip : forall x l m, sub l m -> sub l (x :: m)
| sub_take : forall x l m, sub l m -> sub (x :: l) (x :: m).

Lemma sub_refl l : sub l l.
Proof. induction l; [apply sub_nil | apply sub_take; auto]. Qed.

Lemma sub_app_l2 l m t : sub l m -> sub l (t ++ m).
Proof. intros H. induction t; simpl; auto. now constructor. Qed.

Lemma sub_app a a' b b' : sub a a' -> sub b b' -> sub (a ++ b) (a' ++ b').
Proof.
  intros Ha Hb. induction Ha; simpl.
  - now apply sub_app_l2.
  - now apply sub_skip.
  - now apply sub_take.
Qed.

Lemma sub_app_r l m t : sub l m -> sub l (m ++ t).
Proof. intros H. rewrite <- (app_nil_r l). apply sub_app; auto. apply sub_nil. Qed.

Definition prefix (l m : list Z) : Prop := exists t, m = l ++ t.

Lemma prefix_refl l : prefix l l.
Proof. exists []. now rewrite app_nil_r. Qed.
Lemma prefix_app_r l m t : prefix l m -> prefix l (m ++ t).
Proof. intros [u ->]. exists (u ++ t). now rewrite app_assoc. Qed.
Lemma prefix_app a b b' : prefix b b' -> prefix (a ++ b) (a ++ b').
Proof. intros [u ->]. exists u. now rewrite app_assoc. Qed.

(* ------------------------------------------------------------------ the specification of a run *)

(* a run from s to s' logged the keys l, a subsequence of K; if K comes from a strict
   expression, l is a prefix of K and all of K when the run succeeded *)
Definition spec (K : list Z) (sK : bool) (s : st) (ok : bool) (s' : st) : Prop :=
  exists l, tr s' = tr s ++ map VInt l /\ sub l K /\
            (sK = true -> prefix l K /\ (ok = true -> l = K)).

Lemma spec_pure s ok : spec [] true s ok s.
Proof.
  exists []. simpl. rewrite app_nil_r. repeat split; auto using sub_refl, prefix_refl.
Qed.

(* an immediate failure logs nothing *)
Lemma spec_fail0 K sK s : spec K sK s false s.
Proof.
  exists []. simpl. rewrite app_nil_r. split; [reflexivity|]. split; [apply sub_nil|].
  intros _. split; [now exists K|discriminate].
Qed.

(* a silent step after a run (it may turn success into failure, never the converse) *)
Lemma spec_then_silent K sK s ok s1 ok2 s2 :
  spec K sK s ok s1 -> tr s2 = tr s1 -> (ok2 = true -> ok = true) -> spec K sK s ok2 s2.
Proof.
  intros (l & Ht & Hs & Hp) Htr Hok. exists l. rewrite Htr. split; [exact Ht|]. split; [exact Hs|].
  intros HsK. destruct (Hp HsK) as [Hpre Hall]. split; [exact Hpre|]. intros Hok2. apply Hall. now apply Hok.
Qed.

(* sequencing: the second run happens only if the first succeeded *)
Lemma spec_seq Ka sa Kb sb s oka s1 okb s2 :
  spec Ka sa s oka s1 ->
  (oka = true -> spec Kb sb s1 okb s2) ->
  (oka = false -> s2 = s1 /\ okb = false) ->
  spec (Ka ++ Kb) (sa && sb) s okb s2.
Proof.
  intros (la & Hta & Hsa & Hpa) Hb Hf. destruct oka.
  - destruct (Hb eq_refl) as (lb & Htb & Hsb & Hpb).
    exists (la ++ lb). rewrite Htb, Hta, map_app, app_assoc.
    split; [reflexivity|]. split; [now apply sub_app|].
    intros Hst. apply andb_prop in Hst as [Ha Hb']. destruct (Hpa Ha) as [_ Hall].
    destruct (Hpb Hb') as [Hpreb Hallb]. rewrite (Hall eq_refl). split.
    + now apply prefix_app.
    + intros Hok. now rewrite (Hallb Hok).
  - destruct (Hf eq_refl) as [-> ->].
    exists la. split; [exact Hta|]. split; [now apply sub_app_r|].
    intros Hst. apply andb_prop in Hst as [Ha _]. split.
    + apply prefix_app_r. now apply Hpa.
    + discriminate.
Qed.

(* a silent step before a run *)
Lemma spec_shift K sK s1 s2 ok s3 : spec K sK s2 ok s3 -> tr s2 = tr s1 -> spec K sK s1 ok s3.
Proof. intros (l & Ht & R) H. exists l. rewrite <- H. auto. Qed.

(* weakening: forget strictness *)
Lemma spec_weaken0 K sK s ok s' : spec K sK s ok s' -> spec K false s ok s'.
Proof. intros (l & Ht & Hs & _). exists l. repeat split; auto; discriminate. Qed.

Lemma spec_seq_ns Ka sa Kb sb s oka s1 okb s2 :
  spec Ka sa s oka s1 ->
  (oka = true -> spec Kb sb s1 okb s2) ->
  (oka = false -> s2 = s1 /\ okb = false) ->
  spec (Ka ++ Kb) false s okb s2.
Proof. intros A B C. eapply spec_weaken0. eapply spec_seq; eauto. Qed.

Lemma spec_weaken K sK s ok s' : spec K sK s ok s' -> spec K false s ok s'.
Proof. intros (l & Ht & Hs & _). exists l. repeat split; auto; discriminate. Qed.

Lemma spec_false_any K s ok ok' s' : spec K false s ok s' -> spec K false s ok' s'.
Proof. intros (l & Ht & Hs & _). exists l. repeat split; auto; discriminate. Qed.

(* a sub-run of one part of a larger non-strict form *)
Lemma spec_sub K K' sK s ok s' :
  spec K sK s ok s' -> (forall l, sub l K -> sub l K') -> spec K' false s ok s'.
Proof. intros (l & Ht & Hs & _) Hsub. exists l. repeat split; auto; discriminate. Qed.


Lemma bind_ok {A B} (a : A) s (f : A -> st -> M B) : bindM (Ok a, s) f = f a s.
Proof. reflexivity. Qed.
Lemma bind_err {A B} e s (f : A -> st -> M B) : bindM (Err e, s) f = (Err e, s).
Proof. reflexivity. Qed.

Lemma tconv_silent d v s : tr (snd (tconv d v s)) = tr s.
Proof. unfold tconv. destruct (copy v (hp s)) as [[v' h']|]; reflexivity. Qed.

Section keys.
  Variable P : program.
  Variable strict : bool.

  Notation eval := (eval P strict).
  Notation evals := (evals P strict).

  Definition keys_all (n : nat) : Prop :=
    (forall e r s, probe_only e = true ->
       spec (keys e) (strict_e e) s (is_ok (fst (eval n e r s))) (snd (eval n e r s))) /\
    (forall es bx r s, probe_only_l es = true ->
       spec (keys_l es) (strict_l es) s (is_ok (fst (evals n es bx r s))) (snd (evals n es bx r s))).

  (* the key argument of a probe evaluates to its literal *)
  Lemma probe_key_value n k rest r s vs s' :
    evals n (EMore (EInt k) O rest) false r s = (Ok vs, s') ->
    exists vs', vs = VInt k :: vs'.
  Proof.
    destruct n as [|n]; [discriminate|].
    change (evals (S n) (EMore (EInt k) O rest) false r s) with
      (do v <- eval n (EInt k) r s; s =>
       do v' <- tconv O v s; s =>
       do vs <- evals n rest false r s; s =>
       ret (v' :: vs) s).
    destruct n as [|n]; [discriminate|].
    change (eval (S n) (EInt k) r s) with (ret (VInt k) s).
    unfold bindM at 1, ret at 1.
    change (tconv O (VInt k) s) with (@Ok val (VInt k), with_hp s (hp s)).
    unfold bindM at 1.
    unfold bindM, ret.
    destruct (evals (S n) rest false r (with_hp s (hp s))) as [[vs0|e] s0]; intros H; inversion H; eauto.
  Qed.

  Ltac pure_tail :=
    match goal with
    | |- spec _ _ _ (is_ok (fst (lift ?x ?s))) (snd (lift ?x ?s)) => idtac
    end.

  Lemma keys_sound : forall n, keys_all n.
  Proof.
    induction n as [|n [IHe IHes]].
    - split; intros; simpl; apply spec_fail0.
    - split.
      + intros e r s Hp. destruct e; simpl in Hp |- *; try apply spec_pure.
        * (* EVar *) destruct (lookup r x); apply spec_pure.
        * (* EBin *)
          apply andb_prop in Hp as [Ha Hb].
          pose proof (IHe e1 r s Ha) as Sa.
          destruct (eval n e1 r s) as [[va|er] s1]; simpl in *.
          -- pose proof (IHe e2 r s1 Hb) as Sb.
             eapply spec_seq; [exact Sa| |discriminate]. intros _.
             destruct (eval n e2 r s1) as [[vb|er] s2]; simpl in *.
             ++ eapply spec_then_silent; [exact Sb|reflexivity|auto].
             ++ exact Sb.
          -- eapply spec_seq; [exact Sa|discriminate|auto].
        * (* EAnd *)
          apply andb_prop in Hp as [Ha Hb].
          pose proof (IHe e1 r s Ha) as Sa.
          destruct (eval n e1 r s) as [[va|er] s1]; simpl in *.
          -- assert (Hdef' : forall ok, spec (keys e1 ++ keys e2) false s ok s1).
             { intros ok. eapply spec_false_any. eapply spec_sub; [exact Sa|]. intros; now apply sub_app_r. }
             destruct va; try apply Hdef'. destruct b; [|apply Hdef'].
             pose proof (IHe e2 r s1 Hb) as Sb.
             simpl.
             eapply spec_seq_ns; [exact Sa| |discriminate]. intros _.
             destruct (eval n e2 r s1) as [[vb|er] s2]; simpl in *.
             ++ eapply spec_then_silent; [exact Sb| |].
                ** destruct vb; reflexivity.
                ** auto.
             ++ exact Sb.
          -- eapply (spec_seq_ns _ _ _ false); [exact Sa|discriminate|auto].
        * (* EOr *)
          apply andb_prop in Hp as [Ha Hb].
          pose proof (IHe e1 r s Ha) as Sa.
          destruct (eval n e1 r s) as [[va|er] s1]; simpl in *.
          -- assert (Hdef' : forall ok, spec (keys e1 ++ keys e2) false s ok s1).
             { intros ok. eapply spec_false_any. eapply spec_sub; [exact Sa|]. intros; now apply sub_app_r. }
             destruct va; try apply Hdef'. destruct b; [apply Hdef'|].
             pose proof (IHe e2 r s1 Hb) as Sb.
             simpl.
             eapply spec_seq_ns; [exact Sa| |discriminate]. intros _.
             destruct (eval n e2 r s1) as [[vb|er] s2]; simpl in *.
             ++ eapply spec_then_silent; [exact Sb| |].
                ** destruct vb; reflexivity.
                ** auto.
             ++ exact Sb.
          -- eapply (spec_seq_ns _ _ _ false); [exact Sa|discriminate|auto].
        * (* ECoalesce *)
          apply andb_prop in Hp as [Ha Hb].
          pose proof (IHe e1 r s Ha) as Sa.
          destruct (eval n e1 r s) as [[va|er] s1]; simpl in *.
          -- assert (Hdef' : forall ok, spec (keys e1 ++ keys e2) false s ok s1).
             { intros ok. eapply spec_false_any. eapply spec_sub; [exact Sa|]. intros; now apply sub_app_r. }
             assert (Hrun : spec (keys e1 ++ keys e2) false s
                                 (is_ok (fst (do vb <- eval n e2 r s1; s0 => ret (box c vb) s0)))
                                 (snd (do vb <- eval n e2 r s1; s0 => ret (box c vb) s0))).
             { pose proof (IHe e2 r s1 Hb) as Sb.
               eapply spec_seq_ns; [exact Sa| |discriminate]. intros _.
               unfold bindM. destruct (eval n e2 r s1) as [[vb|er] s2]; simpl in *; exact Sb. }
             rewrite bind_ok.
             destruct va; cbn [is_optional negb]; try (destruct (strict && _); [apply Hdef'|exact Hrun]).
             apply Hdef'.
          -- eapply (spec_seq_ns _ _ _ false); [exact Sa|discriminate|auto].
        * (* ECond *)
          apply andb_prop in Hp as [Hp Hb]. apply andb_prop in Hp as [Hc Ha].
          pose proof (IHe e1 r s Hc) as Sc.
          destruct (eval n e1 r s) as [[vc|er] s1]; simpl in *.
          -- assert (Hdef' : forall ok, spec (keys e1 ++ keys e2 ++ keys e3) false s ok s1).
             { intros ok. eapply spec_false_any. eapply spec_sub; [exact Sc|]. intros; now apply sub_app_r. }
             destruct vc; try apply Hdef'. destruct b.
             ++ pose proof (IHe e2 r s1 Ha) as Sa. simpl.
                eapply spec_seq_ns; [exact Sc| |discriminate]. intros _.
                eapply spec_sub; [exact Sa|]. intros; now apply sub_app_r.
             ++ pose proof (IHe e3 r s1 Hb) as Sb. simpl.
                eapply spec_seq_ns; [exact Sc| |discriminate]. intros _.
                eapply spec_sub; [exact Sb|]. intros; now apply sub_app_l2.
          -- eapply (spec_seq_ns _ _ _ false); [exact Sc|discriminate|auto].
        * (* EForce *)
          pose proof (IHe e r s Hp) as Sa.
          destruct (eval n e r s) as [[va|er] s1]; simpl in *; [|exact Sa].
          eapply spec_then_silent; [exact Sa|reflexivity|auto].
        * (* EArr *)
          pose proof (IHes es true r s Hp) as Sa.
          destruct (evals n es true r s) as [[vs|er] s1]; simpl in *; [|exact Sa].
          eapply spec_then_silent; [exact Sa|reflexivity|auto].
        * (* EDict *)
          pose proof (IHes es true r s Hp) as Sa.
          destruct (evals n es true r s) as [[vs|er] s1]; simpl in *; [|exact Sa].
          rewrite bind_ok. destruct (dict_of vs []); simpl;
            (eapply spec_then_silent; [exact Sa|reflexivity|auto]).
        * (* EIndex *)
          apply andb_prop in Hp as [Ha Hb].
          pose proof (IHe e1 r s Ha) as Sa.
          destruct (eval n e1 r s) as [[va|er] s1]; simpl in *.
          -- pose proof (IHe e2 r s1 Hb) as Sb.
             eapply spec_seq; [exact Sa| |discriminate]. intros _.
             destruct (eval n e2 r s1) as [[vb|er] s2]; simpl in *; [|exact Sb].
             pose proof (tconv_silent O vb s2) as Ht.
             destruct (tconv O vb s2) as [[vb'|er] s3]; simpl in *;
               (eapply spec_then_silent; [exact Sb|auto|auto]).
          -- eapply spec_seq; [exact Sa|discriminate|auto].
        * (* EMember *)
          pose proof (IHe e r s Hp) as Sa.
          destruct (eval n e r s) as [[va|er] s1]; simpl in *; [|exact Sa].
          eapply spec_then_silent; [exact Sa|reflexivity|auto].
        * (* EOptMember *)
          pose proof (IHe e r s Hp) as Sa. apply spec_weaken in Sa.
          destruct (eval n e r s) as [[va|er] s1]; simpl in *; [|exact Sa].
          destruct va; try (eapply spec_then_silent; [exact Sa|reflexivity|auto]).
          unfold bindM, lift. destruct (get_field (hp s1) va f); simpl;
            (eapply spec_then_silent; [exact Sa|reflexivity|auto]).
        * (* ECall *)
          destruct f; try discriminate.
          -- (* probe *)
             destruct args as [|k0 c0 rest]; try discriminate.
             destruct k0; try discriminate. destruct c0; try discriminate.
             destruct rest as [|v cv rest']; try discriminate.
             destruct rest'; try discriminate.
             assert (Hpl : probe_only_l (EMore (EInt z) O (EMore v cv ENone)) = true).
             { simpl. now rewrite Hp. }
             pose proof (IHes (EMore (EInt z) O (EMore v cv ENone)) false r s Hpl) as Sa.
             assert (Hk : keys_l (EMore (EInt z) O (EMore v cv ENone)) = keys v).
             { simpl. now rewrite app_nil_r. }
             assert (Hs : strict_l (EMore (EInt z) O (EMore v cv ENone)) = strict_e v).
             { simpl. now rewrite andb_true_r. }
             rewrite Hk, Hs in Sa.
             destruct (evals n (EMore (EInt z) O (EMore v cv ENone)) false r s) as [[vs|er] s1] eqn:Ev;
               simpl in Sa |- *.
             2:{ rewrite <- (andb_true_r (strict_e v)).
                 eapply spec_seq; [exact Sa|discriminate|auto]. }
             destruct (probe_key_value _ _ _ _ _ _ _ Ev) as [vs' ->].
             simpl. unfold box at 1. simpl.
             rewrite <- (andb_true_r (strict_e v)).
             eapply spec_seq; [exact Sa| |discriminate]. intros _.
             destruct vs' as [|w [|x t]]; simpl; try apply spec_fail0.
             exists [z]. simpl. split; [reflexivity|]. split; [apply sub_refl|].
             intros _. split; [apply prefix_refl|reflexivity].
          -- (* constructor *)
             pose proof (IHes args false r s Hp) as Sa.
             destruct (evals n args false r s) as [[vs|er] s1]; simpl in *; [|exact Sa].
             eapply spec_then_silent; [exact Sa|reflexivity|auto].
      + intros es bx r s Hp. destruct es as [|e c rest]; simpl in Hp |- *; [apply spec_pure|].
        apply andb_prop in Hp as [Ha Hb].
        pose proof (IHe e r s Ha) as Sa.
        destruct (eval n e r s) as [[v|er] s1]; simpl in *.
        2:{ eapply spec_seq; [exact Sa|discriminate|auto]. }
        pose proof (tconv_silent (if bx then c else O) v s1) as Ht.
        destruct (tconv (if bx then c else O) v s1) as [[v'|er] s2]; simpl in *.
        2:{ eapply spec_seq; [exact Sa| |discriminate]. intros _.
            eapply spec_shift; [apply spec_fail0|exact Ht]. }
        pose proof (IHes rest bx r s2 Hb) as Sb.
        eapply spec_seq; [exact Sa| |discriminate]. intros _.
        destruct (evals n rest bx r s2) as [[vs|er] s3]; simpl in *;
          (eapply spec_shift; [exact Sb|exact Ht]).
  Qed.

End keys.
