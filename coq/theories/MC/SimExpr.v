(* C34: simulation for expressions and expression lists (one fuel step, given the simulation for
   smaller fuel). *)
From CV Require Import MC.VM MC.SimBase MC.SimDefs.
From Coq Require Import Lia.
Local Open Scope nat_scope.
Arguments bindM {A B} m f : simpl nomatch.

Lemma bind_ok {A B} (a : A) s (f : A -> st -> M B) : bindM (Ok a, s) f = f a s.
Proof. reflexivity. Qed.
Lemma bind_err {A B} e s (f : A -> st -> M B) : bindM (Err e, s) f = (Err e, s).
Proof. reflexivity. Qed.

Lemma conf_pc_eq fn pc pc' stk loc fs s its :
  pc = pc' -> conf fn pc stk loc fs s its = conf fn pc' stk loc fs s its.
Proof. now intros ->. Qed.

(* ------------------------------------------------------------------ facts about functions *)

Lemma param_env_wf ps : forall i ace, wf_ce ace i -> wf_ce (param_env ps i ace) (i + length ps).
Proof.
  induction ps as [|p ps IH]; intros i ace W; simpl.
  - now replace (i + 0) with i by lia.
  - replace (i + S (length ps)) with (S i + length ps) by lia. apply IH. simpl. split; auto.
Qed.

Lemma param_env_match ps : forall vs i ace ar loc,
  length ps = length vs ->
  (forall j, j < length vs -> get_loc loc (i + j) = nth j vs VVoid) ->
  match_env ace ar loc ->
  match_env (param_env ps i ace) (bind_params ps vs ar) loc.
Proof.
  induction ps as [|p ps IH]; intros [|v vs] i ace ar loc L G M; simpl in *; try discriminate; auto.
  apply IH.
  - lia.
  - intros j Hj. replace (S i + j) with (i + S j) by lia. apply (G (S j)). lia.
  - simpl. repeat split; auto. specialize (G 0). simpl in G. rewrite <- G by lia. f_equal. lia.
Qed.

Lemma evals_length P strict n : forall es lit r s vs s',
  evals P strict n es lit r s = (Ok vs, s') -> length vs = count_es es.
Proof.
  induction n as [|n IH]; intros es lit r s vs s' H; [discriminate|].
  destruct es as [|e c rest]; simpl in H.
  - inversion H. reflexivity.
  - destruct (eval P strict n e r s) as [[v|er] s1]; [rewrite bind_ok in H|discriminate].
    destruct (tconv (if lit then c else 0) v s1) as [[v'|er] s2]; [rewrite bind_ok in H|discriminate].
    destruct (evals P strict n rest lit r s2) as [[vs0|er] s3] eqn:E; [rewrite bind_ok in H|discriminate].
    inversion H; subst. simpl. f_equal. eapply IH; eauto.
Qed.

Lemma convs_of_length es : length (convs_of es) = count_es es.
Proof. induction es; simpl; auto. Qed.

Lemma exec_return_not_normal P strict n r0 r s r' s' :
  exec P strict n (SReturn r0) r s = (Ok (ONormal, r'), s') -> False.
Proof.
  destruct n; [discriminate|]. simpl. destruct r0 as [[c e]|]; [|discriminate].
  destruct (eval P strict n e r s) as [[v|er] s1]; [rewrite bind_ok|discriminate].
  destruct (tconv c v s1) as [[v'|er] s2]; [rewrite bind_ok|]; discriminate.
Qed.

Lemma ends_normal P strict n : forall b r s r' s',
  exec_stmts P strict n b r s = (Ok (ONormal, r'), s') -> ends_with_return b = false.
Proof.
  induction n as [|n IH]; intros b r s r' s' H; [discriminate|].
  destruct b as [|c rest]; [reflexivity|]. simpl in H.
  destruct (exec P strict n c r s) as [[[o r1]|er] s1] eqn:E; [|discriminate].
  destruct o; try discriminate.
  assert (Hr : ends_with_return rest = false) by (eapply IH; eauto).
  destruct c; simpl; auto.
  destruct rest; auto. exfalso. eapply exec_return_not_normal; eauto.
Qed.

Section sim.
  Variable P : program.
  Variable strict : bool.
  Notation C := (compile P).

  Lemma code_of_fun k fd : nth_error P k = Some fd -> nth_error C k = Some (compile_fun fd).
  Proof. intros H. unfold compile. now apply map_nth_error. Qed.

  (* using the simulation of a sub-expression *)
  Lemma esim_use n : esim P strict n ->
    forall e r s res s' ce pc nx code nx' fn stk loc fs its,
      eval P strict n e r s = (res, s') ->
      compile_e ce pc nx e = (code, nx') ->
      code_at (code_of C fn) pc code ->
      match_env ce r loc -> wf_ce ce nx ->
      nx <= nx' /\ wf_ce ce nx' /\
      match res with
      | Ok v => exists loc' its',
                steps P (conf fn pc stk loc fs s its) (conf fn (pc + length code) (v :: stk) loc' fs s' its') /\
                keep nx loc its loc' its' /\ match_env ce r loc'
      | Err er => good er -> halts P (conf fn pc stk loc fs s its) er s'
      end.
  Proof.
    intros IH e r s res s' ce pc nx code nx' fn stk loc fs its He Hc Hat Hm Hw.
    pose proof (compile_e_le _ _ _ _ _ _ Hc) as Hle.
    split; [exact Hle|]. split; [eapply wf_ce_mono; eauto|].
    pose proof (IH e r s res s' ce pc nx code nx' fn stk loc fs its He Hc Hat Hm Hw) as S1.
    destruct res as [v|er]; [|exact S1].
    destruct S1 as (loc' & its' & St & A). exists loc', its'. split; [exact St|]. split; [exact A|].
    eapply match_env_agree; eauto. apply A.
  Qed.

  Lemma essim_use n : essim P strict n ->
    forall es lit r s res s' ce pc nx code nx' fn stk loc fs its,
      evals P strict n es lit r s = (res, s') ->
      compile_es ce pc nx es lit = (code, nx') ->
      code_at (code_of C fn) pc code ->
      match_env ce r loc -> wf_ce ce nx ->
      nx <= nx' /\ wf_ce ce nx' /\
      match res with
      | Ok vs => exists loc' its',
                 steps P (conf fn pc stk loc fs s its) (conf fn (pc + length code) (rev vs ++ stk) loc' fs s' its') /\
                 keep nx loc its loc' its' /\ match_env ce r loc'
      | Err er => good er -> halts P (conf fn pc stk loc fs s its) er s'
      end.
  Proof.
    intros IH es lit r s res s' ce pc nx code nx' fn stk loc fs its He Hc Hat Hm Hw.
    pose proof (compile_es_le _ _ _ _ _ _ _ Hc) as Hle.
    split; [exact Hle|]. split; [eapply wf_ce_mono; eauto|].
    pose proof (IH es lit r s res s' ce pc nx code nx' fn stk loc fs its He Hc Hat Hm Hw) as S1.
    destruct res as [v|er]; [|exact S1].
    destruct S1 as (loc' & its' & St & A). exists loc', its'. split; [exact St|]. split; [exact A|].
    eapply match_env_agree; eauto. apply A.
  Qed.

End sim.

(* ------------------------------------------------------------------ stack shapes *)

Lemma firstn_exact {A} (l r : list A) : firstn (length l) (l ++ r) = l.
Proof. induction l; simpl; congruence. Qed.
Lemma skipn_exact {A} (l r : list A) : skipn (length l) (l ++ r) = r.
Proof. induction l; simpl; auto. Qed.

Lemma boxes_length cs : forall vs, length (boxes cs vs) = length vs.
Proof. induction cs; intros [|v vs]; simpl; auto. Qed.

Lemma pop_args n (vs : list val) x stk :
  length vs = n ->
  Nat.leb (S n) (length (rev vs ++ x :: stk)) = true /\
  rev (firstn n (rev vs ++ x :: stk)) = vs /\
  skipn n (rev vs ++ x :: stk) = x :: stk.
Proof.
  intros <-. rewrite <- (rev_length vs). repeat split.
  - apply Nat.leb_le. rewrite app_length. simpl. lia.
  - rewrite firstn_exact. apply rev_involutive.
  - apply skipn_exact.
Qed.

Lemma pop_vals n (vs : list val) stk :
  length vs = n ->
  Nat.leb n (length (rev vs ++ stk)) = true /\
  rev (firstn n (rev vs ++ stk)) = vs /\
  skipn n (rev vs ++ stk) = stk.
Proof.
  intros <-. rewrite <- (rev_length vs). repeat split.
  - apply Nat.leb_le. rewrite app_length. lia.
  - rewrite firstn_exact. apply rev_involutive.
  - apply skipn_exact.
Qed.

Lemma dict_of_even : forall k l acc d, length l <= k + k -> dict_of l acc = Some d ->
  Nat.div2 (length l) + Nat.div2 (length l) = length l.
Proof.
  induction k as [|k IH]; intros l acc d Hl H.
  - destruct l; simpl in *; [reflexivity|lia].
  - destruct l as [|a [|b l]]; simpl in *; try reflexivity; try discriminate.
    destruct (is_key a); [|discriminate].
    specialize (IH l _ d ltac:(lia) H). lia.
Qed.
