(* MiniCadence (MC): syntax of the modelled fragment of Cadence, run-time values, heap cells and
   the stack bytecode modelled on bbq (/repo/bbq/opcode/instructions.yml).
   Definitions only; proofs are in separate files. *)
From CV Require Export Base.Prelude.

Notation name := nat (only parsing).

(* A transfer/convert site carries the optional depth of its target type
   (0 = non-optional target; n = T with n question marks): this is all that
   interpreter.ConvertAndBox / BoxOptional needs to know in the fragment. *)
Notation conv := nat (only parsing).

Inductive binop := BAdd | BSub | BMul | BDiv | BMod | BLt | BLe | BGt | BGe | BEq | BNe.

(* invocable globals: user functions of the program, the host function `log`, the logging
   leaf `probe` (realised in Cadence as `fun pT(_ k: Int, _ v: T): T { log(k); return v }`), and struct
   constructors *)
Inductive fnref := FnUser (n : nat) | FnLog | FnProbe | FnCtor (sid : nat).

Inductive expr :=
| EInt (z : Z)
| EBool (b : bool)
| EStr (s : list Z)
| ENil
| EVar (x : name)
| EBin (op : binop) (a b : expr)
| EAnd (a b : expr)
| EOr (a b : expr)
| ECoalesce (a b : expr) (c : conv)      (* a ?? b ; c = optional depth of the result type *)
| ECond (c a b : expr)                   (* c ? a : b *)
| EForce (e : expr)                      (* e! *)
| EArr (es : exprs)                      (* [e1, ..., en]; conv of each = depth of the element type *)
| EDict (es : exprs)                     (* {k1: v1, ...} flattened to k1,v1,k2,v2,... *)
| EIndex (a i : expr)                    (* a[i] *)
| EMember (e : expr) (f : nat)           (* e.f   (f = field number) *)
| EOptMember (e : expr) (f : nat)        (* e?.f *)
| ECall (f : fnref) (args : exprs)       (* f(l1: e1, ..., ln: en); conv of each = depth of parameter type *)
with exprs :=
| ENone
| EMore (e : expr) (c : conv) (r : exprs).

Inductive target :=
| TVar (x : name)
| TIndex (a i : expr)
| TMember (a : expr) (f : nat).

Inductive stmt :=
| SLet (x : name) (c : conv) (e : expr)          (* let/var x: T = e *)
| SAssign (t : target) (c : conv) (e : expr)     (* t = e *)
| SSwap (t1 t2 : target) (c : conv)              (* t1 <-> t2 *)
| SIf (c : expr) (s1 : block) (s2 : option block)
| SWhile (c : expr) (b : block)
| SFor (x : name) (c : conv) (e : expr) (b : block)   (* for x in e { b } *)
| SBreak
| SContinue
| SReturn (r : option (conv * expr))
| SExpr (e : expr)
with block :=
| BNil
| BCons (s : stmt) (b : block).

Record fundef := mkFun { fn_params : list name; fn_body : block }.

(* function 0 is `main` (no parameters) *)
Definition program := list fundef.

(* ------------------------------------------------------------------ values *)

Inductive val :=
| VInt (z : Z)            (* Int8 *)
| VBool (b : bool)
| VStr (s : list Z)
| VNil
| VSome (v : val)
| VVoid
| VRef (a : nat)          (* array / dictionary / struct: a container object with identity *)
| VFun (f : fnref)        (* function value (VM operand stack only) *)
| VIter (n : nat)         (* iterator (VM only): index into the iterator table *)
| VPh.                    (* interpreter.PlaceholderValue (swap of indexed slots) *)

Inductive cell :=
| CArr (l : list val)
| CDict (l : list (val * val))       (* insertion-ordered association list, unique keys *)
| CStruct (sid : nat) (fs : list val).

Definition heap := list cell.

(* ------------------------------------------------------------------ bytecode *)

Inductive instr :=
| IStatement | ILoop                     (* metering markers: no effect on the modelled state *)
| IConst (v : val)                       (* getConstant (Int8 / String constants) *)
| ITrue | IFalse | INil | IVoid
| IGetLocal (n : nat) | ISetLocal (n : nat)
| IGetGlobal (f : fnref)
| IDup | IDrop
| IJump (t : nat) | IJumpIfFalse (t : nat) | IJumpIfTrue (t : nat) | IJumpIfNil (t : nat)
| IBin (op : binop)                      (* add subtract multiply divide mod less ... equal notEqual *)
| IUnwrap
| IWrap (skip_if_optional : bool)
| ITransfer
| ITransferConv (c : conv)               (* transferAndConvert *)
| IConvert (c : conv)
| INewArray (n : nat)
| INewDict (n : nat)
| IGetIndex | ISetIndex
| IRemoveIndex (push_placeholder : bool)
| ISame
| IGetField (f : nat) | ISetField (f : nat)
| IGetFieldLocal (f : nat) (n : nat)     (* peephole product *)
| IInvoke (cs : list conv)
| IReturn | IReturnValue
| IIterator | IIterHasNext | IIterNext | IIterEnd.

Definition code := list instr.

Record cfun := mkCFun { cf_nparams : nat; cf_code : code }.
Definition cprogram := list cfun.
