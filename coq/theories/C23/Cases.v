(* C23 check functions for the per-run correspondence case files. *)
From CV Require Export Base.Prelude C23.Model.
Open Scope Z_scope.

(* canonical form of a value: children sorted by label, stably (array elements and composite fields
   carry constant / increasing labels and keep their order; dictionary entries get sorted by key) *)
Fixpoint ins_l (x : Z * shape) (l : list (Z * shape)) : list (Z * shape) :=
  match l with
  | [] => [x]
  | y :: r => if fst x <=? fst y then x :: l else y :: ins_l x r
  end.

Fixpoint canon (s : shape) : shape :=
  match s with
  | Sh p ks => Sh p (fold_right ins_l [] (map (fun lc => (fst lc, canon (snd lc))) ks))
  end.

Fixpoint shape_eqb (a b : shape) : bool :=
  match a, b with
  | Sh p ka, Sh q kb =>
    (p =? q) &&
    (fix go (xs ys : list (Z * shape)) : bool :=
       match xs, ys with
       | [], [] => true
       | (l, x) :: xr, (m, y) :: yr => (l =? m) && shape_eqb x y && go xr yr
       | _, _ => false
       end) ka kb
  end.

Definition key_leb (a b : Z * Z) : bool :=
  (fst a <? fst b) || ((fst a =? fst b) && (snd a <=? snd b)).

Fixpoint ins_r (x : (Z * Z) * shape) (l : list ((Z * Z) * shape)) : list ((Z * Z) * shape) :=
  match l with
  | [] => [x]
  | y :: r => if key_leb (fst x) (fst y) then x :: l else y :: ins_r x r
  end.

(* all stored paths with their values, sorted by (account, path) *)
(* (contract values live under path numbers >= 1000 and are not part of the dump) *)
Definition dump (st : state) : list ((Z * Z) * shape) :=
  fold_right ins_r []
    (map (fun kr => (fst kr, canon (shape_of (fuel_of (slabs st)) (slabs st) (snd kr))))
         (filter (fun kr => snd (fst kr) <? 1000) (roots st))).

(* digest of all stored paths and values: the case files carry the digest of what the real ledger holds
   (the full values are compared by the Go harness against its own reference model) *)
Fixpoint toks (s : shape) : list Z :=
  match s with
  | Sh p ks => p :: Z.of_nat (length ks) :: flat_map (fun lc => fst lc :: toks (snd lc)) ks
  end.

Definition digest_mod : Z := 2305843009213693951.   (* 2^61 - 1 *)
Definition digest_step (h t : Z) : Z := (h * 1000003 + t + 1) mod digest_mod.

Definition digest (d : list ((Z * Z) * shape)) : Z :=
  fold_left digest_step (flat_map (fun ks => fst (fst ks) :: snd (fst ks) :: toks (snd ks)) d) 7.

(* observed: per transaction, whether it committed, and the digest of all stored values after it *)
Fixpoint check_hist (st : state) (h : list (list cop)) (o : list (bool * Z)) : bool :=
  match h, o with
  | [], [] => true
  | tx :: hr, (c, d) :: orr =>
    let r := exec_ctx NoFault st tx in
    Bool.eqb c (fst r) && (digest (dump (snd r)) =? d) && check_hist (snd r) hr orr
  | _, _ => false
  end.

Definition check_case (c : list (list cop) * list (bool * Z)) : bool :=
  check_hist init (fst c) (snd c).

(* ---------------------------------------------------------------- token decoding
   The harness writes each history as a flat list of integers (deeply nested list notations are very
   slow to parse); grammar (prefix form):
     shape   ::= payload n (label shape)^n
     step    ::= 0 n | 1 z
     sel     ::= n step^n
     disp    ::= 0 | 1 a p | 2 a p sel step
     op      ::= 0 a p shape | 1 a p disp | 2 a p a2 p2 | 3 ins a p sel step shape disp | 4 a p sel step disp | 5
               | 6 a p shape (contracts.add) | 7 a p (contracts.remove)
     tx      ::= n op^n committed digest
     history ::= n tx^n *)
Fixpoint dec_shape (fuel : nat) (ts : list Z) : option (shape * list Z) :=
  match fuel with
  | O => None
  | S f =>
    match ts with
    | p :: n :: r =>
      match
        (fix kids (k : nat) (r : list Z) : option (list (Z * shape) * list Z) :=
           match k with
           | O => Some ([], r)
           | S k' =>
             match r with
             | l :: r1 =>
               match dec_shape f r1 with
               | Some (c, r2) =>
                 match kids k' r2 with
                 | Some (cs, r3) => Some ((l, c) :: cs, r3)
                 | None => None
                 end
               | None => None
               end
             | [] => None
             end
           end) (Z.to_nat n) r
      with
      | Some (ks, r') => Some (Sh p ks, r')
      | None => None
      end
    | _ => None
    end
  end.

Definition dec_step (ts : list Z) : option (step * list Z) :=
  match ts with
  | 0 :: n :: r => Some (Pos (Z.to_nat n), r)
  | 1 :: z :: r => Some (Key z, r)
  | _ => None
  end.

Fixpoint dec_steps (k : nat) (ts : list Z) : option (list step * list Z) :=
  match k with
  | O => Some ([], ts)
  | S k' =>
    match dec_step ts with
    | Some (s, r) =>
      match dec_steps k' r with
      | Some (ss, r') => Some (s :: ss, r')
      | None => None
      end
    | None => None
    end
  end.

Definition dec_sel (ts : list Z) : option (list step * list Z) :=
  match ts with
  | n :: r => dec_steps (Z.to_nat n) r
  | [] => None
  end.

Definition dec_disp (ts : list Z) : option (disp * list Z) :=
  match ts with
  | 0 :: r => Some (DDestroy, r)
  | 1 :: a :: p :: r => Some (DSave (a, p), r)
  | 2 :: a :: p :: r =>
    match dec_sel r with
    | Some (s, r1) =>
      match dec_step r1 with
      | Some (st, r2) => Some (DInsert (a, p) s st, r2)
      | None => None
      end
    | None => None
    end
  | _ => None
  end.

Definition dec_op (ts : list Z) : option (op * list Z) :=
  match ts with
  | 0 :: a :: p :: r =>
    match dec_shape (S (length r)) r with
    | Some (sh, r1) => Some (OSave (a, p) sh, r1)
    | None => None
    end
  | 1 :: a :: p :: r =>
    match dec_disp r with
    | Some (d, r1) => Some (ORemove (a, p) d, r1)
    | None => None
    end
  | 2 :: a :: p :: a2 :: p2 :: r => Some (OCopy (a, p) (a2, p2), r)
  | 3 :: ins :: a :: p :: r =>
    match dec_sel r with
    | Some (s, r1) =>
      match dec_step r1 with
      | Some (st, r2) =>
        match dec_shape (S (length r2)) r2 with
        | Some (sh, r3) =>
          match dec_disp r3 with
          | Some (d, r4) => Some (OPut (negb (ins =? 0)) (a, p) s st sh d, r4)
          | None => None
          end
        | None => None
        end
      | None => None
      end
    | None => None
    end
  | 4 :: a :: p :: r =>
    match dec_sel r with
    | Some (s, r1) =>
      match dec_step r1 with
      | Some (st, r2) =>
        match dec_disp r2 with
        | Some (d, r3) => Some (ODel (a, p) s st d, r3)
        | None => None
        end
      | None => None
      end
    | None => None
    end
  | 5 :: r => Some (OFail, r)
  | _ => None
  end.

Definition dec_cop (ts : list Z) : option (cop * list Z) :=
  match ts with
  | 6 :: a :: p :: r =>
    match dec_shape (S (length r)) r with
    | Some (sh, r1) => Some (CAdd (a, p) sh, r1)
    | None => None
    end
  | 7 :: a :: p :: r => Some (CRemove (a, p), r)
  | _ =>
    match dec_op ts with
    | Some (o, r) => Some (CStorage o, r)
    | None => None
    end
  end.

Fixpoint dec_ops (k : nat) (ts : list Z) : option (list cop * list Z) :=
  match k with
  | O => Some ([], ts)
  | S k' =>
    match dec_cop ts with
    | Some (o, r) =>
      match dec_ops k' r with
      | Some (os, r') => Some (o :: os, r')
      | None => None
      end
    | None => None
    end
  end.

Fixpoint dec_txs (k : nat) (ts : list Z) : option (list (list cop) * list (bool * Z)) :=
  match k with
  | O => match ts with [] => Some ([], []) | _ => None end
  | S k' =>
    match ts with
    | n :: r =>
      match dec_ops (Z.to_nat n) r with
      | Some (os, c :: d :: r1) =>
        match dec_txs k' r1 with
        | Some (h, o) => Some (os :: h, (negb (c =? 0), d) :: o)
        | None => None
        end
      | _ => None
      end
    | [] => None
    end
  end.

Definition check_tokens (ts : list Z) : bool :=
  match ts with
  | n :: r =>
    match dec_txs (Z.to_nat n) r with
    | Some c => check_case c
    | None => false
    end
  | [] => false
  end.
