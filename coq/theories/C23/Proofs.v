(* C23 proofs: the internal invariant [wf] (reference counting + rank) is preserved by every
   operation of the fault-free model, and implies the health specification. *)
From CV Require Import Base.Prelude C23.Model.
Open Scope Z_scope.

Notation cnt := (count_occ Z.eq_dec).

Definition keys (sl : list slab) : list id := map fst sl.
Definition kid_ids (e : Z * elems) : list id := map snd (snd e).
Definition allkids (sl : list slab) : list id := flat_map (fun s => kid_ids (snd s)) sl.

(* [pend]: ids whose referrer has been cut but whose slabs are not yet freed / not yet installed *)
Record wfp (sl : list slab) (rts : list (key * id)) (nxt : id) (pend : list id) : Prop := {
  w_keys : NoDup (keys sl);
  w_refs : forall x, (cnt (map snd rts) x + cnt (allkids sl) x + cnt pend x = cnt (keys sl) x)%nat;
  w_rank : forall p e c, In (p, e) sl -> In c (kid_ids e) -> p < c;
  w_bound : forall i, In i (keys sl) -> 0 <= i < nxt;
  w_next : 0 <= nxt;
  w_paths : NoDup (map fst rts)
}.

(* [Q]: slabs referenced only by contract updates recorded in the running transaction *)
Definition wfQ (Q : list id) (st : state) : Prop := wfp (slabs st) (roots st) (next st) Q.
Definition wf (st : state) : Prop := wfQ [] st.

(* ------------------------------------------------------------ counting helpers *)
Lemma cnt_pos_In l x : (0 < cnt l x)%nat <-> In x l.
Proof. rewrite (count_occ_In Z.eq_dec). unfold gt. tauto. Qed.

Lemma cnt_zero_notIn l x : cnt l x = 0%nat <-> ~ In x l.
Proof. rewrite (count_occ_not_In Z.eq_dec). tauto. Qed.

Lemma cnt_cons a l x : cnt (a :: l) x = ((if Z.eq_dec a x then 1 else 0) + cnt l x)%nat.
Proof. simpl. destruct (Z.eq_dec a x); reflexivity. Qed.

Lemma cnt_app l1 l2 x : cnt (l1 ++ l2) x = (cnt l1 x + cnt l2 x)%nat.
Proof. apply count_occ_app. Qed.

Lemma cnt_nil x : cnt [] x = 0%nat.
Proof. reflexivity. Qed.

Lemma NoDup_cnt l : NoDup l <-> forall x, (cnt l x <= 1)%nat.
Proof. apply NoDup_count_occ. Qed.

Lemma NoDup_app_l (a b : list Z) : NoDup (a ++ b) -> NoDup a.
Proof. rewrite !NoDup_cnt. intros H x. specialize (H x). rewrite cnt_app in H. lia. Qed.

Lemma NoDup_app_r (a b : list Z) : NoDup (a ++ b) -> NoDup b.
Proof. rewrite !NoDup_cnt. intros H x. specialize (H x). rewrite cnt_app in H. lia. Qed.

Lemma NoDup_In_cnt l x : NoDup l -> In x l -> cnt l x = 1%nat.
Proof.
  intros H I. apply cnt_pos_In in I. rewrite NoDup_cnt in H. specialize (H x). lia.
Qed.

(* ------------------------------------------------------------ slab table lemmas *)
Lemma lookup_In_fwd sl i e : lookup sl i = Some e -> In (i, e) sl.
Proof.
  induction sl as [|[j e'] r IH]; simpl; [discriminate|].
  destruct (Z.eqb_spec j i).
  - intros [= ->]. subst. now left.
  - intros H. right. auto.
Qed.

Lemma keys_In sl i e : In (i, e) sl -> In i (keys sl).
Proof. intros H. unfold keys. change i with (fst (i, e)). now apply in_map. Qed.

Lemma lookup_None sl i : lookup sl i = None <-> ~ In i (keys sl).
Proof.
  induction sl as [|[j e'] r IH]; simpl.
  - tauto.
  - destruct (Z.eqb_spec j i).
    + split; [discriminate|]. intros H. exfalso. apply H. now left.
    + rewrite IH. split; intros H; [intros [?|?]; [congruence|tauto]|tauto].
Qed.

Lemma lookup_In sl i e : NoDup (keys sl) -> In (i, e) sl -> lookup sl i = Some e.
Proof.
  induction sl as [|[j e'] r IH]; simpl; [tauto|].
  intros ND [H|H].
  - inversion H; subst. now rewrite Z.eqb_refl.
  - inversion ND; subst. destruct (Z.eqb_spec j i).
    + subst. exfalso. apply H2. eapply keys_In; eauto.
    + auto.
Qed.

Lemma lookup_some_keys sl i e : lookup sl i = Some e -> In i (keys sl).
Proof. intros H. eapply keys_In, lookup_In_fwd; eauto. Qed.

Lemma In_remove_key x sl j e : In (j, e) (remove_key x sl) <-> In (j, e) sl /\ j <> x.
Proof.
  unfold remove_key. rewrite filter_In. simpl.
  destruct (Z.eqb_spec j x); simpl; split; intros [? ?]; split; auto; try discriminate; congruence.
Qed.

Lemma remove_key_notin x sl : ~ In x (keys sl) -> remove_key x sl = sl.
Proof.
  induction sl as [|[j e] r IH]; simpl; [reflexivity|].
  intros H. destruct (Z.eqb_spec j x); simpl.
  - exfalso. apply H. now left.
  - f_equal. apply IH. tauto.
Qed.

Lemma cnt_keys_remove x sl y :
  cnt (keys (remove_key x sl)) y = if Z.eq_dec y x then 0%nat else cnt (keys sl) y.
Proof.
  induction sl as [|[j e] r IH]; simpl.
  - now destruct (Z.eq_dec y x).
  - destruct (Z.eqb_spec j x); simpl.
    + rewrite IH. destruct (Z.eq_dec y x); [reflexivity|].
      destruct (Z.eq_dec j y); [congruence|reflexivity].
    + rewrite IH. destruct (Z.eq_dec y x); destruct (Z.eq_dec j y); try reflexivity; congruence.
Qed.

Lemma cnt_allkids_remove x e sl y :
  NoDup (keys sl) -> In (x, e) sl ->
  cnt (allkids sl) y = (cnt (kid_ids e) y + cnt (allkids (remove_key x sl)) y)%nat.
Proof.
  induction sl as [|[j e'] r IH]; simpl; [tauto|].
  intros ND I. inversion ND; subst. unfold allkids in *. simpl. rewrite !cnt_app.
  destruct (Z.eqb_spec j x); simpl.
  - subst. destruct I as [I|I].
    + inversion I; subst. rewrite remove_key_notin by assumption. reflexivity.
    + exfalso. apply H1. eapply keys_In; eauto.
  - destruct I as [I|I]; [congruence|].
    rewrite cnt_app. rewrite (IH H2 I). simpl. lia.
Qed.

Lemma filter_len_le {A} (f : A -> bool) l : (length (filter f l) <= length l)%nat.
Proof. induction l as [|a l IH]; simpl; [lia|]. destruct (f a); simpl; lia. Qed.

Lemma length_remove_key x e (sl : list slab) : In (x, e) sl -> (length (remove_key x sl) < length sl)%nat.
Proof.
  unfold remove_key. induction sl as [|[j e'] r IH]; simpl; [tauto|].
  intros [I|I].
  - inversion I; subst. rewrite Z.eqb_refl. simpl. apply Nat.lt_succ_r, filter_len_le.
  - specialize (IH I). destruct (j =? x); simpl.
    + apply Nat.lt_lt_succ_r. exact IH.
    + apply -> Nat.succ_lt_mono. exact IH.
Qed.

Lemma keys_cons i e (sl : list slab) : keys ((i, e) :: sl) = i :: keys sl.
Proof. reflexivity. Qed.

Lemma allkids_cons i e (sl : list slab) : allkids ((i, e) :: sl) = kid_ids e ++ allkids sl.
Proof. reflexivity. Qed.

Lemma kid_ids_pair p (es : elems) : kid_ids (p, es) = map snd es.
Proof. reflexivity. Qed.

Ltac cn := repeat first [rewrite allkids_cons | rewrite keys_cons | rewrite kid_ids_pair | rewrite cnt_app
  | rewrite cnt_cons | rewrite cnt_nil | rewrite map_app | rewrite map_cons ].
Ltac cnin H := repeat first [rewrite allkids_cons in H | rewrite keys_cons in H | rewrite kid_ids_pair in H
  | rewrite cnt_app in H | rewrite cnt_cons in H | rewrite cnt_nil in H | rewrite map_app in H | rewrite map_cons in H ].
Ltac dz := repeat match goal with
  | |- context [Z.eq_dec ?a ?b] => destruct (Z.eq_dec a b)
  | H : context [Z.eq_dec ?a ?b] |- _ => destruct (Z.eq_dec a b)
  end; subst; try congruence; try lia.

Lemma keys_app a b : keys (a ++ b) = keys a ++ keys b.
Proof. apply map_app. Qed.

Lemma allkids_app a b : allkids (a ++ b) = allkids a ++ allkids b.
Proof. apply flat_map_app. Qed.

(* ------------------------------------------------------------ removing a slab whose referrer is gone *)
Lemma wfp_remove sl rts n x w p es :
  wfp sl rts n (x :: w) -> lookup sl x = Some (p, es) ->
  wfp (remove_key x sl) rts n (map snd es ++ w).
Proof.
  intros W L. pose proof (lookup_In_fwd _ _ _ L) as I.
  destruct W as [Wk Wr Wrk Wb Wn Wp].
  pose proof (NoDup_In_cnt _ _ Wk (keys_In _ _ _ I)) as Kx.
  constructor; auto.
  - apply NoDup_cnt. intros y. rewrite cnt_keys_remove.
    destruct (Z.eq_dec y x); [lia|]. rewrite NoDup_cnt in Wk. apply Wk.
  - intros y. specialize (Wr y). rewrite cnt_keys_remove, cnt_app.
    rewrite (cnt_allkids_remove x (p, es) sl y Wk I) in Wr. rewrite cnt_cons in Wr.
    unfold kid_ids in Wr. simpl in Wr.
    destruct (Z.eq_dec y x); destruct (Z.eq_dec x y); try congruence; subst; lia.
  - intros q e c Hq. apply In_remove_key in Hq. destruct Hq. eauto.
  - intros i Hi. apply Wb. apply cnt_pos_In in Hi. rewrite cnt_keys_remove in Hi.
    destruct (Z.eq_dec i x); [lia|]. now apply cnt_pos_In.
Qed.

Lemma free_all_wf fuel Q : forall sl rts n work,
  wfp sl rts n (work ++ Q) -> (length sl < fuel)%nat -> wfp (free_all fuel sl work) rts n Q.
Proof.
  induction fuel as [|f IH]; intros sl rts n work W Hl; [lia|].
  simpl. destruct work as [|x w]; [assumption|].
  simpl app in W.
  destruct (lookup sl x) as [[p es]|] eqn:L.
  - apply IH.
    + rewrite <- app_assoc. eapply wfp_remove; eauto.
    + pose proof (length_remove_key x _ sl (lookup_In_fwd _ _ _ L)). lia.
  - exfalso. apply lookup_None in L. apply cnt_zero_notIn in L.
    pose proof (w_refs _ _ _ _ W x) as R. rewrite cnt_cons in R.
    destruct (Z.eq_dec x x); [lia|congruence].
Qed.

(* ------------------------------------------------------------ allocation *)
Lemma shape_ind' (P : shape -> Prop)
  (H : forall p kids, Forall (fun lc => P (snd lc)) kids -> P (Sh p kids)) : forall s, P s.
Proof.
  fix IH 1. intros [p kids]. apply H.
  induction kids as [|[l c] r IHr]; constructor; [apply IH|apply IHr].
Qed.

Record alloc_ok (n m : id) (ss : list slab) : Prop := {
  a_lt : n < m;
  a_range : forall i, In i (keys ss) -> n <= i < m;
  a_nodup : NoDup (keys ss);
  a_refs : forall x, (cnt [n] x + cnt (allkids ss) x = cnt (keys ss) x)%nat;
  a_rank : forall p e c, In (p, e) ss -> In c (kid_ids e) -> p < c
}.

Record kids_ok (m0 m : id) (es : elems) (ss : list slab) : Prop := {
  k_le : m0 <= m;
  k_range : forall i, In i (keys ss) -> m0 <= i < m;
  k_nodup : NoDup (keys ss);
  k_refs : forall x, (cnt (map snd es) x + cnt (allkids ss) x = cnt (keys ss) x)%nat;
  k_rank : forall p e c, In (p, e) ss -> In c (kid_ids e) -> p < c;
  k_ids : forall c, In c (map snd es) -> m0 <= c
}.

Lemma alloc_kids_spec ks :
  Forall (fun lc => forall n m ss, alloc (snd lc) n = (m, ss) -> alloc_ok n m ss) ks ->
  forall m0 m es ss, alloc_kids alloc ks m0 = (m, es, ss) -> kids_ok m0 m es ss.
Proof.
  induction 1 as [|[l c] r Hc Hr IH]; intros m0 m es ss E; simpl in E.
  - inversion E; subst. constructor; simpl; try tauto; try lia; try constructor.
  - destruct (alloc c m0) as [m1 s1] eqn:E1.
    destruct (alloc_kids alloc r m1) as [[m2 es2] s2] eqn:E2.
    inversion E; subst. clear E.
    specialize (Hc _ _ _ E1). simpl in Hc. specialize (IH _ _ _ _ E2).
    destruct Hc as [c1 c2 c3 c4 c5]. destruct IH as [k1 k2 k3 k4 k5 k6].
    assert (Disj : forall x, In x (keys s1) -> ~ In x (keys s2)).
    { intros x H1 H2. specialize (c2 _ H1). specialize (k2 _ H2). lia. }
    constructor.
    + lia.
    + intros i Hi. rewrite keys_app in Hi. apply in_app_or in Hi. destruct Hi as [Hi|Hi].
      * specialize (c2 _ Hi). lia.
      * specialize (k2 _ Hi). lia.
    + apply NoDup_cnt. intros x. rewrite keys_app, cnt_app.
      rewrite NoDup_cnt in c3, k3. specialize (c3 x). specialize (k3 x).
      destruct (in_dec Z.eq_dec x (keys s1)) as [I|I].
      * apply Disj in I. apply cnt_zero_notIn in I. lia.
      * apply cnt_zero_notIn in I. lia.
    + intros x. simpl map. rewrite keys_app, allkids_app, cnt_cons, !cnt_app.
      specialize (c4 x). specialize (k4 x). rewrite cnt_cons in c4. simpl in c4. lia.
    + intros p e c' Hp Hc'. apply in_app_or in Hp. destruct Hp; eauto.
    + intros c' Hc'. simpl in Hc'. destruct Hc' as [<-|Hc']; [lia|]. specialize (k6 _ Hc'). lia.
Qed.

Lemma alloc_spec : forall sh n m ss, alloc sh n = (m, ss) -> alloc_ok n m ss.
Proof.
  induction sh as [p kids IH] using shape_ind'. intros n m ss E. simpl in E.
  destruct (alloc_kids alloc kids (n + 1)) as [[m' es] ss'] eqn:E'.
  inversion E; subst. clear E.
  pose proof (alloc_kids_spec kids IH _ _ _ _ E') as [k1 k2 k3 k4 k5 k6].
  assert (NI : ~ In n (keys ss')). { intros H. specialize (k2 _ H). lia. }
  constructor.
  - lia.
  - intros i [<-|Hi]; [simpl; lia|]. specialize (k2 _ Hi). lia.
  - simpl. constructor; assumption.
  - intros x. specialize (k4 x). cn. simpl snd. dz.
  - intros q e c [Hq|Hq] Hc.
    + inversion Hq; subst. unfold kid_ids in Hc. simpl in Hc. specialize (k6 _ Hc). lia.
    + eauto.
Qed.

Lemma wfp_alloc sl rts n pend sh m ss :
  wfp sl rts n pend -> alloc sh n = (m, ss) -> wfp (ss ++ sl) rts m (n :: pend).
Proof.
  intros [Wk Wr Wrk Wb Wn Wp] E. apply alloc_spec in E. destruct E as [a1 a2 a3 a4 a5].
  constructor; auto.
  - apply NoDup_cnt. intros x. rewrite keys_app, cnt_app.
    rewrite NoDup_cnt in Wk, a3. specialize (Wk x). specialize (a3 x).
    destruct (in_dec Z.eq_dec x (keys ss)) as [I|I].
    + assert (~ In x (keys sl)) as N. { intros H. specialize (a2 _ I). specialize (Wb _ H). lia. }
      apply cnt_zero_notIn in N. lia.
    + apply cnt_zero_notIn in I. lia.
  - intros x. rewrite keys_app, allkids_app, !cnt_app, cnt_cons.
    specialize (Wr x). specialize (a4 x). rewrite cnt_cons in a4. simpl in a4. lia.
  - intros p e c Hp Hc. apply in_app_or in Hp. destruct Hp; eauto.
  - intros i Hi. rewrite keys_app in Hi. apply in_app_or in Hi. destruct Hi as [Hi|Hi].
    + specialize (a2 _ Hi). lia.
    + specialize (Wb _ Hi). lia.
  - lia.
Qed.

(* ------------------------------------------------------------ replacing the children of one slab *)
Lemma wfp_update sl rts n inn out pend cid p es es' :
  wfp sl rts n (inn ++ pend) -> In (cid, (p, es)) sl ->
  (forall x, (cnt (map snd es') x + cnt out x = cnt (map snd es) x + cnt inn x)%nat) ->
  (forall c, In c (map snd es') -> cid < c) ->
  wfp (update sl cid (p, es')) rts n (out ++ pend).
Proof.
  intros [Wk Wr Wrk Wb Wn Wp] I C R.
  pose proof (NoDup_In_cnt _ _ Wk (keys_In _ _ _ I)) as Kc.
  assert (KE : forall y, cnt (keys (update sl cid (p, es'))) y = cnt (keys sl) y).
  { intros y. unfold update. simpl keys. rewrite cnt_cons, cnt_keys_remove.
    destruct (Z.eq_dec cid y); destruct (Z.eq_dec y cid); try congruence; subst; lia. }
  constructor; auto.
  - apply NoDup_cnt. intros y. rewrite KE. rewrite NoDup_cnt in Wk. apply Wk.
  - intros y. rewrite KE. specialize (Wr y). specialize (C y).
    rewrite (cnt_allkids_remove cid (p, es) sl y Wk I) in Wr.
    unfold update. cn. cnin Wr. lia.
  - intros q e c [Hq|Hq] Hc.
    + inversion Hq; subst. apply R. exact Hc.
    + apply In_remove_key in Hq. destruct Hq. eauto.
  - intros i Hi. apply Wb. apply cnt_pos_In. rewrite <- KE. now apply cnt_pos_In.
Qed.

(* ------------------------------------------------------------ element list lemmas *)
Lemma remove_keyed_cnt (es : elems) z c es' :
  remove_keyed es z = Some (c, es') ->
  (forall x, (cnt (map snd es') x + cnt [c] x = cnt (map snd es) x)%nat)
  /\ incl (map snd es') (map snd es).
Proof.
  revert c es'. induction es as [|[l d] r IH]; simpl; intros c es' E; [discriminate|].
  destruct (l =? z).
  - inversion E; subst. split.
    + intros x. cn. simpl snd. dz.
    + intros y Hy. now right.
  - destruct (remove_keyed r z) as [[d' r']|]; [|discriminate]. inversion E; subst.
    destruct (IH _ _ eq_refl) as [A B]. split.
    + intros x. specialize (A x). cnin A. cn. simpl snd. dz.
    + intros y [<-|Hy]; [now left|right; auto].
Qed.

Lemma remove_nth_cnt : forall n (es : elems) l c,
  nth_error es n = Some (l, c) ->
  (forall x, (cnt (map snd (firstn n es ++ skipn (S n) es)) x + cnt [c] x = cnt (map snd es) x)%nat)
  /\ incl (map snd (firstn n es ++ skipn (S n) es)) (map snd es).
Proof.
  induction n as [|n IH]; intros [|[l' d] r] l c E; simpl in E; try discriminate.
  - inversion E; subst. split.
    + intros x. simpl firstn. simpl skipn. simpl app. cn. simpl snd. dz.
    + intros y Hy. simpl. now right.
  - destruct (IH _ _ _ E) as [A B]. split.
    + intros x. specialize (A x). simpl firstn. simpl skipn in *. rewrite <- app_comm_cons.
      cnin A. cn. simpl snd. dz.
    + intros y Hy. simpl in Hy. destruct Hy as [<-|Hy]; [now left|]. right. apply B. exact Hy.
Qed.

Lemma remove_child_cnt (es : elems) s c es' :
  remove_child es s = Some (c, es') ->
  (forall x, (cnt (map snd es') x + cnt [c] x = cnt (map snd es) x)%nat)
  /\ incl (map snd es') (map snd es).
Proof.
  destruct s as [n|z]; simpl.
  - destruct (nth_error es n) as [[l d]|] eqn:E; [|discriminate].
    intros [= <- <-]. eapply remove_nth_cnt; eauto.
  - apply remove_keyed_cnt.
Qed.

Lemma replace_keyed_cnt (es : elems) z nw c es' :
  replace_keyed es z nw = Some (c, es') ->
  (forall x, (cnt (map snd es') x + cnt [c] x = cnt (map snd es) x + cnt [nw] x)%nat)
  /\ incl (map snd es') (nw :: map snd es).
Proof.
  revert c es'. induction es as [|[l d] r IH]; simpl; intros c es' E; [discriminate|].
  destruct (l =? z).
  - inversion E; subst. split.
    + intros x. cn. simpl snd. dz.
    + intros y [<-|Hy]; [now left|]. right. now right.
  - destruct (replace_keyed r z nw) as [[d' r']|]; [|discriminate]. inversion E; subst.
    destruct (IH _ _ eq_refl) as [A B]. split.
    + intros x. specialize (A x). cnin A. cn. simpl snd. dz.
    + intros y [<-|Hy]; [right; now left|]. specialize (B _ Hy). destruct B; [now left|right; now right].
Qed.

Lemma replace_nth_cnt : forall n (es : elems) l c nw,
  nth_error es n = Some (l, c) ->
  (forall x, (cnt (map snd (firstn n es ++ (l, nw) :: skipn (S n) es)) x + cnt [c] x
              = cnt (map snd es) x + cnt [nw] x)%nat)
  /\ incl (map snd (firstn n es ++ (l, nw) :: skipn (S n) es)) (nw :: map snd es).
Proof.
  induction n as [|n IH]; intros [|[l' d] r] l c nw E; simpl in E; try discriminate.
  - inversion E; subst. split.
    + intros x. simpl firstn. simpl skipn. simpl app. cn. simpl snd. dz.
    + intros y [<-|Hy]; [now left|]. right. now right.
  - destruct (IH _ _ _ nw E) as [A B]. split.
    + intros x. specialize (A x). simpl firstn. simpl skipn in *. rewrite <- app_comm_cons.
      cnin A. cn. simpl snd in *. dz.
    + intros y Hy. simpl in Hy. destruct Hy as [<-|Hy]; [right; now left|].
      specialize (B _ Hy). destruct B; [now left|right; now right].
Qed.

Lemma insert_nth_cnt : forall n (es : elems) a,
  (forall x, (cnt (map snd (firstn n es ++ a :: skipn n es)) x = cnt (map snd es) x + cnt [snd a] x)%nat)
  /\ incl (map snd (firstn n es ++ a :: skipn n es)) (snd a :: map snd es).
Proof.
  intros n es a. split.
  - intros x. cn. rewrite <- (firstn_skipn n es) at 3. cn. dz.
  - intros y Hy. rewrite map_app in Hy. apply in_app_or in Hy. simpl in Hy.
    rewrite <- (firstn_skipn n es). rewrite map_app.
    destruct Hy as [Hy|[<-|Hy]]; [right|now left|right]; apply in_or_app; tauto.
Qed.

Definition opt_list (o : option id) : list id := match o with Some c => [c] | None => [] end.

Lemma put_child_cnt ins es s nw old es' :
  put_child ins es s nw = Some (old, es') ->
  (forall x, (cnt (map snd es') x + cnt (opt_list old) x = cnt (map snd es) x + cnt [nw] x)%nat)
  /\ incl (map snd es') (nw :: map snd es).
Proof.
  destruct s as [n|z]; simpl.
  - destruct ins.
    + destruct (n <=? length es)%nat; [|discriminate]. intros [= <- <-].
      destruct (insert_nth_cnt n es (0, nw)) as [A B]. split; [|exact B].
      intros x. rewrite A. simpl. lia.
    + destruct (nth_error es n) as [[l c]|] eqn:E; [|discriminate]. intros [= <- <-].
      apply (replace_nth_cnt _ _ _ _ nw E).
  - destruct (replace_keyed es z nw) as [[c r]|] eqn:E.
    + intros [= <- <-]. apply (replace_keyed_cnt _ _ _ _ _ E).
    + intros [= <- <-]. split.
      * intros x. rewrite map_app, cnt_app. simpl. lia.
      * intros y Hy. rewrite map_app in Hy. apply in_app_or in Hy. simpl in Hy.
        destruct Hy as [Hy|[<-|[]]]; [now right|now left].
Qed.

(* ------------------------------------------------------------ roots *)
Lemma lookup_root_In rs k r : lookup_root rs k = Some r -> exists k', In (k', r) rs /\ key_eqb k' k = true.
Proof.
  induction rs as [|[j q] t IH]; simpl; [discriminate|].
  destruct (key_eqb j k) eqn:E.
  - intros [= ->]. exists j. split; [now left|assumption].
  - intros H. destruct (IH H) as [k' [A B]]. exists k'. split; [now right|assumption].
Qed.

Lemma key_eqb_eq a b : key_eqb a b = true <-> a = b.
Proof.
  destruct a as [a1 a2], b as [b1 b2]. unfold key_eqb. simpl.
  rewrite andb_true_iff, !Z.eqb_eq. split; [intros [-> ->]; reflexivity|intros [= -> ->]; tauto].
Qed.

Lemma lookup_root_None rs k : lookup_root rs k = None -> ~ In k (map fst rs).
Proof.
  induction rs as [|[j q] t IH]; simpl; [tauto|].
  destruct (key_eqb j k) eqn:E; [discriminate|].
  intros H [A|A].
  - subst. assert (key_eqb k k = true) by now apply key_eqb_eq. congruence.
  - now apply IH.
Qed.

Lemma remove_root_cnt k r rs x :
  NoDup (map fst rs) -> In (k, r) rs ->
  cnt (map snd rs) x = (cnt [r] x + cnt (map snd (remove_root k rs)) x)%nat.
Proof.
  induction rs as [|[j q] t IH]; simpl; [tauto|].
  intros ND I. inversion ND; subst.
  destruct (key_eqb j k) eqn:E; simpl.
  - apply key_eqb_eq in E. subst. destruct I as [I|I].
    + inversion I; subst.
      assert (remove_root k t = t) as ->.
      { clear -H1. induction t as [|[j' q'] t IH]; simpl; [reflexivity|].
        destruct (key_eqb j' k) eqn:E; simpl.
        - apply key_eqb_eq in E. subst. exfalso. apply H1. now left.
        - f_equal. apply IH. intros H. apply H1. now right. }
      destruct (Z.eq_dec r x); lia.
    + exfalso. apply H1. change k with (fst (k, r)). now apply in_map.
  - destruct I as [I|I].
    + inversion I; subst. assert (key_eqb k k = true) by now apply key_eqb_eq. congruence.
    + rewrite (IH H2 I). simpl. destruct (Z.eq_dec q x); destruct (Z.eq_dec r x); lia.
Qed.

Lemma remove_root_paths k rs : NoDup (map fst rs) -> NoDup (map fst (remove_root k rs)).
Proof.
  induction rs as [|[j q] t IH]; simpl; [constructor|].
  intros ND. inversion ND; subst. destruct (key_eqb j k); simpl; auto.
  constructor; auto. intros H. apply H1.
  apply in_map_iff in H. destruct H as [[a b] [A B]]. simpl in A.
  unfold remove_root in B. apply filter_In in B. destruct B as [B _].
  rewrite <- A. change a with (fst (a, b)). now apply in_map.
Qed.

Lemma NoDup_cnt_key_app (l : list key) k : NoDup l -> ~ In k l -> NoDup (l ++ [k]).
Proof.
  induction l as [|a r IH]; simpl; intros ND NI.
  - constructor; [intros []|constructor].
  - inversion ND; subst. constructor.
    + intros H. apply in_app_or in H. destruct H as [H|[H|[]]]; [contradiction|]. apply NI. now left.
    + apply IH; [assumption|]. intros H. apply NI. now right.
Qed.

Lemma remove_root_notin k rs : ~ In k (map fst (remove_root k rs)).
Proof.
  intros H. apply in_map_iff in H. destruct H as [[a b] [A B]]. simpl in A. subst a.
  unfold remove_root in B. apply filter_In in B. destruct B as [_ B]. simpl in B.
  assert (key_eqb k k = true) as K by now apply key_eqb_eq. rewrite K in B. discriminate.
Qed.

(* ------------------------------------------------------------ operations preserve wf *)
Lemma release_nofault w d sl c : release NoFault w d sl c = free_all (fuel_of sl) sl [c].
Proof. destruct w; reflexivity. Qed.

Lemma release_wf w d sl rts n c Q :
  wfp sl rts n (c :: Q) -> wfp (release NoFault w d sl c) rts n Q.
Proof.
  intros W. rewrite release_nofault. apply free_all_wf; [exact W|]. unfold fuel_of. lia.
Qed.

Local Opaque release shape_of.

Lemma save_wf Q st k sh st' : wfQ Q st -> save st k sh = Some st' -> wfQ Q st'.
Proof.
  unfold wfQ, save. intros W. destruct (lookup_root (roots st) k) eqn:L; [discriminate|].
  destruct (alloc sh (next st)) as [m ss] eqn:E. intros [= <-]. simpl.
  pose proof (wfp_alloc _ _ _ _ _ _ _ W E) as [Wk Wr Wrk Wb Wn Wp].
  constructor; auto.
  - intros x. specialize (Wr x). simpl map. rewrite !cnt_cons in *. simpl in *. lia.
  - simpl. constructor; [|assumption]. now apply lookup_root_None.
Qed.

Lemma put_wf Q st ins k s at_ sh d o st' :
  wfQ Q st -> put NoFault st ins k s at_ sh d = Some (o, st') -> wfQ Q st'.
Proof.
  unfold wfQ, put. intros W.
  destruct (lookup_root (roots st) k) as [r|]; [|discriminate].
  destruct (resolve (slabs st) r s) as [cid|]; [|discriminate].
  destruct (lookup (slabs st) cid) as [[p es]|] eqn:L; [|discriminate].
  destruct (alloc sh (next st)) as [m ss] eqn:E.
  destruct (put_child ins es at_ (next st)) as [[old es']|] eqn:P; [|discriminate].
  pose proof (wfp_alloc _ _ _ _ _ _ _ W E) as W1.
  destruct (put_child_cnt _ _ _ _ _ _ P) as [C I].
  assert (Icid : In (cid, (p, es)) (ss ++ slabs st)).
  { apply in_or_app. right. now apply lookup_In_fwd. }
  assert (R : forall c, In c (map snd es') -> cid < c).
  { intros c Hc. apply I in Hc. pose proof (w_bound _ _ _ _ W cid (lookup_some_keys _ _ _ L)).
    destruct Hc as [<-|Hc]; [lia|].
    eapply (w_rank _ _ _ _ W cid (p, es)); [now apply lookup_In_fwd|exact Hc]. }
  assert (W2 : wfp (update (ss ++ slabs st) cid (p, es')) (roots st) m (opt_list old ++ Q)).
  { eapply wfp_update with (inn := [next st]); eauto.  }
  destruct old as [o'|]; intros [= <- <-]; cbn [slabs roots next]; simpl in W2.
  - apply release_wf. exact W2.
  - exact W2.
Qed.

Lemma dispose_wf Q st d sh st' : wfQ Q st -> dispose NoFault st d sh = Some st' -> wfQ Q st'.
Proof.
  intros W. destruct d as [|k|k s at_]; simpl.
  - intros [= <-]. assumption.
  - apply save_wf. assumption.
  - destruct (put NoFault st true k s at_ sh DDestroy) as [[o st1]|] eqn:P; [|discriminate].
    intros [= <-]. eapply put_wf; eauto.
Qed.

Lemma exec_op_wf Q st o st' : wfQ Q st -> exec_op NoFault st o = Some st' -> wfQ Q st'.
Proof.
  intros W. destruct o as [k v|k d|k k2|ins k s at_ v d|k s at_ d|]; simpl.
  - apply save_wf. assumption.
  - destruct (lookup_root (roots st) k) as [r|] eqn:L; [|discriminate].
    apply dispose_wf. unfold wfQ. cbn [slabs roots next].
    apply release_wf.
    destruct (lookup_root_In _ _ _ L) as [k' [I E]]. apply key_eqb_eq in E. subst k'.
    destruct W as [Wk Wr Wrk Wb Wn Wp]. constructor; auto.
    + intros x. specialize (Wr x). rewrite (remove_root_cnt k r (roots st) x Wp I) in Wr.
      cnin Wr. cn. dz.
    + now apply remove_root_paths.
  - destruct (lookup_root (roots st) k) as [r|]; [|discriminate].
    apply save_wf. assumption.
  - destruct (put NoFault st ins k s at_ v d) as [[[osh|] st1]|] eqn:P; [| |discriminate].
    + apply dispose_wf. eapply put_wf; eauto.
    + intros [= <-]. eapply put_wf; eauto.
  - destruct (lookup_root (roots st) k) as [r|]; [|discriminate].
    destruct (resolve (slabs st) r s) as [cid|]; [|discriminate].
    destruct (lookup (slabs st) cid) as [[p es]|] eqn:L; [|discriminate].
    destruct (remove_child es at_) as [[c es']|] eqn:R.
    + apply dispose_wf. unfold wfQ. cbn [slabs roots next]. apply release_wf.
      destruct (remove_child_cnt _ _ _ _ R) as [C I].
      change (c :: Q) with ([c] ++ Q).
      eapply wfp_update with (inn := []) (es := es); eauto.
      * now apply lookup_In_fwd.
      * intros x. specialize (C x). rewrite (cnt_nil x). lia.
      * intros c' Hc'. apply I in Hc'.
        eapply (w_rank _ _ _ _ W cid (p, es)); [now apply lookup_In_fwd|exact Hc'].
    + destruct at_; [discriminate|]. intros [= <-]. assumption.
  - discriminate.
Qed.

Lemma exec_ops_wf Q os : forall st st', wfQ Q st -> exec_ops NoFault st os = Some st' -> wfQ Q st'.
Proof.
  induction os as [|o r IH]; simpl; intros st st' W.
  - intros [= <-]. assumption.
  - destruct (exec_op NoFault st o) as [st1|] eqn:E; [|discriminate].
    apply IH. eapply exec_op_wf; eauto.
Qed.

Lemma exec_tx_wf st tx : wf st -> wf (snd (exec_tx NoFault st tx)).
Proof.
  intros W. unfold exec_tx. destruct (exec_ops NoFault st tx) as [st'|] eqn:E; simpl.
  - eapply exec_ops_wf; eauto.
  - assumption.
Qed.

Lemma run_wf h : forall st, wf st -> wf (run NoFault st h).
Proof. induction h as [|tx r IH]; simpl; intros st W; [assumption|]. apply IH. now apply exec_tx_wf. Qed.

Lemma trace_wf h : forall st, wf st -> Forall wf (trace NoFault st h).
Proof.
  induction h as [|tx r IH]; simpl; intros st W; constructor.
  - now apply exec_tx_wf.
  - apply IH. now apply exec_tx_wf.
Qed.

Lemma init_wf : wf init.
Proof. constructor; simpl; try constructor; try tauto; try lia. Qed.

(* ------------------------------------------------------------ wf implies the health specification *)
Lemma allocated_keys st i : allocated st i <-> In i (keys (slabs st)).
Proof.
  unfold allocated. split.
  - intros H. destruct (in_dec Z.eq_dec i (keys (slabs st))); [assumption|].
    exfalso. apply H. now apply lookup_None.
  - intros H L. apply lookup_None in L. contradiction.
Qed.

Lemma In_allkids sl c : In c (allkids sl) <-> exists p e, In (p, e) sl /\ In c (kid_ids e).
Proof.
  unfold allkids. rewrite in_flat_map. split.
  - intros [[p e] [A B]]. exists p, e. auto.
  - intros [p [e [A B]]]. exists (p, e). auto.
Qed.

Lemma child_allkids st p c : child st p c -> In c (allkids (slabs st)).
Proof.
  intros [pay [es [l [L I]]]]. apply In_allkids. exists p, (pay, es). split.
  - now apply lookup_In_fwd.
  - unfold kid_ids. simpl. change c with (snd (l, c)). now apply in_map.
Qed.

Lemma allkids_child st c : NoDup (keys (slabs st)) -> In c (allkids (slabs st)) -> exists p, child st p c.
Proof.
  intros ND H. apply In_allkids in H. destruct H as [p [[pay es] [A B]]].
  exists p, pay, es. unfold kid_ids in B. simpl in B. apply in_map_iff in B.
  destruct B as [[l c'] [B1 B2]]. simpl in B1. subst. exists l. split; [now apply lookup_In|assumption].
Qed.

Lemma is_root_In st r : is_root st r <-> In r (map snd (roots st)).
Proof.
  unfold is_root. rewrite in_map_iff. split.
  - intros [k H]. exists (k, r). auto.
  - intros [[k r'] [A B]]. simpl in A. subst. eauto.
Qed.

Lemma reach_snoc st r p i : reach st r p -> child st p i -> allocated st i -> reach st r i.
Proof.
  induction 1 as [j A|q c x C R IH]; intros Ch Al.
  - eapply reach_down; [exact Ch|]. now apply reach_here.
  - eapply reach_down; [exact C|]. now apply IH.
Qed.

Lemma reach_last st r i : reach st r i -> r = i \/ exists p, reach st r p /\ child st p i.
Proof.
  induction 1 as [j A|q c x C R IH].
  - now left.
  - right. destruct IH as [->|[p [R1 C1]]].
    + exists q. split; [|assumption]. apply reach_here.
      destruct C as [pay [es [l [L _]]]]. unfold allocated. congruence.
    + exists p. split; [|assumption]. eapply reach_down; eauto.
Qed.

Lemma cnt_flat_map_two {A} (f : A -> list id) (l : list A) a b x :
  NoDup (flat_map f l) -> In a l -> In b l -> In x (f a) -> In x (f b) -> a = b.
Proof.
  induction l as [|h t IH]; simpl; [tauto|].
  intros ND Ia Ib Xa Xb.
  assert (ND1 : NoDup (flat_map f t)) by (eapply NoDup_app_r; eauto).
  assert (Dis : forall y, In y (f h) -> ~ In y (flat_map f t)).
  { intros y Hy Hy'. rewrite NoDup_cnt in ND. specialize (ND y). rewrite cnt_app in ND.
    apply cnt_pos_In in Hy. apply cnt_pos_In in Hy'. lia. }
  destruct Ia as [->|Ia]; destruct Ib as [->|Ib]; auto.
  - exfalso. apply (Dis x Xa). apply in_flat_map. eauto.
  - exfalso. apply (Dis x Xb). apply in_flat_map. eauto.
Qed.

Theorem wf_healthy st : wf st -> healthy st.
Proof.
  intros [Wk Wr Wrk Wb Wn Wp].
  assert (ND : NoDup (map snd (roots st) ++ allkids (slabs st))).
  { apply NoDup_cnt. intros x. specialize (Wr x). rewrite cnt_app. simpl in Wr.
    rewrite NoDup_cnt in Wk. specialize (Wk x). lia. }
  assert (RefAlloc : forall x, In x (map snd (roots st) ++ allkids (slabs st)) -> In x (keys (slabs st))).
  { intros x H. apply cnt_pos_In. apply cnt_pos_In in H. specialize (Wr x). rewrite cnt_app in H.
    simpl in Wr. lia. }
  assert (AllocRef : forall x, In x (keys (slabs st)) -> In x (map snd (roots st) ++ allkids (slabs st))).
  { intros x H. apply cnt_pos_In. apply cnt_pos_In in H. specialize (Wr x). rewrite cnt_app.
    simpl in Wr. lia. }
  assert (OneParent : forall p1 p2 c, child st p1 c -> child st p2 c -> p1 = p2).
  { intros p1 p2 c [pay1 [es1 [l1 [L1 I1]]]] [pay2 [es2 [l2 [L2 I2]]]].
    assert (NDk : NoDup (allkids (slabs st))) by (eapply NoDup_app_r; eauto).
    assert ((p1, (pay1, es1)) = (p2, (pay2, es2))) as Eq.
    { eapply (cnt_flat_map_two (fun s : slab => kid_ids (snd s)) (slabs st) _ _ c NDk);
        try (now apply lookup_In_fwd); unfold kid_ids; simpl.
      - change c with (snd (l1, c)). now apply in_map.
      - change c with (snd (l2, c)). now apply in_map. }
    congruence. }
  assert (RootNoParent : forall r p, is_root st r -> ~ child st p r).
  { intros r p R C. apply is_root_In in R. apply child_allkids in C.
    rewrite NoDup_cnt in ND. specialize (ND r). rewrite cnt_app in ND.
    apply cnt_pos_In in R. apply cnt_pos_In in C. lia. }
  assert (Rank : forall p c, child st p c -> p < c).
  { intros p c [pay [es [l [L I]]]]. eapply (Wrk p (pay, es)); [now apply lookup_In_fwd|].
    unfold kid_ids. simpl. change c with (snd (l, c)). now apply in_map. }
  assert (ChildAlloc : forall p c, child st p c -> allocated st c).
  { intros p c C. apply allocated_keys. apply RefAlloc. apply in_or_app. right.
    eapply child_allkids; eauto. }
  assert (ParentAlloc : forall p c, child st p c -> allocated st p).
  { intros p c [pay [es [l [L _]]]]. unfold allocated. congruence. }
  constructor.
  - assumption.
  - eapply NoDup_app_l; eauto.
  - intros r R. apply allocated_keys. apply RefAlloc. apply in_or_app. left. now apply is_root_In.
  - assumption.
  - assumption.
  - assumption.
  - intros p pay es L.
    assert (NDk : NoDup (allkids (slabs st))) by (eapply NoDup_app_r; eauto).
    apply lookup_In_fwd in L. apply in_split in L. destruct L as [l1 [l2 E]].
    rewrite E in NDk. rewrite allkids_app in NDk. apply NoDup_app_r in NDk.
    rewrite allkids_cons in NDk. apply NoDup_app_l in NDk. exact NDk.
  - (* reachability: follow the unique referrer upwards; ids strictly decrease *)
    intros i. assert (0 <= i \/ i < 0) as [Hi|Hi] by lia.
    + revert i Hi. apply (Zlt_0_ind (fun i => allocated st i -> exists r, is_root st r /\ reach st r i)).
      intros i IH Hi A. pose proof A as A'. apply allocated_keys in A'. apply AllocRef in A'.
      apply in_app_or in A'. destruct A' as [R|K].
      * exists i. split; [now apply is_root_In|now apply reach_here].
      * destruct (allkids_child st i Wk K) as [p C].
        pose proof (Rank _ _ C). pose proof (ParentAlloc _ _ C) as Ap.
        assert (0 <= p) by (apply allocated_keys in Ap; specialize (Wb _ Ap); lia).
        destruct (IH p ltac:(lia) Ap) as [r [R1 R2]].
        exists r. split; [assumption|]. eapply reach_snoc; eauto.
    + intros A. apply allocated_keys in A. specialize (Wb _ A). lia.
  - intros i. assert (0 <= i \/ i < 0) as [Hi|Hi] by lia.
    + revert i Hi. apply (Zlt_0_ind (fun i => forall r1 r2, is_root st r1 -> is_root st r2 ->
                                       reach st r1 i -> reach st r2 i -> r1 = r2)).
      intros i IH Hi r1 r2 R1 R2 Q1 Q2.
      destruct (reach_last _ _ _ Q1) as [->|[p1 [Q1' C1]]];
        destruct (reach_last _ _ _ Q2) as [->|[p2 [Q2' C2]]]; auto.
      * exfalso. apply (RootNoParent i p2 R1 C2).
      * exfalso. apply (RootNoParent i p1 R2 C1).
      * assert (p1 = p2) by eauto. subst p2. pose proof (Rank _ _ C1).
        pose proof (ParentAlloc _ _ C1) as Ap. apply allocated_keys in Ap. specialize (Wb _ Ap).
        apply (IH p1 ltac:(lia)); assumption.
    + intros r1 r2 _ _ Q _. exfalso.
      assert (allocated st i) as A.
      { clear -Q. induction Q; auto. }
      apply allocated_keys in A. specialize (Wb _ A). lia.
Qed.

(* ------------------------------------------------------------ contract updates *)
Definition pend_ids (pu : list (key * option id)) : list id :=
  flat_map (fun u => match snd u with Some i => [i] | None => [] end) pu.

Lemma wfp_pend_ext sl rts n P P' :
  (forall x, cnt P x = cnt P' x) -> wfp sl rts n P -> wfp sl rts n P'.
Proof.
  intros E [Wk Wr Wrk Wb Wn Wp]. constructor; auto. intros x. rewrite <- E. apply Wr.
Qed.

Lemma pu_get_None_keys pu k : pu_get pu k = None -> ~ In k (map fst pu).
Proof.
  induction pu as [|[j v] r IH]; simpl; [tauto|].
  destruct (key_eqb j k) eqn:E; [discriminate|].
  intros H [A|A].
  - subst. assert (key_eqb k k = true) by now apply key_eqb_eq. congruence.
  - now apply IH.
Qed.

Lemma pu_get_In pu k v : pu_get pu k = Some v -> In (k, v) pu.
Proof.
  induction pu as [|[j w] r IH]; simpl; [discriminate|].
  destruct (key_eqb j k) eqn:E.
  - apply key_eqb_eq in E. subst. intros [= ->]. now left.
  - intros H. right. auto.
Qed.

Lemma pu_set_absent pu k v : pu_get pu k = None -> pu_set pu k v = pu ++ [(k, v)].
Proof.
  induction pu as [|[j w] r IH]; simpl; [reflexivity|].
  destruct (key_eqb j k); [discriminate|]. intros H. now rewrite IH.
Qed.

Lemma pend_ids_app a b : pend_ids (a ++ b) = pend_ids a ++ pend_ids b.
Proof. apply flat_map_app. Qed.

Fixpoint added_ok (added : list key) (pu : list (key * option id)) : Prop :=
  match pu with
  | [] => True
  | (k, Some _) :: r => In k added /\ added_ok added r
  | (_, None) :: r => added_ok added r
  end.

Lemma added_ok_In added pu k i : added_ok added pu -> In (k, Some i) pu -> In k added.
Proof.
  induction pu as [|[j [w|]] r IH]; simpl; [tauto| |].
  - intros [A B] [H|H]; [inversion H; subst; assumption|auto].
  - intros B [H|H]; [discriminate|auto].
Qed.

Lemma added_ok_app added a b : added_ok added a -> added_ok added b -> added_ok added (a ++ b).
Proof.
  induction a as [|[j [w|]] r IH]; simpl; auto. intros [A B] C. split; auto.
Qed.

Lemma added_ok_mono added k pu : added_ok added pu -> added_ok (k :: added) pu.
Proof.
  induction pu as [|[j [w|]] r IH]; simpl; auto. intros [A B]. split; [now right|auto].
Qed.

Lemma existsb_key_In k added : existsb (key_eqb k) added = false -> ~ In k added.
Proof.
  intros E H. assert (existsb (key_eqb k) added = true); [|congruence].
  apply existsb_exists. exists k. split; [assumption|now apply key_eqb_eq].
Qed.

Local Opaque free_all.

(* the invariant while a transaction runs *)
Definition J (added : list key) (st : state) (pu : list (key * option id)) : Prop :=
  wfQ (pend_ids pu) st /\ NoDup (map fst pu) /\ added_ok added pu.

Lemma exec_cops_J cs : forall added st pu st' pu',
  J added st pu -> no_add_remove added cs = true ->
  exec_cops NoFault st pu cs = Some (st', pu') ->
  exists added', J added' st' pu'.
Proof.
  induction cs as [|c r IH]; intros added st pu st' pu' [W [ND AO]] G E; simpl in E.
  - inversion E; subst. exists added. split; [|split]; assumption.
  - destruct c as [o|k v|k|i v]; simpl in E, G; [| | |discriminate].
    + destruct (exec_op NoFault st o) as [st1|] eqn:X; [|discriminate].
      eapply IH; [|exact G|exact E]. split; [|split]; auto. eapply exec_op_wf; eauto.
    + destruct (lookup_root (roots st) k) eqn:LR; [discriminate|].
      destruct (pu_get pu k) eqn:PG; [discriminate|].
      destruct (alloc v (next st)) as [m ss] eqn:A.
      eapply IH; [|exact G|exact E].
      rewrite (pu_set_absent _ _ _ PG). split; [|split].
      * unfold wfQ. cbn [slabs roots next]. rewrite pend_ids_app. simpl.
        eapply wfp_pend_ext; [|eapply wfp_alloc; [exact W|exact A]].
        intros x. cn. lia.
      * rewrite map_app. simpl. apply NoDup_cnt_key_app; [assumption|now apply pu_get_None_keys].
      * apply added_ok_app; [now apply added_ok_mono|]. simpl. split; [now left|exact I].
    + apply andb_true_iff in G. destruct G as [G1 G2]. apply negb_true_iff in G1.
      apply existsb_key_In in G1.
      destruct (pu_get pu k) as [[i|]|] eqn:PG.
      * exfalso. apply G1. apply (added_ok_In added pu k i AO). now apply pu_get_In.
      * eapply IH; [|exact G2|exact E]. split; [|split]; assumption.
      * destruct (lookup_root (roots st) k); [|eapply IH; [|exact G2|exact E]; split; [|split]; assumption].
        eapply IH; [|exact G2|exact E].
        rewrite (pu_set_absent _ _ _ PG). split; [|split].
        -- unfold wfQ. rewrite pend_ids_app. simpl. rewrite app_nil_r. exact W.
        -- rewrite map_app. simpl. apply NoDup_cnt_key_app; [assumption|now apply pu_get_None_keys].
        -- apply added_ok_app; [assumption|]. simpl. exact I.
Qed.

Lemma apply_update_wf st k v Q :
  wfQ (match v with Some i => i :: Q | None => Q end) st -> wfQ Q (apply_update st (k, v)).
Proof.
  intros W. unfold apply_update. cbn [fst snd].
  set (st1 := match lookup_root (roots st) k with
              | Some r => mkst (free_all (fuel_of (slabs st)) (slabs st) [r]) (remove_root k (roots st)) (next st)
              | None => st end).
  assert (W1 : wfQ (match v with Some i => i :: Q | None => Q end) st1 /\ ~ In k (map fst (roots st1))).
  { unfold st1. destruct (lookup_root (roots st) k) as [r|] eqn:L.
    - split; [|cbn [roots]; apply remove_root_notin].
      unfold wfQ. cbn [slabs roots next].
      apply (free_all_wf (fuel_of (slabs st)) _ (slabs st) _ _ [r]); [|unfold fuel_of; lia].
      destruct (lookup_root_In _ _ _ L) as [k' [I E]]. apply key_eqb_eq in E. subst k'.
      destruct W as [Wk Wr Wrk Wb Wn Wp]. constructor; auto.
      + intros x. specialize (Wr x). rewrite (remove_root_cnt k r (roots st) x Wp I) in Wr.
        cnin Wr. cn. dz.
      + now apply remove_root_paths.
    - split; [exact W|now apply lookup_root_None]. }
  destruct W1 as [W1 NI]. destruct v as [i|]; [|exact W1].
  destruct W1 as [Wk Wr Wrk Wb Wn Wp]. constructor; cbn [slabs roots next]; auto.
  - intros x. specialize (Wr x). cnin Wr. cn. simpl snd. dz.
  - simpl. constructor; assumption.
Qed.

Lemma commit_updates_wf pu : forall st, wfQ (pend_ids pu) st -> wf (commit_updates st pu).
Proof.
  induction pu as [|[k v] r IH]; intros st W; simpl.
  - exact W.
  - apply IH. apply apply_update_wf. destruct v as [i|]; exact W.
Qed.

Lemma exec_ctx_wf st tx : wf st -> no_add_remove [] tx = true -> wf (snd (exec_ctx NoFault st tx)).
Proof.
  intros W G. unfold exec_ctx. destruct (exec_cops NoFault st [] tx) as [[st' pu]|] eqn:E; simpl; [|assumption].
  destruct (exec_cops_J tx [] st [] st' pu) as [added' [W' _]]; auto.
  - split; [exact W|split; [constructor|exact I]].
  - now apply commit_updates_wf.
Qed.

Lemma trace_c_wf h : forall st, wf st -> Forall (fun tx => no_add_remove [] tx = true) h ->
  Forall wf (trace_c NoFault st h).
Proof.
  induction h as [|tx r IH]; simpl; intros st W G; constructor; inversion G; subst.
  - now apply exec_ctx_wf.
  - apply IH; [now apply exec_ctx_wf|assumption].
Qed.

Theorem healthy_with_contracts h :
  Forall (fun tx => no_add_remove [] tx = true) h -> Forall healthy (trace_c NoFault init h).
Proof.
  intros G. eapply Forall_impl; [|apply trace_c_wf; [apply init_wf|exact G]]. intros st. apply wf_healthy.
Qed.

(* storage operations alone: the contract layer changes nothing *)
Lemma exec_cops_storage ft os : forall st pu,
  exec_cops ft st pu (map CStorage os) = match exec_ops ft st os with Some st' => Some (st', pu) | None => None end.
Proof.
  induction os as [|o r IH]; simpl; intros st pu; [reflexivity|].
  destruct (exec_op ft st o); [apply IH|reflexivity].
Qed.

Theorem exec_ctx_storage ft st os : exec_ctx ft st (map CStorage os) = exec_tx ft st os.
Proof.
  unfold exec_ctx, exec_tx. rewrite exec_cops_storage. destruct (exec_ops ft st os); reflexivity.
Qed.

(* ------------------------------------------------------------ main theorems *)
Theorem healthy_after_every_tx h : Forall healthy (trace NoFault init h).
Proof.
  eapply Forall_impl; [|apply trace_wf, init_wf]. intros st. apply wf_healthy.
Qed.

Theorem healthy_final h : healthy (run NoFault init h).
Proof. apply wf_healthy, run_wf, init_wf. Qed.

Theorem healthy_step st tx : wf st -> wf (snd (exec_tx NoFault st tx)) /\ healthy (snd (exec_tx NoFault st tx)).
Proof. intros W. pose proof (exec_tx_wf st tx W). split; [assumption|now apply wf_healthy]. Qed.

(* an aborted transaction leaves the state untouched *)
Theorem abort_discards ft st tx : fst (exec_tx ft st tx) = false -> snd (exec_tx ft st tx) = st.
Proof. unfold exec_tx. destruct (exec_ops ft st tx); simpl; [discriminate|reflexivity]. Qed.

(* refutation tool: in a healthy state every allocated slab has a referrer *)
Lemma healthy_all_referred st : healthy st -> all_referred_b st = true.
Proof.
  intros H. unfold all_referred_b. apply forallb_forall. intros i Hi.
  assert (allocated st i) as A by now apply allocated_keys.
  destruct (h_reachable _ H i A) as [r [R Q]].
  unfold has_referrer_b. apply orb_true_iff.
  destruct (reach_last _ _ _ Q) as [->|[p [_ C]]].
  - left. destruct R as [k R]. apply existsb_exists. exists (k, i). split; [assumption|apply Z.eqb_refl].
  - right. destruct C as [pay [es [l [L I]]]]. apply existsb_exists.
    exists (p, (pay, es)). split; [now apply lookup_In_fwd|].
    apply existsb_exists. exists (l, i). split; [assumption|apply Z.eqb_refl].
Qed.

Corollary leak_refutes_health st : all_referred_b st = false -> ~ healthy st.
Proof. intros E H. apply healthy_all_referred in H. congruence. Qed.
