(* C23  Committed storage is always healthy — executable model (definitions only).

   A *slab* here is one separately owned stored value node (a composite, an array, a dictionary,
   a large string ...): what atree may place in a register of its own.  Whether atree inlines
   a node into its parent's register, splits it over several registers, etc. is atree's own
   bookkeeping and is NOT modelled (oracle).  The model is the Cadence-level obligation:
   which nodes are allocated, who references them, and what every storage operation must
   allocate / free.

   State: a slab table (id |-> payload, labelled child ids), the account storage map
   (path |-> root slab id) and the allocation counter.  Values that are not in account
   storage (on the stack, temp address) are *shapes*: they own no account slabs; moving a
   value out of storage (Transfer with remove=true) reads its shape and removes the source
   slabs, moving a value into storage allocates fresh slabs (Transfer to the account address). *)
From CV Require Import Base.Prelude.
Open Scope Z_scope.

Notation id := Z (only parsing).
Notation key := (Z * Z)%type (only parsing).                     (* account, storage path *)

Inductive shape := Sh (payload : Z) (kids : list (Z * shape)).   (* a value: payload + labelled children *)

Notation elems := (list (Z * Z)) (only parsing).                 (* labelled child references *)
Notation slab := (Z * (Z * list (Z * Z)))%type (only parsing).         (* id |-> (payload, children) *)

Record state := mkst { slabs : list slab; roots : list (key * id); next : id }.

Definition init : state := mkst [] [] 0.

(* Faults: the code mutations the invariant must exclude (used only for the refutation examples;
   the theorems are about [NoFault]). *)
Inductive fault := NoFault | LeakOverwrite | LeakTransfer | ShallowDestroy | KeepRootSlab.

Definition fault_eqb (a b : fault) : bool :=
  match a, b with
  | NoFault, NoFault | LeakOverwrite, LeakOverwrite | LeakTransfer, LeakTransfer
  | ShallowDestroy, ShallowDestroy | KeepRootSlab, KeepRootSlab => true
  | _, _ => false
  end.

(* ---------------------------------------------------------------- slab table *)
Fixpoint lookup (sl : list slab) (i : id) : option (Z * elems) :=
  match sl with
  | [] => None
  | (j, e) :: r => if j =? i then Some e else lookup r i
  end.

Definition remove_key (i : id) (sl : list slab) : list slab :=
  filter (fun s => negb (fst s =? i)) sl.

Definition update (sl : list slab) (i : id) (e : Z * elems) : list slab :=
  (i, e) :: remove_key i sl.

Definition key_eqb (a b : key) : bool := (fst a =? fst b) && (snd a =? snd b).

Fixpoint lookup_root (rs : list (key * id)) (k : key) : option id :=
  match rs with
  | [] => None
  | (j, r) :: t => if key_eqb j k then Some r else lookup_root t k
  end.

Definition remove_root (k : key) (rs : list (key * id)) : list (key * id) :=
  filter (fun r => negb (key_eqb (fst r) k)) rs.

(* ---------------------------------------------------------------- allocation (Transfer into an account) *)
(* A value of shape [sh] is stored at ids [n, n+1, ...): the parent first, then its children
   depth first.  Returns the next free id and the new slab entries; the value's root id is [n]. *)
Definition alloc_kids (f : shape -> id -> id * list slab) :=
  fix go (ks : list (Z * shape)) (m : id) : id * elems * list slab :=
    match ks with
    | [] => (m, [], [])
    | (l, c) :: r =>
      let '(m1, s1) := f c m in
      let '(m2, es, s2) := go r m1 in
      (m2, (l, m) :: es, s1 ++ s2)
    end.

Fixpoint alloc (sh : shape) (n : id) : id * list slab :=
  match sh with
  | Sh p kids =>
    let '(m, es, ss) := alloc_kids alloc kids (n + 1) in
    (m, (n, (p, es)) :: ss)
  end.

(* ---------------------------------------------------------------- reading a stored value *)
Fixpoint shape_of (fuel : nat) (sl : list slab) (i : id) : shape :=
  match fuel with
  | O => Sh 0 []
  | S f =>
    match lookup sl i with
    | None => Sh 0 []
    | Some (p, es) => Sh p (map (fun lc => (fst lc, shape_of f sl (snd lc))) es)
    end
  end.

(* ---------------------------------------------------------------- deep removal *)
(* DeepRemove / Transfer(remove=true) on the source: remove the slab, then (recursively, here with an
   explicit work list = the recursion stack) the slabs of all its children (RemoveReferencedSlab). *)
Fixpoint free_all (fuel : nat) (sl : list slab) (work : list id) : list slab :=
  match fuel with
  | O => sl
  | S f =>
    match work with
    | [] => sl
    | x :: w =>
      match lookup sl x with
      | None => free_all f sl w
      | Some (_, es) => free_all f (remove_key x sl) (map snd es ++ w)
      end
    end
  end.

Definition fuel_of (sl : list slab) : nat := S (length sl).

(* ---------------------------------------------------------------- child selection *)
Inductive step := Pos (n : nat) | Key (z : Z).

Fixpoint find_key (es : elems) (z : Z) : option id :=
  match es with
  | [] => None
  | (l, c) :: r => if l =? z then Some c else find_key r z
  end.

Definition find_child (es : elems) (s : step) : option id :=
  match s with
  | Pos n => option_map snd (nth_error es n)
  | Key z => find_key es z
  end.

(* follow a selector from a slab down through children *)
Fixpoint resolve (sl : list slab) (i : id) (s : list step) : option id :=
  match s with
  | [] => Some i
  | st :: r =>
    match lookup sl i with
    | None => None
    | Some (_, es) =>
      match find_child es st with
      | None => None
      | Some c => resolve sl c r
      end
    end
  end.

Fixpoint remove_keyed (es : elems) (z : Z) : option (id * elems) :=
  match es with
  | [] => None
  | (l, c) :: r =>
    if l =? z then Some (c, r)
    else match remove_keyed r z with
         | None => None
         | Some (d, r') => Some (d, (l, c) :: r')
         end
  end.

(* remove a child reference: the removed id and the remaining elements *)
Definition remove_child (es : elems) (s : step) : option (id * elems) :=
  match s with
  | Pos n =>
    match nth_error es n with
    | None => None
    | Some (_, c) => Some (c, firstn n es ++ skipn (S n) es)
    end
  | Key z => remove_keyed es z
  end.

Fixpoint replace_keyed (es : elems) (z : Z) (nw : id) : option (id * elems) :=
  match es with
  | [] => None
  | (l, c) :: r =>
    if l =? z then Some (c, (l, nw) :: r)
    else match replace_keyed r z nw with
         | None => None
         | Some (d, r') => Some (d, (l, c) :: r')
         end
  end.

(* put a new child reference.
   [ins = true]  (array insert / dictionary insert): Pos n inserts before position n (n <= length);
   [ins = false] (assignment / swap): Pos n replaces the element at n (n < length).
   Key z replaces the entry with label z when present, else adds it.
   Returns the displaced child (if any) and the new elements. *)
Definition put_child (ins : bool) (es : elems) (s : step) (nw : id) : option (option id * elems) :=
  match s with
  | Pos n =>
    if ins then
      if (n <=? length es)%nat then Some (None, firstn n es ++ (0, nw) :: skipn n es) else None
    else
      match nth_error es n with
      | None => None
      | Some (l, c) => Some (Some c, firstn n es ++ (l, nw) :: skipn (S n) es)
      end
  | Key z =>
    match replace_keyed es z nw with
    | Some (c, es') => Some (Some c, es')
    | None => Some (None, es ++ [(z, nw)])
    end
  end.

(* ---------------------------------------------------------------- operations *)
(* what happens to a value that was detached from storage *)
Inductive disp :=
| DDestroy                                   (* destroy / drop *)
| DSave (k : key)                            (* saved under another path (possibly another account) *)
| DInsert (k : key) (s : list step) (at_ : step).   (* inserted into another stored container *)

Inductive op :=
| OSave (k : key) (v : shape)                                   (* storage.save(<-new, to: k) *)
| ORemove (k : key) (d : disp)                                  (* storage.load(from: k), then d *)
| OCopy (k k2 : key)                                            (* storage.copy(from: k), save copy to k2 *)
| OPut (ins : bool) (k : key) (s : list step) (at_ : step) (v : shape) (d : disp)
                                                                (* through a reference: insert / overwrite a child with a
                                                                   new value; the displaced old child goes to d *)
| ODel (k : key) (s : list step) (at_ : step) (d : disp)       (* through a reference: remove a child, then d *)
| OFail.                                                        (* panic: the transaction aborts *)

Inductive why := WOverwrite | WRemoveChild | WRemoveRoot.

Definition is_destroy (d : disp) : bool := match d with DDestroy => true | _ => false end.

(* release the slabs of a detached value rooted at c *)
Definition release (ft : fault) (w : why) (d : disp) (sl : list slab) (c : id) : list slab :=
  match ft, w with
  | LeakOverwrite, WOverwrite => sl
  | KeepRootSlab, WRemoveRoot => sl
  | _, _ =>
    if fault_eqb ft LeakTransfer && negb (is_destroy d) then sl
    else if fault_eqb ft ShallowDestroy && is_destroy d then remove_key c sl
    else free_all (fuel_of sl) sl [c]
  end.

Definition save (st : state) (k : key) (sh : shape) : option state :=
  match lookup_root (roots st) k with
  | Some _ => None                                   (* path occupied: save fails *)
  | None =>
    let '(m, ss) := alloc sh (next st) in
    Some (mkst (ss ++ slabs st) ((k, next st) :: roots st) m)
  end.

(* put a new value [sh] into the container selected by (k, s) at [at_]; returns the shape of the
   displaced child (already released according to [d]) *)
Definition put (ft : fault) (st : state) (ins : bool) (k : key) (s : list step) (at_ : step)
           (sh : shape) (d : disp) : option (option shape * state) :=
  match lookup_root (roots st) k with
  | None => None
  | Some r =>
    match resolve (slabs st) r s with
    | None => None
    | Some cid =>
      match lookup (slabs st) cid with
      | None => None
      | Some (p, es) =>
        let nw := next st in
        let '(m, ss) := alloc sh nw in
        match put_child ins es at_ nw with
        | None => None
        | Some (old, es') =>
          let sl1 := update (ss ++ slabs st) cid (p, es') in
          match old with
          | None => Some (None, mkst sl1 (roots st) m)
          | Some o =>
            let osh := shape_of (fuel_of sl1) sl1 o in
            Some (Some osh, mkst (release ft WOverwrite d sl1 o) (roots st) m)
          end
        end
      end
    end
  end.

Definition dispose (ft : fault) (st : state) (d : disp) (sh : shape) : option state :=
  match d with
  | DDestroy => Some st
  | DSave k => save st k sh
  | DInsert k s at_ =>
    match put ft st true k s at_ sh DDestroy with
    | Some (_, st') => Some st'
    | None => None
    end
  end.

Definition exec_op (ft : fault) (st : state) (o : op) : option state :=
  match o with
  | OSave k v => save st k v
  | ORemove k d =>
    match lookup_root (roots st) k with
    | None => None
    | Some r =>
      let sh := shape_of (fuel_of (slabs st)) (slabs st) r in
      let st1 := mkst (release ft WRemoveRoot d (slabs st) r) (remove_root k (roots st)) (next st) in
      dispose ft st1 d sh
    end
  | OCopy k k2 =>
    match lookup_root (roots st) k with
    | None => None
    | Some r => save st k2 (shape_of (fuel_of (slabs st)) (slabs st) r)
    end
  | OPut ins k s at_ v d =>
    match put ft st ins k s at_ v d with
    | None => None
    | Some (None, st1) => Some st1
    | Some (Some osh, st1) => dispose ft st1 d osh
    end
  | ODel k s at_ d =>
    match lookup_root (roots st) k with
    | None => None
    | Some r =>
      match resolve (slabs st) r s with
      | None => None
      | Some cid =>
        match lookup (slabs st) cid with
        | None => None
        | Some (p, es) =>
          match remove_child es at_ with
          | None =>
            match at_ with
            | Key _ => Some st                       (* dictionary remove of an absent key: nil, no effect *)
            | Pos _ => None                          (* array index out of bounds *)
            end
          | Some (c, es') =>
            let sl1 := update (slabs st) cid (p, es') in
            let sh := shape_of (fuel_of sl1) sl1 c in
            dispose ft (mkst (release ft WRemoveChild d sl1 c) (roots st) (next st)) d sh
          end
        end
      end
    end
  | OFail => None
  end.

Fixpoint exec_ops (ft : fault) (st : state) (os : list op) : option state :=
  match os with
  | [] => Some st
  | o :: r => match exec_op ft st o with None => None | Some st' => exec_ops ft st' r end
  end.

(* a transaction commits iff no operation fails; an aborted transaction changes nothing *)
Definition exec_tx (ft : fault) (st : state) (tx : list op) : bool * state :=
  match exec_ops ft st tx with
  | Some st' => (true, st')
  | None => (false, st)
  end.

Fixpoint run (ft : fault) (st : state) (h : list (list op)) : state :=
  match h with
  | [] => st
  | tx :: r => run ft (snd (exec_tx ft st tx)) r
  end.

(* the states after each transaction of a history *)
Fixpoint trace (ft : fault) (st : state) (h : list (list op)) : list state :=
  match h with
  | [] => []
  | tx :: r => let st' := snd (exec_tx ft st tx) in st' :: trace ft st' r
  end.

(* ---------------------------------------------------------------- contract updates (code-shaped) *)
(* account.contracts.add creates the contract value at once (its slabs are allocated at the account
   address) and RECORDS the update (runtime Storage.recordContractUpdate, an insertion-ordered map);
   account.contracts.remove records a nil value for the name.  The recorded updates are written to the
   contract domain only when the transaction commits (commitContractUpdates / writeContractUpdate).
   Contract names are keys of the same account storage map here (harness: path numbers >= 1000). *)
Inductive cop :=
| CStorage (o : op)
| CAdd (k : key) (v : shape)
| CRemove (k : key)
| CStale (i : id) (v : shape).
(* CStale i v: append a new value through a REFERENCE that still designates the container with slab id i
   (an authorized reference to a struct's container field obtained before the field was overwritten).
   A reference to a non-resource container is not invalidated when the container is deep-removed; the
   wrapper keeps its atree array, and atree's Append stores the array's root slab again.  When slab i is
   still allocated this is an ordinary insertion; when it has been removed the slab is re-created and
   nothing references it. *)

Fixpoint pu_get (pu : list (key * option id)) (k : key) : option (option id) :=
  match pu with
  | [] => None
  | (j, v) :: r => if key_eqb j k then Some v else pu_get r k
  end.

(* orderedmap.Set: an existing key keeps its position, its value is REPLACED *)
Fixpoint pu_set (pu : list (key * option id)) (k : key) (v : option id) : list (key * option id) :=
  match pu with
  | [] => [(k, v)]
  | (j, w) :: r => if key_eqb j k then (j, v) :: r else (j, w) :: pu_set r k v
  end.

Definition exec_cop (ft : fault) (st : state) (pu : list (key * option id)) (c : cop)
  : option (state * list (key * option id)) :=
  match c with
  | CStorage o =>
    match exec_op ft st o with
    | Some st' => Some (st', pu)
    | None => None
    end
  | CAdd k v =>
    (* fails when code exists or an update of this name was recorded earlier in the transaction *)
    match lookup_root (roots st) k, pu_get pu k with
    | None, None =>
      let '(m, ss) := alloc v (next st) in
      Some (mkst (ss ++ slabs st) (roots st) m, pu_set pu k (Some (next st)))
    | _, _ => None
    end
  | CRemove k =>
    let deployed :=
      match pu_get pu k with
      | Some (Some _) => true
      | Some None => false
      | None => match lookup_root (roots st) k with Some _ => true | None => false end
      end in
    (* recordContractUpdate(location, nil): the recorded value (if any) is replaced; nothing is freed *)
    if deployed then Some (st, pu_set pu k None) else Some (st, pu)
  | CStale i v =>
    let nw := next st in
    let '(m, ss) := alloc v nw in
    match lookup (slabs st) i with
    | Some (p, es) => Some (mkst (update (ss ++ slabs st) i (p, es ++ [(0, nw)])) (roots st) m, pu)
    | None => Some (mkst ((i, (0, [(0, nw)])) :: ss ++ slabs st) (roots st) m, pu)   (* the removed slab is stored again *)
    end
  end.

Fixpoint exec_cops (ft : fault) (st : state) (pu : list (key * option id)) (cs : list cop)
  : option (state * list (key * option id)) :=
  match cs with
  | [] => Some (st, pu)
  | c :: r =>
    match exec_cop ft st pu c with
    | None => None
    | Some (st', pu') => exec_cops ft st' pu' r
    end
  end.

(* writeContractUpdate: DomainStorageMap.WriteValue; an existing value under the name is deep-removed *)
Definition apply_update (st : state) (u : key * option id) : state :=
  let st1 :=
    match lookup_root (roots st) (fst u) with
    | Some r => mkst (free_all (fuel_of (slabs st)) (slabs st) [r]) (remove_root (fst u) (roots st)) (next st)
    | None => st
    end in
  match snd u with
  | Some i => mkst (slabs st1) ((fst u, i) :: roots st1) (next st1)
  | None => st1
  end.

Definition commit_updates (st : state) (pu : list (key * option id)) : state := fold_left apply_update pu st.

Definition exec_ctx (ft : fault) (st : state) (tx : list cop) : bool * state :=
  match exec_cops ft st [] tx with
  | Some (st', pu) => (true, commit_updates st' pu)
  | None => (false, st)
  end.

Fixpoint run_c (ft : fault) (st : state) (h : list (list cop)) : state :=
  match h with
  | [] => st
  | tx :: r => run_c ft (snd (exec_ctx ft st tx)) r
  end.

Fixpoint trace_c (ft : fault) (st : state) (h : list (list cop)) : list state :=
  match h with
  | [] => []
  | tx :: r => let st' := snd (exec_ctx ft st tx) in st' :: trace_c ft st' r
  end.

(* the guard excluding the defects: no transaction removes a contract it added itself, and no mutation goes
   through a retained container reference (insertions through live references are OPut operations) *)
Fixpoint no_add_remove (added : list key) (tx : list cop) : bool :=
  match tx with
  | [] => true
  | CAdd k _ :: r => no_add_remove (k :: added) r
  | CRemove k :: r => negb (existsb (key_eqb k) added) && no_add_remove added r
  | CStorage _ :: r => no_add_remove added r
  | CStale _ _ :: _ => false
  end.

(* ---------------------------------------------------------------- the health specification *)
Definition allocated (st : state) (i : id) : Prop := lookup (slabs st) i <> None.
Definition child (st : state) (p c : id) : Prop :=
  exists pay es l, lookup (slabs st) p = Some (pay, es) /\ In (l, c) es.
Definition is_root (st : state) (r : id) : Prop := exists k, In (k, r) (roots st).

Inductive reach (st : state) : id -> id -> Prop :=
| reach_here i : allocated st i -> reach st i i
| reach_down p c x : child st p c -> reach st c x -> reach st p x.

Record healthy (st : state) : Prop := {
  h_paths_unique : NoDup (map fst (roots st));                       (* one value per storage path *)
  h_root_once : NoDup (map snd (roots st));                          (* no root slab referenced twice *)
  h_root_alloc : forall r, is_root st r -> allocated st r;           (* no root entry without its slab *)
  h_root_noparent : forall r p, is_root st r -> ~ child st p r;      (* a root is not also owned by a container *)
  h_no_dangling : forall p c, child st p c -> allocated st c;        (* every child reference resolves (decodes) *)
  h_one_parent : forall p1 p2 c, child st p1 c -> child st p2 c -> p1 = p2;   (* no slab has two parents *)
  h_one_slot : forall p pay es, lookup (slabs st) p = Some (pay, es) -> NoDup (map snd es);
  h_reachable : forall i, allocated st i -> exists r, is_root st r /\ reach st r i;   (* no orphan / leak *)
  h_one_root : forall i r1 r2, is_root st r1 -> is_root st r2 -> reach st r1 i -> reach st r2 i -> r1 = r2
}.

(* boolean necessary condition used to refute health of concrete (faulty) states *)
Definition has_referrer_b (st : state) (i : id) : bool :=
  existsb (fun r => snd r =? i) (roots st)
  || existsb (fun s => existsb (fun lc => snd lc =? i) (snd (snd s))) (slabs st).
Definition all_referred_b (st : state) : bool :=
  forallb (has_referrer_b st) (map fst (slabs st)).
