(* Check functions used by the per-run case files of C42. *)
From CV Require Export C42.Ccf C42.CcfDec C41.Cases.
From Coq Require Import String Ascii.
Local Open Scope string_scope.
Local Open Scope Z_scope.
Local Open Scope list_scope.

(* simpletype.go as observed on the pinned tree; compared with the real table on every run *)
Definition ccf_simple_ids : list (str * Z) := Eval vm_compute in map (fun p => (sc (fst p), snd p))
  [("Bool", 0); ("String", 1); ("Character", 2); ("Address", 3); ("Int", 4); ("Int8", 5); ("Int16", 6);
   ("Int32", 7); ("Int64", 8); ("Int128", 9); ("Int256", 10); ("UInt", 11); ("UInt8", 12); ("UInt16", 13);
   ("UInt32", 14); ("UInt64", 15); ("UInt128", 16); ("UInt256", 17); ("Word8", 18); ("Word16", 19);
   ("Word32", 20); ("Word64", 21); ("Fix64", 22); ("UFix64", 23); ("Path", 24); ("CapabilityPath", 25);
   ("StoragePath", 26); ("PublicPath", 27); ("PrivatePath", 28); ("DeployedContract", 35); ("Block", 37);
   ("Any", 38); ("AnyStruct", 39); ("AnyResource", 40); ("Type", 41); ("Never", 42); ("Number", 43);
   ("SignedNumber", 44); ("Integer", 45); ("SignedInteger", 46); ("FixedPoint", 47);
   ("SignedFixedPoint", 48); ("Bytes", 49); ("Void", 50); ("Word128", 52); ("Word256", 53);
   ("AnyStructAttachment", 54); ("AnyResourceAttachment", 55); ("StorageCapabilityController", 56);
   ("AccountCapabilityController", 57); ("Account", 58); ("Account.Contracts", 59); ("Account.Keys", 60);
   ("Account.Inbox", 61); ("Account.StorageCapabilities", 62); ("Account.AccountCapabilities", 63);
   ("Account.Capabilities", 64); ("Account.Storage", 65); ("Mutate", 66); ("Insert", 67); ("Remove", 68);
   ("Identity", 69); ("Storage", 70); ("SaveValue", 71); ("LoadValue", 72); ("CopyValue", 73);
   ("BorrowValue", 74); ("Contracts", 75); ("AddContract", 76); ("UpdateContract", 77);
   ("RemoveContract", 78); ("Keys", 79); ("AddKey", 80); ("RevokeKey", 81); ("Inbox", 82);
   ("PublishInboxCapability", 83); ("UnpublishInboxCapability", 84); ("ClaimInboxCapability", 85);
   ("Capabilities", 86); ("StorageCapabilities", 87); ("AccountCapabilities", 88);
   ("PublishCapability", 89); ("UnpublishCapability", 90); ("GetStorageCapabilityController", 91);
   ("IssueStorageCapabilityController", 92); ("GetAccountCapabilityController", 93);
   ("IssueAccountCapabilityController", 94); ("CapabilitiesMapping", 95); ("AccountMapping", 96);
   ("HashableStruct", 97); ("FixedSizeUnsignedInteger", 98); ("Fix128", 99); ("UFix128", 101);
   ("Storable", 103); ("StringBuilder", 104)].

Fixpoint assoc_z (tbl : list (str * Z)) (s : str) : option Z :=
  match tbl with
  | [] => None
  | (k, v) :: r => if str_eqb s k then Some v else assoc_z r s
  end.
Definition ccf_sid (s : str) : option Z := assoc_z ccf_simple_ids s.

Fixpoint assoc_ty (tbl : list (str * xty)) (s : str) : option xty :=
  match tbl with
  | [] => None
  | (k, v) :: r => if str_eqb s k then Some v else assoc_ty r s
  end.

(* bytes given as a hexadecimal string literal *)
Fixpoint hexbytes_go (l : list ascii) : list Z :=
  match l with
  | a :: b :: r =>
      match hex_val (Z.of_N (N_of_ascii a)), hex_val (Z.of_N (N_of_ascii b)) with
      | Some x, Some y => (x * 16 + y) :: hexbytes_go r
      | _, _ => []
      end
  | _ => []
  end.
Definition hx (s : string) : list Z := hexbytes_go (list_ascii s).
Arguments hx _%string.

Inductive ccase : Type :=
| CCcfEnc (det : bool) (env : list (str * xty)) (typedefs : list str) (v : xval) (observed : res (list Z))
      (* real ccf encoder (default / deterministic mode) output bytes *)
| CCcfDec (env : list (str * xty)) (chars : list str) (st : xty) (c : cbor) (observed : xval)
      (* value part of a real CCF message, decoded by the real decoder with static type st (types of
         the decoded value in the reference representation) *)
| CCcfSimple (tbl : list (str * Z)).
      (* simple type ids used by the real encoder *)

Definition pair_eqb (a b : str * Z) : bool := str_eqb (fst a) (fst b) && (snd a =? snd b).

Definition check_ccase (c : ccase) : bool :=
  match c with
  | CCcfEnc det env typedefs v obs =>
      let r := ccf_encode ccf_sid (assoc_ty env) (if det then mode_det else mode_default) typedefs v in
      match r, obs with
      | Ok c, Ok b => list_eqb Z.eqb (cbor_bytes c) b
      | Err _, Err _ => true
      | _, _ => false
      end
  | CCcfDec env chars st c obs =>
      match dec_value (fun s => str_mem s chars) (assoc_ty env) c st with
      | Ok v => xval_eqb v obs
      | Err Internal => true        (* static type outside the modelled fragment *)
      | Err _ => false
      end
  | CCcfSimple tbl => list_eqb pair_eqb ccf_simple_ids tbl
  end.
