(* Round trip of the CCF value encoding on the concretely typed fragment (default mode):
   dec_value (enc_value st v) st = Ok (cnorm v), where cnorm sorts dictionary entries. *)
From CV Require Import C42.Ccf C42.CcfDec C42.SortProofs C41.StrProofs C41.TypeProofs C41.ValueProofs.
From Coq Require Import String Permutation Sorting.Sorted ZifyBool.
Local Open Scope string_scope.
Local Open Scope Z_scope.
Local Open Scope list_scope.
Ltac Zify.zify_post_hook ::= Z.to_euclidean_division_equations.

(* ------------------------------------------------------------------ bytes *)
Lemma be_value_app l x : be_value (l ++ [x]) = be_value l * 256 + x.
Proof. unfold be_value. rewrite fold_left_app. reflexivity. Qed.

Lemma be_bytes_spec w : forall z, 0 <= z ->
  be_value (be_bytes w z) = z mod 256 ^ Z.of_nat w /\ List.length (be_bytes w z) = w.
Proof.
  induction w as [|w IH]; intros z Hz.
  - cbn. rewrite Z.mod_1_r. split; reflexivity.
  - cbn [be_bytes]. assert (Hq : 0 <= z / 256) by (apply Z.div_pos; lia).
    destruct (IH _ Hq) as [V L]. split.
    + rewrite be_value_app, V. rewrite Nat2Z.inj_succ, Z.pow_succ_r by lia.
      assert (0 < 256 ^ Z.of_nat w) by (apply Z.pow_pos_nonneg; lia).
      rewrite Z.rem_mul_r by lia. lia.
    + rewrite app_length, L. cbn. lia.
Qed.

Lemma min_bytes_fuel_spec fuel : forall z, 0 <= z < 256 ^ Z.of_nat fuel ->
  be_value (min_bytes_fuel fuel z) = z.
Proof.
  induction fuel as [|f IH]; intros z Hz.
  - cbn in Hz. cbn. replace (z <=? 0) with true by lia. cbn. lia.
  - cbn [min_bytes_fuel]. destruct (z <=? 0) eqn:E; [cbn; lia|].
    rewrite be_value_app. rewrite IH.
    + lia.
    + rewrite Nat2Z.inj_succ, Z.pow_succ_r in Hz by lia. split; [apply Z.div_pos; lia|].
      apply Z.div_lt_upper_bound; lia.
Qed.

Lemma min_bytes_spec z : 0 <= z -> be_value (min_bytes z) = z.
Proof.
  intro Hz. unfold min_bytes. apply min_bytes_fuel_spec. split; [assumption|].
  destruct (Z.eq_dec z 0) as [->|Hnz]; [cbn; lia|].
  pose proof (Z.log2_nonneg z) as Hl.
  rewrite Nat2Z.inj_succ, Z2Nat.id by lia.
  pose proof (Z.log2_spec z ltac:(lia)) as [_ Hu].
  assert (2 ^ Z.succ (Z.log2 z) <= 256 ^ Z.succ (Z.log2 z)) by (apply Z.pow_le_mono_l; lia).
  lia.
Qed.

(* ------------------------------------------------------------------ numbers *)
Lemma dec_bigint_cbig z : dec_bigint (cbig z) = Ok z.
Proof.
  unfold cbig. destruct (z <? 0) eqn:E; cbn [dec_bigint].
  - rewrite min_bytes_spec by lia. f_equal. lia.
  - rewrite min_bytes_spec by lia. reflexivity.
Qed.

Lemma dec_int64_cint z : - 2 ^ 63 <= z < 2 ^ 63 -> dec_int64 (cint z) = Ok z.
Proof.
  intro H. unfold cint. destruct (z <? 0) eqn:E; cbn [dec_int64].
  - replace (-1 - z <? 2 ^ 63) with true by lia. f_equal. lia.
  - replace (z <? 2 ^ 63) with true by lia. reflexivity.
Qed.

Lemma dec_uint64_cint z : 0 <= z -> dec_uint64 (cint z) = Ok z.
Proof. intro H. unfold cint. replace (z <? 0) with false by lia. reflexivity. Qed.

Lemma dec_num_enc_num k z : nk_in_range k z = true -> dec_num k (enc_num k z) = Ok z.
Proof.
  intro Hr. pose proof Hr as Hr'. unfold nk_in_range in Hr'.
  destruct k; cbn [nk_min nk_max] in Hr'; unfold dec_num, enc_num;
    try (rewrite dec_bigint_cbig; cbn [bind]; try rewrite Hr; reflexivity);
    try (rewrite dec_int64_cint by lia; cbn [bind]; rewrite Hr; reflexivity);
    try (rewrite dec_uint64_cint by lia; cbn [bind]; rewrite Hr; reflexivity).
  - (* Fix128 *)
    change (2 ^ 127) with 170141183460469231731687303715884105728 in *.
    change (2 ^ 128) with 340282366920938463463374607431768211456.
    change (2 ^ 64) with 18446744073709551616.
    f_equal. destruct (_ <? _) eqn:E; lia.
  - (* UFix128 *)
    change (2 ^ 128) with 340282366920938463463374607431768211456 in *.
    change (2 ^ 64) with 18446744073709551616.
    f_equal. lia.
Qed.

Lemma find_nkind_name k : find_nkind (nk_name k) = Some k.
Proof. destruct k; reflexivity. Qed.

(* ------------------------------------------------------------------ types of the fragment *)
Definition is_opt (t : xty) : bool := match t with TOptional _ => true | _ => false end.

(* static types of the fragment: no nil, no intersection / function / reference types; nominal
   types by reference *)
Fixpoint tfrag (t : xty) : Prop :=
  match t with
  | TSimple _ | TRef _ => True
  | TOptional t1 | TVarArray t1 | TConstArray _ t1 | TRange t1 => tfrag t1
  | TDict k v => tfrag k /\ tfrag v
  | TCapability b => ty_equal (TCapability b) (TCapability b) = true
  | _ => False
  end.

Lemma ty_equal_refl t : tfrag t -> ty_equal t t = true.
Proof.
  induction t; cbn [tfrag ty_equal]; intro H; try contradiction; try (apply str_eqb_refl); auto.
  - rewrite IHt by assumption. apply Z.eqb_refl.
  - destruct H. rewrite IHt1, IHt2 by assumption. reflexivity.
Qed.

(* lists *)
Lemma mapM_Forall2 {A B} (f : A -> res B) l : forall r, mapM f l = Ok r -> Forall2 (fun x y => f x = Ok y) l r.
Proof.
  induction l as [|x l IH]; intros r H; cbn in H.
  - inversion H. constructor.
  - destruct (f x) eqn:E; [|discriminate]. cbn in H. destruct (mapM f l); [|discriminate].
    cbn in H. inversion H; subst. constructor; auto.
Qed.

Lemma Forall2_len {A B} (R : A -> B -> Prop) l r : Forall2 R l r -> List.length l = List.length r.
Proof. induction 1; cbn; congruence. Qed.

Lemma mapM_of_Forall2 {A B C} (g : B -> res C) (h : A -> C) (l : list A) (r : list B) :
  Forall2 (fun x y => g y = Ok (h x)) l r -> mapM g r = Ok (map h l).
Proof. induction 1; cbn; [reflexivity|]. rewrite H. cbn. rewrite IHForall2. reflexivity. Qed.

Lemma insert_by_map {A B} (f : A -> B) (le : A -> A -> bool) (le' : B -> B -> bool) :
  (forall x y, le' (f x) (f y) = le x y) ->
  forall x l, map f (insert_by le x l) = insert_by le' (f x) (map f l).
Proof.
  intros H x l. induction l as [|y r IH]; cbn; [reflexivity|].
  rewrite H. destruct (le x y); cbn; [reflexivity|]. rewrite IH. reflexivity.
Qed.

Lemma sort_by_map {A B} (f : A -> B) (le : A -> A -> bool) (le' : B -> B -> bool) :
  (forall x y, le' (f x) (f y) = le x y) ->
  forall l, map f (sort_by le l) = sort_by le' (map f l).
Proof.
  intros H l. induction l as [|x r IH]; cbn; [reflexivity|].
  rewrite (insert_by_map f le le' H). rewrite IH. reflexivity.
Qed.

Section RT.
  Variable sid : str -> option Z.
  Variable env : str -> option xty.
  Variable tids : list str.
  Variable valid_char : str -> bool.
  Notation enc := (enc_value sid env mode_default tids).
  Notation dec := (dec_value valid_char env).

  Definition keyb (kt : xty) (k : xval) : list Z :=
    match enc kt k with Ok c => cbor_bytes c | Err _ => [] end.

  (* the decoded form: dictionary entries in the order of their encoded keys *)
  Fixpoint cnorm (v : xval) : xval :=
    match v with
    | VOptional (Some v1) => VOptional (Some (cnorm v1))
    | VArray t l => VArray t (map cnorm l)
    | VDict t l =>
        let kt := match t with TDict kt _ => kt | _ => TNil end in
        let items := map (fun kv => (keyb kt (fst kv), (cnorm (fst kv), cnorm (snd kv)))) l in
        VDict t (map snd (if Nat.ltb 1 (List.length l)
                          then sort_by (fun x y => bytes_le (fst x) (fst y)) items else items))
    | VRange t a b c => VRange t (cnorm a) (cnorm b) (cnorm c)
    | VComposite k tid e f i vs => VComposite k tid e f i (map cnorm vs)
    | _ => v
    end.

  Definition all_typed (P : xval -> Prop) (l : list xval) : Prop := fold_right (fun x acc => P x /\ acc) True l.

  (* v is a value of exactly the static type st, inside the modelled fragment; excluded are the
     input classes of the known findings: nil of a nested optional type, some(()) *)
  Fixpoint vtyped (st : xty) (v : xval) {struct v} : Prop :=
    match v with
    | VVoid => st = TSimple (sc "Void")
    | VBool _ => st = TSimple (sc "Bool")
    | VString _ => st = TSimple (sc "String")
    | VChar s => st = TSimple (sc "Character") /\ valid_char s = true
    | VAddress a => st = TSimple (sc "Address") /\ 0 <= a < 2 ^ 64
    | VNum k z => st = TSimple (nk_name k) /\ nk_in_range k z = true
    | VPath d _ => st = TSimple (path_type_name d) /\ 1 <= d <= 3
    | VOptional None => match st with TOptional t1 => is_opt t1 = false | _ => False end
    | VOptional (Some v1) => match st with TOptional t1 => vtyped t1 v1 /\ v1 <> VVoid | _ => False end
    | VArray t l =>
        t = st /\
        match st with
        | TVarArray et => fold_right (fun x acc => vtyped et x /\ acc) True l
        | TConstArray n et => Z.of_nat (List.length l) = n /\ fold_right (fun x acc => vtyped et x /\ acc) True l
        | _ => False
        end
    | VDict t l =>
        t = st /\
        match st with
        | TDict kt vt => fold_right (fun kv acc => vtyped kt (fst kv) /\ vtyped vt (snd kv) /\ acc) True l
        | _ => False
        end
    | VRange t a b c =>
        t = st /\ match st with TRange et => vtyped et a /\ vtyped et b /\ vtyped et c | _ => False end
    | VCap id addr b => st = TCapability b /\ 0 <= id < 2 ^ 64 /\ 0 <= addr < 2 ^ 64
    | VComposite k tid extra ftys inits fvals =>
        st = TRef tid /\ env tid = Some (TComposite k tid extra ftys inits) /\ ckind_is_interface k = false /\
        (fix go (fts : list (str * xty)) (vs : list xval) {struct vs} : Prop :=
           match vs, fts with
           | [], [] => True
           | v1 :: vr, ft :: fr => vtyped (snd ft) v1 /\ tfrag (snd ft) /\ go fr vr
           | _, _ => False
           end) ftys fvals
    | VType _ | VFunc _ => False
    end.

  Lemma sort_if_false {A} (le : A -> A -> bool) l : sort_if false le l = l.
  Proof. reflexivity. Qed.

  (* the runtime type of a typed value is equal to itself (cadence's Equal) *)
  Lemma rt_refl : forall v st, vtyped st v -> tfrag st -> ty_equal (ccf_type_of v) (ccf_type_of v) = true.
  Proof.
    induction v using xval_ind2; intros st Ht Hf; cbn [vtyped] in Ht; cbn [ccf_type_of type_of ty_equal];
      try (apply str_eqb_refl); try reflexivity.
    - destruct st; try contradiction. destruct Ht as [Ht _]. eapply IHv; eauto.
    - destruct Ht as [-> _]. apply ty_equal_refl; assumption.
    - destruct Ht as [-> _]. apply ty_equal_refl; assumption.
    - destruct Ht as [-> _]. apply ty_equal_refl; assumption.
    - destruct Ht as [-> _]. cbn [tfrag] in Hf. exact Hf.
    - contradiction.
  Qed.

  Lemma is_optional_never_opt t : is_optional_never t = true -> is_optional_never (TOptional t) = true.
  Proof. intro H. cbn. rewrite H. apply orb_true_r. Qed.

  (* the static type never forces an inline type for a typed value *)
  Lemma need_rt_false : forall v st, vtyped st v -> tfrag st ->
    ty_equal st (ccf_type_of v) = true \/ (is_opt st = true /\ is_optional_never (ccf_type_of v) = true).
  Proof.
    induction v using xval_ind2; intros st Ht Hf; cbn [vtyped] in Ht; cbn [ccf_type_of type_of].
    - subst. left. reflexivity.
    - subst. left. reflexivity.
    - subst. left. reflexivity.
    - destruct Ht as [-> _]. left. reflexivity.
    - destruct Ht as [-> _]. left. reflexivity.
    - destruct Ht as [-> _]. left. cbn. apply str_eqb_refl.
    - destruct st; try contradiction. right. split; reflexivity.
    - destruct st; try contradiction. destruct Ht as [Ht _]. cbn [tfrag] in Hf.
      destruct (IHv _ Ht Hf) as [He|[Ho Hn]].
      + left. cbn. exact He.
      + right. split; [reflexivity|]. apply is_optional_never_opt. exact Hn.
    - destruct Ht as [-> _]. left. apply ty_equal_refl; assumption.
    - destruct Ht as [-> _]. left. apply ty_equal_refl; assumption.
    - destruct Ht as [-> _]. left. apply ty_equal_refl; assumption.
    - destruct Ht as [-> _]. left. cbn. apply str_eqb_refl.
    - destruct Ht as [-> _]. left. cbn. apply str_eqb_refl.
    - contradiction.
    - destruct Ht as [-> _]. left. cbn [tfrag] in Hf. exact Hf.
    - contradiction.
  Qed.

  Lemma need_rt_of st rt :
    st <> TNil ->
    ty_equal st rt = true \/ (is_opt st = true /\ is_optional_never rt = true) -> need_rt st rt = false.
  Proof.
    intros Hn [H|[Ho Hr]]; destruct st; cbn [need_rt is_tnil]; try contradiction; try discriminate;
      try (rewrite H; reflexivity).
    destruct (ty_equal (TOptional st) rt); [reflexivity|]. rewrite Hr. reflexivity.
  Qed.

  Lemma tfrag_not_nil st : tfrag st -> st <> TNil.
  Proof. intros H ->. exact H. Qed.

  (* the encoding of a value does not depend on the static type as long as no inline type is needed *)
  Lemma enc_static_indep v st st' c :
    need_rt st (ccf_type_of v) = false -> need_rt st' (ccf_type_of v) = false ->
    enc st v = Ok c -> enc st' v = Ok c.
  Proof.
    intros H1 H2 H.
    destruct v as [| | | | | |[v1|]| | | | | | | |]; cbn [enc_value] in *;
      rewrite H1 in H; rewrite H2; exact H.
  Qed.

  (* ---- unfolding of the decoder *)
  Lemma dec_simple_eq c n : dec c (TSimple n) = dec_simple valid_char c n.
  Proof. destruct c; reflexivity. Qed.
  Lemma dec_optional_eq c t1 :
    dec c (TOptional t1) = if is_cnil c then Ok (nil_optional t1)
                           else let* v := dec c t1 in Ok (VOptional (Some v)).
  Proof. destruct c; reflexivity. Qed.

  Lemma dec_simple_num k c :
    dec_simple valid_char c (nk_name k) = let* z := dec_num k c in Ok (VNum k z).
  Proof. destruct k; reflexivity. Qed.

  Lemma nil_optional_nonopt t : is_opt t = false -> nil_optional t = VOptional None.
  Proof. destruct t; cbn; try reflexivity. discriminate. Qed.

  Lemma ty_equal_not_nil t : ty_equal t t = true -> t <> TNil.
  Proof. intros H ->. discriminate. Qed.

  Lemma enc_typed_need v st : vtyped st v -> tfrag st -> need_rt st (ccf_type_of v) = false.
  Proof. intros Ht Hf. apply need_rt_of; [apply tfrag_not_nil; assumption|apply need_rt_false; assumption]. Qed.

  Lemma enc_self_need v st : vtyped st v -> tfrag st -> need_rt (ccf_type_of v) (ccf_type_of v) = false.
  Proof.
    intros Ht Hf. pose proof (rt_refl _ _ Ht Hf) as Hr.
    apply need_rt_of; [apply ty_equal_not_nil; assumption|left; assumption].
  Qed.

  (* field loops *)
  Lemma fields_roundtrip (P : xval -> Prop) fvals :
    Forall (fun v => forall st c, vtyped st v -> tfrag st -> enc st v = Ok c -> dec c st = Ok (cnorm v)) fvals ->
    forall ftys fs,
    (fix go (fts : list (str * xty)) (vs : list xval) {struct vs} : Prop :=
       match vs, fts with
       | [], [] => True
       | v1 :: vr, ft :: fr => vtyped (snd ft) v1 /\ tfrag (snd ft) /\ go fr vr
       | _, _ => False
       end) ftys fvals ->
    enc_fields_with (enc_value sid env mode_default tids) ftys fvals = Ok fs ->
    dec_fields_with dec ftys (map snd fs) = Ok (map cnorm fvals).
  Proof.
    induction 1 as [|v r Hv _ IH]; intros ftys fs Ht He.
    - destruct ftys; [|contradiction]. cbn in He. inversion He. reflexivity.
    - destruct ftys as [|ft fr]; [contradiction|]. destruct Ht as (Htv & Hf & Hr).
      cbn [enc_fields_with] in He. destruct (enc (snd ft) v) as [c|] eqn:Ec; [|discriminate]. cbn [bind] in He.
      destruct (enc_fields_with (enc_value sid env mode_default tids) fr r) as [rs|] eqn:Er; [|discriminate].
      cbn [bind] in He. inversion He; subst. cbn [map dec_fields_with fst snd].
      rewrite (Hv _ _ Htv Hf Ec). cbn [bind]. rewrite (IH _ _ Hr Er). reflexivity.
  Qed.

  (* parallel lists stay parallel under insertion sort when the comparisons agree *)
  Lemma insert_by_Forall2 {A B} (S : A -> B -> Prop) (le : A -> A -> bool) (le' : B -> B -> bool) :
    (forall x y x' y', S x x' -> S y y' -> le x y = le' x' y') ->
    forall x x' l l', S x x' -> Forall2 S l l' -> Forall2 S (insert_by le x l) (insert_by le' x' l').
  Proof.
    intros H x x' l l' Hx HF. induction HF as [|y y' r r' Hy Hr IH]; cbn; [repeat constructor; assumption|].
    rewrite <- (H _ _ _ _ Hx Hy). destruct (le x y); repeat constructor; assumption.
  Qed.
  Lemma sort_by_Forall2 {A B} (S : A -> B -> Prop) (le : A -> A -> bool) (le' : B -> B -> bool) :
    (forall x y x' y', S x x' -> S y y' -> le x y = le' x' y') ->
    forall l l', Forall2 S l l' -> Forall2 S (sort_by le l) (sort_by le' l').
  Proof.
    intros H l l' HF. induction HF; cbn; [constructor|]. apply insert_by_Forall2; assumption.
  Qed.

  (* decoding the pairs of a dictionary whose keys are in non-decreasing order *)
  Lemma pairs_decode kt vt (q : list (list Z * (cbor * cbor))) (r : list (xval * xval)) :
    Forall2 (fun p d => fst p = cbor_bytes (fst (snd p)) /\
                        dec (fst (snd p)) kt = Ok (fst d) /\ dec (snd (snd p)) vt = Ok (snd d)) q r ->
    forall prev, keys_sorted_from prev (map fst q) = true ->
    dec_pairs_with dec kt vt prev (flat_map (fun p => [fst (snd p); snd (snd p)]) q) = Ok r.
  Proof.
    induction 1 as [|p d q r (Hk & Hdk & Hdv) _ IH]; intros prev Hs; [reflexivity|].
    cbn [map keys_sorted_from] in Hs. apply andb_true_iff in Hs as [Hs1 Hs2].
    cbn [flat_map app dec_pairs_with]. rewrite <- Hk, Hs1. cbn [negb].
    rewrite Hdk, Hdv. cbn [bind]. rewrite (IH _ Hs2). destruct d; reflexivity.
  Qed.

  Theorem ccf_value_roundtrip : forall v st c,
    vtyped st v -> tfrag st -> enc st v = Ok c ->
    dec c st = Ok (cnorm v) /\ (is_cnil c = true -> v = VVoid \/ is_opt st = true).
  Proof.
    induction v using xval_ind2; intros st c Ht Hf He;
      pose proof (enc_typed_need _ _ Ht Hf) as Hn; cbn [enc_value] in He; rewrite Hn in He;
      cbn [vtyped] in Ht.
    - (* Void *) subst st. cbn [bind] in He. inversion He; subst. split; [reflexivity|auto].
    - (* Bool *) subst st. cbn [bind] in He. inversion He; subst. split; [destruct b; reflexivity|].
      destruct b; discriminate.
    - (* String *) subst st. cbn [bind] in He. inversion He; subst. split; [reflexivity|discriminate].
    - (* Char *) destruct Ht as [-> Hv]. cbn [bind] in He. inversion He; subst.
      split; [|discriminate]. rewrite dec_simple_eq. unfold dec_simple.
      change (str_eqb (sc "Character") (sc "Void")) with false.
      change (str_eqb (sc "Character") (sc "Bool")) with false.
      change (str_eqb (sc "Character") (sc "String")) with false.
      change (str_eqb (sc "Character") (sc "Character")) with true. cbn iota. rewrite Hv. reflexivity.
    - (* Address *) destruct Ht as [-> Ha].
      destruct (be_bytes_spec 8 a ltac:(lia)) as [V L]. set (bb := be_bytes 8 a) in *.
      cbn [bind] in He. inversion He; subst.
      split; [|discriminate]. rewrite dec_simple_eq. unfold dec_simple.
      change (str_eqb (sc "Address") (sc "Void")) with false.
      change (str_eqb (sc "Address") (sc "Bool")) with false.
      change (str_eqb (sc "Address") (sc "String")) with false.
      change (str_eqb (sc "Address") (sc "Character")) with false.
      change (str_eqb (sc "Address") (sc "Address")) with true. cbn iota.
      rewrite L, V. cbn [Nat.eqb].
      change (256 ^ Z.of_nat 8) with (2 ^ 64). rewrite Z.mod_small by lia. reflexivity.
    - (* Num *) destruct Ht as [-> Hr]. cbn [bind] in He. inversion He; subst.
      rewrite dec_simple_eq, dec_simple_num, dec_num_enc_num by assumption. split; [reflexivity|].
      intro Hc. exfalso. destruct k; cbn in Hc; unfold cint, cbig in Hc;
        try (destruct (z <? 0); discriminate); discriminate.
    - (* None *) destruct st; try contradiction. cbn [bind] in He. inversion He; subst.
      rewrite dec_optional_eq. cbn [is_cnil cnil]. change (22 =? 22) with true. cbn iota.
      rewrite nil_optional_nonopt by assumption. split; [reflexivity|auto].
    - (* Some *) destruct st; try contradiction. destruct Ht as [Htv Hnv]. cbn [tfrag] in Hf.
      destruct (enc (ccf_type_of v) v) as [body|] eqn:Eb; [|discriminate]. cbn [bind] in He. inversion He; subst c.
      assert (Eb' : enc st v = Ok body).
      { eapply enc_static_indep; [| |exact Eb]; [eapply enc_self_need; eauto|apply enc_typed_need; assumption]. }
      destruct (IHv _ _ Htv Hf Eb') as [Hd Hnil].
      rewrite dec_optional_eq. split; [|auto].
      destruct (is_cnil body) eqn:Ec.
      + destruct (Hnil eq_refl) as [->|Ho]; [contradiction|].
        destruct st; try discriminate. cbn [nil_optional cnorm].
        rewrite dec_optional_eq, Ec in Hd. inversion Hd. reflexivity.
      + rewrite Hd. reflexivity.
    - (* Array *) destruct Ht as [-> Ht]. destruct st; try contradiction.
      + cbn [is_tnil elem_type] in He.
        destruct (mapM (enc st) l) as [cs|] eqn:Em; [|discriminate]. cbn [bind] in He. inversion He; subst c.
        split; [|discriminate]. cbn [tfrag] in Hf.
        change (dec (CArr cs) (TVarArray st)) with
          (let* vs := mapM (fun c1 => dec c1 st) cs in Ok (VArray (TVarArray st) vs)).
        rewrite (mapM_of_Forall2 (fun c1 => dec c1 st) cnorm l cs); [reflexivity|].
        apply mapM_Forall2 in Em. clear - Em H Ht Hf. induction Em as [|x y l r Hx _ IH]; constructor.
        * inversion H; subst. cbn [fold_right] in Ht. destruct Ht as [Hx1 _]. eapply H2; eauto.
        * inversion H; subst. cbn [fold_right] in Ht. destruct Ht as [_ Hr]. apply IH; assumption.
      + destruct Ht as [Hlen Ht]. cbn [is_tnil elem_type] in He.
        destruct (mapM (enc st) l) as [cs|] eqn:Em; [|discriminate]. cbn [bind] in He. inversion He; subst c.
        split; [|discriminate]. cbn [tfrag] in Hf.
        pose proof (mapM_Forall2 _ _ _ Em) as HF.
        assert (Hl : List.length cs = List.length l) by (symmetry; eapply Forall2_len; exact HF).
        change (dec (CArr cs) (TConstArray n st)) with
          (if negb (Z.of_nat (List.length cs) =? n) then Err UserOther else
           let* vs := mapM (fun c1 => dec c1 st) cs in Ok (VArray (TConstArray n st) vs)).
        rewrite Hl. replace (Z.of_nat (List.length l) =? n) with true by lia. cbn [negb].
        rewrite (mapM_of_Forall2 (fun c1 => dec c1 st) cnorm l cs); [reflexivity|].
        clear - HF H Ht Hf. induction HF as [|x y l r Hx _ IH]; constructor.
        * inversion H; subst. cbn [fold_right] in Ht. destruct Ht as [Hx1 _]. eapply H2; eauto.
        * inversion H; subst. cbn [fold_right] in Ht. destruct Ht as [_ Hr]. apply IH; assumption.
    - (* Dict *) destruct Ht as [-> Ht]. destruct st; try contradiction. cbn [tfrag] in Hf. destruct Hf as [Hfk Hfv].
      set (f := enc_pair_with (enc_value sid env mode_default tids) st1 st2) in *.
      destruct (mapM f l) as [ps|] eqn:Em; [|discriminate]. cbn [bind] in He. inversion He; subst c. clear He.
      split; [|discriminate].
      change (dec (CArr ?x) (TDict st1 st2)) with
        (let* ps0 := dec_pairs_with dec st1 st2 [] x in Ok (VDict (TDict st1 st2) ps0)).
      cbn [cnorm].
      set (items := map (fun kv : xval * xval => (keyb st1 (fst kv), (cnorm (fst kv), cnorm (snd kv)))) l).
      (* the encoded pairs and the expected decoded pairs are parallel lists *)
      assert (HP : Forall2 (fun (p : list Z * (cbor * cbor)) (i : list Z * (xval * xval)) =>
                      fst p = fst i /\ fst p = cbor_bytes (fst (snd p)) /\
                      dec (fst (snd p)) st1 = Ok (fst (snd i)) /\ dec (snd (snd p)) st2 = Ok (snd (snd i))) ps items).
      { apply mapM_Forall2 in Em. unfold items. clear - Em H Ht Hfk Hfv.
        induction Em as [|kv p l r Hp _ IH]; cbn [map]; constructor.
        - inversion H as [|? ? [Hk Hv] _]; subst. cbn [fold_right] in Ht. destruct Ht as (Htk & Htv & _).
          unfold f, enc_pair_with in Hp.
          destruct (enc st1 (fst kv)) as [ck|] eqn:Ek; [|discriminate]. cbn [bind] in Hp.
          destruct (enc st2 (snd kv)) as [cv|] eqn:Ev; [|discriminate]. cbn [bind] in Hp. inversion Hp; subst p.
          cbn [fst snd]. unfold keyb. rewrite Ek. repeat split.
          + eapply Hk; eauto.
          + eapply Hv; eauto.
        - inversion H; subst. cbn [fold_right] in Ht. destruct Ht as (_ & _ & Hr). apply IH; assumption. }
      assert (Hlen : List.length ps = List.length l).
      { apply Forall2_len in HP. unfold items in HP. rewrite map_length in HP. exact HP. }
      rewrite Hlen.
      set (sp := if Nat.ltb 1 (List.length l) then sort_by (fun x y => bytes_le (fst x) (fst y)) ps else ps).
      set (si := if Nat.ltb 1 (List.length l) then sort_by (fun x y : list Z * (xval * xval) => bytes_le (fst x) (fst y)) items else items).
      assert (HS : Forall2 (fun (p : list Z * (cbor * cbor)) (i : list Z * (xval * xval)) =>
                      fst p = fst i /\ fst p = cbor_bytes (fst (snd p)) /\
                      dec (fst (snd p)) st1 = Ok (fst (snd i)) /\ dec (snd (snd p)) st2 = Ok (snd (snd i))) sp si).
      { unfold sp, si. destruct (Nat.ltb 1 (List.length l)); [|exact HP].
        apply sort_by_Forall2; [|exact HP].
        intros x y x' y' (E1 & _) (E2 & _). rewrite E1, E2. reflexivity. }
      assert (Hsorted : keys_sorted_from [] (map fst sp) = true).
      { unfold sp. destruct (Nat.ltb 1 (List.length l)) eqn:L.
        - apply (dict_check_accepts_sorted ps).
        - apply Nat.ltb_ge in L. rewrite <- Hlen in L. destruct ps as [|p [|p2 r]]; cbn in L; try lia; reflexivity. }
      rewrite (pairs_decode st1 st2 sp (map snd si)); [reflexivity| |exact Hsorted].
      clear - HS. induction HS as [|p i q r (E1 & E2 & E3 & E4) _ IH]; cbn [map]; constructor; [|exact IH].
      repeat split; assumption.
    - (* Range *) destruct Ht as [-> Ht]. destruct st; try contradiction. destruct Ht as (Ha & Hb & Hc).
      cbn [is_tnil elem_type] in He. cbn [tfrag] in Hf.
      destruct (enc st v1) as [ca|] eqn:E1; [|discriminate]. cbn [bind] in He.
      destruct (enc st v2) as [cb|] eqn:E2; [|discriminate]. cbn [bind] in He.
      destruct (enc st v3) as [cc|] eqn:E3; [|discriminate]. cbn [bind] in He. inversion He; subst c.
      split; [|discriminate].
      change (dec (CArr [ca; cb; cc]) (TRange st)) with
        (let* a := dec ca st in let* b := dec cb st in let* c3 := dec cc st in Ok (VRange (TRange st) a b c3)).
      rewrite (proj1 (IHv1 _ _ Ha Hf E1)), (proj1 (IHv2 _ _ Hb Hf E2)), (proj1 (IHv3 _ _ Hc Hf E3)). reflexivity.
    - (* Composite *) destruct Ht as (-> & Henv & Hk & Hfields).
      destruct (enc_fields_with (enc_value sid env mode_default tids) ft fv) as [fs|] eqn:Ef; [|discriminate].
      cbn [bind] in He. rewrite sort_if_false in He. inversion He; subst c. split; [|discriminate].
      assert (Hd : dec (CArr (map snd fs)) (TRef tid) =
                   match env tid with
                   | Some (TComposite k0 _ extra fields inits) =>
                       if ckind_is_interface k0 then Err Internal else
                       let* vs := dec_fields_with dec fields (map snd fs) in
                       Ok (VComposite k0 tid extra fields inits vs)
                   | _ => Err Internal
                   end) by reflexivity.
      rewrite Hd, Henv, Hk.
      rewrite (fields_roundtrip (fun _ => True) fv); [reflexivity| |exact Hfields|exact Ef].
      eapply Forall_impl; [|exact H]. intros x Hx st0 c0 T F E. exact (proj1 (Hx _ _ T F E)).
    - (* Path *) destruct Ht as [-> Hd]. cbn [bind] in He. inversion He; subst c. split; [|discriminate].
      rewrite dec_simple_eq.
      assert (Hc : d = 1 \/ d = 2 \/ d = 3) by lia. destruct Hc as [Hc | [Hc | Hc]]; subst d; reflexivity.
    - (* Type *) contradiction.
    - (* Cap *) destruct Ht as (-> & Hi & Ha).
      destruct (be_bytes_spec 8 a ltac:(lia)) as [V L]. set (bb := be_bytes 8 a) in *.
      cbn [bind] in He. inversion He; subst c. split; [|discriminate].
      change (dec (CArr [CBytes bb; CUint i]) (TCapability b)) with
        (if Nat.eqb (List.length bb) 8 then Ok (VCap i (be_value bb) b) else Err UserOther).
      rewrite L, V. cbn [Nat.eqb]. change (256 ^ Z.of_nat 8) with (2 ^ 64). rewrite Z.mod_small by lia. reflexivity.
    - (* Func *) contradiction.
  Qed.
End RT.
