(* Canonical form of the deterministic CCF encoding: the encoder model does not depend on the
   order of dictionary entries, intersection members, entitlements, or on the order in which the
   type definitions were collected. *)
From CV Require Import C42.Ccf C42.SortProofs C41.StrProofs C41.TypeProofs.
From Coq Require Import Permutation Sorting.Sorted.
Local Open Scope Z_scope.

Lemma mapM_perm {A B} (f : A -> res B) (l1 l2 : list A) :
  Permutation l1 l2 -> forall r1, mapM f l1 = Ok r1 ->
  exists r2, mapM f l2 = Ok r2 /\ Permutation r1 r2.
Proof.
  induction 1 as [|x l l' _ IH|x y l|l l' l'' _ IH1 _ IH2]; intros r1 H.
  - exists r1. split; [assumption|reflexivity].
  - cbn in *. destruct (f x) as [b|e]; [|discriminate]. cbn in *.
    destruct (mapM f l) as [bs|e]; [|discriminate]. cbn in H. inversion H; subst.
    destruct (IH _ eq_refl) as (r2 & -> & P). exists (b :: r2). split; [reflexivity|constructor; assumption].
  - cbn in *. destruct (f y) as [by_|e]; [|discriminate]. cbn in *.
    destruct (f x) as [bx|e]; [|discriminate]. cbn in *.
    destruct (mapM f l) as [bs|e]; [|discriminate]. cbn in H. inversion H; subst.
    exists (bx :: by_ :: bs). split; [reflexivity|apply perm_swap].
  - destruct (IH1 _ H) as (r2 & H2 & P1). destruct (IH2 _ H2) as (r3 & H3 & P2).
    exists r3. split; [assumption|eapply Permutation_trans; eassumption].
Qed.

Lemma perm_short {A} (l1 l2 : list A) :
  Permutation l1 l2 -> (List.length l1 <= 1)%nat -> l1 = l2.
Proof.
  intros P H. destruct l1 as [|x [|y r]]; cbn in H; try lia.
  - apply Permutation_nil in P. congruence.
  - apply Permutation_length_1_inv in P. congruence.
Qed.

Lemma NoDup_map_inj {A B} (f : A -> B) (l : list A) x y :
  NoDup (map f l) -> In x l -> In y l -> f x = f y -> x = y.
Proof.
  induction l as [|a l IH]; cbn; intros Hnd Hx Hy Hf; [contradiction|].
  inversion Hnd as [|? ? Hnin Hnd']; subst.
  destruct Hx as [->|Hx], Hy as [->|Hy]; auto.
  - exfalso. apply Hnin. rewrite Hf. apply in_map; assumption.
  - exfalso. apply Hnin. rewrite <- Hf. apply in_map; assumption.
Qed.

Section Canon.
  Variable sid : str -> option Z.
  Variable env : str -> option xty.

  (* entitlement sets *)
  Theorem entitlements_canonical tv cj e1 e2 :
    Permutation e1 e2 ->
    enc_auth mode_det tv (ASet cj e1) = enc_auth mode_det tv (ASet cj e2).
  Proof.
    intro P. unfold enc_auth, sort_if. cbn [sort_ents mode_det].
    rewrite (sort_by_canonical lenlex_le lenlex_le_total lenlex_le_trans e1 e2 P); [reflexivity|].
    intros x y _ _. apply lenlex_le_antisym.
  Qed.

  (* type definitions: the order of discovery does not matter *)
  Theorem typedefs_canonical m d1 d2 v :
    Permutation d1 d2 -> ccf_encode sid env m d1 v = ccf_encode sid env m d2 v.
  Proof.
    intro P. unfold ccf_encode.
    assert (Hs : match d1 with _ :: _ :: _ => sort_by lenlex_le d1 | _ => d1 end =
                 match d2 with _ :: _ :: _ => sort_by lenlex_le d2 | _ => d2 end).
    { destruct d1 as [|a [|b r]].
      - apply Permutation_nil in P. subst. reflexivity.
      - apply Permutation_length_1_inv in P. subst. reflexivity.
      - assert (L := Permutation_length P). destruct d2 as [|a' [|b' r']]; try discriminate.
        apply (sort_by_canonical lenlex_le lenlex_le_total lenlex_le_trans); [assumption|].
        intros x y _ _. apply lenlex_le_antisym. }
    rewrite Hs. reflexivity.
  Qed.

  (* dictionaries: entries in any order give the same encoding (keys have distinct encodings) *)
  Theorem dictionary_canonical m tids st t l1 l2 c :
    Permutation l1 l2 ->
    NoDup (map (fun kv => match t with
                          | TDict kt _ => option_map cbor_bytes
                              (match enc_value sid env m tids kt (fst kv) with Ok ck => Some ck | Err _ => None end)
                          | _ => None
                          end) l1) ->
    enc_value sid env m tids st (VDict t l1) = Ok c ->
    enc_value sid env m tids st (VDict t l2) = Ok c.
  Proof.
    intros P Hnd H. cbn [enc_value ccf_type_of type_of] in *.
    destruct t; try discriminate.
    set (f := enc_pair_with (enc_value sid env m tids) t1 t2) in *.
    destruct (mapM f l1) as [ps1|e] eqn:E1; [|discriminate].
    destruct (mapM_perm f l1 l2 P _ E1) as (ps2 & E2 & PP). rewrite E2.
    cbn [bind] in *.
    assert (Hlen : List.length ps1 = List.length ps2) by (apply Permutation_length; assumption).
    assert (Hsorted :
      (if Nat.ltb 1 (List.length ps1) then sort_by (fun x y => bytes_le (fst x) (fst y)) ps1 else ps1) =
      (if Nat.ltb 1 (List.length ps2) then sort_by (fun x y => bytes_le (fst x) (fst y)) ps2 else ps2)).
    { rewrite <- Hlen. destruct (Nat.ltb 1 (List.length ps1)) eqn:L.
      - apply (sort_by_canonical _ (fun a b => bytes_le_total (fst a) (fst b))
                 (fun a b c => bytes_le_trans (fst a) (fst b) (fst c))); [assumption|].
        intros x y Hx Hy H1 H2.
        assert (Hk : fst x = fst y) by (apply bytes_le_antisym; assumption).
        (* distinct encoded keys: the entries are equal *)
        assert (Hnd1 : NoDup (map fst ps1)).
        { clear - Hnd E1. revert ps1 E1. induction l1 as [|kv r IH]; intros ps1 E1; cbn in *.
          - inversion E1. constructor.
          - unfold f in E1 at 1. unfold enc_pair_with in E1 at 1. cbn [bind fst snd] in E1.
            destruct (enc_value sid env m tids t1 (fst kv)) as [ck|] eqn:Ek; [|discriminate]. cbn in E1.
            destruct (enc_value sid env m tids t2 (snd kv)) as [cv|]; [|discriminate]. cbn in E1.
            destruct (mapM f r) as [pr|] eqn:Er; [|discriminate]. cbn in E1. inversion E1; subst. cbn.
            inversion Hnd as [|? ? Hnin Hnd']; subst. constructor; [|apply IH; [assumption|reflexivity]].
            intro Hin. apply Hnin. clear - Hin Er.
            revert pr Er Hin. induction r as [|kv' r' IH']; intros pr Er Hin; cbn in *.
            + inversion Er; subst. contradiction.
            + unfold f in Er at 1. unfold enc_pair_with in Er at 1. cbn [bind fst snd] in Er.
              destruct (enc_value sid env m tids t1 (fst kv')) as [ck'|] eqn:Ek'; [|discriminate]. cbn in Er.
              destruct (enc_value sid env m tids t2 (snd kv')) as [cv'|]; [|discriminate]. cbn in Er.
              destruct (mapM f r') as [pr'|] eqn:Er'; [|discriminate]. cbn in Er. inversion Er; subst.
              cbn in Hin. destruct Hin as [Heq|Hin].
              * left. cbn. rewrite Heq. reflexivity.
              * right. eapply IH'; [reflexivity|exact Hin]. }
        eapply NoDup_map_inj; eassumption.
      - apply perm_short; [assumption|]. apply Nat.ltb_ge in L. lia. }
    rewrite <- Hsorted. exact H.
  Qed.

  (* intersection types (inline): members in any order, distinct type IDs *)
  Theorem intersection_canonical tids ts1 ts2 c :
    Permutation ts1 ts2 -> NoDup (map ty_id ts1) ->
    enc_inline sid mode_det tids (TIntersection ts1) = Ok c ->
    enc_inline sid mode_det tids (TIntersection ts2) = Ok c.
  Proof.
    intros P Hnd H. cbn [enc_inline] in *.
    set (f := fun t1 : xty => let* c := enc_inline sid mode_det tids t1 in Ok (ty_id t1, c)) in *.
    destruct (mapM f ts1) as [i1|e] eqn:E1; [|discriminate].
    destruct (mapM_perm f ts1 ts2 P _ E1) as (i2 & E2 & PP). rewrite E2. cbn [bind] in *.
    unfold sort_if in *. cbn [sort_inter mode_det] in *.
    assert (Hids : map fst i1 = map ty_id ts1).
    { clear - E1. revert i1 E1. induction ts1 as [|t r IH]; intros i1 E1; cbn in *.
      - inversion E1. reflexivity.
      - unfold f in E1 at 1. cbn in E1. destruct (enc_inline sid mode_det tids t); [|discriminate]. cbn in E1.
        destruct (mapM f r) eqn:Er; [|discriminate]. cbn in E1. inversion E1; subst. cbn. f_equal. apply IH. reflexivity. }
    rewrite <- (sort_by_canonical (by_key lenlex_le)
                 (fun a b => lenlex_le_total (fst a) (fst b))
                 (fun a b c => lenlex_le_trans (fst a) (fst b) (fst c)) i1 i2 PP); [exact H|].
    intros x y Hx Hy H1 H2. unfold by_key in *.
    assert (Hk : fst x = fst y) by (apply lenlex_le_antisym; assumption).
    rewrite <- Hids in Hnd. eapply NoDup_map_inj; eassumption.
  Qed.
End Canon.
