(* Concrete instances for C42: non-vacuity of the canonical-form theorems and witnesses showing
   that the CCF encoding is not injective (so no decoder round-trips every value). *)
From CV Require Import C42.Ccf C42.CcfDec C42.Cases C42.SortProofs C42.CcfProofs C42.CcfDecProofs.
From Coq Require Import String Permutation Lia.
Local Open Scope string_scope.
Local Open Scope Z_scope.
Local Open Scope list_scope.

Definition no_env (s : str) : option xty := None.
Definition tInt := TSimple (sc "Int").
Definition tStr := TSimple (sc "String").

(* a dictionary {String: Int} with keys of different encoded length, in two orders *)
Definition d_entries1 : list (xval * xval) :=
  [(VString (sc "b"), VNum NInt 1); (VString (sc "aa"), VNum NInt 2); (VString (sc "a"), VNum NInt 3);
   (VString [], VNum NInt 4)].
Definition d_entries2 : list (xval * xval) :=
  [(VString [], VNum NInt 4); (VString (sc "a"), VNum NInt 3); (VString (sc "b"), VNum NInt 1);
   (VString (sc "aa"), VNum NInt 2)].
Definition d_type := TDict tStr tInt.

Lemma ex_dict_same_bytes :
  d_entries1 <> d_entries2 /\
  ccf_encode ccf_sid no_env mode_det [] (VDict d_type d_entries1) =
  ccf_encode ccf_sid no_env mode_det [] (VDict d_type d_entries2) /\
  option_map cbor_bytes (match ccf_encode ccf_sid no_env mode_det [] (VDict d_type d_entries1) with Ok c => Some c | _ => None end)
  = Some (hx "d88282d88d82d88901d889048860c241046161c241036162c24101626161c24102").
Proof. split; [discriminate|]. split; vm_compute; reflexivity. Qed.

(* the decoder's key check on the encoder's order, and on a swapped pair *)
Lemma ex_dict_check :
  dict_keys_check [hx "60"; hx "6161"; hx "6162"; hx "626161"] = true /\
  dict_keys_check [hx "60"; hx "6162"; hx "6161"; hx "626161"] = false /\
  names_check [sc "a"; sc "b"; sc "aa"] = true /\ names_check [sc "aa"; sc "b"] = false /\
  names_check [sc "a"; sc "a"] = false.
Proof. vm_compute. repeat split. Qed.

(* ---- the encoding is not injective *)
(* nil and some(nil) of type Int?? *)
Definition tOptOptInt := TOptional (TOptional tInt).
Lemma nested_nil_same_encoding :
  VOptional None <> VOptional (Some (VOptional None)) /\
  enc_value ccf_sid no_env mode_default [] tOptOptInt (VOptional None) =
  enc_value ccf_sid no_env mode_default [] tOptOptInt (VOptional (Some (VOptional None))).
Proof. split; [discriminate|vm_compute; reflexivity]. Qed.

(* nil and some(()) of type Void? *)
Definition tOptVoid := TOptional (TSimple (sc "Void")).
Lemma optional_void_same_encoding :
  VOptional None <> VOptional (Some VVoid) /\
  enc_value ccf_sid no_env mode_default [] tOptVoid (VOptional None) =
  enc_value ccf_sid no_env mode_default [] tOptVoid (VOptional (Some VVoid)).
Proof. split; [discriminate|vm_compute; reflexivity]. Qed.

(* consequently no decoder (any function of the static type and the item) round-trips all values *)
Lemma no_decoder_roundtrips (dec : xty -> cbor -> res xval) :
  ~ (forall st v c, enc_value ccf_sid no_env mode_default [] st v = Ok c -> dec st c = Ok v).
Proof.
  intro H. destruct nested_nil_same_encoding as [Hne Heq].
  destruct (enc_value ccf_sid no_env mode_default [] tOptOptInt (VOptional None)) as [c|e] eqn:E.
  - pose proof (H _ _ _ E) as H1. symmetry in Heq. pose proof (H _ _ _ Heq) as H2. congruence.
  - vm_compute in E. discriminate.
Qed.


(* ---- a typed value of the fragment of the value round-trip theorem:
   struct S { m: {String: Int?}, a: [UInt8], c: Capability<&Int> } *)
Definition ex_env (s : str) : option xty :=
  if str_eqb s (sc "S.test.S")
  then Some (TComposite KStruct (sc "S.test.S") TNil
               [(sc "m", TDict tStr (TOptional tInt)); (sc "a", TVarArray (TSimple (sc "UInt8")));
                (sc "c", TCapability (TReference AUnauth tInt))] [])
  else None.
Definition any_char (s : str) : bool := true.
Definition ex_typed_value : xval :=
  VComposite KStruct (sc "S.test.S") TNil
    [(sc "m", TDict tStr (TOptional tInt)); (sc "a", TVarArray (TSimple (sc "UInt8")));
     (sc "c", TCapability (TReference AUnauth tInt))] []
    [VDict (TDict tStr (TOptional tInt))
       [(VString (sc "b"), VOptional (Some (VNum NInt (-5)))); (VString (sc "aa"), VOptional None);
        (VString [], VOptional (Some (VNum NInt (2 ^ 70))))];
     VArray (TVarArray (TSimple (sc "UInt8"))) [VNum NUInt8 255; VNum NUInt8 0];
     VCap 7 1 (TReference AUnauth tInt)].

Lemma ex_typed : vtyped ex_env any_char (TRef (sc "S.test.S")) ex_typed_value /\ tfrag (TRef (sc "S.test.S")).
Proof. cbn. repeat split; try reflexivity; try lia; discriminate. Qed.

Lemma ex_typed_roundtrip :
  exists c, enc_value ccf_sid ex_env mode_default [sc "S.test.S"] (TRef (sc "S.test.S")) ex_typed_value = Ok c /\
            dec_value any_char ex_env c (TRef (sc "S.test.S")) =
              Ok (cnorm ccf_sid ex_env [sc "S.test.S"] ex_typed_value) /\
            cnorm ccf_sid ex_env [sc "S.test.S"] ex_typed_value <> ex_typed_value.
Proof. eexists. split; [vm_compute; reflexivity|]. split; [vm_compute; reflexivity|]. vm_compute. discriminate. Qed.
