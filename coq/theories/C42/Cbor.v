(* CBOR (RFC 8949) data items as used by CCF: definite lengths only, and their canonical
   serialisation (shortest heads).  The byte-level decoder (fxamacker/cbor) is outside the model. *)
From CV Require Export C41.Values.
Local Open Scope Z_scope.

Inductive cbor : Type :=
| CUint (n : Z)                 (* major 0 *)
| CNint (n : Z)                 (* major 1: the value -1-n *)
| CBytes (b : list Z)           (* major 2 *)
| CText (s : str)               (* major 3: code points, serialised as UTF-8 *)
| CArr (l : list cbor)          (* major 4 *)
| CTag (t : Z) (c : cbor)       (* major 6 *)
| CSimple (n : Z).              (* major 7: 20 false, 21 true, 22 null *)

Definition cnil : cbor := CSimple 22.
Definition cbool (b : bool) : cbor := CSimple (if b then 21 else 20).

(* big-endian bytes of a natural number, exactly [w] bytes *)
Fixpoint be_bytes (w : nat) (z : Z) : list Z :=
  match w with
  | O => []
  | S w' => be_bytes w' (z / 256) ++ [z mod 256]
  end.

(* minimal big-endian bytes (big.Int.Bytes): empty for 0 *)
Fixpoint min_bytes_fuel (fuel : nat) (z : Z) : list Z :=
  if z <=? 0 then []
  else match fuel with
       | O => []
       | S f => min_bytes_fuel f (z / 256) ++ [z mod 256]
       end.
Definition min_bytes (z : Z) : list Z := min_bytes_fuel (S (Z.to_nat (Z.log2 z))) z.

Definition head (major : Z) (arg : Z) : list Z :=
  let m := major * 32 in
  if arg <? 24 then [m + arg]
  else if arg <? 2 ^ 8 then (m + 24) :: be_bytes 1 arg
  else if arg <? 2 ^ 16 then (m + 25) :: be_bytes 2 arg
  else if arg <? 2 ^ 32 then (m + 26) :: be_bytes 4 arg
  else (m + 27) :: be_bytes 8 arg.

(* UTF-8 *)
Definition utf8_char (c : Z) : list Z :=
  if c <? 128 then [c]
  else if c <? 2048 then [192 + c / 64; 128 + c mod 64]
  else if c <? 65536 then [224 + c / 4096; 128 + (c / 64) mod 64; 128 + c mod 64]
  else [240 + c / 262144; 128 + (c / 4096) mod 64; 128 + (c / 64) mod 64; 128 + c mod 64].
Definition utf8 (s : str) : list Z := flat_map utf8_char s.

Fixpoint cbor_bytes (c : cbor) : list Z :=
  match c with
  | CUint n => head 0 n
  | CNint n => head 1 n
  | CBytes b => head 2 (Z.of_nat (List.length b)) ++ b
  | CText s => let u := utf8 s in head 3 (Z.of_nat (List.length u)) ++ u
  | CArr l => head 4 (Z.of_nat (List.length l)) ++ flat_map cbor_bytes l
  | CTag t c1 => head 6 t ++ cbor_bytes c1
  | CSimple n => if n <? 24 then [224 + n] else [248; n]
  end.

(* integers as written by the stream encoder *)
Definition cint (z : Z) : cbor := if z <? 0 then CNint (- 1 - z) else CUint z.
(* EncodeBigInt with BigIntConvertNone: always a bignum (tag 2 / 3) *)
Definition cbig (z : Z) : cbor :=
  if z <? 0 then CTag 3 (CBytes (min_bytes (- 1 - z))) else CTag 2 (CBytes (min_bytes z)).

(* bytewise lexicographic comparison: bytes.Compare(a, b) <= 0 *)
Fixpoint bytes_le (a b : list Z) : bool :=
  match a, b with
  | [], _ => true
  | _ :: _, [] => false
  | x :: a', y :: b' => if x <? y then true else if y <? x then false else bytes_le a' b'
  end.
