(* Sorting facts behind the canonical (deterministic) CCF encoding: the result of sorting is
   determined by the multiset of entries when the order is total, transitive and antisymmetric
   on the entries; the decoder's order checks accept exactly the sorted lists. *)
From CV Require Import C42.Ccf C41.StrProofs.
From Coq Require Import Permutation Sorting.Sorted ZifyBool.
Local Open Scope Z_scope.

Section Sort.
  Context {A : Type} (le : A -> A -> bool).
  Hypothesis le_total : forall a b, le a b = true \/ le b a = true.
  Hypothesis le_trans : forall a b c, le a b = true -> le b c = true -> le a c = true.

  Definition leP (a b : A) : Prop := le a b = true.

  Lemma insert_by_perm x l : Permutation (insert_by le x l) (x :: l).
  Proof.
    induction l as [|y r IH]; cbn; [reflexivity|].
    destruct (le x y); [reflexivity|].
    rewrite IH. apply perm_swap.
  Qed.

  Lemma sort_by_perm l : Permutation (sort_by le l) l.
  Proof.
    induction l as [|x r IH]; cbn; [reflexivity|].
    rewrite insert_by_perm. constructor. exact IH.
  Qed.

  Lemma insert_by_sorted x l : StronglySorted leP l -> StronglySorted leP (insert_by le x l).
  Proof.
    induction 1 as [|y r Hs IH Hall]; cbn; [repeat constructor|].
    destruct (le x y) eqn:E.
    - constructor; [constructor; assumption|]. constructor; [exact E|].
      rewrite Forall_forall in *. intros z Hz. eapply le_trans; [exact E|]. apply Hall; assumption.
    - constructor; [exact IH|].
      assert (Hyx : le y x = true) by (destruct (le_total x y); congruence).
      rewrite Forall_forall in *. intros z Hz.
      apply (Permutation_in _ (insert_by_perm x r)) in Hz. destruct Hz as [<-|Hz]; [exact Hyx|auto].
  Qed.

  Lemma sort_by_sorted l : StronglySorted leP (sort_by le l).
  Proof. induction l; cbn; [constructor|apply insert_by_sorted; assumption]. Qed.

  (* two sorted permutations of the same entries are equal when the order is antisymmetric on them:
     whatever sorting algorithm is used (sort.Sort in the Go code, insertion sort in the model), the
     result is the same *)
  Lemma sorted_perm_unique l1 : forall l2,
    Permutation l1 l2 -> StronglySorted leP l1 -> StronglySorted leP l2 ->
    (forall x y, In x l1 -> In y l1 -> le x y = true -> le y x = true -> x = y) ->
    l1 = l2.
  Proof.
    induction l1 as [|h1 t1 IH]; intros l2 Hp S1 S2 Hanti.
    - apply Permutation_nil in Hp. subst. reflexivity.
    - destruct l2 as [|h2 t2]; [apply Permutation_sym, Permutation_nil in Hp; discriminate|].
      inversion S1 as [|? ? S1' F1]; subst. inversion S2 as [|? ? S2' F2]; subst.
      assert (Heq : h1 = h2).
      { assert (In h2 (h1 :: t1)) as I2 by (eapply Permutation_in; [apply Permutation_sym; exact Hp|left; reflexivity]).
        assert (In h1 (h2 :: t2)) as I1 by (eapply Permutation_in; [exact Hp|left; reflexivity]).
        destruct I2 as [E|I2]; [assumption|]. destruct I1 as [E|I1]; [congruence|].
        rewrite Forall_forall in F1, F2.
        apply Hanti; [left; reflexivity|right; assumption|apply F1; assumption|apply F2; assumption]. }
      subst h2. f_equal. apply IH; [eapply Permutation_cons_inv; exact Hp|assumption|assumption|].
      intros x y Hx Hy. apply Hanti; right; assumption.
  Qed.

  Theorem sort_by_canonical l1 l2 :
    Permutation l1 l2 ->
    (forall x y, In x l1 -> In y l1 -> le x y = true -> le y x = true -> x = y) ->
    sort_by le l1 = sort_by le l2.
  Proof.
    intros Hp Hanti. apply sorted_perm_unique.
    - rewrite (sort_by_perm l1), (sort_by_perm l2). exact Hp.
    - apply sort_by_sorted.
    - apply sort_by_sorted.
    - intros x y Hx Hy. apply Hanti; eapply Permutation_in; try apply sort_by_perm; assumption.
  Qed.
End Sort.

(* ------------------------------------------------------------------ the orders of sort.go *)
Lemma bytes_le_total a b : bytes_le a b = true \/ bytes_le b a = true.
Proof.
  revert b; induction a as [|x a IH]; destruct b as [|y b]; cbn; auto.
  destruct (x <? y) eqn:E1; [auto|]. destruct (y <? x) eqn:E2; [auto|]. apply IH.
Qed.

Lemma bytes_le_trans a : forall b c, bytes_le a b = true -> bytes_le b c = true -> bytes_le a c = true.
Proof.
  induction a as [|x a IH]; intros [|y b] [|z c] H1 H2; cbn in *; try discriminate; auto.
  destruct (x <? y) eqn:E1.
  - destruct (y <? z) eqn:E2.
    + replace (x <? z) with true by lia. reflexivity.
    + destruct (z <? y) eqn:E4; [discriminate|]. replace (x <? z) with true by lia. reflexivity.
  - destruct (y <? x) eqn:E3; [discriminate|].
    destruct (y <? z) eqn:E2.
    + replace (x <? z) with true by lia. reflexivity.
    + destruct (z <? y) eqn:E4; [discriminate|].
      replace (x <? z) with false by lia. replace (z <? x) with false by lia. eapply IH; eassumption.
Qed.

Lemma bytes_le_antisym a : forall b, bytes_le a b = true -> bytes_le b a = true -> a = b.
Proof.
  induction a as [|x a IH]; intros [|y b]; cbn; try discriminate; auto.
  destruct (x <? y) eqn:E1; destruct (y <? x) eqn:E2; try discriminate; try lia.
  intros H1 H2. f_equal; [lia|auto].
Qed.

Lemma str_leb_is_bytes_le a b : str_leb a b = bytes_le a b.
Proof.
  revert b; induction a as [|x a IH]; destruct b as [|y b]; cbn; auto; rewrite IH; reflexivity.
Qed.

Lemma lenlex_le_total a b : lenlex_le a b = true \/ lenlex_le b a = true.
Proof.
  unfold lenlex_le. destruct (blen a <? blen b) eqn:E1; [auto|].
  destruct (blen b <? blen a) eqn:E2; [auto|]. rewrite !str_leb_is_bytes_le. apply bytes_le_total.
Qed.

Lemma lenlex_le_trans a b c : lenlex_le a b = true -> lenlex_le b c = true -> lenlex_le a c = true.
Proof.
  unfold lenlex_le. rewrite !str_leb_is_bytes_le. intros H1 H2.
  destruct (blen a <? blen b) eqn:E1.
  - destruct (blen b <? blen c) eqn:E3.
    + replace (blen a <? blen c) with true by lia. reflexivity.
    + destruct (blen c <? blen b) eqn:E4; [discriminate|]. replace (blen a <? blen c) with true by lia. reflexivity.
  - destruct (blen b <? blen a) eqn:E2; [discriminate|].
    destruct (blen b <? blen c) eqn:E3.
    + replace (blen a <? blen c) with true by lia. reflexivity.
    + destruct (blen c <? blen b) eqn:E4; [discriminate|].
      replace (blen a <? blen c) with false by lia. replace (blen c <? blen a) with false by lia.
      eapply bytes_le_trans; eassumption.
Qed.

Lemma lenlex_le_antisym a b : lenlex_le a b = true -> lenlex_le b a = true -> a = b.
Proof.
  unfold lenlex_le. rewrite !str_leb_is_bytes_le.
  destruct (blen a <? blen b) eqn:E1; destruct (blen b <? blen a) eqn:E2; try discriminate; try lia.
  apply bytes_le_antisym.
Qed.

Lemma lenlex_lt_le a b : lenlex_lt a b = true <-> (lenlex_le a b = true /\ a <> b).
Proof.
  unfold lenlex_lt, lenlex_le. rewrite !str_leb_is_bytes_le.
  destruct (blen a <? blen b) eqn:E1; cbn.
  - split; [intros _; split; [reflexivity|]|reflexivity]. intros ->. lia.
  - destruct (blen b <? blen a) eqn:E2.
    + replace (blen a =? blen b) with false by lia. cbn. split; [discriminate|intros [H _]; discriminate].
    + replace (blen a =? blen b) with true by lia. cbn.
      destruct (bytes_le b a) eqn:Hba; cbn.
      * split; [discriminate|]. intros [Hab Hne]. exfalso. apply Hne. apply bytes_le_antisym; assumption.
      * split; [|reflexivity]. intros _. destruct (bytes_le_total a b) as [H|H]; [|congruence].
        split; [assumption|]. intros ->. destruct (bytes_le_total b b); congruence.
Qed.

(* ------------------------------------------------------------------ the decoder's order checks *)
(* decodeDictionary: previousKeyRawBytes, bytesAreSortedBytewise (non-strict) *)
Fixpoint keys_sorted_from (prev : list Z) (keys : list (list Z)) : bool :=
  match keys with
  | [] => true
  | k :: r => bytes_le prev k && keys_sorted_from k r
  end.
Definition dict_keys_check (keys : list (list Z)) : bool := keys_sorted_from [] keys.

(* decodeCompositeFields / decodeTypeDefs / intersection types / entitlements:
   stringsAreSortedBytewise (strict), starting from the empty string *)
Fixpoint names_sorted_from (prev : str) (names : list str) : bool :=
  match names with
  | [] => true
  | n :: r => lenlex_lt prev n && names_sorted_from n r
  end.
Definition names_check (names : list str) : bool := names_sorted_from [] names.

Lemma keys_sorted_from_spec prev keys :
  keys_sorted_from prev keys = true <-> StronglySorted (fun a b => bytes_le a b = true) (prev :: keys).
Proof.
  revert prev; induction keys as [|k r IH]; intro prev; cbn.
  - split; [intros _; repeat constructor|reflexivity].
  - rewrite andb_true_iff, IH. split.
    + intros [H1 H2]. constructor; [assumption|]. constructor; [assumption|].
      inversion H2 as [|? ? _ F]; subst. rewrite Forall_forall in *. intros x Hx.
      eapply bytes_le_trans; [exact H1|apply F; assumption].
    + intro H. inversion H as [|? ? S F]; subst. split; [inversion F; assumption|assumption].
Qed.

(* the strict decoder accepts the dictionary of every encoding: the encoder's key order passes *)
Theorem dict_check_accepts_sorted {B} (ps : list (list Z * B)) :
  dict_keys_check (map fst (sort_by (fun x y => bytes_le (fst x) (fst y)) ps)) = true.
Proof.
  unfold dict_keys_check. apply keys_sorted_from_spec.
  constructor; [|apply Forall_forall; intros; reflexivity].
  assert (S := sort_by_sorted (fun x y : list Z * B => bytes_le (fst x) (fst y))
                 (fun a b => bytes_le_total (fst a) (fst b))
                 (fun a b c => bytes_le_trans (fst a) (fst b) (fst c)) ps).
  induction S as [|x r _ IH F]; cbn; constructor; [assumption|].
  rewrite Forall_forall in *. intros k Hk. apply in_map_iff in Hk as (y & <- & Hy). apply F; assumption.
Qed.

(* ... and rejects a dictionary with two adjacent keys in the wrong order *)
Theorem dict_check_rejects_unsorted (a b : list Z) pre post :
  bytes_le a b = false -> dict_keys_check (pre ++ a :: b :: post) = false.
Proof.
  intro H. unfold dict_keys_check. generalize (@nil Z) as prev.
  induction pre as [|p r IH]; intro prev; cbn.
  - rewrite H. destruct (bytes_le prev a); reflexivity.
  - rewrite IH. apply andb_false_r.
Qed.

Lemma names_sorted_from_spec prev names :
  names_sorted_from prev names = true <->
  StronglySorted (fun a b => lenlex_le a b = true /\ a <> b) (prev :: names).
Proof.
  revert prev; induction names as [|k r IH]; intro prev; cbn.
  - split; [intros _; repeat constructor|reflexivity].
  - rewrite andb_true_iff, IH, lenlex_lt_le. split.
    + intros [[H1 Hne] H2]. constructor; [assumption|]. constructor; [split; assumption|].
      inversion H2 as [|? ? _ F]; subst. rewrite Forall_forall in *. intros x Hx.
      destruct (F _ Hx) as [Hkx Hnkx]. split; [eapply lenlex_le_trans; eassumption|].
      intros ->. apply Hnkx. apply lenlex_le_antisym; assumption.
    + intro H. inversion H as [|? ? S F]; subst. split; [inversion F; assumption|assumption].
Qed.

Lemma sorted_nodup_strict (l : list str) :
  StronglySorted (fun a b => lenlex_le a b = true) l -> NoDup l ->
  StronglySorted (fun a b => lenlex_le a b = true /\ a <> b) l.
Proof.
  induction 1 as [|x r _ IH F]; intro Hnd; constructor.
  - apply IH. inversion Hnd; assumption.
  - inversion Hnd as [|? ? Hnin _]; subst. rewrite Forall_forall in *. intros y Hy. split; [apply F; assumption|].
    intros ->. contradiction.
Qed.

(* sorted, duplicate-free, non-empty names pass the strict check *)
Theorem names_check_accepts_sorted (names : list str) :
  NoDup names -> ~ In [] names -> names_check (sort_by lenlex_le names) = true.
Proof.
  intros Hnd Hne. unfold names_check. apply names_sorted_from_spec.
  assert (P := sort_by_perm lenlex_le names).
  assert (Hnd' : NoDup (sort_by lenlex_le names)) by (eapply Permutation_NoDup; [apply Permutation_sym; exact P|exact Hnd]).
  constructor.
  - apply sorted_nodup_strict; [|assumption].
    apply (sort_by_sorted lenlex_le lenlex_le_total lenlex_le_trans names).
  - apply Forall_forall. intros x Hx. split.
    + unfold lenlex_le. destruct (blen [] <? blen x) eqn:E; [reflexivity|].
      replace (blen x <? blen []) with false by (unfold blen in *; cbn in *; lia). reflexivity.
    + intros <-. apply Hne. eapply Permutation_in; [exact P|exact Hx].
Qed.

(* two adjacent names that are not in strictly increasing order are rejected *)
Theorem names_check_rejects_unsorted (a b : str) pre post :
  lenlex_lt a b = false -> names_check (pre ++ a :: b :: post) = false.
Proof.
  intro H. unfold names_check. generalize (@nil Z) as prev.
  induction pre as [|p r IH]; intro prev; cbn.
  - rewrite H. destruct (lenlex_lt prev a); reflexivity.
  - rewrite IH. apply andb_false_r.
Qed.
