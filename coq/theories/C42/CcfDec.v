(* Code-shaped model of the value part of the CCF decoder (decode.go:decodeValue and the
   functions it dispatches to) over CBOR items, for values whose static types are given in the
   reference representation (see Ccf.v).  Not modelled: type values and function values
   (decodeTypeValue), the top-level message and the decoding of type definitions. *)
From CV Require Export C42.Ccf C42.SortProofs.
From Coq Require Import String.
Local Open Scope string_scope.
Local Open Scope Z_scope.
Local Open Scope list_scope.

Definition be_value (b : list Z) : Z := fold_left (fun acc x => acc * 256 + x) b 0.

(* DecodeBigInt: tag 2 / 3 with a byte string; also plain integers (the stream decoder accepts both) *)
Definition dec_bigint (c : cbor) : res Z :=
  match c with
  | CTag 2 (CBytes b) => Ok (be_value b)
  | CTag 3 (CBytes b) => Ok (- 1 - be_value b)
  | CUint n => Ok n
  | CNint n => Ok (- 1 - n)
  | _ => Err UserOther
  end.
Definition dec_int64 (c : cbor) : res Z :=
  match c with
  | CUint n => if n <? 2 ^ 63 then Ok n else Err UserOther
  | CNint n => if n <? 2 ^ 63 then Ok (- 1 - n) else Err UserOther
  | _ => Err UserOther
  end.
Definition dec_uint64 (c : cbor) : res Z :=
  match c with CUint n => Ok n | _ => Err UserOther end.

Definition simple_nkind (n : str) : option nkind := find_nkind n.

(* decodeInt8 ... decodeUFix128 *)
Definition dec_num (k : nkind) (c : cbor) : res Z :=
  let ranged (r : res Z) := let* z := r in if nk_in_range k z then Ok z else Err UserOther in
  match k with
  | NInt => dec_bigint c
  | NInt8 | NInt16 | NInt32 | NInt64 | NFix64 => ranged (dec_int64 c)
  | NUInt8 | NUInt16 | NUInt32 | NUInt64 | NWord8 | NWord16 | NWord32 | NWord64 | NUFix64 => ranged (dec_uint64 c)
  | NFix128 =>
      match c with
      | CArr [CUint hi; CUint lo] =>
          let r := hi * 2 ^ 64 + lo in Ok (if r <? 2 ^ 127 then r else r - 2 ^ 128)
      | _ => Err UserOther
      end
  | NUFix128 =>
      match c with
      | CArr [CUint hi; CUint lo] => Ok (hi * 2 ^ 64 + lo)
      | _ => Err UserOther
      end
  | _ => ranged (dec_bigint c)
  end.

Definition is_cnil (c : cbor) : bool := match c with CSimple n => n =? 22 | _ => false end.

(* newNilOptionalValue: nil of an optional type is built as deep as the static type *)
Fixpoint nil_optional (inner : xty) : xval :=
  match inner with
  | TOptional t1 => VOptional (Some (nil_optional t1))
  | _ => VOptional None
  end.

Section Decoder.
  Variable valid_char : str -> bool.
  Variable env : str -> option xty.      (* decoded type definitions *)
  Variable tids : list str.              (* index = CCF type id *)

  (* decodeInlineType (types only; nominal types by reference) *)
  Fixpoint dec_inline (c : cbor) : res xty :=
    match c with
    | CSimple 22 => Ok TNil
    | CTag 136 (CBytes b) =>
        match nth_error tids (Z.to_nat (be_value b)) with
        | Some tid => Ok (TRef tid)
        | None => Err UserOther
        end
    | CTag 138 c1 => let* t := dec_inline c1 in if is_tnil t then Err UserOther else Ok (TOptional t)
    | CTag 139 c1 => let* t := dec_inline c1 in if is_tnil t then Err UserOther else Ok (TVarArray t)
    | CTag 140 (CArr [CUint n; c1]) =>
        let* t := dec_inline c1 in if is_tnil t then Err UserOther else Ok (TConstArray n t)
    | CTag 141 (CArr [ck; cv]) =>
        let* k := dec_inline ck in let* v := dec_inline cv in
        if is_tnil k || is_tnil v then Err UserOther else Ok (TDict k v)
    | CTag 145 c1 => let* t := dec_inline c1 in if is_tnil t then Err UserOther else Ok (TRange t)
    | CTag 144 (CArr [c1]) => let* t := dec_inline c1 in Ok (TCapability t)
    | _ => Err Internal     (* simple types by id, references, intersections: not needed below *)
    end.

  (* simple (primitive) static types *)
  Definition dec_simple (c : cbor) (n : str) : res xval :=
    if str_eqb n (sc "Void") then (if is_cnil c then Ok VVoid else Err UserOther)
    else if str_eqb n (sc "Bool") then
      match c with
      | CSimple b => if b =? 20 then Ok (VBool false) else if b =? 21 then Ok (VBool true) else Err UserOther
      | _ => Err UserOther
      end
    else if str_eqb n (sc "String") then match c with CText s => Ok (VString s) | _ => Err UserOther end
    else if str_eqb n (sc "Character") then
      match c with CText s => if valid_char s then Ok (VChar s) else Err UserOther | _ => Err UserOther end
    else if str_eqb n (sc "Address") then
      match c with
      | CBytes b => if Nat.eqb (List.length b) 8 then Ok (VAddress (be_value b)) else Err UserOther
      | _ => Err UserOther
      end
    else if str_eqb n (sc "StoragePath") || str_eqb n (sc "PublicPath") || str_eqb n (sc "PrivatePath") then
      match c with
      | CArr [CUint d; CText id] =>
          (* common.PathDomain(uint64) truncates to 8 bits; only PathDomainUnknown (0) is rejected *)
          let d8 := d mod 256 in
          if d8 =? 0 then Err UserOther else Ok (VPath d8 id)
      | _ => Err UserOther
      end
    else match simple_nkind n with
         | Some k => let* z := dec_num k c in Ok (VNum k z)
         | None => Err Internal       (* Type values and abstract types: not modelled *)
         end.

  (* decodeComposite: field values in the order of the type definition *)
  Definition dec_fields_with (rec : cbor -> xty -> res xval)
    : list (str * xty) -> list cbor -> res (list xval) :=
    fix go (fts : list (str * xty)) (items : list cbor) {struct items} : res (list xval) :=
      match items, fts with
      | [], [] => Ok []
      | c1 :: cr, ft :: fr =>
          let* v := rec c1 (snd ft) in let* r := go fr cr in Ok (v :: r)
      | _, _ => Err UserOther
      end.

  (* decodeDictionary: pairs of items; raw key bytes must not decrease *)
  Definition dec_pairs_with (rec : cbor -> xty -> res xval) (kt vt : xty)
    : list Z -> list cbor -> res (list (xval * xval)) :=
    fix go (prev : list Z) (items : list cbor) {struct items} : res (list (xval * xval)) :=
      match items with
      | [] => Ok []
      | ck :: cv :: r =>
          let raw := cbor_bytes ck in
          if negb (bytes_le prev raw) then Err UserOther else   (* keys are not sorted *)
          let* k := rec ck kt in
          let* v := rec cv vt in
          let* rest := go raw r in
          Ok ((k, v) :: rest)
      | [_] => Err UserOther                                    (* odd number of elements *)
      end.

  (* decodeValue, type directed.  Outer recursion on the item, inner recursion on the static type
     (optional and reference types are decoded from the same item). *)
  Fixpoint dec_value (c : cbor) : xty -> res xval :=
    fix on_type (st : xty) : res xval :=
      match st with
      | TNil => Err UserOther                         (* unexpected nil type *)
      | TSimple n => dec_simple c n
      | TOptional t1 =>
          if is_cnil c then Ok (nil_optional t1)
          else let* v := on_type t1 in Ok (VOptional (Some v))
      | TVarArray et =>
          match c with
          | CArr items => let* vs := mapM (fun c1 => dec_value c1 et) items in Ok (VArray st vs)
          | _ => Err UserOther
          end
      | TConstArray n et =>
          match c with
          | CArr items =>
              if negb (Z.of_nat (List.length items) =? n) then Err UserOther else
              let* vs := mapM (fun c1 => dec_value c1 et) items in Ok (VArray st vs)
          | _ => Err UserOther
          end
      | TDict kt vt =>
          match c with
          | CArr items => let* ps := dec_pairs_with dec_value kt vt [] items in Ok (VDict st ps)
          | _ => Err UserOther
          end
      | TRange et =>
          match c with
          | CArr [ca; cb; cc] =>
              let* a := dec_value ca et in let* b := dec_value cb et in let* c3 := dec_value cc et in
              Ok (VRange st a b c3)
          | _ => Err UserOther
          end
      | TCapability b =>
          match c with
          | CArr [CBytes ab; CUint id] =>
              if Nat.eqb (List.length ab) 8 then Ok (VCap id (be_value ab) b) else Err UserOther
          | _ => Err UserOther
          end
      | TReference _ t1 => on_type t1
      | TRef tid =>
          match env tid with
          | Some (TComposite k _ extra fields inits) =>
              if ckind_is_interface k then Err Internal else
              match c with
              | CArr items =>
                  let* vs := dec_fields_with dec_value fields items in
                  Ok (VComposite k tid extra fields inits vs)
              | _ => Err UserOther
              end
          | _ => Err Internal
          end
      | _ => Err Internal              (* intersection / function / abstract: type-and-value: not modelled *)
      end.
End Decoder.
