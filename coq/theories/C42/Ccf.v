(* Code-shaped model of the CCF encoder (encoding/ccf/encode.go, encode_type.go,
   encode_typedef.go, sort.go) producing CBOR items.

   Representation of the input: every composite/interface type is a reference [TRef id]; the
   definitions live in an environment [env : id -> TComposite ...] (children are references
   again).  The set of types that get a type definition (traverse_value.go) is an input of the
   model (taken from the real encoder's output); the model sorts it and assigns the CCF ids. *)
From CV Require Export C42.Cbor C41.Json.
From Coq Require Import String.
Local Open Scope string_scope.
Local Open Scope Z_scope.
Local Open Scope list_scope.

Record ccf_mode : Type := { sort_fields : bool; sort_inter : bool; sort_ents : bool }.
Definition mode_default := {| sort_fields := false; sort_inter := false; sort_ents := false |}.
Definition mode_det := {| sort_fields := true; sort_inter := true; sort_ents := true |}.

(* sort.go: length (in bytes) first, then bytewise; used for field names, type IDs, entitlements *)
Definition blen (s : str) : Z := Z.of_nat (List.length (utf8 s)).
Definition lenlex_le (a b : str) : bool :=
  if blen a <? blen b then true else if blen b <? blen a then false else str_leb a b.
(* stringsAreSortedBytewise: strict *)
Definition lenlex_lt (a b : str) : bool :=
  (blen a <? blen b) || ((blen a =? blen b) && negb (str_leb b a)).

Definition sort_if {A} (flag : bool) (le : A -> A -> bool) (l : list A) : list A :=
  if flag then sort_by le l else l.

Fixpoint index_of (s : str) (l : list str) (i : Z) : option Z :=
  match l with
  | [] => None
  | x :: r => if str_eqb s x then Some i else index_of s r (i + 1)
  end.

Definition id_bytes (i : Z) : cbor := CBytes (min_bytes i).

Definition ckind_index (k : ckind) : Z :=
  match k with
  | KStruct => 0 | KResource => 1 | KEvent => 2 | KContract => 3 | KEnum => 4 | KAttachment => 5
  | KStructInterface => 16 | KResourceInterface => 17 | KContractInterface => 18
  end.

Definition tNever : xty := TSimple (sc "Never").

(* cadence.Type.Equal on the reference representation (nominal types by ID; intersection types and
   entitlement sets as sets; function types by bounds, parameter types, purity and return type) *)
Definition set_eq (a b : list str) : bool :=
  (Nat.eqb (List.length a) (List.length b)) && forallb (fun x => str_mem x b) a.
Definition auth_equal (a b : xauth) : bool :=
  match a, b with
  | AUnauth, AUnauth => true
  | AMap x, AMap y => str_eqb x y
  | ASet c1 e1, ASet c2 e2 => set_eq e1 e2 && Bool.eqb c1 c2
  | _, _ => false
  end.

Definition list_all2 {A} (f : A -> A -> bool) : list A -> list A -> bool :=
  fix go (a b : list A) : bool :=
    match a, b with
    | [], [] => true
    | x :: a', y :: b' => f x y && go a' b'
    | _, _ => false
    end.

Fixpoint ty_equal (a b : xty) {struct a} : bool :=
  match a, b with
  | TSimple x, TSimple y => str_eqb x y
  | TOptional x, TOptional y => ty_equal x y
  | TVarArray x, TVarArray y => ty_equal x y
  | TConstArray n x, TConstArray m y => ty_equal x y && (n =? m)
  | TDict k v, TDict k' v' => ty_equal k k' && ty_equal v v'
  | TRange x, TRange y => ty_equal x y
  | TCapability x, TCapability y =>
      if is_tnil x then is_tnil y else if is_tnil y then false else ty_equal x y
  | TReference a1 x, TReference a2 y => auth_equal a1 a2 && ty_equal x y
  | TIntersection l1, TIntersection l2 => set_eq (map ty_id l1) (map ty_id l2)
  | TFunction v1 tp1 p1 r1, TFunction v2 tp2 p2 r2 =>
      list_all2 (fun x y => if is_tnil (snd x) then is_tnil (snd y)
                            else if is_tnil (snd y) then false else ty_equal (snd x) (snd y)) tp1 tp2 &&
      list_all2 (fun x y => ty_equal (snd x) (snd y)) p1 p2 && Bool.eqb v1 v2 && ty_equal r1 r2
  | TRef x, TRef y => str_eqb x y
  | _, _ => false
  end.

(* cadence.Value.Type() in the reference representation *)
Fixpoint ccf_type_of (v : xval) : xty :=
  match v with
  | VOptional None => TOptional tNever
  | VOptional (Some v1) => TOptional (ccf_type_of v1)
  | VComposite _ tid _ _ _ _ => TRef tid
  | _ => type_of v
  end.

Fixpoint is_optional_never (t : xty) : bool :=
  match t with
  | TOptional t1 => ty_equal t1 tNever || is_optional_never t1
  | _ => false
  end.

(* needToEncodeRuntimeType *)
Fixpoint need_rt (st rt : xty) {struct st} : bool :=
  if is_tnil st then true
  else if ty_equal st rt then false
  else match st with
       | TOptional s1 =>
           if is_optional_never rt then false
           else match rt with TOptional r1 => need_rt s1 r1 | _ => true end
       | TReference _ s1 => need_rt s1 rt
       | _ => true
       end.

(* getTypeToEncodeAsCCFInlineType; None: the Go code panics (static optional, runtime not) *)
Fixpoint inline_of (st rt : xty) {struct st} : option xty :=
  match st with
  | TOptional s1 => match rt with TOptional r1 => inline_of s1 r1 | _ => None end
  | TReference _ s1 => inline_of s1 rt
  | _ => Some rt
  end.

Definition elem_type (t : xty) : xty :=
  match t with TVarArray e | TConstArray _ e | TRange e => e | _ => TNil end.

(* numbers: encodeInt8 ... encodeUFix128 *)
Definition enc_num (k : nkind) (z : Z) : cbor :=
  match k with
  | NInt | NInt128 | NInt256 | NUInt | NUInt128 | NUInt256 | NWord128 | NWord256 => cbig z
  | NFix128 | NUFix128 =>
      let r := z mod 2 ^ 128 in CArr [CUint (r / 2 ^ 64); CUint (r mod 2 ^ 64)]
  | _ => cint z
  end.

Section Encoder.
  Variable sid : str -> option Z.        (* simpletype.go: type ID of a simple type *)
  Variable env : str -> option xty.      (* definitions of the nominal types *)
  Variable m : ccf_mode.

  Definition enc_auth (type_value : bool) (a : xauth) : cbor :=
    match a with
    | AUnauth => cnil
    | AMap tid => CTag (if type_value then 196 else 147) (CText tid)
    | ASet cj ents =>
        CTag (if type_value then 195 else 146)
          (CArr [CUint (if cj then 0 else 1);
                 CArr (map CText (sort_if (sort_ents m) lenlex_le ents))])
    end.

  Definition by_key {A} (le : str -> str -> bool) (x y : str * A) : bool := le (fst x) (fst y).

  (* encodeInlineType; tids: the sorted list of type definitions (index = CCF type id) *)
  Fixpoint enc_inline (tids : list str) (t : xty) {struct t} : res cbor :=
    match t with
    | TNil => Ok cnil
    | TSimple n => match sid n with Some i => Ok (CTag 137 (CUint i)) | None => Err Internal end
    | TOptional t1 => let* c := enc_inline tids t1 in Ok (CTag 138 c)
    | TVarArray t1 => let* c := enc_inline tids t1 in Ok (CTag 139 c)
    | TConstArray n t1 => let* c := enc_inline tids t1 in Ok (CTag 140 (CArr [CUint n; c]))
    | TDict k v =>
        let* ck := enc_inline tids k in let* cv := enc_inline tids v in Ok (CTag 141 (CArr [ck; cv]))
    | TRange t1 => let* c := enc_inline tids t1 in Ok (CTag 145 c)
    | TCapability t1 => let* c := enc_inline tids t1 in Ok (CTag 144 (CArr [c]))
    | TReference a t1 => let* c := enc_inline tids t1 in Ok (CTag 142 (CArr [enc_auth false a; c]))
    | TIntersection ts =>
        let* items := mapM (fun t1 => let* c := enc_inline tids t1 in Ok (ty_id t1, c)) ts in
        Ok (CTag 143 (CArr (map snd (sort_if (sort_inter m) (by_key lenlex_le) items))))
    | TFunction _ _ _ _ => Ok (CTag 137 (CUint 51))
    | TRef tid =>
        match index_of tid tids 0 with
        | Some i => Ok (CTag 136 (id_bytes i))
        | None => Err Internal
        end
    | TComposite _ _ _ _ _ => Err Internal
    end.

  (* ---- type values (encodeTypeValue); vis: type IDs in order of first visit *)
  Fixpoint enc_tv (fuel : nat) (vis : list str) (t : xty) {struct fuel} : res (cbor * list str) :=
    match fuel with
    | O => Err OutOfFuel
    | S f =>
      let nullable (vis : list str) (t : xty) : res (cbor * list str) :=
        if is_tnil t then Ok (cnil, vis) else enc_tv f vis t in
      let params (vis : list str) (ps : list xparam) : res (cbor * list str) :=
        let* r := mapM_st (fun vis (p : xparam) =>
                    let* c := enc_tv f vis (snd p) in
                    Ok (CArr [CText (fst (fst p)); CText (snd (fst p)); fst c], snd c)) vis ps in
        Ok (CArr (fst r), snd r) in
      match t with
      | TNil => Err Internal
      | TSimple n => match sid n with Some i => Ok (CTag 185 (CUint i), vis) | None => Err Internal end
      | TOptional t1 => let* c := enc_tv f vis t1 in Ok (CTag 186 (fst c), snd c)
      | TVarArray t1 => let* c := enc_tv f vis t1 in Ok (CTag 187 (fst c), snd c)
      | TConstArray n t1 => let* c := enc_tv f vis t1 in Ok (CTag 188 (CArr [CUint n; fst c]), snd c)
      | TDict k v =>
          let* ck := enc_tv f vis k in let* cv := enc_tv f (snd ck) v in
          Ok (CTag 189 (CArr [fst ck; fst cv]), snd cv)
      | TRange t1 => let* c := enc_tv f vis t1 in Ok (CTag 194 (fst c), snd c)
      | TCapability t1 => let* c := nullable vis t1 in Ok (CTag 192 (CArr [fst c]), snd c)
      | TReference a t1 => let* c := enc_tv f vis t1 in Ok (CTag 190 (CArr [enc_auth true a; fst c]), snd c)
      | TIntersection ts =>
          let sorted := sort_if (sort_inter m) (fun a b => lenlex_le (ty_id a) (ty_id b)) ts in
          let* r := mapM_st (enc_tv f) vis sorted in
          Ok (CTag 191 (CArr (fst r)), snd r)
      | TFunction view tps ps ret =>
          let* tp := mapM_st (fun vis (tp : str * xty) =>
                       let* c := nullable vis (snd tp) in
                       Ok (CArr [CText (fst tp); fst c], snd c)) vis tps in
          let* pp := params (snd tp) ps in
          let* rr := enc_tv f (snd pp) ret in
          Ok (CTag 193 (CArr [CArr (fst tp); fst pp; fst rr; CUint (if view then 1 else 0)]), snd rr)
      | TRef tid =>
          match index_of tid vis 0 with
          | Some i => Ok (CTag 184 (id_bytes i), vis)
          | None =>
              let id := Z.of_nat (List.length vis) in
              let vis1 := vis ++ [tid] in
              match env tid with
              | Some (TComposite k _ extra fields inits) =>
                  let* ce := nullable vis1 extra in
                  let* cf := mapM_st (fun vis (fd : str * xty) =>
                               let* c := enc_tv f vis (snd fd) in
                               Ok (CArr [CText (fst fd); fst c], snd c))
                             (snd ce) (sort_if (sort_fields m) (by_key lenlex_le) fields) in
                  if Nat.ltb 1 (List.length inits) then Err UserOther else
                  let* ci := mapM_st params (snd cf) inits in
                  Ok (CTag (208 + ckind_index k)
                        (CArr [id_bytes id; CText tid; fst ce; CArr (fst cf); CArr (fst ci)]), snd ci)
              | _ => Err Internal
              end
          end
      | TComposite _ _ _ _ _ => Err Internal
      end
    end.

  Definition tv_fuel : nat := 200.

  Definition enc_nullable_tv (t : xty) : res cbor :=
    if is_tnil t then Ok cnil else let* c := enc_tv tv_fuel [] t in Ok (fst c).

  (* encodeFunction: a function value *)
  Definition enc_function (t : xty) : res cbor :=
    match t with
    | TFunction _ _ _ _ =>
        let* c := enc_tv tv_fuel [] t in
        match fst c with CTag _ body => Ok body | x => Ok x end
    | _ => Err Internal
    end.

  (* the loop of encodeComposite over the field values and their declared types *)
  Definition enc_fields_with (rec : xty -> xval -> res cbor)
    : list (str * xty) -> list xval -> res (list (str * cbor)) :=
    fix go (fts : list (str * xty)) (vs : list xval) {struct vs} : res (list (str * cbor)) :=
      match vs, fts with
      | [], [] => Ok []
      | v1 :: vr, ft :: fr =>
          let* c := rec (snd ft) v1 in
          let* r := go fr vr in Ok ((fst ft, c) :: r)
      | _, _ => Err UserOther    (* field count mismatch (attachments) *)
      end.

  Definition enc_pair_with (rec : xty -> xval -> res cbor) (kt vt : xty) (kv : xval * xval)
    : res (list Z * (cbor * cbor)) :=
    let* ck := rec kt (fst kv) in
    let* cv := rec vt (snd kv) in
    Ok (cbor_bytes ck, (ck, cv)).

  (* ---- values (encodeValue) *)
  Fixpoint enc_value (tids : list str) (st : xty) (v : xval) {struct v} : res cbor :=
    let rt := ccf_type_of v in
    let* body :=
      match v with
      | VVoid => Ok cnil
      | VOptional None => Ok cnil
      | VOptional (Some v1) => enc_value tids (ccf_type_of v1) v1
      | VBool b => Ok (cbool b)
      | VString s => Ok (CText s)
      | VChar s => Ok (CText s)
      | VAddress a => Ok (CBytes (be_bytes 8 a))
      | VNum k z => Ok (enc_num k z)
      | VArray t l =>
          if is_tnil t then Err Internal else
          let* cs := mapM (enc_value tids (elem_type t)) l in Ok (CArr cs)
      | VDict t l =>
          match t with
          | TDict kt vt =>
              let* ps := mapM (enc_pair_with (enc_value tids) kt vt) l in
              (* encodeSortedDictionary when there is more than one pair *)
              let sorted := if Nat.ltb 1 (List.length ps)
                            then sort_by (fun x y => bytes_le (fst x) (fst y)) ps else ps in
              Ok (CArr (flat_map (fun p => [fst (snd p); snd (snd p)]) sorted))
          | _ => Err Internal
          end
      | VRange t a b c =>
          if is_tnil t then Err Internal else
          let* ca := enc_value tids (elem_type t) a in
          let* cb := enc_value tids (elem_type t) b in
          let* cc := enc_value tids (elem_type t) c in
          Ok (CArr [ca; cb; cc])
      | VComposite _ _ _ ftys _ fvals =>
          let* fs := enc_fields_with (enc_value tids) ftys fvals in
          Ok (CArr (map snd (sort_if (sort_fields m) (by_key lenlex_le) fs)))
      | VPath d id => Ok (CArr [CUint d; CText id])
      | VType t => enc_nullable_tv t
      | VCap id addr _ => Ok (CArr [CBytes (be_bytes 8 addr); CUint id])
      | VFunc t => enc_function t
      end in
    if need_rt st rt then
      match inline_of st rt with
      | Some it => let* ci := enc_inline tids it in Ok (CTag 130 (CArr [ci; body]))
      | None => Err Internal
      end
    else Ok body.

  (* encodeTypeDefs *)
  Definition enc_typedef (tids : list str) (i : Z) (tid : str) : res cbor :=
    match env tid with
    | Some (TComposite k _ _ fields _) =>
        if ckind_is_interface k then Ok (CTag (160 + ckind_index k) (CArr [id_bytes i; CText tid]))
        else
          let* fs := mapM (fun fd : str * xty =>
                             let* c := enc_inline tids (snd fd) in Ok (CArr [CText (fst fd); c]))
                          (sort_if (sort_fields m) (by_key lenlex_le) fields) in
          Ok (CTag (160 + ckind_index k) (CArr [id_bytes i; CText tid; CArr fs]))
    | _ => Err Internal
    end.

  Fixpoint enc_typedefs (tids : list str) (rest : list str) (i : Z) : res (list cbor) :=
    match rest with
    | [] => Ok []
    | tid :: r =>
        let* c := enc_typedef tids i tid in
        let* cs := enc_typedefs tids r (i + 1) in Ok (c :: cs)
    end.

  (* Encode: typedefs = the types that get a definition, in any order *)
  Definition ccf_encode (typedefs : list str) (v : xval) : res cbor :=
    let tids := match typedefs with
                | _ :: _ :: _ => sort_by lenlex_le typedefs     (* bytewiseCadenceTypeInPlaceSorter *)
                | _ => typedefs
                end in
    let rt := ccf_type_of v in
    let* it := enc_inline tids rt in
    let* cv := enc_value tids rt v in
    match tids with
    | [] => Ok (CTag 130 (CArr [it; cv]))
    | _ =>
        let* ds := enc_typedefs tids tids 0 in
        Ok (CTag 129 (CArr [CArr ds; CArr [it; cv]]))
    end.
End Encoder.
