(* C45 — type identity across representations.  Definitions only.
   Strings are lists of bytes (Z).  Three type representations, transcribed separately:
     sty  — checker types (sema/type.go),             id_sema   = Type.ID()
     tty  — run-time static types (interpreter/statictype.go), id_static = StaticType.ID()
     cty  — exported external types (types.go),       id_cadence = cadence.Type.ID()
   and the conversions ConvertSemaToStaticType (to_static), ConvertStaticToSemaType (to_sema),
   runtime.ExportType (export), runtime.ImportType (import), the location type-ID encoders
   (common/*location.go TypeID) and common.DecodeTypeID (decode_type_id). *)
From Coq Require Import ZArith List Bool Lia.
From CV Require Import Base.Prelude.
Import ListNotations.
Open Scope Z_scope.

Definition str := list Z.

Definition str_eqb (a b : str) : bool :=
  (fix go (x y : str) : bool :=
     match x, y with
     | [], [] => true
     | c :: x', d :: y' => Z.eqb c d && go x' y'
     | _, _ => false
     end) a b.

(* byte-wise lexicographic order: Go's < on strings (slices.Sort) *)
Fixpoint str_leb (a b : str) : bool :=
  match a, b with
  | [], _ => true
  | _ :: _, [] => false
  | c :: a', d :: b' => if Z.ltb c d then true else if Z.ltb d c then false else str_leb a' b'
  end.

Fixpoint insert_str (x : str) (l : list str) : list str :=
  match l with
  | [] => [x]
  | y :: l' => if str_leb x y then x :: l else y :: insert_str x l'
  end.
Definition sort_strs (l : list str) : list str := fold_right insert_str [] l.

Fixpoint join (sep : str) (l : list str) : str :=
  match l with
  | [] => []
  | [x] => x
  | x :: l' => x ++ sep ++ join sep l'
  end.

(* characters *)
Definition cDot := 46.   Definition cComma := 44.  Definition cBar := 124.
Definition cLPar := 40.  Definition cRPar := 41.   Definition cQ := 63.
Definition cLBr := 91.   Definition cRBr := 93.    Definition cSemi := 59.
Definition cLCur := 123. Definition cRCur := 125.  Definition cColon := 58.
Definition cAmp := 38.   Definition cLt := 60.     Definition cGt := 62.
Definition cSpace := 32. Definition cMinus := 45.

Definition s_auth := [97; 117; 116; 104; 40].                       (* "auth(" *)
Definition s_fun := [102; 117; 110].                                 (* "fun" *)
Definition s_view := [118; 105; 101; 119].                           (* "view" *)
Definition s_Capability := [67; 97; 112; 97; 98; 105; 108; 105; 116; 121].
Definition s_InclusiveRange := [73; 110; 99; 108; 117; 115; 105; 118; 101; 82; 97; 110; 103; 101].
Definition s_A := [65].  Definition s_S := [83].  Definition s_I := [73].
Definition s_t := [116]. Definition s_s := [115]. Definition s_REPL := [82; 69; 80; 76].

(* decimal rendering of an integer (fmt %d) *)
Fixpoint dec_digits (fuel : nat) (n : Z) (acc : str) : str :=
  match fuel with
  | O => acc
  | S f => let acc' := (48 + n mod 10) :: acc in
           if n / 10 =? 0 then acc' else dec_digits f (n / 10) acc'
  end.
Definition dec_str (n : Z) : str :=
  if n <? 0 then cMinus :: dec_digits 80 (- n) [] else dec_digits 80 n [].

(* hexadecimal: encoding/hex *)
Definition hex_digit (n : Z) : Z := if n <? 10 then 48 + n else 87 + n.
Fixpoint hex_encode (bs : list Z) : str :=
  match bs with [] => [] | b :: r => hex_digit (b / 16) :: hex_digit (b mod 16) :: hex_encode r end.
Definition hex_val (c : Z) : option Z :=
  if (48 <=? c) && (c <=? 57) then Some (c - 48)
  else if (97 <=? c) && (c <=? 102) then Some (c - 87)
  else if (65 <=? c) && (c <=? 70) then Some (c - 55)
  else None.
Fixpoint hex_decode (s : str) : option (list Z) :=
  match s with
  | [] => Some []
  | [_] => None
  | a :: b :: r =>
      match hex_val a, hex_val b, hex_decode r with
      | Some x, Some y, Some l => Some (x * 16 + y :: l)
      | _, _, _ => None
      end
  end.

(* ------------------------------------------------------------------------------------------ *)
(* locations *)
Inductive loc : Type :=
| LNone
| LAddress (addr : list Z) (name : str)     (* 8 bytes *)
| LString (s : str)
| LIdentifier (s : str)
| LTransaction (id : list Z)                (* 32 bytes *)
| LScript (id : list Z)                     (* 32 bytes *)
| LREPL.

(* Location.TypeID / common.NewTypeIDFromQualifiedName *)
Definition encode_type_id (l : loc) (qid : str) : str :=
  match l with
  | LNone => qid
  | LAddress a _ => s_A ++ [cDot] ++ hex_encode a ++ [cDot] ++ qid
  | LString s => s_S ++ [cDot] ++ s ++ [cDot] ++ qid
  | LIdentifier s => s_I ++ [cDot] ++ s ++ [cDot] ++ qid
  | LTransaction id => s_t ++ [cDot] ++ hex_encode id ++ [cDot] ++ qid
  | LScript id => s_s ++ [cDot] ++ hex_encode id ++ [cDot] ++ qid
  | LREPL => s_REPL ++ [cDot] ++ qid
  end.

(* strings.SplitN(s, ".", n) for n >= 1: at most n pieces, the last one unsplit *)
Fixpoint split_first (s : str) (acc : str) : option (str * str) :=   (* piece before the first '.', rest after it *)
  match s with
  | [] => None
  | c :: r => if c =? cDot then Some (rev acc, r) else split_first r (c :: acc)
  end.
Fixpoint split_n (n : nat) (s : str) : list str :=
  match n with
  | O => []
  | S O => [s]
  | S n' => match split_first s [] with
            | Some (p, r) => p :: split_n n' r
            | None => [s]
            end
  end.

Definition pad_left (n : nat) (l : list Z) : list Z := repeat 0 (n - length l) ++ l.
Definition fit_right (n : nat) (l : list Z) : list Z := firstn n (l ++ repeat 0 n).

Definition first_piece (s : str) : str :=
  match split_first s [] with Some (p, _) => p | None => s end.

(* decodeAddressLocationTypeID *)
Definition decode_address (id : str) : res (loc * str) :=
  match split_n 4 id with
  | [_] => Err UserOther                                  (* missing location *)
  | _ :: h :: rest =>
      match hex_decode h with
      | None => Err UserOther
      | Some raw =>
          let '(name, qid) :=
            match rest with
            | [] => ([], [])
            | [n] => (n, n)
            | n :: r :: _ => (n, n ++ [cDot] ++ r)
            end in
          if (8 <? Z.of_nat (length raw)) then Err UserOther       (* ErrAddressOverflow *)
          else Ok (LAddress (pad_left 8 raw) name, qid)
      end
  | [] => Err Internal
  end.

(* decodeStringLocationTypeID / decodeIdentifierLocationTypeID *)
Definition decode_named (mk : str -> loc) (id : str) : res (loc * str) :=
  match split_n 3 id with
  | [_] => Err UserOther
  | _ :: l :: rest => Ok (mk l, match rest with q :: _ => q | [] => [] end)
  | [] => Err Internal
  end.

(* decodeTransactionLocationTypeID / decodeScriptLocationTypeID; copy(result[:], location)
   truncates / zero-pads on the right to 32 bytes *)
Definition decode_hexid (mk : list Z -> loc) (id : str) : res (loc * str) :=
  match split_n 3 id with
  | [_] => Err UserOther
  | _ :: h :: rest =>
      match hex_decode h with
      | None => Err UserOther
      | Some raw => Ok (mk (fit_right 32 raw), match rest with q :: _ => q | [] => [] end)
      end
  | [] => Err Internal
  end.

(* decodeREPLLocationTypeID *)
Definition decode_repl (id : str) : res (loc * str) :=
  match split_n 2 id with
  | [_] => Ok (LREPL, [])
  | _ :: q :: _ => Ok (LREPL, q)
  | [] => Err Internal
  end.

(* common.DecodeTypeID with the registered decoders; every error is a user error *)
Definition decode_type_id (id : str) : res (loc * str) :=
  let prefix := first_piece id in
  if str_eqb prefix s_A then decode_address id
  else if str_eqb prefix s_S then decode_named LString id
  else if str_eqb prefix s_I then decode_named LIdentifier id
  else if str_eqb prefix s_t then decode_hexid LTransaction id
  else if str_eqb prefix s_s then decode_hexid LScript id
  else if str_eqb prefix s_REPL then decode_repl id
  else Ok (LNone, id).

(* ------------------------------------------------------------------------------------------ *)
(* nominal types: location + qualified identifier *)
Record nominal : Type := { n_loc : loc; n_qid : str }.
Definition nom_id (n : nominal) : str := encode_type_id (n_loc n) (n_qid n).

Inductive ckind : Type := KStruct | KResource | KContract | KEnum | KEvent | KAttachment.

(* ---------------- checker types *)
Inductive sauth : Type :=
| SUnauth
| SSet (cj : bool) (ents : list nominal)
| SMap (m : nominal).

Inductive sty : Type :=
| SPrim (name : str)
| SOpt (t : sty)
| SVar (t : sty)
| SConst (t : sty) (n : Z)
| SDict (k v : sty)
| SRef (a : sauth) (t : sty)
| SInter (ifaces : list (ckind * nominal))
| SComp (k : ckind) (n : nominal)
| SIface (k : ckind) (n : nominal)
| SCap (b : option sty)
| SFun (view : bool) (tparams : list (str * option sty)) (params : list sty) (ret : sty)
| SRange (m : sty).

Definition set_id (cj : bool) (ids : list str) : str :=
  join (if cj then [cComma] else [cBar]) (sort_strs ids).

Definition fmt_ref (authorization : str) (inner : str) : str :=
  match authorization with
  | [] => cAmp :: inner
  | _ => s_auth ++ authorization ++ [cRPar] ++ [cAmp] ++ inner
  end.

Definition fmt_cap (inner : str) : str :=
  match inner with [] => s_Capability | _ => s_Capability ++ [cLt] ++ inner ++ [cGt] end.

Definition fmt_fun (purity : str) (tps : list str) (ps : list str) (ret : str) : str :=
  (match purity with [] => [] | _ => purity ++ [cSpace] end)
  ++ s_fun
  ++ (match tps with [] => [] | _ => [cLt] ++ join [cComma] tps ++ [cGt] end)
  ++ [cLPar] ++ join [cComma] ps ++ [cRPar; cColon] ++ ret.

Definition fmt_inter (ids : list str) : str := [cLCur] ++ join [cComma] ids ++ [cRCur].

Definition sauth_id (a : sauth) : str :=
  match a with
  | SUnauth => []
  | SSet cj ents => set_id cj (map nom_id ents)
  | SMap m => nom_id m
  end.

Fixpoint id_sema (t : sty) : str :=
  match t with
  | SPrim name => name
  | SOpt x => [cLPar] ++ id_sema x ++ [cRPar; cQ]
  | SVar x => [cLBr] ++ id_sema x ++ [cRBr]
  | SConst x n => [cLBr] ++ id_sema x ++ [cSemi] ++ dec_str n ++ [cRBr]
  | SDict k v => [cLCur] ++ id_sema k ++ [cColon] ++ id_sema v ++ [cRCur]
  | SRef a x => fmt_ref (sauth_id a) (id_sema x)
  | SInter ifaces => fmt_inter (sort_strs (map (fun kn => nom_id (snd kn)) ifaces))
  | SComp _ n | SIface _ n => nom_id n
  | SCap b => fmt_cap (match b with Some x => id_sema x | None => [] end)
  | SFun view tps ps r =>
      fmt_fun (if view then s_view else [])
        ((fix go (l : list (str * option sty)) : list str :=
            match l with
            | [] => []
            | (nm, b) :: l' => (nm ++ match b with Some x => cColon :: id_sema x | None => [] end) :: go l'
            end) tps)
        ((fix go (l : list sty) : list str := match l with [] => [] | x :: l' => id_sema x :: go l' end) ps)
        (id_sema r)
  | SRange m => s_InclusiveRange ++ [cLt] ++ id_sema m ++ [cGt]
  end.

(* ---------------- run-time static types *)
Inductive tauth : Type :=
| TUnauth
| TSet (cj : bool) (ids : list str)
| TMap (id : str).

Inductive tty : Type :=
| TPrimS (name : str)
| TOptS (t : tty)
| TVarS (t : tty)
| TConstS (t : tty) (n : Z)
| TDictS (k v : tty)
| TRefS (a : tauth) (t : tty)
| TInterS (ifaces : list (loc * str * str))         (* InterfaceStaticType: location, qualified identifier, type ID *)
| TCompS (l : loc) (qid : str) (id : str)
| TIfaceS (l : loc) (qid : str) (id : str)
| TCapS (b : option tty)
| TFunS (f : sty)                                   (* FunctionStaticType wraps the checker's function type *)
| TRangeS (m : tty).

Definition tauth_id (a : tauth) : str :=
  match a with
  | TUnauth => []
  | TSet cj ids => set_id cj ids
  | TMap id => id
  end.

Fixpoint id_static (t : tty) : str :=
  match t with
  | TPrimS name => name
  | TOptS x => [cLPar] ++ id_static x ++ [cRPar; cQ]
  | TVarS x => [cLBr] ++ id_static x ++ [cRBr]
  | TConstS x n => [cLBr] ++ id_static x ++ [cSemi] ++ dec_str n ++ [cRBr]
  | TDictS k v => [cLCur] ++ id_static k ++ [cColon] ++ id_static v ++ [cRCur]
  | TRefS a x => fmt_ref (tauth_id a) (id_static x)
  | TInterS ifaces =>
      match ifaces with
      | [(_, _, id)] => [cLCur] ++ id ++ [cRCur]            (* FormatIntersectionTypeIDWithSingleInterface *)
      | _ => fmt_inter (sort_strs (map (fun i => snd i) ifaces))
      end
  | TCompS _ _ id | TIfaceS _ _ id => id
  | TCapS b => fmt_cap (match b with Some x => id_static x | None => [] end)
  | TFunS f => id_sema f
  | TRangeS m => s_InclusiveRange ++ [cLt] ++ id_static m ++ [cGt]
  end.

(* ---------------- exported external types *)
Inductive cauth : Type :=
| CUnauth
| CSet (cj : bool) (ids : list str)
| CMap (id : str).

Inductive cty : Type :=
| CPrim (name : str)
| COpt (t : cty)
| CVar (t : cty)
| CConst (t : cty) (n : Z)
| CDict (k v : cty)
| CRef (a : cauth) (t : cty)
| CInter (types : list cty)
| CComposite (k : ckind) (l : loc) (qid : str)
| CInterface (k : ckind) (l : loc) (qid : str)
| CCap (b : option cty)
| CFun (view : bool) (tparams : list (str * option cty)) (params : list cty) (ret : cty)
| CRange (m : cty).

Definition cauth_id (a : cauth) : str :=
  match a with
  | CUnauth => []
  | CSet cj ids => set_id cj ids
  | CMap id => id
  end.

Fixpoint id_cadence (t : cty) : str :=
  match t with
  | CPrim name => name
  | COpt x => [cLPar] ++ id_cadence x ++ [cRPar; cQ]
  | CVar x => [cLBr] ++ id_cadence x ++ [cRBr]
  | CConst x n => [cLBr] ++ id_cadence x ++ [cSemi] ++ dec_str n ++ [cRBr]
  | CDict k v => [cLCur] ++ id_cadence k ++ [cColon] ++ id_cadence v ++ [cRCur]
  | CRef a x => fmt_ref (cauth_id a) (id_cadence x)
  | CInter types =>
      fmt_inter (sort_strs ((fix go (l : list cty) : list str := match l with [] => [] | x :: l' => id_cadence x :: go l' end) types))
  | CComposite _ l qid | CInterface _ l qid => encode_type_id l qid
  | CCap b => fmt_cap (match b with Some x => id_cadence x | None => [] end)
  | CFun view tps ps r =>
      fmt_fun (if view then s_view else [])
        ((fix go (l : list (str * option cty)) : list str :=
            match l with
            | [] => []
            | (nm, b) :: l' => (nm ++ match b with Some x => cColon :: id_cadence x | None => [] end) :: go l'
            end) tps)
        ((fix go (l : list cty) : list str := match l with [] => [] | x :: l' => id_cadence x :: go l' end) ps)
        (id_cadence r)
  | CRange m => s_InclusiveRange ++ [cLt] ++ id_cadence m ++ [cGt]
  end.

(* ------------------------------------------------------------------------------------------ *)
(* conversions *)
Definition to_static_auth (a : sauth) : tauth :=
  match a with
  | SUnauth => TUnauth
  | SSet cj ents => TSet cj (map nom_id ents)
  | SMap m => TMap (nom_id m)
  end.

Definition iface_static (kn : ckind * nominal) : loc * str * str :=
  (n_loc (snd kn), n_qid (snd kn), nom_id (snd kn)).

(* interpreter.ConvertSemaToStaticType *)
Fixpoint to_static (t : sty) : tty :=
  match t with
  | SPrim name => TPrimS name
  | SOpt x => TOptS (to_static x)
  | SVar x => TVarS (to_static x)
  | SConst x n => TConstS (to_static x) n
  | SDict k v => TDictS (to_static k) (to_static v)
  | SRef a x => TRefS (to_static_auth a) (to_static x)
  | SInter ifaces => TInterS (map iface_static ifaces)
  | SComp _ n => TCompS (n_loc n) (n_qid n) (nom_id n)
  | SIface _ n => TIfaceS (n_loc n) (n_qid n) (nom_id n)
  | SCap b => TCapS (match b with Some x => Some (to_static x) | None => None end)
  | SFun _ _ _ _ => TFunS t
  | SRange m => TRangeS (to_static m)
  end.

Definition export_auth (a : sauth) : cauth :=
  match a with
  | SUnauth => CUnauth
  | SSet cj ents => CSet cj (map nom_id ents)
  | SMap m => CMap (nom_id m)
  end.

(* runtime.ExportType *)
Fixpoint export (t : sty) : cty :=
  match t with
  | SPrim name => CPrim name
  | SOpt x => COpt (export x)
  | SVar x => CVar (export x)
  | SConst x n => CConst (export x) n
  | SDict k v => CDict (export k) (export v)
  | SRef a x => CRef (export_auth a) (export x)
  | SInter ifaces => CInter (map (fun kn => CInterface (fst kn) (n_loc (snd kn)) (n_qid (snd kn))) ifaces)
  | SComp k n => CComposite k (n_loc n) (n_qid n)
  | SIface k n => CInterface k (n_loc n) (n_qid n)
  | SCap b => CCap (match b with Some x => Some (export x) | None => None end)
  | SFun view tps ps r =>
      CFun view
        ((fix go (l : list (str * option sty)) : list (str * option cty) :=
            match l with
            | [] => []
            | (nm, b) :: l' => (nm, match b with Some x => Some (export x) | None => None end) :: go l'
            end) tps)
        ((fix go (l : list sty) : list cty := match l with [] => [] | x :: l' => export x :: go l' end) ps)
        (export r)
  | SRange m => CRange (export m)
  end.

Definition import_auth (a : cauth) : tauth :=
  match a with
  | CUnauth => TUnauth
  | CSet cj ids => TSet cj ids
  | CMap id => TMap id
  end.

(* runtime.ImportType; attachment and function types hit the default case, a Go panic *)
Fixpoint import (t : cty) : res tty :=
  match t with
  | CPrim name => Ok (TPrimS name)
  | COpt x => let* y := import x in Ok (TOptS y)
  | CVar x => let* y := import x in Ok (TVarS y)
  | CConst x n => let* y := import x in Ok (TConstS y n)
  | CDict k v => let* a := import k in let* b := import v in Ok (TDictS a b)
  | CRef a x => let* y := import x in Ok (TRefS (import_auth a) y)
  | CInter types =>
      let* l := (fix go (l : list cty) : res (list (loc * str * str)) :=
                   match l with
                   | [] => Ok []
                   | CInterface _ lo qid :: l' => let* r := go l' in Ok ((lo, qid, encode_type_id lo qid) :: r)
                   | _ :: _ => Err Crash
                   end) types in
      Ok (TInterS l)
  | CComposite KAttachment _ _ => Err Crash
  | CComposite _ l qid => Ok (TCompS l qid (encode_type_id l qid))
  | CInterface _ l qid => Ok (TIfaceS l qid (encode_type_id l qid))
  | CCap None => Ok (TCapS None)
  | CCap (Some x) => let* y := import x in Ok (TCapS (Some y))
  | CFun _ _ _ _ => Err Crash
  | CRange m => let* y := import m in Ok (TRangeS y)
  end.

(* the declarations a type converter can see: kind of a composite / interface at a location and
   qualified identifier; entitlements and mappings are found by decoding their type ID *)
Record tenv : Type := {
  comp_kind_of : loc -> str -> option ckind;
  iface_kind_of : loc -> str -> option ckind;
  ent_exists : loc -> str -> bool;
  map_exists : loc -> str -> bool
}.

Definition lookup_ent (E : tenv) (id : str) : option nominal :=
  match decode_type_id id with
  | Ok (l, q) => if ent_exists E l q then Some {| n_loc := l; n_qid := q |} else None
  | Err _ => None
  end.

Definition lookup_map (E : tenv) (id : str) : option nominal :=
  match decode_type_id id with
  | Ok (l, q) => if map_exists E l q then Some {| n_loc := l; n_qid := q |} else None
  | Err _ => None
  end.

Fixpoint all_some {A} (l : list (option A)) : option (list A) :=
  match l with
  | [] => Some []
  | Some x :: r => match all_some r with Some r' => Some (x :: r') | None => None end
  | None :: _ => None
  end.

Definition to_sema_auth (E : tenv) (a : tauth) : option sauth :=
  match a with
  | TUnauth => Some SUnauth
  | TSet cj ids => match all_some (map (lookup_ent E) ids) with Some es => Some (SSet cj es) | None => None end
  | TMap id => match lookup_map E id with Some m => Some (SMap m) | None => None end
  end.

(* interpreter.ConvertStaticToSemaType *)
Fixpoint to_sema (E : tenv) (t : tty) : option sty :=
  match t with
  | TPrimS name => Some (SPrim name)
  | TOptS x => match to_sema E x with Some y => Some (SOpt y) | None => None end
  | TVarS x => match to_sema E x with Some y => Some (SVar y) | None => None end
  | TConstS x n => match to_sema E x with Some y => Some (SConst y n) | None => None end
  | TDictS k v => match to_sema E k, to_sema E v with Some a, Some b => Some (SDict a b) | _, _ => None end
  | TRefS a x => match to_sema_auth E a, to_sema E x with Some a', Some y => Some (SRef a' y) | _, _ => None end
  | TInterS ifaces =>
      match all_some (map (fun i => let '(l, q, _) := i in
                             match iface_kind_of E l q with
                             | Some k => Some (k, {| n_loc := l; n_qid := q |})
                             | None => None
                             end) ifaces) with
      | Some l => Some (SInter l)
      | None => None
      end
  | TCompS l q _ => match comp_kind_of E l q with Some k => Some (SComp k {| n_loc := l; n_qid := q |}) | None => None end
  | TIfaceS l q _ => match iface_kind_of E l q with Some k => Some (SIface k {| n_loc := l; n_qid := q |}) | None => None end
  | TCapS None => Some (SCap None)
  | TCapS (Some x) => match to_sema E x with Some y => Some (SCap (Some y)) | None => None end
  | TFunS f => Some f
  | TRangeS m => match to_sema E m with Some y => Some (SRange y) | None => None end
  end.

(* ------------------------------------------------------------------------------------------ *)
(* run-time type constructors (interpreter.Construct*TypeValue): the static types they build *)
Definition mk_optional (t : tty) : tty := TOptS t.
Definition mk_variable_array (t : tty) : tty := TVarS t.
Definition mk_constant_array (t : tty) (n : Z) : tty := TConstS t n.
Definition mk_dictionary (k v : tty) : tty := TDictS k v.
Definition mk_reference (entitlement_ids : list str) (t : tty) : tty :=
  TRefS (match entitlement_ids with [] => TUnauth | _ => TSet true entitlement_ids end) t.
Definition mk_intersection (ifaces : list (ckind * nominal)) : tty := TInterS (map iface_static ifaces).
Definition mk_capability (t : tty) : tty := TCapS (Some t).
Definition mk_inclusive_range (t : tty) : tty := TRangeS t.
