(* C45 — proofs: the three type-ID printers coincide through the conversions, the checker ->
   run-time -> checker conversion is the identity, export followed by import gives the static type,
   and type IDs decode to the location and qualified identifier they were built from. *)
From Coq Require Import ZArith List Bool Lia.
From CV Require Import Base.Prelude C45.Model.
Import ListNotations.
Open Scope Z_scope.

(* ---------------------------------------------------------------- induction on checker types *)
Section StyInd.
  Variable P : sty -> Prop.
  Definition Pb (o : option sty) : Prop := match o with Some t => P t | None => True end.
  Hypothesis HPrim : forall n, P (SPrim n).
  Hypothesis HOpt : forall t, P t -> P (SOpt t).
  Hypothesis HVar : forall t, P t -> P (SVar t).
  Hypothesis HConst : forall t n, P t -> P (SConst t n).
  Hypothesis HDict : forall k v, P k -> P v -> P (SDict k v).
  Hypothesis HRef : forall a t, P t -> P (SRef a t).
  Hypothesis HInter : forall l, P (SInter l).
  Hypothesis HComp : forall k n, P (SComp k n).
  Hypothesis HIface : forall k n, P (SIface k n).
  Hypothesis HCap : forall b, Pb b -> P (SCap b).
  Hypothesis HFun : forall v tps ps r, Forall (fun x => Pb (snd x)) tps -> Forall P ps -> P r -> P (SFun v tps ps r).
  Hypothesis HRange : forall m, P m -> P (SRange m).

  Fixpoint sty_ind' (t : sty) : P t :=
    match t with
    | SPrim n => HPrim n
    | SOpt x => HOpt x (sty_ind' x)
    | SVar x => HVar x (sty_ind' x)
    | SConst x n => HConst x n (sty_ind' x)
    | SDict k v => HDict k v (sty_ind' k) (sty_ind' v)
    | SRef a x => HRef a x (sty_ind' x)
    | SInter l => HInter l
    | SComp k n => HComp k n
    | SIface k n => HIface k n
    | SCap b => HCap b (match b return Pb b with Some x => sty_ind' x | None => I end)
    | SFun v tps ps r =>
        HFun v tps ps r
          ((fix go (l : list (str * option sty)) : Forall (fun x => Pb (snd x)) l :=
              match l with
              | [] => Forall_nil _
              | x :: xs => Forall_cons x (match snd x as o return Pb o with Some y => sty_ind' y | None => I end) (go xs)
              end) tps)
          ((fix go (l : list sty) : Forall P l :=
              match l with [] => Forall_nil _ | x :: xs => Forall_cons x (sty_ind' x) (go xs) end) ps)
          (sty_ind' r)
    | SRange m => HRange m (sty_ind' m)
    end.
End StyInd.

(* ---------------------------------------------------------------- IDs coincide *)
Lemma tauth_id_to_static a : tauth_id (to_static_auth a) = sauth_id a.
Proof. destruct a; reflexivity. Qed.

Lemma cauth_id_export a : cauth_id (export_auth a) = sauth_id a.
Proof. destruct a; reflexivity. Qed.

Lemma sort_single x : sort_strs [x] = [x].
Proof. reflexivity. Qed.

Lemma id_static_inter ifaces :
  id_static (TInterS (map iface_static ifaces)) = fmt_inter (sort_strs (map (fun kn => nom_id (snd kn)) ifaces)).
Proof.
  destruct ifaces as [|x [|y l]]; try reflexivity.
  cbn [map id_static]. unfold fmt_inter. f_equal. f_equal. f_equal.
  rewrite !map_map. reflexivity.
Qed.

Theorem id_static_to_static t : id_static (to_static t) = id_sema t.
Proof.
  induction t using sty_ind'; try reflexivity;
    try (cbn [to_static id_static id_sema]; rewrite ?IHt, ?IHt1, ?IHt2; reflexivity).
  - cbn [to_static id_static id_sema]. rewrite tauth_id_to_static, IHt. reflexivity.
  - cbn [to_static]. apply id_static_inter.
  - destruct b as [x|]; [|reflexivity]. cbn [to_static id_static id_sema]. simpl in H. rewrite H. reflexivity.
Qed.

Lemma export_params_ids ps :
  Forall (fun t => id_cadence (export t) = id_sema t) ps ->
  (fix go (l : list cty) : list str := match l with [] => [] | x :: l' => id_cadence x :: go l' end)
    ((fix go (l : list sty) : list cty := match l with [] => [] | x :: l' => export x :: go l' end) ps)
  = (fix go (l : list sty) : list str := match l with [] => [] | x :: l' => id_sema x :: go l' end) ps.
Proof. induction 1; [reflexivity|]. rewrite H, IHForall. reflexivity. Qed.

Lemma export_tparams_ids tps :
  Forall (fun x : str * option sty => Pb (fun t => id_cadence (export t) = id_sema t) (snd x)) tps ->
  (fix go (l : list (str * option cty)) : list str :=
     match l with
     | [] => []
     | (nm, b) :: l' => (nm ++ match b with Some x => cColon :: id_cadence x | None => [] end) :: go l'
     end)
    ((fix go (l : list (str * option sty)) : list (str * option cty) :=
        match l with
        | [] => []
        | (nm, b) :: l' => (nm, match b with Some x => Some (export x) | None => None end) :: go l'
        end) tps)
  = (fix go (l : list (str * option sty)) : list str :=
       match l with
       | [] => []
       | (nm, b) :: l' => (nm ++ match b with Some x => cColon :: id_sema x | None => [] end) :: go l'
       end) tps.
Proof.
  induction 1 as [|[nm b] l Hx Hl IH]; [reflexivity|]. rewrite IH.
  destruct b as [x|]; simpl in Hx; [rewrite Hx|]; reflexivity.
Qed.

Lemma id_cadence_inter ifaces :
  (fix go (l : list cty) : list str := match l with [] => [] | x :: l' => id_cadence x :: go l' end)
    (map (fun kn : ckind * nominal => CInterface (fst kn) (n_loc (snd kn)) (n_qid (snd kn))) ifaces)
  = map (fun kn => nom_id (snd kn)) ifaces.
Proof. induction ifaces as [|x l IH]; [reflexivity|]. simpl. rewrite IH. reflexivity. Qed.

Theorem id_cadence_export t : id_cadence (export t) = id_sema t.
Proof.
  induction t using sty_ind'; try reflexivity;
    try (cbn [export id_cadence id_sema]; rewrite ?IHt, ?IHt1, ?IHt2; reflexivity).
  - cbn [export id_cadence id_sema]. rewrite cauth_id_export, IHt. reflexivity.
  - cbn [export id_cadence id_sema]. rewrite id_cadence_inter. reflexivity.
  - destruct b as [x|]; [|reflexivity]. cbn [export id_cadence id_sema]. simpl in H. rewrite H. reflexivity.
  - cbn [export id_cadence id_sema]. rewrite export_params_ids by assumption.
    rewrite export_tparams_ids by assumption. rewrite IHt. reflexivity.
Qed.

Corollary three_ids_coincide t :
  id_static (to_static t) = id_sema t /\ id_cadence (export t) = id_sema t.
Proof. split; [apply id_static_to_static | apply id_cadence_export]. Qed.

(* ---------------------------------------------------------------- checker -> run-time -> checker *)
Definition nom_ok_ent (E : tenv) (n : nominal) : Prop := lookup_ent E (nom_id n) = Some n.
Definition nom_ok_map (E : tenv) (n : nominal) : Prop := lookup_map E (nom_id n) = Some n.

Definition auth_ok (E : tenv) (a : sauth) : Prop :=
  match a with
  | SUnauth => True
  | SSet _ ents => Forall (nom_ok_ent E) ents
  | SMap m => nom_ok_map E m
  end.

(* every nominal type mentioned by t (outside function types, which are carried over unchanged) is
   known to the environment under its kind *)
Fixpoint env_ok (E : tenv) (t : sty) : Prop :=
  match t with
  | SPrim _ => True
  | SOpt x | SVar x | SConst x _ | SRange x => env_ok E x
  | SDict k v => env_ok E k /\ env_ok E v
  | SRef a x => auth_ok E a /\ env_ok E x
  | SInter ifaces => Forall (fun kn => iface_kind_of E (n_loc (snd kn)) (n_qid (snd kn)) = Some (fst kn)) ifaces
  | SComp k n => comp_kind_of E (n_loc n) (n_qid n) = Some k
  | SIface k n => iface_kind_of E (n_loc n) (n_qid n) = Some k
  | SCap b => match b with Some x => env_ok E x | None => True end
  | SFun _ _ _ _ => True
  end.

Lemma nominal_eta n : {| n_loc := n_loc n; n_qid := n_qid n |} = n.
Proof. destruct n; reflexivity. Qed.

Lemma to_sema_auth_to_static E a : auth_ok E a -> to_sema_auth E (to_static_auth a) = Some a.
Proof.
  destruct a as [|cj ents|m]; simpl; intros H; auto.
  - assert (Hs : all_some (map (lookup_ent E) (map nom_id ents)) = Some ents).
    { induction H as [|x l Hx Hl IH]; [reflexivity|]. simpl. unfold nom_ok_ent in Hx. rewrite Hx, IH. reflexivity. }
    rewrite Hs. reflexivity.
  - unfold nom_ok_map in H. rewrite H. reflexivity.
Qed.

Theorem to_sema_to_static E t : env_ok E t -> to_sema E (to_static t) = Some t.
Proof.
  induction t using sty_ind'; intros Hok; try reflexivity; cbn [to_static to_sema env_ok] in *.
  - rewrite IHt by assumption. reflexivity.
  - rewrite IHt by assumption. reflexivity.
  - rewrite IHt by assumption. reflexivity.
  - destruct Hok. rewrite IHt1, IHt2 by assumption. reflexivity.
  - destruct Hok as [Ha Ht]. rewrite to_sema_auth_to_static, IHt by assumption. reflexivity.
  - assert (Hs : all_some (map (fun i : loc * str * str => let '(l0, q, _) := i in
                             match iface_kind_of E l0 q with
                             | Some k => Some (k, {| n_loc := l0; n_qid := q |})
                             | None => None
                             end) (map iface_static l)) = Some l).
    { induction Hok as [|[k n] r Hx Hr IH]; [reflexivity|]. simpl in *. rewrite Hx, IH, nominal_eta. reflexivity. }
    rewrite Hs. reflexivity.
  - rewrite Hok, nominal_eta. reflexivity.
  - rewrite Hok, nominal_eta. reflexivity.
  - destruct b as [x|]; [|reflexivity]. simpl in H. rewrite H by assumption. reflexivity.
  - rewrite IHt by assumption. reflexivity.
Qed.

(* ---------------------------------------------------------------- export then import *)
Fixpoint importable (t : sty) : bool :=
  match t with
  | SPrim _ => true
  | SOpt x | SVar x | SConst x _ | SRange x | SRef _ x => importable x
  | SDict k v => importable k && importable v
  | SInter _ => true
  | SComp k _ => match k with KAttachment => false | _ => true end
  | SIface _ _ => true
  | SCap b => match b with Some x => importable x | None => true end
  | SFun _ _ _ _ => false
  end.

Lemma import_auth_export a : import_auth (export_auth a) = to_static_auth a.
Proof. destruct a; reflexivity. Qed.

Theorem import_export t : importable t = true -> import (export t) = Ok (to_static t).
Proof.
  induction t using sty_ind'; intros Hi; try reflexivity; cbn [export import to_static importable] in *;
    try discriminate Hi.
  - rewrite IHt by assumption. reflexivity.
  - rewrite IHt by assumption. reflexivity.
  - rewrite IHt by assumption. reflexivity.
  - apply andb_true_iff in Hi. destruct Hi. rewrite IHt1, IHt2 by assumption. reflexivity.
  - rewrite IHt by assumption. simpl. rewrite import_auth_export. reflexivity.
  - assert (Hs : (fix go (l0 : list cty) : res (list (loc * str * str)) :=
                   match l0 with
                   | [] => Ok []
                   | CInterface _ lo qid :: l' => let* r := go l' in Ok ((lo, qid, encode_type_id lo qid) :: r)
                   | _ :: _ => Err Crash
                   end)
                  (map (fun kn : ckind * nominal => CInterface (fst kn) (n_loc (snd kn)) (n_qid (snd kn))) l)
                = Ok (map iface_static l)).
    { induction l as [|x r IH]; [reflexivity|]. simpl. rewrite IH. reflexivity. }
    rewrite Hs. reflexivity.
  - destruct k; try discriminate Hi; reflexivity.
  - destruct b as [x|]; [|reflexivity]. simpl in H. rewrite H by assumption. reflexivity.
  - rewrite IHt by assumption. reflexivity.
Qed.

(* attachment and function types cannot be imported: the Go function panics *)
Lemma import_attachment l q : import (export (SComp KAttachment {| n_loc := l; n_qid := q |})) = Err Crash.
Proof. reflexivity. Qed.

(* ---------------------------------------------------------------- run-time type constructors *)
Theorem constructors_build_static :
  (forall t, mk_optional (to_static t) = to_static (SOpt t))
  /\ (forall t, mk_variable_array (to_static t) = to_static (SVar t))
  /\ (forall t n, mk_constant_array (to_static t) n = to_static (SConst t n))
  /\ (forall k v, mk_dictionary (to_static k) (to_static v) = to_static (SDict k v))
  /\ (forall t, mk_reference [] (to_static t) = to_static (SRef SUnauth t))
  /\ (forall e ents t, mk_reference (map nom_id (e :: ents)) (to_static t) = to_static (SRef (SSet true (e :: ents)) t))
  /\ (forall ifaces, mk_intersection ifaces = to_static (SInter ifaces))
  /\ (forall t, mk_capability (to_static t) = to_static (SCap (Some t)))
  /\ (forall t, mk_inclusive_range (to_static t) = to_static (SRange t)).
Proof. repeat split. Qed.
