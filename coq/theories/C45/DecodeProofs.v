(* C45 — DecodeTypeID inverts the location type-ID encoders, for every location kind, under the
   conditions stated in [wf_loc]; and a counterexample without them. *)
From Coq Require Import ZArith List Bool Lia.
From CV Require Import Base.Prelude C45.Model.
Import ListNotations.
Open Scope Z_scope.

Definition no_dot (s : str) : bool := forallb (fun c => negb (c =? cDot)) s.
Definition bytes_ok (bs : list Z) : Prop := Forall (fun b => 0 <= b < 256) bs.

Lemma split_first_app p r acc : no_dot p = true ->
  split_first (p ++ cDot :: r) acc = Some (rev acc ++ p, r).
Proof.
  revert acc. induction p as [|c p IH]; intros acc H; simpl.
  - rewrite ?Z.eqb_refl. rewrite app_nil_r. reflexivity.
  - simpl in H. apply andb_true_iff in H. destruct H as [Hc Hp]. apply negb_true_iff in Hc. rewrite Hc.
    rewrite IH by assumption. simpl. rewrite <- app_assoc. reflexivity.
Qed.

Lemma split_first_none s acc : no_dot s = true -> split_first s acc = None.
Proof.
  revert acc. induction s as [|c s IH]; intros acc H; simpl; [reflexivity|].
  simpl in H. apply andb_true_iff in H. destruct H as [Hc Hp]. apply negb_true_iff in Hc. rewrite Hc. auto.
Qed.

Lemma first_piece_app p r : no_dot p = true -> first_piece (p ++ cDot :: r) = p.
Proof. intros H. unfold first_piece. rewrite split_first_app by assumption. reflexivity. Qed.

Lemma hex_digit_val n : 0 <= n < 16 -> hex_val (hex_digit n) = Some n.
Proof.
  intros H. unfold hex_digit, hex_val.
  destruct (n <? 10) eqn:Hlt.
  - apply Z.ltb_lt in Hlt.
    replace ((48 <=? 48 + n) && (48 + n <=? 57)) with true
      by (symmetry; apply andb_true_iff; split; apply Z.leb_le; lia).
    f_equal. lia.
  - apply Z.ltb_ge in Hlt.
    replace ((48 <=? 87 + n) && (87 + n <=? 57)) with false
      by (symmetry; apply andb_false_iff; right; apply Z.leb_gt; lia).
    replace ((97 <=? 87 + n) && (87 + n <=? 102)) with true
      by (symmetry; apply andb_true_iff; split; apply Z.leb_le; lia).
    f_equal. lia.
Qed.

Lemma hex_digit_not_dot n : 0 <= n < 16 -> (hex_digit n =? cDot) = false.
Proof. intros H. unfold hex_digit, cDot. destruct (n <? 10); apply Z.eqb_neq; lia. Qed.

Lemma hex_decode_encode bs : bytes_ok bs -> hex_decode (hex_encode bs) = Some bs.
Proof.
  induction 1 as [|b bs Hb Hbs IH]; [reflexivity|].
  cbn [hex_encode hex_decode].
  assert (0 <= b / 16 < 16) by (split; [apply Z.div_pos; lia | apply Z.div_lt_upper_bound; lia]).
  assert (0 <= b mod 16 < 16) by (apply Z.mod_pos_bound; lia).
  rewrite !hex_digit_val, IH by assumption. f_equal. f_equal.
  rewrite Z.mul_comm. symmetry. apply Z.div_mod. lia.
Qed.

Lemma hex_encode_no_dot bs : bytes_ok bs -> no_dot (hex_encode bs) = true.
Proof.
  induction 1 as [|b bs Hb Hbs IH]; [reflexivity|]. cbn [hex_encode no_dot forallb].
  assert (0 <= b / 16 < 16) by (split; [apply Z.div_pos; lia | apply Z.div_lt_upper_bound; lia]).
  assert (0 <= b mod 16 < 16) by (apply Z.mod_pos_bound; lia).
  rewrite !hex_digit_not_dot by assumption. exact IH.
Qed.

Lemma hex_encode_length bs : length (hex_encode bs) = (2 * length bs)%nat.
Proof. induction bs; simpl; lia. Qed.

(* split_n 2 on a qualified identifier: its first piece and the rest *)
Lemma split2_qid q : exists rest,
  split_n 2 q = first_piece q :: rest
  /\ (match rest with
      | [] => q = first_piece q
      | r :: _ => q = first_piece q ++ [cDot] ++ r
      end).
Proof.
  unfold first_piece. cbn [split_n]. destruct (split_first q []) as [[p r]|] eqn:H.
  - exists [r]. split; [reflexivity|].
    (* q = p ++ "." ++ r *)
    assert (G : forall s acc p r, split_first s acc = Some (p, r) -> rev acc ++ s = p ++ cDot :: r).
    { clear. induction s as [|c s IH]; intros acc p r Hs; simpl in Hs; [discriminate|].
      destruct (c =? cDot) eqn:Hc.
      - apply Z.eqb_eq in Hc. inversion Hs; subst. reflexivity.
      - apply IH in Hs. simpl in Hs. rewrite <- app_assoc in Hs. exact Hs. }
    apply G in H. simpl in H. exact H.
  - exists []. split; reflexivity.
Qed.

Definition registered_prefix (p : str) : bool :=
  str_eqb p s_A || str_eqb p s_S || str_eqb p s_I || str_eqb p s_t || str_eqb p s_s || str_eqb p s_REPL.

(* the conditions under which a type ID decodes to what it was built from *)
Definition wf_loc (l : loc) (qid : str) : Prop :=
  match l with
  | LNone => registered_prefix (first_piece qid) = false
  | LAddress a name => bytes_ok a /\ length a = 8%nat /\ name = first_piece qid
        (* the contract name is not part of the ID: it is taken from the first identifier *)
  | LString s | LIdentifier s => no_dot s = true
  | LTransaction id | LScript id => bytes_ok id /\ length id = 32%nat
  | LREPL => True
  end.

Lemma fit_right_exact n l : length l = n -> fit_right n l = l.
Proof. intros H. unfold fit_right. rewrite firstn_app, H, Nat.sub_diag, firstn_all2 by lia. simpl. apply app_nil_r. Qed.

Lemma pad_left_exact n l : length l = n -> pad_left n l = l.
Proof. intros H. unfold pad_left. rewrite H, Nat.sub_diag. reflexivity. Qed.

Lemma decode_dispatch id p : first_piece id = p ->
  decode_type_id id =
    if str_eqb p s_A then decode_address id
    else if str_eqb p s_S then decode_named LString id
    else if str_eqb p s_I then decode_named LIdentifier id
    else if str_eqb p s_t then decode_hexid LTransaction id
    else if str_eqb p s_s then decode_hexid LScript id
    else if str_eqb p s_REPL then decode_repl id
    else Ok (LNone, id).
Proof. intros <-. reflexivity. Qed.

Lemma split_n_S n p r : no_dot p = true -> split_n (S (S n)) (p ++ cDot :: r) = p :: split_n (S n) r.
Proof. intros H. cbn [split_n]. rewrite split_first_app by assumption. reflexivity. Qed.

Theorem decode_encode l qid : wf_loc l qid -> decode_type_id (encode_type_id l qid) = Ok (l, qid).
Proof.
  destruct l as [|a name|s|s|id|id|]; intros H; simpl in H; unfold encode_type_id.
  - (* no location *)
    rewrite (decode_dispatch qid _ eq_refl). unfold registered_prefix in H.
    rewrite !orb_false_iff in H. destruct H as [[[[[H1 H2] H3] H4] H5] H6].
    rewrite H1, H2, H3, H4, H5, H6. reflexivity.
  - (* address *)
    destruct H as [Hb [Hl Hn]].
    change (s_A ++ [cDot] ++ hex_encode a ++ [cDot] ++ qid) with (s_A ++ cDot :: (hex_encode a ++ cDot :: qid)).
    rewrite (decode_dispatch _ s_A) by (apply first_piece_app; reflexivity).
    change (str_eqb s_A s_A) with true. cbv iota.
    unfold decode_address.
    rewrite split_n_S by reflexivity. rewrite split_n_S by (apply hex_encode_no_dot; assumption).
    rewrite hex_decode_encode by assumption.
    destruct (split2_qid qid) as [rest [Hs Hq]]. rewrite Hs.
    rewrite Hl. change (8 <? Z.of_nat 8) with false. cbv iota.
    rewrite pad_left_exact by assumption. subst name.
    destruct rest as [|r rest']; [|destruct rest']; f_equal; f_equal; symmetry; exact Hq.
  - (* string *)
    change (s_S ++ [cDot] ++ s ++ [cDot] ++ qid) with (s_S ++ cDot :: (s ++ cDot :: qid)).
    rewrite (decode_dispatch _ s_S) by (apply first_piece_app; reflexivity).
    change (str_eqb s_S s_A) with false. change (str_eqb s_S s_S) with true. cbv iota.
    unfold decode_named. rewrite split_n_S by reflexivity. rewrite split_n_S by assumption. reflexivity.
  - (* identifier *)
    change (s_I ++ [cDot] ++ s ++ [cDot] ++ qid) with (s_I ++ cDot :: (s ++ cDot :: qid)).
    rewrite (decode_dispatch _ s_I) by (apply first_piece_app; reflexivity).
    change (str_eqb s_I s_A) with false. change (str_eqb s_I s_S) with false. change (str_eqb s_I s_I) with true. cbv iota.
    unfold decode_named. rewrite split_n_S by reflexivity. rewrite split_n_S by assumption. reflexivity.
  - (* transaction *)
    destruct H as [Hb Hl].
    change (s_t ++ [cDot] ++ hex_encode id ++ [cDot] ++ qid) with (s_t ++ cDot :: (hex_encode id ++ cDot :: qid)).
    rewrite (decode_dispatch _ s_t) by (apply first_piece_app; reflexivity).
    change (str_eqb s_t s_A) with false. change (str_eqb s_t s_S) with false. change (str_eqb s_t s_I) with false.
    change (str_eqb s_t s_t) with true. cbv iota.
    unfold decode_hexid. rewrite split_n_S by reflexivity. rewrite split_n_S by (apply hex_encode_no_dot; assumption).
    rewrite hex_decode_encode by assumption. rewrite fit_right_exact by assumption. reflexivity.
  - (* script *)
    destruct H as [Hb Hl].
    change (s_s ++ [cDot] ++ hex_encode id ++ [cDot] ++ qid) with (s_s ++ cDot :: (hex_encode id ++ cDot :: qid)).
    rewrite (decode_dispatch _ s_s) by (apply first_piece_app; reflexivity).
    change (str_eqb s_s s_A) with false. change (str_eqb s_s s_S) with false. change (str_eqb s_s s_I) with false.
    change (str_eqb s_s s_t) with false. change (str_eqb s_s s_s) with true. cbv iota.
    unfold decode_hexid. rewrite split_n_S by reflexivity. rewrite split_n_S by (apply hex_encode_no_dot; assumption).
    rewrite hex_decode_encode by assumption. rewrite fit_right_exact by assumption. reflexivity.
  - (* REPL *)
    change (s_REPL ++ [cDot] ++ qid) with (s_REPL ++ cDot :: qid).
    rewrite (decode_dispatch _ s_REPL) by (apply first_piece_app; reflexivity).
    change (str_eqb s_REPL s_A) with false. change (str_eqb s_REPL s_S) with false. change (str_eqb s_REPL s_I) with false.
    change (str_eqb s_REPL s_t) with false. change (str_eqb s_REPL s_s) with false. change (str_eqb s_REPL s_REPL) with true. cbv iota.
    unfold decode_repl. rewrite split_n_S by reflexivity. reflexivity.
Qed.

(* the statement without side conditions is false: a string (or identifier) location containing a
   dot — e.g. the file name "foo.cdc" — is cut at its first dot *)
Definition decode_statement : Prop :=
  forall l qid, decode_type_id (encode_type_id l qid) = Ok (l, qid).

Definition foo_cdc : str := [102; 111; 111; 46; 99; 100; 99].   (* "foo.cdc" *)

Theorem decode_refuted :
  decode_type_id (encode_type_id (LString foo_cdc) [67]) = Ok (LString [102; 111; 111], [99; 100; 99; 46; 67])
  /\ ~ decode_statement.
Proof.
  split; [vm_compute; reflexivity|].
  intros H. specialize (H (LString foo_cdc) [67]). vm_compute in H. discriminate H.
Qed.
