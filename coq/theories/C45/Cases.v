(* C45 — check functions for the per-run case files. *)
From Coq Require Export ZArith List Bool.
From CV Require Export Base.Prelude C45.Model.
Export ListNotations.
Open Scope Z_scope.

Definition loc_eqb (a b : loc) : bool :=
  match a, b with
  | LNone, LNone | LREPL, LREPL => true
  | LAddress x n, LAddress y m => str_eqb x y && str_eqb n m
  | LString x, LString y | LIdentifier x, LIdentifier y => str_eqb x y
  | LTransaction x, LTransaction y | LScript x, LScript y => str_eqb x y
  | _, _ => false
  end.

Definition dec_eqb (a b : res (loc * str)) : bool :=
  res_eqb (fun x y => loc_eqb (fst x) (fst y) && str_eqb (snd x) (snd y)) a b.

Inductive decode_case : Type :=
| DEnc (l : loc) (qid : str) (observed_id : str) (observed_decode : res (loc * str))
| DRaw (id : str) (observed_decode : res (loc * str)).

Definition check_decode (c : decode_case) : bool :=
  match c with
  | DEnc l qid oid od => str_eqb (encode_type_id l qid) oid && dec_eqb (decode_type_id oid) od
  | DRaw id od => dec_eqb (decode_type_id id) od
  end.

(* (checker type, observed checker ID, observed static-type ID, observed exported-type ID,
   ImportType(ExportType t) succeeded) *)
Definition type_case : Type := (sty * str * str * str * bool)%type.

Definition check_type (c : type_case) : bool :=
  let '(t, osema, ostatic, ocadence, oimport) := c in
  str_eqb (id_sema t) osema
  && str_eqb (id_static (to_static t)) ostatic
  && str_eqb (id_cadence (export t)) ocadence
  && Bool.eqb (is_ok (import (export t))) oimport.
