(* C29 — check function for the correspondence case files, over the declarations of the contract C
   that the harness (harness/c29) deploys:
     struct interface I0 (0), I2 (1)
     struct S0: I0 {id: Int}                     composite 0     field names: id 0, tag 1, a 2, b 3,
     struct S1: I0, I2 {id: Int; tag: String?}   composite 1                  s 4, d 5, o 6, x 7
     struct S2 {a: [Int8]; b: AnyStruct; s: S0}  composite 2
     struct S3 {d: {String: UInt8}; o: S0?}      composite 3
     resource R0 {id: Int}                       composite 4
     event Ev(id: Int)                           composite 5
     enum En: UInt8 {a; b}  {rawValue: UInt8}    composite 6     field name rawValue 8
     struct S4 {m: {En: Int}; e: En}             composite 7     field names m 9, e 10
   type ids 8 (A.0000000000000002.C.S0) and 9 (A.0000000000000001.C.Nope) do not resolve. *)
From CV Require Export C29.Model.
Import ListNotations.
Open Scope Z_scope.

Definition D0 : env := {|
  comp_resource := fun c => Nat.eqb c 4;
  comp_conf := fun c => match c with 0%nat => [0%nat] | 1%nat => [0%nat; 1%nat] | _ => [] end;
  comp_enum := fun c => Nat.eqb c 6;
  iface_resource := fun _ => false;
  iface_supers := fun _ => [];
|}.

Definition E0 : cenv := {|
  base := D0;
  comp_declared := fun c => Nat.leb c 7;
  comp_kind := fun c => match c with 4%nat => KResource | 5%nat => KEvent | 6%nat => KEnum | _ => KStruct end;
  comp_fields := fun c =>
    match c with
    | 0%nat => [(0%nat, TPrim PInt)]
    | 1%nat => [(0%nat, TPrim PInt); (1%nat, TOpt (TPrim PString))]
    | 2%nat => [(2%nat, TVar (TPrim PInt8)); (3%nat, TPrim PAnyStruct); (4%nat, TComp 0)]
    | 3%nat => [(5%nat, TDict (TPrim PString) (TPrim PUInt8)); (6%nat, TOpt (TComp 0))]
    | 4%nat => [(0%nat, TPrim PInt)]
    | 5%nat => [(0%nat, TPrim PInt)]
    | 6%nat => [(8%nat, TPrim PUInt8)]
    | 7%nat => [(9%nat, TDict (TComp 6) (TPrim PInt)); (10%nat, TComp 6)]
    | _ => []
    end;
  comp_type_importable := fun c => Nat.leb c 3 || Nat.eqb c 6 || Nat.eqb c 7;
  raw_field := 8%nat;
|}.

(* sema.LeastCommonSuperType on the shapes the generator produces for untyped containers:
   all equal; numeric / path families; otherwise heterogeneous (resources and structs mixed: invalid) *)
Definition all_sub (ts : list ty) (p : prim) : bool := forallb (fun t => is_sub D0 t (TPrim p)) ts.

Definition lcs_base (ts : list ty) : option ty :=
  match ts with
  | [] => None
  | t :: r =>
      if forallb (ty_eqb D0 t) r then Some t
      else if all_sub ts PSignedInteger then Some (TPrim PSignedInteger)
      else if all_sub ts PFixedSizeUnsignedInteger then Some (TPrim PFixedSizeUnsignedInteger)
      else if all_sub ts PInteger then Some (TPrim PInteger)
      else if all_sub ts PSignedFixedPoint then Some (TPrim PSignedFixedPoint)
      else if all_sub ts PFixedPoint then Some (TPrim PFixedPoint)
      else if all_sub ts PSignedNumber then Some (TPrim PSignedNumber)
      else if all_sub ts PNumber then Some (TPrim PNumber)
      else if all_sub ts PCapabilityPath then Some (TPrim PCapabilityPath)
      else if all_sub ts PPath then Some (TPrim PPath)
      else
        let res := existsb (is_resource D0) ts in
        let str := existsb (fun t => negb (is_resource D0 t)) ts in
        if res && str then None
        else if res then Some (TPrim PAnyResource)
        else if forallb (is_hashable D0) ts then Some (TPrim PHashableStruct)
        else Some (TPrim PAnyStruct)
  end.

Fixpoint opt_depth (t : ty) : nat := match t with TOpt x => S (opt_depth x) | _ => O end.
Fixpoint wrap_n (n : nat) (t : ty) : ty := match n with O => t | S m => TOpt (wrap_n m t) end.

(* optional types among the elements: the supertype of the unwrapped types (Never dropped), re-wrapped
   to the deepest optional level unless it already admits nil (AnyStruct / AnyResource) *)
Definition lcs0 (ts : list ty) : option ty :=
  match ts with
  | [] => None
  | t :: r =>
      if forallb (ty_eqb D0 t) r then Some t
      else if existsb (fun x => match x with TOpt _ => true | _ => false end) ts then
        let us := filter (fun x => negb (is_prim x PNever)) (map unwrap_opt ts) in
        match lcs_base us with
        | None => None
        | Some u =>
            if is_prim u PAnyStruct || is_prim u PAnyResource then Some u
            else Some (wrap_n (fold_right Nat.max O (map opt_depth ts)) u)
        end
      else lcs_base ts
  end.

Inductive obs : Type :=
| OAccept (t : ty)        (* the script ran; run-time type of the argument it received *)
| OReject (k : rkind).

Definition rkind_eqb (a b : rkind) : bool :=
  match a, b with
  | RDecode, RDecode | RImport, RImport | RNotImportable, RNotImportable
  | RType, RType | RMalformed, RMalformed | RInternal, RInternal | RCopy, RCopy => true
  | _, _ => false
  end.

(* What the script observes: the argument is bound to the parameter (transfer with BoxOptional to the
   parameter type), then `x.getType()` *)
Fixpoint ibox_loop (val inner : ival) (t : ty) : ival :=
  match t with
  | TOpt t' =>
      match inner with
      | ISome i => ibox_loop val i t'
      | INil => inner
      | _ => ibox_loop (ISome val) inner t'
      end
  | _ => val
  end.
Definition ibox (v : ival) (t : ty) : ival := ibox_loop v v t.

Definition check_case (c : ty * xval * obs) : bool :=
  let '(T, x, o) := c in
  match validate E0 lcs0 T x, o with
  | Accept v, OAccept t => static_eqb (dyn_type (ibox v T)) t
  | Reject k, OReject k' => rkind_eqb k k'
  | _, _ => false
  end.
