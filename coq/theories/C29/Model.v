(* C29 — entry-point argument validation: external (decoded) argument values, the import function and
   the validation pipeline, transcribed from
     runtime/validation.go      importValidatedArguments
     runtime/convertValues.go   valueImporter.importValue, importOptionalValue, importArrayValue,
                                importDictionaryValue, importCompositeValue, importCapability, importTypeValue
     interpreter/value_*.go     IsImportable, ConformsToStaticType
   The type language and the two subtype tests are those of C09/Types.v.  Definitions only. *)
From CV Require Export C09.Types.
From CV Require Export C09.Model.   (* pathdom, path_ty, array_ty *)
Import ListNotations.
Open Scope Z_scope.

Inductive ckind : Type := KStruct | KResource | KEvent | KEnum | KContract.
Definition ckind_eqb (a b : ckind) : bool :=
  match a, b with
  | KStruct, KStruct | KResource, KResource | KEvent, KEvent | KEnum, KEnum | KContract, KContract => true
  | _, _ => false
  end.

(* declarations: the subtype environment plus what GetCompositeType returns for a composite type id *)
Record cenv : Type := {
  base : env;
  comp_declared : nat -> bool;            (* the type id resolves to a declared composite type *)
  comp_kind : nat -> ckind;               (* its declared kind *)
  comp_fields : nat -> list (nat * ty);   (* its fields: (name, declared type), in declaration order *)
  comp_type_importable : nat -> bool;     (* sema CompositeType.IsImportable *)
  raw_field : nat;                        (* the field name `rawValue` of enums *)
}.

(* ------------------------------------------------------------------ external values (cadence.Value) *)
Inductive xval : Type :=
| XVoid
| XNone
| XSome (x : xval)
| XBool (b : bool)
| XString (s : list Z)
| XChar (s : list Z)
| XAddress (a : Z)
| XNum (p : prim) (n : Z)               (* number tagged with its type; the JSON text may be out of range *)
| XPath (d : pathdom) (id : list Z)
| XType (t : option ty)                 (* type value; None: the type cannot be loaded *)
| XArray (l : list xval)                (* JSON-Cadence arrays and dictionaries carry no static type *)
| XDict (l : list (xval * xval))
| XComp (k : ckind) (c : nat) (fs : list (nat * xval))   (* kind tag, type id, fields in the order given *)
| XCap (b : ty) (addr id : Z)
| XFunction
| XContract.

(* ------------------------------------------------------------------ imported values *)
Inductive ival : Type :=
| IVoid
| INil
| ISome (v : ival)
| IBool (b : bool)
| IString (s : list Z)
| IChar (s : list Z)
| IAddress (a : Z)
| INum (p : prim) (n : Z)
| IPath (d : pathdom) (id : list Z)
| IType (t : ty)
| IArray (cs : option Z) (e : ty) (es : list ival)
| IDict (k w : ty) (kvs : list (ival * ival))
| IComp (k : ckind) (c : nat) (fs : list (nat * ival))   (* fields keyed by name *)
| ICap (b : ty) (addr id : Z).

Fixpoint dyn_type (v : ival) : ty :=
  match v with
  | IVoid => TPrim PVoid
  | INil => TOpt (TPrim PNever)
  | ISome x => TOpt (dyn_type x)
  | IBool _ => TPrim PBool
  | IString _ => TPrim PString
  | IChar _ => TPrim PCharacter
  | IAddress _ => TPrim PAddress
  | INum p _ => TPrim p
  | IPath d _ => path_ty d
  | IType _ => TPrim PMetaType
  | IArray cs e _ => array_ty cs e
  | IDict k w _ => TDict k w
  | IComp _ c _ => TComp c
  | ICap b _ _ => TCap b
  end.

(* ------------------------------------------------------------------ decoding stage (json.Decode):
   numbers must fit their type; everything else of the abstract value is accepted *)
Definition num_range (p : prim) : option (option Z * option Z) :=
  let s n := Some (Some (- 2 ^ (n - 1)), Some (2 ^ (n - 1) - 1)) in
  let u n := Some (Some 0, Some (2 ^ n - 1)) in
  match p with
  | PInt => Some (None, None)
  | PInt8 => s 8 | PInt16 => s 16 | PInt32 => s 32 | PInt64 => s 64 | PInt128 => s 128 | PInt256 => s 256
  | PUInt => Some (Some 0, None)
  | PUInt8 => u 8 | PUInt16 => u 16 | PUInt32 => u 32 | PUInt64 => u 64 | PUInt128 => u 128 | PUInt256 => u 256
  | PWord8 => u 8 | PWord16 => u 16 | PWord32 => u 32 | PWord64 => u 64 | PWord128 => u 128 | PWord256 => u 256
  | PFix64 => s 64 | PUFix64 => u 64       (* scaled by 10^8 *)
  | PFix128 => s 128 | PUFix128 => u 128   (* scaled by 10^24 *)
  | _ => None
  end.

Definition in_num_range (p : prim) (n : Z) : bool :=
  match num_range p with
  | None => false
  | Some (lo, hi) =>
      match lo with None => true | Some l => Z.leb l n end &&
      match hi with None => true | Some h => Z.leb n h end
  end.

Fixpoint decode_ok (x : xval) : bool :=
  match x with
  | XNum p n => in_num_range p n
  | XSome y => decode_ok y
  | XArray l => forallb decode_ok l
  | XDict l => forallb (fun kv => decode_ok (fst kv) && decode_ok (snd kv)) l
  | XComp _ _ fs => forallb (fun f => decode_ok (snd f)) fs
  | _ => true
  end.

Section WithEnv.
Variable E : cenv.
(* sema.LeastCommonSuperType over the run-time types of the elements; None = InvalidType.
   An oracle: the theorems hold for every such function. *)
Variable lcs : list ty -> option ty.

Notation D := (base E).

Fixpoint lookup {A} (n : nat) (l : list (nat * A)) : option A :=
  match l with
  | [] => None
  | (m, a) :: r => if Nat.eqb n m then Some a else lookup n r
  end.

(* NewCompositeValue: fields are set by name, a later field of the same name replaces the earlier *)
Fixpoint set_field (n : nat) (v : ival) (l : list (nat * ival)) : list (nat * ival) :=
  match l with
  | [] => [(n, v)]
  | (m, a) :: r => if Nat.eqb n m then (m, v) :: r else (m, a) :: set_field n v r
  end.

Definition hashable_struct := TPrim PHashableStruct.

(* ArrayValue.Transfer: an array whose static element type is one of the fixed-size simple types
   (canCopyNonRefSimpleForType) is copied with atree's CopyNonRefSimple, which fails with a CopyError
   ("can't copy container") if an element is a container; the error is raised as errors.ExternalError.
   A value is transferred when it is stored into an array, dictionary or composite field. *)
Definition simple_copy_prim (p : prim) : bool :=
  existsb (prim_beq p)
    [PBool; PAddress; PCharacter;
     PInt8; PInt16; PInt32; PInt64; PInt128; PInt256;
     PUInt8; PUInt16; PUInt32; PUInt64; PUInt128; PUInt256;
     PWord8; PWord16; PWord32; PWord64; PWord128; PWord256;
     PFix64; PFix128; PUFix64; PUFix128].

Definition is_container (v : ival) : bool :=
  match v with IArray _ _ _ | IDict _ _ _ | IComp _ _ _ => true | _ => false end.

(* CompositeValue.HashInput, reached when a value is inserted as a dictionary key (before any
   conformance check): only enums are hashable composites (any other kind: NewUnreachableError), the
   enum must have a `rawValue` field (else NewUnreachableError), and the raw value is type-asserted to
   HashableValue (a container raw value: Go runtime panic, reported as an unexpected internal error). *)
Definition scalar_hashable (v : ival) : bool :=
  match v with
  | IBool _ | IString _ | IChar _ | IAddress _ | INum _ _ | IPath _ _ | IType _ => true
  | _ => false
  end.

Definition hash_fails (k : ival) : bool :=
  match k with
  | IComp kind _ fs =>
      if ckind_eqb kind KEnum then
        match lookup (raw_field E) fs with
        | None => true
        | Some r => negb (scalar_hashable r)
        end
      else true
  | _ => false
  end.

Fixpoint copy_fails (v : ival) : bool :=
  match v with
  | ISome x => copy_fails x
  | IArray _ (TPrim p) es => simple_copy_prim p && existsb is_container es
  | _ => false
  end.

(* NewDictionaryValue inserts the pairs one by one; DictionaryValue.Insert transfers key and value (copy),
   checks them with checkContainerMutation (interpreter.IsSubType; ContainerMutationError is a user error
   that importValidatedArguments catches with UserPanicToError), then hashes the key *)
Fixpoint dict_insert (k w : ty) (all l : list (ival * ival)) : res ival :=
  match l with
  | [] => Ok (IDict k w all)
  | kv :: r =>
      if copy_fails (fst kv) || copy_fails (snd kv) then Err HostFail
      else if negb (is_sub_static D (dyn_type (fst kv)) k && is_sub_static D (dyn_type (snd kv)) w)
      then Err UserOther
      else if hash_fails (fst kv) then Err Internal
      else dict_insert k w all r
  end.

(* valueImporter.importValue(value, expectedType); expectedType may be nil *)
Fixpoint import (x : xval) (exp : option ty) {struct x} : res ival :=
  match x with
  | XVoid => Ok IVoid
  | XNone => Ok INil
  | XSome y =>
      let inner := match exp with Some (TOpt t) => Some t | _ => None end in
      let* v := import y inner in Ok (ISome v)
  | XBool b => Ok (IBool b)
  | XString s => Ok (IString s)
  | XChar s => Ok (IChar s)
  | XAddress a => Ok (IAddress a)
  | XNum p n => Ok (INum p n)
  | XPath d i => Ok (IPath d i)
  | XType None => Err UserOther                      (* ConvertStaticToSemaType fails *)
  | XType (Some t) => Ok (IType t)
  | XArray l =>
      let elem := match exp with
                  | Some (TVar e) => Some e
                  | Some (TConst e _) => Some e
                  | _ => None
                  end in
      let* vs := (fix go (l : list xval) : res (list ival) :=
                    match l with
                    | [] => Ok []
                    | y :: r => let* v := import y elem in let* vs := go r in Ok (v :: vs)
                    end) l in
      let* ty := match exp with
                 | Some (TVar e) => Ok (None, e)
                 | Some (TConst e n) => Ok (Some n, e)
                 | _ =>
                     match lcs (map dyn_type vs) with
                     | None => Err Internal           (* errors.NewUnexpectedError("cannot import array ...") *)
                     | Some u => Ok (None, u)
                     end
                 end in
      (* NewArrayValue transfers the elements *)
      if existsb copy_fails vs then Err HostFail
      else Ok (IArray (fst ty) (snd ty) vs)
  | XDict l =>
      let kt := match exp with Some (TDict k _) => Some k | _ => None end in
      let wt := match exp with Some (TDict _ w) => Some w | _ => None end in
      let* kvs := (fix go (l : list (xval * xval)) : res (list (ival * ival)) :=
                     match l with
                     | [] => Ok []
                     | (a, b) :: r =>
                         let* k := import a kt in
                         let* w := import b wt in
                         let* rest := go r in Ok ((k, w) :: rest)
                     end) l in
      match exp with
      | Some (TDict k w) => dict_insert k w kvs kvs
      | _ =>
          match lcs (map (fun kv => dyn_type (fst kv)) kvs) with
          | None => Err UserOther                     (* keys do not belong to the same type *)
          | Some ku =>
              if negb (is_sub D ku hashable_struct) then Err UserOther
              else
                match lcs (map (fun kv => dyn_type (snd kv)) kvs) with
                | None => Err UserOther               (* values do not belong to the same type *)
                | Some wu =>
                    dict_insert ku wu kvs kvs
                end
          end
      end
  | XComp k c fs =>
      if negb (comp_declared E c) then Err UserOther  (* GetCompositeType fails *)
      else
        let* fields := (fix go (l : list (nat * xval)) (acc : list (nat * ival)) : res (list (nat * ival)) :=
                          match l with
                          | [] => Ok acc
                          | (n, y) :: r =>
                              let* v := import y (lookup n (comp_fields E c)) in
                              go r (acc ++ [(n, v)])
                          end) fs [] in
        (* NewCompositeValue sets (and transfers) the fields in order *)
        if existsb (fun f => copy_fails (snd f)) fields then Err HostFail
        else Ok (IComp k c (fold_left (fun acc f => set_field (fst f) (snd f) acc) fields []))
  | XCap b addr id =>
      match b with
      | TRef _ _ => Ok (ICap b addr id)
      | _ => Err UserOther                            (* expected reference *)
      end
  | XFunction => Err UserOther                        (* cannot import function *)
  | XContract => Err UserOther                        (* cannot import contract *)
  end.

(* Value.IsImportable *)
Fixpoint importable (v : ival) : bool :=
  match v with
  | IVoid => false                                   (* sema.VoidType.Importable *)
  | ISome x => importable x
  | IArray _ _ es => forallb importable es
  | IDict _ _ kvs => forallb (fun kv => importable (fst kv) && importable (snd kv)) kvs
  | IComp _ c fs => comp_type_importable E c && forallb (fun f => importable (snd f)) fs
  | ICap _ _ _ => false
  | _ => true
  end.

(* Value.ConformsToStaticType *)
Fixpoint conforms (v : ival) : bool :=
  match v with
  | ISome x => conforms x
  | IArray cs e es =>
      match cs with Some n => Z.eqb (Z.of_nat (length es)) n | None => true end &&
      forallb (fun x => is_sub_static D (dyn_type x) e && conforms x) es
  | IDict k w kvs =>
      forallb (fun kv => is_sub_static D (dyn_type (fst kv)) k && conforms (fst kv) &&
                         is_sub_static D (dyn_type (snd kv)) w && conforms (snd kv)) kvs
  | IComp k c fs =>
      (* the Go code walks the declared fields and looks each up in the value; the recursion is written
         over the value's fields here (same result: the value's field names are distinct) *)
      ckind_eqb k (comp_kind E c) &&
      Nat.eqb (length fs) (length (comp_fields E c)) &&
      forallb (fun d => match lookup (fst d) fs with None => false | Some _ => true end) (comp_fields E c) &&
      forallb (fun f =>
                 match lookup (fst f) (comp_fields E c) with
                 | None => true
                 | Some t => is_sub_of_sema D (dyn_type (snd f)) t && conforms (snd f)
                 end) fs
  | _ => true
  end.

Inductive rkind : Type :=
| RDecode            (* argument decoder error *)
| RImport            (* user error raised by ImportValue *)
| RNotImportable     (* ArgumentNotImportableError *)
| RType              (* InvalidValueTypeError *)
| RMalformed         (* MalformedValueError *)
| RCopy              (* a storage-layer (atree) copy error escaped: neither an argument error nor a user error in the VM *)
| RInternal.         (* an internal (unexpected) error escaped for a user-supplied argument *)

Inductive outcome : Type :=
| Accept (v : ival)
| Reject (k : rkind).

(* importValidatedArguments, for one argument *)
Definition validate (T : ty) (x : xval) : outcome :=
  if negb (decode_ok x) then Reject RDecode
  else
    match import x (Some T) with
    | Err Internal => Reject RInternal
    | Err HostFail => Reject RCopy
    | Err _ => Reject RImport
    | Ok v =>
        if negb (importable v) then Reject RNotImportable
        else if negb (is_sub_of_sema D (dyn_type v) T) then Reject RType
        else if negb (conforms v) then Reject RMalformed
        else Accept v
    end.

End WithEnv.
