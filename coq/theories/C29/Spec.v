(* C29 — specification side: importable values, well-typed values (every nested value conforms to the
   static type of its container / the declared type of its field), importable parameter types.
   Definitions only. *)
From CV Require Export C29.Model.
Import ListNotations.
Open Scope Z_scope.

Section WithEnv.
Variable E : cenv.
Notation D := (base E).

(* what may cross the entry-point boundary: no resources or other non-struct composites, no capabilities,
   no Void; at every depth *)
Inductive Importable : ival -> Prop :=
| Imp_nil : Importable INil
| Imp_some : forall x, Importable x -> Importable (ISome x)
| Imp_bool : forall b, Importable (IBool b)
| Imp_string : forall s, Importable (IString s)
| Imp_char : forall s, Importable (IChar s)
| Imp_address : forall a, Importable (IAddress a)
| Imp_num : forall p n, Importable (INum p n)
| Imp_path : forall d i, Importable (IPath d i)
| Imp_type : forall t, Importable (IType t)
| Imp_array : forall cs e es, Forall Importable es -> Importable (IArray cs e es)
| Imp_dict : forall k w kvs,
    Forall (fun kv => Importable (fst kv) /\ Importable (snd kv)) kvs -> Importable (IDict k w kvs)
| Imp_comp : forall k c fs,
    comp_type_importable E c = true ->
    Forall (fun f => Importable (snd f)) fs -> Importable (IComp k c fs).

(* nested conformance, against the run-time subtype test (interpreter.IsSubType on static types; it is
   sema subtyping except for nil against AnyResource-typed positions, see C09_subtype_paths_agree) *)
Inductive WellTyped : ival -> Prop :=
| WT_void : WellTyped IVoid
| WT_nil : WellTyped INil
| WT_some : forall x, WellTyped x -> WellTyped (ISome x)
| WT_bool : forall b, WellTyped (IBool b)
| WT_string : forall s, WellTyped (IString s)
| WT_char : forall s, WellTyped (IChar s)
| WT_address : forall a, WellTyped (IAddress a)
| WT_num : forall p n, WellTyped (INum p n)
| WT_path : forall d i, WellTyped (IPath d i)
| WT_type : forall t, WellTyped (IType t)
| WT_cap : forall b a i, WellTyped (ICap b a i)
| WT_array : forall cs e es,
    (forall n, cs = Some n -> Z.of_nat (length es) = n) ->
    Forall (fun x => is_sub_static D (dyn_type x) e = true /\ WellTyped x) es ->
    WellTyped (IArray cs e es)
| WT_dict : forall k w kvs,
    Forall (fun kv => (is_sub_static D (dyn_type (fst kv)) k = true /\ WellTyped (fst kv)) /\
                      (is_sub_static D (dyn_type (snd kv)) w = true /\ WellTyped (snd kv))) kvs ->
    WellTyped (IDict k w kvs)
| WT_comp : forall k c fs,
    k = comp_kind E c ->                                             (* the kind tag is the declared kind *)
    length fs = length (comp_fields E c) ->                          (* as many fields as declared ... *)
    (forall n t, In (n, t) (comp_fields E c) -> lookup n fs <> None) ->   (* ... every declared field present *)
    Forall (fun f => forall t, lookup (fst f) (comp_fields E c) = Some t ->
                       is_sub_of_sema D (dyn_type (snd f)) t = true /\ WellTyped (snd f)) fs ->
    WellTyped (IComp k c fs).

(* sema Type.IsImportable: the checker admits only such parameter types *)
Fixpoint ty_importable (t : ty) : bool :=
  match t with
  | TPrim p => negb (existsb (prim_beq p) [PAny; PAnyResource; PNever; PVoid])
  | TOpt x | TVar x | TConst x _ => ty_importable x
  | TDict k v => ty_importable k && ty_importable v
  | TComp c => comp_type_importable E c
  | TInter is => forallb (fun i => negb (iface_resource D i)) is
  | TRef _ _ => false
  | TCapAny | TCap _ => true
  end.

End WithEnv.
