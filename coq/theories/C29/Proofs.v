(* C29 — proofs: soundness of the validation pipeline, and the error class of rejections. *)
From CV Require Import C09.Types C09.TypesProofs C29.Model C29.Spec.
From Coq Require Import Lia.
Import ListNotations.
Open Scope Z_scope.

(* ------------------------------------------------------------------ induction over nested values *)
Section IvalInd.
Variable P : ival -> Prop.
Hypothesis HVoid : P IVoid.
Hypothesis HNil : P INil.
Hypothesis HSome : forall x, P x -> P (ISome x).
Hypothesis HBool : forall b, P (IBool b).
Hypothesis HString : forall s, P (IString s).
Hypothesis HChar : forall s, P (IChar s).
Hypothesis HAddress : forall a, P (IAddress a).
Hypothesis HNum : forall p n, P (INum p n).
Hypothesis HPath : forall d i, P (IPath d i).
Hypothesis HType : forall t, P (IType t).
Hypothesis HArray : forall cs e es, Forall P es -> P (IArray cs e es).
Hypothesis HDict : forall k w kvs, Forall (fun kv => P (fst kv) /\ P (snd kv)) kvs -> P (IDict k w kvs).
Hypothesis HComp : forall k c fs, Forall (fun f => P (snd f)) fs -> P (IComp k c fs).
Hypothesis HCap : forall b a i, P (ICap b a i).

Fixpoint ival_ind' (v : ival) : P v :=
  match v with
  | IVoid => HVoid
  | INil => HNil
  | ISome x => HSome x (ival_ind' x)
  | IBool b => HBool b
  | IString s => HString s
  | IChar s => HChar s
  | IAddress a => HAddress a
  | INum p n => HNum p n
  | IPath d i => HPath d i
  | IType t => HType t
  | IArray cs e es =>
      HArray cs e es
        ((fix go (l : list ival) : Forall P l :=
            match l with [] => Forall_nil P | x :: r => Forall_cons x (ival_ind' x) (go r) end) es)
  | IDict k w kvs =>
      HDict k w kvs
        ((fix go (l : list (ival * ival)) : Forall (fun kv => P (fst kv) /\ P (snd kv)) l :=
            match l with
            | [] => Forall_nil _
            | p :: r => Forall_cons p (conj (ival_ind' (fst p)) (ival_ind' (snd p))) (go r)
            end) kvs)
  | IComp k c fs =>
      HComp k c fs
        ((fix go (l : list (nat * ival)) : Forall (fun f => P (snd f)) l :=
            match l with [] => Forall_nil _ | p :: r => Forall_cons p (ival_ind' (snd p)) (go r) end) fs)
  | ICap b a i => HCap b a i
  end.
End IvalInd.

Section XvalInd.
Variable P : xval -> Prop.
Hypothesis HVoid : P XVoid.
Hypothesis HNone : P XNone.
Hypothesis HSome : forall x, P x -> P (XSome x).
Hypothesis HBool : forall b, P (XBool b).
Hypothesis HString : forall s, P (XString s).
Hypothesis HChar : forall s, P (XChar s).
Hypothesis HAddress : forall a, P (XAddress a).
Hypothesis HNum : forall p n, P (XNum p n).
Hypothesis HPath : forall d i, P (XPath d i).
Hypothesis HType : forall t, P (XType t).
Hypothesis HArray : forall l, Forall P l -> P (XArray l).
Hypothesis HDict : forall l, Forall (fun kv => P (fst kv) /\ P (snd kv)) l -> P (XDict l).
Hypothesis HComp : forall k c fs, Forall (fun f => P (snd f)) fs -> P (XComp k c fs).
Hypothesis HCap : forall b a i, P (XCap b a i).
Hypothesis HFunction : P XFunction.
Hypothesis HContract : P XContract.

Fixpoint xval_ind' (x : xval) : P x :=
  match x with
  | XVoid => HVoid
  | XNone => HNone
  | XSome y => HSome y (xval_ind' y)
  | XBool b => HBool b
  | XString s => HString s
  | XChar s => HChar s
  | XAddress a => HAddress a
  | XNum p n => HNum p n
  | XPath d i => HPath d i
  | XType t => HType t
  | XArray l =>
      HArray l ((fix go (l : list xval) : Forall P l :=
                   match l with [] => Forall_nil P | y :: r => Forall_cons y (xval_ind' y) (go r) end) l)
  | XDict l =>
      HDict l ((fix go (l : list (xval * xval)) : Forall (fun kv => P (fst kv) /\ P (snd kv)) l :=
                  match l with
                  | [] => Forall_nil _
                  | p :: r => Forall_cons p (conj (xval_ind' (fst p)) (xval_ind' (snd p))) (go r)
                  end) l)
  | XComp k c fs =>
      HComp k c fs ((fix go (l : list (nat * xval)) : Forall (fun f => P (snd f)) l :=
                       match l with [] => Forall_nil _ | p :: r => Forall_cons p (xval_ind' (snd p)) (go r) end) fs)
  | XCap b a i => HCap b a i
  | XFunction => HFunction
  | XContract => HContract
  end.
End XvalInd.

Section WithEnv.
Variable E : cenv.
Variable lcs : list ty -> option ty.
Notation D := (base E).

(* ------------------------------------------------------------------ the boolean checks reflect the specs *)
Lemma importable_sound : forall v, importable E v = true -> Importable E v.
Proof.
  induction v as [| |x IH|b|s|s|a|p n|d i|t|cs e es IH|k w kvs IH|k c fs IH|b a i] using ival_ind';
    simpl; intro H; try discriminate; try constructor.
  - apply IH. exact H.
  - rewrite forallb_forall in H. rewrite Forall_forall in *. intros x Hx. apply IH; [exact Hx | apply H; exact Hx].
  - rewrite forallb_forall in H. rewrite Forall_forall in *. intros kv Hkv.
    specialize (H kv Hkv). apply andb_true_iff in H. destruct H as [H1 H2].
    destruct (IH kv Hkv) as [I1 I2]. split; [apply I1 | apply I2]; assumption.
  - apply andb_true_iff in H. apply H.
  - apply andb_true_iff in H. destruct H as [_ H].
    rewrite forallb_forall in H. rewrite Forall_forall in *. intros f Hf. apply IH; [exact Hf | apply H; exact Hf].
Qed.

Lemma lookup_in : forall (A : Type) n (l : list (nat * A)) a, lookup n l = Some a -> In (n, a) l.
Proof.
  induction l as [|[m b] r IH]; simpl; intros a H; [discriminate|].
  destruct (Nat.eqb n m) eqn:Enm.
  - apply Nat.eqb_eq in Enm. inversion H; subst. left. reflexivity.
  - right. apply IH. exact H.
Qed.

Lemma conforms_sound : forall v, conforms E v = true -> WellTyped E v.
Proof.
  induction v as [| |x IH|b|s|s|a|p n|d i|t|cs e es IH|k w kvs IH|k c fs IH|b a i] using ival_ind';
    cbn [conforms]; intro H; try constructor.
  - apply IH. exact H.
  - apply andb_true_iff in H. destruct H as [H _]. intros n Hn. subst cs. apply Z.eqb_eq. exact H.
  - apply andb_true_iff in H. destruct H as [_ H].
    rewrite forallb_forall in H. rewrite Forall_forall in *. intros x Hx.
    specialize (H x Hx). apply andb_true_iff in H. destruct H as [H1 H2].
    split; [exact H1 | apply IH; assumption].
  - rewrite forallb_forall in H. rewrite Forall_forall in *. intros kv Hkv.
    specialize (H kv Hkv).
    apply andb_true_iff in H. destruct H as [H H4].
    apply andb_true_iff in H. destruct H as [H H3].
    apply andb_true_iff in H. destruct H as [H1 H2].
    destruct (IH kv Hkv) as [I1 I2].
    split; split; auto.
  - apply andb_true_iff in H. destruct H as [H _].
    apply andb_true_iff in H. destruct H as [H _].
    apply andb_true_iff in H. destruct H as [H _].
    destruct k, (comp_kind E c); simpl in H; try discriminate; reflexivity.
  - apply andb_true_iff in H. destruct H as [H _].
    apply andb_true_iff in H. destruct H as [H _].
    apply andb_true_iff in H. destruct H as [_ H]. apply Nat.eqb_eq. exact H.
  - apply andb_true_iff in H. destruct H as [H _].
    apply andb_true_iff in H. destruct H as [_ H].
    rewrite forallb_forall in H. intros n t Hin.
    specialize (H (n, t) Hin). simpl in H.
    destruct (lookup n fs); [discriminate | discriminate].
  - apply andb_true_iff in H. destruct H as [_ H].
    rewrite forallb_forall in H. rewrite Forall_forall in *. intros f Hf t Ht.
    specialize (H f Hf). rewrite Ht in H. apply andb_true_iff in H. destruct H as [H1 H2].
    split; [exact H1 | apply IH; assumption].
Qed.

(* ------------------------------------------------------------------ importable parameter types avoid
   the one disagreement between the two subtype implementations *)
Lemma exc_not_importable : forall s t, exc s t = true -> ty_importable E t = false.
Proof.
  induction s; intros t X; simpl in X; try discriminate.
  destruct t; try discriminate.
  - destruct p; try discriminate. reflexivity.
  - simpl. apply IHs. exact X.
Qed.

Lemma dict_insert_ok : forall k w all l v, dict_insert E k w all l = Ok v -> v = IDict k w all.
Proof.
  induction l as [|kv r IH]; intros v H; simpl in H.
  - inversion H; reflexivity.
  - destruct (copy_fails (fst kv) || copy_fails (snd kv)); [discriminate|].
    destruct (negb (is_sub_static D (dyn_type (fst kv)) k && is_sub_static D (dyn_type (snd kv)) w)); [discriminate|].
    destruct (hash_fails E (fst kv)); [discriminate|]. apply IH. exact H.
Qed.

(* run-time types of imported values never end in Any *)
Lemma import_not_any : forall x exp v,
  decode_ok x = true -> import E lcs x exp = Ok v -> is_prim (unwrap_opt (dyn_type v)) PAny = false.
Proof.
  induction x; intros exp v DK H; cbn [import] in H.
  - inversion H; reflexivity.
  - inversion H; reflexivity.
  - simpl in DK.
    destruct (import E lcs x match exp with Some (TOpt t) => Some t | _ => None end) eqn:EI; simpl in H; [|discriminate].
    inversion H; subst. simpl. eapply IHx; [exact DK | exact EI].
  - inversion H; reflexivity.
  - inversion H; reflexivity.
  - inversion H; reflexivity.
  - inversion H; reflexivity.
  - inversion H; subst. simpl. simpl in DK. unfold in_num_range in DK.
    destruct p; simpl in DK; try discriminate; reflexivity.
  - inversion H; subst. destruct d; reflexivity.
  - destruct t; inversion H; reflexivity.
  - (* arrays *)
    match type of H with (let* vs := ?G in _) = _ => destruct G end; simpl in H; [|discriminate].
    match type of H with (let* ty0 := ?G in _) = _ => destruct G as [[cs0 e0]|] end; simpl in H; [|discriminate].
    match type of H with (if ?c then _ else _) = _ => destruct c end; [discriminate|].
    inversion H; subst. destruct cs0; reflexivity.
  - (* dictionaries *)
    match type of H with (let* vs := ?G in _) = _ => destruct G as [kvs|] end; simpl in H; [|discriminate].
    destruct exp as [[| | | |k w| | | | |]|];
      repeat match type of H with
             | match ?c with _ => _ end = _ => destruct c
             | (if ?c then _ else _) = _ => destruct c
             end; try discriminate;
      rewrite (dict_insert_ok _ _ _ _ _ H); reflexivity.
  - (* composites *)
    destruct (negb (comp_declared E c)); [discriminate|].
    match type of H with (let* vs := ?G in _) = _ => destruct G end; simpl in H; [|discriminate].
    match type of H with (if ?c then _ else _) = _ => destruct c end; [discriminate|].
    inversion H; reflexivity.
  - destruct b; inversion H; reflexivity.
  - discriminate.
  - discriminate.
Qed.

(* ------------------------------------------------------------------ soundness of the pipeline *)
Theorem import_sound : forall T x v,
  ty_importable E T = true ->
  validate E lcs T x = Accept v ->
  Importable E v /\ is_sub D (dyn_type v) T = true /\ WellTyped E v.
Proof.
  intros T x v TI H. unfold validate in H.
  destruct (decode_ok x) eqn:DK; simpl in H; [|discriminate].
  destruct (import E lcs x (Some T)) as [w|e] eqn:EI; [|destruct e; discriminate].
  destruct (importable E w) eqn:IM; simpl in H; [|discriminate].
  destruct (is_sub_of_sema D (dyn_type w) T) eqn:SB; simpl in H; [|discriminate].
  destruct (conforms E w) eqn:CF; simpl in H; [|discriminate].
  inversion H; subst w. split; [apply importable_sound; exact IM|]. split; [|apply conforms_sound; exact CF].
  rewrite <- (is_sub_of_sema_spec D (dyn_type v) T).
  - exact SB.
  - eapply import_not_any; [exact DK | exact EI].
  - destruct (exc (dyn_type v) T) eqn:X; [|reflexivity].
    rewrite (exc_not_importable _ _ X) in TI. discriminate.
Qed.

(* the pipeline accepts exactly when every stage passes (the stages, in order) *)
Theorem accept_iff : forall T x v,
  validate E lcs T x = Accept v <->
  decode_ok x = true /\ import E lcs x (Some T) = Ok v /\ importable E v = true /\
  is_sub_of_sema D (dyn_type v) T = true /\ conforms E v = true.
Proof.
  intros T x v. unfold validate. split.
  - intro H.
    destruct (decode_ok x); simpl in H; [|discriminate].
    destruct (import E lcs x (Some T)) as [w|e]; [|destruct e; discriminate].
    destruct (importable E w) eqn:IM; simpl in H; [|discriminate].
    destruct (is_sub_of_sema D (dyn_type w) T) eqn:SB; simpl in H; [|discriminate].
    destruct (conforms E w) eqn:CF; simpl in H; [|discriminate].
    inversion H; subst. repeat split; assumption.
  - intros [H1 [H2 [H3 [H4 H5]]]]. rewrite H1, H2, H3, H4, H5. reflexivity.
Qed.

(* ------------------------------------------------------------------ error class of rejections *)
(* import fails with an internal error only where element-type inference fails; its other failures are
   user errors or the storage-layer copy error *)
Definition ue (e : err) : Prop := e = UserOther \/ e = HostFail.

Lemma go_list_user : forall (f : xval -> res ival) l e0,
  Forall (fun y => forall e, f y = Err e -> ue e) l ->
  (fix go (l : list xval) : res (list ival) :=
     match l with
     | [] => Ok []
     | y :: r => let* v := f y in let* vs := go r in Ok (v :: vs)
     end) l = Err e0 -> ue e0.
Proof.
  induction l as [|y r IH]; intros e0 HF HE; [discriminate|].
  inversion HF as [|? ? Hy Hr]; subst.
  destruct (f y) eqn:Ey; simpl in HE.
  - match type of HE with (let* ys := ?G in _) = _ => destruct G eqn:EG end; simpl in HE; [discriminate|].
    inversion HE; subst. apply (IH e0 Hr). reflexivity.
  - inversion HE; subst. apply Hy. reflexivity.
Qed.

Lemma go_pairs_user : forall (f1 f2 : xval -> res ival) l e0,
  Forall (fun p => (forall e, f1 (fst p) = Err e -> ue e) /\
                   (forall e, f2 (snd p) = Err e -> ue e)) l ->
  (fix go (l : list (xval * xval)) : res (list (ival * ival)) :=
     match l with
     | [] => Ok []
     | (a, b) :: r => let* k := f1 a in let* w := f2 b in let* rest := go r in Ok ((k, w) :: rest)
     end) l = Err e0 -> ue e0.
Proof.
  induction l as [|[a b] r IH]; intros e0 HF HE; [discriminate|].
  inversion HF as [|? ? Hx Hr]; subst. simpl in Hx. destruct Hx as [Hx Hy].
  destruct (f1 a) eqn:Ex; simpl in HE.
  - destruct (f2 b) eqn:Ey; simpl in HE.
    + match type of HE with (let* ys := ?G in _) = _ => destruct G eqn:EG end; simpl in HE; [discriminate|].
      inversion HE; subst. apply (IH e0 Hr). reflexivity.
    + inversion HE; subst. apply Hy. reflexivity.
  - inversion HE; subst. apply Hx. reflexivity.
Qed.

Lemma go_fields_user : forall (f : nat -> xval -> res ival) l acc e0,
  Forall (fun p => forall n e, f n (snd p) = Err e -> ue e) l ->
  (fix go (l : list (nat * xval)) (acc : list (nat * ival)) : res (list (nat * ival)) :=
     match l with
     | [] => Ok acc
     | (n, y) :: r => let* v := f n y in go r (acc ++ [(n, v)])
     end) l acc = Err e0 -> ue e0.
Proof.
  induction l as [|[n y] r IH]; intros acc e0 HF HE; [discriminate|].
  inversion HF as [|? ? Hy Hr]; subst. simpl in Hy.
  destruct (f n y) eqn:Ey; simpl in HE.
  - eapply IH; [exact Hr | exact HE].
  - inversion HE; subst. eapply Hy. exact Ey.
Qed.

(* arguments whose dictionary keys are not composites (no enum keys): key hashing cannot fail *)
Definition is_xcomp (x : xval) : bool := match x with XComp _ _ _ => true | _ => false end.
Definition is_icomp (v : ival) : bool := match v with IComp _ _ _ => true | _ => false end.

Fixpoint plain_keys (x : xval) : bool :=
  match x with
  | XSome y => plain_keys y
  | XArray l => forallb plain_keys l
  | XDict l => forallb (fun kv => negb (is_xcomp (fst kv)) && plain_keys (fst kv) && plain_keys (snd kv)) l
  | XComp _ _ fs => forallb (fun f => plain_keys (snd f)) fs
  | _ => true
  end.

Lemma import_noncomp : forall x exp v, is_xcomp x = false -> import E lcs x exp = Ok v -> is_icomp v = false.
Proof.
  intros x exp v NX H. destruct x; simpl in NX; try discriminate; cbn [import] in H;
    try (inversion H; reflexivity).
  - match type of H with (let* v0 := ?G in _) = _ => destruct G end; simpl in H; [inversion H; reflexivity | discriminate].
  - destruct t; [inversion H; reflexivity | discriminate].
  - match type of H with (let* vs := ?G in _) = _ => destruct G end; simpl in H; [|discriminate].
    match type of H with (let* ty0 := ?G in _) = _ => destruct G end; simpl in H; [|discriminate].
    match type of H with (if ?c then _ else _) = _ => destruct c end; [discriminate|]. inversion H; reflexivity.
  - match type of H with (let* vs := ?G in _) = _ => destruct G as [kvs|] end; simpl in H; [|discriminate].
    destruct exp as [[| | | |k w| | | | |]|];
      repeat match type of H with
             | match ?c with _ => _ end = _ => destruct c
             | (if ?c then _ else _) = _ => destruct c
             end; try discriminate;
      rewrite (dict_insert_ok _ _ _ _ _ H); reflexivity.
  - destruct b; try discriminate; inversion H; reflexivity.
Qed.

Lemma hash_ok_noncomp : forall v, is_icomp v = false -> hash_fails E v = false.
Proof. destruct v; simpl; intro H; try reflexivity; discriminate. Qed.

Lemma dict_insert_user : forall k w all l e0,
  Forall (fun kv => is_icomp (fst kv) = false) l ->
  dict_insert E k w all l = Err e0 -> ue e0.
Proof.
  induction l as [|kv r IH]; intros e0 HF HE; simpl in HE; [discriminate|].
  inversion HF as [|? ? Hk Hr]; subst.
  destruct (copy_fails (fst kv) || copy_fails (snd kv)); [inversion HE; right; reflexivity|].
  destruct (negb (is_sub_static D (dyn_type (fst kv)) k && is_sub_static D (dyn_type (snd kv)) w));
    [inversion HE; left; reflexivity|].
  rewrite (hash_ok_noncomp _ Hk) in HE. apply IH; assumption.
Qed.

(* the keys produced by the pair loop for non-composite key arguments are not composites *)
Lemma go_pairs_keys : forall (f1 f2 : xval -> res ival) l kvs,
  (forall a v, is_xcomp a = false -> f1 a = Ok v -> is_icomp v = false) ->
  Forall (fun p => is_xcomp (fst p) = false) l ->
  (fix go (l : list (xval * xval)) : res (list (ival * ival)) :=
     match l with
     | [] => Ok []
     | (a, b) :: r => let* k := f1 a in let* w := f2 b in let* rest := go r in Ok ((k, w) :: rest)
     end) l = Ok kvs ->
  Forall (fun kv => is_icomp (fst kv) = false) kvs.
Proof.
  induction l as [|[a b] r IH]; intros kvs Hf HF HE.
  - inversion HE; constructor.
  - inversion HF as [|? ? Ha Hr]; subst. simpl in Ha.
    destruct (f1 a) eqn:E1; simpl in HE; [|discriminate].
    destruct (f2 b) eqn:E2; simpl in HE; [|discriminate].
    match type of HE with (let* rest := ?G in _) = _ => destruct G eqn:EG end; simpl in HE; [|discriminate].
    inversion HE; subst. constructor.
    + simpl. eapply Hf; [exact Ha | exact E1].
    + apply IH; [exact Hf | exact Hr | reflexivity].
Qed.

Lemma import_err_user : forall x exp e,
  (forall ts, lcs ts <> None) -> plain_keys x = true -> import E lcs x exp = Err e -> ue e.
Proof.
  intros x exp e TOT. revert exp e.
  induction x as [| |x IH|b|s|s|a|p n|d i|t|l IH|l IH|k c fs IH|b a i| |] using xval_ind';
    intros exp e0 PK HE; cbn [import] in HE; try discriminate.
  - destruct (import E lcs x match exp with Some (TOpt t) => Some t | _ => None end) eqn:EI; simpl in HE; [discriminate|].
    inversion HE; subst. eapply IH; [exact PK | exact EI].
  - destruct t; [discriminate | inversion HE; left; reflexivity].
  - (* arrays *)
    simpl in PK. rewrite forallb_forall in PK.
    match type of HE with (let* vs := ?G in _) = _ => destruct G as [vs|e1] eqn:EG end; simpl in HE.
    + match type of HE with (let* ty0 := ?G in _) = _ => destruct G as [[cs0 el0]|e1] eqn:ET end; simpl in HE.
      * destruct (existsb copy_fails vs); [inversion HE; right; reflexivity | discriminate].
      * exfalso. destruct exp as [[| | | | | | | | |]|]; try discriminate;
          (destruct (lcs (map dyn_type vs)) eqn:EL; [discriminate | eapply TOT; exact EL]).
    + inversion HE; subst.
      eapply (go_list_user (fun y => import E lcs y
                 match exp with Some (TVar e) => Some e | Some (TConst e _) => Some e | _ => None end)); [|exact EG].
      rewrite Forall_forall in *. intros y Hy e1 He1. eapply IH; [exact Hy | apply PK; exact Hy | exact He1].
  - (* dictionaries *)
    simpl in PK. rewrite forallb_forall in PK.
    match type of HE with (let* vs := ?G in _) = _ => destruct G as [kvs|e1] eqn:EG end; simpl in HE.
    + assert (KS : Forall (fun kv => is_icomp (fst kv) = false) kvs).
      { eapply (go_pairs_keys
                  (fun y => import E lcs y match exp with Some (TDict k _) => Some k | _ => None end)
                  (fun y => import E lcs y match exp with Some (TDict _ w) => Some w | _ => None end)); [| |exact EG].
        - intros a0 v0 Ha0 Hv0. eapply import_noncomp; [exact Ha0 | exact Hv0].
        - rewrite Forall_forall. intros kv Hkv. specialize (PK kv Hkv).
          apply andb_true_iff in PK. destruct PK as [PK _]. apply andb_true_iff in PK. destruct PK as [PK _].
          apply negb_true_iff in PK. exact PK. }
      destruct exp as [[| | | |k w| | | | |]|];
        repeat match type of HE with
               | match ?c with _ => _ end = _ => destruct c
               | (if ?c then _ else _) = _ => destruct c
               end; try discriminate;
        try (inversion HE; left; reflexivity);
        (eapply dict_insert_user; [exact KS | exact HE]).
    + inversion HE; subst.
      eapply (go_pairs_user
                (fun y => import E lcs y match exp with Some (TDict k _) => Some k | _ => None end)
                (fun y => import E lcs y match exp with Some (TDict _ w) => Some w | _ => None end)); [|exact EG].
      rewrite Forall_forall in *. intros kv Hkv. specialize (PK kv Hkv).
      apply andb_true_iff in PK. destruct PK as [PK P2]. apply andb_true_iff in PK. destruct PK as [_ P1].
      destruct (IH kv Hkv) as [H1 H2].
      split; intros e1 He1; [eapply H1 | eapply H2]; eassumption.
  - (* composites *)
    simpl in PK. rewrite forallb_forall in PK.
    destruct (negb (comp_declared E c)); [inversion HE; left; reflexivity|].
    match type of HE with (let* vs := ?G in _) = _ => destruct G as [fl|e1] eqn:EG end; simpl in HE.
    + destruct (existsb (fun f => copy_fails (snd f)) fl); [inversion HE; right; reflexivity | discriminate].
    + inversion HE; subst.
      eapply (go_fields_user (fun n y => import E lcs y (lookup n (comp_fields E c)))); [|exact EG].
      rewrite Forall_forall in *. intros f Hf n e1 He1. eapply IH; [exact Hf | apply PK; exact Hf | exact He1].
  - destruct b; try (inversion HE; left; reflexivity); discriminate.
  - inversion HE; left; reflexivity.
  - inversion HE; left; reflexivity.
Qed.

(* if element-type inference never fails and no dictionary key of the argument is a composite,
   no rejection is an internal error *)
Theorem reject_user_error : forall T x,
  (forall ts, lcs ts <> None) -> plain_keys x = true -> validate E lcs T x <> Reject RInternal.
Proof.
  intros T x TOT PK H. unfold validate in H.
  destruct (decode_ok x); simpl in H; [|discriminate].
  destruct (import E lcs x (Some T)) as [w|e] eqn:EI.
  - destruct (importable E w); simpl in H; [|discriminate].
    destruct (is_sub_of_sema D (dyn_type w) T); simpl in H; [|discriminate].
    destruct (conforms E w); discriminate.
  - destruct (import_err_user _ _ _ TOT PK EI) as [X|X]; subst e; discriminate.
Qed.

(* a number that does not fit its type is rejected by the decoder, wherever it occurs at the top *)
Theorem out_of_range_rejected : forall T p n,
  in_num_range p n = false -> validate E lcs T (XNum p n) = Reject RDecode.
Proof. intros T p n H. unfold validate. simpl. rewrite H. reflexivity. Qed.

End WithEnv.

(* ------------------------------------------------------------------ refutation (finding) *)
From CV Require Import C29.Cases.

(* an empty array passed for an AnyStruct parameter: ImportValue raises errors.NewUnexpectedError,
   an internal error, although the input is merely a user-supplied argument *)
(* a struct inside an inner [Word16], or an array inside the [Int8] field of S2: the storage-layer copy
   error; the same shapes under [Int] are ordinary malformed-value rejections *)
Theorem nested_simple_array_copy_error :
  validate E0 lcs0 (TVar (TVar (TPrim PWord16))) (XArray [XArray [XComp KStruct 0 [(0%nat, XNum PInt 1)]]]) = Reject RCopy /\
  validate E0 lcs0 (TVar (TVar (TPrim PInt))) (XArray [XArray [XComp KStruct 0 [(0%nat, XNum PInt 1)]]]) = Reject RMalformed /\
  validate E0 lcs0 (TVar (TPrim PWord16)) (XArray [XComp KStruct 0 [(0%nat, XNum PInt 1)]]) = Reject RMalformed.
Proof. vm_compute. repeat split. Qed.

(* an enum dictionary key without rawValue, or tagged as a struct, or with a container raw value: key hashing
   raises an internal error; a wrongly typed scalar raw value is a malformed-value rejection *)
Definition en_key (fs : list (nat * xval)) : xval := XDict [(XComp KEnum 6 fs, XNum PInt 1)].
Theorem enum_key_hash_internal :
  validate E0 lcs0 (TDict (TComp 6) (TPrim PInt)) (en_key []) = Reject RInternal /\
  validate E0 lcs0 (TDict (TComp 6) (TPrim PInt)) (XDict [(XComp KStruct 6 [(8%nat, XNum PUInt8 0)], XNum PInt 1)]) = Reject RInternal /\
  validate E0 lcs0 (TDict (TComp 6) (TPrim PInt)) (en_key [(8%nat, XArray [XNum PUInt8 1])]) = Reject RInternal /\
  validate E0 lcs0 (TDict (TComp 6) (TPrim PInt)) (en_key [(8%nat, XString [97])]) = Reject RMalformed /\
  validate E0 lcs0 (TDict (TComp 6) (TPrim PInt)) (en_key [(8%nat, XNum PUInt16 1)]) = Reject RMalformed /\
  (exists v, validate E0 lcs0 (TDict (TComp 6) (TPrim PInt)) (en_key [(8%nat, XNum PUInt8 1)]) = Accept v).
Proof. vm_compute. repeat split. eexists. reflexivity. Qed.

Theorem empty_array_internal :
  validate E0 lcs0 (TPrim PAnyStruct) (XArray []) = Reject RInternal /\
  validate E0 lcs0 (TVar (TPrim PAnyStruct)) (XArray [XArray []]) = Reject RInternal /\
  validate E0 lcs0 (TPrim PAnyStruct) (XDict []) = Reject RImport.
Proof. vm_compute. repeat split. Qed.
