(* C30  proofs about the machine of C30/Model.v *)
From CV Require Import C30.Model.
Import ListNotations.

(* ---------------------------------------------------------------- continuation bookkeeping *)
Lemma n_open_app a b : n_open (a ++ b) = (n_open a + n_open b)%nat.
Proof. induction a as [|x a IH]; simpl; [reflexivity|]. destruct x; simpl; rewrite IH; reflexivity. Qed.

Lemma n_open_stmts l : n_open (map KStmt l) = O.
Proof. induction l; simpl; auto. Qed.

Lemma n_ret_app a b : n_ret (a ++ b) = (n_ret a + n_ret b)%nat.
Proof. induction a as [|x a IH]; simpl; [reflexivity|]. destruct x; simpl; rewrite IH; reflexivity. Qed.

Lemma n_ret_stmts l : n_ret (map KStmt l) = O.
Proof. induction l; simpl; auto. Qed.

Lemma unwind_break_open k k' : unwind_break k = Some k' -> (n_open k' < n_open k)%nat.
Proof.
  revert k'. induction k as [|x k IH]; intros k' H; simpl in H; [discriminate|].
  destruct x; simpl.
  - apply IH. exact H.
  - injection H as <-. lia.
  - discriminate.
Qed.

Lemma unwind_continue_open k k' : unwind_continue k = Some k' -> (n_open k' <= n_open k)%nat.
Proof.
  revert k'. induction k as [|x k IH]; intros k' H; simpl in H; [discriminate|].
  destruct x; simpl.
  - apply IH. exact H.
  - injection H as <-. simpl. lia.
  - discriminate.
Qed.

Lemma unwind_return_open k x s k' : unwind_return k = Some (x, s, k') -> (n_open k' < n_open k)%nat.
Proof.
  revert k'. induction k as [|y k IH]; intros k' H; simpl in H; [discriminate|].
  destruct y; simpl.
  - apply IH. exact H.
  - specialize (IH _ H). lia.
  - injection H as <- <- <-. lia.
Qed.

Lemma unwind_break_ret k k' : unwind_break k = Some k' -> n_ret k' = n_ret k.
Proof.
  revert k'. induction k as [|x k IH]; intros k' H; simpl in H; [discriminate|].
  destruct x; simpl; [apply IH; exact H | injection H as <-; reflexivity | discriminate].
Qed.

Lemma unwind_continue_ret k k' : unwind_continue k = Some k' -> n_ret k' = n_ret k.
Proof.
  revert k'. induction k as [|x k IH]; intros k' H; simpl in H; [discriminate|].
  destruct x; simpl; [apply IH; exact H | injection H as <-; reflexivity | discriminate].
Qed.

Lemma unwind_return_ret k x s k' : unwind_return k = Some (x, s, k') -> n_ret k = S (n_ret k').
Proof.
  revert k'. induction k as [|y k IH]; intros k' H; simpl in H; [discriminate|].
  destruct y; simpl; [apply IH; exact H | apply IH; exact H | injection H as <- <- <-; reflexivity].
Qed.

(* ---------------------------------------------------------------- charges *)
Lemma charge_inl c kd n c1 : charge c kd n = inl c1 ->
  k c1 = k c /\ r c1 = r c /\ depth c1 = depth c /\ mem_left c1 = mem_left c
  /\ comp_left c1 = comp_left c - n /\ n <= comp_left c.
Proof.
  unfold charge. destruct (comp_left c <? n) eqn:E; [discriminate|].
  intro H. injection H as <-. simpl. apply Z.ltb_ge in E. repeat split; auto.
Qed.

Lemma charge_inr c kd n f : charge c kd n = inr f -> f = FLimit LimitComputation.
Proof. unfold charge. destruct (comp_left c <? n); [intro H; injection H as <-; reflexivity | discriminate]. Qed.

Lemma charge_mem_inl c b n c1 : charge_mem c b n = inl c1 ->
  k c1 = k c /\ r c1 = r c /\ depth c1 = depth c /\ comp_left c1 = comp_left c.
Proof.
  unfold charge_mem. destruct (mem_left c) as [m|]; [|intro H; injection H as <-; auto].
  destruct (m <? n); [discriminate|]. intro H. injection H as <-. simpl. auto.
Qed.

Lemma charge_mem_inr c b n f : charge_mem c b n = inr f -> f = FLimit LimitMemory.
Proof.
  unfold charge_mem. destruct (mem_left c) as [m|]; [|discriminate].
  destruct (m <? n); [intro H; injection H as <-; reflexivity | discriminate].
Qed.

(* the results a run can end with *)
Definition final_ok (f : final) : Prop :=
  (exists v a b d e, f = FDone v a b d e) \/ f = FLimit LimitComputation \/ f = FLimit LimitMemory \/ f = FLimit LimitDepth
  \/ f = FIllFormed.

Definition measure (c : config) : nat := (2 * Z.to_nat (comp_left c) + n_open (k c))%nat.

Section Proofs.
  Variable pr : profile.
  Variable lim : limits.
  Variable funs : list (list stmt).
  Hypothesis Hm : metered pr.

  Lemma native_inl c c1 : native pr lim c = inl c1 ->
    k c1 = k c /\ r c1 = r c /\ depth c1 = depth c /\ comp_left c1 = comp_left c - c_inv pr /\ c_inv pr <= comp_left c.
  Proof.
    unfold native, bind_cf. destruct (charge c KindInv (c_inv pr)) as [c0|f] eqn:E; [|discriminate].
    apply charge_inl in E. destruct (count_native pr && (l_depth lim <? depth c0 + 1)); [discriminate|].
    intro H. injection H as <-. tauto.
  Qed.

  Lemma native_inr c f : native pr lim c = inr f -> f = FLimit LimitComputation \/ f = FLimit LimitDepth.
  Proof.
    unfold native, bind_cf. destruct (charge c KindInv (c_inv pr)) as [c0|f0] eqn:E.
    - destruct (count_native pr && (l_depth lim <? depth c0 + 1)); [|discriminate].
      intro H. injection H as <-. auto.
    - intro H. injection H as <-. left. eapply charge_inr; eauto.
  Qed.

  Lemma loop_test_inl c b body rest c1 d :
    0 <= comp_left c ->
    loop_test pr c b body rest = inl c1 ->
    (d = if beval (r c) b then c_loop pr else 0) ->
    comp_left c1 = comp_left c - d /\ 0 <= comp_left c1
    /\ n_open (k c1) = ((if beval (r c) b then 1 else 0) + n_open rest)%nat
    /\ n_ret (k c1) = n_ret rest /\ depth c1 = depth c.
  Proof.
    intros H0 H ->. unfold loop_test, bind_cf in H. destruct (beval (r c) b).
    - destruct (charge c KindLoop (c_loop pr)) as [c0|f] eqn:E; [|discriminate].
      apply charge_inl in E. injection H as <-. simpl.
      rewrite n_open_app, n_open_stmts, n_ret_app, n_ret_stmts. simpl.
      destruct E as (_ & _ & E3 & _ & E5 & E6). repeat split; try lia; auto.
    - injection H as <-. simpl. repeat split; try lia.
  Qed.

  Lemma loop_test_inr c b body rest f : loop_test pr c b body rest = inr f -> f = FLimit LimitComputation.
  Proof.
    unfold loop_test, bind_cf. destruct (beval (r c) b); [|discriminate].
    destruct (charge c KindLoop (c_loop pr)) eqn:E; [discriminate|].
    intro H. injection H as <-. eapply charge_inr; eauto.
  Qed.

  Lemma enter_inl c c1 : enter lim c = inl c1 ->
    k c1 = k c /\ r c1 = r c /\ depth c1 = depth c + 1 /\ comp_left c1 = comp_left c /\ depth c + 1 <= l_depth lim.
  Proof.
    unfold enter. destruct (l_depth lim <? depth c + 1) eqn:E; [discriminate|].
    intro H. injection H as <-. apply Z.ltb_ge in E. simpl. auto.
  Qed.

  (* the calls of a statement are balanced: the depth (and the continuation, the variables) after them is what it
     was before; they only consume budget *)
  Lemma eval_aux_inl a : forall c c', 0 <= comp_left c -> eval_aux pr lim a c = inl c' ->
    k c' = k c /\ r c' = r c /\ depth c' = depth c /\ comp_left c' <= comp_left c /\ 0 <= comp_left c'.
  Proof.
    destruct Hm as (M1 & M2 & M3 & M4 & M5 & M6).
    induction a as [| rest IH | rest IH | n inner IHi rest IHr]; intros c c' H0 H; simpl in H.
    - injection H as <-. repeat split; lia.
    - apply IH; assumption.
    - unfold bind_cf in H. destruct (native pr lim c) as [c1|f] eqn:E; [|discriminate].
      apply native_inl in E. destruct E as (K1 & R1 & D1 & C1 & L1).
      destruct (IH c1 c' ltac:(lia) H) as (A & B & C & D & E). repeat split; try congruence; lia.
    - unfold bind_cf in H.
      destruct (charge c KindInv (c_inv pr)) as [c1|f] eqn:E1; [|discriminate].
      apply charge_inl in E1. destruct E1 as (K1 & R1 & D1 & _ & C1 & L1).
      destruct (enter lim c1) as [c2|f] eqn:E2; [|discriminate].
      apply enter_inl in E2. destruct E2 as (K2 & R2 & D2 & C2 & _).
      destruct (charge c2 KindStmt (c_stmt pr * Z.max 0 n)) as [c3|f] eqn:E3; [|discriminate].
      apply charge_inl in E3. destruct E3 as (K3 & R3 & D3 & _ & C3 & L3).
      assert (P : 0 <= c_stmt pr * Z.max 0 n) by (apply Z.mul_nonneg_nonneg; lia).
      destruct (eval_aux pr lim inner c3) as [c4|f] eqn:E4; [|discriminate].
      destruct (IHi c3 c4 ltac:(lia) E4) as (K4 & R4 & D4 & C4 & P4).
      destruct (IHr (with_depth c4 (depth c4 - 1)) c' ltac:(simpl; lia) H) as (K5 & R5 & D5 & C5 & P5).
      simpl in *. repeat split; try congruence; lia.
  Qed.

  Lemma eval_aux_frame a : forall c c', eval_aux pr lim a c = inl c' ->
    k c' = k c /\ r c' = r c /\ depth c' = depth c.
  Proof.
    induction a as [| rest IH | rest IH | n inner IHi rest IHr]; intros c c' H; simpl in H.
    - injection H as <-. auto.
    - apply IH; assumption.
    - unfold bind_cf in H. destruct (native pr lim c) as [c1|f] eqn:E; [|discriminate].
      apply native_inl in E. destruct E as (K1 & R1 & D1 & _).
      destruct (IH c1 c' H) as (A & B & C). repeat split; congruence.
    - unfold bind_cf in H.
      destruct (charge c KindInv (c_inv pr)) as [c1|f] eqn:E1; [|discriminate].
      apply charge_inl in E1. destruct E1 as (K1 & R1 & D1 & _).
      destruct (enter lim c1) as [c2|f] eqn:E2; [|discriminate].
      apply enter_inl in E2. destruct E2 as (K2 & R2 & D2 & _).
      destruct (charge c2 KindStmt (c_stmt pr * Z.max 0 n)) as [c3|f] eqn:E3; [|discriminate].
      apply charge_inl in E3. destruct E3 as (K3 & R3 & D3 & _).
      destruct (eval_aux pr lim inner c3) as [c4|f] eqn:E4; [|discriminate].
      destruct (IHi c3 c4 E4) as (K4 & R4 & D4).
      destruct (IHr (with_depth c4 (depth c4 - 1)) c' H) as (K5 & R5 & D5).
      simpl in *. repeat split; try congruence; lia.
  Qed.

  Lemma eval_aux_inr a : forall c f, eval_aux pr lim a c = inr f ->
    f = FLimit LimitComputation \/ f = FLimit LimitDepth.
  Proof.
    induction a as [| rest IH | rest IH | n inner IHi rest IHr]; intros c f H; simpl in H.
    - discriminate.
    - eapply IH; eauto.
    - unfold bind_cf in H. destruct (native pr lim c) as [c1|f1] eqn:E.
      + eapply IH; eauto.
      + injection H as <-. eapply native_inr; eauto.
    - unfold bind_cf in H.
      destruct (charge c KindInv (c_inv pr)) as [c1|f1] eqn:E1;
        [|injection H as <-; left; eapply charge_inr; eauto].
      destruct (enter lim c1) as [c2|f2] eqn:E2.
      + destruct (charge c2 KindStmt (c_stmt pr * Z.max 0 n)) as [c3|f3] eqn:E3;
          [|injection H as <-; left; eapply charge_inr; eauto].
        destruct (eval_aux pr lim inner c3) as [c4|f4] eqn:E4.
        * eapply IHr; eauto.
        * injection H as <-. eapply IHi; eauto.
      + injection H as <-. unfold enter in E2. destruct (l_depth lim <? depth c1 + 1); [|discriminate].
        injection E2 as <-. auto.
  Qed.

  (* every step that does not end the run strictly decreases the measure *)
  Lemma step_decreases c c' :
    0 <= comp_left c -> step pr lim funs c = inl c' ->
    (measure c' < measure c)%nat /\ 0 <= comp_left c'.
  Proof.
    destruct Hm as (M1 & M2 & M3 & M4 & M5 & M6).
    intros H0 H. unfold step in H. unfold measure.
    destruct (k c) as [|it rest] eqn:Ek; [discriminate|].
    destruct it as [s|b body|x saved].
    - (* statement *)
      unfold bind_cf in H. destruct (charge c KindStmt (c_stmt pr)) as [c1|f] eqn:E1; [|discriminate].
      apply charge_inl in E1. destruct E1 as (K1 & R1 & D1 & Me1 & C1 & L1).
      assert (H1 : 0 <= comp_left c1) by lia.
      destruct s.
      + injection H as <-. simpl. split; lia.
      + injection H as <-. simpl. split; lia.
      + injection H as <-. simpl. split; lia.
      + injection H as <-. simpl. rewrite n_open_app, n_open_stmts. split; lia.
      + pose proof (loop_test_inl c1 c0 b rest c' _ H1 H eq_refl) as P.
        destruct (beval (r c1) c0); destruct P as (A & B & C & _); rewrite C; simpl; split; lia.
      + destruct (unwind_break rest) as [k'|] eqn:U; [|discriminate]. injection H as <-. simpl.
        apply unwind_break_open in U. split; lia.
      + destruct (unwind_continue rest) as [k'|] eqn:U; [|discriminate]. injection H as <-. simpl.
        apply unwind_continue_open in U. split; lia.
      + destruct (unwind_return rest) as [[[x saved] k']|] eqn:U; [|discriminate]. injection H as <-. simpl.
        apply unwind_return_open in U. split; lia.
      + destruct (nth_error funs f) as [body|]; [|discriminate].
        destruct (charge c1 KindInv (c_inv pr)) as [c2|f2] eqn:E2; [|discriminate].
        apply charge_inl in E2. destruct E2 as (K2 & R2 & D2 & Me2 & C2 & L2).
        unfold enter in H. destruct (l_depth lim <? depth c2 + 1); [discriminate|].
        simpl in H. injection H as <-. simpl. rewrite n_open_app, n_open_stmts. simpl. split; lia.
      + destruct (native pr lim c1) as [c2|f2] eqn:E2; [|discriminate].
        apply native_inl in E2. destruct E2 as (K2 & R2 & D2 & C2 & L2).
        destruct (charge_mem c2 true (m_elem pr)) as [c3|f3] eqn:E3; [|discriminate].
        apply charge_mem_inl in E3. destruct E3 as (K3 & R3 & D3 & C3).
        injection H as <-. simpl. split; lia.
      + destruct (native pr lim c1) as [c2|f2] eqn:E2; [|discriminate].
        apply native_inl in E2. destruct E2 as (K2 & R2 & D2 & C2 & L2).
        destruct (charge c2 KindLoop (Z.max 0 (2 * get (r c2) s))) as [c3|f3] eqn:E3; [|discriminate].
        apply charge_inl in E3. destruct E3 as (K3 & R3 & D3 & Me3 & C3 & L3).
        destruct (charge_mem c3 false (Z.max 0 (2 * get (r c2) s))) as [c4|f4] eqn:E4; [|discriminate].
        apply charge_mem_inl in E4. destruct E4 as (K4 & R4 & D4 & C4).
        injection H as <-. simpl. split; lia.
      + destruct (eval_aux pr lim a c1) as [c2|f2] eqn:E2; [|discriminate].
        destruct (eval_aux_inl a c1 c2 H1 E2) as (K2 & R2 & D2 & C2 & P2).
        injection H as <-. simpl. split; lia.
    - (* next loop test *)
      unfold bind_cf in H. destruct (charge c KindStmt (c_looptest pr)) as [c1|f] eqn:E1; [|discriminate].
      apply charge_inl in E1. destruct E1 as (K1 & R1 & D1 & Me1 & C1 & L1).
      assert (H1 : 0 <= comp_left c1) by lia.
      pose proof (loop_test_inl c1 b body rest c' _ H1 H eq_refl) as P. simpl.
      destruct (beval (r c1) b); destruct P as (A & B & C & _); rewrite C; simpl; split; lia.
    - injection H as <-. simpl. split; lia.
  Qed.

  Lemma step_final c f : step pr lim funs c = inr f -> final_ok f.
  Proof.
    unfold step, final_ok. destruct (k c) as [|it rest].
    - intro H. injection H as <-. left. eauto 7.
    - destruct it as [s|b body|x saved]; unfold bind_cf.
      + destruct (charge c KindStmt (c_stmt pr)) as [c1|f1] eqn:E1;
          [|intro H; injection H as <-; apply charge_inr in E1; subst; auto].
        destruct s; try discriminate.
        * intro H. apply loop_test_inr in H. subst. auto.
        * destruct (unwind_break rest); [discriminate|]. intro H. injection H as <-. auto 6.
        * destruct (unwind_continue rest); [discriminate|]. intro H. injection H as <-. auto 6.
        * destruct (unwind_return rest) as [[[? ?] ?]|]; [discriminate|]. intro H. injection H as <-. left. eauto 7.
        * destruct (nth_error funs f0); [|intro H; injection H as <-; auto 6].
          destruct (charge c1 KindInv (c_inv pr)) as [c2|f2] eqn:E2;
            [|intro H; injection H as <-; apply charge_inr in E2; subst; auto].
          unfold enter. destruct (l_depth lim <? depth c2 + 1); [|discriminate].
          intro H. injection H as <-. auto 6.
        * destruct (native pr lim c1) as [c2|f2] eqn:E2;
            [|intro H; injection H as <-; apply native_inr in E2; destruct E2; subst; auto 6].
          destruct (charge_mem c2 true (m_elem pr)) as [c3|f3] eqn:E3; [discriminate|].
          intro H. injection H as <-. apply charge_mem_inr in E3. subst. auto.
        * destruct (native pr lim c1) as [c2|f2] eqn:E2;
            [|intro H; injection H as <-; apply native_inr in E2; destruct E2; subst; auto 6].
          destruct (charge c2 KindLoop (Z.max 0 (2 * get (r c2) s))) as [c3|f3] eqn:E3;
            [|intro H; injection H as <-; apply charge_inr in E3; subst; auto].
          destruct (charge_mem c3 false (Z.max 0 (2 * get (r c2) s))) as [c4|f4] eqn:E4; [discriminate|].
          intro H. injection H as <-. apply charge_mem_inr in E4. subst. auto.
        * destruct (eval_aux pr lim a c1) as [c2|f2] eqn:E2; [discriminate|].
          intro H. injection H as <-. apply eval_aux_inr in E2. destruct E2; subst; auto 6.
      + destruct (charge c KindStmt (c_looptest pr)) as [c1|f1] eqn:E1;
          [|intro H; injection H as <-; apply charge_inr in E1; subst; auto].
        intro H. apply loop_test_inr in H. subst. auto.
      + discriminate.
  Qed.

  (* termination with an explicit bound *)
  Theorem bounded c : 0 <= comp_left c ->
    exists n f, (n <= measure c + 1)%nat /\ steps pr lim funs n c = inr f /\ final_ok f.
  Proof.
    remember (measure c) as m eqn:Em. revert c Em.
    induction m as [m IH] using lt_wf_ind. intros c Em H0.
    destruct (step pr lim funs c) as [c'|f] eqn:Es.
    - destruct (step_decreases c c' H0 Es) as [Hlt H0'].
      destruct (IH (measure c') ltac:(lia) c' eq_refl H0') as (n & f & Hn & Hs & Hf).
      exists (S n), f. simpl. rewrite Es. split; [lia|]. split; assumption.
    - exists 1%nat, f. simpl. rewrite Es. split; [lia|]. split; [reflexivity|]. eapply step_final; eauto.
  Qed.

  (* ---------------------------------------------------------------- call depth *)
  Definition base_depth : Z := if count_main pr then 1 else 0.

  (* the depth counter equals the number of calls in progress (+ the entry point where it is counted), and
     never exceeds the limit *)
  Definition depth_inv (c : config) : Prop :=
    depth c = base_depth + Z.of_nat (n_ret (k c)) /\ (depth c <= Z.max base_depth (l_depth lim)).

  Lemma step_depth c c' : depth_inv c -> step pr lim funs c = inl c' -> depth_inv c'.
  Proof.
    unfold depth_inv. intros [Hd Hl] H. unfold step in H.
    destruct (k c) as [|it rest] eqn:Ek; [discriminate|]. simpl in Hd.
    destruct it as [s|b body|x saved]; unfold bind_cf in H.
    - destruct (charge c KindStmt (c_stmt pr)) as [c1|f] eqn:E1; [|discriminate].
      apply charge_inl in E1. destruct E1 as (K1 & R1 & D1 & _).
      destruct s.
      + injection H as <-. simpl. lia.
      + injection H as <-. simpl. lia.
      + injection H as <-. simpl. lia.
      + injection H as <-. simpl. rewrite n_ret_app, n_ret_stmts. simpl. lia.
      + unfold loop_test, bind_cf in H. destruct (beval (r c1) c0).
        * destruct (charge c1 KindLoop (c_loop pr)) as [c2|f2] eqn:E2; [|discriminate].
          apply charge_inl in E2. destruct E2 as (_ & _ & D2 & _). injection H as <-. simpl.
          rewrite n_ret_app, n_ret_stmts. simpl. lia.
        * injection H as <-. simpl. lia.
      + destruct (unwind_break rest) as [k'|] eqn:U; [|discriminate]. injection H as <-. simpl.
        apply unwind_break_ret in U. lia.
      + destruct (unwind_continue rest) as [k'|] eqn:U; [|discriminate]. injection H as <-. simpl.
        apply unwind_continue_ret in U. lia.
      + destruct (unwind_return rest) as [[[x saved] k']|] eqn:U; [|discriminate]. injection H as <-. simpl.
        apply unwind_return_ret in U. lia.
      + destruct (nth_error funs f) as [body|]; [|discriminate].
        destruct (charge c1 KindInv (c_inv pr)) as [c2|f2] eqn:E2; [|discriminate].
        apply charge_inl in E2. destruct E2 as (_ & _ & D2 & _).
        unfold enter in H. destruct (l_depth lim <? depth c2 + 1) eqn:El; [discriminate|].
        apply Z.ltb_ge in El. simpl in H. injection H as <-. simpl.
        rewrite n_ret_app, n_ret_stmts. simpl. lia.
      + destruct (native pr lim c1) as [c2|f2] eqn:E2; [|discriminate].
        apply native_inl in E2. destruct E2 as (K2 & R2 & D2 & _).
        destruct (charge_mem c2 true (m_elem pr)) as [c3|f3] eqn:E3; [|discriminate].
        apply charge_mem_inl in E3. destruct E3 as (K3 & R3 & D3 & _).
        injection H as <-. simpl. lia.
      + destruct (native pr lim c1) as [c2|f2] eqn:E2; [|discriminate].
        apply native_inl in E2. destruct E2 as (K2 & R2 & D2 & _).
        destruct (charge c2 KindLoop (Z.max 0 (2 * get (r c2) s))) as [c3|f3] eqn:E3; [|discriminate].
        apply charge_inl in E3. destruct E3 as (K3 & R3 & D3 & _).
        destruct (charge_mem c3 false (Z.max 0 (2 * get (r c2) s))) as [c4|f4] eqn:E4; [|discriminate].
        apply charge_mem_inl in E4. destruct E4 as (K4 & R4 & D4 & _).
        injection H as <-. simpl. lia.
      + destruct (eval_aux pr lim a c1) as [c2|f2] eqn:E2; [|discriminate].
        destruct (eval_aux_frame a c1 c2 E2) as (K2 & R2 & D2).
        injection H as <-. simpl. lia.
    - destruct (charge c KindStmt (c_looptest pr)) as [c1|f] eqn:E1; [|discriminate].
      apply charge_inl in E1. destruct E1 as (K1 & R1 & D1 & _).
      unfold loop_test, bind_cf in H. destruct (beval (r c1) b).
      + destruct (charge c1 KindLoop (c_loop pr)) as [c2|f2] eqn:E2; [|discriminate].
        apply charge_inl in E2. destruct E2 as (_ & _ & D2 & _). injection H as <-. simpl.
        rewrite n_ret_app, n_ret_stmts. simpl. lia.
      + injection H as <-. simpl. lia.
    - injection H as <-. simpl. lia.
  Qed.

  Lemma steps_depth n : forall c c', depth_inv c -> steps pr lim funs n c = inl c' -> depth_inv c'.
  Proof.
    induction n as [|n IH]; intros c c' Hd H; simpl in H.
    - injection H as <-. exact Hd.
    - destruct (step pr lim funs c) as [c1|f] eqn:Es; [|discriminate].
      eapply IH; [|exact H]. eapply step_depth; eauto.
  Qed.

  Lemma init_depth main : depth_inv (init pr lim main).
  Proof.
    unfold depth_inv, init, base_depth. simpl. rewrite n_ret_stmts. simpl. split; lia.
  Qed.
End Proofs.

(* ---------------------------------------------------------------- the hypothesis is needed *)
(* a profile that does not meter loop iterations (c_loop = c_looptest = 0): `while true {}` never ends *)
Definition unmetered_loops : profile := mk_profile 1 0 0 1 1 true false.

Lemma spin_fixpoint lim funs c :
  k c = [KLoop BTrue []] -> 0 <= comp_left c ->
  exists c', step unmetered_loops lim funs c = inl c' /\ k c' = [KLoop BTrue []] /\ comp_left c' = comp_left c.
Proof.
  intros Hk H0. unfold step. rewrite Hk.
  assert (E : comp_left c <? 0 = false) by (apply Z.ltb_ge; lia).
  assert (E2 : comp_left c - 0 <? 0 = false) by (apply Z.ltb_ge; lia).
  cbn [unmetered_loops c_looptest c_loop bind_cf]. unfold charge at 1. rewrite E.
  cbn [bind_cf]. unfold loop_test. cbn [beval r comp_left unmetered_loops c_loop bind_cf].
  unfold charge. cbn [comp_left]. rewrite E2. cbn [bind_cf].
  eexists. split; [reflexivity|]. cbn. split; [reflexivity|lia].
Qed.

Theorem unmetered_loop_diverges lim funs : forall n c,
  k c = [KLoop BTrue []] -> 0 <= comp_left c ->
  exists c', steps unmetered_loops lim funs n c = inl c'.
Proof.
  induction n as [|n IH]; intros c Hk H0; simpl; [eauto|].
  destruct (spin_fixpoint lim funs c Hk H0) as (c' & Hs & Hk' & Hc'). rewrite Hs.
  apply IH; [exact Hk'|lia].
Qed.
