(* C30  Every execution is bounded by the metering and depth limits -- executable model (definitions only).

   A small-step TOTAL machine for a mini language with loops, recursion through a function table, growing arrays
   and doubling strings.  Shape of the code modelled (onflow/cadence):
   - interpreter/interpreter_statement.go visitStatement : every statement charges StatementComputationUsage;
     VisitWhileStatement: every iteration charges LoopComputationUsage (reportLoopIteration) and, in the
     interpreter only, one more statement charge before the next test;
   - bbq/vm/vm.go opStatement / opLoop / invokeFunction : the same charges in the VM (no next-test charge);
   - interpreter/interpreter_expression.go reportFunctionInvocation, common.FunctionInvocationComputationUsage;
   - runtime/stackdepth.go stackDepthLimiter (interpreter: counts every invocation, natives included, not the
     entry point) and bbq/vm/vm.go pushCallFrame (VM: counts compiled frames, the entry point included);
   - common/metering.go UseComputation / UseMemory: a gauge error ends the run with ComputationMeteringError /
     MemoryMeteringError (user errors);
   - interpreter/value_string.go Concat: computation (kind Loop) and memory proportional to the new length;
     interpreter/value_array.go Append: memory per element.
   The costs are parameters ([profile]); the theorems need: statement cost >= 1, loop iteration cost >= 1. *)
From CV Require Export Base.Prelude.

(* ---------------------------------------------------------------- syntax *)
Inductive expr : Type :=
| EConst (z : Z)
| EVar (x : nat)
| EAdd (a b : expr)
| ESub (a b : expr).

Inductive bexpr : Type :=
| BTrue
| BLt (a b : expr)
| BEq (a b : expr)
| BNot (b : bexpr).

(* Calls made by one statement besides the modelled recursive call, as a sequence with nesting: every form of
   call whose depth accounting must be balanced (the depth after the statement equals the depth before).
     ASkip   an optional-chaining invocation whose receiver is nil: nothing is invoked, nothing is counted;
     ANat    a built-in (native) function;
     AUser n inner  a user-defined callee (function, bound method, closure, initializer, interface default
             function, function used in a condition): its body runs n statements and makes the calls [inner]. *)
Inductive aux : Type :=
| ANone
| ASkip (rest : aux)
| ANat (rest : aux)
| AUser (nstmts : Z) (inner : aux) (rest : aux).

Inductive stmt : Type :=
| SAssign (x : nat) (e : expr)           (* var x = e  /  x = e *)
| SDeclArr (a : nat)                     (* var a: [Int] = [] *)
| SDeclStr (s : nat)                     (* var s = "ab" *)
| SIf (c : bexpr) (a b : list stmt)
| SWhile (c : bexpr) (b : list stmt)
| SBreak
| SContinue
| SReturn (e : expr)
| SCall (x : nat) (f : nat) (args : list expr)   (* x = f(args): function f of the table *)
| SAppend (a : nat) (e : expr)                   (* a.append(e): built-in, the array grows by one element *)
| SConcat (s : nat)                              (* s = s.concat(s): built-in, the string doubles *)
| SAux (a : aux).                                (* a statement making the calls [a]; no effect on the variables *)

(* variables of a frame: numbers; for arrays and strings the number is the length *)
Definition env := list Z.

Fixpoint get (r : env) (x : nat) : Z :=
  match r, x with
  | [], _ => 0
  | v :: _, O => v
  | _ :: t, S x' => get t x'
  end.

Fixpoint set (r : env) (x : nat) (v : Z) : env :=
  match r, x with
  | [], O => [v]
  | [], S x' => 0 :: set [] x' v
  | _ :: t, O => v :: t
  | w :: t, S x' => w :: set t x' v
  end.

Fixpoint eval (r : env) (e : expr) : Z :=
  match e with
  | EConst z => z
  | EVar x => get r x
  | EAdd a b => eval r a + eval r b
  | ESub a b => eval r a - eval r b
  end.

Fixpoint beval (r : env) (b : bexpr) : bool :=
  match b with
  | BTrue => true
  | BLt a c => eval r a <? eval r c
  | BEq a c => eval r a =? eval r c
  | BNot c => negb (beval r c)
  end.

(* ---------------------------------------------------------------- costs and limits *)
Record profile : Type := mk_profile {
  c_stmt : Z;          (* ComputationKindStatement per statement *)
  c_loop : Z;          (* ComputationKindLoop per loop iteration *)
  c_looptest : Z;      (* extra statement charge before the next loop test (interpreter: 1, VM: 0) *)
  c_inv : Z;           (* ComputationKindFunctionInvocation per invocation *)
  m_elem : Z;          (* memory per appended array element *)
  count_main : bool;   (* the entry point occupies one level of the call depth (VM) *)
  count_native : bool  (* built-in functions are subject to the depth check (interpreter) *)
}.

Definition interp_profile : profile := mk_profile 1 1 1 1 1 false true.
Definition vm_profile : profile := mk_profile 1 1 0 1 1 true false.

Definition metered (p : profile) : Prop :=
  1 <= c_stmt p /\ 0 <= c_loop p /\ 0 <= c_looptest p /\ 1 <= c_loop p + c_looptest p
  /\ 0 <= c_inv p /\ 0 <= m_elem p.

Record limits : Type := mk_limits {
  l_comp : Z;              (* computation limit (finite) *)
  l_mem : option Z;        (* memory limit, None = no memory gauge *)
  l_depth : Z }.           (* call-depth limit *)

(* ---------------------------------------------------------------- machine *)
Inductive kitem : Type :=
| KStmt (s : stmt)
| KLoop (c : bexpr) (b : list stmt)    (* a loop whose body is running: test again, then repeat or leave *)
| KRet (x : nat) (saved : env).        (* a call in progress: on return, x of the saved frame gets the result *)

Inductive final : Type :=
| FDone (v : Z) (nstmt nloop ninv nmem : Z)  (* result and the charges made *)
| FLimit (e : err)       (* LimitComputation | LimitMemory | LimitDepth *)
| FIllFormed.            (* unbound function / break outside a loop: rejected by the checker, never run *)

Record config : Type := mk_config {
  k : list kitem;
  r : env;
  comp_left : Z;
  mem_left : option Z;
  depth : Z;
  n_stmt : Z; n_loop : Z; n_inv : Z;    (* charges made so far, per computation kind *)
  n_mem : Z                             (* memory charged so far for container growth *)
}.

Inductive kind : Type := KindStmt | KindLoop | KindInv.

(* common.UseComputation: the gauge fails once more than the limit has been used *)
Definition charge (c : config) (kd : kind) (n : Z) : config + final :=
  if comp_left c <? n then inr (FLimit LimitComputation)
  else inl (mk_config (k c) (r c) (comp_left c - n) (mem_left c) (depth c)
              (match kd with KindStmt => n_stmt c + n | _ => n_stmt c end)
              (match kd with KindLoop => n_loop c + n | _ => n_loop c end)
              (match kd with KindInv => n_inv c + n | _ => n_inv c end) (n_mem c)).

(* [elems]: the charge is for array elements (counted in n_mem; other memory kinds are not compared) *)
Definition charge_mem (c : config) (elems : bool) (n : Z) : config + final :=
  match mem_left c with
  | None => inl (mk_config (k c) (r c) (comp_left c) None (depth c) (n_stmt c) (n_loop c) (n_inv c)
                           (if elems then n_mem c + n else n_mem c))
  | Some m => if m <? n then inr (FLimit LimitMemory)
              else inl (mk_config (k c) (r c) (comp_left c) (Some (m - n)) (depth c) (n_stmt c) (n_loop c) (n_inv c)
                                  (if elems then n_mem c + n else n_mem c))
  end.

Definition with_k (c : config) (k' : list kitem) : config :=
  mk_config k' (r c) (comp_left c) (mem_left c) (depth c) (n_stmt c) (n_loop c) (n_inv c) (n_mem c).
Definition with_r (c : config) (r' : env) : config :=
  mk_config (k c) r' (comp_left c) (mem_left c) (depth c) (n_stmt c) (n_loop c) (n_inv c) (n_mem c).
Definition with_depth (c : config) (d : Z) : config :=
  mk_config (k c) (r c) (comp_left c) (mem_left c) d (n_stmt c) (n_loop c) (n_inv c) (n_mem c).

Definition bind_cf (x : config + final) (f : config -> config + final) : config + final :=
  match x with inl c => f c | inr e => inr e end.

(* leave the innermost loop: drop everything up to and including its KLoop *)
Fixpoint unwind_break (k : list kitem) : option (list kitem) :=
  match k with
  | [] => None
  | KLoop _ _ :: t => Some t
  | KRet _ _ :: _ => None
  | KStmt _ :: t => unwind_break t
  end.

(* continue: drop everything up to (not including) the innermost KLoop *)
Fixpoint unwind_continue (k : list kitem) : option (list kitem) :=
  match k with
  | [] => None
  | KLoop c b :: t => Some (KLoop c b :: t)
  | KRet _ _ :: _ => None
  | KStmt _ :: t => unwind_continue t
  end.

(* return: drop everything up to and including the innermost KRet *)
Fixpoint unwind_return (k : list kitem) : option (nat * env * list kitem) :=
  match k with
  | [] => None
  | KRet x saved :: t => Some (x, saved, t)
  | _ :: t => unwind_return t
  end.

Section Machine.
  Variable pr : profile.
  Variable lim : limits.
  Variable funs : list (list stmt).     (* function table: bodies; arguments arrive in variables 0,1,... *)

  (* the loop test: leave, or charge one iteration and run the body again *)
  Definition loop_test (c : config) (b : bexpr) (body : list stmt) (rest : list kitem) : config + final :=
    if beval (r c) b
    then bind_cf (charge c KindLoop (c_loop pr))
                 (fun c1 => inl (with_k c1 (map KStmt body ++ KLoop b body :: rest)))
    else inl (with_k c rest).

  (* the depth check made when a function is entered *)
  Definition enter (c : config) : config + final :=
    if l_depth lim <? depth c + 1 then inr (FLimit LimitDepth) else inl (with_depth c (depth c + 1)).

  (* a built-in function: invocation charge, depth check where built-ins are counted (depth unchanged afterwards) *)
  Definition native (c : config) : config + final :=
    bind_cf (charge c KindInv (c_inv pr))
            (fun c1 => if count_native pr && (l_depth lim <? depth c1 + 1)
                       then inr (FLimit LimitDepth) else inl c1).

  (* the calls of an [aux]: each user-defined callee is charged one invocation, occupies one depth level while it
     runs (checked against the limit when it is entered, released when it returns) and charges its statements *)
  Fixpoint eval_aux (a : aux) (c : config) : config + final :=
    match a with
    | ANone => inl c
    | ASkip rest => eval_aux rest c
    | ANat rest => bind_cf (native c) (eval_aux rest)
    | AUser n inner rest =>
        bind_cf (charge c KindInv (c_inv pr)) (fun c1 =>
        bind_cf (enter c1) (fun c2 =>
        bind_cf (charge c2 KindStmt (c_stmt pr * Z.max 0 n)) (fun c3 =>
        bind_cf (eval_aux inner c3) (fun c4 =>
          eval_aux rest (with_depth c4 (depth c4 - 1))))))
    end.

  Definition step (c : config) : config + final :=
    match k c with
    | [] => inr (FDone 0 (n_stmt c) (n_loop c) (n_inv c) (n_mem c))
    | KRet x saved :: rest =>
        (* the body ended without return: result 0 *)
        inl (mk_config rest (set saved x 0) (comp_left c) (mem_left c) (depth c - 1) (n_stmt c) (n_loop c) (n_inv c) (n_mem c))
    | KLoop b body :: rest =>
        bind_cf (charge c KindStmt (c_looptest pr)) (fun c1 => loop_test c1 b body rest)
    | KStmt s :: rest =>
        bind_cf (charge c KindStmt (c_stmt pr)) (fun c1 =>
          match s with
          | SAssign x e => inl (with_k (with_r c1 (set (r c1) x (eval (r c1) e))) rest)
          | SDeclArr a => inl (with_k (with_r c1 (set (r c1) a 0)) rest)
          | SDeclStr s0 => inl (with_k (with_r c1 (set (r c1) s0 2)) rest)
          | SIf b t e => inl (with_k c1 (map KStmt (if beval (r c1) b then t else e) ++ rest))
          | SWhile b body => loop_test c1 b body rest
          | SBreak => match unwind_break rest with Some k' => inl (with_k c1 k') | None => inr FIllFormed end
          | SContinue => match unwind_continue rest with Some k' => inl (with_k c1 k') | None => inr FIllFormed end
          | SReturn e =>
              let v := eval (r c1) e in
              match unwind_return rest with
              | Some (x, saved, k') =>
                  inl (mk_config k' (set saved x v) (comp_left c1) (mem_left c1) (depth c1 - 1)
                                 (n_stmt c1) (n_loop c1) (n_inv c1) (n_mem c1))
              | None => inr (FDone v (n_stmt c1) (n_loop c1) (n_inv c1) (n_mem c1))
              end
          | SCall x f args =>
              match nth_error funs f with
              | None => inr FIllFormed
              | Some body =>
                  bind_cf (charge c1 KindInv (c_inv pr)) (fun c2 =>
                  bind_cf (enter c2) (fun c3 =>
                    inl (mk_config (map KStmt body ++ KRet x (r c3) :: rest) (map (eval (r c3)) args)
                                   (comp_left c3) (mem_left c3) (depth c3) (n_stmt c3) (n_loop c3) (n_inv c3) (n_mem c3))))
              end
          | SAppend a e =>
              bind_cf (native c1) (fun c2 =>
              bind_cf (charge_mem c2 true (m_elem pr)) (fun c3 =>
                inl (with_k (with_r c3 (set (r c3) a (get (r c3) a + 1))) rest)))
          | SConcat s0 =>
              bind_cf (native c1) (fun c2 =>
              let n := Z.max 0 (2 * get (r c2) s0) in
              bind_cf (charge c2 KindLoop n) (fun c3 =>
              bind_cf (charge_mem c3 false n) (fun c4 =>
                inl (with_k (with_r c4 (set (r c4) s0 n)) rest))))
          | SAux a => bind_cf (eval_aux a c1) (fun c2 => inl (with_k c2 rest))
          end)
    end.

  (* n steps; a final state stays *)
  Fixpoint steps (n : nat) (c : config) : config + final :=
    match n with
    | O => inl c
    | S n' => match step c with inl c' => steps n' c' | inr f => inr f end
    end.

  (* up to 2^j steps (for running the model on concrete programs) *)
  Fixpoint run_pow (j : nat) (c : config) : config + final :=
    match j with
    | O => step c
    | S j' => match run_pow j' c with inl c' => run_pow j' c' | inr f => inr f end
    end.

  Definition init (main : list stmt) : config :=
    mk_config (map KStmt main) [] (l_comp lim) (l_mem lim) (if count_main pr then 1 else 0) 0 0 (c_inv pr) 0.
End Machine.

(* number of calls in progress / loops in progress recorded in a continuation *)
Fixpoint n_ret (k : list kitem) : nat :=
  match k with [] => O | KRet _ _ :: t => S (n_ret t) | _ :: t => n_ret t end.
Fixpoint n_open (k : list kitem) : nat :=
  match k with [] => O | KStmt _ :: t => n_open t | _ :: t => S (n_open t) end.
