(* C30  check functions used by the per-run case files. *)
From CV Require Export C30.Model.

(* what the real run showed: normal end with result and the per-kind computation totals
   (Statement, Loop, FunctionInvocation) and the memory total of kind AtreeArrayElementOverhead, or the class of the limit error *)
Inductive obs : Type :=
| ODone (v nstmt nloop ninv nelem : Z)
| OLimit (e : err)
| OOther.

Definition profile_of (vm : bool) : profile := if vm then vm_profile else interp_profile.

(* (vm?, computation limit, memory limit (-1 = none), depth limit, function table, main, observed) *)
Definition check_case (c : bool * Z * Z * Z * list (list stmt) * list stmt * obs) : bool :=
  let '(vm, lc, lm, ld, funs, main, ob) := c in
  let pr := profile_of vm in
  let lim := mk_limits lc (if lm <? 0 then None else Some lm) ld in
  match run_pow pr lim funs 26 (init pr lim main), ob with
  | inr (FDone v s l i m), ODone v' s' l' i' m' => (v =? v') && (s =? s') && (l =? l') && (i =? i') && (m =? m')
  | inr (FLimit e), OLimit e' => err_eqb e e'
  | _, _ => false
  end.
