(* C10: the conformance linearisation (sema.distinctConformances) visits every implemented
   interface exactly once. *)
From CV Require Import C10.Model.
Import ListNotations.

Lemma mem_In c l : mem c l = true <-> In c l.
Proof.
  unfold mem. rewrite existsb_exists. split.
  - intros [x [Hin Heq]]. apply Nat.eqb_eq in Heq. subst; auto.
  - intros H. exists c. split; auto. apply Nat.eqb_refl.
Qed.

Lemma nodup_app {A} (l1 l2 : list A) :
  NoDup l1 -> NoDup l2 -> (forall x, In x l1 -> ~ In x l2) -> NoDup (l1 ++ l2).
Proof.
  induction l1 as [|a l1 IH]; simpl; intros H1 H2 Hd; auto.
  inversion H1; subst. constructor.
  - intros Hin. apply in_app_or in Hin as [Hin|Hin]; [contradiction|].
    apply (Hd a); auto.
  - apply IH; auto.
Qed.

Section DFS.
Variable ifs : list iface.
Hypothesis acyclic : forall c d, In d (parents ifs c) -> (d < c)%nat.

Inductive path (avoid : nat -> Prop) : nat -> nat -> Prop :=
| path_refl c : ~ avoid c -> path avoid c c
| path_step c d x : ~ avoid c -> In d (parents ifs c) -> path avoid d x -> path avoid c x.

Lemma path_le avoid c x : path avoid c x -> (x <= c)%nat.
Proof.
  induction 1; [lia|]. pose proof (acyclic _ _ H0). lia.
Qed.

Lemma path_weaken (A B : nat -> Prop) c x :
  (forall y, B y -> A y) -> path A c x -> path B c x.
Proof.
  intros HBA. induction 1.
  - apply path_refl. intros HB. apply H. auto.
  - eapply path_step; eauto.
Qed.

Lemma path_bound_avoid (A B : nat -> Prop) c x :
  path A c x -> (forall z, (z <= c)%nat -> ~ B z) -> path (fun z => A z \/ B z) c x.
Proof.
  induction 1; intros HB.
  - apply path_refl. intros [Ha|Hb]; [auto | apply (HB c); auto].
  - eapply path_step; eauto.
    + intros [Ha|Hb]; [auto | apply (HB c); auto].
    + apply IHpath. intros z Hz. apply HB. pose proof (acyclic _ _ H0). lia.
Qed.

Lemma path_split (A : nat -> Prop) (S : list nat) c x :
  path A c x ->
  path (fun y => In y S \/ A y) c x \/ exists y, In y S /\ path A y x.
Proof.
  induction 1.
  - destruct (in_dec Nat.eq_dec c S) as [Hin|Hnin].
    + right. exists c. split; auto. apply path_refl; auto.
    + left. apply path_refl. intros [?|?]; contradiction.
  - destruct (in_dec Nat.eq_dec c S) as [Hin|Hnin].
    + right. exists c. split; auto. eapply path_step; eauto.
    + destruct IHpath as [Hl | [y [Hy Hp]]].
      * left. eapply path_step; eauto. intros [?|?]; contradiction.
      * right. exists y; auto.
Qed.

Lemma dconf_nil f seen : dconf (S f) ifs [] seen = ([], seen).
Proof. reflexivity. Qed.

Lemma dconf_cons f c rest seen :
  dconf (S f) ifs (c :: rest) seen =
  if mem c seen then dconf (S f) ifs rest seen
  else let '(nested, seen2) := dconf f ifs (parents ifs c) (c :: seen) in
       let '(r, seen3) := dconf (S f) ifs rest seen2 in
       (c :: nested ++ r, seen3).
Proof. reflexivity. Qed.

Definition dfs_ok (confs seen out seen' : list nat) : Prop :=
  (forall x, In x seen' <-> In x out \/ In x seen) /\
  NoDup out /\
  (forall x, In x out -> ~ In x seen) /\
  (forall x, In x out -> exists c, In c confs /\ (x <= c)%nat) /\
  (forall y, In y confs \/ In y out ->
     forall x, path (fun z => In z seen) y x -> In x out) /\
  (forall x, In x out -> exists c, In c confs /\ path (fun _ => False) c x).

Lemma dfs_ok_nil seen : dfs_ok [] seen [] seen.
Proof.
  unfold dfs_ok. split; [|split; [|split; [|split; [|split]]]].
  - intros x. simpl. tauto.
  - constructor.
  - intros x [].
  - intros x [].
  - intros y [[]|[]].
  - intros x [].
Qed.

Lemma dconf_ok : forall fuel confs seen out seen',
  (forall c, In c confs -> (c < fuel)%nat) ->
  dconf fuel ifs confs seen = (out, seen') -> dfs_ok confs seen out seen'.
Proof.
  induction fuel as [|f IHf].
  - intros confs seen out seen' Hb H. simpl in H. inversion H; subst.
    destruct confs as [|c r]; [|exfalso; specialize (Hb c (or_introl eq_refl)); lia].
    apply dfs_ok_nil.
  - induction confs as [|c rest IHc]; intros seen out seen' Hb H.
    + rewrite dconf_nil in H. inversion H; subst. apply dfs_ok_nil.
    + rewrite dconf_cons in H. destruct (mem c seen) eqn:Em.
      * apply mem_In in Em.
        destruct (IHc seen out seen' (fun x Hx => Hb x (or_intror Hx)) H)
          as [I1 [I2 [I3 [I4 [I5 I6]]]]].
        split; [|split; [|split; [|split; [|split]]]]; auto.
        -- intros x Hx. destruct (I4 x Hx) as [c0 [Hc0 Hle]]. exists c0; simpl; auto.
        -- intros y [[Hy|Hy]|Hy] x Hp.
           ++ subst y. inversion Hp; subst; contradiction.
           ++ apply (I5 y); auto.
           ++ apply (I5 y); auto.
        -- intros x Hx. destruct (I6 x Hx) as [c0 [Hc0 Hp]]. exists c0; simpl; auto.
      * assert (Hnc : ~ In c seen).
        { intros Hin. apply mem_In in Hin. congruence. }
        destruct (dconf f ifs (parents ifs c) (c :: seen)) as [nested seen2] eqn:En.
        destruct (dconf (S f) ifs rest seen2) as [r seen3] eqn:Er.
        inversion H; subst out seen'. clear H.
        assert (Hbn : forall d, In d (parents ifs c) -> (d < f)%nat).
        { intros d Hd. pose proof (acyclic _ _ Hd). pose proof (Hb c (or_introl eq_refl)). lia. }
        destruct (IHf _ _ _ _ Hbn En) as [N1 [N2 [N3 [N4 [N5 N6]]]]].
        destruct (IHc seen2 r seen3 (fun x Hx => Hb x (or_intror Hx)) Er)
          as [R1 [R2 [R3 [R4 [R5 R6]]]]].
        assert (Hlt : forall y, In y nested -> (y < c)%nat).
        { intros y Hy. destruct (N4 y Hy) as [d [Hd Hle]]. pose proof (acyclic _ _ Hd). lia. }
        (* everything reachable from c or from a node of nested stays in c :: nested *)
        assert (K : forall y, y = c \/ In y nested ->
                    forall x, path (fun z => In z seen) y x -> x = c \/ In x nested).
        { intros y [Hy|Hy] x Hp.
          - subst y. inversion Hp; subst; auto. right.
            apply (N5 d (or_introl H0)).
            eapply path_weaken; [| apply (path_bound_avoid _ (fun z => z = c) _ _ H1)].
            + simpl. intros z [Hz|Hz]; auto.
            + intros z Hz ->. pose proof (acyclic _ _ H0). lia.
          - right. apply (N5 y (or_intror Hy)).
            eapply path_weaken; [| apply (path_bound_avoid _ (fun z => z = c) _ _ Hp)].
            + simpl. intros z [Hz|Hz]; auto.
            + intros z Hz ->. pose proof (Hlt y Hy). lia. }
        assert (G5r : forall y, In y rest \/ In y r ->
                      forall x, path (fun z => In z seen) y x -> In x (c :: nested ++ r)).
        { intros y Hy x Hp.
          destruct (path_split _ (c :: nested) _ _ Hp) as [Hl | [y' [Hy' Hp']]].
          - right. apply in_or_app. right. apply (R5 y Hy).
            eapply path_weaken; [|exact Hl].
            intros z Hz. apply N1 in Hz. simpl in *. tauto.
          - destruct (K y') with (x := x) as [Hx|Hx]; auto.
            + simpl in Hy'. destruct Hy' as [<-|Hy']; auto.
            + left; auto.
            + right. apply in_or_app; auto. }
        split; [|split; [|split; [|split; [|split]]]].
        -- intros x. split.
           ++ intros Hx. apply R1 in Hx. destruct Hx as [Hx|Hx].
              ** left. right. apply in_or_app; auto.
              ** apply N1 in Hx. simpl in *. destruct Hx as [Hx|[Hx|Hx]]; auto.
                 left. right. apply in_or_app; auto.
           ++ intros [Hx|Hx]; apply R1.
              ** simpl in Hx. destruct Hx as [Hx|Hx].
                 --- right. apply N1. simpl. auto.
                 --- apply in_app_or in Hx as [Hx|Hx]; auto. right. apply N1. auto.
              ** right. apply N1. simpl. auto.
        -- constructor.
           ++ intros Hin. apply in_app_or in Hin as [Hin|Hin].
              ** apply (N3 c Hin). simpl; auto.
              ** apply (R3 c Hin). apply N1. simpl; auto.
           ++ apply nodup_app; auto.
              intros x Hx Hxr. apply (R3 x Hxr). apply N1. auto.
        -- intros x [Hx|Hx] Hs.
           ++ subst x. contradiction.
           ++ apply in_app_or in Hx as [Hx|Hx].
              ** apply (N3 x Hx). simpl; auto.
              ** apply (R3 x Hx). apply N1. simpl; auto.
        -- intros x [Hx|Hx].
           ++ subst x. exists c. simpl; auto.
           ++ apply in_app_or in Hx as [Hx|Hx].
              ** exists c. split; [simpl; auto|]. pose proof (Hlt x Hx). lia.
              ** destruct (R4 x Hx) as [c0 [Hc0 Hle]]. exists c0. simpl; auto.
        -- intros y Hy x Hp.
           assert (Hcases : (y = c \/ In y nested) \/ (In y rest \/ In y r)).
           { destruct Hy as [[Hy|Hy]|[Hy|Hy]]; auto.
             apply in_app_or in Hy as [Hy|Hy]; auto. }
           destruct Hcases as [Hy1|Hy2].
           ++ destruct (K y Hy1 x Hp) as [Hx|Hx]; [left; auto | right; apply in_or_app; auto].
           ++ apply (G5r y Hy2 x Hp).
        -- intros x [Hx|Hx].
           ++ subst x. exists c. split; [simpl; auto|]. apply path_refl. tauto.
           ++ apply in_app_or in Hx as [Hx|Hx].
              ** destruct (N6 x Hx) as [d [Hd Hp]]. exists c. split; [simpl; auto|].
                 eapply path_step; eauto.
              ** destruct (R6 x Hx) as [c0 [Hc0 Hp]]. exists c0. simpl; auto.
Qed.

End DFS.

(* ------------------------------------------------------------------ on programs *)

Lemma wf_ifaces_parents nf l : forall n,
  wf_ifaces nf n l = true ->
  forall k it, nth_error l k = Some it -> forall d, In d (i_parents it) -> (d < n + k)%nat.
Proof.
  induction l as [|it0 r IH]; simpl; intros n H k it Hk d Hd.
  - destruct k; discriminate.
  - apply andb_true_iff in H as [H Hr]. apply andb_true_iff in H as [H _].
    apply andb_true_iff in H as [Hp _].
    destruct k as [|k]; simpl in Hk.
    + inversion Hk; subst. rewrite forallb_forall in Hp. apply Hp in Hd.
      apply Nat.ltb_lt in Hd. lia.
    + pose proof (IH (S n) Hr k it Hk d Hd). lia.
Qed.

Lemma wf_acyclic nf ifs :
  wf_ifaces nf 0 ifs = true -> forall c d, In d (parents ifs c) -> (d < c)%nat.
Proof.
  intros H c d Hd. unfold parents in Hd.
  destruct (nth_error ifs c) as [it|] eqn:E; [|contradiction].
  apply (wf_ifaces_parents nf ifs 0 H c it E d Hd).
Qed.

Section Prog.
Variables (nf : nat) (p : prog).
Hypothesis wf : wf_prog nf p = true.

Lemma wf_parts :
  wf_ifaces nf 0 (p_ifaces p) = true /\
  forallb (fun j => Nat.ltb j (length (p_ifaces p))) (p_confs p) = true /\
  forallb (fun x => wf_decl nf (snd x) && has_body (snd x)) (p_funs p) = true /\
  nodup_names (p_funs p) = true /\
  defaults_ok p = true.
Proof.
  unfold wf_prog in wf. repeat (apply andb_true_iff in wf as [wf ?]). auto.
Qed.

Lemma eff_dfs_ok :
  dfs_ok (p_ifaces p) (p_confs p) [] (effective_conformances p)
         (snd (dconf (S (length (p_ifaces p))) (p_ifaces p) (p_confs p) [])).
Proof.
  destruct wf_parts as [Hi [Hc _]].
  unfold effective_conformances.
  destruct (dconf (S (length (p_ifaces p))) (p_ifaces p) (p_confs p) []) as [out seen'] eqn:E.
  simpl. eapply dconf_ok; eauto.
  - eapply wf_acyclic; eauto.
  - intros c Hin. rewrite forallb_forall in Hc. apply Hc in Hin. apply Nat.ltb_lt in Hin. lia.
Qed.

Lemma eff_nodup : NoDup (effective_conformances p).
Proof. destruct eff_dfs_ok as [_ [H _]]. exact H. Qed.

(* every implemented interface is in the linearisation *)
Lemma eff_complete i : implements p i -> In i (effective_conformances p).
Proof.
  destruct eff_dfs_ok as [_ [_ [_ [_ [H5 _]]]]].
  induction 1.
  - apply (H5 i (or_introl H)). apply path_refl. intros [].
  - apply (H5 j (or_intror IHimplements)).
    eapply path_step; eauto. apply path_refl. intros [].
Qed.

(* and nothing else is *)
Lemma eff_sound i : In i (effective_conformances p) -> implements p i.
Proof.
  destruct eff_dfs_ok as [_ [_ [_ [_ [_ H6]]]]].
  intros Hin. destruct (H6 i Hin) as [c [Hc Hp]].
  assert (Himp : implements p c) by (apply impl_direct; auto).
  clear Hc Hin. induction Hp; auto.
  apply IHHp. eapply impl_parent; eauto.
Qed.

End Prog.
