(* C10: main theorems. *)
From CV Require Import C10.Model C10.Lemmas C10.Conf C10.Interp C10.ExecLemmas C10.Desugar.
Import ListNotations.

Section Main.
Variables (nf : nat) (p : prog).
Hypothesis wf : wf_prog nf p = true.

(* ------------------------------------------------------------------ T0: interpreter = flat specification *)

Theorem call_flat_spec n f a b (st : state) (tr : trace) :
  length st = nf ->
  call (S n) p f a b (st, tr) = spec_invoke (call n p) p f a b (st, tr).
Proof. apply call_is_spec; auto. Qed.

(* every applicable declaration's conditions are among the checked ones *)
Lemma applies_pre f d own d0 c :
  impl_decl p f = Some (d0, own) -> applies p f d -> In c (f_pre d) -> In c (spec_pres p f d0 own).
Proof.
  intros Hi [Hown | [i [Himp Hif]]] Hc; unfold spec_pres.
  - unfold impl_decl in Hi. rewrite Hown in Hi. inversion Hi; subst. apply in_or_app; auto.
  - apply in_or_app. left. apply in_flat_map. exists (i, d). split; auto.
    unfold inherited_conds. apply in_flat_map. exists i. split.
    + apply (eff_complete nf p wf); auto.
    + rewrite Hif. unfold has_conditions. destruct (f_pre d); [contradiction|]. simpl; auto.
Qed.

Lemma applies_post f d own d0 c :
  impl_decl p f = Some (d0, own) -> applies p f d -> In c (f_post d) -> In c (spec_posts p f d0 own).
Proof.
  intros Hi [Hown | [i [Himp Hif]]] Hc; unfold spec_posts.
  - unfold impl_decl in Hi. rewrite Hown in Hi. inversion Hi; subst. apply in_or_app; auto.
  - apply in_or_app. right. apply in_flat_map. exists (i, d). split; auto.
    apply -> in_rev. unfold inherited_conds. apply in_flat_map. exists i. split.
    + apply (eff_complete nf p wf); auto.
    + rewrite Hif. unfold has_conditions. destruct (f_pre d), (f_post d); try contradiction; simpl; auto.
Qed.

(* ------------------------------------------------------------------ T1: conditions are enforced *)

Theorem conditions_enforced n f a b (st : state) (tr : trace) r st' tr' :
  length st = nf ->
  call n p f a b (st, tr) = (Ok r, (st', tr')) ->
  forall d, applies p f d ->
    (forall c, In (CTest c) (f_pre d) -> holds_pre a b st c) /\
    (forall c, In (CTest c) (f_post d) -> holds_post a b st st' r c).
Proof.
  intros Hlen Hcall d Happ. destruct n as [|n]; [discriminate|].
  rewrite call_flat_spec in Hcall by assumption. unfold spec_invoke in Hcall.
  destruct (impl_decl p f) as [[d0 own]|] eqn:Ei; [|discriminate].
  unfold spec_frame in Hcall. simpl in Hcall.
  destruct (schecks a b None st None (spec_pres p f d0 own) tr) as [[u|x] tr1] eqn:E1; [|discriminate].
  destruct (exec_fun_body (call n p) p d0 a b (st, tr1)) as [[r1|x] [st2 tr2]] eqn:E2; [|discriminate].
  simpl in Hcall.
  destruct (schecks a b (Some st) st2 (Some r1) (spec_posts p f d0 own) tr2) as [[u3|x] tr3] eqn:E3;
    [|discriminate].
  inversion Hcall; subst r st' tr'. split; intros c Hc.
  - eapply schecks_ok_holds; [exact E1|]. eapply applies_pre; eauto.
  - eapply schecks_ok_holds; [exact E3|]. eapply applies_post; eauto.
Qed.

(* ------------------------------------------------------------------ T2: a failing condition is a CondFail *)

Lemma find_fun_in_names f l d : find_fun f l = Some d -> In (f, d) l.
Proof. apply find_fun_in. Qed.

Lemma impl_exists f d : applies p f d -> exists d0 own, impl_decl p f = Some (d0, own).
Proof.
  intros [Hown | [i [Himp Hif]]]; unfold impl_decl.
  - rewrite Hown. eauto.
  - destruct (find_fun f (p_funs p)) as [d1|] eqn:Eo; [eauto|].
    destruct (wf_parts nf p wf) as [_ [_ [_ [_ Hd]]]]. unfold defaults_ok in Hd.
    rewrite forallb_forall in Hd. pose proof (eff_complete nf p wf i Himp) as Hin.
    specialize (Hd i Hin). unfold iface_fun in Hif.
    destruct (nth_error (p_ifaces p) i) as [it|] eqn:En; [|discriminate].
    rewrite forallb_forall in Hd. specialize (Hd (f, d) (find_fun_in _ _ _ Hif)). simpl in Hd.
    rewrite Eo in Hd. apply Nat.eqb_eq in Hd. unfold count_defaults in Hd.
    set (g := fun i0 => match iface_fun p i0 f with
                        | Some d2 => if has_body d2 then Some (d2, false) else None
                        | None => None end).
    destruct (first_some g (effective_conformances p)) as [[d2 o]|] eqn:Ef; [eauto|exfalso].
    assert (Hnone : forall l, first_some g l = None ->
              filter (fun i0 => match iface_fun p i0 f with Some d2 => has_body d2 | None => false end) l = []).
    { induction l as [|x l IH]; simpl; auto. unfold g at 1.
      destruct (iface_fun p x f) as [dx|]; auto. destruct (has_body dx); [discriminate | auto]. }
    rewrite (Hnone _ Ef) in Hd. discriminate.
Qed.

(* the trace written while checking a list of conditions consists of their emit events only *)
Lemma schecks_trace a b entry cur result cs : forall tr r tr',
  schecks a b entry cur result cs tr = (r, tr') ->
  exists evs, tr' = tr ++ evs /\
    Forall (fun ev => exists e, In (CEmit (fst ev) e) cs /\ seval a b entry cur result e = Ok (snd ev)) evs.
Proof.
  induction cs as [|c cs IH]; simpl; intros tr r tr' H.
  - inversion H; subst. exists []. rewrite app_nil_r. auto.
  - destruct c as [t|k e]; simpl in H.
    + destruct (seval a b entry cur result t) as [v|x].
      * destruct (truthy v).
        -- destruct (IH _ _ _ H) as [evs [-> Hf]]. exists evs. split; auto.
           eapply Forall_impl; [|exact Hf]. intros ev [e0 [Hin He]]. exists e0; simpl; auto.
        -- inversion H; subst. exists []. rewrite app_nil_r. auto.
      * inversion H; subst. exists []. rewrite app_nil_r. auto.
    + destruct (seval a b entry cur result e) as [v|x] eqn:Ev.
      * destruct (IH _ _ _ H) as [evs [-> Hf]]. exists ((k, v) :: evs). split.
        -- rewrite <- app_assoc. reflexivity.
        -- constructor.
           ++ exists e. simpl; auto.
           ++ eapply Forall_impl; [|exact Hf]. intros ev [e0 [Hin He]]. exists e0; simpl; auto.
      * inversion H; subst. exists []. rewrite app_nil_r. auto.
Qed.

Lemma spec_pres_closed f d0 own : impl_decl p f = Some (d0, own) ->
  forallb (fun c => closed nf (cond_exp c)) (spec_pres p f d0 own) = true.
Proof.
  intros Hi. unfold spec_pres. rewrite forallb_app. apply andb_true_iff. split.
  - apply forallb_forall. intros c Hc. apply in_flat_map in Hc as [x [Hx Hc]].
    pose proof (inherited_conds_ok nf p wf f) as Hok. rewrite Forall_forall in Hok.
    destruct (Hok x Hx) as [Hp _]. rewrite forallb_forall in Hp. auto.
  - destruct own; [|reflexivity].
    destruct (wf_decl_conds nf d0 (impl_decl_wf nf p wf f d0 true Hi)) as [Hp _]. exact Hp.
Qed.

Lemma spec_posts_ok f d0 own : impl_decl p f = Some (d0, own) ->
  forallb (fun c => post_ok nf (cond_exp c)) (spec_posts p f d0 own) = true.
Proof.
  intros Hi. unfold spec_posts. rewrite forallb_app. apply andb_true_iff. split.
  - destruct own; [|reflexivity].
    destruct (wf_decl_conds nf d0 (impl_decl_wf nf p wf f d0 true Hi)) as [_ Hp]. exact Hp.
  - apply forallb_forall. intros c Hc. apply in_flat_map in Hc as [x [Hx Hc]].
    apply in_rev in Hx.
    pose proof (inherited_conds_ok nf p wf f) as Hok. rewrite Forall_forall in Hok.
    destruct (Hok x Hx) as [_ Hp]. rewrite forallb_forall in Hp. auto.
Qed.

Lemma post_ok_total e : post_ok nf e = true ->
  forall a b (s0 cur : state) r, length s0 = nf -> length cur = nf ->
  exists v, seval a b (Some s0) cur (Some r) e = Ok v.
Proof.
  induction e; simpl; intros H a b s0 cur r H0 Hc; try discriminate; eauto.
  - apply Nat.ltb_lt in H. destruct (nth_error cur i) eqn:E; eauto.
    apply nth_error_None in E. lia.
  - apply (closed_total nf e H a b s0 None None H0).
  - destruct (IHe H a b s0 cur r H0 Hc) as [v ->]. simpl. eauto.
  - apply andb_true_iff in H as [H1 H2].
    destruct (IHe1 H1 a b s0 cur r H0 Hc) as [v ->].
    destruct (IHe2 H2 a b s0 cur r H0 Hc) as [u ->]. simpl. eauto.
Qed.

(* a false pre-condition (own or inherited): the call fails with exactly CondFail, the state is
   untouched (the body never ran) and only emit pre-conditions have written to the trace *)
Theorem failing_precondition n f a b (st : state) (tr : trace) d c :
  length st = nf ->
  applies p f d -> In (CTest c) (f_pre d) -> seval a b None st None c = Ok 0 ->
  exists evs,
    call (S n) p f a b (st, tr) = (Err CondFail, (st, tr ++ evs)) /\
    Forall (fun ev => exists d' e, applies p f d' /\ In (CEmit (fst ev) e) (f_pre d') /\
                                   seval a b None st None e = Ok (snd ev)) evs.
Proof.
  intros Hlen Happ Hc Hfalse.
  destruct (impl_exists f d Happ) as [d0 [own Hi]].
  rewrite call_flat_spec by assumption. unfold spec_invoke. rewrite Hi.
  unfold spec_frame. simpl.
  pose proof (spec_pres_closed f d0 own Hi) as Hcl.
  destruct (schecks_false_fails a b None st None (spec_pres p f d0 own)) with (tr := tr) as [tr' Hs].
  - apply forallb_forall. intros c0 Hc0. rewrite forallb_forall in Hcl.
    destruct (closed_total nf _ (Hcl c0 Hc0) a b st None None Hlen) as [v ->]. reflexivity.
  - exists c. split; auto. eapply applies_pre; eauto.
  - rewrite Hs. destruct (schecks_trace _ _ _ _ _ _ _ _ _ Hs) as [evs [-> Hf]].
    exists evs. split; auto.
    eapply Forall_impl; [|exact Hf]. intros ev [e [Hin He]].
    unfold spec_pres in Hin. apply in_app_or in Hin as [Hin|Hin].
    + apply in_flat_map in Hin as [[i dx] [Hx Hin]]. simpl in Hin.
      exists dx, e. split; auto. right. exists i.
      unfold inherited_conds in Hx. apply in_flat_map in Hx as [j [Hj Hx]].
      destruct (iface_fun p j f) as [dj|] eqn:Ej; [|contradiction].
      destruct (has_conditions dj); [|contradiction]. destruct Hx as [Hx|[]]. inversion Hx; subst j dj.
      split; auto.
      apply (eff_sound nf p wf); auto.
    + destruct own; [|contradiction]. exists d0, e. split; auto. left.
      unfold impl_decl in Hi. destruct (find_fun f (p_funs p)) as [dz|] eqn:Eo.
      * inversion Hi; subst dz; auto.
      * exfalso.
        assert (Hx : forall l, first_some (fun i => match iface_fun p i f with
                       | Some d1 => if has_body d1 then Some (d1, false) else None
                       | None => None end) l <> Some (d0, true)).
        { induction l as [|x l IH]; simpl; [discriminate|].
          destruct (iface_fun p x f) as [d1|]; auto. destruct (has_body d1); auto. discriminate. }
        apply (Hx _ Hi).
Qed.

(* a false post-condition (own or inherited) after the pre-conditions passed and the body
   returned r: the call fails with exactly CondFail *)
Theorem failing_postcondition n f a b (st : state) (tr : trace) d0 own u tr1 r st2 tr2 d c :
  length st = nf ->
  impl_decl p f = Some (d0, own) ->
  schecks a b None st None (spec_pres p f d0 own) tr = (Ok u, tr1) ->
  exec_fun_body (call n p) p d0 a b (st, tr1) = (Ok r, (st2, tr2)) ->
  applies p f d -> In (CTest c) (f_post d) -> seval a b (Some st) st2 (Some r) c = Ok 0 ->
  exists tr3, call (S n) p f a b (st, tr) = (Err CondFail, (st2, tr3)).
Proof.
  intros Hlen Hi Hpre Hbody Happ Hc Hfalse.
  rewrite call_flat_spec by assumption. unfold spec_invoke. rewrite Hi.
  unfold spec_frame. simpl. rewrite Hpre, Hbody. simpl.
  pose proof (spec_posts_ok f d0 own Hi) as Hok.
  assert (Hlen2 : length st2 = nf).
  { pose proof (exec_fun_body_length _ _ _ _ _ _ _ _ (call_length n p) Hbody). simpl in *. lia. }
  destruct (schecks_false_fails a b (Some st) st2 (Some r) (spec_posts p f d0 own)) with (tr := tr2)
    as [tr3 Hs].
  - apply forallb_forall. intros c0 Hc0. rewrite forallb_forall in Hok.
    destruct (post_ok_total _ (Hok c0 Hc0) a b st st2 r Hlen Hlen2) as [v ->]. reflexivity.
  - exists c. split; auto. eapply applies_post; eauto.
  - rewrite Hs. eauto.
Qed.

(* ------------------------------------------------------------------ T3: desugaring *)

Theorem desugar_equiv n f a b (st : state) (tr : trace) :
  length st = nf ->
  call n (desugar p) f a b (st, tr) = call n p f a b (st, tr).
Proof. apply desugar_call_equiv; auto. Qed.

Theorem desugar_equiv_script n cs (st : state) (tr : trace) :
  length st = nf ->
  run_calls n (desugar p) cs (st, tr) = run_calls n p cs (st, tr).
Proof.
  revert st tr. induction cs as [|[[f a] b] cs IH]; simpl; intros st tr Hlen; [reflexivity|].
  rewrite desugar_equiv by assumption.
  destruct (call n p f a b (st, tr)) as [[v|x] [st1 tr1]] eqn:E; [|reflexivity].
  rewrite IH; [reflexivity|].
  pose proof (call_length n p _ _ _ _ _ _ E). simpl in *. lia.
Qed.

End Main.
