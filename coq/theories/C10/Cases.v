(* Check function used by the per-run case files of C10. *)
From CV Require Export C10.Model.

(* observation of one script: error class or (call results, final fields); emitted (k, v) events *)
Definition obs := (res (list Z * list Z) * trace)%type.

Fixpoint zlist_eqb (a b : list Z) : bool :=
  match a, b with
  | [], [] => true
  | x :: r, y :: s => (x =? y) && zlist_eqb r s
  | _, _ => false
  end.

Fixpoint trace_eqb (a b : trace) : bool :=
  match a, b with
  | [], [] => true
  | (k, v) :: r, (k', v') :: s => (k =? k') && (v =? v') && trace_eqb r s
  | _, _ => false
  end.

Definition obs_eqb (x y : obs) : bool :=
  res_eqb (fun u v => zlist_eqb (fst u) (fst v) && zlist_eqb (snd u) (snd v)) (fst x) (fst y)
  && trace_eqb (snd x) (snd y).

Definition run_obs (fuel : nat) (p : prog) (init : list Z) (calls : list (fname * Z * Z)) : obs :=
  match run_calls fuel p calls (init, []) with
  | (Ok vs, (st, tr)) => (Ok (vs, st), tr)
  | (Err e, (_, tr)) => (Err e, tr)
  end.

(* (program, initial fields, calls, observed by the interpreter, observed by the VM):
   the interpreter-shaped model must reproduce the interpreter, the same model run on the
   desugared program must reproduce the VM; the program must be in the proved fragment *)
Definition check_case (c : prog * list Z * list (fname * Z * Z) * obs * obs) : bool :=
  let '(p, init, calls, oi, ov) := c in
  wf_prog (length init) p
  && obs_eqb (run_obs 64 p init calls) oi
  && obs_eqb (run_obs 64 (desugar p) init calls) ov.
