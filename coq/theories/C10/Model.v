(* C10  Function pre- and post-conditions: executable model (definitions only, no proofs).

   A small language of composites implementing interface chains.  Every function has two Int
   parameters and returns Int; state = Int fields of the single receiver `self`; the trace is the
   list of emitted probe events (k, v).  Booleans are encoded as Z (0 = false).

   Code-shaped parts (transcribed from /repo):
     - sema/type.go distinctConformances                      -> dconf / effective_conformances
     - sema/check_conditions.go rewritePostConditions +
       sema/before_extractor.go                               -> rw_exp / rw_cond / post_rewrite
     - interpreter/interpreter.go visitFunctionBody,
       visitConditions, functionConditionsWrapper,
       declareCompositeValue (applyDefaultFunctions /
       wrapFunctions, both loops in reverse order)            -> vfb / visit_conditions / build_fn / invoke
     - bbq/compiler/desugar.go desugarFunctionBlock,
       desugarPreConditions, desugarPostConditions,
       desugarCondition, inheritedFunctionsWithConditions,
       inheritedDefaultFunctions (delegators)                 -> desugar_block / desugar
   Independent specification: seval / holds_pre / holds_post / implements / spec_invoke. *)
From CV Require Export Base.Prelude.

Definition fname := nat.
Definition bid := (nat * nat)%type.   (* `$before` variable: (declaring entity, counter) *)

Inductive bop := BAdd | BSub | BMul | BLt | BLe | BEq | BAnd | BOr.

Inductive exp :=
| EConst (z : Z)
| EParam (second : bool)          (* first / second parameter *)
| EField (i : nat)                (* self.x_i *)
| ELocal (second : bool)          (* body local l0 / l1 *)
| EResult                         (* `result` *)
| EBefore (e : exp)               (* before(e): source post-conditions only *)
| EBVar (id : bid)                (* extracted `$before` variable *)
| ENot (e : exp)
| EBin (o : bop) (a b : exp).

Inductive ckind := KPre | KPost.

Inductive stmt :=
| SSkip
| SSeq (s1 s2 : stmt)
| SAssign (fld : nat) (e : exp)
| SLocal (second : bool) (e : exp)
| SCall (dst : bool) (f : fname) (a b : exp)       (* l_dst = self.f(a, b) *)
| SEmit (k : Z) (e : exp)
| SIf (c : exp) (t e : stmt)
| SReturn (e : exp)
| SPanic
(* produced by the compiler's desugaring only *)
| SLetBefore (id : bid) (e : exp)                  (* let $before_id = e *)
| SFailUnless (k : ckind) (c : exp).               (* if !(c) { $failPre/PostCondition("") } *)

Inductive cond := CTest (c : exp) | CEmit (k : Z) (e : exp).

Inductive fbody :=
| BNone                                  (* interface requirement without statements *)
| BStmts (s : stmt)
| BDelegate (i : nat) (f : fname).       (* synthetic: return I_i.f(a, b)  (desugaring only) *)

Record fdecl := FDecl {
  f_pre : list cond; f_post : list cond;
  f_pro : stmt;                          (* desugared prologue (SSkip in source programs) *)
  f_body : fbody;
  f_epi : stmt }.                        (* desugared epilogue: runs after `result` is bound *)

Record iface := IFace { i_parents : list nat; i_funs : list (fname * fdecl) }.
Record prog := Prog { p_ifaces : list iface; p_confs : list nat; p_funs : list (fname * fdecl) }.

Definition state := list Z.
Definition trace := list (Z * Z).
Definition world := (state * trace)%type.

Record env := Env {
  e_a : Z; e_b : Z;
  e_loc : option (Z * Z);
  e_res : option Z;
  e_bv : list (bid * Z) }.

Definition set_loc (en : env) (l : option (Z * Z)) := Env (e_a en) (e_b en) l (e_res en) (e_bv en).
Definition set_res (en : env) (r : option Z) := Env (e_a en) (e_b en) (e_loc en) r (e_bv en).
Definition set_bv (en : env) (bv : list (bid * Z)) := Env (e_a en) (e_b en) (e_loc en) (e_res en) bv.

Definition b2z (b : bool) : Z := if b then 1 else 0.
Definition truthy (z : Z) : bool := negb (z =? 0).

Definition bop_sem (o : bop) (x y : Z) : Z :=
  match o with
  | BAdd => x + y | BSub => x - y | BMul => x * y
  | BLt => b2z (x <? y) | BLe => b2z (x <=? y) | BEq => b2z (x =? y)
  | BAnd => b2z (truthy x && truthy y) | BOr => b2z (truthy x || truthy y)
  end.

Definition bid_eqb (x y : bid) : bool := Nat.eqb (fst x) (fst y) && Nat.eqb (snd x) (snd y).

Fixpoint lookup_bv (id : bid) (l : list (bid * Z)) : option Z :=
  match l with
  | [] => None
  | (k, v) :: r => if bid_eqb id k then Some v else lookup_bv id r
  end.

(* ------------------------------------------------------------------ code-shaped evaluation *)

Fixpoint eval (en : env) (st : state) (e : exp) : res Z :=
  match e with
  | EConst z => Ok z
  | EParam s => Ok (if s then e_b en else e_a en)
  | EField i => match nth_error st i with Some v => Ok v | None => Err Internal end
  | ELocal s => match e_loc en with
                | Some (x, y) => Ok (if s then y else x)
                | None => Err Internal end
  | EResult => match e_res en with Some r => Ok r | None => Err Internal end
  | EBefore _ => Err Internal     (* `before` is never evaluated: it has been extracted *)
  | EBVar id => match lookup_bv id (e_bv en) with Some v => Ok v | None => Err Internal end
  | ENot a => let* x := eval en st a in Ok (b2z (x =? 0))
  | EBin o a b => let* x := eval en st a in let* y := eval en st b in Ok (bop_sem o x y)
  end.

Fixpoint set_nth (i : nat) (v : Z) (l : list Z) : option (list Z) :=
  match l, i with
  | [], _ => None
  | _ :: r, O => Some (v :: r)
  | x :: r, S j => match set_nth j v r with Some r' => Some (x :: r') | None => None end
  end.

Inductive flow := FNormal (en : env) | FReturn (v : Z).

Definition callk_t := fname -> Z -> Z -> world -> res Z * world.

Fixpoint exec (callk : callk_t) (s : stmt) (en : env) (w : world) : res flow * world :=
  match s with
  | SSkip => (Ok (FNormal en), w)
  | SSeq s1 s2 =>
      match exec callk s1 en w with
      | (Ok (FNormal en1), w1) => exec callk s2 en1 w1
      | r => r
      end
  | SAssign fld e =>
      match eval en (fst w) e with
      | Err x => (Err x, w)
      | Ok v => match set_nth fld v (fst w) with
                | Some st' => (Ok (FNormal en), (st', snd w))
                | None => (Err Internal, w)
                end
      end
  | SLocal s e =>
      match eval en (fst w) e, e_loc en with
      | Err x, _ => (Err x, w)
      | Ok v, Some (x, y) => (Ok (FNormal (set_loc en (Some (if s then (x, v) else (v, y))))), w)
      | Ok _, None => (Err Internal, w)
      end
  | SCall dst f a b =>
      match eval en (fst w) a with
      | Err x => (Err x, w)
      | Ok va =>
        match eval en (fst w) b with
        | Err x => (Err x, w)
        | Ok vb =>
          match callk f va vb w with
          | (Err x, w1) => (Err x, w1)
          | (Ok r, w1) =>
            match e_loc en with
            | Some (x, y) => (Ok (FNormal (set_loc en (Some (if dst then (x, r) else (r, y))))), w1)
            | None => (Err Internal, w1)
            end
          end
        end
      end
  | SEmit k e =>
      match eval en (fst w) e with
      | Err x => (Err x, w)
      | Ok v => (Ok (FNormal en), (fst w, snd w ++ [(k, v)]))
      end
  | SIf c t e =>
      match eval en (fst w) c with
      | Err x => (Err x, w)
      | Ok v => if truthy v then exec callk t en w else exec callk e en w
      end
  | SReturn e =>
      match eval en (fst w) e with
      | Err x => (Err x, w)
      | Ok v => (Ok (FReturn v), w)
      end
  | SPanic => (Err UserOther, w)
  | SLetBefore id e =>
      match eval en (fst w) e with
      | Err x => (Err x, w)
      | Ok v => (Ok (FNormal (set_bv en ((id, v) :: e_bv en))), w)
      end
  | SFailUnless _ c =>
      match eval en (fst w) c with
      | Err x => (Err x, w)
      | Ok v => if truthy v then (Ok (FNormal en), w) else (Err CondFail, w)
      end
  end.

Definition fresh_env (a b : Z) : env := Env a b (Some (0, 0)) None [].

Fixpoint find_fun (f : fname) (l : list (fname * fdecl)) : option fdecl :=
  match l with
  | [] => None
  | (g, d) :: r => if Nat.eqb f g then Some d else find_fun f r
  end.

Definition iface_fun (p : prog) (i : nat) (f : fname) : option fdecl :=
  match nth_error (p_ifaces p) i with
  | Some it => find_fun f (i_funs it)
  | None => None
  end.

Definition has_body (d : fdecl) : bool := match f_body d with BNone => false | _ => true end.
Definition has_conditions (d : fdecl) : bool :=
  match f_pre d, f_post d with [], [] => false | _, _ => true end.

(* the statements of a function block: the body must end in `return` (a non-Void function that
   completes without one hits the defensive ValueTransferTypeError / unreachable) *)
Definition run_stmts (callk : callk_t) (s : stmt) (en : env) (w : world) : res Z * world :=
  match exec callk s en w with
  | (Ok (FReturn v), w1) => (Ok v, w1)
  | (Ok (FNormal _), w1) => (Err Internal, w1)
  | (Err x, w1) => (Err x, w1)
  end.

(* a function block without delegation: prologue; statements; bind `result`; epilogue *)
Definition exec_block (callk : callk_t)
    (body : env -> world -> res Z * world) (d : fdecl) (a b : Z) (w : world) : res Z * world :=
  match exec callk (f_pro d) (fresh_env a b) w with
  | (Ok (FNormal en1), w1) =>
      match body en1 w1 with
      | (Ok r, w2) =>
          match exec callk (f_epi d) (set_res en1 (Some r)) w2 with
          | (Ok (FNormal _), w3) => (Ok r, w3)
          | (Ok (FReturn _), w3) => (Err Internal, w3)
          | (Err x, w3) => (Err x, w3)
          end
      | (Err x, w2) => (Err x, w2)
      end
  | (Ok (FReturn _), w1) => (Err Internal, w1)
  | (Err x, w1) => (Err x, w1)
  end.

Definition exec_plain (callk : callk_t) (d : fdecl) (a b : Z) (w : world) : res Z * world :=
  exec_block callk
    (fun en w1 => match f_body d with
                  | BStmts s => run_stmts callk s en w1
                  | _ => (Err Internal, w1)
                  end) d a b w.

Definition exec_fun_body (callk : callk_t) (p : prog) (d : fdecl) (a b : Z) (w : world)
  : res Z * world :=
  exec_block callk
    (fun en w1 => match f_body d with
                  | BStmts s => run_stmts callk s en w1
                  | BDelegate i f =>
                      match iface_fun p i f with
                      | Some d' => exec_plain callk d' a b w1     (* static call I_i.f(a, b) *)
                      | None => (Err Internal, w1)
                      end
                  | BNone => (Err Internal, w1)
                  end) d a b w.

(* ------------------------------------------------------------------ conformance linearisation *)

Definition parents (ifs : list iface) (c : nat) : list nat :=
  match nth_error ifs c with Some it => i_parents it | None => [] end.

Definition mem (c : nat) (l : list nat) : bool := existsb (Nat.eqb c) l.

(* sema.distinctConformances: pre-order DFS, a shared `seen` set, first occurrence wins *)
Fixpoint dconf (fuel : nat) (ifs : list iface) (confs : list nat) (seen : list nat)
  : list nat * list nat :=
  match fuel with
  | O => ([], seen)
  | S fuel' =>
      (fix loop (cs : list nat) (seen : list nat) : list nat * list nat :=
         match cs with
         | [] => ([], seen)
         | c :: rest =>
             if mem c seen then loop rest seen
             else
               let '(nested, seen2) := dconf fuel' ifs (parents ifs c) (c :: seen) in
               let '(r, seen3) := loop rest seen2 in
               (c :: nested ++ r, seen3)
         end) confs seen
  end.

Definition effective_conformances (p : prog) : list nat :=
  fst (dconf (S (length (p_ifaces p))) (p_ifaces p) (p_confs p) []).

(* ------------------------------------------------------------------ before extraction *)

Fixpoint rw_exp (ent : nat) (e : exp) (n : nat) : exp * list (bid * exp) * nat :=
  match e with
  | EBefore a =>
      let '(a', xs, n1) := rw_exp ent a n in
      (EBVar (ent, n1), xs ++ [((ent, n1), a')], S n1)
  | ENot a =>
      let '(a', xs, n1) := rw_exp ent a n in (ENot a', xs, n1)
  | EBin o a b =>
      let '(a', xs, n1) := rw_exp ent a n in
      let '(b', ys, n2) := rw_exp ent b n1 in
      (EBin o a' b', xs ++ ys, n2)
  | _ => (e, [], n)
  end.

Definition rw_cond (ent : nat) (c : cond) (n : nat) : cond * list (bid * exp) * nat :=
  match c with
  | CTest t => let '(t', xs, n1) := rw_exp ent t n in (CTest t', xs, n1)
  | CEmit k e => let '(e', xs, n1) := rw_exp ent e n in (CEmit k e', xs, n1)
  end.

Fixpoint rw_conds (ent : nat) (cs : list cond) (n : nat) : list cond * list (bid * exp) :=
  match cs with
  | [] => ([], [])
  | c :: r =>
      let '(c', xs, n1) := rw_cond ent c n in
      let '(r', ys) := rw_conds ent r n1 in
      (c' :: r', xs ++ ys)
  end.

(* PostConditionsRewrite{BeforeStatements, RewrittenPostConditions} *)
Definition post_rewrite (ent : nat) (post : list cond) : list (bid * exp) * list cond :=
  let '(cs, bs) := rw_conds ent post 0 in (bs, cs).

(* ------------------------------------------------------------------ interpreter *)

Fixpoint eval_befores (bs : list (bid * exp)) (en : env) (st : state) : res env :=
  match bs with
  | [] => Ok en
  | (id, e) :: r =>
      match eval en st e with
      | Err x => Err x
      | Ok v => eval_befores r (set_bv en ((id, v) :: e_bv en)) st
      end
  end.

Definition visit_condition (c : cond) (en : env) (w : world) : res unit * world :=
  match c with
  | CTest t =>
      match eval en (fst w) t with
      | Err x => (Err x, w)
      | Ok v => if truthy v then (Ok tt, w) else (Err CondFail, w)
      end
  | CEmit k e =>
      match eval en (fst w) e with
      | Err x => (Err x, w)
      | Ok v => (Ok tt, (fst w, snd w ++ [(k, v)]))
      end
  end.

Fixpoint visit_conditions (cs : list cond) (en : env) (w : world) : res unit * world :=
  match cs with
  | [] => (Ok tt, w)
  | c :: r =>
      match visit_condition c en w with
      | (Ok _, w1) => visit_conditions r en w1
      | (Err x, w1) => (Err x, w1)
      end
  end.

Definition cond_env (a b : Z) : env := Env a b None None [].

(* Interpreter.visitFunctionBody: before statements, pre-conditions, body, `result`, post-conditions *)
Definition vfb (befores : list (bid * exp)) (pre : list cond)
    (body : world -> res Z * world) (post : list cond) (a b : Z) (w : world) : res Z * world :=
  match eval_befores befores (cond_env a b) (fst w) with
  | Err x => (Err x, w)
  | Ok en1 =>
      match visit_conditions pre en1 w with
      | (Err x, w1) => (Err x, w1)
      | (Ok _, w1) =>
          match body w1 with
          | (Err x, w2) => (Err x, w2)
          | (Ok r, w2) =>
              match visit_conditions post (set_res en1 (Some r)) w2 with
              | (Err x, w3) => (Err x, w3)
              | (Ok _, w3) => (Ok r, w3)
              end
          end
      end
  end.

(* function values: InterpretedFunctionValue / condition wrapper around an inner function *)
Inductive fnval :=
| FInterp (befores : list (bid * exp)) (pre : list cond) (d : fdecl) (post : list cond)
| FWrapped (befores : list (bid * exp)) (pre : list cond) (post : list cond) (inner : fnval).

Fixpoint invoke (callk : callk_t) (p : prog) (fv : fnval) (a b : Z) (w : world) : res Z * world :=
  match fv with
  | FInterp bs pre d post => vfb bs pre (exec_fun_body callk p d a b) post a b w
  | FWrapped bs pre post inner => vfb bs pre (invoke callk p inner a b) post a b w
  end.

(* compositeFunction: own conditions attached; defaultFunctions: body only *)
Definition composite_function (d : fdecl) : fnval :=
  let '(bs, post') := post_rewrite 0 (f_post d) in FInterp bs (f_pre d) d post'.
Definition default_function (d : fdecl) : fnval := FInterp [] [] d [].

(* functionConditionsWrapper of interface i (entity S i); nil when the declaration has no conditions *)
Definition wrapper (i : nat) (d : fdecl) : option (fnval -> fnval) :=
  if has_conditions d then
    let '(bs, post') := post_rewrite (S i) (f_post d) in
    Some (FWrapped bs (f_pre d) post')
  else None.

Fixpoint first_some {A B} (f : A -> option B) (l : list A) : option B :=
  match l with
  | [] => None
  | x :: r => match f x with Some y => Some y | None => first_some f r end
  end.

(* declareCompositeValue: own functions; applyDefaultFunctions over the conformances in REVERSE
   order (first hit kept); then wrapFunctions over the conformances in REVERSE order, so the
   wrapper of the first conformance is outermost *)
Definition base_fn (p : prog) (confs : list nat) (f : fname) : option fnval :=
  match find_fun f (p_funs p) with
  | Some d => Some (composite_function d)
  | None =>
      first_some (fun i => match iface_fun p i f with
                           | Some d => if has_body d then Some (default_function d) else None
                           | None => None
                           end) (rev confs)
  end.

Definition wrap_step (p : prog) (f : fname) (acc : option fnval) (i : nat) : option fnval :=
  match iface_fun p i f with
  | Some d =>
      match wrapper i d with
      | Some wr => match acc with
                   | Some fv => Some (wr fv)
                   | None => None           (* "If there is a wrapper, there MUST be a body" *)
                   end
      | None => acc
      end
  | None => acc
  end.

Definition build_fn (p : prog) (f : fname) : option fnval :=
  let confs := effective_conformances p in
  fold_left (wrap_step p f) (rev confs) (base_fn p confs f).

Fixpoint call (fuel : nat) (p : prog) (f : fname) (a b : Z) (w : world) : res Z * world :=
  match fuel with
  | O => (Err OutOfFuel, w)
  | S n =>
      match build_fn p f with
      | Some fv => invoke (call n p) p fv a b w
      | None => (Err Internal, w)
      end
  end.

(* a script: calls on one instance, in sequence; the first failure aborts *)
Fixpoint run_calls (fuel : nat) (p : prog) (cs : list (fname * Z * Z)) (w : world)
  : res (list Z) * world :=
  match cs with
  | [] => (Ok [], w)
  | (f, a, b) :: r =>
      match call fuel p f a b w with
      | (Err x, w1) => (Err x, w1)
      | (Ok v, w1) =>
          match run_calls fuel p r w1 with
          | (Ok vs, w2) => (Ok (v :: vs), w2)
          | (Err x, w2) => (Err x, w2)
          end
      end
  end.

(* ------------------------------------------------------------------ compiler desugaring *)

Definition desugar_cond (k : ckind) (c : cond) : stmt :=
  match c with
  | CTest t => SFailUnless k t
  | CEmit n e => SEmit n e
  end.

Fixpoint seq_of (l : list stmt) : stmt :=
  match l with
  | [] => SSkip
  | s :: r => SSeq s (seq_of r)
  end.

Definition lets_of (bs : list (bid * exp)) : list stmt := map (fun x => SLetBefore (fst x) (snd x)) bs.

(* the interface functions `f` with conditions, in conformance order:
   inheritedFunctionsWithConditionsAndEvents *)
Definition inherited_conds (p : prog) (f : fname) : list (nat * fdecl) :=
  flat_map (fun i => match iface_fun p i f with
                     | Some d => if has_conditions d then [(i, d)] else []
                     | None => []
                     end) (effective_conformances p).

Definition is_nil {A} (l : list A) : bool := match l with [] => true | _ => false end.

(* desugarFunctionBlock.  `inh`: inherited functions with conditions; `in_iface`: the function is
   a member of an interface (then its own conditions are NOT inlined: includeConditions) *)
Definition desugar_block (inh : list (nat * fdecl)) (in_iface : bool) (d : fdecl) : fdecl :=
  (* desugarPreConditions *)
  let inh_pre := flat_map (fun x => map (desugar_cond KPre) (f_pre (snd x))) inh in
  let own_pre := map (desugar_cond KPre) (f_pre d) in
  let pre := if is_nil (f_pre d) || negb in_iface then inh_pre ++ own_pre else [] in
  (* desugarPostConditions *)
  let '(own_bs, own_post) := post_rewrite 0 (f_post d) in
  let inh_rw := map (fun x => post_rewrite (S (fst x)) (f_post (snd x))) (rev inh) in
  let bs := own_bs ++ flat_map fst inh_rw in
  let post := map (desugar_cond KPost) own_post ++ flat_map (fun x => map (desugar_cond KPost) (snd x)) inh_rw in
  let '(bs, post) := if is_nil (f_post d) || negb in_iface then (bs, post) else ([], []) in
  FDecl [] [] (seq_of (lets_of bs ++ pre)) (f_body d) (seq_of post).

(* VisitInterfaceDeclaration: requirements without statements are dropped *)
Definition desugar_iface (it : iface) : iface :=
  IFace (i_parents it)
        (flat_map (fun x => if has_body (snd x) then [(fst x, desugar_block [] true (snd x))] else [])
                  (i_funs it)).

(* inheritedDefaultFunctions: one delegator per inherited default function that the composite
   does not implement itself; conformances in FORWARD order, first default per name wins *)
Fixpoint delegators_of (p : prog) (i : nat) (fs : list (fname * fdecl)) (seen : list nat)
  : list (fname * fdecl) * list nat :=
  match fs with
  | [] => ([], seen)
  | (f, d) :: r =>
      if negb (has_body d) then delegators_of p i r seen
      else if mem f seen then delegators_of p i r seen
      else
        let seen1 := f :: seen in
        let '(ds, seen2) := delegators_of p i r seen1 in
        match find_fun f (p_funs p) with
        | Some _ => (ds, seen2)
        | None =>
            ((f, desugar_block (inherited_conds p f) false
                   (FDecl [] [] SSkip (BDelegate i f) SSkip)) :: ds, seen2)
        end
  end.

Fixpoint delegators (p : prog) (confs : list nat) (seen : list nat) : list (fname * fdecl) :=
  match confs with
  | [] => []
  | i :: r =>
      let fs := match nth_error (p_ifaces p) i with Some it => i_funs it | None => [] end in
      let '(ds, seen1) := delegators_of p i fs seen in
      ds ++ delegators p r seen1
  end.

Definition desugar (p : prog) : prog :=
  Prog (map desugar_iface (p_ifaces p))
       (p_confs p)
       (map (fun x => (fst x, desugar_block (inherited_conds p (fst x)) false (snd x))) (p_funs p)
        ++ delegators p (effective_conformances p) []).

(* ------------------------------------------------------------------ specification *)

(* `before(e)` means: the value of e in the entry state *)
Fixpoint seval (a b : Z) (entry : option state) (cur : state) (result : option Z) (e : exp) : res Z :=
  match e with
  | EConst z => Ok z
  | EParam s => Ok (if s then b else a)
  | EField i => match nth_error cur i with Some v => Ok v | None => Err Internal end
  | ELocal _ => Err Internal
  | EResult => match result with Some r => Ok r | None => Err Internal end
  | EBefore x => match entry with
                 | Some s0 => seval a b None s0 None x
                 | None => Err Internal
                 end
  | EBVar _ => Err Internal
  | ENot x => let* v := seval a b entry cur result x in Ok (b2z (v =? 0))
  | EBin o x y => let* v := seval a b entry cur result x in
                  let* u := seval a b entry cur result y in Ok (bop_sem o v u)
  end.

Definition holds (r : res Z) : Prop := exists v, r = Ok v /\ v <> 0.
Definition holds_pre (a b : Z) (st : state) (c : exp) : Prop := holds (seval a b None st None c).
Definition holds_post (a b : Z) (st st' : state) (r : Z) (c : exp) : Prop :=
  holds (seval a b (Some st) st' (Some r) c).

(* the composite implements interface i: reachable from its conformance list through parents *)
Inductive implements (p : prog) : nat -> Prop :=
| impl_direct i : In i (p_confs p) -> implements p i
| impl_parent i j : implements p j -> In i (parents (p_ifaces p) j) -> implements p i.

(* declaration d of function f applies to the composite: its own, or one of an implemented interface *)
Definition applies (p : prog) (f : fname) (d : fdecl) : Prop :=
  find_fun f (p_funs p) = Some d \/ exists i, implements p i /\ iface_fun p i f = Some d.

(* flat specification of one invocation: all pre-conditions in the entry state, the body,
   all post-conditions in the exit state with before = entry state and result = returned value *)
Definition scheck (a b : Z) (entry : option state) (cur : state) (result : option Z)
    (c : cond) (tr : trace) : res unit * trace :=
  match c with
  | CTest t => match seval a b entry cur result t with
               | Err x => (Err x, tr)
               | Ok v => if truthy v then (Ok tt, tr) else (Err CondFail, tr)
               end
  | CEmit k e => match seval a b entry cur result e with
                 | Err x => (Err x, tr)
                 | Ok v => (Ok tt, tr ++ [(k, v)])
                 end
  end.

Fixpoint schecks (a b : Z) (entry : option state) (cur : state) (result : option Z)
    (cs : list cond) (tr : trace) : res unit * trace :=
  match cs with
  | [] => (Ok tt, tr)
  | c :: r => match scheck a b entry cur result c tr with
              | (Ok _, tr1) => schecks a b entry cur result r tr1
              | (Err x, tr1) => (Err x, tr1)
              end
  end.

(* the implementation that runs: the composite's own declaration, else the (unique) inherited default *)
Definition impl_decl (p : prog) (f : fname) : option (fdecl * bool) :=
  match find_fun f (p_funs p) with
  | Some d => Some (d, true)
  | None =>
      first_some (fun i => match iface_fun p i f with
                           | Some d => if has_body d then Some (d, false) else None
                           | None => None
                           end) (effective_conformances p)
  end.

(* one frame of the specification: pre-conditions in the entry state, then the body, then the
   post-conditions in the exit state with before = entry state and result = returned value *)
Definition spec_frame (pres posts : list cond) (body : world -> res Z * world) (a b : Z) (w : world)
  : res Z * world :=
  match schecks a b None (fst w) None pres (snd w) with
  | (Err x, tr1) => (Err x, (fst w, tr1))
  | (Ok _, tr1) =>
      match body (fst w, tr1) with
      | (Err x, w2) => (Err x, w2)
      | (Ok r, w2) =>
          match schecks a b (Some (fst w)) (fst w2) (Some r) posts (snd w2) with
          | (Err x, tr3) => (Err x, (fst w2, tr3))
          | (Ok _, tr3) => (Ok r, (fst w2, tr3))
          end
      end
  end.

Definition spec_pres (p : prog) (f : fname) (d : fdecl) (own : bool) : list cond :=
  flat_map (fun x => f_pre (snd x)) (inherited_conds p f) ++ (if own then f_pre d else []).
Definition spec_posts (p : prog) (f : fname) (d : fdecl) (own : bool) : list cond :=
  (if own then f_post d else []) ++ flat_map (fun x => f_post (snd x)) (rev (inherited_conds p f)).

Definition spec_invoke (callk : callk_t) (p : prog) (f : fname) (a b : Z) (w : world)
  : res Z * world :=
  match impl_decl p f with
  | None => (Err Internal, w)
  | Some (d, own) =>
      spec_frame (spec_pres p f d own) (spec_posts p f d own) (exec_fun_body callk p d a b) a b w
  end.

(* ------------------------------------------------------------------ well-formedness (decidable) *)

(* closed: only parameters, fields (< nf) and constants *)
Fixpoint closed (nf : nat) (e : exp) : bool :=
  match e with
  | EConst _ | EParam _ => true
  | EField i => Nat.ltb i nf
  | ENot a => closed nf a
  | EBin _ a b => closed nf a && closed nf b
  | _ => false
  end.

(* post-condition expressions: additionally `result` and before(closed) *)
Fixpoint post_ok (nf : nat) (e : exp) : bool :=
  match e with
  | EConst _ | EParam _ | EResult => true
  | EField i => Nat.ltb i nf
  | EBefore a => closed nf a
  | ENot a => post_ok nf a
  | EBin _ a b => post_ok nf a && post_ok nf b
  | _ => false
  end.

(* body expressions: parameters, fields, locals, constants *)
Fixpoint body_exp_ok (nf : nat) (e : exp) : bool :=
  match e with
  | EConst _ | EParam _ | ELocal _ => true
  | EField i => Nat.ltb i nf
  | ENot a => body_exp_ok nf a
  | EBin _ a b => body_exp_ok nf a && body_exp_ok nf b
  | _ => false
  end.

Fixpoint wf_stmt (nf : nat) (s : stmt) : bool :=
  match s with
  | SSkip | SPanic => true
  | SSeq s1 s2 => wf_stmt nf s1 && wf_stmt nf s2
  | SAssign _ e | SLocal _ e | SEmit _ e | SReturn e => body_exp_ok nf e
  | SCall _ _ a b => body_exp_ok nf a && body_exp_ok nf b
  | SIf c t e => body_exp_ok nf c && wf_stmt nf t && wf_stmt nf e
  | SLetBefore _ _ | SFailUnless _ _ => false
  end.

Definition cond_exp (c : cond) : exp := match c with CTest t => t | CEmit _ e => e end.

Definition is_skip (s : stmt) : bool := match s with SSkip => true | _ => false end.

(* a source declaration: closed pre, post_ok post, no prologue/epilogue, no delegation *)
Definition wf_decl (nf : nat) (d : fdecl) : bool :=
  forallb (fun c => closed nf (cond_exp c)) (f_pre d)
  && forallb (fun c => post_ok nf (cond_exp c)) (f_post d)
  && is_skip (f_pro d) && is_skip (f_epi d)
  && match f_body d with BDelegate _ _ => false | BStmts s => wf_stmt nf s | BNone => true end.

Fixpoint nodup_names (l : list (fname * fdecl)) : bool :=
  match l with
  | [] => true
  | (f, _) :: r => negb (existsb (fun x => Nat.eqb f (fst x)) r) && nodup_names r
  end.

Fixpoint wf_ifaces (nf : nat) (n : nat) (l : list iface) : bool :=
  match l with
  | [] => true
  | it :: r =>
      forallb (fun j => Nat.ltb j n) (i_parents it)        (* parents are earlier interfaces *)
      && forallb (fun x => wf_decl nf (snd x)) (i_funs it)
      && nodup_names (i_funs it)
      && wf_ifaces nf (S n) r
  end.

Definition count_defaults (p : prog) (f : fname) : nat :=
  length (filter (fun i => match iface_fun p i f with Some d => has_body d | None => false end)
                 (effective_conformances p)).

(* every function of an implemented interface is implemented by the composite, or has exactly one
   inherited default (the checker's MultipleInterfaceDefaultImplementationsError / conformance rules) *)
Definition defaults_ok (p : prog) : bool :=
  forallb (fun i =>
    match nth_error (p_ifaces p) i with
    | Some it => forallb (fun x =>
        match find_fun (fst x) (p_funs p) with
        | Some _ => true
        | None => Nat.eqb (count_defaults p (fst x)) 1
        end) (i_funs it)
    | None => false
    end) (effective_conformances p).

Definition wf_prog (nf : nat) (p : prog) : bool :=
  wf_ifaces nf 0 (p_ifaces p)
  && forallb (fun j => Nat.ltb j (length (p_ifaces p))) (p_confs p)
  && forallb (fun x => wf_decl nf (snd x) && has_body (snd x)) (p_funs p)
  && nodup_names (p_funs p)
  && defaults_ok p.
