(* C10: lemmas about expression evaluation, before-extraction and specification frames. *)
From CV Require Import C10.Model.
Import ListNotations.

(* ------------------------------------------------------------------ small facts *)

Lemma bid_eqb_eq x y : bid_eqb x y = true <-> x = y.
Proof.
  destruct x as [x1 x2], y as [y1 y2]; unfold bid_eqb; simpl.
  rewrite andb_true_iff, !Nat.eqb_eq. split.
  - intros [-> ->]; reflexivity.
  - intros H; inversion H; auto.
Qed.

Lemma bid_eqb_refl x : bid_eqb x x = true.
Proof. apply bid_eqb_eq; reflexivity. Qed.

Lemma bid_eqb_neq x y : x <> y -> bid_eqb x y = false.
Proof.
  intros H. destruct (bid_eqb x y) eqn:E; auto. apply bid_eqb_eq in E. contradiction.
Qed.

Lemma set_bv_set_bv en x y : set_bv (set_bv en x) y = set_bv en y.
Proof. reflexivity. Qed.

Lemma lookup_nodup (l tl : list (bid * Z)) id v :
  NoDup (map fst l) -> In (id, v) l -> lookup_bv id (l ++ tl) = Some v.
Proof.
  induction l as [|[k u] l IH]; simpl; intros Hnd Hin; [contradiction|].
  inversion Hnd as [|? ? Hnot Hnd']; subst.
  destruct Hin as [Heq | Hin].
  - inversion Heq; subst. rewrite bid_eqb_refl. reflexivity.
  - rewrite bid_eqb_neq.
    + apply IH; assumption.
    + intros ->. apply Hnot. apply in_map_iff. exists (k, v); split; auto.
Qed.

(* ------------------------------------------------------------------ closed expressions *)

Lemma closed_eval_seval nf e :
  closed nf e = true ->
  forall en st entry result, eval en st e = seval (e_a en) (e_b en) entry st result e.
Proof.
  induction e; simpl; intros H en st entry result; try discriminate; auto.
  - rewrite (IHe H en st entry result). reflexivity.
  - apply andb_true_iff in H as [H1 H2].
    rewrite (IHe1 H1 en st entry result), (IHe2 H2 en st entry result). reflexivity.
Qed.

Lemma closed_total nf e :
  closed nf e = true ->
  forall a b st entry result, length st = nf -> exists v, seval a b entry st result e = Ok v.
Proof.
  induction e; simpl; intros H a b st entry result Hlen; try discriminate; eauto.
  - apply Nat.ltb_lt in H. destruct (nth_error st i) eqn:E; eauto.
    apply nth_error_None in E. lia.
  - destruct (IHe H a b st entry result Hlen) as [v ->]. simpl. eauto.
  - apply andb_true_iff in H as [H1 H2].
    destruct (IHe1 H1 a b st entry result Hlen) as [v ->].
    destruct (IHe2 H2 a b st entry result Hlen) as [u ->]. simpl. eauto.
Qed.

Lemma closed_post_ok nf e : closed nf e = true -> post_ok nf e = true.
Proof.
  induction e; simpl; intros H; try discriminate; auto.
  apply andb_true_iff in H as [H1 H2]. rewrite IHe1, IHe2; auto.
Qed.

(* ------------------------------------------------------------------ before extraction *)

Lemma rw_closed nf ent e : closed nf e = true -> forall n, rw_exp ent e n = (e, [], n).
Proof.
  induction e; simpl; intros H n; try discriminate; auto.
  - rewrite (IHe H n). reflexivity.
  - apply andb_true_iff in H as [H1 H2]. rewrite (IHe1 H1 n), (IHe2 H2 n). reflexivity.
Qed.

Definition bv_ok (a b : Z) (s0 : state) (xs : list (bid * exp)) (bv : list (bid * Z)) : Prop :=
  forall id e, In (id, e) xs ->
    exists v, seval a b None s0 None e = Ok v /\ lookup_bv id bv = Some v.

Lemma bv_ok_app_l a b s0 xs ys bv : bv_ok a b s0 (xs ++ ys) bv -> bv_ok a b s0 xs bv.
Proof. intros H id e Hin. apply H. apply in_or_app; auto. Qed.
Lemma bv_ok_app_r a b s0 xs ys bv : bv_ok a b s0 (xs ++ ys) bv -> bv_ok a b s0 ys bv.
Proof. intros H id e Hin. apply H. apply in_or_app; auto. Qed.

Lemma rw_correct nf ent a b s0 e :
  post_ok nf e = true ->
  forall n e' xs n', rw_exp ent e n = (e', xs, n') ->
  forall en st, e_a en = a -> e_b en = b -> bv_ok a b s0 xs (e_bv en) ->
  eval en st e' = seval a b (Some s0) st (e_res en) e.
Proof.
  induction e; simpl; intros Hok n e' xs n' Hrw en st Ha Hb Hbv; try discriminate;
    try (inversion Hrw; subst; simpl; reflexivity).
  - (* before *)
    rewrite (rw_closed nf ent e Hok n) in Hrw. inversion Hrw; subst. simpl.
    destruct (Hbv (ent, n) e) as [v [Hv Hl]]; [simpl; auto|].
    rewrite Hl, Hv. reflexivity.
  - (* not *)
    destruct (rw_exp ent e n) as [[a' xs1] n1] eqn:E. inversion Hrw; subst. simpl.
    rewrite (IHe Hok _ _ _ _ E en st eq_refl eq_refl Hbv). reflexivity.
  - (* bin *)
    apply andb_true_iff in Hok as [H1 H2].
    destruct (rw_exp ent e1 n) as [[a' xs1] n1] eqn:E1.
    destruct (rw_exp ent e2 n1) as [[b' xs2] n2] eqn:E2.
    inversion Hrw; subst. simpl.
    rewrite (IHe1 H1 _ _ _ _ E1 en st eq_refl eq_refl (bv_ok_app_l _ _ _ _ _ _ Hbv)).
    rewrite (IHe2 H2 _ _ _ _ E2 en st eq_refl eq_refl (bv_ok_app_r _ _ _ _ _ _ Hbv)).
    reflexivity.
Qed.

Lemma rw_exp_ids ent e :
  forall n e' xs n', rw_exp ent e n = (e', xs, n') ->
  n' = (n + length xs)%nat /\ map fst xs = map (pair ent) (seq n (length xs)).
Proof.
  induction e; simpl; intros n e' xs n' Hrw;
    try (inversion Hrw; subst; simpl; split; [lia | reflexivity]).
  - destruct (rw_exp ent e n) as [[a' xs1] n1] eqn:E. inversion Hrw; subst.
    destruct (IHe _ _ _ _ E) as [Hn Hm]. subst n1.
    rewrite app_length, map_app. simpl. split; [lia|].
    rewrite Nat.add_1_r, seq_S, map_app, Hm. reflexivity.
  - destruct (rw_exp ent e n) as [[a' xs1] n1] eqn:E. inversion Hrw; subst.
    apply (IHe _ _ _ _ E).
  - destruct (rw_exp ent e1 n) as [[a' xs1] n1] eqn:E1.
    destruct (rw_exp ent e2 n1) as [[b' xs2] n2] eqn:E2.
    inversion Hrw; subst.
    destruct (IHe1 _ _ _ _ E1) as [Hn1 Hm1]. destruct (IHe2 _ _ _ _ E2) as [Hn2 Hm2]. subst.
    rewrite app_length, map_app, seq_app, map_app, Hm1, Hm2. split; [lia | reflexivity].
Qed.

Lemma rw_exp_closed nf ent e :
  post_ok nf e = true ->
  forall n e' xs n', rw_exp ent e n = (e', xs, n') ->
  Forall (fun x => closed nf (snd x) = true) xs.
Proof.
  induction e; simpl; intros Hok n e' xs n' Hrw; try discriminate;
    try (inversion Hrw; subst; constructor).
  - rewrite (rw_closed nf ent e Hok n) in Hrw. inversion Hrw; subst. simpl.
    constructor; auto.
  - destruct (rw_exp ent e n) as [[a' xs1] n1] eqn:E. inversion Hrw; subst. eapply IHe; eauto.
  - apply andb_true_iff in Hok as [H1 H2].
    destruct (rw_exp ent e1 n) as [[a' xs1] n1] eqn:E1.
    destruct (rw_exp ent e2 n1) as [[b' xs2] n2] eqn:E2.
    inversion Hrw; subst. apply Forall_app; split; [eapply IHe1 | eapply IHe2]; eauto.
Qed.

(* conditions *)

Definition cond_ok (ok : exp -> bool) (c : cond) : bool := ok (cond_exp c).

Lemma rw_conds_ids ent cs :
  forall n cs' bs, rw_conds ent cs n = (cs', bs) ->
  map fst bs = map (pair ent) (seq n (length bs)).
Proof.
  induction cs as [|c r IH]; simpl; intros n cs' bs H.
  - inversion H; reflexivity.
  - destruct (rw_cond ent c n) as [[c' xs] n1] eqn:E.
    destruct (rw_conds ent r n1) as [r' ys] eqn:Er. inversion H; subst.
    assert (Hx : n1 = (n + length xs)%nat /\ map fst xs = map (pair ent) (seq n (length xs))).
    { destruct c; simpl in E.
      - destruct (rw_exp ent c n) as [[t' xs'] n'] eqn:Ee. inversion E; subst.
        eapply rw_exp_ids; eauto.
      - destruct (rw_exp ent e n) as [[t' xs'] n'] eqn:Ee. inversion E; subst.
        eapply rw_exp_ids; eauto. }
    destruct Hx as [Hn Hm]. subst n1.
    rewrite app_length, map_app, seq_app, map_app, Hm, (IH _ _ _ Er). reflexivity.
Qed.

Lemma rw_conds_closed nf ent cs :
  forallb (fun c => post_ok nf (cond_exp c)) cs = true ->
  forall n cs' bs, rw_conds ent cs n = (cs', bs) ->
  Forall (fun x => closed nf (snd x) = true) bs.
Proof.
  induction cs as [|c r IH]; simpl; intros Hok n cs' bs H.
  - inversion H; constructor.
  - apply andb_true_iff in Hok as [Hc Hr].
    destruct (rw_cond ent c n) as [[c' xs] n1] eqn:E.
    destruct (rw_conds ent r n1) as [r' ys] eqn:Er. inversion H; subst.
    apply Forall_app; split; [|eapply IH; eauto].
    destruct c; simpl in E, Hc.
    + destruct (rw_exp ent c n) as [[t' xs'] n'] eqn:Ee. inversion E; subst.
      eapply rw_exp_closed; eauto.
    + destruct (rw_exp ent e n) as [[t' xs'] n'] eqn:Ee. inversion E; subst.
      eapply rw_exp_closed; eauto.
Qed.

Definition lift (st : state) (x : res unit * trace) : res unit * world := (fst x, (st, snd x)).

Lemma rw_conds_correct nf ent a b s0 cs :
  forallb (fun c => post_ok nf (cond_exp c)) cs = true ->
  forall n cs' bs, rw_conds ent cs n = (cs', bs) ->
  forall en w, e_a en = a -> e_b en = b -> bv_ok a b s0 bs (e_bv en) ->
  visit_conditions cs' en w = lift (fst w) (schecks a b (Some s0) (fst w) (e_res en) cs (snd w)).
Proof.
  induction cs as [|c r IH]; simpl; intros Hok n cs' bs H en [st tr] Ha Hb Hbv.
  - inversion H; subst. reflexivity.
  - apply andb_true_iff in Hok as [Hc Hr].
    destruct (rw_cond ent c n) as [[c' xs] n1] eqn:E.
    destruct (rw_conds ent r n1) as [r' ys] eqn:Er. inversion H; subst.
    pose proof (bv_ok_app_l _ _ _ _ _ _ Hbv) as Hb1.
    pose proof (bv_ok_app_r _ _ _ _ _ _ Hbv) as Hb2.
    simpl.
    destruct c as [t | k e]; simpl in E, Hc.
    + destruct (rw_exp ent t n) as [[t' xs'] n'] eqn:Ee. inversion E; subst. simpl.
      rewrite (rw_correct nf ent _ _ s0 t Hc _ _ _ _ Ee en st eq_refl eq_refl Hb1).
      destruct (seval (e_a en) (e_b en) (Some s0) st (e_res en) t) as [v|x]; [|reflexivity].
      destruct (truthy v); [|reflexivity].
      rewrite (IH Hr _ _ _ Er en (st, tr) eq_refl eq_refl Hb2). reflexivity.
    + destruct (rw_exp ent e n) as [[t' xs'] n'] eqn:Ee. inversion E; subst. simpl.
      rewrite (rw_correct nf ent _ _ s0 e Hc _ _ _ _ Ee en st eq_refl eq_refl Hb1).
      destruct (seval (e_a en) (e_b en) (Some s0) st (e_res en) e) as [v|x]; [|reflexivity].
      rewrite (IH Hr _ _ _ Er en (st, tr ++ [(k, v)]) eq_refl eq_refl Hb2). reflexivity.
Qed.

Lemma visit_closed nf cs :
  forallb (fun c => closed nf (cond_exp c)) cs = true ->
  forall en w entry result,
  visit_conditions cs en w = lift (fst w) (schecks (e_a en) (e_b en) entry (fst w) result cs (snd w)).
Proof.
  induction cs as [|c r IH]; simpl; intros Hok en [st tr] entry result.
  - reflexivity.
  - apply andb_true_iff in Hok as [Hc Hr].
    destruct c as [t | k e]; simpl in *.
    + rewrite (closed_eval_seval nf t Hc en st entry result).
      destruct (seval (e_a en) (e_b en) entry st result t) as [v|x]; [|reflexivity].
      destruct (truthy v); [|reflexivity]. apply (IH Hr en (st, tr)).
    + rewrite (closed_eval_seval nf e Hc en st entry result).
      destruct (seval (e_a en) (e_b en) entry st result e) as [v|x]; [|reflexivity].
      rewrite (IH Hr en (st, tr ++ [(k, v)]) entry result). reflexivity.
Qed.

(* ------------------------------------------------------------------ before statements *)

Definition bvals (a b : Z) (s0 : state) (bs : list (bid * exp)) : list (bid * Z) :=
  map (fun x => (fst x, match seval a b None s0 None (snd x) with Ok v => v | Err _ => 0 end)) bs.

Lemma eval_befores_closed nf bs :
  Forall (fun x => closed nf (snd x) = true) bs ->
  forall en st, length st = nf ->
  eval_befores bs en st = Ok (set_bv en (rev (bvals (e_a en) (e_b en) st bs) ++ e_bv en)).
Proof.
  induction bs as [|[id e] r IH]; simpl; intros Hc en st Hlen.
  - destruct en; reflexivity.
  - inversion_clear Hc as [|? ? He Hr]. simpl in He.
    rewrite (closed_eval_seval nf e He en st None None).
    destruct (closed_total nf e He (e_a en) (e_b en) st None None Hlen) as [v Hv].
    rewrite Hv. rewrite (IH Hr _ st Hlen). simpl.
    rewrite <- app_assoc. reflexivity.
Qed.

Lemma bv_ok_bvals nf a b s0 bs tl :
  Forall (fun x => closed nf (snd x) = true) bs -> length s0 = nf -> NoDup (map fst bs) ->
  bv_ok a b s0 bs (rev (bvals a b s0 bs) ++ tl).
Proof.
  intros Hc Hlen Hnd id e Hin.
  rewrite Forall_forall in Hc. pose proof (Hc _ Hin) as He. simpl in He.
  destruct (closed_total nf e He a b s0 None None Hlen) as [v Hv].
  exists v; split; auto.
  apply lookup_nodup.
  - rewrite map_rev. apply NoDup_rev. unfold bvals. rewrite map_map. simpl. exact Hnd.
  - apply in_rev. rewrite rev_involutive. unfold bvals. apply in_map_iff.
    exists (id, e). simpl. rewrite Hv. auto.
Qed.

Lemma nodup_pair_seq (ent n len : nat) : NoDup (map (pair ent) (seq n len)).
Proof.
  revert n. induction len as [|len IH]; simpl; intros n; constructor.
  - intros H. apply in_map_iff in H as [x [Hx Hin]]. inversion Hx; subst.
    apply in_seq in Hin. lia.
  - apply IH.
Qed.

(* ------------------------------------------------------------------ specification frames *)

Lemma schecks_app a b entry cur result l1 l2 tr :
  schecks a b entry cur result (l1 ++ l2) tr =
  match schecks a b entry cur result l1 tr with
  | (Ok _, tr1) => schecks a b entry cur result l2 tr1
  | (Err x, tr1) => (Err x, tr1)
  end.
Proof.
  revert tr. induction l1 as [|c r IH]; simpl; intros tr; [reflexivity|].
  destruct (scheck a b entry cur result c tr) as [[u|x] tr1]; [apply IH | reflexivity].
Qed.

Lemma spec_frame_nest pre1 post1 pre2 post2 body a b w :
  spec_frame pre1 post1 (spec_frame pre2 post2 body a b) a b w =
  spec_frame (pre1 ++ pre2) (post2 ++ post1) body a b w.
Proof.
  unfold spec_frame. rewrite schecks_app. simpl.
  destruct (schecks a b None (fst w) None pre1 (snd w)) as [[u|x] tr1]; [|reflexivity].
  simpl.
  destruct (schecks a b None (fst w) None pre2 tr1) as [[u2|x] tr2]; [|reflexivity].
  destruct (body (fst w, tr2)) as [[r|x] w2]; [|reflexivity].
  rewrite schecks_app. simpl.
  destruct (schecks a b (Some (fst w)) (fst w2) (Some r) post2 (snd w2)) as [[u3|x] tr3]; reflexivity.
Qed.

Lemma vfb_spec nf ent pre post bs post' body a b (st : state) (tr : trace) :
  forallb (fun c => closed nf (cond_exp c)) pre = true ->
  forallb (fun c => post_ok nf (cond_exp c)) post = true ->
  length st = nf ->
  post_rewrite ent post = (bs, post') ->
  vfb bs pre body post' a b (st, tr) = spec_frame pre post body a b (st, tr).
Proof.
  intros Hpre Hpost Hlen Hrw. unfold post_rewrite in Hrw.
  destruct (rw_conds ent post 0) as [cs' bs'] eqn:E. inversion Hrw; subst bs' cs'.
  pose proof (rw_conds_closed nf ent post Hpost _ _ _ E) as Hcl.
  pose proof (rw_conds_ids ent post _ _ _ E) as Hids.
  unfold vfb, spec_frame. simpl.
  rewrite (eval_befores_closed nf bs Hcl (cond_env a b) st Hlen).
  set (en1 := set_bv (cond_env a b) _).
  rewrite (visit_closed nf pre Hpre en1 (st, tr) None None). simpl.
  destruct (schecks a b None st None pre tr) as [[u|x] tr1]; simpl; [|reflexivity].
  destruct (body (st, tr1)) as [[r|x] [st2 tr2]]; [|reflexivity].
  rewrite (rw_conds_correct nf ent a b st post Hpost _ _ _ E (set_res en1 (Some r)) (st2, tr2) eq_refl eq_refl).
  - simpl. destruct (schecks a b (Some st) st2 (Some r) post tr2) as [[u3|x] tr3]; reflexivity.
  - simpl. apply (bv_ok_bvals nf); auto. rewrite Hids. apply nodup_pair_seq.
Qed.

(* what a successful frame guarantees *)
Lemma schecks_ok_holds a b entry cur result cs tr tr' u :
  schecks a b entry cur result cs tr = (Ok u, tr') ->
  forall c, In (CTest c) cs -> holds (seval a b entry cur result c).
Proof.
  revert tr. induction cs as [|c0 r IH]; simpl; intros tr H c Hin; [contradiction|].
  destruct (scheck a b entry cur result c0 tr) as [[u0|x] tr1] eqn:E; [|discriminate].
  destruct Hin as [-> | Hin]; [|eapply IH; eauto].
  simpl in E. destruct (seval a b entry cur result c) as [v|x]; [|discriminate].
  destruct (truthy v) eqn:Et; [|discriminate].
  exists v; split; auto. unfold truthy in Et. intros ->. discriminate.
Qed.

Lemma schecks_false_fails a b entry cur result cs :
  forallb (fun c => match seval a b entry cur result (cond_exp c) with Ok _ => true | Err _ => false end) cs = true ->
  forall tr, (exists c, In (CTest c) cs /\ seval a b entry cur result c = Ok 0) ->
  exists tr', schecks a b entry cur result cs tr = (Err CondFail, tr').
Proof.
  induction cs as [|c0 r IH]; simpl; intros Htot tr [c [Hin Hc]]; [contradiction|].
  apply andb_true_iff in Htot as [H0 Hr].
  destruct c0 as [t|k e]; simpl in *.
  - destruct (seval a b entry cur result t) as [v|x] eqn:Ev; [|discriminate].
    destruct (truthy v) eqn:Et.
    + destruct Hin as [Heq|Hin].
      * inversion Heq; subst. rewrite Hc in Ev. inversion Ev; subst. discriminate.
      * apply IH; eauto.
    + eauto.
  - destruct (seval a b entry cur result e) as [v|x] eqn:Ev; [|discriminate].
    destruct Hin as [Heq|Hin]; [discriminate|]. apply IH; eauto.
Qed.
