(* C10: the interpreter-shaped call (nested condition wrappers, before statements) equals the
   flat specification frame. *)
From CV Require Import C10.Model C10.Lemmas C10.Conf.
Import ListNotations.

(* ------------------------------------------------------------------ generic list facts *)

Lemma fold_left_rev {A B} (g : B -> A -> B) (l : list A) (i : B) :
  fold_left g (rev l) i = fold_right (fun x acc => g acc x) i l.
Proof.
  induction l as [|x l IH]; simpl; auto.
  rewrite fold_left_app. simpl. rewrite IH. reflexivity.
Qed.

Lemma first_some_app {A B} (g : A -> option B) l1 l2 :
  first_some g (l1 ++ l2) =
  match first_some g l1 with Some y => Some y | None => first_some g l2 end.
Proof.
  induction l1 as [|x l1 IH]; simpl; auto. destruct (g x); auto.
Qed.

Lemma first_some_none {A B} (g : A -> option B) l :
  (forall x, In x l -> g x = None) -> first_some g l = None.
Proof.
  induction l as [|x l IH]; simpl; intros H; auto.
  rewrite (H x (or_introl eq_refl)). apply IH. intros; apply H; auto.
Qed.

Lemma first_some_map {A B C} (g : A -> option B) (h : B -> C) l :
  first_some (fun x => option_map h (g x)) l = option_map h (first_some g l).
Proof.
  induction l as [|x l IH]; simpl; auto. destruct (g x); simpl; auto.
Qed.

Lemma first_some_unique {A B} (g : A -> option B) (P : A -> bool) l :
  (forall x, g x = None <-> P x = false) ->
  (length (filter P l) <= 1)%nat ->
  first_some g (rev l) = first_some g l.
Proof.
  intros HgP. induction l as [|x l IH]; simpl; intros Hlen; auto.
  rewrite first_some_app. simpl.
  destruct (P x) eqn:Px.
  - simpl in Hlen.
    assert (Hnil : filter P l = []) by (destruct (filter P l); simpl in *; [auto | lia]).
    rewrite first_some_none.
    + destruct (g x) eqn:Eg; [reflexivity|]. apply HgP in Eg. congruence.
    + intros y Hy. apply HgP. apply in_rev in Hy.
      destruct (P y) eqn:Py; auto.
      assert (In y (filter P l)) by (apply filter_In; auto). rewrite Hnil in H. contradiction.
  - assert (Hx : g x = None) by (apply HgP; auto). rewrite Hx.
    rewrite IH by assumption. destruct (first_some g l); reflexivity.
Qed.

Lemma find_fun_in f l d : find_fun f l = Some d -> In (f, d) l.
Proof.
  induction l as [|[g d0] r IH]; simpl; intros H; [discriminate|].
  destruct (Nat.eqb f g) eqn:E.
  - apply Nat.eqb_eq in E. inversion H; subst. auto.
  - auto.
Qed.

(* ------------------------------------------------------------------ frames *)

Lemma spec_frame_ext pre post body1 body2 a b (st : state) (tr : trace) :
  (forall tr1, body1 (st, tr1) = body2 (st, tr1)) ->
  spec_frame pre post body1 a b (st, tr) = spec_frame pre post body2 a b (st, tr).
Proof.
  intros H. unfold spec_frame. simpl.
  destruct (schecks a b None st None pre tr) as [[u|x] tr1]; [|reflexivity].
  rewrite H. reflexivity.
Qed.

Lemma spec_frame_nil body a b (w : world) : spec_frame [] [] body a b w = body w.
Proof.
  unfold spec_frame. simpl. destruct w as [st tr]. simpl.
  destruct (body (st, tr)) as [[r|x] [st2 tr2]]; reflexivity.
Qed.

Lemma vfb_nil body a b (w : world) : vfb [] [] body [] a b w = body w.
Proof.
  unfold vfb. simpl. destruct (body w) as [[r|x] w2]; reflexivity.
Qed.

Definition wrap_one (x : nat * fdecl) (inner : fnval) : fnval :=
  let '(bs, post') := post_rewrite (S (fst x)) (f_post (snd x)) in
  FWrapped bs (f_pre (snd x)) post' inner.

Definition wrap_all (W : list (nat * fdecl)) (base : fnval) : fnval := fold_right wrap_one base W.

Definition decl_conds_ok (nf : nat) (d : fdecl) : Prop :=
  forallb (fun c => closed nf (cond_exp c)) (f_pre d) = true /\
  forallb (fun c => post_ok nf (cond_exp c)) (f_post d) = true.

Lemma wf_decl_conds nf d : wf_decl nf d = true -> decl_conds_ok nf d.
Proof.
  unfold wf_decl. intros H. repeat (apply andb_true_iff in H as [H ?]). split; auto.
Qed.

Lemma invoke_wrap_all nf callk p W base a b (st : state) :
  Forall (fun x => decl_conds_ok nf (snd x)) W -> length st = nf ->
  forall tr,
  invoke callk p (wrap_all W base) a b (st, tr) =
  spec_frame (flat_map (fun x => f_pre (snd x)) W) (flat_map (fun x => f_post (snd x)) (rev W))
             (invoke callk p base a b) a b (st, tr).
Proof.
  intros HW Hlen. induction W as [|[i d] W IH]; intros tr.
  - simpl. rewrite spec_frame_nil. reflexivity.
  - inversion_clear HW as [|? ? [Hpre Hpost] HW']. simpl in Hpre, Hpost.
    simpl. unfold wrap_one at 1. simpl.
    destruct (post_rewrite (S i) (f_post d)) as [bs post'] eqn:Erw. simpl.
    rewrite (vfb_spec nf (S i) (f_pre d) (f_post d) bs post' _ a b st tr Hpre Hpost Hlen Erw).
    rewrite (spec_frame_ext _ _ _ _ a b st tr (IH HW')).
    rewrite spec_frame_nest. rewrite flat_map_app. simpl. rewrite app_nil_r. reflexivity.
Qed.

(* ------------------------------------------------------------------ building the function value *)

Section Build.
Variables (nf : nat) (p : prog).
Hypothesis wf : wf_prog nf p = true.

Lemma wf_iface_fun i f d : iface_fun p i f = Some d -> wf_decl nf d = true.
Proof.
  destruct (wf_parts nf p wf) as [Hi _].
  unfold iface_fun. destruct (nth_error (p_ifaces p) i) as [it|] eqn:E; [|discriminate].
  intros Hf. apply find_fun_in in Hf.
  revert i it E Hf Hi. generalize 0%nat. generalize (p_ifaces p).
  induction l as [|it0 r IH]; intros n i it E Hf Hi; [destruct i; discriminate|].
  simpl in Hi. apply andb_true_iff in Hi as [Hi Hr]. apply andb_true_iff in Hi as [Hi _].
  apply andb_true_iff in Hi as [_ Hd].
  destruct i; simpl in E.
  - inversion E; subst. rewrite forallb_forall in Hd. apply (Hd (f, d) Hf).
  - eapply IH; eauto.
Qed.

Lemma wf_own_fun f d : find_fun f (p_funs p) = Some d -> wf_decl nf d = true /\ has_body d = true.
Proof.
  destruct (wf_parts nf p wf) as [_ [_ [Hf _]]].
  intros H. apply find_fun_in in H. rewrite forallb_forall in Hf.
  apply Hf in H. simpl in H. apply andb_true_iff in H. exact H.
Qed.

Lemma inherited_conds_ok f :
  Forall (fun x => decl_conds_ok nf (snd x)) (inherited_conds p f).
Proof.
  unfold inherited_conds. apply Forall_forall. intros [i d] Hin.
  apply in_flat_map in Hin as [j [Hj Hin]].
  destruct (iface_fun p j f) as [d0|] eqn:E; [|contradiction].
  destruct (has_conditions d0); [|contradiction].
  destruct Hin as [Heq|[]]. inversion Heq; subst. simpl.
  apply wf_decl_conds. eapply wf_iface_fun; eauto.
Qed.

Lemma wrap_fold_none f confs :
  fold_right (fun i acc => wrap_step p f acc i) None confs = None.
Proof.
  induction confs as [|i r IH]; simpl; auto. rewrite IH. unfold wrap_step.
  destruct (iface_fun p i f) as [d|]; auto. destruct (wrapper i d); auto.
Qed.

Lemma wrap_fold_some f base confs :
  fold_right (fun i acc => wrap_step p f acc i) (Some base) confs =
  Some (wrap_all (flat_map (fun i => match iface_fun p i f with
                                     | Some d => if has_conditions d then [(i, d)] else []
                                     | None => []
                                     end) confs) base).
Proof.
  induction confs as [|i r IH]; simpl; auto. rewrite IH. unfold wrap_step, wrapper.
  destruct (iface_fun p i f) as [d|]; auto.
  destruct (has_conditions d); auto. simpl. unfold wrap_one. simpl.
  destruct (post_rewrite (S i) (f_post d)); reflexivity.
Qed.

Definition fn_of (x : fdecl * bool) : fnval :=
  if snd x then composite_function (fst x) else default_function (fst x).

Lemma base_fn_impl f :
  base_fn p (effective_conformances p) f = option_map fn_of (impl_decl p f).
Proof.
  unfold base_fn, impl_decl.
  destruct (find_fun f (p_funs p)) as [d|] eqn:Eo; [reflexivity|].
  set (g2 := fun i => match iface_fun p i f with
                      | Some d => if has_body d then Some (d, false) else None
                      | None => None end).
  assert (Hext : forall l, first_some (fun i => match iface_fun p i f with
                           | Some d => if has_body d then Some (default_function d) else None
                           | None => None end) l = first_some (fun i => option_map fn_of (g2 i)) l).
  { induction l as [|x l IH]; simpl; auto. unfold g2 at 1.
    destruct (iface_fun p x f) as [d|]; simpl; auto. destruct (has_body d); simpl; auto. }
  rewrite Hext.
  rewrite first_some_map. f_equal.
  apply (first_some_unique g2
           (fun i => match iface_fun p i f with Some d => has_body d | None => false end)).
  - intros i. unfold g2. destruct (iface_fun p i f) as [d|]; [|tauto].
    destruct (has_body d); split; intros; auto; discriminate.
  - (* at most one default among the effective conformances *)
    destruct (wf_parts nf p wf) as [_ [_ [_ [_ Hd]]]]. unfold defaults_ok in Hd.
    rewrite forallb_forall in Hd.
    destruct (filter _ (effective_conformances p)) as [|i0 rest] eqn:Ef; [simpl; lia|].
    assert (Hin : In i0 (filter (fun i => match iface_fun p i f with
                                          | Some d => has_body d | None => false end)
                                (effective_conformances p))) by (rewrite Ef; simpl; auto).
    apply filter_In in Hin as [Hin Hp].
    specialize (Hd i0 Hin). unfold iface_fun in Hp.
    destruct (nth_error (p_ifaces p) i0) as [it|] eqn:Ei; [|discriminate].
    destruct (find_fun f (i_funs it)) as [d|] eqn:Ed; [|discriminate].
    rewrite forallb_forall in Hd. specialize (Hd (f, d) (find_fun_in _ _ _ Ed)). simpl in Hd.
    rewrite Eo in Hd. apply Nat.eqb_eq in Hd. unfold count_defaults in Hd.
    unfold iface_fun in Hd at 1. fold (iface_fun p) in Hd.
    change (length (i0 :: rest) <= 1)%nat. rewrite <- Ef. unfold iface_fun at 1. lia.
Qed.

Lemma build_fn_impl f :
  build_fn p f =
  option_map (fun x => wrap_all (inherited_conds p f) (fn_of x)) (impl_decl p f).
Proof.
  unfold build_fn. rewrite fold_left_rev, base_fn_impl.
  destruct (impl_decl p f) as [x|]; simpl.
  - rewrite wrap_fold_some. reflexivity.
  - apply wrap_fold_none.
Qed.

Lemma impl_decl_wf f d own : impl_decl p f = Some (d, own) -> wf_decl nf d = true.
Proof.
  unfold impl_decl. destruct (find_fun f (p_funs p)) as [d0|] eqn:Eo.
  - intros H; inversion H; subst. apply (wf_own_fun f d Eo).
  - intros H.
    assert (Hex : forall l, first_some (fun i => match iface_fun p i f with
                          | Some d => if has_body d then Some (d, false) else None
                          | None => None end) l = Some (d, own) ->
                  exists i, iface_fun p i f = Some d).
    { induction l as [|x l IH]; simpl; [discriminate|].
      destruct (iface_fun p x f) as [d1|] eqn:E1; auto.
      destruct (has_body d1); auto. intros H1; inversion H1; subst. eauto. }
    destruct (Hex _ H) as [i Hi]. eapply wf_iface_fun; eauto.
Qed.

(* the interpreter-shaped call is the flat specification *)
Lemma invoke_is_spec callk f a b (st : state) (tr : trace) :
  length st = nf ->
  match build_fn p f with
  | Some fv => invoke callk p fv a b (st, tr)
  | None => (Err Internal, (st, tr))
  end = spec_invoke callk p f a b (st, tr).
Proof.
  intros Hlen. rewrite build_fn_impl. unfold spec_invoke.
  destruct (impl_decl p f) as [[d own]|] eqn:Ei; simpl; [|reflexivity].
  pose proof (impl_decl_wf f d own Ei) as Hwf. destruct (wf_decl_conds nf d Hwf) as [Hpre Hpost].
  rewrite (invoke_wrap_all nf callk p _ _ a b st (inherited_conds_ok f) Hlen tr).
  unfold spec_pres, spec_posts, fn_of. simpl.
  destruct own.
  - unfold composite_function. destruct (post_rewrite 0 (f_post d)) as [bs post'] eqn:Erw.
    simpl.
    rewrite (spec_frame_ext _ _ _ (spec_frame (f_pre d) (f_post d) (exec_fun_body callk p d a b) a b) a b st tr).
    + apply spec_frame_nest.
    + intros tr1. apply (vfb_spec nf 0 (f_pre d) (f_post d) bs post' _ a b st tr1 Hpre Hpost Hlen Erw).
  - unfold default_function. simpl. rewrite app_nil_r.
    apply spec_frame_ext. intros tr1. apply vfb_nil.
Qed.

Lemma call_is_spec n f a b (st : state) (tr : trace) :
  length st = nf ->
  call (S n) p f a b (st, tr) = spec_invoke (call n p) p f a b (st, tr).
Proof.
  intros Hlen. simpl. apply (invoke_is_spec (call n p) f a b st tr Hlen).
Qed.

End Build.
