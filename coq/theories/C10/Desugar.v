(* C10: the compiler's desugaring (conditions inlined into each function of the composite,
   delegators for inherited default functions) is observationally equal to the interpreter's
   wrapper semantics. *)
From CV Require Import C10.Model C10.Lemmas C10.Conf C10.Interp C10.ExecLemmas.
Import ListNotations.

Definition rwf (x : nat * fdecl) : list (bid * exp) * list cond :=
  post_rewrite (S (fst x)) (f_post (snd x)).

(* ------------------------------------------------------------------ inherited post-conditions *)

Lemma post_rewrite_parts nf ent post bs post' :
  forallb (fun c => post_ok nf (cond_exp c)) post = true ->
  post_rewrite ent post = (bs, post') ->
  rw_conds ent post 0 = (post', bs) /\
  Forall (fun x => closed nf (snd x) = true) bs /\
  map fst bs = map (pair ent) (seq 0 (length bs)).
Proof.
  intros Hok H. unfold post_rewrite in H.
  destruct (rw_conds ent post 0) as [cs' bs'] eqn:E. inversion H; subst bs' cs'.
  split; [reflexivity|]. split.
  - eapply rw_conds_closed; eauto.
  - eapply rw_conds_ids; eauto.
Qed.

Lemma inh_bs_closed nf M :
  Forall (fun x => decl_conds_ok nf (snd x)) M ->
  Forall (fun x => closed nf (snd x) = true) (flat_map fst (map rwf M)).
Proof.
  induction M as [|x M IH]; simpl; intros H; [constructor|].
  inversion_clear H as [|? ? [_ Hpost] HM].
  apply Forall_app; split; auto.
  destruct (rwf x) as [bs post'] eqn:E. simpl.
  apply (post_rewrite_parts nf _ _ _ _ Hpost E).
Qed.

Lemma inh_ids nf M :
  Forall (fun x => decl_conds_ok nf (snd x)) M ->
  forall id, In id (map fst (flat_map fst (map rwf M))) ->
  exists i, In i (map fst M) /\ fst id = S i.
Proof.
  induction M as [|x M IH]; simpl; intros H id Hin; [contradiction|].
  inversion_clear H as [|? ? [_ Hpost] HM].
  rewrite map_app in Hin. apply in_app_or in Hin as [Hin|Hin].
  - destruct (rwf x) as [bs post'] eqn:E. simpl in Hin.
    destruct (post_rewrite_parts nf _ _ _ _ Hpost E) as [_ [_ Hids]].
    rewrite Hids in Hin. apply in_map_iff in Hin as [k [Hk _]]. subst id.
    exists (fst x). simpl; auto.
  - destruct (IH HM id Hin) as [i [Hi Hf]]. exists i; auto.
Qed.

Lemma inh_ids_nodup nf M :
  Forall (fun x => decl_conds_ok nf (snd x)) M -> NoDup (map fst M) ->
  NoDup (map fst (flat_map fst (map rwf M))).
Proof.
  induction M as [|x M IH]; simpl; intros H Hnd; [constructor|].
  inversion H as [|? ? [_ Hpost] HM]; subst. inversion_clear Hnd as [|? ? Hnot Hnd'].
  rewrite map_app. apply nodup_app.
  - destruct (rwf x) as [bs post'] eqn:E. simpl.
    destruct (post_rewrite_parts nf _ _ _ _ Hpost E) as [_ [_ Hids]].
    rewrite Hids. apply nodup_pair_seq.
  - apply IH; auto.
  - intros id Hin1 Hin2.
    destruct (inh_ids nf M HM id Hin2) as [i [Hi Hf]].
    destruct (rwf x) as [bs post'] eqn:E. simpl in Hin1.
    destruct (post_rewrite_parts nf _ _ _ _ Hpost E) as [_ [_ Hids]].
    rewrite Hids in Hin1. apply in_map_iff in Hin1 as [k [Hk _]]. subst id. simpl in Hf.
    inversion Hf; subst. contradiction.
Qed.

Lemma visit_inh nf a b s0 M en :
  Forall (fun x => decl_conds_ok nf (snd x)) M ->
  e_a en = a -> e_b en = b ->
  bv_ok a b s0 (flat_map fst (map rwf M)) (e_bv en) ->
  forall (st : state) (tr : trace),
  visit_conditions (flat_map snd (map rwf M)) en (st, tr) =
  lift st (schecks a b (Some s0) st (e_res en) (flat_map (fun x => f_post (snd x)) M) tr).
Proof.
  intros HM Ha Hb. induction M as [|x M IH]; simpl; intros Hbv st tr; [reflexivity|].
  inversion_clear HM as [|? ? [_ Hpost] HM'].
  rewrite visit_conditions_app, schecks_app.
  destruct (rwf x) as [bs post'] eqn:E. simpl in *.
  destruct (post_rewrite_parts nf _ _ _ _ Hpost E) as [Erw _].
  rewrite (rw_conds_correct nf (S (fst x)) a b s0 _ Hpost _ _ _ Erw en (st, tr) Ha Hb
             (bv_ok_app_l _ _ _ _ _ _ Hbv)).
  simpl.
  destruct (schecks a b (Some s0) st (e_res en) (f_post (snd x)) tr) as [[u|e] tr1]; simpl;
    [|reflexivity].
  apply IH; auto. eapply bv_ok_app_r; eauto.
Qed.

(* ------------------------------------------------------------------ a desugared block is a frame *)

Lemma desugar_block_fields L d :
  f_pre (desugar_block L false d) = [] /\ f_post (desugar_block L false d) = [] /\
  f_body (desugar_block L false d) = f_body d.
Proof.
  unfold desugar_block. destruct (post_rewrite 0 (f_post d)) as [own_bs own_post].
  rewrite !orb_true_r. simpl. auto.
Qed.

Lemma exec_desugared nf k (body : env -> world -> res Z * world) L d0 a b (st : state) (tr : trace) :
  Forall (fun x => decl_conds_ok nf (snd x)) L -> NoDup (map fst L) ->
  decl_conds_ok nf d0 -> length st = nf ->
  exists bv,
  exec_block k body (desugar_block L false d0) a b (st, tr) =
  spec_frame (flat_map (fun x => f_pre (snd x)) L ++ f_pre d0)
             (f_post d0 ++ flat_map (fun x => f_post (snd x)) (rev L))
             (body (set_bv (fresh_env a b) bv)) a b (st, tr).
Proof.
  intros HL Hnd [Hpre0 Hpost0] Hlen.
  assert (HLr : Forall (fun x => decl_conds_ok nf (snd x)) (rev L)).
  { apply Forall_forall. intros x Hx. apply in_rev in Hx. rewrite Forall_forall in HL. auto. }
  assert (Hndr : NoDup (map fst (rev L))) by (rewrite map_rev; apply NoDup_rev; auto).
  unfold desugar_block.
  destruct (post_rewrite 0 (f_post d0)) as [own_bs own_post] eqn:Eo.
  destruct (post_rewrite_parts nf _ _ _ _ Hpost0 Eo) as [Erw [Hcl0 Hids0]].
  rewrite !orb_true_r. cbv zeta. simpl.
  set (M := rev L) in *.
  set (bs := own_bs ++ flat_map fst (map rwf M)).
  assert (Hcl : Forall (fun x => closed nf (snd x) = true) bs).
  { apply Forall_app; split; auto. apply inh_bs_closed; auto. }
  assert (Hndb : NoDup (map fst bs)).
  { unfold bs. rewrite map_app. apply nodup_app.
    - rewrite Hids0. apply nodup_pair_seq.
    - apply (inh_ids_nodup nf); auto.
    - intros id H1 H2. destruct (inh_ids nf M HLr id H2) as [i [_ Hf]].
      rewrite Hids0 in H1. apply in_map_iff in H1 as [n [Hn _]]. subst id. discriminate. }
  exists (rev (bvals a b st bs) ++ []).
  unfold exec_block. simpl.
  (* prologue *)
  change (map rwf M) with (map (fun x => post_rewrite (S (fst x)) (f_post (snd x))) M) in *.
  fold bs.
  rewrite (exec_lets nf k bs _ Hcl (fresh_env a b) st tr Hlen). simpl.
  set (en1 := set_bv (fresh_env a b) (rev (bvals a b st bs) ++ [])).
  rewrite flat_map_map, <- map_app, exec_conds.
  assert (Hprecl : forallb (fun c => closed nf (cond_exp c))
                     (flat_map (fun x => f_pre (snd x)) L ++ f_pre d0) = true).
  { rewrite forallb_app, Hpre0, andb_true_r. apply forallb_forall. intros c Hc.
    apply in_flat_map in Hc as [x [Hx Hc]]. rewrite Forall_forall in HL.
    destruct (HL x Hx) as [Hp _]. rewrite forallb_forall in Hp. auto. }
  rewrite (visit_closed nf _ Hprecl en1 (st, tr) None None). simpl.
  unfold spec_frame. simpl.
  destruct (schecks a b None st None (flat_map (fun x => f_pre (snd x)) L ++ f_pre d0) tr)
    as [[u|e] tr1]; simpl; [|reflexivity].
  destruct (body en1 (st, tr1)) as [[r|e] [st2 tr2]]; [|reflexivity].
  (* epilogue *)
  rewrite flat_map_map, <- map_app, exec_conds, visit_conditions_app.
  assert (Hbv : bv_ok a b st bs (e_bv (set_res en1 (Some r)))).
  { simpl. apply (bv_ok_bvals nf); auto. }
  rewrite (rw_conds_correct nf 0 a b st _ Hpost0 _ _ _ Erw (set_res en1 (Some r)) (st2, tr2)
             eq_refl eq_refl (bv_ok_app_l _ _ _ _ _ _ Hbv)).
  rewrite schecks_app. simpl.
  destruct (schecks a b (Some st) st2 (Some r) (f_post d0) tr2) as [[u2|e] tr3]; simpl;
    [|reflexivity].
  change (map (fun x => post_rewrite (S (fst x)) (f_post (snd x))) M) with (map rwf M).
  rewrite (visit_inh nf a b st M (set_res en1 (Some r)) HLr eq_refl eq_refl
             (bv_ok_app_r _ _ _ _ _ _ Hbv) st2 tr3).
  simpl.
  destruct (schecks a b (Some st) st2 (Some r) (flat_map (fun x => f_post (snd x)) M) tr3)
    as [[u3|e] tr4]; reflexivity.
Qed.

(* ------------------------------------------------------------------ the desugared program *)

Lemma parents_desugar ifs c : parents (map desugar_iface ifs) c = parents ifs c.
Proof.
  unfold parents. rewrite nth_error_map. destruct (nth_error ifs c); reflexivity.
Qed.

Lemma dconf_parents_ext ifs1 ifs2 :
  (forall c, parents ifs1 c = parents ifs2 c) ->
  forall fuel confs seen, dconf fuel ifs1 confs seen = dconf fuel ifs2 confs seen.
Proof.
  intros Hp. induction fuel as [|f IHf]; [reflexivity|].
  induction confs as [|c rest IHc]; intros seen.
  - rewrite !dconf_nil. reflexivity.
  - rewrite !dconf_cons. destruct (mem c seen); auto.
    rewrite Hp, IHf. destruct (dconf f ifs2 (parents ifs2 c) (c :: seen)) as [nested seen2].
    rewrite IHc. reflexivity.
Qed.

Lemma eff_desugar p : effective_conformances (desugar p) = effective_conformances p.
Proof.
  unfold effective_conformances.
  change (p_ifaces (desugar p)) with (map desugar_iface (p_ifaces p)).
  change (p_confs (desugar p)) with (p_confs p).
  rewrite map_length.
  rewrite (dconf_parents_ext _ (p_ifaces p)); auto. intros c. apply parents_desugar.
Qed.

Lemma desugar_block_iface d :
  desugar_block [] true d = FDecl [] [] SSkip (f_body d) SSkip.
Proof.
  unfold desugar_block. simpl.
  destruct (f_pre d), (f_post d); simpl; try reflexivity;
    destruct (post_rewrite 0 (c :: l)); try reflexivity;
    try (destruct (post_rewrite 0 (c0 :: l0)); reflexivity).
Qed.

Fixpoint find_body (f : fname) (l : list (fname * fdecl)) : option fdecl :=
  match l with
  | [] => None
  | (g, d) :: r => if Nat.eqb f g && has_body d then Some d else find_body f r
  end.

Lemma find_fun_filtered f (h : fdecl -> fdecl) l :
  find_fun f (flat_map (fun x => if has_body (snd x) then [(fst x, h (snd x))] else []) l) =
  option_map h (find_body f l).
Proof.
  induction l as [|[g d] r IH]; simpl; auto.
  destruct (has_body d); simpl.
  - destruct (Nat.eqb f g); simpl; auto.
  - rewrite andb_false_r. auto.
Qed.

Definition no_name (f : fname) (l : list (fname * fdecl)) : Prop :=
  existsb (fun x => Nat.eqb f (fst x)) l = false.

Lemma find_fun_no_name f l : no_name f l -> find_fun f l = None.
Proof.
  unfold no_name. induction l as [|[g d] r IH]; simpl; intros H; auto.
  apply orb_false_iff in H as [H1 H2]. rewrite H1. auto.
Qed.

Lemma find_body_no_name f l : no_name f l -> find_body f l = None.
Proof.
  unfold no_name. induction l as [|[g d] r IH]; simpl; intros H; auto.
  apply orb_false_iff in H as [H1 H2]. rewrite H1. simpl. auto.
Qed.

Lemma find_body_nodup f l : nodup_names l = true ->
  find_body f l = match find_fun f l with
                  | Some d => if has_body d then Some d else None
                  | None => None end.
Proof.
  induction l as [|[g d] r IH]; simpl; intros H; auto.
  apply andb_true_iff in H as [H1 H2]. apply negb_true_iff in H1.
  destruct (Nat.eqb f g) eqn:E; simpl; auto.
  apply Nat.eqb_eq in E. subst g.
  destruct (has_body d); auto. apply find_body_no_name. exact H1.
Qed.

Section Prog.
Variables (nf : nat) (p : prog).
Hypothesis wf : wf_prog nf p = true.

Lemma wf_iface_nodup i it : nth_error (p_ifaces p) i = Some it -> nodup_names (i_funs it) = true.
Proof.
  destruct (wf_parts nf p wf) as [Hi _]. revert i it Hi. generalize 0%nat. generalize (p_ifaces p).
  induction l as [|it0 r IH]; intros n i it Hi E; [destruct i; discriminate|].
  simpl in Hi. apply andb_true_iff in Hi as [Hi Hr]. apply andb_true_iff in Hi as [_ Hn].
  destruct i; simpl in E.
  - inversion E; subst. auto.
  - eapply IH; eauto.
Qed.

Definition body_decl (i : nat) (f : fname) : option fdecl :=
  match iface_fun p i f with
  | Some d => if has_body d then Some d else None
  | None => None
  end.

Lemma iface_fun_desugar i f :
  iface_fun (desugar p) i f =
  option_map (fun d => FDecl [] [] SSkip (f_body d) SSkip) (body_decl i f).
Proof.
  unfold iface_fun, body_decl, desugar. simpl. rewrite nth_error_map.
  unfold iface_fun. destruct (nth_error (p_ifaces p) i) as [it|] eqn:E; simpl; auto.
  rewrite (find_fun_filtered f (desugar_block [] true)).
  rewrite (find_body_nodup f _ (wf_iface_nodup i it E)).
  destruct (find_fun f (i_funs it)) as [d|]; simpl; auto.
  destruct (has_body d); simpl; auto. rewrite desugar_block_iface. reflexivity.
Qed.

Lemma no_wrappers f acc confs :
  fold_right (fun i acc => wrap_step (desugar p) f acc i) acc confs = acc.
Proof.
  induction confs as [|i r IH]; simpl; auto. rewrite IH. unfold wrap_step.
  rewrite iface_fun_desugar. destruct (body_decl i f); simpl; auto.
Qed.

(* delegators *)

Definition has_fb (f : fname) (fs : list (fname * fdecl)) : bool :=
  existsb (fun x => Nat.eqb f (fst x) && has_body (snd x)) fs.

Definition deleg (i : nat) (f : fname) : fdecl :=
  desugar_block (inherited_conds p f) false (FDecl [] [] SSkip (BDelegate i f) SSkip).

Definition funs_of (i : nat) : list (fname * fdecl) :=
  match nth_error (p_ifaces p) i with Some it => i_funs it | None => [] end.

Lemma mem_cons f g l : mem f (g :: l) = Nat.eqb f g || mem f l.
Proof. reflexivity. Qed.

Lemma delegators_of_find f i : find_fun f (p_funs p) = None ->
  forall fs seen ds seen', delegators_of p i fs seen = (ds, seen') ->
  (forall g, In g seen' <-> In g seen \/ has_fb g fs = true) /\
  find_fun f ds = if mem f seen then None
                  else if has_fb f fs then Some (deleg i f) else None.
Proof.
  intros Hown. induction fs as [|[g d] r IH]; simpl; intros seen ds seen' H.
  - inversion H; subst ds seen'. split.
    + intros g. split; [auto | intros [?|?]; [auto | discriminate]].
    + simpl. destruct (mem f seen); reflexivity.
  - destruct (has_body d) eqn:Hb; simpl in H.
    + destruct (mem g seen) eqn:Em.
      * destruct (IH _ _ _ H) as [I1 I2]. split.
        -- intros g'. rewrite I1. rewrite andb_true_r.
           destruct (Nat.eqb g' g) eqn:E; simpl; [|tauto].
           apply Nat.eqb_eq in E. subst g'. apply mem_In in Em. tauto.
        -- rewrite I2. destruct (mem f seen) eqn:Ef; auto.
           rewrite andb_true_r. destruct (Nat.eqb f g) eqn:E; simpl; auto.
           apply Nat.eqb_eq in E. subst g. congruence.
      * destruct (delegators_of p i r (g :: seen)) as [ds1 seen2] eqn:Er.
        destruct (IH _ _ _ Er) as [I1 I2].
        assert (Hseen : forall g', In g' seen2 <-> In g' seen \/ (Nat.eqb g' g && true || has_fb g' r) = true).
        { intros g'. rewrite I1. simpl. rewrite andb_true_r.
          destruct (Nat.eqb g' g) eqn:E; simpl.
          - apply Nat.eqb_eq in E. subst g'. tauto.
          - apply Nat.eqb_neq in E. split; [intros [[?|?]|?]; auto; congruence | tauto]. }
        assert (Hfind : find_fun f ds1 = if mem f seen then None
                          else if Nat.eqb f g then None
                          else if has_fb f r then Some (deleg i f) else None).
        { rewrite I2, mem_cons. destruct (Nat.eqb f g); simpl; auto.
          destruct (mem f seen); auto. }
        destruct (find_fun g (p_funs p)) as [dg|] eqn:Eg; inversion H; subst ds seen'; clear H.
        -- split; [exact Hseen|]. rewrite Hfind. rewrite andb_true_r.
           destruct (mem f seen) eqn:Ef; auto.
           destruct (Nat.eqb f g) eqn:E; simpl; auto.
           apply Nat.eqb_eq in E. subst g. congruence.
        -- split; [exact Hseen|]. simpl. rewrite andb_true_r.
           destruct (Nat.eqb f g) eqn:E; simpl.
           ++ apply Nat.eqb_eq in E. subst g. rewrite Em. reflexivity.
           ++ rewrite Hfind. reflexivity.
    + destruct (IH _ _ _ H) as [I1 I2]. split.
      * intros g'. rewrite I1. rewrite andb_false_r. simpl. tauto.
      * rewrite I2. rewrite andb_false_r. reflexivity.
Qed.

Definition first_default (f : fname) (confs : list nat) : option nat :=
  first_some (fun i => if has_fb f (funs_of i) then Some i else None) confs.

Lemma delegators_find f : find_fun f (p_funs p) = None ->
  forall confs seen,
  find_fun f (delegators p confs seen) =
  if mem f seen then None else option_map (fun i => deleg i f) (first_default f confs).
Proof.
  intros Hown. induction confs as [|i r IH]; simpl; intros seen.
  - destruct (mem f seen); reflexivity.
  - fold (funs_of i).
    destruct (delegators_of p i (funs_of i) seen) as [ds seen1] eqn:E.
    destruct (delegators_of_find f i Hown _ _ _ _ E) as [I1 I2].
    assert (Happ : forall l1 l2, find_fun f (l1 ++ l2) =
                   match find_fun f l1 with Some d => Some d | None => find_fun f l2 end).
    { induction l1 as [|[g d] l1 IHl]; simpl; intros l2; auto. destruct (Nat.eqb f g); auto. }
    rewrite Happ, I2, IH.
    destruct (mem f seen) eqn:Ef.
    + assert (Hm : mem f seen1 = true).
      { apply mem_In. apply I1. left. apply mem_In. exact Ef. }
      rewrite Hm. reflexivity.
    + unfold first_default. simpl. destruct (has_fb f (funs_of i)) eqn:Eh; simpl; auto.
      assert (Hm : mem f seen1 = false).
      { destruct (mem f seen1) eqn:Em; auto. apply mem_In in Em. apply I1 in Em.
        destruct Em as [Em|Em]; [apply mem_In in Em|]; congruence. }
      rewrite Hm. reflexivity.
Qed.

Lemma has_fb_body i f :
  has_fb f (funs_of i) = match body_decl i f with Some _ => true | None => false end.
Proof.
  unfold funs_of, body_decl, iface_fun.
  destruct (nth_error (p_ifaces p) i) as [it|] eqn:E; simpl; auto.
  pose proof (wf_iface_nodup i it E) as Hn. revert Hn.
  generalize (i_funs it). induction l as [|[g d] r IH]; simpl; intros Hn; auto.
  apply andb_true_iff in Hn as [H1 H2]. apply negb_true_iff in H1.
  destruct (Nat.eqb f g) eqn:Eq; simpl; [|auto].
  apply Nat.eqb_eq in Eq. subst g.
  destruct (has_body d); simpl; auto.
  assert (Hfb : forall l, no_name f l -> has_fb f l = false).
  { unfold no_name, has_fb. induction l as [|[g0 d0] l IHl]; simpl; intros Hx; auto.
    apply orb_false_iff in Hx as [Hx1 Hx2]. rewrite Hx1. simpl. auto. }
  apply Hfb. exact H1.
Qed.

Lemma first_default_impl f confs : find_fun f (p_funs p) = None ->
  first_some (fun i => match iface_fun p i f with
                       | Some d => if has_body d then Some (d, false) else None
                       | None => None end) confs =
  match first_default f confs with
  | Some i => option_map (fun d => (d, false)) (body_decl i f)
  | None => None
  end.
Proof.
  intros _. unfold first_default. induction confs as [|i r IH]; simpl; auto.
  rewrite has_fb_body. rewrite IH. unfold body_decl.
  destruct (iface_fun p i f) as [d|] eqn:Ei; simpl; auto.
  destruct (has_body d) eqn:Hb; simpl; auto. rewrite Ei, Hb. reflexivity.
Qed.

Lemma first_default_body f confs i : first_default f confs = Some i ->
  exists d, body_decl i f = Some d.
Proof.
  unfold first_default. induction confs as [|j r IH]; simpl; [discriminate|].
  destruct (has_fb f (funs_of j)) eqn:E.
  - intros H; inversion H; subst. rewrite has_fb_body in E.
    destruct (body_decl i f); [eauto | discriminate].
  - auto.
Qed.

Lemma first_default_none f confs : first_default f confs = None ->
  forall i, In i confs -> body_decl i f = None.
Proof.
  unfold first_default. induction confs as [|j r IH]; simpl; intros H i Hin; [contradiction|].
  destruct (has_fb f (funs_of j)) eqn:E; [discriminate|].
  destruct Hin as [->|Hin]; auto.
  rewrite has_fb_body in E. destruct (body_decl i f); [discriminate | reflexivity].
Qed.

Lemma find_fun_app f l1 l2 :
  find_fun f (l1 ++ l2) = match find_fun f l1 with Some d => Some d | None => find_fun f l2 end.
Proof.
  induction l1 as [|[g d] l1 IH]; simpl; auto. destruct (Nat.eqb f g); auto.
Qed.

Lemma find_fun_map f (h : fname -> fdecl -> fdecl) l :
  find_fun f (map (fun x => (fst x, h (fst x) (snd x))) l) = option_map (h f) (find_fun f l).
Proof.
  induction l as [|[g d] r IH]; simpl; auto.
  destruct (Nat.eqb f g) eqn:E; auto. apply Nat.eqb_eq in E. subst. reflexivity.
Qed.

Lemma find_fun_desugar f :
  find_fun f (p_funs (desugar p)) =
  match find_fun f (p_funs p) with
  | Some d => Some (desugar_block (inherited_conds p f) false d)
  | None => option_map (fun i => deleg i f) (first_default f (effective_conformances p))
  end.
Proof.
  unfold desugar. simpl. rewrite find_fun_app.
  rewrite (find_fun_map f (fun g d => desugar_block (inherited_conds p g) false d)).
  destruct (find_fun f (p_funs p)) as [d|] eqn:E; simpl; auto.
  rewrite (delegators_find f E). reflexivity.
Qed.

Lemma inherited_nodup f : NoDup (map fst (inherited_conds p f)).
Proof.
  unfold inherited_conds. pose proof (eff_nodup nf p wf) as Hnd.
  induction (effective_conformances p) as [|i r IH]; simpl; [constructor|].
  inversion_clear Hnd as [|? ? Hnot Hnd'].
  rewrite map_app. apply nodup_app; auto.
  - destruct (iface_fun p i f) as [d|]; [|constructor].
    destruct (has_conditions d); simpl; repeat constructor. intros [].
  - intros x H1 H2. apply Hnot.
    assert (x = i).
    { destruct (iface_fun p i f) as [d|]; [|contradiction].
      destruct (has_conditions d); simpl in H1; [|contradiction]. destruct H1 as [<-|[]]; auto. }
    subst x. apply in_map_iff in H2 as [[j d] [Hj Hin]]. simpl in Hj. subst j.
    apply in_flat_map in Hin as [j [Hj Hin]].
    destruct (iface_fun p j f) as [d0|]; [|contradiction].
    destruct (has_conditions d0); [|contradiction]. destruct Hin as [Heq|[]].
    inversion Heq; subst. auto.
Qed.

(* a source declaration's block: prologue and epilogue are empty *)
Lemma exec_fun_body_src k d s a b w :
  wf_decl nf d = true -> f_body d = BStmts s ->
  exec_fun_body k p d a b w = run_stmts k s (fresh_env a b) w.
Proof.
  intros Hwf Hb. unfold wf_decl in Hwf.
  apply andb_true_iff in Hwf as [Hwf _]. apply andb_true_iff in Hwf as [Hwf He].
  apply andb_true_iff in Hwf as [_ Hp].
  unfold exec_fun_body, exec_block. rewrite Hb.
  destruct (f_pro d); try discriminate. destruct (f_epi d); try discriminate. simpl.
  destruct (run_stmts k s (fresh_env a b) w) as [[r|x] w2]; reflexivity.
Qed.

Lemma wf_decl_body d : wf_decl nf d = true -> has_body d = true ->
  exists s, f_body d = BStmts s /\ wf_stmt nf s = true.
Proof.
  unfold wf_decl, has_body. intros H Hb. apply andb_true_iff in H as [_ H].
  destruct (f_body d); try discriminate. eauto.
Qed.

Theorem desugar_call_equiv : forall n f a b (st : state) (tr : trace),
  length st = nf ->
  call n (desugar p) f a b (st, tr) = call n p f a b (st, tr).
Proof.
  induction n as [|n IH]; intros f a b st tr Hlen; [reflexivity|].
  rewrite (call_is_spec nf p wf n f a b st tr Hlen).
  assert (Hag : agree nf (call n (desugar p)) (call n p)) by (intros g x y s t Hl; apply IH; auto).
  pose proof (call_length n p) as Hkl.
  simpl. unfold build_fn. rewrite eff_desugar, fold_left_rev, no_wrappers.
  unfold base_fn, spec_invoke, impl_decl. rewrite find_fun_desugar.
  destruct (find_fun f (p_funs p)) as [d|] eqn:Eo.
  - (* the composite's own implementation *)
    destruct (wf_own_fun nf p wf f d Eo) as [Hwd Hbd].
    destruct (wf_decl_body d Hwd Hbd) as [s [Hs Hws]].
    destruct (desugar_block_fields (inherited_conds p f) d) as [Fpre [Fpost Fbody]].
    unfold composite_function. rewrite Fpost. simpl. rewrite Fpre. rewrite vfb_nil.
    unfold exec_fun_body at 1. rewrite Fbody, Hs.
    destruct (exec_desugared nf (call n (desugar p))
                (fun en w1 => run_stmts (call n (desugar p)) s en w1)
                (inherited_conds p f) d a b st tr
                (inherited_conds_ok nf p wf f) (inherited_nodup f) (wf_decl_conds nf d Hwd) Hlen)
      as [bv Hex].
    rewrite Hex. unfold spec_pres, spec_posts.
    apply spec_frame_ext. intros tr1.
    rewrite (run_stmts_bv nf _ s _ bv _ Hws).
    rewrite (exec_fun_body_src _ d s a b _ Hwd Hs).
    apply (run_stmts_ext nf); auto.
  - rewrite (first_default_impl f _ Eo).
    destruct (first_default f (effective_conformances p)) as [i|] eqn:Ed; simpl.
    + (* an inherited default function, through its delegator *)
      destruct (first_default_body f _ i Ed) as [d0 Hd0]. rewrite Hd0. simpl.
      assert (Hi : iface_fun p i f = Some d0 /\ has_body d0 = true).
      { unfold body_decl in Hd0. destruct (iface_fun p i f) as [dx|]; [|discriminate].
        destruct (has_body dx) eqn:Hb; inversion Hd0; subst; auto. }
      destruct Hi as [Hi Hb0].
      pose proof (wf_iface_fun nf p wf i f d0 Hi) as Hwd.
      destruct (wf_decl_body d0 Hwd Hb0) as [s [Hs Hws]].
      rewrite vfb_nil.
      destruct (desugar_block_fields (inherited_conds p f) (FDecl [] [] SSkip (BDelegate i f) SSkip))
        as [_ [_ Fbody]].
      fold (deleg i f) in Fbody.
      unfold exec_fun_body at 1. rewrite Fbody. cbn [f_body]. cbv beta iota.
      rewrite iface_fun_desugar, Hd0. cbn [option_map].
      unfold deleg.
      destruct (exec_desugared nf (call n (desugar p))
                  (fun (en : env) w1 => exec_plain (call n (desugar p))
                                          (FDecl [] [] SSkip (f_body d0) SSkip) a b w1)
                  (inherited_conds p f) (FDecl [] [] SSkip (BDelegate i f) SSkip) a b st tr
                  (inherited_conds_ok nf p wf f) (inherited_nodup f)
                  (conj eq_refl eq_refl) Hlen)
        as [bv Hex].
      rewrite Hex. unfold spec_pres, spec_posts. simpl. rewrite app_nil_r.
      apply spec_frame_ext. intros tr1.
      rewrite (exec_fun_body_src _ d0 s a b _ Hwd Hs).
      unfold exec_plain, exec_block. simpl. rewrite Hs.
      rewrite (run_stmts_ext nf (call n (desugar p)) (call n p)); auto.
      destruct (run_stmts (call n p) s (fresh_env a b) (st, tr1)) as [[r|x] w2]; reflexivity.
    + (* no implementation at all *)
      rewrite first_some_none; [reflexivity|].
      intros i Hin. apply in_rev in Hin. rewrite iface_fun_desugar.
      rewrite (first_default_none f _ Ed i Hin). reflexivity.
Qed.

End Prog.
