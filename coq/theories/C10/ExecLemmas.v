(* C10: statement-level lemmas: state length is preserved, execution only depends on the callee
   semantics on well-sized states, bodies do not see `$before` variables, and the desugared
   prologue/epilogue statements behave like the interpreter's condition visits. *)
From CV Require Import C10.Model C10.Lemmas C10.Conf C10.Interp.
Import ListNotations.

Definition keeps_len (k : callk_t) : Prop :=
  forall f a b w r w', k f a b w = (r, w') -> length (fst w') = length (fst w).

Lemma set_nth_length i v l l' : set_nth i v l = Some l' -> length l' = length l.
Proof.
  revert i l'. induction l as [|x r IH]; intros i l' H; destruct i; simpl in H; try discriminate.
  - inversion H; reflexivity.
  - destruct (set_nth i v r) as [r'|] eqn:E; [|discriminate]. inversion H; subst.
    simpl. f_equal. eapply IH; eauto.
Qed.

Lemma exec_length k s : keeps_len k ->
  forall en w r w', exec k s en w = (r, w') -> length (fst w') = length (fst w).
Proof.
  intros Hk. induction s; simpl; intros en w r w' H.
  - inversion H; auto.
  - destruct (exec k s1 en w) as [[[en1|v]|x] w1] eqn:E1.
    + rewrite (IHs2 _ _ _ _ H). eapply IHs1; eauto.
    + inversion H; subst. eapply IHs1; eauto.
    + inversion H; subst. eapply IHs1; eauto.
  - destruct (eval en (fst w) e); [|inversion H; auto].
    destruct (set_nth fld a (fst w)) eqn:E; inversion H; subst; auto. simpl.
    eapply set_nth_length; eauto.
  - destruct (eval en (fst w) e); [|inversion H; auto].
    destruct (e_loc en) as [[x y]|]; inversion H; auto.
  - destruct (eval en (fst w) a); [|inversion H; auto].
    destruct (eval en (fst w) b); [|inversion H; auto].
    destruct (k f a0 a1 w) as [[v|x] w1] eqn:Ek.
    + destruct (e_loc en) as [[x y]|]; inversion H; subst; eapply Hk; eauto.
    + inversion H; subst. eapply Hk; eauto.
  - destruct (eval en (fst w) e); inversion H; auto.
  - destruct (eval en (fst w) c); [|inversion H; auto].
    destruct (truthy a); eauto.
  - destruct (eval en (fst w) e); inversion H; auto.
  - inversion H; auto.
  - destruct (eval en (fst w) e); inversion H; auto.
  - destruct (eval en (fst w) c); [|inversion H; auto].
    destruct (truthy a); inversion H; auto.
Qed.

Lemma visit_conditions_state cs en w r w' :
  visit_conditions cs en w = (r, w') -> fst w' = fst w.
Proof.
  revert w. induction cs as [|c cs IH]; simpl; intros w H.
  - inversion H; auto.
  - destruct (visit_condition c en w) as [[u|x] w1] eqn:E.
    + rewrite (IH _ H). destruct c; simpl in E.
      * destruct (eval en (fst w) c); [|inversion E; auto].
        destruct (truthy a); inversion E; auto.
      * destruct (eval en (fst w) e); inversion E; auto.
    + inversion H; subst. destruct c; simpl in E.
      * destruct (eval en (fst w) c); [|inversion E; auto].
        destruct (truthy a); inversion E; auto.
      * destruct (eval en (fst w) e); inversion E; auto.
Qed.

Lemma run_stmts_length k s en w r w' : keeps_len k ->
  run_stmts k s en w = (r, w') -> length (fst w') = length (fst w).
Proof.
  intros Hk H. unfold run_stmts in H.
  destruct (exec k s en w) as [[[en1|v]|x] w1] eqn:E; inversion H; subst;
    eapply exec_length; eauto.
Qed.

Lemma exec_block_length k (body : env -> world -> res Z * world) d a b w r w' : keeps_len k ->
  (forall en (w1 : world) r1 (w2 : world), body en w1 = (r1, w2) -> length (fst w2) = length (fst w1)) ->
  exec_block k body d a b w = (r, w') -> length (fst w') = length (fst w).
Proof.
  intros Hk Hb H. unfold exec_block in H.
  destruct (exec k (f_pro d) (fresh_env a b) w) as [[[en1|v]|x] w1] eqn:E1;
    pose proof (exec_length k _ Hk _ _ _ _ E1) as L1; try (inversion H; subst; auto; fail).
  destruct (body en1 w1) as [[r1|x] w2] eqn:E2; pose proof (Hb _ _ _ _ E2) as L2;
    [|inversion H; subst; simpl in *; lia].
  destruct (exec k (f_epi d) (set_res en1 (Some r1)) w2) as [[[en3|v]|x] w3] eqn:E3;
    pose proof (exec_length k _ Hk _ _ _ _ E3) as L3; inversion H; subst; simpl in *; lia.
Qed.

Lemma exec_plain_length k d a b w r w' : keeps_len k ->
  exec_plain k d a b w = (r, w') -> length (fst w') = length (fst w).
Proof.
  intros Hk. unfold exec_plain. apply exec_block_length; auto.
  intros en w1 r1 w2 H. destruct (f_body d); try (inversion H; auto; fail).
  eapply run_stmts_length; eauto.
Qed.

Lemma exec_fun_body_length k p d a b w r w' : keeps_len k ->
  exec_fun_body k p d a b w = (r, w') -> length (fst w') = length (fst w).
Proof.
  intros Hk. unfold exec_fun_body. apply exec_block_length; auto.
  intros en w1 r1 w2 H. destruct (f_body d); try (inversion H; auto; fail).
  - eapply run_stmts_length; eauto.
  - destruct (iface_fun p i f); [|inversion H; auto]. eapply exec_plain_length; eauto.
Qed.

Lemma vfb_length bs pre (body : world -> res Z * world) post a b w r w' :
  (forall (w1 : world) r1 (w2 : world), body w1 = (r1, w2) -> length (fst w2) = length (fst w1)) ->
  vfb bs pre body post a b w = (r, w') -> length (fst w') = length (fst w).
Proof.
  intros Hb H. unfold vfb in H.
  destruct (eval_befores bs (cond_env a b) (fst w)); [|inversion H; auto].
  destruct (visit_conditions pre a0 w) as [[u|x] w1] eqn:E1;
    pose proof (f_equal (@length Z) (visit_conditions_state _ _ _ _ _ E1)) as S1; [|inversion H; subst; simpl in *; lia].
  destruct (body w1) as [[r1|x] w2] eqn:E2; pose proof (Hb _ _ _ E2) as L2;
    [|inversion H; subst; simpl in *; lia].
  destruct (visit_conditions post (set_res a0 (Some r1)) w2) as [[u3|x] w3] eqn:E3;
    pose proof (f_equal (@length Z) (visit_conditions_state _ _ _ _ _ E3)) as S3; inversion H; subst; simpl in *; lia.
Qed.

Lemma invoke_length k p fv a b : keeps_len k ->
  forall w r w', invoke k p fv a b w = (r, w') -> length (fst w') = length (fst w).
Proof.
  intros Hk. induction fv; simpl; intros w r w' H.
  - eapply vfb_length; [|exact H]. intros. eapply exec_fun_body_length; eauto.
  - eapply vfb_length; [|exact H]. intros. eapply IHfv; eauto.
Qed.

Lemma call_length n p : keeps_len (call n p).
Proof.
  induction n as [|n IH]; intros f a b w r w' H; simpl in H.
  - inversion H; auto.
  - destruct (build_fn p f); [|inversion H; auto]. eapply invoke_length; eauto.
Qed.

(* ------------------------------------------------------------------ extensionality in the callee *)

Definition agree (nf : nat) (k1 k2 : callk_t) : Prop :=
  forall f a b (st : state) (tr : trace), length st = nf -> k1 f a b (st, tr) = k2 f a b (st, tr).

Lemma exec_ext nf k1 k2 s : agree nf k1 k2 -> keeps_len k2 ->
  forall en (st : state) (tr : trace), length st = nf -> exec k1 s en (st, tr) = exec k2 s en (st, tr).
Proof.
  intros Hag Hk. induction s; simpl; intros en st tr Hlen; auto.
  - rewrite IHs1 by assumption.
    destruct (exec k2 s1 en (st, tr)) as [[[en1|v]|x] [st1 tr1]] eqn:E1; auto.
    apply IHs2. pose proof (exec_length k2 _ Hk _ _ _ _ E1). simpl in *. congruence.
  - destruct (eval en st a); auto. destruct (eval en st b); auto.
    rewrite (Hag f a0 a1 st tr Hlen). reflexivity.
  - destruct (eval en st c); auto. destruct (truthy a); auto.
Qed.

Lemma run_stmts_ext nf k1 k2 s en (st : state) (tr : trace) :
  agree nf k1 k2 -> keeps_len k2 -> length st = nf ->
  run_stmts k1 s en (st, tr) = run_stmts k2 s en (st, tr).
Proof.
  intros. unfold run_stmts. rewrite (exec_ext nf k1 k2 s); auto.
Qed.

(* ------------------------------------------------------------------ bodies do not see $before variables *)

Lemma body_exp_bv nf e : body_exp_ok nf e = true ->
  forall en bv st, eval (set_bv en bv) st e = eval en st e.
Proof.
  induction e; simpl; intros H en bv st; try discriminate; auto.
  - rewrite IHe; auto.
  - apply andb_true_iff in H as [H1 H2]. rewrite IHe1, IHe2; auto.
Qed.

Definition fmap_bv (bv : list (bid * Z)) (x : res flow * world) : res flow * world :=
  match x with
  | (Ok (FNormal e), w) => (Ok (FNormal (set_bv e bv)), w)
  | y => y
  end.

Lemma exec_bv nf k s : wf_stmt nf s = true ->
  forall en bv w, exec k s (set_bv en bv) w = fmap_bv bv (exec k s en w).
Proof.
  induction s; simpl; intros H en bv w; try discriminate; auto.
  - apply andb_true_iff in H as [H1 H2]. rewrite IHs1 by assumption.
    destruct (exec k s1 en w) as [[[en1|v]|x] w1]; simpl; auto.
  - rewrite (body_exp_bv nf e H). destruct (eval en (fst w) e); auto.
    destruct (set_nth fld a (fst w)); auto.
  - rewrite (body_exp_bv nf e H). destruct (eval en (fst w) e); auto. simpl.
    destruct (e_loc en) as [[x y]|]; auto.
  - apply andb_true_iff in H as [H1 H2].
    rewrite (body_exp_bv nf a H1), (body_exp_bv nf b H2).
    destruct (eval en (fst w) a); auto. destruct (eval en (fst w) b); auto.
    destruct (k f a0 a1 w) as [[v|x] w1]; auto. simpl.
    destruct (e_loc en) as [[x y]|]; auto.
  - rewrite (body_exp_bv nf e H). destruct (eval en (fst w) e); auto.
  - apply andb_true_iff in H as [H H3]. apply andb_true_iff in H as [H1 H2].
    rewrite (body_exp_bv nf c H1). destruct (eval en (fst w) c); auto.
    destruct (truthy a); auto.
  - rewrite (body_exp_bv nf e H). destruct (eval en (fst w) e); auto.
Qed.

Lemma run_stmts_bv nf k s en bv w : wf_stmt nf s = true ->
  run_stmts k s (set_bv en bv) w = run_stmts k s en w.
Proof.
  intros H. unfold run_stmts. rewrite (exec_bv nf k s H).
  destruct (exec k s en w) as [[[en1|v]|x] w1]; reflexivity.
Qed.

(* ------------------------------------------------------------------ desugared prologue / epilogue *)

Lemma exec_seq_app k l1 l2 en w :
  exec k (seq_of (l1 ++ l2)) en w =
  match exec k (seq_of l1) en w with
  | (Ok (FNormal en1), w1) => exec k (seq_of l2) en1 w1
  | r => r
  end.
Proof.
  revert en w. induction l1 as [|s l1 IH]; simpl; intros en w; auto.
  destruct (exec k s en w) as [[[en1|v]|x] w1]; auto.
Qed.

Lemma exec_lets nf k bs rest :
  Forall (fun x => closed nf (snd x) = true) bs ->
  forall en (st : state) (tr : trace), length st = nf ->
  exec k (seq_of (lets_of bs ++ rest)) en (st, tr) =
  exec k (seq_of rest) (set_bv en (rev (bvals (e_a en) (e_b en) st bs) ++ e_bv en)) (st, tr).
Proof.
  induction bs as [|[id e] r IH]; simpl; intros Hc en st tr Hlen.
  - destruct en; reflexivity.
  - inversion_clear Hc as [|? ? He Hr]. simpl in He.
    rewrite (closed_eval_seval nf e He en st None None).
    destruct (closed_total nf e He (e_a en) (e_b en) st None None Hlen) as [v Hv].
    rewrite Hv. rewrite (IH Hr _ st tr Hlen). simpl.
    rewrite <- app_assoc. reflexivity.
Qed.

Lemma exec_conds k kd cs en w :
  exec k (seq_of (map (desugar_cond kd) cs)) en w =
  match visit_conditions cs en w with
  | (Ok _, w1) => (Ok (FNormal en), w1)
  | (Err x, w1) => (Err x, w1)
  end.
Proof.
  revert w. induction cs as [|c cs IH]; simpl; intros w; auto.
  destruct c as [t|n e]; simpl.
  - destruct (eval en (fst w) t); auto. destruct (truthy a); auto.
  - destruct (eval en (fst w) e); auto.
Qed.

Lemma visit_conditions_app l1 l2 en w :
  visit_conditions (l1 ++ l2) en w =
  match visit_conditions l1 en w with
  | (Ok _, w1) => visit_conditions l2 en w1
  | (Err x, w1) => (Err x, w1)
  end.
Proof.
  revert w. induction l1 as [|c l1 IH]; simpl; intros w; auto.
  destruct (visit_condition c en w) as [[u|x] w1]; auto.
Qed.

Lemma flat_map_map {A B C} (g : B -> C) (h : A -> list B) l :
  flat_map (fun x => map g (h x)) l = map g (flat_map h l).
Proof.
  induction l as [|x l IH]; simpl; auto. rewrite map_app, IH. reflexivity.
Qed.
