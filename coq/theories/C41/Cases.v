(* Check functions used by the per-run case files of C41 (and reused by C42/C43):
   boolean equalities on types, values and JSON trees; the table of simple type kinds. *)
From CV Require Export C41.Json.
From Coq Require Import String.
Local Open Scope string_scope.
Local Open Scope Z_scope.
Local Open Scope list_scope.

(* compact rendering of strings in case files: printable ASCII as itself, any other code point
   (also backslash and double quote) as backslash, hexadecimal digits, semicolon *)
Fixpoint unesc_go (l : list Ascii.ascii) (esc : option Z) : str :=
  match l with
  | [] => []
  | c :: r =>
      let n := Z.of_N (Ascii.N_of_ascii c) in
      match esc with
      | None => if n =? 92 then unesc_go r (Some 0) else n :: unesc_go r None
      | Some acc =>
          if n =? 59 then acc :: unesc_go r None
          else match hex_val n with
               | Some d => unesc_go r (Some (acc * 16 + d))
               | None => unesc_go r (Some acc)
               end
      end
  end.
Definition u (s : string) : str := unesc_go (list_ascii s) None.
Arguments u _%string.

Definition list_eqb {A} (eqb : A -> A -> bool) : list A -> list A -> bool :=
  fix go (a b : list A) : bool :=
    match a, b with
    | [], [] => true
    | x :: a', y :: b' => eqb x y && go a' b'
    | _, _ => false
    end.

Definition xauth_eqb (a b : xauth) : bool :=
  match a, b with
  | AUnauth, AUnauth => true
  | AMap x, AMap y => str_eqb x y
  | ASet c1 e1, ASet c2 e2 => Bool.eqb c1 c2 && list_eqb str_eqb e1 e2
  | _, _ => false
  end.

Fixpoint xty_eqb (a b : xty) {struct a} : bool :=
  let param_eqb (p q : xparam) : bool :=
    str_eqb (fst (fst p)) (fst (fst q)) && str_eqb (snd (fst p)) (snd (fst q)) && xty_eqb (snd p) (snd q) in
  match a, b with
  | TNil, TNil => true
  | TSimple x, TSimple y => str_eqb x y
  | TOptional x, TOptional y => xty_eqb x y
  | TVarArray x, TVarArray y => xty_eqb x y
  | TConstArray n x, TConstArray m y => (n =? m) && xty_eqb x y
  | TDict k v, TDict k' v' => xty_eqb k k' && xty_eqb v v'
  | TRange x, TRange y => xty_eqb x y
  | TCapability x, TCapability y => xty_eqb x y
  | TReference a1 x, TReference a2 y => xauth_eqb a1 a2 && xty_eqb x y
  | TIntersection l1, TIntersection l2 => list_eqb xty_eqb l1 l2
  | TFunction v1 tp1 p1 r1, TFunction v2 tp2 p2 r2 =>
      Bool.eqb v1 v2 &&
      list_eqb (fun x y => str_eqb (fst x) (fst y) && xty_eqb (snd x) (snd y)) tp1 tp2 &&
      list_eqb param_eqb p1 p2 && xty_eqb r1 r2
  | TComposite k1 i1 e1 f1 n1, TComposite k2 i2 e2 f2 n2 =>
      ckind_eqb k1 k2 && str_eqb i1 i2 && xty_eqb e1 e2 &&
      list_eqb (fun x y => str_eqb (fst x) (fst y) && xty_eqb (snd x) (snd y)) f1 f2 &&
      list_eqb (list_eqb param_eqb) n1 n2
  | TRef x, TRef y => str_eqb x y
  | _, _ => false
  end.

Definition xparam_eqb (p q : xparam) : bool :=
  str_eqb (fst (fst p)) (fst (fst q)) && str_eqb (snd (fst p)) (snd (fst q)) && xty_eqb (snd p) (snd q).

Fixpoint xval_eqb (a b : xval) {struct a} : bool :=
  match a, b with
  | VVoid, VVoid => true
  | VBool x, VBool y => Bool.eqb x y
  | VString x, VString y => str_eqb x y
  | VChar x, VChar y => str_eqb x y
  | VAddress x, VAddress y => x =? y
  | VNum k x, VNum k' y => nkind_eqb k k' && (x =? y)
  | VOptional None, VOptional None => true
  | VOptional (Some x), VOptional (Some y) => xval_eqb x y
  | VArray t l, VArray t' l' => xty_eqb t t' && list_eqb xval_eqb l l'
  | VDict t l, VDict t' l' =>
      xty_eqb t t' && list_eqb (fun x y => xval_eqb (fst x) (fst y) && xval_eqb (snd x) (snd y)) l l'
  | VRange t x y z, VRange t' x' y' z' => xty_eqb t t' && xval_eqb x x' && xval_eqb y y' && xval_eqb z z'
  | VComposite k i e f n v, VComposite k' i' e' f' n' v' =>
      ckind_eqb k k' && str_eqb i i' && xty_eqb e e' &&
      list_eqb (fun x y => str_eqb (fst x) (fst y) && xty_eqb (snd x) (snd y)) f f' &&
      list_eqb (list_eqb xparam_eqb) n n' && list_eqb xval_eqb v v'
  | VPath d i, VPath d' i' => (d =? d') && str_eqb i i'
  | VType t, VType t' => xty_eqb t t'
  | VCap i a t, VCap i' a' t' => (i =? i') && (a =? a') && xty_eqb t t'
  | VFunc t, VFunc t' => xty_eqb t t'
  | _, _ => false
  end.

Fixpoint json_eqb (a b : json) {struct a} : bool :=
  match a, b with
  | JNull, JNull => true
  | JBool x, JBool y => Bool.eqb x y
  | JStr x, JStr y => str_eqb x y
  | JNum x, JNum y => x =? y
  | JArr l, JArr l' => list_eqb json_eqb l l'
  | JObj m, JObj m' => list_eqb (fun x y => str_eqb (fst x) (fst y) && json_eqb (snd x) (snd y)) m m'
  | _, _ => false
  end.

(* decode.go:simpleTypes as observed on the pinned tree; compared with the real table on
   every run (case CSimpleTbl) *)
Definition simple_names : list str := Eval vm_compute in map sc
  ["<<invalid>>"; "Account"; "Account.AccountCapabilities"; "Account.Capabilities";
   "Account.Contracts"; "Account.Inbox"; "Account.Keys"; "Account.Storage";
   "Account.StorageCapabilities"; "AccountCapabilities"; "AccountCapabilityController";
   "AccountMapping"; "AddContract"; "AddKey"; "Address"; "Any"; "AnyResource";
   "AnyResourceAttachment"; "AnyStruct"; "AnyStructAttachment"; "Block"; "Bool"; "BorrowValue";
   "Bytes"; "Capabilities"; "CapabilitiesMapping"; "CapabilityPath"; "Character";
   "ClaimInboxCapability"; "Contracts"; "CopyValue"; "DeployedContract"; "Fix128"; "Fix64";
   "FixedPoint"; "FixedSizeUnsignedInteger"; "GetAccountCapabilityController";
   "GetStorageCapabilityController"; "HashableStruct"; "Identity"; "Inbox"; "Insert"; "Int";
   "Int128"; "Int16"; "Int256"; "Int32"; "Int64"; "Int8"; "Integer";
   "IssueAccountCapabilityController"; "IssueStorageCapabilityController"; "Keys"; "LoadValue";
   "Mutate"; "Never"; "Number"; "Path"; "PrivatePath"; "PublicPath"; "PublishCapability";
   "PublishInboxCapability"; "Remove"; "RemoveContract"; "RevokeKey"; "SaveValue";
   "SignedFixedPoint"; "SignedInteger"; "SignedNumber"; "Storable"; "Storage";
   "StorageCapabilities"; "StorageCapabilityController"; "StoragePath"; "String";
   "StringBuilder"; "Type"; "UFix128"; "UFix64"; "UInt"; "UInt128"; "UInt16"; "UInt256";
   "UInt32"; "UInt64"; "UInt8"; "UnpublishCapability"; "UnpublishInboxCapability";
   "UpdateContract"; "Void"; "Word128"; "Word16"; "Word256"; "Word32"; "Word64"; "Word8"].
Definition is_simple_tbl (s : str) : bool := str_mem s simple_names.

Fixpoint assoc_tid (tbl : list (str * option str)) (s : str) : option str :=
  match tbl with
  | [] => None
  | (k, v) :: r => if str_eqb s k then v else assoc_tid r s
  end.

Inductive jcase : Type :=
| CEnc (v : xval) (observed : res json)
      (* json.Encode(v) parsed to a tree *)
| CRound (v : xval) (j : json) (chars : list str) (tids : list (str * option str)) (observed : res xval)
      (* json.Encode(v) = j and json.Decode(j) = observed *)
| CDec (j : json) (chars : list str) (tids : list (str * option str)) (observed : res xval)
      (* json.Decode of the document j; chars: strings accepted by sema.IsValidCharacter;
         tids: result of decodeCompositeTypeID for the strings in the document *)
| CTyId (t : xty) (observed : str)
      (* cadence.Type.ID() *)
| CSimpleTbl (names : list str).
      (* sorted list of kinds accepted as simple types by the real decoder *)

Definition check_case (c : jcase) : bool :=
  match c with
  | CEnc v obs => res_eqb json_eqb (json_encode v) obs
  | CRound v j chars tids obs =>
      res_eqb json_eqb (json_encode v) (Ok j) &&
      res_eqb xval_eqb (json_decode (fun s => str_mem s chars) (assoc_tid tids) is_simple_tbl j) obs
  | CDec j chars tids obs =>
      res_eqb xval_eqb (json_decode (fun s => str_mem s chars) (assoc_tid tids) is_simple_tbl j) obs
  | CTyId t obs => str_eqb (ty_id t) obs
  | CSimpleTbl names => list_eqb str_eqb (sort_by str_leb simple_names) names
  end.
