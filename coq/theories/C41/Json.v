(* Code-shaped model of encoding/json/encode.go (Prepare / PrepareType) and
   encoding/json/decode.go (decodeValue / decodeType) over JSON trees.
   JSON text <-> tree (Go encoding/json) is outside the model. *)
From CV Require Export C41.Values.
From Coq Require Import String.
Local Open Scope string_scope.
Local Open Scope Z_scope.
Local Open Scope list_scope.

(* ------------------------------------------------------------------ JSON trees *)
Inductive json : Type :=
| JNull
| JBool (b : bool)
| JStr (s : str)
| JNum (z : Z)                      (* integer literal *)
| JArr (l : list json)
| JObj (m : list (str * json)).     (* members in document order *)

(* keys *)
Definition kType := Eval vm_compute in sc "type".
Definition kKind := Eval vm_compute in sc "kind".
Definition kValue := Eval vm_compute in sc "value".
Definition kKey := Eval vm_compute in sc "key".
Definition kName := Eval vm_compute in sc "name".
Definition kFields := Eval vm_compute in sc "fields".
Definition kInitializers := Eval vm_compute in sc "initializers".
Definition kId := Eval vm_compute in sc "id".
Definition kBorrowType := Eval vm_compute in sc "borrowType".
Definition kDomain := Eval vm_compute in sc "domain".
Definition kIdentifier := Eval vm_compute in sc "identifier".
Definition kStaticType := Eval vm_compute in sc "staticType".
Definition kAddress := Eval vm_compute in sc "address".
Definition kPath := Eval vm_compute in sc "path".
Definition kAuthorization := Eval vm_compute in sc "authorization".
Definition kEntitlements := Eval vm_compute in sc "entitlements".
Definition kSize := Eval vm_compute in sc "size".
Definition kTypeID := Eval vm_compute in sc "typeID".
Definition kTypes := Eval vm_compute in sc "types".
Definition kLabel := Eval vm_compute in sc "label".
Definition kParameters := Eval vm_compute in sc "parameters".
Definition kTypeParameters := Eval vm_compute in sc "typeParameters".
Definition kReturn := Eval vm_compute in sc "return".
Definition kTypeBound := Eval vm_compute in sc "typeBound".
Definition kPurity := Eval vm_compute in sc "purity".
Definition kFunctionType := Eval vm_compute in sc "functionType".
Definition kElement := Eval vm_compute in sc "element".
Definition kStart := Eval vm_compute in sc "start".
Definition kEnd := Eval vm_compute in sc "end".
Definition kStep := Eval vm_compute in sc "step".

(* type / kind strings *)
Definition sVoid := Eval vm_compute in sc "Void".
Definition sOptional := Eval vm_compute in sc "Optional".
Definition sBool := Eval vm_compute in sc "Bool".
Definition sCharacter := Eval vm_compute in sc "Character".
Definition sString := Eval vm_compute in sc "String".
Definition sAddress := Eval vm_compute in sc "Address".
Definition sArray := Eval vm_compute in sc "Array".
Definition sDictionary := Eval vm_compute in sc "Dictionary".
Definition sPath := Eval vm_compute in sc "Path".
Definition sTypeV := Eval vm_compute in sc "Type".
Definition sCapability := Eval vm_compute in sc "Capability".
Definition sFunction := Eval vm_compute in sc "Function".
Definition sInclusiveRange := Eval vm_compute in sc "InclusiveRange".
Definition sIntersection := Eval vm_compute in sc "Intersection".
Definition sRestriction := Eval vm_compute in sc "Restriction".
Definition sVariableSizedArray := Eval vm_compute in sc "VariableSizedArray".
Definition sConstantSizedArray := Eval vm_compute in sc "ConstantSizedArray".
Definition sReference := Eval vm_compute in sc "Reference".
Definition sView := Eval vm_compute in sc "view".
Definition sUnauthorized := Eval vm_compute in sc "Unauthorized".
Definition sEntitlementMapAuthorization := Eval vm_compute in sc "EntitlementMapAuthorization".
Definition sEntitlementConjunctionSet := Eval vm_compute in sc "EntitlementConjunctionSet".
Definition sEntitlementDisjunctionSet := Eval vm_compute in sc "EntitlementDisjunctionSet".
Definition sEntitlement := Eval vm_compute in sc "Entitlement".
Definition sEntitlementMap := Eval vm_compute in sc "EntitlementMap".
Definition sStorage := Eval vm_compute in sc "storage".
Definition sPrivate := Eval vm_compute in sc "private".
Definition sPublic := Eval vm_compute in sc "public".
Definition s0x := Eval vm_compute in sc "0x".

(* ================================================================== encoder *)

(* encodeFix64 / encodeUFix64 / format.Fix128 / format.UFix128 *)
Definition fix_str (scale : nat) (v : Z) : str :=
  let f := 10 ^ Z.of_nat scale in
  let integer := Z.quot v f in
  let fraction := Z.rem v f in
  (if (fraction <? 0) && (integer =? 0) then [cMinus] else []) ++
  print_int integer ++ [cDot] ++ print_fixed scale (Z.abs fraction).

Definition num_str (k : nkind) (z : Z) : str :=
  match nk_scale k with
  | Some s => fix_str s z
  | None => print_int z
  end.

(* encodeBytes(address.Bytes()): "0x%x" of 8 bytes *)
Definition addr_str (a : Z) : str := s0x ++ print_hex_fixed 16 a.

Definition domain_name (d : Z) : str :=
  if d =? 1 then sStorage else if d =? 2 then sPrivate else sPublic.

Definition val_obj (ty : str) (v : json) : json := JObj [(kValue, v); (kType, JStr ty)].

Definition enc_entitlement (kind : str) (tid : str) : json :=
  JObj [(kType, JNull); (kKind, JStr kind); (kTypeID, JStr tid); (kFields, JNull); (kInitializers, JNull)].

Definition enc_auth (a : xauth) : json :=
  match a with
  | AUnauth => JObj [(kKind, JStr sUnauthorized); (kEntitlements, JNull)]
  | AMap tid => JObj [(kKind, JStr sEntitlementMapAuthorization);
                      (kEntitlements, JArr [enc_entitlement sEntitlementMap tid])]
  | ASet cj ents =>
      JObj [(kKind, JStr (if cj then sEntitlementConjunctionSet else sEntitlementDisjunctionSet));
            (kEntitlements, match ents with
                            | [] => JNull       (* nil slice *)
                            | _ => JArr (map (enc_entitlement sEntitlement) ents)
                            end)]
  end.

(* PrepareType.  Repeated composite pointers are [TRef] nodes (see Values.v), so the
   "results" set of the Go code is implicit in the tree. *)
Fixpoint enc_ty (t : xty) : json :=
  match t with
  | TNil => JStr []
  | TRef tid => JStr tid
  | TSimple n => JObj [(kKind, JStr n)]
  | TOptional t1 => JObj [(kType, enc_ty t1); (kKind, JStr sOptional)]
  | TVarArray t1 => JObj [(kType, enc_ty t1); (kKind, JStr sVariableSizedArray)]
  | TConstArray n t1 => JObj [(kType, enc_ty t1); (kKind, JStr sConstantSizedArray); (kSize, JNum n)]
  | TDict k v => JObj [(kKey, enc_ty k); (kValue, enc_ty v); (kKind, JStr sDictionary)]
  | TRange t1 => JObj [(kElement, enc_ty t1); (kKind, JStr sInclusiveRange)]
  | TCapability t1 => JObj [(kType, enc_ty t1); (kKind, JStr sCapability)]
  | TReference a t1 => JObj [(kType, enc_ty t1); (kKind, JStr sReference); (kAuthorization, enc_auth a)]
  | TIntersection ts =>
      JObj [(kKind, JStr sIntersection); (kTypeID, JStr (ty_id t)); (kTypes, JArr (map enc_ty ts))]
  | TFunction view tps ps ret =>
      JObj [(kKind, JStr sFunction); (kTypeID, JStr (ty_id t));
            (kTypeParameters,
             JArr (map (fun tp => JObj [(kName, JStr (fst tp));
                                        (kTypeBound, if is_tnil (snd tp) then JNull else enc_ty (snd tp))]) tps));
            (kParameters,
             JArr (map (fun p => JObj [(kType, enc_ty (snd p)); (kLabel, JStr (fst (fst p)));
                                       (kId, JStr (snd (fst p)))]) ps));
            (kReturn, enc_ty ret);
            (kPurity, JStr (if view then sView else []))]
  | TComposite k tid extra fields inits =>
      JObj [(kType, enc_ty extra); (kKind, JStr (ckind_name k)); (kTypeID, JStr tid);
            (kFields, JArr (map (fun f => JObj [(kType, enc_ty (snd f)); (kId, JStr (fst f))]) fields));
            (kInitializers,
             JArr (map (fun ps =>
                JArr (map (fun p => JObj [(kType, enc_ty (snd p)); (kLabel, JStr (fst (fst p)));
                                          (kId, JStr (snd (fst p)))]) ps)) inits))]
  end.

Fixpoint zip_fields (names : list str) (vals : list json) : list json :=
  match vals with
  | [] => []
  | v :: r =>
      match names with
      | [] => JObj [(kValue, v); (kName, JStr [])] :: zip_fields [] r
      | n :: ns => JObj [(kValue, v); (kName, JStr n)] :: zip_fields ns r
      end
  end.

(* Prepare *)
Fixpoint enc_val (v : xval) : json :=
  match v with
  | VVoid => JObj [(kType, JStr sVoid)]
  | VOptional None => val_obj sOptional JNull
  | VOptional (Some v1) => val_obj sOptional (enc_val v1)
  | VBool b => val_obj sBool (JBool b)
  | VChar s => val_obj sCharacter (JStr s)
  | VString s => val_obj sString (JStr s)
  | VAddress a => val_obj sAddress (JStr (addr_str a))
  | VNum k z => val_obj (nk_name k) (JStr (num_str k z))
  | VArray _ l => val_obj sArray (JArr (map enc_val l))
  | VDict _ l =>
      val_obj sDictionary
        (JArr (map (fun kv => JObj [(kKey, enc_val (fst kv)); (kValue, enc_val (snd kv))]) l))
  | VRange _ a b c =>
      val_obj sInclusiveRange (JObj [(kStart, enc_val a); (kEnd, enc_val b); (kStep, enc_val c)])
  | VComposite k tid _ ftys _ fvals =>
      val_obj (ckind_name k)
        (JObj [(kId, JStr tid); (kFields, JArr (zip_fields (map fst ftys) (map enc_val fvals)))])
  | VPath d id => val_obj sPath (JObj [(kDomain, JStr (domain_name d)); (kIdentifier, JStr id)])
  | VType t => val_obj sTypeV (JObj [(kStaticType, enc_ty t)])
  | VCap id addr b =>
      val_obj sCapability
        (JObj [(kBorrowType, enc_ty b); (kAddress, JStr (addr_str addr)); (kId, JStr (print_int id))])
  | VFunc t => val_obj sFunction (JObj [(kFunctionType, enc_ty t)])
  end.

(* prepareComposite fails when there are fewer field values than declared fields; interface
   kinds are not value kinds *)
Fixpoint enc_ok (v : xval) : bool :=
  match v with
  | VOptional (Some v1) => enc_ok v1
  | VArray _ l => forallb enc_ok l
  | VDict _ l => forallb (fun kv => enc_ok (fst kv) && enc_ok (snd kv)) l
  | VRange _ a b c => enc_ok a && enc_ok b && enc_ok c
  | VComposite k _ _ ftys _ fvals =>
      negb (ckind_is_interface k) && (Nat.leb (List.length ftys) (List.length fvals)) && forallb enc_ok fvals
  | _ => true
  end.

Definition json_encode (v : xval) : res json :=
  if enc_ok v then Ok (enc_val v) else Err UserOther.

(* ================================================================== decoder *)

(* Outcomes: [Ok v]; [Err UserOther]: an error is returned; [Err Internal]: a Go runtime panic
   (slice bounds) occurs inside the decoder, is recovered by Decode's deferred handler (a
   runtime.Error is an error) and returned as an error; [Err Crash]: a panic with a non-error
   value, which the handler re-panics: it escapes Decode. *)

Fixpoint has_key (k : str) (m : list (str * json)) : bool :=
  match m with
  | [] => false
  | (k', _) :: r => str_eqb k k' || has_key k r
  end.

(* number of distinct keys: len(map) after encoding/json has built the Go map *)
Fixpoint nkeys (m : list (str * json)) : Z :=
  match m with
  | [] => 0
  | (k, _) :: r => (if has_key k r then 0 else 1) + nkeys r
  end.

(* obj[key] with f applied to the member (the last one wins for duplicate keys, as in
   encoding/json); [absent] when the key is missing *)
Definition getk_gen {A} (f : json -> res A) (absent : res A) (k : str)
  : list (str * json) -> res A :=
  fix go (m : list (str * json)) : res A :=
    match m with
    | [] => absent
    | (k', v) :: r => if str_eqb k k' && negb (has_key k r) then f v else go r
    end.
Definition getk {A} (f : json -> res A) (k : str) (m : list (str * json)) : res A :=
  getk_gen f (Err UserOther) k m.

Definition mapM {A B} (f : A -> res B) : list A -> res (list B) :=
  fix go (l : list A) : res (list B) :=
    match l with
    | [] => Ok []
    | x :: r => let* y := f x in let* ys := go r in Ok (y :: ys)
    end.

(* state-threading map: the "results" map of decodeType is shared by all sub-decodings *)
Definition mapM_st {A B S} (f : S -> A -> res (B * S)) : S -> list A -> res (list B * S) :=
  fix go (s : S) (l : list A) : res (list B * S) :=
    match l with
    | [] => Ok ([], s)
    | x :: r =>
        let* ys := f s x in
        let* rs := go (snd ys) r in
        Ok (fst ys :: fst rs, snd rs)
    end.

Definition to_obj (j : json) : res (list (str * json)) :=
  match j with JObj m => Ok m | _ => Err UserOther end.
Definition to_str (j : json) : res str :=
  match j with JStr s => Ok s | _ => Err UserOther end.
Definition to_arr (j : json) : res (list json) :=
  match j with JArr l => Ok l | _ => Err UserOther end.
Definition to_bool (j : json) : res bool :=
  match j with JBool b => Ok b | _ => Err UserOther end.

(* float64 of an integer literal (round to nearest even, 53 bits) then uint(): exact for
   0 <= result < 2^64; outside that range the Go conversion is implementation-defined and
   the correspondence run does not use the model *)
Definition round53 (z : Z) : Z :=
  if z <? 2 ^ 53 then z
  else let e := Z.log2 z - 52 in
       let q := z / 2 ^ e in
       let r := z mod 2 ^ e in
       let half := 2 ^ (e - 1) in
       let q' := if r <? half then q else if half <? r then q + 1 else if Z.even q then q else q + 1 in
       q' * 2 ^ e.
Definition to_uint (j : json) : res Z :=
  match j with JNum z => Ok (round53 z) | _ => Err UserOther end.

(* ---- numbers *)
Inductive pmode := PStrconvInt | PStrconvUint | PBig | PFix.
Definition nk_pmode (k : nkind) : pmode :=
  match k with
  | NInt8 | NInt16 | NInt32 | NInt64 => PStrconvInt
  | NUInt8 | NUInt16 | NUInt32 | NUInt64 | NWord8 | NWord16 | NWord32 | NWord64 => PStrconvUint
  | NFix64 | NFix128 | NUFix64 | NUFix128 => PFix
  | _ => PBig
  end.
Definition nk_signed (k : nkind) : bool :=
  match nk_min k with Some 0 => false | _ => true end.
Definition nk_bits (k : nkind) : Z :=
  match k with
  | NFix64 | NUFix64 => 64
  | _ => 128
  end.

(* fixedpoint.CheckRange *)
Definition check_range (negative : bool) (unsigned fractional minInt minFrac maxInt maxFrac : Z) : bool :=
  if negative && (minInt =? 0) then false else
  let integerValue := if negative then - unsigned else unsigned in
  let lowOk :=
    if integerValue <? minInt then false
    else if integerValue =? minInt then
      (if minInt <? 0 then negb (minFrac <? fractional) else negb (fractional <? minFrac))
    else true in
  let highOk :=
    if maxInt <? integerValue then false
    else if integerValue =? maxInt then
      (if 0 <=? maxInt then negb (maxFrac <? fractional) else negb (fractional <? maxFrac))
    else true in
  lowOk && highOk.

Definition wrap_signed (bits z : Z) : Z :=
  let m := z mod 2 ^ bits in if m <? 2 ^ (bits - 1) then m else m - 2 ^ bits.

(* fixedpoint.parseFixedPoint + checkAndConvertFixedPoint + conversion to the raw value *)
Definition parse_fixed (k : nkind) (s : str) : res Z :=
  match nk_scale k, nk_min k, nk_max k with
  | Some target, Some mn, Some mx =>
      match split_on cDot s with
      | [istr; fstr] =>
          let negative := match s with c :: _ => c =? cMinus | [] => false end in
          match parse_int istr with
          | None => Err UserOther
          | Some integer =>
              match fstr with
              | c :: _ => if (c =? cPlus) || (c =? cMinus) then Err UserOther else
                  match parse_digits fstr with
                  | None => Err UserOther
                  | Some fractional =>
                      let unsigned := Z.abs integer in
                      if negative && negb (nk_signed k) then Err UserOther else
                      let scale := List.length fstr in
                      if Nat.ltb target scale then Err UserOther else
                      let f := 10 ^ Z.of_nat target in
                      if negb (check_range negative unsigned fractional
                                 (Z.quot mn f) (Z.abs (Z.rem mn f)) (Z.quot mx f) (Z.abs (Z.rem mx f)))
                      then Err UserOther else
                      let r := unsigned * f + fractional * 10 ^ Z.of_nat (target - scale) in
                      let r := if negative then - r else r in
                      Ok (if nk_signed k then wrap_signed (nk_bits k) r else r mod 2 ^ nk_bits k)
                  end
              | [] => Err UserOther
              end
          end
      | _ => Err UserOther
      end
  | _, _, _ => Err UserOther
  end.

Definition parse_num (k : nkind) (s : str) : res Z :=
  match nk_pmode k with
  | PStrconvInt | PBig =>
      match parse_int s with
      | Some z => if nk_in_range k z then Ok z else Err UserOther
      | None => Err UserOther
      end
  | PStrconvUint =>
      match parse_uint s with
      | Some z => if nk_in_range k z then Ok z else Err UserOther
      | None => Err UserOther
      end
  | PFix => parse_fixed k s
  end.

(* decodeAddress: "0x" prefix, hex.DecodeString, BytesToAddress *)
Definition dec_address (j : json) : res Z :=
  let* s := to_str j in
  match s with
  | c1 :: c2 :: r =>
      if negb ((c1 =? 48) && (c2 =? 120)) then Err UserOther
      else match parse_hex r with
           | None => Err UserOther
           | Some z =>
               if Nat.odd (List.length r) then Err UserOther
               else if Nat.ltb 16 (List.length r) then Err Internal  (* copy(a[8-len(b):8], b): slice bounds *)
               else Ok z
           end
  | _ => Err UserOther
  end.

(* value "type" strings *)
Inductive vkind :=
| VKOptional | VKBool | VKCharacter | VKString | VKAddress | VKNum (k : nkind)
| VKArray | VKDictionary | VKComposite (k : ckind) | VKInclusiveRange | VKPath | VKType
| VKCapability | VKFunction.

Definition find_nkind (s : str) : option nkind :=
  find (fun k => str_eqb s (nk_name k)) all_nkinds.

Definition vkind_of_str (s : str) : option vkind :=
  if str_eqb s sOptional then Some VKOptional
  else if str_eqb s sBool then Some VKBool
  else if str_eqb s sCharacter then Some VKCharacter
  else if str_eqb s sString then Some VKString
  else if str_eqb s sAddress then Some VKAddress
  else if str_eqb s sArray then Some VKArray
  else if str_eqb s sDictionary then Some VKDictionary
  else if str_eqb s (ckind_name KResource) then Some (VKComposite KResource)
  else if str_eqb s (ckind_name KStruct) then Some (VKComposite KStruct)
  else if str_eqb s (ckind_name KEvent) then Some (VKComposite KEvent)
  else if str_eqb s (ckind_name KContract) then Some (VKComposite KContract)
  else if str_eqb s sInclusiveRange then Some VKInclusiveRange
  else if str_eqb s sPath then Some VKPath
  else if str_eqb s sTypeV then Some VKType
  else if str_eqb s sCapability then Some VKCapability
  else if str_eqb s (ckind_name KEnum) then Some (VKComposite KEnum)
  else if str_eqb s sFunction then Some VKFunction
  else option_map VKNum (find_nkind s).

(* type "kind" strings of decodeType's switch *)
Inductive tkind :=
| TKFunction | TKIntersection | TKOptional | TKRestriction | TKVarArray | TKCapability
| TKDictionary | TKInclusiveRange | TKConstArray | TKReference | TKOther.

Definition tkind_of_str (s : str) : tkind :=
  if str_eqb s sFunction then TKFunction
  else if str_eqb s sIntersection then TKIntersection
  else if str_eqb s sOptional then TKOptional
  else if str_eqb s sRestriction then TKRestriction
  else if str_eqb s sVariableSizedArray then TKVarArray
  else if str_eqb s sCapability then TKCapability
  else if str_eqb s sDictionary then TKDictionary
  else if str_eqb s sInclusiveRange then TKInclusiveRange
  else if str_eqb s sConstantSizedArray then TKConstArray
  else if str_eqb s sReference then TKReference
  else TKOther.

Definition ckind_of_str (s : str) : option ckind :=
  find (fun k => str_eqb s (ckind_name k)) all_ckinds.

Section Decoder.
  (* External behaviour, supplied per run by the correspondence harness:
     sema.IsValidCharacter (Unicode grapheme segmentation);
     common.DecodeTypeID + sema.NativeCompositeTypes: [tid_canon s] is the ID of the type the
     decoder builds from the type ID string s, None when the string is rejected;
     the table of simple (primitive) type kinds of decode.go:simpleTypes. *)
  Variable valid_char : str -> bool.
  Variable tid_canon : str -> option str.
  Variable is_simple : str -> bool.

  (* decodeCompositeTypeID: (raw string, ID of the resulting type) *)
  Definition dec_tid (j : json) : res (str * str) :=
    let* s := to_str j in
    match tid_canon s with
    | Some c => Ok (s, c)
    | None => Err UserOther
    end.

  Definition dec_entitlement_ids (j : json) : res (list str) :=
    let* l := to_arr j in
    mapM (fun e => let* m := to_obj e in getk to_str kTypeID m) l.

  Definition dec_auth (j : json) : res xauth :=
    let* m := to_obj j in
    let* kind := getk to_str kKind m in
    if str_eqb kind sUnauthorized then Ok AUnauth
    else if str_eqb kind sEntitlementMapAuthorization then
      let* ids := getk dec_entitlement_ids kEntitlements m in
      match ids with
      | [i] => Ok (AMap i)
      | _ => Err UserOther
      end
    else if str_eqb kind sEntitlementConjunctionSet then
      let* ids := getk dec_entitlement_ids kEntitlements m in Ok (ASet true ids)
    else if str_eqb kind sEntitlementDisjunctionSet then
      let* ids := getk dec_entitlement_ids kEntitlements m in Ok (ASet false ids)
    else Err UserOther.

  Definition st := list str.   (* keys of typeDecodingResults (raw type ID strings) *)

  (* sub-decoders of decodeType, parameterised by the recursive call *)
  Definition dec_param_with (rec : st -> json -> res (xty * st)) (s : st) (pj : json) : res (xparam * st) :=
    match pj with
    | JObj m =>
        let* label := getk to_str kLabel m in
        let* id := getk to_str kId m in
        let* ts := getk (rec s) kType m in
        Ok ((label, id, fst ts), snd ts)
    | _ => Err UserOther
    end.
  Definition dec_params_with (rec : st -> json -> res (xty * st)) (s : st) (j : json) : res (list xparam * st) :=
    match j with
    | JArr l => mapM_st (dec_param_with rec) s l
    | _ => Err UserOther
    end.
  Definition dec_inits_with (rec : st -> json -> res (xty * st)) (s : st) (j : json) : res (list (list xparam) * st) :=
    match j with
    | JArr l => mapM_st (dec_params_with rec) s l
    | _ => Err UserOther
    end.
  Definition dec_tparam_with (rec : st -> json -> res (xty * st)) (s : st) (tpj : json) : res ((str * xty) * st) :=
    match tpj with
    | JObj tm =>
        let* name := getk to_str kName tm in
        let* bs := getk_gen (rec s) (Ok (TNil, s)) kTypeBound tm in
        Ok ((name, fst bs), snd bs)
    | _ => Err UserOther
    end.
  Definition dec_tparams_with (rec : st -> json -> res (xty * st)) (s : st) (tj : json) : res (list (str * xty) * st) :=
    match tj with
    | JNull => Ok ([], s)
    | JArr l => mapM_st (dec_tparam_with rec) s l
    | _ => Err UserOther
    end.
  Definition dec_field_with (rec : st -> json -> res (xty * st)) (s : st) (fj : json) : res ((str * xty) * st) :=
    match fj with
    | JObj fm =>
        let* id := getk to_str kId fm in
        let* ts := getk (rec s) kType fm in
        Ok ((id, fst ts), snd ts)
    | _ => Err UserOther
    end.
  Definition dec_fields_with (rec : st -> json -> res (xty * st)) (s : st) (fj : json) : res (list (str * xty) * st) :=
    match fj with
    | JArr l => mapM_st (dec_field_with rec) s l
    | _ => Err UserOther
    end.
  Definition dec_types_with (rec : st -> json -> res (xty * st)) (s : st) (tj : json) : res (list xty * st) :=
    match tj with
    | JArr l => mapM_st rec s l
    | _ => Err UserOther
    end.

  (* decodeType; the state is the set of keys of the results map *)
  Fixpoint dec_ty (s : st) (j : json) {struct j} : res (xty * st) :=
    match j with
    | JStr str0 =>
        match str0 with
        | [] => Ok (TNil, s)
        | _ => if str_mem str0 s
               then Ok (TRef (match tid_canon str0 with Some c => c | None => str0 end), s)
               else Err UserOther    (* toObject(string) *)
        end
    | JObj m =>
        let* kind := getk to_str kKind m in
        match tkind_of_str kind with
        | TKFunction =>
            let* view := getk_gen (fun pj => let* p := to_str pj in Ok (str_eqb p sView)) (Ok false) kPurity m in
            let* tps := getk_gen (dec_tparams_with dec_ty s) (Ok ([], s)) kTypeParameters m in
            let* ps := getk (dec_params_with dec_ty (snd tps)) kParameters m in
            let* rs := getk (dec_ty (snd ps)) kReturn m in
            Ok (TFunction view (fst tps) (fst ps) (fst rs), snd rs)
        | TKIntersection =>
            let* ts := getk (dec_types_with dec_ty s) kTypes m in
            Ok (TIntersection (fst ts), snd ts)
        | TKOptional =>
            let* ts := getk (dec_ty s) kType m in Ok (TOptional (fst ts), snd ts)
        | TKRestriction => Err Crash        (* panic("Restriction kind is not supported") *)
        | TKVarArray =>
            let* ts := getk (dec_ty s) kType m in Ok (TVarArray (fst ts), snd ts)
        | TKCapability =>
            let* ts := getk (dec_ty s) kType m in Ok (TCapability (fst ts), snd ts)
        | TKDictionary =>
            let* ks := getk (dec_ty s) kKey m in
            let* vs := getk (dec_ty (snd ks)) kValue m in
            Ok (TDict (fst ks) (fst vs), snd vs)
        | TKInclusiveRange =>
            let* ts := getk (dec_ty s) kElement m in Ok (TRange (fst ts), snd ts)
        | TKConstArray =>
            let* n := getk to_uint kSize m in
            let* ts := getk (dec_ty s) kType m in
            Ok (TConstArray n (fst ts), snd ts)
        | TKReference =>
            let* ts := getk (dec_ty s) kType m in
            let* a := getk dec_auth kAuthorization m in
            Ok (TReference a (fst ts), snd ts)
        | TKOther =>
            if is_simple kind then Ok (TSimple kind, s) else
            (* decodeNominalType *)
            let* inits := getk (dec_inits_with dec_ty s) kInitializers m in
            let* tid := getk dec_tid kTypeID m in
            match ckind_of_str kind with
            | None => Err UserOther
            | Some k =>
                let* es :=
                  (if ckind_has_extra k then getk (dec_ty (snd inits)) kType m
                   else Ok (TNil, snd inits)) in
                if ckind_eqb k KEvent && negb (Nat.eqb (List.length (fst inits)) 1)
                then Err UserOther else
                (* results[typeID] = result *)
                let* fs := getk (dec_fields_with dec_ty (fst tid :: snd es)) kFields m in
                Ok (TComposite k (snd tid) (fst es) (fst fs) (fst inits), snd fs)
            end
        end
    | _ => Err UserOther
    end.

  Definition dec_ty_top (j : json) : res xty :=
    let* ts := dec_ty [] j in Ok (fst ts).

  Definition domain_of_name (s : str) : Z :=
    if str_eqb s sStorage then 1 else if str_eqb s sPrivate then 2
    else if str_eqb s sPublic then 3 else 0.

  Definition dec_pair_with (rec : json -> res xval) (pj : json) : res (xval * xval) :=
    match pj with
    | JObj pm =>
        let* k := getk rec kKey pm in
        let* v := getk rec kValue pm in
        Ok (k, v)
    | _ => Err UserOther
    end.
  Definition dec_cfield_with (rec : json -> res xval) (cf : json) : res (str * xval) :=
    match cf with
    | JObj fm =>
        let* name := getk to_str kName fm in
        let* v := getk rec kValue fm in
        Ok (name, v)
    | _ => Err UserOther
    end.
  Definition dec_cfields_with (rec : json -> res xval) (fj : json) : res (list (str * xval)) :=
    match fj with
    | JArr l => mapM (dec_cfield_with rec) l
    | _ => Err UserOther
    end.

  (* the switch of decodeValue on the "type" string, applied to the "value" member *)
  Definition dec_value_with (rec : json -> res xval) (ts : str) (vj : json) : res xval :=
    match vkind_of_str ts with
    | None => Err UserOther
    | Some VKOptional =>
        match vj with
        | JNull => Ok (VOptional None)
        | _ => let* v := rec vj in Ok (VOptional (Some v))
        end
    | Some VKBool => let* b := to_bool vj in Ok (VBool b)
    | Some VKCharacter =>
        let* s := to_str vj in if valid_char s then Ok (VChar s) else Err UserOther
    | Some VKString => let* s := to_str vj in Ok (VString s)
    | Some VKAddress => let* a := dec_address vj in Ok (VAddress a)
    | Some (VKNum k) => let* s := to_str vj in let* z := parse_num k s in Ok (VNum k z)
    | Some VKArray =>
        match vj with
        | JArr l => let* vs := mapM rec l in Ok (VArray TNil vs)
        | _ => Err UserOther
        end
    | Some VKDictionary =>
        match vj with
        | JArr l => let* ps := mapM (dec_pair_with rec) l in Ok (VDict TNil ps)
        | _ => Err UserOther
        end
    | Some (VKComposite k) =>
        match vj with
        | JObj cm =>
            let* tid := getk dec_tid kId cm in
            let* fs := getk (dec_cfields_with rec) kFields cm in
            Ok (VComposite k (snd tid) TNil
                  (map (fun nv => (fst nv, type_of (snd nv))) fs)
                  (if ckind_eqb k KEvent then [[]] else [])
                  (map snd fs))
        | _ => Err UserOther
        end
    | Some VKInclusiveRange =>
        match vj with
        | JObj rm =>
            let* a := getk rec kStart rm in
            let* b := getk rec kEnd rm in
            let* c := getk rec kStep rm in
            Ok (VRange (TRange (type_of a)) a b c)
        | _ => Err UserOther
        end
    | Some VKPath =>
        let* pm := to_obj vj in
        let* d := getk (fun dj => let* s := to_str dj in Ok (domain_of_name s)) kDomain pm in
        let* id := getk to_str kIdentifier pm in
        if d =? 0 then Err UserOther else Ok (VPath d id)
    | Some VKType =>
        let* tm := to_obj vj in
        let* t := getk dec_ty_top kStaticType tm in
        Ok (VType t)
    | Some VKCapability =>
        let* cm := to_obj vj in
        let* addr := getk dec_address kAddress cm in
        let* b := getk dec_ty_top kBorrowType cm in
        if has_key kPath cm then Err UserOther else
        let* id := getk (fun ij => let* s := to_str ij in parse_num NUInt64 s) kId cm in
        Ok (VCap id addr b)
    | Some VKFunction =>
        let* fm := to_obj vj in
        let* t := getk dec_ty_top kFunctionType fm in
        match t with
        | TFunction _ _ _ _ => Ok (VFunc t)
        | _ => Err UserOther
        end
    end.

  (* decodeValue *)
  Fixpoint dec_val (j : json) : res xval :=
    match j with
    | JObj m =>
        let* ts := getk to_str kType m in
        if str_eqb ts sVoid then (if nkeys m =? 1 then Ok VVoid else Err UserOther)
        else if negb (nkeys m =? 2) then Err UserOther
        else getk (dec_value_with dec_val ts) kValue m
    | _ => Err UserOther
    end.

  (* json.Decode after encoding/json has produced the tree; the deferred handler turns
     recovered runtime panics into returned errors and re-panics non-error panic values *)
  Definition json_decode (j : json) : res xval := dec_val j.
End Decoder.
