(* Lemmas about strings, decimal/hex printing and parsing (round trips). *)
From CV Require Import C41.Str.
From Coq Require Import ZifyBool.
Local Open Scope Z_scope.
Local Arguments Z.add : simpl never.
Local Arguments Z.sub : simpl never.
Local Arguments Z.mul : simpl never.
Local Arguments Z.opp : simpl never.
Local Arguments Z.pow : simpl never.
Local Arguments Z.div : simpl never.
Local Arguments Z.modulo : simpl never.
Local Arguments Z.ltb : simpl never.
Local Arguments Z.leb : simpl never.
Local Arguments Z.eqb : simpl never.
Local Arguments Z.of_nat : simpl never.

Lemma str_eqb_refl s : str_eqb s s = true.
Proof. induction s; simpl; [reflexivity|]. rewrite Z.eqb_refl, IHs. reflexivity. Qed.

Lemma str_eqb_eq a b : str_eqb a b = true <-> a = b.
Proof.
  revert b; induction a as [|x a IH]; destruct b as [|y b]; simpl; split; intro H;
    try reflexivity; try discriminate.
  - apply andb_true_iff in H as [H1 H2]. apply Z.eqb_eq in H1. apply IH in H2. subst. reflexivity.
  - inversion H; subst. rewrite Z.eqb_refl. apply str_eqb_refl.
Qed.

Lemma str_eqb_neq a b : a <> b -> str_eqb a b = false.
Proof.
  intro H. destruct (str_eqb a b) eqn:E; [|reflexivity]. apply str_eqb_eq in E. contradiction.
Qed.

(* ------------------------------------------------------------------ decimal *)
Lemma digits_value_app s c : digits_value (s ++ [c]) = digits_value s * 10 + (c - 48).
Proof. unfold digits_value. rewrite fold_left_app. reflexivity. Qed.

Lemma is_digit_char d : 0 <= d < 10 -> is_digit (digit_char d) = true.
Proof. unfold is_digit, digit_char. lia. Qed.

Lemma forallb_app' {A} (f : A -> bool) a b : forallb f (a ++ b) = forallb f a && forallb f b.
Proof. apply forallb_app. Qed.

Lemma print_nat_fuel_spec fuel : forall z,
  0 <= z < 10 * 10 ^ Z.of_nat fuel ->
  digits_value (print_nat_fuel fuel z) = z /\
  forallb is_digit (print_nat_fuel fuel z) = true /\
  print_nat_fuel fuel z <> [].
Proof.
  induction fuel as [|f IH]; intros z Hz.
  - simpl in Hz. cbn [print_nat_fuel].
    destruct (z <? 10) eqn:E; [|lia].
    repeat split; [unfold digits_value, digit_char; simpl; lia | simpl; rewrite is_digit_char by lia; reflexivity | discriminate].
  - cbn [print_nat_fuel]. destruct (z <? 10) eqn:E.
    + repeat split; [unfold digits_value, digit_char; simpl; lia | simpl; rewrite is_digit_char by lia; reflexivity | discriminate].
    + assert (Hp : 10 ^ Z.of_nat (S f) = 10 * 10 ^ Z.of_nat f).
      { rewrite Nat2Z.inj_succ, Z.pow_succ_r by lia. reflexivity. }
      rewrite Hp in Hz.
      assert (Hq : 0 <= z / 10 < 10 * 10 ^ Z.of_nat f).
      { split; [apply Z.div_pos; lia|]. apply Z.div_lt_upper_bound; lia. }
      destruct (IH _ Hq) as (V & D & N).
      pose proof (Z.mod_pos_bound z 10 ltac:(lia)) as Hm.
      repeat split.
      * rewrite digits_value_app, V. unfold digit_char.
        pose proof (Z.div_mod z 10 ltac:(lia)). lia.
      * rewrite forallb_app', D. simpl. rewrite is_digit_char by lia. reflexivity.
      * destruct (print_nat_fuel f (z / 10)); discriminate.
Qed.

Lemma pow2_le_pow10 n : 0 <= n -> 2 ^ n <= 10 ^ n.
Proof. intro H. apply Z.pow_le_mono_l. lia. Qed.

Lemma print_nat_spec z : 0 <= z ->
  digits_value (print_nat z) = z /\ forallb is_digit (print_nat z) = true /\ print_nat z <> [].
Proof.
  intro Hz. unfold print_nat. apply print_nat_fuel_spec.
  split; [lia|].
  destruct (Z.eq_dec z 0) as [->|Hnz].
  - simpl. lia.
  - pose proof (Z.log2_up_nonneg (z + 1)) as Hn.
    rewrite Z2Nat.id by lia.
    pose proof (Z.log2_up_spec (z + 1) ltac:(lia)) as [_ Hu].
    pose proof (pow2_le_pow10 (Z.log2_up (z + 1)) Hn).
    assert (0 < 10 ^ Z.log2_up (z + 1)) by (apply Z.pow_pos_nonneg; lia).
    lia.
Qed.

Lemma parse_digits_print_nat z : 0 <= z -> parse_digits (print_nat z) = Some z.
Proof.
  intro Hz. destruct (print_nat_spec z Hz) as (V & D & N).
  unfold parse_digits. destruct (print_nat z) eqn:E; [contradiction|].
  rewrite D, V. reflexivity.
Qed.

Lemma print_nat_head z : 0 <= z -> exists c r, print_nat z = c :: r /\ is_digit c = true.
Proof.
  intro Hz. destruct (print_nat_spec z Hz) as (_ & D & N).
  destruct (print_nat z) as [|c r]; [contradiction|]. exists c, r. split; [reflexivity|].
  simpl in D. apply andb_true_iff in D. tauto.
Qed.

Lemma parse_int_print_nat z : 0 <= z -> parse_int (print_nat z) = Some z.
Proof.
  intro Hz. destruct (print_nat_head z Hz) as (c & r & E & Hc).
  pose proof (parse_digits_print_nat z Hz) as P. rewrite E in *.
  unfold parse_int. unfold is_digit in Hc.
  replace (c =? cMinus) with false by (unfold cMinus; lia).
  replace (c =? cPlus) with false by (unfold cPlus; lia). exact P.
Qed.

Lemma parse_int_print_int z : parse_int (print_int z) = Some z.
Proof.
  unfold print_int. destruct (z <? 0) eqn:E.
  - unfold parse_int. rewrite Z.eqb_refl. rewrite parse_digits_print_nat by lia.
    simpl. f_equal. lia.
  - apply parse_int_print_nat. lia.
Qed.

Lemma parse_uint_print_int z : 0 <= z -> parse_uint (print_int z) = Some z.
Proof.
  intro Hz. unfold print_int. replace (z <? 0) with false by lia.
  apply parse_digits_print_nat; assumption.
Qed.

(* the first character of a printed integer is '-' exactly for negative numbers *)
Lemma print_int_head z :
  exists c r, print_int z = c :: r /\ (c =? cMinus) = (z <? 0) /\ (c =? cPlus) = false.
Proof.
  unfold print_int. destruct (z <? 0) eqn:E.
  - exists cMinus, (print_nat (- z)). repeat split; reflexivity.
  - destruct (print_nat_head z ltac:(lia)) as (c & r & Hp & Hc). exists c, r.
    unfold is_digit in Hc. unfold cMinus, cPlus. repeat split; [assumption|lia|lia].
Qed.

Lemma print_int_no_dot z : forallb (fun c => negb (c =? cDot)) (print_int z) = true.
Proof.
  assert (H : forall s, forallb is_digit s = true -> forallb (fun c => negb (c =? cDot)) s = true).
  { induction s; simpl; [reflexivity|]. intro H. apply andb_true_iff in H as [H1 H2].
    rewrite IHs by assumption. unfold is_digit, cDot in *. lia. }
  unfold print_int. destruct (z <? 0) eqn:E.
  - cbn [forallb]. rewrite H by (apply print_nat_spec; lia). reflexivity.
  - apply H. apply print_nat_spec. lia.
Qed.

Lemma print_fixed_spec w : forall z, 0 <= z ->
  digits_value (print_fixed w z) = z mod 10 ^ Z.of_nat w /\
  forallb is_digit (print_fixed w z) = true /\
  List.length (print_fixed w z) = w.
Proof.
  induction w as [|w IH]; intros z Hz.
  - simpl. rewrite Z.mod_1_r. repeat split; reflexivity.
  - cbn [print_fixed].
    assert (Hq : 0 <= z / 10) by (apply Z.div_pos; lia).
    destruct (IH _ Hq) as (V & D & L).
    pose proof (Z.mod_pos_bound z 10 ltac:(lia)) as Hm.
    repeat split.
    + rewrite digits_value_app, V. unfold digit_char.
      rewrite Nat2Z.inj_succ, Z.pow_succ_r by lia.
      assert (Hp : 0 < 10 ^ Z.of_nat w) by (apply Z.pow_pos_nonneg; lia).
      rewrite Z.rem_mul_r by lia. lia.
    + rewrite forallb_app', D. simpl. rewrite is_digit_char by lia. reflexivity.
    + rewrite app_length, L. simpl. lia.
Qed.

Lemma digits_no_dot s : forallb is_digit s = true -> forallb (fun c => negb (c =? cDot)) s = true.
Proof.
  induction s; simpl; [reflexivity|]. intro H. apply andb_true_iff in H as [H1 H2].
  rewrite IHs by assumption. unfold is_digit, cDot in *. lia.
Qed.

(* ------------------------------------------------------------------ hex *)
Lemma hex_val_char d : 0 <= d < 16 -> hex_val (hex_char d) = Some d.
Proof.
  intro H. unfold hex_val, hex_char. destruct (d <? 10) eqn:E.
  - replace ((48 <=? 48 + d) && (48 + d <=? 57)) with true by lia. f_equal. lia.
  - replace ((48 <=? 87 + d) && (87 + d <=? 57)) with false by lia.
    replace ((97 <=? 87 + d) && (87 + d <=? 102)) with true by lia. f_equal. lia.
Qed.

Lemma hex_value_acc_app s t acc :
  hex_value_acc acc (s ++ t) =
  match hex_value_acc acc s with Some a => hex_value_acc a t | None => None end.
Proof.
  revert acc; induction s as [|c s IH]; intro acc; simpl; [reflexivity|].
  destruct (hex_val c); [apply IH|reflexivity].
Qed.

Lemma print_hex_fixed_spec w : forall z acc, 0 <= z ->
  hex_value_acc acc (print_hex_fixed w z) = Some (acc * 16 ^ Z.of_nat w + z mod 16 ^ Z.of_nat w) /\
  List.length (print_hex_fixed w z) = w.
Proof.
  induction w as [|w IH]; intros z acc Hz.
  - simpl. rewrite Z.mod_1_r. split; [f_equal; lia|reflexivity].
  - cbn [print_hex_fixed].
    assert (Hq : 0 <= z / 16) by (apply Z.div_pos; lia).
    destruct (IH _ acc Hq) as (V & L).
    pose proof (Z.mod_pos_bound z 16 ltac:(lia)) as Hm.
    split.
    + rewrite hex_value_acc_app, V. simpl. rewrite hex_val_char by lia. f_equal.
      rewrite Nat2Z.inj_succ, Z.pow_succ_r by lia.
      assert (Hp : 0 < 16 ^ Z.of_nat w) by (apply Z.pow_pos_nonneg; lia).
      rewrite Z.rem_mul_r by lia. lia.
    + rewrite app_length, L. simpl. lia.
Qed.

(* ------------------------------------------------------------------ split *)
Lemma split_on_none sep s :
  forallb (fun c => negb (c =? sep)) s = true -> split_on sep s = [s].
Proof.
  induction s as [|c s IH]; simpl; [reflexivity|].
  intro H. apply andb_true_iff in H as [H1 H2]. rewrite IH by assumption.
  destruct (c =? sep); [discriminate|reflexivity].
Qed.

Lemma split_on_one sep a b :
  forallb (fun c => negb (c =? sep)) a = true ->
  forallb (fun c => negb (c =? sep)) b = true ->
  split_on sep (a ++ sep :: b) = [a; b].
Proof.
  intros Ha Hb. induction a as [|c a IH]; simpl.
  - rewrite split_on_none by assumption. rewrite Z.eqb_refl. reflexivity.
  - simpl in Ha. apply andb_true_iff in Ha as [H1 H2]. rewrite IH by assumption.
    destruct (c =? sep); [discriminate|reflexivity].
Qed.
